(* C02 -- Unmodified round trip preserves module content.
   "Encoding an unmodified parsed module reproduces the same types, imports, functions (signatures, locals,
    instructions), tables, memories, globals, exports, start function, element and data segments, tags, and custom
    sections, in the same order; only section framing and name-section layout may change.  Names decoded from the output
    equal the names in the input."  Quantifier: valid modules over MVP, multi-value, reference types, bulk memory, SIMD,
    tail calls, GC types, exceptions, threads, memory64, multi-memory (with the flag); no extended-const.

   The property is FALSE of /repo today, in exactly these input classes:
     D10a (101)  a value type exnref / nullexnref in the type section or in a local declaration comes back non-nullable
                 ((ref exn) / (ref noexn)): src/ir/types.rs DataType has no nullable Exn / NoExn variant;
     D09i / D09j (909, 910)  a valid module whose name section has an undecodable entry (name not UTF-8, map shorter
                 than its count) is rejected with Err -- there is no output.  (Until the repair these inputs made the
                 parse panic; rejecting them is still a failure of "parsing succeeds on every valid module".)
   (Repaired: D09a-d -- a name section before the code section, function names past the last function and producers
   sections with zero / unknown / non-UTF-8 fields are now parsed and round-trip.  D10b contref / D10c shared heap
   types are the same defect as D10a outside the quantified profiles: table-level witnesses only.  D23 "names
   silently lost when the name section precedes later content" never existed on valid modules; with the repair of
   D09a an early name section keeps every name.)

   What is established:
   * C02_valtype_faithful / C02_valtype_class_exact (Coq proof over the conversion tables *generated* from
     src/ir/types.rs on every check): ValType -> DataType -> wasm_encoder::ValType is the identity on every value type
     the binary reader can produce, exactly outside the class D10; C02_valtype_refuted: exnref is a witness.
   * C02_checker_sound (Coq proof): on a sampled case where model and implementation agree, the parse model predicts Ok
     and no converted value type is in D10, the decoded content of input and output is equal (C02 holds of the
     observation); C02_failures_are_known: every failure on an agreeing modelled case is in a known class (or the
     parse model predicts Err, which the sampling never saw on a valid input).
   * the differential run: for generated valid modules of every profile and the hand-written corpus/roundtrip/*.wat,
     decoded input vs decoded output (item texts per kind, twelve name maps, custom section list), the parse outcome
     predicted by Model/ParseGlue.v, content equality predicted as "no D10 type", the generated tables vs the real
     conversions.
   PARTIAL: there is no Gallina model of Module::encode's emission -- that it re-emits every section faithfully is
   sampled (differentially, on decoded forms), not proved; wasmparser / wasmprinter / wasm-encoder are trusted. *)
From Coq Require Import List NArith Bool.
From Orca Require Import Base.Util Model.ParseGlue Model.ValTypes Gen.GenDataTypeConv Proofs.ValTypeProofs
                         Check.CheckParse Check.CheckRoundtrip Proofs.RoundtripProofs.
Import ListNotations.
Local Open Scope N_scope.

Theorem C02_valtype_faithful : forall t, in_profile t -> known_D10 t = false -> roundtrip_enc t = Some t.
Proof. exact valtype_faithful. Qed.
Print Assumptions C02_valtype_faithful.

Theorem C02_valtype_class_exact : forall t, in_profile t -> (roundtrip_enc t = Some t <-> known_D10 t = false).
Proof. exact valtype_faithful_iff. Qed.
Print Assumptions C02_valtype_class_exact.

Theorem C02_storage_faithful : forall s, storage_in_profile s -> storage_known_D10 s = false -> roundtrip_storage s = Some s.
Proof. exact storage_faithful. Qed.

Theorem C02_valtype_refuted : exists t, in_profile t /\ roundtrip_enc t <> Some t.
Proof. exact valtype_refuted. Qed.
Print Assumptions C02_valtype_refuted.
(* exnref comes back as (ref exn) *)
Example C02_refuted_D10_exnref : roundtrip_enc (VRef true (HAbs false AExn)) = Some (VRef false (HAbs false AExn)).
Proof. exact valtype_refuted_exnref. Qed.
Example C02_refuted_D10_nullexnref : roundtrip_enc (VRef true (HAbs false ANoExn)) = Some (VRef false (HAbs false ANoExn)).
Proof. exact valtype_refuted_nullexnref. Qed.
(* outside the quantified profiles *)
Example C02_refuted_D10_contref : roundtrip_enc (VRef true (HAbs false ACont)) = Some (VRef false (HAbs false ACont)).
Proof. exact valtype_refuted_contref. Qed.
Example C02_refuted_D10_shared : roundtrip_enc (VRef true (HAbs true AAny)) = Some (VRef true (HAbs false AAny)).
Proof. exact valtype_refuted_shared. Qed.
(* the wasmparser direction (add_global, BlockType -- not used by the unmodified round trip) used to turn (ref func) into
   funcref (D10d / D30, repaired): both directions keep it, and the wasmparser direction is faithful outside D10 too *)
Example C02_wp_direction_ref_func : roundtrip_wp (VRef false (HAbs false AFunc)) = Some (VRef false (HAbs false AFunc))
                                    /\ roundtrip_enc (VRef false (HAbs false AFunc)) = Some (VRef false (HAbs false AFunc)).
Proof. split; [exact valtype_wp_keeps_ref_func | exact valtype_enc_keeps_ref_func]. Qed.
Theorem C02_valtype_wp_faithful : forall t, in_profile t -> known_D10 t = false -> roundtrip_wp t = Some t.
Proof. exact valtype_wp_faithful. Qed.
Theorem C02_wp_direction_agrees_with_enc : forall d,
  match d with DT_RecGroup _ | DT_CoreTypeId _ => True | _ => to_val_wp d = to_val_enc d end.
Proof. exact to_val_wp_agrees_with_enc. Qed.
Print Assumptions C02_wp_direction_agrees_with_enc.

Theorem C02_checker_sound : forall c, agree02 c = true -> pred_parse c = OOk -> d10_in c = false -> holds02 c = true.
Proof. exact checker_sound02. Qed.
Print Assumptions C02_checker_sound.

Theorem C02_failures_are_known : forall c, agree02 c = true -> modelled_rt c = true -> holds02 c = false ->
  pred_parse c = OErr \/ known_rt c <> [].
Proof. exact failures02_are_known. Qed.
Print Assumptions C02_failures_are_known.

Theorem C02_conv_table_validated : forall c, agree_parse c = true ->
  forall t o, In (t, o) (rc_conv c) -> opt_valtype_eqb (roundtrip_enc t) o = true.
Proof. exact conv_table_validated. Qed.

(* non-trivial cases satisfying the hypotheses *)
Definition ex_mod : list mev :=
  [MVersion 1; MTypes [true; true] true; MFuncs [0; 1] true; MCodeStart 2; MCodeEntry true true true false; MCodeEntry true true true false;
   MName [NSOther; NSFunc [NIdx 0; NIdx 1]; NSInd [IIMap true]]; MIgnored].
Definition ex_items : list (list N) := [[11; 12]; []; [21; 22]; []; []; []; [31]; []; []; []; []].
(* a module that round-trips *)
Example C02_case_holds :
  let c := mkRCase false ex_mod OOk OOk true true ex_items ex_items [[5]; [6; 7]] [[5]; [6; 7]]
                   [(3, 4)] [(3, 4)] [(VI32, Some VI32); (VRef true (HAbs false AFunc), Some (VRef true (HAbs false AFunc)))] in
  agree02 c = true /\ pred_parse c = OOk /\ d10_in c = false /\ holds02 c = true.
Proof. vm_compute. repeat split; reflexivity. Qed.
(* the D10 witness as observed: (type (func (param exnref))): the type and the function text change *)
Example C02_case_D10 :
  let c := mkRCase false ex_mod OOk OOk true false ex_items [[11; 99]; []; [21; 98]; []; []; []; [31]; []; []; []; []] [] [] [] []
                   [(VRef true (HAbs false AExn), Some (VRef false (HAbs false AExn)))] in
  agree02 c = true /\ holds02 c = false /\ known_rt c = [101].
Proof. vm_compute. repeat split; reflexivity. Qed.
(* D09i as observed after the repair of the panic: a valid module with an undecodable type-name entry is rejected *)
Example C02_case_D09i :
  let c := mkRCase false [MVersion 1; MTypes [true] true; MName [NSOther; NSMap false]; MIgnored] OErr OErr true false
                   [[11]; []; []; []; []; []; []; []; []; []; []] [[]; []; []; []; []; []; []; []; []; []; []] [] [] [] [] [] in
  agree02 c = true /\ holds02 c = false /\ pred_parse c = OErr /\ known_rt c = [909].
Proof. vm_compute. repeat split; reflexivity. Qed.
