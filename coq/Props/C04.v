(* C04 — encoding is deterministic: the same input and the same sequence of library calls produce byte-identical
   output in every run and every process.  Statements only.

   What is proved, for ALL inputs: every HashMap iteration on the encode path is order-free.  Since the repair of D11
   (ModuleTypes::new now sorts the keys of the HashMap before it fills the dedup map) this includes the type dedup map:
   C04_types_map_order is unconditional.  "Order" is an explicit parameter of the models (Model/HashOrder.v,
   Model/Types.v); the tie to /repo is (a) the inventory theorem over Gen/GenHashIter.v, regenerated from /repo/src on
   every run: the iterations classified in Model/HashIterSites.v are exactly the iterations over hash-typed values in the
   files of the encode path, none of them is order-dependent, and there is no clock / thread / environment / RandomState /
   pointer-cast use in them; (b) the k-process runs of harness/src/bin/determ.rs evaluated by Check/CheckDeterm.v.
   History: before the repair a request for a type the input has twice was answered with a hash-seed-dependent id
   (C04_types_map_order_refuted keeps the witness, together with what the repaired code does on it). *)
From Coq Require Import List NArith ZArith Bool Permutation.
Import ListNotations.
From Orca Require Import Util Flat Lowering Types CheckTypes TypesProofs HashOrder CheckDeterm DetermProofs.
From Orca Require Reindex.
From Orca Require Import Gen.GenHashIter Model.HashIterSites.

(* ---------- (i) resolve_on_end[b] : HashMap<InstrumentationMode, InstrToInject>, iterated at the block's `end` ---------- *)

(* resolving the After entry and the Before entry in either order yields the same flags *)
Theorem C04_ron_modes_commute :
  forall (a b : list fop) (f : flags), w_after a (w_before b f) = w_before b (w_after a f).
Proof. exact ron_modes_commute. Qed.
Print Assumptions C04_ron_modes_commute.

(* the loop `for (mode, instr_to_inject) in to_resolve.iter() { resolve_bodies(..) }` over entries with distinct modes
   gives the same flags in any permutation *)
Theorem C04_ron_entries_permutation :
  forall (es es' : list (imode * pend)),
    Permutation es es' -> NoDup (map fst es) -> forall w, resolve_entries es w = resolve_entries es' w.
Proof. exact ron_entries_permutation. Qed.
Print Assumptions C04_ron_entries_permutation.

(* hence Lowering.resolve_pend2 (which fixes the order Before, After) is what every iteration order computes *)
Theorem C04_ron_any_order :
  forall (ord : list imode) (p : pend2) (w : flags),
    Permutation ord [IBefore; IAfter] -> resolve_pend2_ord ord p w = resolve_pend2 p w.
Proof. exact ron_any_order. Qed.
Print Assumptions C04_ron_any_order.

(* ---------- (ii) resolve_on_else_or_end : only ever the key Before ---------- *)
Theorem C04_roe_single_key :
  forall (bs : list (list fop)),
    (forall e, In e (roe_map bs) -> fst e = IBefore)
    /\ (length (roe_map bs) <= 1)%nat
    /\ (forall es, Permutation (roe_map bs) es -> es = roe_map bs)
    /\ (forall k st w, bs <> [] -> ron_get k (r_roe st) = Some (mkPend2 (mkPend [] bs) pend0) ->
          resolve_entries (roe_map bs) w = snd (resolve_roe k st w)).
Proof. exact roe_single_key. Qed.
Print Assumptions C04_roe_single_key.

(* ---------- (iii) the id maps are looked up, never iterated ---------- *)
Theorem C04_mapping_lookup_order_free :
  forall (l : list Reindex.item) (m' : list (N * N)),
    Permutation (Reindex.mapping l) m' -> forall k, Reindex.lookup m' k = Reindex.lookup (Reindex.mapping l) k.
Proof. exact mapping_lookup_order_free. Qed.
Print Assumptions C04_mapping_lookup_order_free.

(* ---------- (iv) types_map: keys collected in hash order, sorted, inserted in ascending order ---------- *)

(* whatever order `types.keys()` visits the ids in, the sorted list is the ascending one *)
Theorem C04_sort_ids_canonical :
  forall (n : nat) (o : list N), Permutation o (asc_ids n) -> sort_ids o = asc_ids n.
Proof. exact sort_ids_canonical. Qed.
Print Assumptions C04_sort_ids_canonical.

(* UNCONDITIONAL -- also when the input has structurally equal types: under any two visiting orders ModuleTypes::new
   builds the same dedup map (the one of the ascending order: of several equal types the highest id wins), every
   add_type returns the same id and state, and so does every sequence of additions through the seven public paths *)
Theorem C04_types_map_order :
  forall (types : list ctype) (o1 o2 : list N),
    Permutation o1 (asc_ids (length types)) -> Permutation o2 (asc_ids (length types)) ->
    build_map_sorted types o1 = build_map_sorted types o2
    /\ build_map_sorted types o1 = build_map types (asc_ids (length types))
    /\ (forall groups ty, add_type ty (mkTS groups types (build_map_sorted types o1))
                          = add_type ty (mkTS groups types (build_map_sorted types o2)))
    /\ (forall groups ops, api_run ops (mkTS groups types (build_map_sorted types o1))
                           = api_run ops (mkTS groups types (build_map_sorted types o2))).
Proof. exact types_map_order. Qed.
Print Assumptions C04_types_map_order.

(* History (what made the pre-repair code deterministic outside D11; still true of insertion in an arbitrary order, no
   longer needed): if no request is for a type the input has twice, the returned ids and the emitted type section do not
   depend on the insertion order *)
Theorem C04_partial_types :
  forall (base : tgroups) (o1 o2 : list N) (ops : list (N * ctype)),
    same_visits o1 o2 ->
    (forall op, In op ops -> at_most_once (api_type (fst op) (snd op)) (flat base)) ->
    fst (api_run ops (parse_types base o1)) = fst (api_run ops (parse_types base o2))
    /\ emit_types (snd (api_run ops (parse_types base o1))) = emit_types (snd (api_run ops (parse_types base o2))).
Proof. exact types_map_order_seq. Qed.
Print Assumptions C04_partial_types.

(* History of D11, and the repaired behaviour on the same witness: inserting in the visiting order itself, two orders
   answered a request for a duplicated type with different ids; with the keys sorted first both answer 2 *)
Theorem C04_types_map_order_refuted :
  exists (base : tgroups) o1 o2 ty,
    Permutation o1 (asc_ids (length (flat base))) /\ Permutation o2 (asc_ids (length (flat base)))
    /\ ~ at_most_once ty (flat base)
    /\ fst (add_type ty (parse_types base o1)) <> fst (add_type ty (parse_types base o2))
    /\ fst (add_type ty (parse_types base (sort_ids o1))) = 2%N
    /\ fst (add_type ty (parse_types base (sort_ids o2))) = 2%N
    /\ parse_types base (sort_ids o1) = parse_types_asc base.
Proof. exact types_map_order_history. Qed.
Print Assumptions C04_types_map_order_refuted.

(* ---------- (v) the inventory obligation ---------- *)
Theorem C04_inventory :
  map fst hash_site_status = gen_hash_sites
  /\ hash_decls_reviewed = gen_hash_decls
  /\ gen_other_sources = []
  /\ order_dependent_classes = [].
Proof.
  split; [exact hashiter_sites_covered|]. split; [exact hashiter_decls_covered|].
  split; [|exact hashiter_no_order_dependent].
  destruct hashiter_no_other_source as [H1 H2]. rewrite H1. exact H2.
Qed.
Print Assumptions C04_inventory.

(* history: the former D11 class predicate (now a statistic) is the hypothesis of C04_partial_types, on type tokens *)
Theorem C04_outside_D11_at_most_once :
  forall (base added : list N),
    d11_pred base added = false ->
    forall t, In t added -> forall i j, nth_error base i = Some t -> nth_error base j = Some t -> i = j.
Proof. exact outside_D11_at_most_once. Qed.
Print Assumptions C04_outside_D11_at_most_once.

(* ---------- the checker ---------- *)
Theorem C04_checker_sound :
  forall c, agree04 c = true ->
    holds04 c = true /\ forall a b, In a (dc_obs c) -> In b (dc_obs c) -> a = b.
Proof. exact checker04_sound. Qed.
Print Assumptions C04_checker_sound.

(* ---------- non-vacuity ---------- *)
Definition ex_p : pend2 := mkPend2 (mkPend [] [[FConst 1%Z; FDrop]]) (mkPend [([FConst 2%Z; FDrop], 7%N)] [[FConst 3%Z; FDrop]]).
Definition ex_w : flags := mkFlags [FConst 0%Z] [FDrop] None [] [] [] None.
Example C04_ex_ron :
  resolve_pend2_ord [IAfter; IBefore] ex_p ex_w = resolve_pend2 ex_p ex_w
  /\ f_before (resolve_pend2 ex_p ex_w) = [FConst 0%Z; FConst 1%Z; FDrop]
  /\ f_after (resolve_pend2 ex_p ex_w) = [FDrop; FLocalGet 7; FIf BtEmpty; FConst 2%Z; FDrop; FEnd; FConst 3%Z; FDrop]
  (* two entries of the SAME mode do not commute: distinct keys are essential *)
  /\ resolve_entries [(IBefore, pb ex_p); (IBefore, pa ex_p)] ex_w <> resolve_entries [(IBefore, pa ex_p); (IBefore, pb ex_p)] ex_w.
Proof. repeat split; try (vm_compute; reflexivity). vm_compute. discriminate. Qed.

Example C04_ex_roe :
  roe_map [[FConst 1%Z]; [FConst 2%Z]] = [(IBefore, mkPend [] [[FConst 1%Z]; [FConst 2%Z]])]
  /\ f_before (resolve_entries (roe_map [[FConst 1%Z]; [FConst 2%Z]]) ex_w) = [FConst 0%Z; FConst 1%Z; FConst 2%Z].
Proof. split; vm_compute; reflexivity. Qed.

(* a type section WITH equal types (ids 0 and 2) satisfies the hypotheses of C04_types_map_order; both visiting orders
   answer the request for the duplicated type with the highest id *)
Example C04_ex_types :
  let types := [d11_F [0%N] []; d11_F [1%N] []; d11_F [0%N] []] in
  Permutation [2; 0; 1]%N (asc_ids (length types))
  /\ Permutation [1; 2; 0]%N (asc_ids (length types))
  /\ fst (add_type (d11_F [0%N] []) (mkTS [] types (build_map_sorted types [2; 0; 1]%N))) = 2%N
  /\ fst (add_type (d11_F [0%N] []) (mkTS [] types (build_map_sorted types [1; 2; 0]%N))) = 2%N
  (* without the sort the first order would have answered 0 *)
  /\ fst (add_type (d11_F [0%N] []) (mkTS [] types (build_map types [2; 0; 1]%N))) = 0%N.
Proof.
  cbn zeta. split; [|split].
  - change (asc_ids 3) with [0; 1; 2]%N. apply Permutation_sym.
    apply (perm_trans (l' := [0; 2; 1]%N)); [apply perm_skip, perm_swap|apply perm_swap].
  - change (asc_ids 3) with [0; 1; 2]%N. apply Permutation_sym.
    apply (perm_trans (l' := [1; 0; 2]%N)); [apply perm_swap|apply perm_skip, perm_swap].
  - vm_compute. repeat split; reflexivity.
Qed.

(* the checker on a deterministic case, on a deterministic case that asks for a duplicated type, and on two
   nondeterministic cases (now always a mismatch and an unlisted failure) *)
Example C04_ex_checker :
  report_C04 [mkDC 0 false [5; 11] [11] [(0, 77); (0, 77)];
              mkDC 2 false [5; 11; 5] [5] [(0, 77); (0, 77)];
              mkDC 2 false [5; 11; 5] [5] [(0, 77); (0, 78)];
              mkDC 1 true [5] [] [(1, 0); (0, 77)]]%N
  = (4, [2; 3], [2; 3], [], 4, 0)%N.
Proof. vm_compute. reflexivity. Qed.
