(* C23 — the side-effect report lists exactly the tagged additions and probes.  Statements only. *)
From Coq Require Import List Arith NArith ZArith Bool.
Import ListNotations.
From Orca Require Import Util Flat Lowering Reindex CheckReidx SelfReidx SideFx CheckSideFx SideFxProofs.
Local Open Scope N_scope.

(* For every state of the module (hence for every history): the records of every kind of addition are, in order,
   exactly the image of the items of that kind that have a tag (for functions / globals: that are locally defined
   and not deleted; for exports and import entries: not deleted; for memories: locally defined) - one record per
   tagged item, carrying its tag and content, none for an item without a tag. *)
Theorem C23_additions :
  forall (s : sst) (lf lg lm : list item),
  fx_types s = map (fun ct => mkRec [fst ct] [] (tgtok (snd ct))) (filter (fun ct => has_tag (snd ct)) (t_types s))
  /\ fx_imports s = map (fun pi : N * imp => mkRec [i_sp (snd pi); i_fp (snd pi)] [] (tgtok (lookup (t_imp_tag s) (fst pi))))
                        (filter (fun pi : N * imp => negb (i_del (snd pi)) && has_tag (lookup (t_imp_tag s) (fst pi))) (number 0 (m_imports (t_m s))))
  /\ fx_exports s = map (fun e => mkRec [x_name e; x_kind e; x_index e] [] (tgtok (x_tag e)))
                        (filter (fun e => negb (x_del e) && has_tag (x_tag e)) (t_exports s))
  /\ fx_data s = map (fun d => mkRec [if d_active d then 1 else 0; d_byte d; if d_active d then d_mem d else 0] [] (tgtok (d_tag d)))
                     (filter (fun d => has_tag (d_tag d)) (t_data s))
  /\ fx_funcs s lf = map (fun it => mkRec [it_fp it; it_id it] (match bget (t_fbody s) (it_id it) with Some b => b | None => [] end)
                                          (tgtok (lookup (t_ftag s) (it_id it))))
                         (filter (fun it => negb (it_del it || is_import it) && has_tag (lookup (t_ftag s) (it_id it))) lf)
  /\ fx_globals s lg = map (fun it => mkRec [it_fp it; it_id it] [] (tgtok (lookup (t_gtag s) (it_id it))))
                           (filter (fun it => negb (it_del it || is_import it) && has_tag (lookup (t_gtag s) (it_id it))) lg)
  /\ fx_mems s lm = map (fun it => mkRec [it_fp it; it_id it] [] (tgtok (lookup (t_mtag s) (it_id it))))
                        (filter (fun it => negb (is_import it) && has_tag (lookup (t_mtag s) (it_id it))) lm).
Proof. exact additions_exact. Qed.
Print Assumptions C23_additions.

(* For every input module and every history: when the report is pulled, no item of the parsed module has a tag
   (functions, globals, memories by stored id below the parsed count; import entries by position; the parsed
   types, exports and data segments by position) - with C23_additions: no record for a parsed item. *)
Theorem C23_parsed_items_unreported :
  forall (c : scase) (h : list sop) (s : sst) rets p,
    srun_pref (sinit c) h [] = (s, rets, p) -> untagged_base c s.
Proof. exact parsed_items_unreported. Qed.
Print Assumptions C23_parsed_items_unreported.

(* Code bodies of probe records use the index space of the encoded module: every probe body that
   add_opcode_injections reports occurs verbatim, with the same index immediates, in the code the encoder emits for the
   function (since the repair of D205 without exception: the after / alternate list of the final `end`, which the
   encoder drops, is not reported). *)
Theorem C23_probe_ids :
  forall mf mg mm (r : list (fop * flags)) pos last idx tagof recs body,
    fx_loc_probes pos last idx r tagof (remap_all mf mg mm) = Some recs ->
    remap_all mf mg mm (emit_from last idx r) = Some body ->
    forall rc, In rc recs -> exists pre post, body = pre ++ r_body rc ++ post.
Proof. exact probe_bodies_are_emitted. Qed.
Print Assumptions C23_probe_ids.

(* the boolean checker evaluated on the observed report means the property *)
Theorem C23_checker_sound :
  forall (c : scase) fx e emitted,
    holds c = true -> so_fx c = Some fx -> so_enc c = Some (e, emitted) -> Report_ok c fx e emitted.
Proof. exact sidefx_checker_sound. Qed.
Print Assumptions C23_checker_sound.

(* The report of a function with special instrumentation (built by resolve_special_instrumentation since the repair of
   D22): every record is the list of exactly one (instruction, mode) of the flags as they are before the special modes are
   lowered - its operators re-mapped into the index space of the encoded module, under that very instruction and mode,
   with the tag appended in that mode. *)
Theorem C23_special_probes_reported_as_injected :
  forall pos tagof remap body last idx st recs rc,
    fx_unresolved pos last idx body st tagof remap = Some recs -> In rc recs ->
    exists k op f m, nth_error body k = Some (op, f) /\ mode_list f m <> [] /\ remap (mode_list f m) = Some (r_body rc) /\
                     r_fields rc = [1; mcode m; N.of_nat (idx + k); pos] /\ r_tag rc = tagof (idx + k)%nat m.
Proof. exact unresolved_records_are_probes. Qed.
Print Assumptions C23_special_probes_reported_as_injected.

(* ---- repaired (fix: commits in /repo): the former refutation witnesses are positive examples now ---- *)
Definition probes_reported (c : scase) (recs : list srec) : Prop :=
  agree c = true /\ dom_of (verdict23 c) = true /\ holds_of (verdict23 c) = true /\ known_of (verdict23 c) = []
  /\ option_map (fun fx => recs_of fx K_PROBE) (so_fx c) = Some recs.
(* former D22: a tagged function-entry probe is reported once, as FuncProbe with its tag *)
Example C23_repaired_D22_entry :
  probes_reported (self_s [] [11] [] [] 1 [] 0 0 [FConst 11; FDrop; FEnd] [] [] (Some ([FConst 100001; FDrop], Some 1)) None)
                  [mkRec [0; 0; 0; 0] [FConst 100001; FDrop] 1].
Proof. vm_compute. repeat split; reflexivity. Qed.
(* former D22: a tagged block-entry probe is reported as the block-entry probe of the block instruction, with its tag *)
Example C23_repaired_D22_block_entry :
  probes_reported (self_s [] [11] [] [] 1 [] 0 0 [FConst 11; FDrop; FBlock BtEmpty; FEnd; FEnd] []
                     [(2%nat, MBlockEntry, [FConst 100001; FDrop], Some 1)] None None)
                  [mkRec [1; 4; 2; 0] [FConst 100001; FDrop] 1].
Proof. vm_compute. repeat split; reflexivity. Qed.
(* special and plain probes side by side, with an index shift: a block-alt that removes a region (the before / after code
   of the removed `nop` is still encoded and reported, a block-exit inside it is dropped), a semantic-after on the
   block, function exit *)
Example C23_repaired_D22_mixed :
  probes_reported (self_s [] [11] [] [] 1 [] 0 0 [FConst 11; FDrop; FBlock BtEmpty; FBlock BtEmpty; FOther 1; FEnd; FEnd; FEnd]
                     [SAddImport SF 5 0]
                     [(3%nat, MBlockAlt, [FConst 100001; FDrop; call_op 0], Some 1); (4%nat, MBefore, [FConst 100002; FDrop], Some 2);
                      (3%nat, MBlockExit, [FConst 100003; FDrop], Some 3); (2%nat, MSemanticAfter, [FConst 100004; FDrop], Some 4)]
                     None (Some ([FConst 100005; FDrop], Some 5)))
                  [mkRec [0; 1; 0; 1] [FConst 100005; FDrop] 5; mkRec [1; 3; 2; 1] [FConst 100004; FDrop] 4;
                   mkRec [1; 6; 3; 1] [FConst 100001; FDrop; call_op 1] 1; mkRec [1; 0; 4; 1] [FConst 100002; FDrop] 2].
Proof. vm_compute. repeat split; reflexivity. Qed.
(* former D204 (repaired): an imported global added with a tag and deleted again is not reported *)
Example C23_repaired_204 :
  let c := self_s [] [11] [] [] 1 [] 0 0 [FConst 11; FDrop; FEnd] [SAddImport SG 5 1; SDelete SG 0] [] None None in
  agree c = true /\ dom_of (verdict23 c) = true /\ holds_of (verdict23 c) = true /\ so_fx c = Some [].
Proof. vm_compute. repeat split; reflexivity. Qed.
(* former D205 (repaired): an `after` probe on the function's final `end` is dropped by the encoder and not reported *)
Example C23_repaired_205 :
  let c := self_s [] [11] [] [] 1 [] 0 0 [FConst 11; FDrop; FEnd] [SAddImport SF 5 0]
             [(2%nat, MAfter, [FConst 100001; FDrop; call_op 0], Some 1); (2%nat, MBefore, [FConst 100002; FDrop; call_op 0], Some 2)] None None in
  agree c = true /\ dom_of (verdict23 c) = true /\ holds_of (verdict23 c) = true /\ known_of (verdict23 c) = []
  /\ option_map (fun fx => recs_of fx K_PROBE) (so_fx c) = Some [mkRec [1; 0; 2; 1] [FConst 100002; FDrop; call_op 1] 2].
Proof. vm_compute. repeat split; reflexivity. Qed.

(* ---- non-vacuity: tagged / default-tagged / untagged additions of every kind, a deduplicated type, a deleted
   export, parsed items of every kind, index-shifting imports, and tagged / untagged before / after / alternate
   probes with index-bearing operators: the property holds, outside every known class ---- *)
Example C23_nonvacuous :
  let c := self_s [(0, 1); (1, 2)] [11; 12] [21] [31] 2 [2] 1 1 [FConst 11; FDrop; FOther 1; FEnd]
     [SAddType 3 (Some 1); SAddType 0 (Some 2); SAddImport SF 5 3; SAddImport SG 6 0; SAddLocal SF 41 [FConst 41; FDrop; call_op 2] 4;
      SAddLocal SG 22 [] 5; SAddLocal SM 32 [] 6; SItAddGlobal 23 None; SAddExport SF 3 100 (Some 7); SAddExport SM 0 101 None;
      SDeleteExport 0; SAddData true 0 50 (Some 8); SAddData false 0 51 None]
     [(2%nat, MBefore, [FConst 100001; FDrop; call_op 3; gget_op 1; FDrop], Some 9);
      (2%nat, MAfter, [FConst 100002; FDrop; msize_op 0; FDrop], None);
      (2%nat, MAlternate, [FConst 100003; FDrop], Some 10)] None None in
  agree c = true /\ dom_of (verdict23 c) = true /\ holds_of (verdict23 c) = true /\ known_of (verdict23 c) = []
  /\ option_map (fun fx => map (fun kv => (fst kv, lenN (snd kv))) fx) (so_fx c)
     = Some [(0, 1); (1, 2); (2, 1); (3, 1); (4, 1); (5, 1); (6, 1); (10, 3)].
Proof. vm_compute. repeat split; reflexivity. Qed.
