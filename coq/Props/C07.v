(* C07 — global references stay bound to the same global across edits.  Statements only. *)
From Coq Require Import List Arith NArith Bool.
Import ListNotations.
From Orca Require Import Util Reindex Reorg ReidxProofs CheckReidx SelfReidx GenRefers RefersThm.
Local Open Scope N_scope.

(* the index-space theorems are shared by the three re-indexed spaces (functions, globals, memories) *)
Theorem C07_index_space_closed_form :
  forall s : space, s_recalc s = true -> (N.to_nat (s_num s - s_added s) <= length (s_items s))%nat ->
    forall l m, index_space s = Ok (l, m) ->
      l = spec (N.to_nat (s_num s - s_added s)) (s_items s) /\ m = mapping l.
Proof. exact index_space_closed_form. Qed.
Print Assumptions C07_index_space_closed_form.
Theorem C07_mapping_position :
  forall l p it, NoDup (map it_id l) -> nth_error l p = Some it -> lookup (mapping l) (it_id it) = Some (N.of_nat p).
Proof. exact mapping_pos. Qed.
Print Assumptions C07_mapping_position.

(* over the regenerated tables: the 11 operators with a global_index field (global.get/set and the nine atomic
   global operators) are exactly the classified and rewritten ones *)
Theorem C07_global_operator_tables_exact :
  missing ops_with_global_index refers_to_global_list = [] /\ missing refers_to_global_list ops_with_global_index = [].
Proof. exact refers_to_global_complete. Qed.
Print Assumptions C07_global_operator_tables_exact.

(* D03: global exports are copied, not re-indexed *)
Example C07_refuted_D03 :
  let c := self_r [] [99] [5] [] [AddImport SG 21] [mkSite KExport SG 0 (OExport 0); mkSite KCode SG 0 (OFunc 0)] in
  agree c = true /\ dom_of (verdict07 c) = true /\ holds_of (verdict07 c) = false /\ known_D03 c = true.
Proof. vm_compute. repeat split; reflexivity. Qed.
(* D24: iterator-level add_global followed by add_imported_global: the second call returns an id that
   already designates the first global *)
Example C07_refuted_D24 :
  let c := self_r [] [99] [] [] [ItAddGlobal 31; AddImport SG 21] [mkSite KCode SG 0 (OFunc 0)] in
  agree c = true /\ dom_of (verdict07 c) = true /\ holds_of (verdict07 c) = false /\ known_D24 c = true
  /\ o_rets c = [Some 0; Some 0].
Proof. vm_compute. repeat split; reflexivity. Qed.
Example C07_nonvacuous :
  let c := self_r [(1, 1)] [99] [5; 6] [] [AddImport SG 21; Delete SG 1; AddLocal SG 31]
             [mkSite KCode SG 0 (OFunc 0); mkSite KCode SG 2 (OFunc 0); mkSite KCode SG 3 (OFunc 0); mkSite KCode SG 4 (OFunc 0);
              mkSite KInit SG 0 (OGlobal 2); mkSite KDataOff SG 0 ONone] in
  agree c = true /\ dom_of (verdict07 c) = true /\ holds_of (verdict07 c) = true.
Proof. vm_compute. repeat split; reflexivity. Qed.
