(* C07 — global references stay bound to the same global across edits.  Statements only. *)
From Coq Require Import List Arith NArith Bool.
Import ListNotations.
From Orca Require Import Util Reindex Reorg ReidxProofs ReidxBind ReidxInv CheckReidx SelfReidx GenRefers RefersThm ReidxHandles.
Local Open Scope N_scope.

(* the index-space theorems are shared by the three re-indexed spaces (functions, globals, memories) *)
Theorem C07_index_space_closed_form :
  forall s : space, s_recalc s = true -> (N.to_nat (s_num s - s_added s) <= length (s_items s))%nat ->
    forall l m, index_space s = Ok (l, m) ->
      l = spec (N.to_nat (s_num s - s_added s)) (s_items s) /\ m = mapping l.
Proof. exact index_space_closed_form. Qed.
Print Assumptions C07_index_space_closed_form.
Theorem C07_mapping_position :
  forall l p it, NoDup (map it_id l) -> nth_error l p = Some it -> lookup (mapping l) (it_id it) = Some (N.of_nat p).
Proof. exact mapping_pos. Qed.
Print Assumptions C07_mapping_position.

(* over the regenerated tables: the 11 operators with a global_index field (global.get/set and the nine atomic
   global operators) are exactly the classified and rewritten ones *)
Theorem C07_global_operator_tables_exact :
  missing ops_with_global_index refers_to_global_list = [] /\ missing refers_to_global_list ops_with_global_index = [].
Proof. exact refers_to_global_complete. Qed.
Print Assumptions C07_global_operator_tables_exact.

(* the former D03 witness (global exports used to be copied): the export of global 0 is re-indexed with the global
   when add_imported_global moves it, and the property holds *)
Example C07_former_D03_witness_holds :
  let c := self_r [] [99] [5] [] [AddImport SG 21] [mkSite KExport SG 0 (OExport 0); mkSite KCode SG 0 (OFunc 0)] in
  agree c = true /\ dom_of (verdict07 c) = true /\ holds_of (verdict07 c) = true /\ known_of (verdict07 c) = []
  /\ option_map e_sites (o_enc c) = Some [(0, 1); (1, 1)].
Proof. vm_compute. repeat split; reflexivity. Qed.
(* former D24 (iterator-level add_global followed by add_imported_global: the second call returned an id that
   already designated the first global; repaired: the iterator goes through Module::add_global_internal): the
   witness now satisfies the property and the two ids differ *)
Example C07_former_D24_witness_holds :
  let c := self_r [] [99] [] [] [ItAddGlobal 31; AddImport SG 21] [mkSite KCode SG 0 (OFunc 0)] in
  agree c = true /\ dom_of (verdict07 c) = true /\ holds_of (verdict07 c) = true
  /\ o_rets c = [Some 0; Some 1].
Proof. vm_compute. repeat split; reflexivity. Qed.
(* ... and the `global.get g` offset of an active element segment follows its global (the second imported global is
   global 0 after the first one is deleted) *)
Example C07_element_offset_is_reindexed :
  let c := self_r [(1, 1); (1, 2)] [99] [] [] [Delete SG 0] [mkSite KElemOff SG 1 ONone] in
  agree c = true /\ dom_of (verdict07 c) = true /\ holds_of (verdict07 c) = true
  /\ option_map e_sites (o_enc c) = Some [(0, 0)].
Proof. vm_compute. repeat split; reflexivity. Qed.
Example C07_nonvacuous :
  let c := self_r [(1, 1)] [99] [5; 6] [] [AddImport SG 21; Delete SG 1; AddLocal SG 31]
             [mkSite KCode SG 0 (OFunc 0); mkSite KCode SG 2 (OFunc 0); mkSite KCode SG 3 (OFunc 0); mkSite KCode SG 4 (OFunc 0);
              mkSite KInit SG 0 (OGlobal 2); mkSite KDataOff SG 0 ONone] in
  agree c = true /\ dom_of (verdict07 c) = true /\ holds_of (verdict07 c) = true.
Proof. vm_compute. repeat split; reflexivity. Qed.

(* ---- the binding theorem over every reachable state (Proofs/ReidxInv.v) ----
   [wf] (stored ids are positions, the import-section entries are linked one-to-one to the import items, the
   counters bound the original region) holds of every base module and is preserved by every edit of the API
   model; hence, after ANY history, with no premise left (the former classes D02 / D06 / D26 are repaired: the import
   section is emitted in index order and deleted items are dropped), every live item's id is mapped to the index at
   which Wasm's index rule
   (imports of the kind in import-section order, then the emitted locals) finds exactly that item; deleted items
   have no map entry (a remaining reference makes encode panic) and nothing deleted is left in the space. *)
Theorem C07_wf_is_an_invariant_of_every_edit :
  forall m o m' r, wf m -> Reindex.step m o = Ok (m', r) -> wf m'.
Proof. exact step_wf. Qed.
Print Assumptions C07_wf_is_an_invariant_of_every_edit.
Theorem C07_wf_holds_of_every_base_module : forall c : rcase, wf (mk_base c).
Proof. exact wf_mk_base. Qed.
Print Assumptions C07_wf_holds_of_every_base_module.
Theorem C07_binding_after_any_history :
  forall base h m rets, wf base -> run_pref base h [] = (m, rets, false) ->
  forall x,
  forall l mp, index_space (get_sp m x) = Ok (l, mp) ->
  forall it, In it (s_items (get_sp m x)) -> it_del it = false ->
  exists q, lookup mp (it_id it) = Some q /\ nthN (space_of_model m l x) q = Some (it_fp it).
Proof. exact reachable_binding. Qed.
Print Assumptions C07_binding_after_any_history.
(* the same on what the encoder model emits, in the checker's vocabulary ([designates] = Wasm's index rule on
   the emitted import section and local sections), for every case (no known class is excluded any more) *)
Theorem C07_binding_on_the_emitted_module :
  forall (c : rcase) e,
  encode (final_model c) (dead_exports (h_ops c)) (sites c) = Ok e ->
  forall x l mp, index_space (get_sp (final_model c) x) = Ok (l, mp) ->
  (forall it, In it (s_items (get_sp (final_model c) x)) -> it_del it = false ->
     exists q, lookup mp (it_id it) = Some q /\ designates e x q = Some (it_fp it)) /\
  (forall it, In it (s_items (get_sp (final_model c) x)) -> it_del it = true -> lookup mp (it_id it) = None) /\
  (forall it, In it l -> it_del it = false).
Proof. exact case_binding_outside_known_classes. Qed.
Print Assumptions C07_binding_on_the_emitted_module.
(* the premises are satisfiable after a six-edit history touching all three spaces; the former D02 witness (an import
   added before a conversion) is bound correctly *)
Example C07_binding_nonvacuous : True.
Proof. pose proof reachable_binding_nonvacuous. pose proof reachable_binding_former_D02_witness. exact I. Qed.

(* Stable handles: the id returned for an added global (add_global at module or iterator level) still designates that item after ANY later history
   that does not delete it, in whatever space the other edits happen, and the emitted module has that item at the index
   the id is mapped to -- so a reference through the returned id stays bound to it. *)
Theorem C07_returned_id_stays_bound :
  forall base h1 o fp h2 m0 r0 m1 id m rets dead sites e,
  wf base -> run_pref base h1 [] = (m0, r0, false) ->
  adds o SG fp = true -> Reindex.step m0 o = Ok (m1, Some id) ->
  run_pref m1 h2 [] = (m, rets, false) -> existsb (fun o' => names o' SG id) h2 = false ->
  encode m dead sites = Ok e ->
  forall l mp, index_space (get_sp m SG) = Ok (l, mp) ->
  exists q, lookup mp id = Some q /\ designates e SG q = Some fp.
Proof. intros base h1 o fp. exact (returned_id_designates_in_emitted_module base h1 o SG fp). Qed.
Print Assumptions C07_returned_id_stays_bound.
