(* C26 — a component iterator visits the instructions of the component's modules, in module order,
   exactly as a module iterator visits each module with the corresponding skip list (and injections made
   through it give the same encoded modules: that half is compared byte for byte by the harness, see
   [cc_inj_same] in Check/CheckIter.v).  Statements only; proofs in Proofs/IterProofs.v.

   The property holds of the code after the repair of defects D12 and D13 (no hypothesis on the skip
   map, the script or the shape of the modules). *)
From Coq Require Import List NArith Bool.
Import ListNotations.
From Orca Require Import Util Iter CheckIter IterProofs.
Local Open Scope N_scope.

(* Full strength: against the specification (concatenation over the modules of the C25 visit lists). *)
Theorem C26_visits_exact : forall metas skips k probe,
  forallb wf_meta metas = true ->
  ci_run metas skips k probe = expected_trace (expected_comp metas skips) k probe.
Proof. exact ci_run_exact. Qed.
Print Assumptions C26_visits_exact.

(* In the words of the property, in full: the traversal is the concatenation of the ModuleIterator
   traversals ([concat_module_runs]: module m's ModuleIterator run, locations tagged with m). *)
Theorem C26_as_module_iterators : forall metas skips,
  forallb wf_meta metas = true ->
  ci_run metas skips None false = concat_module_runs 0 metas skips.
Proof. exact ci_run_as_module_runs. Qed.
Print Assumptions C26_as_module_iterators.

(* A ModuleIterator is a ComponentIterator on the component with that single module (no hypothesis). *)
Theorem C26_single_module : forall mt skip k probe, mi_run mt skip k probe = ci_run [mt] [skip] k probe.
Proof. exact mi_is_ci. Qed.
Print Assumptions C26_single_module.

Theorem C26_checker_sound : forall c : ccase,
  agree26 c = true -> domain26 c = true -> holds26 c = cc_inj_same c.
Proof. exact checker26_sound_full. Qed.
Print Assumptions C26_checker_sound.

(* The inputs that refuted the property before the repair of D13 (one per shape). *)
Example C26_last_function_skipped :
  ci_run [[(0, 1); (1, 1)]; [(0, 1)]] [[1]; []] None false = [V 0 0 0 true true; V 1 0 0 true true].
Proof. exact D13_last_function_skipped_now. Qed.
Example C26_module_without_functions :
  ci_run [[(0, 1)]; []] [[]; []] None true = [V 0 0 0 true true; EAfter]
  /\ ci_run [[]; [(0, 1)]; []; [(3, 1)]] [[]; []; []; []] None false = [V 1 0 0 true true; V 3 3 0 true true]
  /\ ci_run [[]] [[]] (Some 2%nat) true = [EReset; EAfter].
Proof. exact D13_module_without_functions_now. Qed.
Example C26_reset :
  ci_run [[(0, 1); (1, 1)]; [(0, 1); (1, 1)]] [[]; [0]] (Some 9%nat) false
  = [V 0 0 0 true true; V 0 1 0 true true; V 1 1 0 true true; EReset; V 0 0 0 true true; V 0 1 0 true true; V 1 1 0 true true].
Proof. exact D13_reset_now. Qed.

(* non-vacuity: two modules, a skipped first function, different skip lists, a reset in the middle *)
Example C26_nonvacuous :
  let metas := [[(1, 2); (2, 3); (3, 1)]; [(0, 3); (1, 1)]] in let skips := [[1]; [1]] in
  forallb wf_meta metas = true /\
  expected_trace (expected_comp metas skips) (Some 1%nat) true
  = [V 0 2 0 false true; V 0 2 1 false true; EReset;
     V 0 2 0 false true; V 0 2 1 false true; V 0 2 2 true true; V 0 3 0 true true;
     V 1 0 0 false true; V 1 0 1 false true; V 1 0 2 true true; EAfter].
Proof. vm_compute. repeat split; reflexivity. Qed.
