(* C26 — a component iterator visits the instructions of the component's modules, in module order,
   exactly as a module iterator visits each module with the corresponding skip list (and injections made
   through it give the same encoded modules: that half is compared byte for byte by the harness, see
   [cc_inj_same] in Check/CheckIter.v).  Statements only; proofs in Proofs/IterProofs.v.

   The property is FALSE of the code as it is (defect D13, and D12 seen through the component iterator).
   [known_D13]: a module other than the last whose last local function is skipped; a module without
   local functions; reset() when the modules' skip lists are not all the same list.
   [known_D12_comp]: some module has one of the D12 shapes of C25. *)
From Coq Require Import List NArith Bool.
Import ListNotations.
From Orca Require Import Util Iter CheckIter IterProofs.
Local Open Scope N_scope.

(* Full strength: against the specification (concatenation over the modules of the C25 visit lists). *)
Theorem C26_visits_exact : forall metas skips k probe,
  metas <> [] -> forallb wf_meta metas = true -> length skips = length metas ->
  known_D12_comp metas skips probe = false -> known_D13 metas skips k = false ->
  ci_run metas skips k probe = expected_trace (expected_comp metas skips) k probe.
Proof. exact ci_run_exact. Qed.
Print Assumptions C26_visits_exact.

(* In the words of the property: the traversal is the concatenation of the ModuleIterator traversals
   ([concat_module_runs]: module m's ModuleIterator run, locations tagged with m).
   FULL statement (relative to whatever the module iterator does, D12 included) -- NOT proved:
   only the events up to the first panic can be compared, since a panic ends the component traversal. *)
Fixpoint upto_panic (l : list ev) : list ev :=
  match l with [] => [] | EPanic :: _ => [EPanic] | x :: r => x :: upto_panic r end.
Definition C26_as_module_iterators_full_statement : Prop := forall metas skips,
  metas <> [] -> forallb wf_meta metas = true -> length skips = length metas ->
  known_D13 metas skips None = false ->
  ci_run metas skips None false = upto_panic (concat_module_runs 0 metas skips).
(* What is proved: the same under the additional hypothesis that no module has a D12 shape (then no run
   panics and [upto_panic] is the identity).  Missing for the full statement: a simulation of the module
   cursor inside the component cursor for module runs that deviate from the specification or panic. *)
Theorem C26_as_module_iterators_partial : forall metas skips,
  metas <> [] -> forallb wf_meta metas = true -> length skips = length metas ->
  known_D12_comp metas skips false = false -> known_D13 metas skips None = false ->
  ci_run metas skips None false = concat_module_runs 0 metas skips.
Proof. exact ci_run_as_module_runs. Qed.
Print Assumptions C26_as_module_iterators_partial.
(* the full statement at least holds on D12-shaped samples (first function skipped with a shorter / longer
   successor, an all-skipped module in the middle) *)
Example C26_as_module_iterators_full_samples :
  let ok metas skips := evs_eqb (ci_run metas skips None false) (upto_panic (concat_module_runs 0 metas skips)) in
  ok [[(0, 1); (1, 3)]; [(0, 2)]] [[0]; []] = true /\
  ok [[(0, 2)]; [(1, 3); (2, 1)]; [(0, 1)]] [[]; [1]; []] = true /\
  ok [[(0, 2)]; [(0, 1)]; [(0, 1)]] [[]; [0]; []] = true.
Proof. vm_compute. auto. Qed.

(* A ModuleIterator is a ComponentIterator on the component with that single module (no hypothesis). *)
Theorem C26_single_module : forall mt skip k probe, mi_run mt skip k probe = ci_run [mt] [skip] k probe.
Proof. exact mi_is_ci. Qed.
Print Assumptions C26_single_module.

Theorem C26_checker_sound : forall c : ccase,
  agree26 c = true -> domain26 c = true -> known26 c = [] -> holds26 c = cc_inj_same c.
Proof. exact checker26_sound_full. Qed.
Print Assumptions C26_checker_sound.

(* refutations, one per shape of D13 *)
Theorem C26_refuted_last_function_skipped :
  ci_run [[(0, 1); (1, 1)]; [(0, 1)]] [[1]; []] None false = [V 0 0 0 true true]
  /\ expected_trace (expected_comp [[(0, 1); (1, 1)]; [(0, 1)]] [[1]; []]) None false = [V 0 0 0 true true; V 1 0 0 true true].
Proof. exact D13_last_function_skipped_refuted. Qed.
Theorem C26_refuted_module_without_functions :
  ci_run [[(0, 1)]; []] [[]; []] None false = [V 0 0 0 true true; EPanic].
Proof. exact D13_module_without_functions_refuted. Qed.
Theorem C26_refuted_reset :
  ci_run [[(0, 1); (1, 1)]; [(0, 1); (1, 1)]] [[]; [0]] (Some 9%nat) false
  = [V 0 0 0 true true; V 0 1 0 true true; V 1 1 0 true true; EReset; V 0 1 0 true true; V 1 1 0 true true]
  /\ expected_trace (expected_comp [[(0, 1); (1, 1)]; [(0, 1); (1, 1)]] [[]; [0]]) (Some 9%nat) false
  = [V 0 0 0 true true; V 0 1 0 true true; V 1 1 0 true true; EReset; V 0 0 0 true true; V 0 1 0 true true; V 1 1 0 true true].
Proof. exact D13_reset_refuted. Qed.
Theorem C26_refuted :
  ~ (forall metas skips k probe, metas <> [] -> forallb wf_meta metas = true -> length skips = length metas ->
       known_D12_comp metas skips probe = false ->
       ci_run metas skips k probe = expected_trace (expected_comp metas skips) k probe).
Proof. exact C26_unconditional_refuted. Qed.
Print Assumptions C26_refuted.

(* non-vacuity: two modules, a skipped first function of equal length, a reset in the middle *)
Example C26_nonvacuous :
  let metas := [[(1, 2); (2, 2); (3, 1)]; [(0, 3)]] in let skips := [[1]; [1]] in
  metas <> [] /\ forallb wf_meta metas = true /\ length skips = length metas /\
  known_D12_comp metas skips true = false /\ known_D13 metas skips (Some 1%nat) = false /\
  expected_trace (expected_comp metas skips) (Some 1%nat) true
  = [V 0 2 0 false true; V 0 2 1 true true; EReset;
     V 0 2 0 false true; V 0 2 1 true true; V 0 3 0 true true; V 1 0 0 false true; V 1 0 1 false true; V 1 0 2 true true; EAfter].
Proof. vm_compute. repeat split; try reflexivity. discriminate. Qed.
