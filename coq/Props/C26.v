(* C26 — a component iterator visits the instructions of the component's modules, in module order,
   exactly as a module iterator visits each module with the corresponding skip list, and injections made
   through it give the same encoded modules as the same injections made through module iterators
   (C26_injections_as_module_iterators over the method tables the translator regenerates from the two iterator
   source files, C26_injection_method_tables_agree; the real encodings are also compared byte for byte by the
   harness, [cc_inj_same] in Check/CheckIter.v).  Statements only; proofs in Proofs/IterProofs.v, IterInjProofs.v.

   The property holds of the code after the repair of defects D12 and D13 (no hypothesis on the skip
   map, the script or the shape of the modules). *)
From Coq Require Import String.
From Coq Require Import List NArith Bool.
Import ListNotations.
From Orca Require Import Util Iter CheckIter IterProofs GenIterInj IterInj IterInjProofs.
Local Open Scope N_scope.

(* Full strength: against the specification (concatenation over the modules of the C25 visit lists). *)
Theorem C26_visits_exact : forall metas skips k probe,
  forallb wf_meta metas = true ->
  ci_run metas skips k probe = expected_trace (expected_comp metas skips) k probe.
Proof. exact ci_run_exact. Qed.
Print Assumptions C26_visits_exact.

(* In the words of the property, in full: the traversal is the concatenation of the ModuleIterator
   traversals ([concat_module_runs]: module m's ModuleIterator run, locations tagged with m). *)
Theorem C26_as_module_iterators : forall metas skips,
  forallb wf_meta metas = true ->
  ci_run metas skips None false = concat_module_runs 0 metas skips.
Proof. exact ci_run_as_module_runs. Qed.
Print Assumptions C26_as_module_iterators.

(* A ModuleIterator is a ComponentIterator on the component with that single module (no hypothesis). *)
Theorem C26_single_module : forall mt skip k probe, mi_run mt skip k probe = ci_run [mt] [skip] k probe.
Proof. exact mi_is_ci. Qed.
Print Assumptions C26_single_module.

(* Injection half.  The injection-side trait methods of ComponentIterator and ModuleIterator, as the translator
   reads them from /repo's working tree on every check and normalises them (module reached, location fields,
   statements applied to the LocalFunction / Module), are the same table; neither type overrides a default method
   of Opcode / MacroOpcode. *)
Theorem C26_injection_method_tables_agree :
  table_eqb gen_comp_methods gen_mod_methods = true /\
  gen_comp_default_impls = gen_mod_default_impls /\
  (16 <=? N.of_nat (List.length gen_comp_methods)) = true.
Proof. vm_compute. repeat split; reflexivity. Qed.
Print Assumptions C26_injection_method_tables_agree.

(* Hence, for EVERY interpretation [api] of a method table as the effect of the public injection calls on the module
   the iterator stands in, every component, skip map, injection plan (the calls issued at each visited location)
   and initial modules: the ComponentIterator run leaves exactly the modules that one ModuleIterator per module,
   with that module's skip list and its part of the plan, leaves -- so the encoded modules are the same. *)
Theorem C26_injections_as_module_iterators :
  forall (M C B : Type) (api : method_table -> C -> N -> N -> M -> M) (enc : M -> B)
         metas skips (plan : N -> N -> N -> list C) (st : list M),
  forallb wf_meta metas = true -> List.length st = List.length metas ->
  run_comp_plan M C api gen_comp_methods metas skips plan st = run_mods M C api gen_mod_methods 0 metas skips plan st
  /\ encode_modules M B enc (run_comp_plan M C api gen_comp_methods metas skips plan st)
     = encode_modules M B enc (run_mods M C api gen_mod_methods 0 metas skips plan st).
Proof.
  intros M C B api enc metas skips plan st Hwf Hlen. split.
  - exact (comp_injection_as_module_iterators M C api _ _ metas skips plan st
             (table_eqb_eq _ _ (proj1 C26_injection_method_tables_agree)) Hwf Hlen).
  - exact (comp_injection_same_encoded_modules M C api B enc _ _ metas skips plan st
             (proj1 C26_injection_method_tables_agree) Hwf Hlen).
Qed.
Print Assumptions C26_injections_as_module_iterators.

(* what must not change: a module the plan has no call for is left as it was *)
Theorem C26_untouched_module_unchanged :
  forall (M C : Type) (api : method_table -> C -> N -> N -> M -> M) tbl mt skip (pl : N -> N -> list C) x,
  (forall f i, pl f i = []) -> run_mod_plan M C api tbl mt skip pl x = x.
Proof. exact run_mod_plan_untouched. Qed.
Print Assumptions C26_untouched_module_unchanged.

(* non-vacuity of the injection theorem: a concrete interpretation (a module is the log of the calls it received),
   two modules, the second function of module 0 skipped, a call at every visited location *)
Example C26_injection_nonvacuous :
  let api := fun (tbl : method_table) (c : N) (f i : N) (x : list (N * N * N)) => x ++ [(c, f, i)] in
  let metas := [[(0, 2); (1, 1)]; [(0, 1)]] in let skips := [[1]; []] in
  let plan := fun m f i => [10 * m + i] in
  forallb wf_meta metas = true /\
  run_comp_plan _ _ api gen_comp_methods metas skips plan [[]; []]
  = [[(0, 0, 0); (1, 0, 1)]; [(10, 0, 0)]].
Proof. vm_compute. split; reflexivity. Qed.

Theorem C26_checker_sound : forall c : ccase,
  agree26 c = true -> domain26 c = true -> holds26 c = cc_inj_same c.
Proof. exact checker26_sound_full. Qed.
Print Assumptions C26_checker_sound.

(* The inputs that refuted the property before the repair of D13 (one per shape). *)
Example C26_last_function_skipped :
  ci_run [[(0, 1); (1, 1)]; [(0, 1)]] [[1]; []] None false = [V 0 0 0 true true; V 1 0 0 true true].
Proof. exact D13_last_function_skipped_now. Qed.
Example C26_module_without_functions :
  ci_run [[(0, 1)]; []] [[]; []] None true = [V 0 0 0 true true; EAfter]
  /\ ci_run [[]; [(0, 1)]; []; [(3, 1)]] [[]; []; []; []] None false = [V 1 0 0 true true; V 3 3 0 true true]
  /\ ci_run [[]] [[]] (Some 2%nat) true = [EReset; EAfter].
Proof. exact D13_module_without_functions_now. Qed.
Example C26_reset :
  ci_run [[(0, 1); (1, 1)]; [(0, 1); (1, 1)]] [[]; [0]] (Some 9%nat) false
  = [V 0 0 0 true true; V 0 1 0 true true; V 1 1 0 true true; EReset; V 0 0 0 true true; V 0 1 0 true true; V 1 1 0 true true].
Proof. exact D13_reset_now. Qed.

(* non-vacuity: two modules, a skipped first function, different skip lists, a reset in the middle *)
Example C26_nonvacuous :
  let metas := [[(1, 2); (2, 3); (3, 1)]; [(0, 3); (1, 1)]] in let skips := [[1]; [1]] in
  forallb wf_meta metas = true /\
  expected_trace (expected_comp metas skips) (Some 1%nat) true
  = [V 0 2 0 false true; V 0 2 1 false true; EReset;
     V 0 2 0 false true; V 0 2 1 false true; V 0 2 2 true true; V 0 3 0 true true;
     V 1 0 0 false true; V 1 0 1 false true; V 1 0 2 true true; EAfter].
Proof. vm_compute. repeat split; reflexivity. Qed.
