(* C20 — semantic-after probes fire exactly once after the instruction.  Statements only. *)
From Coq Require Import List Arith NArith ZArith Bool.
Import ListNotations.
From Orca Require Import Util Flat Lowering CheckLow Tree TreeLower WasmP SemProofs EvalP Sim CheckSem KnownSem SelfCase.

(* First half (block / if / else), full strength: [exec .. true] fires [f_sa] of a block, if or else each
   time control continues after the construct (fall-through or a branch it catches); the plain interpreter
   on the tree lowering agrees, for every body, plan, configuration and fuel. *)
Theorem C20_partial_semantic_after_on_constructs :
  forall (ftypes : list (nat * nat)) (F : nat -> flags) (X : list fop),
    pcode X ->     (* X: function-exit probes, spliced before return / unreachable / throw (C17); [] when there are none *)
    (forall i, pcode (bef F i) /\ pcode (aft F i) /\ pcode (be_ F i) /\ pcode (bx_ F i) /\ pcode (sa_ F i)) ->
    forall fuel body c ob,
      exec ftypes F X true fuel false body c = ob -> ob <> OFuel -> nbl F body ->
      exists fuel', exec ftypes (fun _ => no_flags) [] false fuel' false (flat_map (lower F X) body) c = ob.
Proof. exact sim_closed. Qed.
Print Assumptions C20_partial_semantic_after_on_constructs.

(* Second half (branches): NOT proved -- the full statement would drop the hypothesis [nbl] above and use
   the flag-local lowering.  It is false of the faithful model in the three known classes below (D16, D17,
   D18); outside them it is checked per sampled program by differential execution inside Coq
   (KnownSem.report_C20), with the known classes decided on the input. *)

(* D16: semantic-after on a branch to the function label: the taken case is never reported *)
Example C20_refuted_D16 :
  let body := [FLocalGet 0; FBrIf 0; FConst 7; FOther 3; FEnd] in
  let l := self_l 2 4 [] [] body [(1%nat, MSemanticAfter, LOG 1001)] 0 false in
  in_class 16 (self_s 0 l []) = true /\ check (fun _ => true) (self_s 0 l [[1; 0]%Z]) = VDiff
  /\ check (fun _ => true) (self_s 0 l [[0; 0]%Z]) = VSame.
Proof. vm_compute. repeat split; reflexivity. Qed.

(* D17: the flag local is never cleared: br_table whose targets lie at two depths fires at both ends *)
Example C20_refuted_D17 :
  let body := [FBlock BtEmpty; FBlock BtEmpty; FLocalGet 0; FBrTable [0%nat] 1; FEnd; FConst 7; FOther 3; FEnd; FEnd] in
  let l := self_l 2 4 [] [] body [(3%nat, MSemanticAfter, LOG 1001)] 0 false in
  in_class 17 (self_s 0 l []) = true /\ check (fun _ => true) (self_s 0 l [[0; 0]%Z]) = VDiff.
Proof. vm_compute. split; reflexivity. Qed.

Example C20_nonvacuous :
  let body := [FBlock BtEmpty; FLocalGet 0; FBrIf 0; FConst 7; FOther 3; FEnd; FConst 8; FOther 3; FEnd] in
  let l := self_l 2 4 [] [] body [(2%nat, MSemanticAfter, LOG 1001); (0%nat, MSemanticAfter, LOG 1002)] 0 false in
  check (fun _ => true) (self_s 0 l [[1; 0]; [0; 0]]%Z) = VSame /\ agree_sem (self_s 0 l []) = true.
Proof. vm_compute. split; reflexivity. Qed.
