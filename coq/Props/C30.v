(* C30 — module-level additions appear exactly as requested.  Statements only.
   "Globals, data segments, memories and exports added through the module API appear in the encoded module with
   exactly the requested types, limits, contents and initial values (bit-exact constants), replacing a global's
   initialiser changes only that initialiser, and the returned IDs designate the added items." *)
From Coq Require Import List Arith NArith ZArith Bool.
Import ListNotations.
From Orca Require Import Util Wrap Reindex CheckReidx Additions CheckAdds AddsProofs ReidxInv ReidxHandles AddedHandles.
Local Open Scope N_scope.

(* ---- initial values are bit-exact: the model of InitExpr::to_wasmencoder_type, read back ---- *)
(* every InitInstr form (i32 / i64 / f32 / f64 / v128 constants as bit patterns, global.get, ref.func, ref.null)
   decodes back to the request, for every in-range immediate; hence the encoding is injective *)
Theorem C30_init_decodes_to_request :
  forall i : iinstr, wf_instr i = true -> dec_cop (enc_instr i) = Some i.
Proof. exact enc_instr_decodes. Qed.
Print Assumptions C30_init_decodes_to_request.

Theorem C30_init_encoding_injective :
  forall e e' : init, forallb wf_instr e = true -> forallb wf_instr e' = true -> enc_init e = enc_init e' -> e = e'.
Proof. exact enc_init_injective. Qed.
Print Assumptions C30_init_encoding_injective.

(* the `u128 as i128` step of a v128 constant keeps all 128 bits *)
Theorem C30_v128_bits_exact :
  forall u : Z, in_u128 u = true ->
    enc_value (VV128 u) = CV128 (as_i128 u) /\ in_i128 (as_i128 u) = true /\ to_u128 (as_i128 u) = u.
Proof. exact v128_bits_exact. Qed.
Print Assumptions C30_v128_bits_exact.

(* the emitted constant satisfies the checker's independent reading of "bit-exact" for every value,
   NaN payloads (quiet and signalling), signed zeros and infinities included: they are bit patterns *)
Theorem C30_constants_meet_spec :
  forall (o : aobs) (h : sstate) (v : value), wf_value v = true -> obs_rop o (enc_value v) = exp_rop h (IVal v).
Proof. exact enc_value_meets_spec. Qed.
Print Assumptions C30_constants_meet_spec.

(* ---- additions only append; returned ids are positions ---- *)
Theorem C30_add_global_appends :
  forall s fp t e s1 r, astep s (OAddGlobal fp t e) = Ok (s1, r) ->
  exists t', gty_conv t = Ok t'
  /\ s_items (m_g (a_m s1)) = s_items (m_g (a_m s)) ++ [mkItem (lenN (s_items (m_g (a_m s)))) None false fp]
  /\ r = Some (lenN (s_items (m_g (a_m s))))
  /\ plookup (a_gpay s1) fp = Some (mkGP t' (Some e))
  /\ m_f (a_m s1) = m_f (a_m s) /\ m_m (a_m s1) = m_m (a_m s) /\ m_imports (a_m s1) = m_imports (a_m s)
  /\ a_mpay s1 = a_mpay s /\ a_data s1 = a_data s /\ a_exports s1 = a_exports s.
Proof. exact add_global_appends. Qed.
Print Assumptions C30_add_global_appends.

(* ... and that stored type t' is the requested type itself, for every value type the call accepts *)
Theorem C30_requested_type_kept : forall t t', gty_conv t = Ok t' -> t' = t.
Proof. exact gty_conv_exact. Qed.
Print Assumptions C30_requested_type_kept.

Theorem C30_add_memory_appends :
  forall s fp t s1 r, astep s (OAddMem fp t) = Ok (s1, r) ->
  s_items (m_m (a_m s1)) = s_items (m_m (a_m s)) ++ [mkItem (lenN (s_items (m_m (a_m s)))) None false fp]
  /\ r = Some (lenN (s_items (m_m (a_m s))))
  /\ plookup (a_mpay s1) fp = Some t
  /\ m_f (a_m s1) = m_f (a_m s) /\ m_g (a_m s1) = m_g (a_m s) /\ m_imports (a_m s1) = m_imports (a_m s)
  /\ a_gpay s1 = a_gpay s /\ a_data s1 = a_data s /\ a_exports s1 = a_exports s.
Proof. exact add_memory_appends. Qed.
Print Assumptions C30_add_memory_appends.

Theorem C30_add_data_appends :
  forall s d s1 r, astep s (OAddData d) = Ok (s1, r) ->
  a_data s1 = a_data s ++ [d] /\ r = Some (lenN (a_data s))
  /\ a_m s1 = a_m s /\ a_gpay s1 = a_gpay s /\ a_mpay s1 = a_mpay s /\ a_exports s1 = a_exports s.
Proof. exact add_data_appends. Qed.
Print Assumptions C30_add_data_appends.

Theorem C30_add_export_appends :
  forall s k n id s1 r, astep s (OAddExport k n id) = Ok (s1, r) ->
  a_exports s1 = a_exports s ++ [mkEx n k id false]
  /\ a_m s1 = a_m s /\ a_gpay s1 = a_gpay s /\ a_mpay s1 = a_mpay s /\ a_data s1 = a_data s.
Proof. exact add_export_appends. Qed.
Print Assumptions C30_add_export_appends.

(* over whole histories of any length and any mix of the eleven operations: the data list, the export list and
   the three entity vectors are the old ones followed by exactly what the history added, in order *)
Theorem C30_histories_only_append :
  forall h s rets s' rets', arun s h rets = (s', rets', false) ->
  a_data s' = a_data s ++ flat_map data_of h
  /\ map ex_core (a_exports s') = map ex_core (a_exports s) ++ flat_map exports_of h
  /\ (forall x, fps s' x = fps s x ++ flat_map (fun o => new_fps o x) h).
Proof. exact arun_appends. Qed.
Print Assumptions C30_histories_only_append.

(* ---- replacing an initialiser changes exactly that initialiser ---- *)
Theorem C30_mod_init_changes_only_that_global :
  forall s g e s1 r, astep s (OModInit g e) = Ok (s1, r) ->
  exists it p,
    nthN (s_items (m_g (a_m s))) g = Some it /\ is_local it = true
    /\ plookup (a_gpay s) (it_fp it) = Some p
    /\ plookup (a_gpay s1) (it_fp it) = Some (mkGP (gp_ty p) (Some e))
    /\ (forall fp, fp <> it_fp it -> plookup (a_gpay s1) fp = plookup (a_gpay s) fp)
    /\ a_m s1 = a_m s /\ a_mpay s1 = a_mpay s /\ a_data s1 = a_data s /\ a_exports s1 = a_exports s /\ r = None.
Proof. exact mod_init_changes_only_that_global. Qed.
Print Assumptions C30_mod_init_changes_only_that_global.

Theorem C30_mod_init_emission :
  forall s g e s1 r dc sites, astep s (OModInit g e) = Ok (s1, r) ->
  exists fp, (exists it, nthN (s_items (m_g (a_m s))) g = Some it /\ it_fp it = fp) /\
  forall mf mg,
    (forall it', it_fp it' <> fp -> emit_global (a_gpay s1) mf mg it' = emit_global (a_gpay s) mf mg it')
    /\ (forall i, i_fp i <> fp \/ i_sp i <> 1 -> emit_imp s1 i = emit_imp s i)
    /\ (forall o o', aencode s dc sites = Ok o -> aencode s1 dc sites = Ok o' ->
          ob_funcs o' = ob_funcs o /\ ob_mems o' = ob_mems o /\ ob_data o' = ob_data o
          /\ ob_exports o' = ob_exports o /\ ob_sites o' = ob_sites o /\ ob_dcount o' = ob_dcount o
          /\ length (ob_globals o') = length (ob_globals o)).
Proof. exact mod_init_emission. Qed.
Print Assumptions C30_mod_init_emission.

(* ---- the sections of the output are the stored requests ---- *)
Theorem C30_data_section_exact :
  forall s dc sites o, aencode s dc sites = Ok o ->
  length (ob_data o) = length (a_data s)
  /\ forall k d, nthN (a_data s) k = Some d ->
       exists od, nthN (ob_data o) k = Some od /\ odseg_bytes od = dseg_bytes d /\ odseg_passive od = dseg_passive d.
Proof. exact data_section_exact. Qed.
Print Assumptions C30_data_section_exact.

Theorem C30_export_section_exact :
  forall s dc sites o, aencode s dc sites = Ok o ->
  map (fun t => (fst (fst t), snd (fst t))) (ob_exports o)
  = map (fun e => (ex_name e, ex_kind e)) (filter (fun e => negb (ex_del e)) (a_exports s)).
Proof. exact export_section_exact. Qed.
Print Assumptions C30_export_section_exact.

Theorem C30_global_section_exact :
  forall s dc sites o, aencode s dc sites = Ok o ->
  exists lg mf mg, (exists l, index_space (m_f (a_m s)) = Ok (l, mf)) /\ index_space (m_g (a_m s)) = Ok (lg, mg) /\
  let live := filter (fun i => is_local i && negb (it_del i)) lg in
  length (ob_globals o) = length live /\
  forall k it, nth_error live k = Some it ->
    exists t e e', plookup (a_gpay s) (it_fp it) = Some (mkGP t (Some e)) /\ fix_init mf mg e = Ok e'
                   /\ nth_error (ob_globals o) k = Some (mkOG t (enc_init e')).
Proof. exact global_section_exact. Qed.
Print Assumptions C30_global_section_exact.

Theorem C30_memory_section_exact :
  forall s dc sites o, aencode s dc sites = Ok o ->
  exists lm mm, index_space (m_m (a_m s)) = Ok (lm, mm) /\
  length (ob_mems o) = length (filter is_local lm) /\
  forall k it, nth_error (filter is_local lm) k = Some it ->
    exists t, plookup (a_mpay s) (it_fp it) = Some t /\ nth_error (ob_mems o) k = Some t.
Proof. exact memory_section_exact. Qed.
Print Assumptions C30_memory_section_exact.

(* ---- end to end for added globals on a module whose global ids are not pending recalculation ---- *)
(* (every freshly parsed module: C30_base_globals_clean; preserved by the call itself)  The encoded module is the old
   one with exactly one more global, of exactly the requested type and initial value (references through the id map),
   every other section and every existing global untouched; the returned id is mapped to itself. *)
Theorem C30_add_global_end_to_end :
  forall s fp t e s1 r dc sites o,
  s_recalc (m_g (a_m s)) = false -> ids_pos (s_items (m_g (a_m s))) -> fresh_fp s fp ->
  astep s (OAddGlobal fp t e) = Ok (s1, r) ->
  aencode s dc sites = Ok o ->
  forall lf mf e', index_space (m_f (a_m s)) = Ok (lf, mf) ->
  fix_init mf (mapping (s_items (m_g (a_m s1)))) e = Ok e' ->
  exists t', gty_conv t = Ok t'
  /\ r = Some (lenN (s_items (m_g (a_m s))))
  /\ lookup (mapping (s_items (m_g (a_m s1)))) (lenN (s_items (m_g (a_m s)))) = Some (lenN (s_items (m_g (a_m s))))
  /\ aencode s1 dc sites
     = Ok (mkO (ob_imports o) (ob_funcs o) (ob_globals o ++ [mkOG t' (enc_init e')]) (ob_mems o) (ob_data o)
               (ob_exports o) (ob_sites o) (ob_dcount o))
  /\ s_recalc (m_g (a_m s1)) = false /\ ids_pos (s_items (m_g (a_m s1))).
Proof. exact add_global_end_to_end. Qed.
Print Assumptions C30_add_global_end_to_end.

(* any number of add_global calls with index-free initialisers (all constant forms, ref.null): all succeed, return
   consecutive ids, and the encoded module is the old one followed by exactly the requested globals, in order *)
Theorem C30_add_globals_sequence :
  forall (adds : list greq) s rets dc sites o lf mf,
  s_recalc (m_g (a_m s)) = false -> ids_pos (s_items (m_g (a_m s))) -> fresh_all s adds ->
  Forall req_ok adds ->
  aencode s dc sites = Ok o -> index_space (m_f (a_m s)) = Ok (lf, mf) ->
  exists s',
    arun s (map op_of adds) rets = (s', rets ++ idsN (lenN (s_items (m_g (a_m s)))) (length adds), false)
    /\ aencode s' dc sites
       = Ok (mkO (ob_imports o) (ob_funcs o) (ob_globals o ++ map render adds) (ob_mems o) (ob_data o)
                 (ob_exports o) (ob_sites o) (ob_dcount o)).
Proof. exact add_globals_sequence. Qed.
Print Assumptions C30_add_globals_sequence.

Theorem C30_base_globals_clean :
  forall c : acase, s_recalc (m_g (a_m (abase c))) = false /\ ids_pos (s_items (m_g (a_m (abase c)))).
Proof. exact base_globals_clean. Qed.
Print Assumptions C30_base_globals_clean.

(* ---- checker soundness ---- *)
(* agreement is equality: on a case where the implementation agrees with the model, the observed returned ids,
   panic flag and decoded output are the model's *)
Theorem C30_agree_is_equality :
  forall c : acase, agree c = true -> model_out c = (ao_rets c, ao_api_panic c, ao_enc c).
Proof. exact agree_reflect. Qed.
Print Assumptions C30_agree_is_equality.

(* end to end, any history (no bound, any interleaving with the other ten operations): a segment added by add_data
   is found in the *observed* output at the returned id with exactly the requested payload and kind *)
Theorem C30_checker_sound_data :
  forall (c : acase) o h1 d h2,
  agree c = true -> ao_enc c = Some o -> ah_ops c = h1 ++ OAddData d :: h2 ->
  exists r od, nth_error (ao_rets c) (length h1) = Some (Some r)
               /\ nthN (ob_data o) r = Some od
               /\ odseg_bytes od = dseg_bytes d /\ odseg_passive od = dseg_passive d.
Proof. exact observed_data_exact. Qed.
Print Assumptions C30_checker_sound_data.

(* The remaining part of the property -- that the *index* carried by every reference to a returned id designates
   the added item once imports are added or entities deleted (Wasm's index-space rule) -- rests on recalculate_ids,
   whose closed form is C06_index_space_closed_form; it is decided per history by CheckAdds.verdict30 on the real output.
   Every class in which it used to be false of the faithful model (D03, D06, D24, 300 = D30) is repaired; the former
   witnesses below are positive examples now. *)

Definition i32g := mkGT 0 false false.
(* the former D03 witness (global exports used to be copied): the export of global 0 follows the global when
   add_imported_global moves it to index 1, and the property holds *)
Example C30_former_D03_witness_holds :
  let c := self_a [] [99] [(1, mkGP i32g (Some [IVal (VI32 5)]))] [] [] [mkEx 1 1 0 false] false
             [OAddImpGlobal 2 i32g] [(SG, 0); (SG, 1)] in
  agree c = true /\ dom_of (verdict30 c) = true /\ holds_of (verdict30 c) = true /\ known_of (verdict30 c) = []
  /\ option_map ob_exports (ao_enc c) = Some [(1, 1, 1)].
Proof. vm_compute. repeat split; reflexivity. Qed.
(* former D24 (ModuleIterator::add_global then add_imported_global returned the same id; repaired: the iterator
   goes through Module::add_global_internal): the witness now satisfies the property and the two ids differ *)
Example C30_former_D24_witness_holds :
  let c := self_a [] [99] [] [] [] [] false [OItAddGlobal 1 i32g [IVal (VI32 1)]; OAddImpGlobal 2 i32g] [(SG, 0)] in
  agree c = true /\ ao_rets c = [Some 0; Some 1] /\ dom_of (verdict30 c) = true /\ holds_of (verdict30 c) = true.
Proof. vm_compute. repeat split; reflexivity. Qed.
(* former D06 (an added imported global that was deleted again still occupied index 0: `global.get 0` of the local
   global was emitted as `global.get 1`; repaired: recalculate_ids drops every deleted item): the witness now
   satisfies the property *)
Example C30_former_D06_witness_holds :
  let c := self_a [] [99] [(1, mkGP i32g (Some [IVal (VI32 5)]))] [] [] [] false [OAddImpGlobal 2 i32g; ODelete SG 1] [(SG, 0)] in
  agree c = true /\ dom_of (verdict30 c) = true /\ holds_of (verdict30 c) = true.
Proof. vm_compute. repeat split; reflexivity. Qed.
(* the former class-300 / D30 witness (a global requested with DataType::FuncRef, the parser's name for (ref func), used to be
   emitted as funcref): the global has the requested type and the property holds *)
Example C30_former_D30_witness_holds :
  let c := self_a [] [99] [] [] [] [] false [OAddGlobal 1 (mkGT 7 false false) [IRefFunc 0]] [(SG, 0)] in
  agree c = true /\ dom_of (verdict30 c) = true /\ holds_of (verdict30 c) = true /\ known_of (verdict30 c) = []
  /\ option_map ob_globals (ao_enc c) = Some [mkOG (mkGT 7 false false) [CRefFunc 0]].
Proof. vm_compute. repeat split; reflexivity. Qed.

(* non-vacuity: fifteen operations (globals with a v128 of all ones, a signalling-NaN f32, ref.func and global.get
   initialisers, a shared memory64 memory with custom page size, imported global / memory / function, active and
   passive data, two exports, an initialiser replaced by a negative quiet NaN, a deletion, an export deletion)
   with thirteen references: inside the domain and the property holds *)
Example C30_nonvacuous :
  let c := self_a [mkBI 1 1 (IDGlobal i32g); mkBI 2 2 (IDMem (mkMT false false 1 None None)); mkBI 0 3 IDNone] [4; 99]
     [(5, mkGP (mkGT 2 true false) (Some [IVal (VF32 2143289344%Z)]))] [(6, mkMT false false 2 (Some 3) None)]
     [DActive 0 [IGlobal 0] [1; 2]; DPassive []] [mkEx 1 0 1 false; mkEx 2 2 1 false] true
     [OAddGlobal 10 (mkGT 4 false false) [IVal (VV128 340282366920938463463374607431768211455%Z)];
      OAddImpGlobal 11 (mkGT 1 false false);
      OAddGlobal 12 (mkGT 2 true true) [IVal (VF32 2139095041%Z)];
      OAddMem 13 (mkMT true true 3 (Some 9) (Some 16));
      OAddImpMem 14 (mkMT false false 0 None None);
      OAddData (DActive 2 [IVal (VI32 (-7)%Z)] [255; 0; 7]);
      OAddData (DPassive [9]);
      OAddExport 2 7 2; OAddExport 0 8 2;
      OModInit 1 [IVal (VF32 4290772992%Z)];
      OAddGlobal 15 (mkGT 5 false false) [IRefFunc 2];
      OAddGlobal 16 (mkGT 0 false false) [IGlobal 3];
      ODelete SF 1; ODelExport 0; OAddImpFunc 17]
     [(SG, 0); (SG, 1); (SG, 2); (SG, 3); (SG, 4); (SG, 5); (SG, 6); (SM, 0); (SM, 1); (SM, 2); (SM, 3); (SF, 2); (SF, 3)] in
  agree c = true /\ dom_of (verdict30 c) = true /\ holds_of (verdict30 c) = true /\ known_of (verdict30 c) = []
  /\ ao_rets c = [Some 2; Some 3; Some 4; Some 2; Some 3; Some 2; Some 3; None; None; None; Some 5; Some 6; None; None; Some 3]
  /\ option_map ob_globals (ao_enc c)
     = Some [mkOG (mkGT 2 true false) [CF32 4290772992%Z]; mkOG (mkGT 4 false false) [CV128 (-1)%Z];
             mkOG (mkGT 2 true true) [CF32 2139095041%Z]; mkOG (mkGT 5 false false) [CRefFunc 2];
             mkOG (mkGT 0 false false) [CGlobalGet 1]].
Proof. vm_compute. repeat split; reflexivity. Qed.
(* the hypotheses of the theorems are satisfiable: every instruction form is well-formed for in-range immediates *)
Example C30_wf_nonvacuous :
  forallb wf_instr [IVal (VI32 (-2147483648)%Z); IVal (VI64 9223372036854775807%Z); IVal (VF32 2139095041%Z);
                    IVal (VF64 18444492273895866368%Z); IVal (VV128 340282366920938463463374607431768211455%Z);
                    IGlobal 3; IRefFunc 7; IRefNull 0] = true.
Proof. vm_compute. reflexivity. Qed.
(* the hypotheses of C30_add_globals_sequence are satisfiable by a non-trivial request list on a non-trivial base *)
Example C30_sequence_nonvacuous :
  let c := self_a [mkBI 1 1 (IDGlobal i32g)] [99] [(5, mkGP (mkGT 2 true false) (Some [IVal (VF32 2143289344%Z)]))] [] [] [] false [] [] in
  let adds : list greq := [(10, mkGT 4 false false, [IVal (VV128 340282366920938463463374607431768211455%Z)]);
                           (11, mkGT 7 true false, [IRefNull 0]); (12, mkGT 3 false true, [IVal (VF64 9221120237041090561%Z)])] in
  fresh_all (abase c) adds /\ Forall req_ok adds
  /\ map render adds = [mkOG (mkGT 4 false false) [CV128 (-1)%Z]; mkOG (mkGT 7 true false) [CRefNull 0];
                        mkOG (mkGT 3 false true) [CF64 9221120237041090561%Z]].
Proof.
  cbn zeta. split; [|split].
  - apply fresh_allb_ok. vm_compute. reflexivity.
  - apply req_okb_ok. vm_compute. reflexivity.
  - reflexivity.
Qed.

(* "... and the returned IDs designate the added items": for every parsed module, every earlier history, every
   add_global (module level or through an iterator) / add_local_memory and every later history of the engine's calls
   that does not delete that very item (imports added in front of it, other items deleted, initialisers replaced,
   exports / data added or deleted, ...), the id the call returned still designates the added item in the IR and the
   encoder maps it to the index q at which the global / memory index space holds that item. *)
Theorem C30_returned_ids_designate_the_added_items :
  forall (c : acase) h1 o x fp h2 s0 r0 s1 id s2 rets2 l mp,
  arun (abase c) h1 [] = (s0, r0, false) ->
  adds_a o x fp = true -> astep s0 o = Ok (s1, Some id) ->
  arun s1 h2 [] = (s2, rets2, false) ->
  existsb (fun o' => names (rop_a o') x id) h2 = false ->
  index_space (get_sp (a_m s2) x) = Ok (l, mp) ->
  nthN (s_items (get_sp (a_m s2) x)) id = Some (mkItem id None false fp) /\
  exists q, lookup mp id = Some q /\ nthN (space_of_model (a_m s2) l x) q = Some fp.
Proof. exact added_item_id_designates_it. Qed.
Print Assumptions C30_returned_ids_designate_the_added_items.

(* the additions it speaks about *)
Example C30_returned_ids_which_calls : forall fp t e mt,
  adds_a (OAddGlobal fp t e) SG fp = true /\ adds_a (OItAddGlobal fp t e) SG fp = true /\ adds_a (OAddMem fp mt) SM fp = true.
Proof. intros. cbn. rewrite N.eqb_refl. repeat split; reflexivity. Qed.
