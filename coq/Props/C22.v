(* C22 — special-mode injections are never silently lost.  Statements only. *)
From Coq Require Import String.
From Coq Require Import List Arith NArith ZArith Bool.
Import ListNotations.
From Orca Require Import Util Flat Lowering Tree TreeLower CheckLow CheckSem LowSpecial Flatten NoLoss GenAddInstr GenAddInstrProofs.

(* (iv) an injection that cannot be honoured is rejected at the call *)
Theorem C22_rejected_at_the_call : forall op m x f, accepts op m = false -> add_instr op m x f = None.
Proof. exact add_instr_rejects. Qed.
Print Assumptions C22_rejected_at_the_call.
Theorem C22_accepted_otherwise : forall op m x f, accepts op m = true -> exists f' s, add_instr op m x f = Some (f', s).
Proof. exact add_instr_accepts. Qed.
Print Assumptions C22_accepted_otherwise.
(* (i) an accepted special-mode injection is recorded in its mode's list and reports "special" *)
Theorem C22_accepted_reports_special : forall op m x f f' s, add_instr op m x f = Some (f', s) -> s = special_mode m.
Proof. exact add_instr_special_flag. Qed.
Print Assumptions C22_accepted_reports_special.

(* Tie to the source by translation: InstrumentationFlag::add_instr as the translator reads it from
   /repo/src/ir/types.rs on every check (one Gallina arm per InstrumentationMode arm; `panic!` = None) IS the
   [add_instr] the three theorems above speak about, and the operator lists of is_block_style_op / is_branching_op
   are the model's classification of its operators (every listed operator has its own constructor). *)
Theorem C22_translated_add_instr_is_the_model : forall op m x f, gen_add_instr op m x f = add_instr op m x f.
Proof. exact gen_add_instr_is_add_instr. Qed.
Print Assumptions C22_translated_add_instr_is_the_model.
Theorem C22_applicability_lists_are_the_model :
  (forall o n, In n (fop_names o) ->
     mem n gen_block_style_ops = is_block_style o /\ mem n gen_branching_ops = is_branching o /\ mem n gen_exit_ops = is_exit_op o) /\
  forallb (fun n => existsb (fun o => mem n (fop_names o)) representative_ops)
          (gen_block_style_ops ++ gen_branching_ops ++ gen_exit_ops) = true.
Proof. exact (conj classification_is_the_source_lists classified_names_have_constructors). Qed.
Print Assumptions C22_applicability_lists_are_the_model.

(* (ii) nothing accepted is lost by the resolution pass and the emission (Proofs/NoLoss.v on top of
   Proofs/Flatten.v): for every body that parses and every plan without replacements in the fragment of the
   flattening theorem (no semantic-after on a branch instruction -- D16-D18), the mirror emits a body in which the block-entry, block-exit and
   semantic-after code of EVERY construct, the function-entry code and the function-exit code all occur as
   contiguous pieces.  [sites t] = the positions of the block / loop / if openers and the elses of the parsed body. *)
Theorem C22_no_special_probe_is_lost :
  forall (c : lcase) t fe fb sp n,
  parse_body (c_body c) = Some (t, fe) ->
  apply_plan false (c_plan c) (map (fun o => (o, no_flags)) (c_body c)) false = Some (fb, sp) ->
  forallb (fun x => nonreplacing (snd x)) fb = true ->
  let Fe := with0 (c_entry c) (flags_fn fb) in
  forallb (instr_no_branch_sa Fe n) t = true -> t <> [] ->
  exists body, model c = Some (body, c_groups c) /\
    (forall i, In i (sites t) ->
       infix (f_be (flags_fn fb i)) body /\ infix (f_bx (flags_fn fb i)) body /\ infix (f_sa (flags_fn fb i)) body) /\
    infix (c_entry c) body /\ infix (c_exit c) body.
Proof. exact special_probes_all_emitted. Qed.
Print Assumptions C22_no_special_probe_is_lost.
(* the premises hold of a concrete body with an if/else inside a block, probes of all three special modes on the
   constructs, entry and exit code; the four construct positions are sites *)
Example C22_no_loss_nonvacuous :
  let body := [FBlock BtEmpty; FLocalGet 0; FIf BtEmpty; FConst 5; FDrop; FElse; FConst 6; FDrop; FEnd; FEnd; FEnd] in
  let plan := [(0%nat, MBlockEntry, [FConst 1001; FDrop]); (0%nat, MBlockExit, [FConst 1002; FDrop]);
               (2%nat, MBlockExit, [FConst 1003; FDrop]); (5%nat, MBlockEntry, [FConst 1004; FDrop]);
               (2%nat, MSemanticAfter, [FConst 1005; FDrop]); (5%nat, MSemanticAfter, [FConst 1006; FDrop])] in
  let c := mkCase 1 0 [] [FConst 1007; FDrop] [FConst 1008; FDrop] 2 body plan 0 false None true 0 in
  match parse_body (c_body c), apply_plan false (c_plan c) (map (fun o => (o, no_flags)) (c_body c)) false with
  | Some (t, fe), Some (fb, sp) =>
      forallb (fun x => nonreplacing (snd x)) fb = true /\
      forallb (instr_no_branch_sa (with0 (c_entry c) (flags_fn fb)) 10) t = true /\
      t <> [] /\ sites t = [0; 2; 5]%nat
  | _, _ => False
  end.
Proof. vm_compute. repeat split; try reflexivity. discriminate. Qed.

(* Outside that fragment the statement is false of the faithful model in the class D16 below (and D17, D18);
   every sampled (body, plan) is decided by CheckLow.verdict22 on the real output. *)

(* Special probes on instructions that the same plan removes with a block-alternate (or on the replaced opener) are
   inside the domain since the repair of D31: they must disappear with the instruction -- none of their markers
   occurs -- and nothing may be logged as unresolved.  On the mirror's own output: *)
Example C22_probes_in_a_removed_region_disappear_silently :
  let body := [FBlock BtEmpty; FBlock BtEmpty; FConst 1; FDrop; FEnd; FEnd; FEnd] in
  let plan := [(0%nat, MBlockAlt, [FConst 1001; FDrop]); (0%nat, MBlockEntry, [FConst 1002; FDrop]);
               (1%nat, MBlockExit, [FConst 1003; FDrop]); (1%nat, MBlockAlt, [FConst 1004; FDrop])] in
  let c0 := mkCase 0 0 [] [] [] 0 body plan 0 false None true 0 in
  let c := mkCase 0 0 [] [] [] 0 body plan 0 false (model c0) true 0 in
  agree c = true /\ domain22 c = true /\ holds22 c = true
  /\ model c0 = Some ([FConst 1001; FDrop; FEnd], []).
Proof. vm_compute. repeat split; reflexivity. Qed.

(* D19 and D20 were genuine defects of the pinned tree (FunctionModifier::inject_at did not record special modes;
   after an import deletion the resolution loop started one function too late).  Both are repaired ("fix:"
   commits in /repo); the former witnesses now satisfy the property: *)
Example C22_former_D19_witness_holds :
  let c0 := mkCase 0 0 [] [] [] 0 [FBlock BtEmpty; FEnd; FEnd] [(0%nat, MBlockEntry, [FConst 1001; FDrop])] 3 false None true 0 in
  let c := mkCase 0 0 [] [] [] 0 [FBlock BtEmpty; FEnd; FEnd] [(0%nat, MBlockEntry, [FConst 1001; FDrop])] 3 false (model c0) true 0 in
  agree c = true /\ domain22 c = true /\ holds22 c = true.
Proof. vm_compute. repeat split; reflexivity. Qed.
Example C22_former_D20_witness_holds :
  let c0 := mkCase 0 0 [] [] [] 0 [FBlock BtEmpty; FEnd; FEnd] [(0%nat, MBlockEntry, [FConst 1001; FDrop])] 0 true None true 0 in
  let c := mkCase 0 0 [] [] [] 0 [FBlock BtEmpty; FEnd; FEnd] [(0%nat, MBlockEntry, [FConst 1001; FDrop])] 0 true (model c0) true 0 in
  agree c = true /\ domain22 c = true /\ holds22 c = true.
Proof. vm_compute. repeat split; reflexivity. Qed.
(* D16: semantic-after on an unconditional branch to the function label *)
Example C22_refuted_D16 :
  let c0 := mkCase 0 0 [] [] [] 0 [FBr 0; FEnd] [(0%nat, MSemanticAfter, [FConst 1001; FDrop])] 0 false None true 0 in
  let c := mkCase 0 0 [] [] [] 0 [FBr 0; FEnd] [(0%nat, MSemanticAfter, [FConst 1001; FDrop])] 0 false (model c0) true 0 in
  agree c = true /\ domain22 c = true /\ holds22 c = false /\ known_D16 c = true.
Proof. vm_compute. repeat split; reflexivity. Qed.
Example C22_nonvacuous :
  let body := [FBlock BtEmpty; FLocalGet 0; FBrIf 0; FEnd; FLoop BtEmpty; FEnd; FEnd] in
  let plan := [(0%nat, MBlockEntry, [FConst 1001; FDrop]); (0%nat, MBlockExit, [FConst 1002; FDrop]);
               (2%nat, MSemanticAfter, [FConst 1003; FDrop]); (4%nat, MBlockAlt, [FConst 1004; FDrop])] in
  let c0 := mkCase 1 0 [] [FConst 1005; FDrop] [FConst 1006; FDrop] 2 body plan 0 false None true 0 in
  let c := mkCase 1 0 [] [FConst 1005; FDrop] [FConst 1006; FDrop] 2 body plan 0 false (model c0) true 0 in
  agree c = true /\ domain22 c = true /\ holds22 c = true.
Proof. vm_compute. repeat split; reflexivity. Qed.
