(* C22 — special-mode injections are never silently lost.  Statements only. *)
From Coq Require Import List Arith NArith ZArith Bool.
Import ListNotations.
From Orca Require Import Util Flat Lowering CheckLow LowSpecial.

(* (iv) an injection that cannot be honoured is rejected at the call *)
Theorem C22_rejected_at_the_call : forall op m x f, accepts op m = false -> add_instr op m x f = None.
Proof. exact add_instr_rejects. Qed.
Print Assumptions C22_rejected_at_the_call.
Theorem C22_accepted_otherwise : forall op m x f, accepts op m = true -> exists f' s, add_instr op m x f = Some (f', s).
Proof. exact add_instr_accepts. Qed.
Print Assumptions C22_accepted_otherwise.
(* (i) an accepted special-mode injection is recorded in its mode's list and reports "special" *)
Theorem C22_accepted_reports_special : forall op m x f f' s, add_instr op m x f = Some (f', s) -> s = special_mode m.
Proof. exact add_instr_special_flag. Qed.
Print Assumptions C22_accepted_reports_special.

(* PARTIAL: the full statement -- every accepted special injection outside a removed region occurs in the
   emitted body -- is not proved for the resolution pass; it is false of the faithful model in the class
   D16 below, and is decided per (body, plan) by CheckLow.verdict22 on the real output. *)

(* D19 and D20 were genuine defects of the pinned tree (FunctionModifier::inject_at did not record special modes;
   after an import deletion the resolution loop started one function too late).  Both are repaired ("fix:"
   commits in /repo); the former witnesses now satisfy the property: *)
Example C22_former_D19_witness_holds :
  let c0 := mkCase 0 0 [] [] [] 0 [FBlock BtEmpty; FEnd; FEnd] [(0%nat, MBlockEntry, [FConst 1001; FDrop])] 3 false None true 0 in
  let c := mkCase 0 0 [] [] [] 0 [FBlock BtEmpty; FEnd; FEnd] [(0%nat, MBlockEntry, [FConst 1001; FDrop])] 3 false (model c0) true 0 in
  agree c = true /\ domain22 c = true /\ holds22 c = true.
Proof. vm_compute. repeat split; reflexivity. Qed.
Example C22_former_D20_witness_holds :
  let c0 := mkCase 0 0 [] [] [] 0 [FBlock BtEmpty; FEnd; FEnd] [(0%nat, MBlockEntry, [FConst 1001; FDrop])] 0 true None true 0 in
  let c := mkCase 0 0 [] [] [] 0 [FBlock BtEmpty; FEnd; FEnd] [(0%nat, MBlockEntry, [FConst 1001; FDrop])] 0 true (model c0) true 0 in
  agree c = true /\ domain22 c = true /\ holds22 c = true.
Proof. vm_compute. repeat split; reflexivity. Qed.
(* D16: semantic-after on an unconditional branch to the function label *)
Example C22_refuted_D16 :
  let c0 := mkCase 0 0 [] [] [] 0 [FBr 0; FEnd] [(0%nat, MSemanticAfter, [FConst 1001; FDrop])] 0 false None true 0 in
  let c := mkCase 0 0 [] [] [] 0 [FBr 0; FEnd] [(0%nat, MSemanticAfter, [FConst 1001; FDrop])] 0 false (model c0) true 0 in
  agree c = true /\ domain22 c = true /\ holds22 c = false /\ known_D16 c = true.
Proof. vm_compute. repeat split; reflexivity. Qed.
Example C22_nonvacuous :
  let body := [FBlock BtEmpty; FLocalGet 0; FBrIf 0; FEnd; FLoop BtEmpty; FEnd; FEnd] in
  let plan := [(0%nat, MBlockEntry, [FConst 1001; FDrop]); (0%nat, MBlockExit, [FConst 1002; FDrop]);
               (2%nat, MSemanticAfter, [FConst 1003; FDrop]); (4%nat, MBlockAlt, [FConst 1004; FDrop])] in
  let c0 := mkCase 1 0 [] [FConst 1005; FDrop] [FConst 1006; FDrop] 2 body plan 0 false None true 0 in
  let c := mkCase 1 0 [] [FConst 1005; FDrop] [FConst 1006; FDrop] 2 body plan 0 false (model c0) true 0 in
  agree c = true /\ domain22 c = true /\ holds22 c = true.
Proof. vm_compute. repeat split; reflexivity. Qed.
