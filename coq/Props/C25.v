(* C25 — a module iterator visits every instruction of every unskipped local function exactly once and
   in order, reports location / end flag correctly, restarts after reset, and works on any parsed
   module.  Statements only; proofs in Proofs/IterProofs.v.

   [mi_run mt skip k probe] is the event list the model (Model/Iter.v) of the real ModuleIterator produces
   for the script  construct; [Some k: at most k next() calls, reset()]; full traversal; [probe: curr_loc()
   after the end]  on a module whose local functions are [mt] = (function id, #instructions) with skip list
   [skip].  [expected_mod] / [expected_trace] (Check/CheckIter.v) are the specification: for each local
   function not in [skip], in order, each instruction index 0..n-1 once, end flag exactly on the last, the
   operator found at the reported location; after EReset the same list again; no EPanic anywhere.

   The property holds of the code after the repair of defect D12 (no hypothesis on the skip list). *)
From Coq Require Import List NArith Bool.
Import ListNotations.
From Orca Require Import Util Iter CheckIter IterProofs.
Local Open Scope N_scope.

(* Full strength, all modules, all skip lists, all scripts, no size bound. *)
Theorem C25_visits_exact : forall mt skip k probe,
  wf_meta mt = true ->
  mi_run mt skip k probe = expected_trace (expected_mod 0 mt skip) k probe.
Proof. exact mi_run_exact. Qed.
Print Assumptions C25_visits_exact.

(* Whenever the events observed on the real ModuleIterator agree with the model and the module is
   well-formed, the observed events satisfy the specification. *)
Theorem C25_checker_sound : forall c : mcase,
  agree25 c = true -> domain25 c = true -> holds25 c = true.
Proof. exact checker25_sound. Qed.
Print Assumptions C25_checker_sound.

(* The inputs that refuted the property before the repair of D12 (one per shape). *)
Example C25_first_function_skipped :
  mi_run [(0, 1); (1, 5)] [0] None false
  = [V 0 1 0 false true; V 0 1 1 false true; V 0 1 2 false true; V 0 1 3 false true; V 0 1 4 true true].
Proof. exact D12_first_skipped_now. Qed.
Example C25_first_function_skipped_longer :
  mi_run [(1, 3); (2, 2)] [1] None false = [V 0 2 0 false true; V 0 2 1 true true].
Proof. exact D12_first_skipped_longer_now. Qed.
Example C25_no_local_function : mi_run [] [] (Some 0%nat) true = [EReset; EAfter].
Proof. exact D12_no_local_function_now. Qed.
Example C25_all_skipped : mi_run [(0, 2)] [0] (Some 0%nat) true = [EReset; EAfter].
Proof. exact D12_all_skipped_now. Qed.
Example C25_trailing_skipped :
  mi_run [(0, 2); (1, 1)] [1] None true = [V 0 0 0 false true; V 0 0 1 true true; EAfter].
Proof. exact D12_trailing_skipped_now. Qed.

(* The specification says what the property says: it contains exactly the instructions of the unskipped
   local functions with the end flag on the last one, strictly increasing in (function, instruction). *)
Theorem C25_spec_contents : forall m mt skip x,
  In x (expected_mod m mt skip) <->
  exists f n i, In (f, n) mt /\ skipped skip f = false /\ i < n /\ x = V m f i (i + 1 =? n) true.
Proof. exact expected_mod_In. Qed.
Theorem C25_spec_in_order_once : forall m mt skip,
  ascending (map fst mt) = true -> Sorted.StronglySorted ev_lt (expected_mod m mt skip).
Proof. exact expected_mod_sorted. Qed.
Print Assumptions C25_spec_in_order_once.

(* non-vacuity: two imports (ids start at 2), three local functions, the middle one and an import id
   skipped, two next() calls, reset, full traversal, curr_loc after the end *)
Example C25_nonvacuous :
  let mt := [(2, 2); (3, 3); (4, 1)] in let skip := [3; 0] in
  wf_meta mt = true /\
  expected_trace (expected_mod 0 mt skip) (Some 2%nat) true
  = [V 0 2 0 false true; V 0 2 1 true true; V 0 4 0 true true; EReset;
     V 0 2 0 false true; V 0 2 1 true true; V 0 4 0 true true; EAfter].
Proof. vm_compute. repeat split; reflexivity. Qed.
