(* C13 — added types are exact and deduplicated.  Statements only.
   Throughout, [order] is the order in which ModuleTypes::new inserts the parsed types into the dedup map; every
   theorem holds for every list [order].  Since the repair of D11 (property C04) the code inserts in ascending id
   order ([asc_ids], [parse_types_asc]: C13_ascending_order below); before the repair the order was the iteration order
   of a HashMap and the *returned id* for a type the input has twice depended on the hash seed — see
   C13_ex_hash_order for what exactly varied. *)
From Coq Require Import List NArith Bool.
Import ListNotations.
From Orca Require Import Util Flat Types CheckTypes TypesProofs.
Local Open Scope N_scope.

(* For every type section and every iteration order, every entry (type -> id) of the dedup map built by
   ModuleTypes::new points at a type structurally equal to its key. *)
Theorem C13_dedup_map_consistent :
  forall (base : tgroups) (order : list N) (t : ctype) (i : N),
    In (t, i) (ts_map (parse_types base order)) ->
    nth_error (ts_types (parse_types base order)) (N.to_nat i) = Some t.
Proof.
  intros base order. unfold parse_types. rewrite parse_groups_spec. cbn [ts_map ts_types]. apply build_map_ok.
Qed.
Print Assumptions C13_dedup_map_consistent.

(* One call of add_type on a state whose dedup map is consistent:
   soundness  — the type stored at the returned id is the requested type;
   idempotence — asking again returns the same id and changes nothing;
   preservation — types, groups and map are only appended to; every existing id keeps its type. *)
Theorem C13_add_type_sound :
  forall ty st, (forall t i, In (t, i) (ts_map st) -> nth_error (ts_types st) (N.to_nat i) = Some t) ->
    nth_error (ts_types (snd (add_type ty st))) (N.to_nat (fst (add_type ty st))) = Some ty.
Proof. exact add_type_sound. Qed.
Print Assumptions C13_add_type_sound.

Theorem C13_add_type_idempotent :
  forall ty st, add_type ty (snd (add_type ty st)) = (fst (add_type ty st), snd (add_type ty st)).
Proof. exact add_type_idem. Qed.
Print Assumptions C13_add_type_idempotent.

Theorem C13_add_type_preserves :
  forall ty st, exists et eg em,
    ts_types (snd (add_type ty st)) = ts_types st ++ et
    /\ ts_groups (snd (add_type ty st)) = ts_groups st ++ eg
    /\ ts_map (snd (add_type ty st)) = ts_map st ++ em
    /\ (forall i t, nth_error (ts_types st) i = Some t -> nth_error (ts_types (snd (add_type ty st))) i = Some t).
Proof. exact add_type_preserves. Qed.
Print Assumptions C13_add_type_preserves.

(* Any type section, ANY iteration order, any sequence of calls of the seven public paths (left fold, no bound on
   the length): the types and rec groups of the input stay in place and additions are appended, each as its own
   implicit group holding its id; the type at every returned id is the requested one; two requests for the same type
   anywhere in the sequence get the same id. *)
Theorem C13_sequences :
  forall (base : tgroups) (order : list N) (ops : list (N * ctype)),
    let ids := fst (api_run ops (parse_types base order)) in
    let st := snd (api_run ops (parse_types base order)) in
    exists added,
      ts_types st = flat base ++ added
      /\ ts_groups st = mk_groups 0 base ++ map single (Types.ids_from (N.of_nat (length (flat base))) (length added))
      /\ length ids = length ops
      /\ (forall k op id, nth_error ops k = Some op -> nth_error ids k = Some id ->
            nth_error (ts_types st) (N.to_nat id) = Some (api_type (fst op) (snd op)))
      /\ (forall i j opi opj idi idj,
            nth_error ops i = Some opi -> nth_error ops j = Some opj ->
            nth_error ids i = Some idi -> nth_error ids j = Some idj ->
            api_type (fst opi) (snd opi) = api_type (fst opj) (snd opj) -> idi = idj).
Proof. exact api_run_spec. Qed.
Print Assumptions C13_sequences.

(* Emission: from such a state the encoder writes the rec groups of the input unchanged (explicit groups — also
   empty and one-member ones — stay explicit) followed by every added type as its own implicit entry; hence the
   emitted index of a type is its id. *)
Theorem C13_emission :
  forall (base : tgroups) st added,
    shaped base = true ->
    ts_types st = flat base ++ added ->
    ts_groups st = mk_groups 0 base ++ map single (Types.ids_from (N.of_nat (length (flat base))) (length added)) ->
    emit_types st = Some (base ++ map (fun t => (false, [t])) added).
Proof. exact emit_after_run. Qed.
Print Assumptions C13_emission.

(* Dedup against the input: when the iteration visits every type (a HashMap iteration does), asking for a type the
   input already has adds nothing and answers with an id whose type is structurally equal — whichever of several
   equal ones the hash order made the last visited. *)
Theorem C13_existing_type_not_added_again :
  forall base order t,
    forallb (fun id => memN id order) (upto (length (flat base))) = true ->
    In t (flat base) ->
    let r := add_type t (parse_types base order) in
    snd r = parse_types base order /\ nth_error (flat base) (N.to_nat (fst r)) = Some t.
Proof. exact add_existing_type. Qed.
Print Assumptions C13_existing_type_not_added_again.

(* the parse of a type section as the code performs it is the model under the ascending order, which visits every id *)
Theorem C13_ascending_order :
  forall base,
    parse_types_asc base = parse_types base (asc_ids (length (flat base)))
    /\ forallb (fun id => memN id (asc_ids (length (flat base)))) (upto (length (flat base))) = true.
Proof. intros base. split; [apply parse_types_asc_eq|apply asc_ids_cover]. Qed.
Print Assumptions C13_ascending_order.

Theorem C13_last_visited_wins :
  forall types order id t,
    nth_error types (N.to_nat id) = Some t -> lookup_map t (build_map types (order ++ [id])) = Some id.
Proof. exact build_map_last_wins. Qed.
Print Assumptions C13_last_visited_wins.

(* The model of a harness case meets the executable specification (soundness, idempotence, preservation,
   no type added twice) for every case in the domain; whenever the implementation's output agrees with the model the
   property holds of it. *)
Theorem C13_model_meets_spec :
  forall c, domain13 c = true -> exists o, model c = Some o /\ holds_on c o = true.
Proof. exact model_meets_spec. Qed.
Print Assumptions C13_model_meets_spec.

Theorem C13_checker_sound :
  forall c, agree c = true -> domain13 c = true -> holds13 c = true.
Proof. exact checker13_sound. Qed.
Print Assumptions C13_checker_sound.

(* ---------- non-vacuity ---------- *)
Definition F (ps rs : list N) := mkT 0 ps rs None true false.
Definition S2 := mkT 2 [0; 20] [1; 0] (Some 1) false false.

(* a base with an explicit rec group, an empty rec group, a sub type and two structurally equal function types *)
Definition ex_base : tgroups := [(false, [F [0] []]); (true, [mkT 2 [0; 20] [1; 0] None false false; F [0] []]); (true, []); (false, [S2])].

Example C13_ex_add :
  let st := parse_types ex_base [0; 1; 2; 3] in
  (forall t i, In (t, i) (ts_map st) -> nth_error (ts_types st) (N.to_nat i) = Some t)
  /\ fst (add_type (F [1] [1]) st) = 4                       (* a new type gets the next id *)
  /\ fst (add_type (F [1] [1]) (snd (add_type (F [1] [1]) st))) = 4   (* again: same id *)
  /\ fst (add_type S2 st) = 3                                (* a type of the base: its id, nothing added *)
  /\ snd (add_type S2 st) = st.
Proof. split; [apply C13_dedup_map_consistent|]. vm_compute. repeat split; reflexivity. Qed.

(* what the insertion order changes, and what it does not: the base has [F [0] []] at ids 0 and 2; the request for it is
   answered with the last inserted of the two; soundness / idempotence / preservation hold either way.  The code
   (ascending order) answers 2, the highest id; the descending order is what a HashMap iteration could produce before
   the repair of D11 *)
Example C13_ex_hash_order :
  fst (api_run [(0, F [0] []); (1, F [0] [])] (parse_types_asc ex_base)) = [2; 2]
  /\ fst (api_run [(0, F [0] []); (1, F [0] [])] (parse_types ex_base [0; 1; 2; 3])) = [2; 2]
  /\ fst (api_run [(0, F [0] []); (1, F [0] [])] (parse_types ex_base [3; 2; 1; 0])) = [0; 0]
  /\ emit_types (snd (api_run [(0, F [0] []); (1, F [0] [])] (parse_types ex_base [0; 1; 2; 3]))) = Some ex_base
  /\ emit_types (snd (api_run [(0, F [0] []); (1, F [0] [])] (parse_types ex_base [3; 2; 1; 0]))) = Some ex_base.
Proof. vm_compute. repeat split; reflexivity. Qed.

Example C13_ex_sequence :
  let ops := [(0, F [1] []); (5, mkT 2 [5] [1] (Some 1) false true); (6, F [1] []); (3, mkT 1 [21] [1] None true false);
              (2, mkT 1 [21] [1] (Some 7) false true); (1, F [1] [])] in
  let r := api_run ops (parse_types ex_base [2; 0; 3; 1]) in
  fst r = [4; 5; 4; 6; 6; 4]
  /\ shaped ex_base = true
  /\ emit_types (snd r) = Some (ex_base ++ [(false, [F [1] []]); (false, [mkT 2 [5] [1] (Some 1) false true]);
                                            (false, [mkT 1 [21] [1] None true false])]).
Proof. vm_compute. repeat split; reflexivity. Qed.

Example C13_ex_checker :
  let ops := [(0, F [1] []); (1, F [0] []); (6, F [1] [])] in
  let c o := mkTC ex_base [0; 1; 2; 3] ops o in
  domain13 (c None) = true
  /\ model (c None) = Some ([4; 2; 4], ex_base ++ [(false, [F [1] []])])
  /\ agree (c (model (c None))) = true /\ holds13 (c (model (c None))) = true
  /\ holds13 (c (Some ([4; 0; 4], ex_base ++ [(false, [F [1] []])]))) = true       (* the other equal type: also fine *)
  /\ holds13 (c (Some ([4; 1; 4], ex_base ++ [(false, [F [1] []])]))) = false      (* wrong type at the returned id *)
  /\ holds13 (c (Some ([4; 2; 5], ex_base ++ [(false, [F [1] []]); (false, [F [1] []])]))) = false  (* added twice *)
  /\ holds13 (c (Some ([3; 2; 3], [(false, [F [0] []]); (true, [mkT 2 [0; 20] [1; 0] None false false; F [0] []]); (true, []);
                                   (false, [F [1] []]); (false, [S2])]))) = false.  (* an existing type moved *)
Proof. vm_compute. repeat split; reflexivity. Qed.
