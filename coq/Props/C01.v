(* C01 -- Unmodified parse-then-encode yields a valid module.
   "For every valid WebAssembly module whose features the library represents, parsing succeeds and encoding the
    untouched result produces a module that passes validation."  Quantifier: valid modules over MVP, multi-value,
    reference types, bulk memory, SIMD, tail calls, GC types, exceptions, threads, memory64, multi-memory (with the flag),
    excluding extended constant expressions.

   The property is FALSE of /repo today, in these input classes:
     D10a (101)  exnref / nullexnref in a function type or local declaration comes back non-nullable; the output is then
                 invalid whenever the nullable type mattered: `(local exnref) local.get 0` -> "uninitialized local",
                 a block of type (result i32 exnref) fed with ref.null exn -> "type mismatch: expected (ref exn)";
     D09i / D09j (909, 910)  a valid module whose name section has an undecodable entry is rejected with Err.
   (Repaired: D09a-d -- name section before the code section / naming a function past the end, producers section with
   zero fields / unknown field / non-UTF-8 value: these valid modules are now parsed.)

   What is established:
   * parsing: C03's theorems (Props/C03.v) -- the parse model never panics; here the same model predicts the parse
     outcome of every sampled valid module (C01_parse_never_panics).
   * validity is *reduced to content*: C01_checker_sound (Coq): on a case where model and implementation agree, if the
     input is valid, the parse model predicts Ok and the decoded content of output and input are equal, then the
     output was observed valid; with C02_checker_sound this gives C01_valid_roundtrip: outside D09 / D10 an agreeing
     case satisfies C01.  The assumption behind the reduction -- validity depends only on the decoded content and on
     a well-ordered framing -- is not proved; it is *sampled* on every case (agree01 fails if an output with equal
     content does not validate).
   * C01_valtype_faithful: the value-type conversions are the identity outside D10 (generated tables).
   * the differential run: wasmparser's Validator with exactly the features of the module's profile set on input and
     output.
   PARTIAL: no Gallina model of the validator or of the encoder; "valid" is whatever wasmparser 0.235 accepts. *)
From Coq Require Import List NArith Bool.
From Orca Require Import Base.Util Model.ParseGlue Model.ValTypes Gen.GenDataTypeConv Proofs.ValTypeProofs
                         Check.CheckParse Proofs.ParseProofs Check.CheckRoundtrip Proofs.RoundtripProofs.
Import ListNotations.
Local Open Scope N_scope.

Theorem C01_checker_sound : forall c, agree01 c = true -> pred_parse c = OOk -> rc_in_valid c = true -> content_equal c = true ->
  holds01 c = true.
Proof. exact checker_sound01. Qed.
Print Assumptions C01_checker_sound.

Theorem C01_valid_roundtrip : forall c, agree01 c = true -> agree02 c = true -> pred_parse c = OOk -> d10_in c = false ->
  rc_in_valid c = true -> holds01 c = true.
Proof. exact valid_roundtrip. Qed.
Print Assumptions C01_valid_roundtrip.

Theorem C01_parse_failures_known : forall mm s k, parse_glue mm s = OPanic k -> In k known_panic_sites.
Proof. exact parse_glue_panics_known. Qed.
Print Assumptions C01_parse_failures_known.

Theorem C01_parse_never_panics : forall mm s k, parse_glue mm s <> OPanic k.
Proof. exact parse_glue_never_panics. Qed.
Print Assumptions C01_parse_never_panics.

Theorem C01_valtype_faithful : forall t, in_profile t -> known_D10 t = false -> roundtrip_enc t = Some t.
Proof. exact valtype_faithful. Qed.
Print Assumptions C01_valtype_faithful.

(* the former D09 refutations: these valid modules are now parsed *)
Example C01_repaired_D09_name_before_code : parse_glue false w_name_before_code = OOk.
Proof. exact name_before_code_parses. Qed.
Example C01_repaired_D09_producers_empty : parse_glue false w_producers_empty = OOk.
Proof. exact producers_empty_parses. Qed.
(* refutations *)
(* D09i: a valid module whose type-name map has a name that is not UTF-8 is rejected *)
Example C01_refuted_D09i_namemap : parse_glue false w_namemap = OErr.
Proof. exact namemap_rejected. Qed.
(* D10: (module (func (local exnref) (drop (local.get 0)))) -- the local comes back as (ref exn), which is not defaultable *)
Example C01_refuted_D10 : roundtrip_enc (VRef true (HAbs false AExn)) = Some (VRef false (HAbs false AExn)).
Proof. exact valtype_refuted_exnref. Qed.

(* non-trivial cases satisfying the hypotheses *)
Definition ex_mod1 : list mev :=
  [MVersion 1; MTypes [true] true; MFuncs [0] true; MCodeStart 1; MCodeEntry true true true false; MIgnored].
Example C01_case_holds :
  let c := mkRCase false ex_mod1 OOk OOk true true [[11]; []; [21]; []; []; []; []; []; []; []; []] [[11]; []; [21]; []; []; []; []; []; []; []; []]
                   [] [] [] [] [(VI64, Some VI64)] in
  agree01 c = true /\ agree02 c = true /\ pred_parse c = OOk /\ d10_in c = false /\ rc_in_valid c = true /\ holds01 c = true.
Proof. vm_compute. repeat split; reflexivity. Qed.
(* corpus/roundtrip/08_exnref_types.wat as observed: output invalid ("uninitialized local"), class 101 *)
Example C01_case_D10 :
  let c := mkRCase false ex_mod1 OOk OOk true false [[11]; []; [21]; []; []; []; []; []; []; []; []] [[98]; []; [99]; []; []; []; []; []; []; []; []]
                   [] [] [] [] [(VRef true (HAbs false AExn), Some (VRef false (HAbs false AExn)))] in
  agree01 c = true /\ holds01 c = false /\ known_rt c = [101].
Proof. vm_compute. repeat split; reflexivity. Qed.
