(* C08 — memory references stay bound to the same memory across edits.  Statements only. *)
From Coq Require Import List Arith NArith Bool.
Import ListNotations.
From Orca Require Import Util Reindex Reorg ReidxProofs ReidxBind ReidxInv CheckReidx SelfReidx GenRefers RefersThm ReidxHandles.
Local Open Scope N_scope.

(* the index-space theorems are shared by the three re-indexed spaces (functions, globals, memories) *)
Theorem C08_index_space_closed_form :
  forall s : space, s_recalc s = true -> (N.to_nat (s_num s - s_added s) <= length (s_items s))%nat ->
    forall l m, index_space s = Ok (l, m) ->
      l = spec (N.to_nat (s_num s - s_added s)) (s_items s) /\ m = mapping l.
Proof. exact index_space_closed_form. Qed.
Print Assumptions C08_index_space_closed_form.
Theorem C08_mapping_position :
  forall l p it, NoDup (map it_id l) -> nth_error l p = Some it -> lookup (mapping l) (it_id it) = Some (N.of_nat p).
Proof. exact mapping_pos. Qed.
Print Assumptions C08_mapping_position.

(* Over the tables regenerated from /repo/src/ir/wrappers.rs and the pinned wasmparser's operator list on every
   check: every one of the 619 operators that carries a memory index (memarg / mem / src_mem / dst_mem) is both
   classified by refers_to_memory and rewritten by update_memory_instr, and nothing else is.  (False before the
   repair of D04: i64.atomic.load and the 49 atomic rmw / cmpxchg operators were missing.) *)
Theorem C08_every_memory_operator_is_reindexed :
  forall k, In k ops_with_memory_index -> RefersThm.mem k refers_to_memory_list = true /\ RefersThm.mem k update_memory_list = true.
Proof. exact memory_operator_covered. Qed.
Print Assumptions C08_every_memory_operator_is_reindexed.
Theorem C08_memory_tables_exact :
  missing ops_with_memory_index refers_to_memory_list = [] /\ missing refers_to_memory_list ops_with_memory_index = [].
Proof. exact refers_to_memory_complete. Qed.
Print Assumptions C08_memory_tables_exact.

Example C08_nonvacuous :
  let c := self_r [(2, 1)] [99] [] [7] [AddImport SM 21; AddLocal SM 9]
             [mkSite KCode SM 1 (OFunc 0); mkSite KCode SM 2 (OFunc 0); mkSite KCode SM 3 (OFunc 0);
              mkSite KDataMem SM 1 ONone; mkSite KExport SM 0 (OExport 0)] in
  agree c = true /\ dom_of (verdict08 c) = true /\ holds_of (verdict08 c) = true.
Proof. vm_compute. repeat split; reflexivity. Qed.

(* ---- the binding theorem over every reachable state (Proofs/ReidxInv.v) ----
   [wf] (stored ids are positions, the import-section entries are linked one-to-one to the import items, the
   counters bound the original region) holds of every base module and is preserved by every edit of the API
   model; hence, after ANY history, with no premise left (the former classes D02 / D06 / D26 are repaired: the import
   section is emitted in index order and deleted items are dropped), every live item's id is mapped to the index at
   which Wasm's index rule
   (imports of the kind in import-section order, then the emitted locals) finds exactly that item; deleted items
   have no map entry (a remaining reference makes encode panic) and nothing deleted is left in the space. *)
Theorem C08_wf_is_an_invariant_of_every_edit :
  forall m o m' r, wf m -> Reindex.step m o = Ok (m', r) -> wf m'.
Proof. exact step_wf. Qed.
Print Assumptions C08_wf_is_an_invariant_of_every_edit.
Theorem C08_wf_holds_of_every_base_module : forall c : rcase, wf (mk_base c).
Proof. exact wf_mk_base. Qed.
Print Assumptions C08_wf_holds_of_every_base_module.
Theorem C08_binding_after_any_history :
  forall base h m rets, wf base -> run_pref base h [] = (m, rets, false) ->
  forall x,
  forall l mp, index_space (get_sp m x) = Ok (l, mp) ->
  forall it, In it (s_items (get_sp m x)) -> it_del it = false ->
  exists q, lookup mp (it_id it) = Some q /\ nthN (space_of_model m l x) q = Some (it_fp it).
Proof. exact reachable_binding. Qed.
Print Assumptions C08_binding_after_any_history.
(* the same on what the encoder model emits, in the checker's vocabulary ([designates] = Wasm's index rule on
   the emitted import section and local sections), for every case (no known class is excluded any more) *)
Theorem C08_binding_on_the_emitted_module :
  forall (c : rcase) e,
  encode (final_model c) (dead_exports (h_ops c)) (sites c) = Ok e ->
  forall x l mp, index_space (get_sp (final_model c) x) = Ok (l, mp) ->
  (forall it, In it (s_items (get_sp (final_model c) x)) -> it_del it = false ->
     exists q, lookup mp (it_id it) = Some q /\ designates e x q = Some (it_fp it)) /\
  (forall it, In it (s_items (get_sp (final_model c) x)) -> it_del it = true -> lookup mp (it_id it) = None) /\
  (forall it, In it l -> it_del it = false).
Proof. exact case_binding_outside_known_classes. Qed.
Print Assumptions C08_binding_on_the_emitted_module.
(* the premises are satisfiable after a six-edit history touching all three spaces; the former D02 witness (an import
   added before a conversion) is bound correctly *)
Example C08_binding_nonvacuous : True.
Proof. pose proof reachable_binding_nonvacuous. pose proof reachable_binding_former_D02_witness. exact I. Qed.

(* Stable handles: the id returned for an added memory (add_local_memory) still designates that item after ANY later history
   that does not delete it, in whatever space the other edits happen, and the emitted module has that item at the index
   the id is mapped to -- so a reference through the returned id stays bound to it. *)
Theorem C08_returned_id_stays_bound :
  forall base h1 o fp h2 m0 r0 m1 id m rets dead sites e,
  wf base -> run_pref base h1 [] = (m0, r0, false) ->
  adds o SM fp = true -> Reindex.step m0 o = Ok (m1, Some id) ->
  run_pref m1 h2 [] = (m, rets, false) -> existsb (fun o' => names o' SM id) h2 = false ->
  encode m dead sites = Ok e ->
  forall l mp, index_space (get_sp m SM) = Ok (l, mp) ->
  exists q, lookup mp id = Some q /\ designates e SM q = Some fp.
Proof. intros base h1 o fp. exact (returned_id_designates_in_emitted_module base h1 o SM fp). Qed.
Print Assumptions C08_returned_id_stays_bound.
