(* C08 — memory references stay bound to the same memory across edits.  Statements only. *)
From Coq Require Import List Arith NArith Bool.
Import ListNotations.
From Orca Require Import Util Reindex Reorg ReidxProofs CheckReidx SelfReidx GenRefers RefersThm.
Local Open Scope N_scope.

(* the index-space theorems are shared by the three re-indexed spaces (functions, globals, memories) *)
Theorem C08_index_space_closed_form :
  forall s : space, s_recalc s = true -> (N.to_nat (s_num s - s_added s) <= length (s_items s))%nat ->
    forall l m, index_space s = Ok (l, m) ->
      l = spec (N.to_nat (s_num s - s_added s)) (s_items s) /\ m = mapping l.
Proof. exact index_space_closed_form. Qed.
Print Assumptions C08_index_space_closed_form.
Theorem C08_mapping_position :
  forall l p it, NoDup (map it_id l) -> nth_error l p = Some it -> lookup (mapping l) (it_id it) = Some (N.of_nat p).
Proof. exact mapping_pos. Qed.
Print Assumptions C08_mapping_position.

(* Over the tables regenerated from /repo/src/ir/wrappers.rs and the pinned wasmparser's operator list on every
   check: every one of the 619 operators that carries a memory index (memarg / mem / src_mem / dst_mem) is both
   classified by refers_to_memory and rewritten by update_memory_instr, and nothing else is.  (False before the
   repair of D04: i64.atomic.load and the 49 atomic rmw / cmpxchg operators were missing.) *)
Theorem C08_every_memory_operator_is_reindexed :
  forall k, In k ops_with_memory_index -> RefersThm.mem k refers_to_memory_list = true /\ RefersThm.mem k update_memory_list = true.
Proof. exact memory_operator_covered. Qed.
Print Assumptions C08_every_memory_operator_is_reindexed.
Theorem C08_memory_tables_exact :
  missing ops_with_memory_index refers_to_memory_list = [] /\ missing refers_to_memory_list ops_with_memory_index = [].
Proof. exact refers_to_memory_complete. Qed.
Print Assumptions C08_memory_tables_exact.

Example C08_nonvacuous :
  let c := self_r [(2, 1)] [99] [] [7] [AddImport SM 21; AddLocal SM 9]
             [mkSite KCode SM 1 (OFunc 0); mkSite KCode SM 2 (OFunc 0); mkSite KCode SM 3 (OFunc 0);
              mkSite KDataMem SM 1 ONone; mkSite KExport SM 0 (OExport 0)] in
  agree c = true /\ dom_of (verdict08 c) = true /\ holds_of (verdict08 c) = true.
Proof. vm_compute. repeat split; reflexivity. Qed.
