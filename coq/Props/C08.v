(* C08 — memory references stay bound to the same memory across edits.  Statements only. *)
From Coq Require Import List Arith NArith Bool.
Import ListNotations.
From Orca Require Import Util Reindex Reorg ReidxProofs CheckReidx SelfReidx.
Local Open Scope N_scope.

(* the index-space theorems are shared by the three re-indexed spaces (functions, globals, memories) *)
Theorem C08_index_space_closed_form :
  forall s : space, s_recalc s = true -> (N.to_nat (s_num s - s_added s) <= length (s_items s))%nat ->
    forall l m, index_space s = Ok (l, m) ->
      l = spec (N.to_nat (s_num s - s_added s)) (s_items s) /\ m = mapping l.
Proof. exact index_space_closed_form. Qed.
Print Assumptions C08_index_space_closed_form.
Theorem C08_mapping_position :
  forall l p it, NoDup (map it_id l) -> nth_error l p = Some it -> lookup (mapping l) (it_id it) = Some (N.of_nat p).
Proof. exact mapping_pos. Qed.
Print Assumptions C08_mapping_position.

Example C08_nonvacuous :
  let c := self_r [(2, 1)] [99] [] [7] [AddImport SM 21; AddLocal SM 9]
             [mkSite KCode SM 1 (OFunc 0); mkSite KCode SM 2 (OFunc 0); mkSite KCode SM 3 (OFunc 0);
              mkSite KDataMem SM 1 ONone; mkSite KExport SM 0 (OExport 0)] in
  agree c = true /\ dom_of (verdict08 c) = true /\ holds_of (verdict08 c) = true.
Proof. vm_compute. repeat split; reflexivity. Qed.
