(* C05 — encoding again without edits gives the same bytes.  Statements only. *)
From Coq Require Import List Arith NArith ZArith Bool.
Import ListNotations.
From Orca Require Import Util Reindex Flat Lowering CheckLow CheckReidx SelfReidx Idem.

(* Instrumentation side: after the first encode every special-mode list is empty (outside D31), the function
   level lists are cleared, and on such a body the resolution pass of the second encode is the identity: no
   probe is lowered twice, no flag local is allocated twice. *)
Theorem C05_second_resolution_is_identity :
  forall (ty : N) (body : list (fop * flags)) (loc : locals),
    forallb (fun x => no_special (snd x)) body = true ->
    resolve true [] [] ty body loc = (body, loc).
Proof. exact resolve_idempotent. Qed.
Print Assumptions C05_second_resolution_is_identity.

(* Index side (partial): the first encode rewrites every reference in place and keeps `recalculate_ids`
   set; the second encode applies the id maps again.  When a map is the identity on its domain every
   reference is emitted unchanged, so the second application changes nothing; otherwise the bytes differ:
   D01, known finding. *)
Theorem C05_partial_identity_maps_leave_references :
  forall mf mg mm s q, id_on_domain mf -> id_on_domain mg -> id_on_domain mm ->
    site_emit mf mg mm s = Ok (Some q) -> q = rs_id s.
Proof. exact site_emit_identity. Qed.
Print Assumptions C05_partial_identity_maps_leave_references.

(* D01 witness shape (replayed on the implementation by the reindex harness): `call $b` in $a + add_import_func:
   the first encode maps 1 -> 2, a second application maps the already rewritten 2 again *)
Example C05_refuted_D01_shape :
  let c := self_r [] [11; 12; 99] [] [] [AddImport SF 21] [mkSite KCode SF 1 (OFunc 2)] in
  known_D01 c = true /\ e_sites (match o_enc c with Some e => e | None => mkE [] [] [] [] [] end) = [(0, 2)]%N.
Proof. vm_compute. split; reflexivity. Qed.
