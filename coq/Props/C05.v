(* C05 — encoding again without edits gives the same bytes.  Statements only. *)
From Coq Require Import List Arith NArith ZArith Bool.
Import ListNotations.
From Orca Require Import Util Reindex Reindex2 Flat Lowering CheckLow CheckReidx CheckReidx2 SelfReidx Idem Cleared ReidxInv Reidx2Proofs.

(* Instrumentation side: after the first encode every special-mode list is empty
   (C05_first_resolution_clears_every_special_list below), the function level lists are cleared, and on such a
   body the resolution pass of the second encode is the identity: no probe is lowered twice, no flag local is
   allocated twice. *)
Theorem C05_second_resolution_is_identity :
  forall (ty : N) (body : list (fop * flags)) (loc : locals),
    forallb (fun x => no_special (snd x)) body = true ->
    resolve true [] [] ty body loc = (body, loc).
Proof. exact resolve_idempotent. Qed.
Print Assumptions C05_second_resolution_is_identity.

(* The resolution pass of the first encode leaves no special-mode list behind -- for every body whose block-alternates
   sit on block / loop / if / else (all the injection API accepts), every entry / exit code, every plan: an
   instruction is either planned and cleared, or the opener of a replaced construct (every special mode cleared with
   its block-alt), or deleted inside a replaced region (every special mode cleared with it). *)
Theorem C05_first_resolution_clears_every_special_list :
  forall (entry exit : list fop) (ty : N) (body : list (fop * flags)) (loc : locals),
    forallb accepted body = true ->
    forallb (fun x => no_special (snd x)) (fst (resolve true entry exit ty body loc)) = true.
Proof. exact resolve_clears_special. Qed.
Print Assumptions C05_first_resolution_clears_every_special_list.

(* Hence, on the mirror of one case, for every plan over all seven modes (nested block-alternates, special probes
   inside the regions the plan removes or on the replaced opener included): the second resolution is the identity
   on what the first one left. *)
Theorem C05_second_resolution_is_identity_after_the_first :
  forall (c : lcase) fb sp loc2,
    apply_plan false (c_plan c) (map (fun o => (o, no_flags)) (c_body c)) false = Some (fb, sp) ->
    balt_sites_ok (c_body c) (c_plan c) = true ->
    let loc := mkLocals (c_nparams c) (c_numlocals c) (c_groups c) in
    let r := fst (resolve true (c_entry c) (c_exit c) (c_exit_ty c) fb loc) in
    forallb (fun x => no_special (snd x)) r = true /\ resolve true [] [] (c_exit_ty c) r loc2 = (r, loc2).
Proof. exact model_second_resolution_is_identity. Qed.
Print Assumptions C05_second_resolution_is_identity_after_the_first.

(* D31 was a genuine defect of the pinned tree: a special-mode injection on an instruction that the same plan
   removes with block-alt (or on the replaced opener) was neither resolved nor cleared; it stayed attached to the
   IR, "BUG: ... should be resolved already" was logged and a second encode() gave different bytes.  It is repaired
   ("fix:" commit in /repo: the deleted instruction's special lists are cleared where it is deleted).  The former
   witness -- a block with a block-alternate and a block-entry probe on the same block, plus a block-exit probe on
   a block inside it -- now leaves no special list, and resolving again changes nothing: *)
Example C05_former_D31_witness_holds :
  let body := [FBlock BtEmpty; FBlock BtEmpty; FConst 1; FDrop; FEnd; FEnd; FEnd] in
  let plan := [(0%nat, MBlockAlt, [FConst 1001; FDrop]); (0%nat, MBlockEntry, [FConst 1002; FDrop]);
               (1%nat, MBlockExit, [FConst 1003; FDrop])] in
  match apply_plan false plan (map (fun o => (o, no_flags)) body) false with
  | Some (fb, sp) =>
      sp = true /\ forallb (fun x => no_special (snd x)) fb = false /\
      let r := fst (resolve true [] [] 0%N fb (mkLocals 0 0 [])) in
      forallb (fun x => no_special (snd x)) r = true
      /\ resolve true [] [] 0%N r (mkLocals 0 0 []) = (r, mkLocals 0 0 [])
      /\ emit r = [FConst 1001; FDrop; FEnd]
  | None => False
  end.
Proof. vm_compute. repeat split; reflexivity. Qed.

(* Index side.  The first encode reorganises the item vectors in place, never resets `recalculate_ids`, and rewrites
   in place the references it walks mutably (operators of bodies and probe lists, the start function, initialisers
   of local globals, offsets of active data segments); the second encode reorganises again and applies the new id
   maps to what the first one left.  Model/Reindex2.v mirrors exactly that ([encode_again]); its prediction "same /
   different / panics" is part of the correspondence (agree05) on every sampled history. *)

(* When no item vector is reorganised and every id map is the identity ([settled], executable) the second encoding
   IS the first one, for every state, every set of references, every set of deleted exports. *)
Theorem C05_settled_second_encode_same : forall m dead sites e,
  settled m = true -> encode m dead sites = Ok e -> encode_again m dead sites = Ok e.
Proof. exact settled_second_encode_same. Qed.
Print Assumptions C05_settled_second_encode_same.

(* Every state reached from ANY parsed module by ANY history that flags no index space (add_global through the
   module or an iterator, add_export_*, add_data, deleting exports, and every call that returns without effect) is
   settled: two consecutive encodings are equal -- in particular those of the unmodified module. *)
Theorem C05_unflagged_history_second_encode_same : forall (c : rcase) h m rets dead sites e,
  run_pref (mk_base c) h [] = (m, rets, false) ->
  (forall x, s_recalc (get_sp m x) = false) ->
  encode m dead sites = Ok e -> encode_again m dead sites = Ok e.
Proof. exact untouched_spaces_second_encode_same. Qed.
Print Assumptions C05_unflagged_history_second_encode_same.

Theorem C05_parsed_module_second_encode_same : forall (c : rcase) dead sites e,
  encode (mk_base c) dead sites = Ok e -> encode_again (mk_base c) dead sites = Ok e.
Proof. exact parsed_module_second_encode_same. Qed.
Print Assumptions C05_parsed_module_second_encode_same.

(* On every case where the model (second encode included) agrees with the implementation: outside the known class
   D01 the two real encodings were observed equal, and inside it they were observed to differ -- the class is
   exactly the set of histories for which the model of the in-place rewriting predicts a difference, so it cannot
   hide a second encode that differs for another reason. *)
Theorem C05_checker_sound_index_side : forall c2 : rcase2,
  agree05 c2 = true -> negb (o_api_panic (rc2 c2)) && encoded (rc2 c2) = true -> known_D01 (rc2 c2) = false ->
  o_same2 (rc2 c2) = true.
Proof. exact checker05_sound. Qed.
Print Assumptions C05_checker_sound_index_side.
Theorem C05_known_D01_is_exact : forall c2 : rcase2,
  agree05 c2 = true -> negb (o_api_panic (rc2 c2)) && encoded (rc2 c2) = true -> known_D01 (rc2 c2) = true ->
  o_same2 (rc2 c2) = false.
Proof. exact known_D01_exact. Qed.
Print Assumptions C05_known_D01_is_exact.
(* the correspondence compares the decoded CONTENT of the second real encoding with the model's second encoding (not
   only "same / different"): on an agreeing case they are equal *)
Theorem C05_second_encoding_is_the_models : forall (c2 : rcase2) e2,
  agree05 c2 = true -> negb (o_api_panic (rc2 c2)) && encoded (rc2 c2) = true ->
  encode_again (final_model (rc2 c2)) (dead_exports (h_ops (rc2 c2))) (sites (rc2 c2)) = Ok e2 ->
  exists e2', o_enc2 c2 = Some e2' /\ emod_eqb e2 e2' = true.
Proof. exact second_encoding_is_the_models. Qed.
Print Assumptions C05_second_encoding_is_the_models.

(* non-vacuity: an edited but unflagged history (two add_global, one export) on a module with imports *)
Example C05_unflagged_nonvacuous :
  let c := self_r [(0, 11); (1, 12)] [21; 22] [31] [41] [AddLocal SG 51; AddExport SG 1; ItAddGlobal 52]
                  [mkSite KCode SF 1 (OFunc 2); mkSite KCode SG 2 (OFunc 1); mkSite KInit SG 0 (OGlobal 2)] in
  (forall x, s_recalc (get_sp (final_model c) x) = false) /\ settled (final_model c) = true /\
  model_same2 c = Some true.
Proof. split; [intros []; vm_compute; reflexivity | vm_compute; split; reflexivity]. Qed.

(* The identity-map lemma the theorem above rests on, per reference. *)
Theorem C05_partial_identity_maps_leave_references :
  forall mf mg mm s q, id_on_domain mf -> id_on_domain mg -> id_on_domain mm ->
    site_emit mf mg mm s = Ok (Some q) -> q = rs_id s.
Proof. exact site_emit_identity. Qed.
Print Assumptions C05_partial_identity_maps_leave_references.

(* D01, known finding (the property is FALSE of the code on these histories): `call $b` in $a + add_import_func: the
   first encode maps 1 -> 2 and writes 2 into the body; the second encode maps the already rewritten 2 again (to 3).
   The model predicts the difference; the reindex harness replays the shape on the implementation. *)
Example C05_refuted_D01_shape :
  let c := self_r [] [11; 12; 99] [] [] [AddImport SF 21] [mkSite KCode SF 1 (OFunc 2)] in
  known_D01 c = true /\ settled (final_model c) = false /\
  e_sites (match o_enc c with Some e => e | None => mkE [] [] [] [] [] end) = [(0, 2)]%N /\
  match encode_again (final_model c) [] (sites c) with Ok e2 => e_sites e2 = [(0, 3)]%N | Panic _ => False end.
Proof. vm_compute. repeat split; reflexivity. Qed.
