(* C05 — encoding again without edits gives the same bytes.  Statements only. *)
From Coq Require Import List Arith NArith ZArith Bool.
Import ListNotations.
From Orca Require Import Util Reindex Flat Lowering CheckLow CheckReidx SelfReidx Idem Cleared.

(* Instrumentation side: after the first encode every special-mode list is empty
   (C05_first_resolution_clears_every_special_list below), the function level lists are cleared, and on such a
   body the resolution pass of the second encode is the identity: no probe is lowered twice, no flag local is
   allocated twice. *)
Theorem C05_second_resolution_is_identity :
  forall (ty : N) (body : list (fop * flags)) (loc : locals),
    forallb (fun x => no_special (snd x)) body = true ->
    resolve true [] [] ty body loc = (body, loc).
Proof. exact resolve_idempotent. Qed.
Print Assumptions C05_second_resolution_is_identity.

(* The resolution pass of the first encode leaves no special-mode list behind -- for every body whose block-alternates
   sit on block / loop / if / else (all the injection API accepts), every entry / exit code, every plan: an
   instruction is either planned and cleared, or the opener of a replaced construct (every special mode cleared with
   its block-alt), or deleted inside a replaced region (every special mode cleared with it). *)
Theorem C05_first_resolution_clears_every_special_list :
  forall (entry exit : list fop) (ty : N) (body : list (fop * flags)) (loc : locals),
    forallb accepted body = true ->
    forallb (fun x => no_special (snd x)) (fst (resolve true entry exit ty body loc)) = true.
Proof. exact resolve_clears_special. Qed.
Print Assumptions C05_first_resolution_clears_every_special_list.

(* Hence, on the mirror of one case, for every plan over all seven modes (nested block-alternates, special probes
   inside the regions the plan removes or on the replaced opener included): the second resolution is the identity
   on what the first one left. *)
Theorem C05_second_resolution_is_identity_after_the_first :
  forall (c : lcase) fb sp loc2,
    apply_plan false (c_plan c) (map (fun o => (o, no_flags)) (c_body c)) false = Some (fb, sp) ->
    balt_sites_ok (c_body c) (c_plan c) = true ->
    let loc := mkLocals (c_nparams c) (c_numlocals c) (c_groups c) in
    let r := fst (resolve true (c_entry c) (c_exit c) (c_exit_ty c) fb loc) in
    forallb (fun x => no_special (snd x)) r = true /\ resolve true [] [] (c_exit_ty c) r loc2 = (r, loc2).
Proof. exact model_second_resolution_is_identity. Qed.
Print Assumptions C05_second_resolution_is_identity_after_the_first.

(* D31 was a genuine defect of the pinned tree: a special-mode injection on an instruction that the same plan
   removes with block-alt (or on the replaced opener) was neither resolved nor cleared; it stayed attached to the
   IR, "BUG: ... should be resolved already" was logged and a second encode() gave different bytes.  It is repaired
   ("fix:" commit in /repo: the deleted instruction's special lists are cleared where it is deleted).  The former
   witness -- a block with a block-alternate and a block-entry probe on the same block, plus a block-exit probe on
   a block inside it -- now leaves no special list, and resolving again changes nothing: *)
Example C05_former_D31_witness_holds :
  let body := [FBlock BtEmpty; FBlock BtEmpty; FConst 1; FDrop; FEnd; FEnd; FEnd] in
  let plan := [(0%nat, MBlockAlt, [FConst 1001; FDrop]); (0%nat, MBlockEntry, [FConst 1002; FDrop]);
               (1%nat, MBlockExit, [FConst 1003; FDrop])] in
  match apply_plan false plan (map (fun o => (o, no_flags)) body) false with
  | Some (fb, sp) =>
      sp = true /\ forallb (fun x => no_special (snd x)) fb = false /\
      let r := fst (resolve true [] [] 0%N fb (mkLocals 0 0 [])) in
      forallb (fun x => no_special (snd x)) r = true
      /\ resolve true [] [] 0%N r (mkLocals 0 0 []) = (r, mkLocals 0 0 [])
      /\ emit r = [FConst 1001; FDrop; FEnd]
  | None => False
  end.
Proof. vm_compute. repeat split; reflexivity. Qed.

(* Index side (partial): the first encode rewrites every reference in place and keeps `recalculate_ids`
   set; the second encode applies the id maps again.  When a map is the identity on its domain every
   reference is emitted unchanged, so the second application changes nothing; otherwise the bytes differ:
   D01, known finding. *)
Theorem C05_partial_identity_maps_leave_references :
  forall mf mg mm s q, id_on_domain mf -> id_on_domain mg -> id_on_domain mm ->
    site_emit mf mg mm s = Ok (Some q) -> q = rs_id s.
Proof. exact site_emit_identity. Qed.
Print Assumptions C05_partial_identity_maps_leave_references.

(* D01 witness shape (replayed on the implementation by the reindex harness): `call $b` in $a + add_import_func:
   the first encode maps 1 -> 2, a second application maps the already rewritten 2 again *)
Example C05_refuted_D01_shape :
  let c := self_r [] [11; 12; 99] [] [] [AddImport SF 21] [mkSite KCode SF 1 (OFunc 2)] in
  known_D01 c = true /\ e_sites (match o_enc c with Some e => e | None => mkE [] [] [] [] [] end) = [(0, 2)]%N.
Proof. vm_compute. split; reflexivity. Qed.
