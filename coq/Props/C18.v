(* C18 — block entry probes fire on every entry into the block.  Statements only. *)
From Coq Require Import List Arith NArith ZArith Bool.
Import ListNotations.
From Orca Require Import Util Flat Lowering CheckLow Tree TreeLower WasmP SemProofs EvalP Sim CheckSem KnownSem SelfCase.

(* [exec .. true] fires the block-entry probes [f_be] of a block / loop / if / else each time control
   enters that body or arm -- for a loop on every iteration (WasmP.step_body: `probes (f_after F ++ f_be F)`
   sits inside the re-entered part) -- and at no other time.  The plain interpreter on the lowered tree
   produces exactly the same result and event trace, for every body, plan, configuration and fuel. *)
Theorem C18_block_entry_lowering_correct :
  forall (ftypes : list (nat * nat)) (F : nat -> flags) (X : list fop),
    pcode X ->     (* X: function-exit probes, spliced before return / unreachable / throw (C17); [] when there are none *)
    (forall i, pcode (bef F i) /\ pcode (aft F i) /\ pcode (be_ F i) /\ pcode (bx_ F i) /\ pcode (sa_ F i)) ->
    forall fuel body c ob,
      exec ftypes F X true fuel false body c = ob -> ob <> OFuel -> nbl F body ->
      exists fuel', exec ftypes (fun _ => no_flags) [] false fuel' false (flat_map (lower F X) body) c = ob.
Proof. exact sim_closed. Qed.
Print Assumptions C18_block_entry_lowering_correct.

(* non-vacuity: loop iterating twice with a block-entry probe: the probe event 1003 occurs twice *)
Example C18_nonvacuous :
  let body := [FConst 2; FLocalSet 2; FLoop BtEmpty; FLocalGet 2; FConst 1; FOther 7; FLocalTee 2; FBrIf 0; FEnd; FEnd] in
  let l := self_l 2 4 [] [] body [(2%nat, MBlockEntry, LOG 1003)] 0 false in
  check (fun _ => true) (self_s 0 l [[0; 0]%Z]) = VSame /\
  match parse_body body, flagged_body (self_s 0 l []) with
  | Some (t, fe), Some fb =>
      match exec_fn [(1,0);(2,0);(0,0)]%nat (flags_fn fb) [] [] true 200 t fe (mkC [0;0;0;0;0;0]%Z [0%Z] [] []) with
      | OReturn c => trace c | _ => [] end
  | _, _ => [] end = [1003; 1003]%Z.
Proof. vm_compute. split; reflexivity. Qed.
