(* C03 -- Parsing never panics.
   "Parsing any byte string as a module or as a component either returns a parsed value or an error; it never
    panics or aborts."

   Until the `fix:` commits for D09a..D09l the property was false: twelve panic sites of the parse path were
   reachable (classes 901..912), nine of them on inputs that wasmparser's validator accepts.  All twelve are repaired
   (known_findings.json `fixed`); the table `known_panic_sites` is empty.  What is established now:

   * C03_model_never_panics / C03_model_never_panics_component (Coq proof, every abstract input, no size bound): the
     glue model of Module::parse / Component::parse (Model/ParseGlue.v -- what the code does with the payloads
     wasmparser yields) never answers Panic.  (C03_partial / C03_partial_component are the same statements through the
     table of known sites, kept so that a future known site only has to be added to the table.)
     It is still *partial* because
       - the input is the payload abstraction, not the bytes: wasmparser (framing, LEB and operator decoding,
         its own limits) is outside the model, and so are panics *inside wasmparser*, allocation failure
         (a huge count passed to a collect / with_capacity) and stack exhaustion on deeply nested components;
       - the model is hand-written; it is tied to /repo by (a) the in-Coq differential run on fuzzed inputs
         (model prediction =? observed Ok / Err / Panic site of the three real parse calls; any observed panic is now
         an unlisted failure) and (b) the inventory obligation below;
       - for abstract inputs on which the model answers OUnmodelled (payload streams of more than 3000 events)
         nothing is claimed.
   * C03_repaired_* : the former refutation witnesses, one per repaired site -- the inputs that used to panic are now
     parsed (optional metadata: early name sections, producers sections) or rejected with Err.
   * C03_inventory_* (vm_compute over the table *generated* from /repo/src on every check): every syntactic
     unwrap / expect / panic!-like macro / index / slice / arithmetic site of the functions reachable from
     Module::parse and Component::parse has a status in Model/PanicSites.v and vice versa; none is Unknown; none is
     Reachable.  A new unwrap on the parse path breaks C03_inventory_no_site_without_status.  The `Guarded` statuses
     are one-line arguments by reading, not proofs.
   * C03_checker_sound / C03_no_unlisted_failures: the verdict computed for a sampled case is the property. *)
From Coq Require Import List NArith Bool.
From Orca Require Import Base.Util Model.ParseGlue Gen.GenInventory Model.PanicSites Check.CheckParse Proofs.ParseProofs.
Import ListNotations.
Local Open Scope N_scope.

Theorem C03_partial : forall (mm : bool) (s : list mev) (k : N),
  parse_glue mm s = OPanic k -> In k known_panic_sites.
Proof. exact parse_glue_panics_known. Qed.
Print Assumptions C03_partial.

Theorem C03_partial_component : forall (mm : bool) (s : list cev) (k : N),
  parse_comp_glue mm s = OPanic k -> In k known_panic_sites.
Proof. exact parse_comp_glue_panics_known. Qed.
Print Assumptions C03_partial_component.

(* table-driven form (vacuous while `known_panic_sites` is empty): every listed site is reached by some input *)
Theorem C03_known_sites_all_reached : forall k, In k known_panic_sites ->
  (exists mm s, parse_glue mm s = OPanic k) \/ (exists mm s, parse_comp_glue mm s = OPanic k).
Proof. exact every_known_site_reached. Qed.
Print Assumptions C03_known_sites_all_reached.

Theorem C03_model_never_panics : forall (mm : bool) (s : list mev) (k : N), parse_glue mm s <> OPanic k.
Proof. exact parse_glue_never_panics. Qed.
Print Assumptions C03_model_never_panics.

Theorem C03_model_never_panics_component : forall (mm : bool) (s : list cev) (k : N), parse_comp_glue mm s <> OPanic k.
Proof. exact parse_comp_glue_never_panics. Qed.
Print Assumptions C03_model_never_panics_component.

Theorem C03_no_known_site : known_panic_sites = [].
Proof. reflexivity. Qed.

(* ---- the former refutations, one per repaired site ------------------------------------------------------- *)
(* D09a (valid) a name section that names local function 0 and stands before the code section: parsed *)
Example C03_repaired_name_before_code : parse_glue false w_name_before_code = OOk /\ parse_glue false w_name_after_code = OOk.
Proof. split; [exact name_before_code_parses | exact name_after_code_parses]. Qed.
(* D09a (valid) a function name whose index is past the last function: parsed (the name is dropped) *)
Example C03_repaired_name_index : parse_glue false w_name_index_past_end = OOk.
Proof. exact name_index_past_end_parses. Qed.
(* D09b-d (valid) producers section with zero fields / unknown field name / a value that is not UTF-8: parsed *)
Example C03_repaired_producers_empty : parse_glue false w_producers_empty = OOk.
Proof. exact producers_empty_parses. Qed.
Example C03_repaired_producers_field : parse_glue false w_producers_badfield = OOk.
Proof. exact producers_badfield_parses. Qed.
Example C03_repaired_producers_values : parse_glue false w_producers_badvalue = OOk.
Proof. exact producers_badvalue_parses. Qed.
(* D09e (malformed) tag section with a non-zero attribute byte: Err *)
Example C03_repaired_tag_section : parse_glue false w_tag_attribute = OErr.
Proof. exact tag_attribute_rejected. Qed.
(* D09f (valid with the extended-const proposal, which the IR does not represent) a global initialised by i32.add: Err *)
Example C03_repaired_extended_const : parse_glue false w_extended_const = OErr.
Proof. exact extended_const_rejected. Qed.
(* D09g / D09h (invalid, well-formed) function of an undefined type / of an array type: Err *)
Example C03_repaired_func_type_missing : parse_glue false w_func_type_missing = OErr.
Proof. exact func_type_missing_rejected. Qed.
Example C03_repaired_func_type_kind : parse_glue false w_func_type_array = OErr.
Proof. exact func_type_array_rejected. Qed.
(* D09i / D09j (valid) name maps with an unreadable entry: Err *)
Example C03_repaired_namemap : parse_glue false w_namemap = OErr.
Proof. exact namemap_rejected. Qed.
Example C03_repaired_indirect_namemap : parse_glue false w_indirect_namemap = OErr.
Proof. exact indirect_namemap_rejected. Qed.
(* D09k component-name map with an unreadable entry: Err *)
Example C03_repaired_component_namemap : parse_comp_glue false w_comp_namemap = OErr.
Proof. exact comp_namemap_rejected. Qed.
(* D09l (truncated) nested module section longer than the enclosing slice: Err *)
Example C03_repaired_component_slice : parse_comp_glue false w_comp_slice = OErr.
Proof. exact comp_slice_rejected. Qed.

(* ---- inventory ------------------------------------------------------------------------------------------ *)
Theorem C03_inventory_no_site_without_status : sites_without_status = [].
Proof. exact inventory_no_site_without_status. Qed.
Theorem C03_inventory_no_stale_status : stale_status_entries = [].
Proof. exact inventory_no_stale_status. Qed.

Theorem C03_inventory_covered : map fst site_status = gen_sites.
Proof. exact inventory_covered. Qed.
Print Assumptions C03_inventory_covered.

Theorem C03_inventory_site_has_status : forall s, In s gen_sites <-> exists st, In (s, st) site_status.
Proof. exact inventory_site_has_status. Qed.

Theorem C03_inventory_no_unknown : forallb (fun p => negb (status_is_unknown (snd p))) site_status = true.
Proof. exact inventory_no_unknown. Qed.

Theorem C03_inventory_reachable_eq_known : forall k, In k reachable_classes <-> In k known_panic_sites.
Proof. exact inventory_reachable_eq_known. Qed.
Print Assumptions C03_inventory_reachable_eq_known.

(* ---- checker -------------------------------------------------------------------------------------------- *)
Theorem C03_checker_sound : forall c, agree c = true -> modelled c = true ->
  holds03 c = no_panic (pred_mod c) && no_panic (pred_mod_mm c) && no_panic (pred_comp c).
Proof. exact checker_sound03. Qed.
Print Assumptions C03_checker_sound.

Theorem C03_no_unlisted_failures : forall c, agree c = true -> modelled c = true ->
  forall k, In k (panic_sites c) -> In k known_panic_sites.
Proof. exact agreeing_failures_are_known. Qed.
Print Assumptions C03_no_unlisted_failures.

(* a non-trivial case satisfying the hypotheses: the (valid) module with an empty producers section, as observed now *)
Example C03_case_example :
  let c := mkPCase (mkPInput w_producers_empty [CSkip; CSkip; CSkip; CSkip]) OOk OOk OOk in
  agree c = true /\ modelled c = true /\ holds03 c = true /\ known03 c = [].
Proof. vm_compute. repeat split; reflexivity. Qed.
(* ... and what an observed panic would be: a disagreement with the model and an unlisted failure *)
Example C03_case_panic_is_unlisted :
  let c := mkPCase (mkPInput w_producers_empty [CSkip; CSkip; CSkip; CSkip]) (OPanic 902) (OPanic 902) OOk in
  agree c = false /\ holds03 c = false /\ known03 c = [].
Proof. vm_compute. repeat split; reflexivity. Qed.
