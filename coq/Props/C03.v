(* C03 -- Parsing never panics.
   "Parsing any byte string as a module or as a component either returns a parsed value or an error; it never
    panics or aborts."

   The property is FALSE of /repo today: twelve panic sites of the parse path are reachable (classes 901..912,
   known_findings.json D09a..D09l), nine of them on inputs that wasmparser's validator accepts.  What is
   established instead:

   * C03_partial / C03_partial_component (Coq proof, every abstract input, no size bound): the glue model of
     Module::parse / Component::parse (Model/ParseGlue.v -- what the code does with the payloads wasmparser
     yields) panics only at sites of the committed table `known_panic_sites`.  It is *partial* because
       - the input is the payload abstraction, not the bytes: wasmparser (framing, LEB and operator decoding,
         its own limits) is outside the model, and so are panics *inside wasmparser*, allocation failure
         (a huge count passed to a collect / with_capacity) and stack exhaustion on deeply nested components;
       - the model is hand-written; it is tied to /repo by (a) the in-Coq differential run on fuzzed inputs
         (model prediction =? observed Ok / Err / Panic site of the three real parse calls) and (b) the inventory
         obligation below;
       - for abstract inputs on which the model answers OUnmodelled (constant-expression shapes that the reader
         never produces, payload streams of more than 3000 events) nothing is claimed.
   * C03_refuted_* : the property is refuted -- one example per known site; those marked (valid) are abstractions of
     byte strings that wasmparser's validator (all features) accepts.
   * C03_inventory_* (vm_compute over the table *generated* from /repo/src on every check): every syntactic
     unwrap / expect / panic!-like macro / index / slice / arithmetic site of the functions reachable from
     Module::parse and Component::parse has a status in Model/PanicSites.v and vice versa; none is Unknown; the
     classes marked Reachable are exactly the known table.  A new unwrap on the parse path breaks
     C03_inventory_covered.  The `Guarded` statuses are one-line arguments by reading, not proofs.
   * C03_checker_sound / C03_no_unlisted_failures: the verdict computed for a sampled case is the property. *)
From Coq Require Import List NArith Bool.
From Orca Require Import Base.Util Model.ParseGlue Gen.GenInventory Model.PanicSites Check.CheckParse Proofs.ParseProofs.
Import ListNotations.
Local Open Scope N_scope.

Theorem C03_partial : forall (mm : bool) (s : list mev) (k : N),
  parse_glue mm s = OPanic k -> In k known_panic_sites.
Proof. exact parse_glue_panics_known. Qed.
Print Assumptions C03_partial.

Theorem C03_partial_component : forall (mm : bool) (s : list cev) (k : N),
  parse_comp_glue mm s = OPanic k -> In k known_panic_sites.
Proof. exact parse_comp_glue_panics_known. Qed.
Print Assumptions C03_partial_component.

(* the hypotheses are satisfiable and the conclusion is not vacuous: every listed site is reached by some input *)
Theorem C03_known_sites_all_reached : forall k, In k known_panic_sites ->
  (exists mm s, parse_glue mm s = OPanic k) \/ (exists mm s, parse_comp_glue mm s = OPanic k).
Proof. exact every_known_site_reached. Qed.
Print Assumptions C03_known_sites_all_reached.

(* ---- refutations, one per site -------------------------------------------------------------------------- *)
(* (valid) a name section that names local function 0 and stands before the code section *)
Example C03_refuted_name_before_code : parse_glue false w_name_before_code = OPanic 901 /\ parse_glue false w_name_after_code = OOk.
Proof. split; [exact site_901_reached | exact name_after_code_parses]. Qed.
(* (valid) a producers section with zero fields *)
Example C03_refuted_producers_empty : parse_glue false w_producers_empty = OPanic 902.
Proof. exact site_902_reached. Qed.
(* (valid with the extended-const proposal) a global initialised by i32.add *)
Example C03_refuted_extended_const : parse_glue false w_extended_const = OPanic 906.
Proof. exact site_906_reached. Qed.
(* (valid) a function name whose index is past the last function *)
Example C03_refuted_name_index : parse_glue false w_name_index_past_end = OPanic 901.
Proof. exact site_901_reached'. Qed.
(* (valid) producers field with an unknown name / a value that is not UTF-8 *)
Example C03_refuted_producers_field : parse_glue false w_producers_badfield = OPanic 903.
Proof. exact site_903_reached. Qed.
Example C03_refuted_producers_values : parse_glue false w_producers_badvalue = OPanic 904.
Proof. exact site_904_reached. Qed.
(* (malformed) tag section with a non-zero attribute byte *)
Example C03_refuted_tag_section : parse_glue false w_tag_attribute = OPanic 905.
Proof. exact site_905_reached. Qed.
(* (invalid, well-formed) function of an undefined type / of an array type *)
Example C03_refuted_func_type_missing : parse_glue false w_func_type_missing = OPanic 907.
Proof. exact site_907_reached. Qed.
Example C03_refuted_func_type_kind : parse_glue false w_func_type_array = OPanic 908.
Proof. exact site_908_reached. Qed.
(* (valid) name maps with an unreadable entry *)
Example C03_refuted_namemap : parse_glue false w_namemap = OPanic 909.
Proof. exact site_909_reached. Qed.
Example C03_refuted_indirect_namemap : parse_glue false w_indirect_namemap = OPanic 910.
Proof. exact site_910_reached. Qed.
(* (accepted by the validator) component-name map with an unreadable entry *)
Example C03_refuted_component_namemap : parse_comp_glue false w_comp_namemap = OPanic 911.
Proof. exact site_911_reached. Qed.
(* (truncated) nested module section longer than the enclosing slice *)
Example C03_refuted_component_slice : parse_comp_glue false w_comp_slice = OPanic 912.
Proof. exact site_912_reached. Qed.

(* ---- inventory ------------------------------------------------------------------------------------------ *)
Theorem C03_inventory_no_site_without_status : sites_without_status = [].
Proof. exact inventory_no_site_without_status. Qed.
Theorem C03_inventory_no_stale_status : stale_status_entries = [].
Proof. exact inventory_no_stale_status. Qed.

Theorem C03_inventory_covered : map fst site_status = gen_sites.
Proof. exact inventory_covered. Qed.
Print Assumptions C03_inventory_covered.

Theorem C03_inventory_site_has_status : forall s, In s gen_sites <-> exists st, In (s, st) site_status.
Proof. exact inventory_site_has_status. Qed.

Theorem C03_inventory_no_unknown : forallb (fun p => negb (status_is_unknown (snd p))) site_status = true.
Proof. exact inventory_no_unknown. Qed.

Theorem C03_inventory_reachable_eq_known : forall k, In k reachable_classes <-> In k known_panic_sites.
Proof. exact inventory_reachable_eq_known. Qed.
Print Assumptions C03_inventory_reachable_eq_known.

(* ---- checker -------------------------------------------------------------------------------------------- *)
Theorem C03_checker_sound : forall c, agree c = true -> modelled c = true ->
  holds03 c = no_panic (pred_mod c) && no_panic (pred_mod_mm c) && no_panic (pred_comp c).
Proof. exact checker_sound03. Qed.
Print Assumptions C03_checker_sound.

Theorem C03_no_unlisted_failures : forall c, agree c = true -> modelled c = true ->
  forall k, In k (panic_sites c) -> In k known_panic_sites.
Proof. exact agreeing_failures_are_known. Qed.
Print Assumptions C03_no_unlisted_failures.

(* a non-trivial case satisfying the hypotheses: the (valid) module with an empty producers section, as observed *)
Example C03_case_example :
  let c := mkPCase (mkPInput w_producers_empty [CSkip; CSkip; CSkip; CSkip]) (OPanic 902) (OPanic 902) OOk in
  agree c = true /\ modelled c = true /\ holds03 c = false /\ known03 c = [902].
Proof. vm_compute. repeat split; reflexivity. Qed.
