(* C12 — built functions appear exactly as built.  Statements only.
   "A function finished with the function builder appears in the encoded module with exactly the requested parameter
   and result types, the declared locals, the built instruction sequence followed by one end, and its name if one was
   set, and the returned function ID refers to it." *)
From Coq Require Import List Arith NArith ZArith Bool.
Import ListNotations.
From Orca Require Import Util Flat Lowering Locals LocalsProofs Types TypesProofs Reindex CheckReidx Builder CheckBuild BuildProofs ReidxInv ReidxHandles AddedHandles.
Local Open Scope N_scope.

(* finish_module appends exactly one End to whatever the Opcode helpers pushed, and keeps the name that was set *)
Theorem C12_finish_appends_one_end :
  forall (s : bstate) fp params results locs body name s' r,
  bstep s (BBuild fp params results locs body name) = Ok (s', r) ->
  exists p, plook (b_fpay s') fp = Some p /\ fp_body p = body ++ [end_tok] /\ fp_name p = name
            /\ removelast (fp_body p) = body /\ last (fp_body p) (0, []) = end_tok.
Proof. exact finish_appends_one_end. Qed.
Print Assumptions C12_finish_appends_one_end.

(* the run-length groups FunctionBuilder::add_local produces expand to the requested list of locals, for every list
   (any types, any repetitions, no bound); the ids handed out are params.len(), params.len()+1, ... *)
Theorem C12_declared_locals_exact :
  forall params locs : list N,
  expand (groups (built_locals params locs)) = locs
  /\ nparams (built_locals params locs) = lenN params
  /\ fst (add_seq locs (mkLocals (lenN params) 0 [])) = LocalsProofs.ids_from (lenN params) (length locs).
Proof. exact built_locals_exact. Qed.
Print Assumptions C12_declared_locals_exact.

(* the dedup map of every parsed type section is consistent (any hash iteration order), every API call keeps it so *)
Theorem C12_type_table_invariant :
  (forall c : bcase, tinv (bbase c)) /\ (forall s o s' r, tinv s -> bstep s o = Ok (s', r) -> tinv s').
Proof. split; [exact base_tinv | exact bstep_tinv]. Qed.
Print Assumptions C12_type_table_invariant.

(* one finish_module: exactly one function item is appended, the returned id is its stored id and position, and its
   payload is the request: the requested signature is the type stored at its type id (add_func_type, with or without
   a dedup hit), the groups expand to the requested locals, the body is the built sequence and one End, the name *)
Theorem C12_build_step_exact :
  forall s fp params results locs body name s' r,
  tinv s -> bstep s (BBuild fp params results locs body name) = Ok (s', r) ->
  s_items (m_f (b_m s')) = s_items (m_f (b_m s)) ++ [mkItem (lenN (s_items (m_f (b_m s)))) None false fp]
  /\ r = Some (lenN (s_items (m_f (b_m s))))
  /\ m_imports (b_m s') = m_imports (b_m s)
  /\ exists p, b_fpay s' = (fp, p) :: b_fpay s
       /\ nth_error (ts_types (b_ts s')) (N.to_nat (fp_tid p)) = Some (mkT 0 params results None true false)
       /\ expand (fp_groups p) = locs
       /\ fp_body p = body ++ [end_tok]
       /\ fp_name p = name.
Proof. exact build_step_exact. Qed.
Print Assumptions C12_build_step_exact.

(* the function and code sections of the output: one entry per live local item of the index space, in order, each with
   the signature stored at its type id, its stored local groups and its stored body *)
Theorem C12_function_section_exact :
  forall s sites o, bencode s sites = Ok o ->
  exists lf mf, index_space (m_f (b_m s)) = Ok (lf, mf) /\
  let live := map snd (filter (fun ki => is_local (snd ki) && negb (it_del (snd ki))) (number_items 0 lf)) in
  length (bo_funcs o) = length live /\
  forall k it, nth_error live k = Some it ->
    exists p ty nm, plook (b_fpay s) (it_fp it) = Some p
      /\ nth_error (ts_types (b_ts s)) (N.to_nat (fp_tid p)) = Some ty
      /\ nth_error (bo_funcs o) k = Some (mkFO (it_fp it) (t_xs ty) (t_ys ty) (fp_groups p) (fp_body p) nm).
Proof. exact function_section_exact. Qed.
Print Assumptions C12_function_section_exact.

(* end to end on the model, any history (no bound): a function built at any point of a history that does not reuse its
   fingerprint is emitted -- wherever the index space puts it -- with exactly the requested parameter and result types,
   local groups that expand to the requested locals, and the built sequence followed by one end *)
Theorem C12_built_function_emitted :
  forall s fp params results locs body name s1 r h rets s2 rets2 sites o,
  tinv s -> bstep s (BBuild fp params results locs body name) = Ok (s1, r) ->
  brun s1 h rets = (s2, rets2, false) -> (forall x, In x h -> fp_of x <> Some fp) ->
  bencode s2 sites = Ok o ->
  exists lf mf, index_space (m_f (b_m s2)) = Ok (lf, mf) /\
  forall k it, nth_error (map snd (filter (fun ki => is_local (snd ki) && negb (it_del (snd ki))) (number_items 0 lf))) k = Some it ->
    it_fp it = fp ->
    exists g nm, nth_error (bo_funcs o) k = Some (mkFO fp params results g (body ++ [end_tok]) nm) /\ expand g = locs.
Proof. exact built_function_emitted. Qed.
Print Assumptions C12_built_function_emitted.

(* agreement is equality; hence the same holds of the *observed* output of a case on which the implementation agrees *)
Theorem C12_agree_is_equality :
  forall c : bcase, agree c = true -> model_out c = (bo_rets c, bo_api_panic c, bo_enc c).
Proof. exact agree_reflect. Qed.
Print Assumptions C12_agree_is_equality.

Theorem C12_checker_sound_first_build :
  forall (c : bcase) o fp params results locs body name h,
  agree c = true -> bo_enc c = Some o -> bh_ops c = BBuild fp params results locs body name :: h ->
  (forall x, In x h -> fp_of x <> Some fp) ->
  exists s2 lf mf, index_space (m_f (b_m s2)) = Ok (lf, mf) /\
  forall k it, nth_error (map snd (filter (fun ki => is_local (snd ki) && negb (it_del (snd ki))) (number_items 0 lf))) k = Some it ->
    it_fp it = fp ->
    exists g nm, nth_error (bo_funcs o) k = Some (mkFO fp params results g (body ++ [end_tok]) nm) /\ expand g = locs.
Proof. exact observed_built_function. Qed.
Print Assumptions C12_checker_sound_first_build.

(* finish_module asserts functions.len() = num_local_functions + imports.num_funcs and succeeds exactly on a module
   that satisfies it.  Every parsed module does, with num_local_functions the number of local function items, and every
   API call of a history -- finish_module, add_import_func, delete_func and (since the repair of D08, which takes one
   off num_local_functions) convert_local_fn_to_import -- keeps both facts: finish_module never fails, after any
   history.  (Before the repair every finish_module after a conversion panicked.) *)
Theorem C12_build_needs_balance :
  forall m fp, (exists r, step m (AddLocal SF fp) = Ok r) <-> behind m 0.
Proof. exact build_needs_balance. Qed.
Print Assumptions C12_build_needs_balance.
Theorem C12_base_balanced : forall c : bcase, wfb (b_m (bbase c)).
Proof. exact base_wfb. Qed.
Print Assumptions C12_base_balanced.
Theorem C12_balance_kept_by_every_call :
  (forall s o s' r, wfb (b_m s) -> bstep s o = Ok (s', r) -> wfb (b_m s'))
  /\ (forall h s rets s' rets' p, wfb (b_m s) -> brun s h rets = (s', rets', p) -> wfb (b_m s')).
Proof. split; [exact bstep_wfb | exact brun_wfb]. Qed.
Print Assumptions C12_balance_kept_by_every_call.
Theorem C12_finish_module_never_fails :
  forall (c : bcase) h rets s rets' p fp params results locs body name,
  brun (bbase c) h rets = (s, rets', p) ->
  exists s' r, bstep s (BBuild fp params results locs body name) = Ok (s', r).
Proof. intros. apply build_succeeds. eapply brun_wfb; [apply base_wfb | eassumption]. Qed.
Print Assumptions C12_finish_module_never_fails.

(* The remaining part of the property -- the position of the function in the index space, i.e. that the returned id
   and the name refer to it after imports are added / functions deleted -- rests on recalculate_ids (closed form:
   C06_index_space_closed_form) and is decided per history by CheckBuild.verdict12 on the real output. *)

Definition base_f (fp : N) (name : option N) : fobs := mkFO fp [] [] [] [(10, [Z.of_N fp]); (11, []); (1, [])] name.
(* the former D08 witness (convert_local_fn_to_import of another function, then finish_module, used to panic): the
   build succeeds, returns id 2, and the property holds *)
Example C12_former_D08_witness_holds :
  let c := self_b [([], [])] [] [base_f 11 None; base_f 9999 None]
             [BLocalToImport 0 21; BBuild 31 [0] [] [1] [(10, [31%Z]); (11, [])] None] [] in
  agree c = true /\ bo_api_panic c = false /\ bo_rets c = [None; Some 2]
  /\ dom_of (verdict12 c) = true /\ holds_of (verdict12 c) = true /\ known_of (verdict12 c) = []
  /\ option_map bo_imports (bo_enc c) = Some [(0, 21)]
  /\ option_map bo_funcs (bo_enc c)
     = Some [base_f 9999 None; mkFO 31 [0] [] [(1, 1)] [(10, [31%Z]); (11, []); (1, [])] None].
Proof. vm_compute. repeat split; reflexivity. Qed.
(* the former D02 witness (build f, then convert_local_fn_to_import(1) and (0): the import section listed the two new
   imports in call order while the index space holds them in function order, so a `call` of the import made from
   function 0 reached the other import): the import section is emitted in index order and the property holds *)
Example C12_former_D02_witness_holds :
  let c := self_b [([], [])] [] [base_f 11 None; base_f 12 None; base_f 9999 None]
             [BBuild 31 [] [] [] [(10, [31%Z]); (11, [])] (Some 7); BLocalToImport 1 21; BLocalToImport 0 22] [0; 1; 3] in
  agree c = true /\ bo_rets c = [Some 3; None; None]
  /\ dom_of (verdict12 c) = true /\ holds_of (verdict12 c) = true /\ known_of (verdict12 c) = []
  /\ option_map bo_imports (bo_enc c) = Some [(0, 22); (0, 21)]
  /\ option_map bo_sites (bo_enc c) = Some [(0, 0); (1, 1); (2, 3)].
Proof. vm_compute. repeat split; reflexivity. Qed.
(* non-vacuity: two builds (one with a signature already in the type section, repeated local types, a name; one with a
   v128 parameter and an explicit `end` inside the built sequence) interleaved with two import additions and a deletion,
   five references: inside the domain, the property holds, and the output is what one expects *)
Example C12_nonvacuous :
  let c := self_b [([], []); ([0; 1], [2])] [(0, 1); (2, 2)]
             [mkFO 11 [] [] [(2, 0)] [(10, [11%Z]); (11, []); (1, [])] (Some 5); base_f 9999 None]
             [BAddImpFunc 21;
              BBuild 31 [0; 1] [2] [3; 3; 0; 5] [(10, [31%Z]); (11, []); (20, [2139095041%Z])] (Some 7);
              BDelete 1;
              BBuild 32 [4] [] [] [(10, [32%Z]); (11, []); (30, [(-1)%Z]); (1, [])] None;
              BAddImpFunc 22]
             [0; 3; 4; 5; 6] in
  agree c = true /\ dom_of (verdict12 c) = true /\ holds_of (verdict12 c) = true /\ known_of (verdict12 c) = []
  /\ bo_rets c = [Some 3; Some 4; None; Some 5; Some 6]
  /\ option_map bo_funcs (bo_enc c)
     = Some [base_f 9999 None;
             mkFO 31 [0; 1] [2] [(2, 3); (1, 0); (1, 5)] [(10, [31%Z]); (11, []); (20, [2139095041%Z]); (1, [])] (Some 7);
             mkFO 32 [4] [] [] [(10, [32%Z]); (11, []); (30, [(-1)%Z]); (1, []); (1, [])] None]
  /\ option_map bo_sites (bo_enc c) = Some [(0, 0); (1, 1); (2, 4); (3, 5); (4, 2)].
Proof. vm_compute. repeat split; reflexivity. Qed.

(* "... and the returned function ID refers to it": for every parsed module, every earlier history, every build and
   every later history of the engine's calls (builds, import additions, deletions, conversions - of OTHER functions;
   [names] = the call deletes or converts this very function), the id the build returned still designates the built
   function in the IR, and the encoder maps it to the index q at which the index space holds that function
   (fingerprint fp = the function whose emitted form C12_built_function_emitted describes). *)
Theorem C12_returned_id_refers_to_the_built_function :
  forall (c : bcase) h1 fp params results locs body name h2 s0 r0 s1 id s2 rets2 lf mf,
  brun (bbase c) h1 [] = (s0, r0, false) ->
  bstep s0 (BBuild fp params results locs body name) = Ok (s1, Some id) ->
  brun s1 h2 [] = (s2, rets2, false) ->
  existsb (fun o => names (rop_b o) SF id) h2 = false ->
  index_space (m_f (b_m s2)) = Ok (lf, mf) ->
  nthN (s_items (m_f (b_m s2))) id = Some (mkItem id None false fp) /\
  exists q, lookup mf id = Some q /\ nthN (space_of_model (b_m s2) lf SF) q = Some fp.
Proof. exact built_function_id_designates_it. Qed.
Print Assumptions C12_returned_id_refers_to_the_built_function.

(* non-vacuity: build, then add an import, convert another function and delete a third: the id 3 returned by the
   build ends up at index 3 (two imports in front), where the built function (fingerprint 77) stands *)
Example C12_returned_id_nonvacuous :
  let m0 := mk_base (mkRC [(0, 11)] [21; 22] [] [] 0 [] [] [] false None false true) in
  match run_pref m0 [AddLocal SF 77; AddImport SF 12; LocalToImport 1 13; Delete SF 2] [] with
  | (m, rets, false) =>
      nth 0 rets None = Some 3 /\
      existsb (fun o => names o SF 3) [AddImport SF 12; LocalToImport 1 13; Delete SF 2] = false /\
      match index_space (m_f m) with
      | Ok (l, mp) => lookup mp 3 = Some 3 /\ nthN (space_of_model m l SF) 3 = Some 77
      | Panic _ => False
      end
  | _ => False
  end.
Proof. vm_compute. repeat split; reflexivity. Qed.
