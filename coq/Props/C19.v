(* C19 — block exit probes fire when the block or arm falls through.  Statements only. *)
From Coq Require Import List Arith NArith ZArith Bool.
Import ListNotations.
From Orca Require Import Util Flat Lowering CheckLow Tree TreeLower WasmP SemProofs EvalP Sim CheckSem KnownSem SelfCase SimFn Peel SimFnReal Commute Flatten.

(* [exec .. true] fires the block-exit probes [f_bx] of a block / loop / else exactly when that body
   evaluates to [ONormal] (falls through to its end), and those of an `if` exactly when the then-arm falls
   through to its else or end; never when the construct is left by a branch.  The plain interpreter on
   the tree-level lowering (probes placed at the end of the body / of the then-arm) produces the same
   result and trace -- for every body, plan, configuration and fuel. *)
Theorem C19_block_exit_tree_lowering_correct :
  forall (ftypes : list (nat * nat)) (F : nat -> flags) (X : list fop),
    pcode X ->     (* X: function-exit probes, spliced before return / unreachable / throw (C17); [] when there are none *)
    (forall i, pcode (bef F i) /\ pcode (aft F i) /\ pcode (be_ F i) /\ pcode (bx_ F i) /\ pcode (sa_ F i)) ->
    forall fuel body c ob,
      exec ftypes F X true fuel false body c = ob -> ob <> OFuel -> nbl F body ->
      exists fuel', exec ftypes (fun _ => no_flags) [] false fuel' false (flat_map (lower F X) body) c = ob.
Proof. exact sim_closed. Qed.
Print Assumptions C19_block_exit_tree_lowering_correct.

(* The implementation's flat pass places the probes where the tree lowering does, for every nesting
   (C19_emitted_code_simulates_the_probe_semantics below; CheckSem.tree_tie compares the two on every sampled case).
   D15 was a genuine defect of the pinned tree: the block-exit code of an `if` whose then-arm contains a block-like
   instruction was emitted at the first inner end.  It is repaired ("fix:" commit in /repo: the pending exit code
   is keyed by the if's block id); the former witness now satisfies the property: with the argument 1 the
   specification fires 1003 after the event 7, and so does the emitted code. *)
Example C19_former_D15_witness_holds :
  let body := [FLocalGet 0; FIf BtEmpty; FBlock BtEmpty; FEnd; FConst 7; FOther 3; FEnd; FEnd] in
  let l := self_l 2 4 [] [] body [(1%nat, MBlockExit, LOG 1003)] 0 false in
  known_classes (self_s 0 l []) = [] /\ check (fun _ => true) (self_s 0 l [[1; 0]; [0; 0]]%Z) = VSame
  /\ agree_sem (self_s 0 l []) = true.
Proof. vm_compute. repeat split; reflexivity. Qed.

Example C19_nonvacuous :
  let body := [FLocalGet 0; FIf BtEmpty; FConst 7; FOther 3; FElse; FLocalGet 1; FBrIf 0; FConst 8; FOther 3; FEnd; FEnd] in
  let l := self_l 2 4 [] [] body [(1%nat, MBlockExit, LOG 1003); (4%nat, MBlockExit, LOG 1004)] 0 false in
  check (fun _ => true) (self_s 0 l [[1; 0]; [0; 0]; [0; 1]]%Z) = VSame /\ agree_sem (self_s 0 l []) = true.
Proof. vm_compute. split; reflexivity. Qed.

(* ---- end to end on the mirror of the implementation (Proofs/Flatten.v) ----
   [resolve] is the executable mirror of Module::resolve_special_instrumentation (one left-to-right pass over the FLAT
   instruction vector with its block stack and the two pending-probe maps) and [emit] the mirror of the encoder's
   plain lowering; the correspondence run ties both to /repo on every check.  For every flat body that parses,
   every flag assignment without replacements in the fragment [okI] (plain instructions are not structural, no
   semantic-after on branch instructions: the shapes of D16-D18), every entry code and exit code X: the code the mirror emits IS the flattening of a tree on
   which the plain Wasm interpreter reproduces every outcome of the probe-semantics interpreter [exec_fn .. true]
   (results, globals, event trace, traps). *)
Theorem C19_emitted_code_simulates_the_probe_semantics :
  forall ftypes (F : nat -> flags) ops t fe entry X ty nres loc,
  parse_body ops = Some (t, fe) -> nonrepl F -> forallb (okI F) t = true -> t <> [] ->
  let Fe := with0 entry F in
  pcode X ->
  (forall i, pcode (bef Fe i) /\ pcode (aft Fe i) /\ pcode (be_ Fe i) /\ pcode (bx_ Fe i) /\ pcode (sa_ Fe i)) ->
  neutral X -> neutral (bef Fe 0) -> arity ftypes (BtFunc ty) = (0, nres)%nat ->
  exists tree : list instr,
    emit (fst (resolve true entry X ty (flagged F 0 ops) loc)) = flat tree ++ [FEnd]
    /\ forall fuel c ob,
      exec_fn ftypes Fe [] X true fuel t fe c = ob -> ob <> OFuel -> stack c = [] ->
      (forall c1 n p c', exec ftypes (TreeLower.F0 Fe) X true fuel false t c1 = OBr n p c' -> n = 0%nat) ->
      exists fuel' ob', exec_fn ftypes nof [] [] false fuel' tree 0 c = ob' /\ res_eq nres ob ob'.
Proof. exact resolve_flatten_real_sim. Qed.
Print Assumptions C19_emitted_code_simulates_the_probe_semantics.
(* the tree is the one the checker compares with the real output: whenever the observed body equals the mirror's,
   CheckSem.tree_tie accepts *)
Theorem C19_tree_tie_follows_from_the_correspondence :
  forall (c : scase) b g g', model (s_l c) = Some (b, g) -> c_obs (s_l c) = Some (b, g') -> tree_tie c = true.
Proof. exact tree_tie_of_model. Qed.
Print Assumptions C19_tree_tie_follows_from_the_correspondence.
(* the shape of the former D15 (block-exit on an `if` whose then-arm contains a construct) is inside the theorem:
   the pending exit code is keyed by the if's own block id *)
Example C19_flatten_former_D15_witness_holds :
  frag exF exD15 /\
  emit (fst (resolve true [] [] 0%N (flatF exF exD15 ++ [(FEnd, exF 10)]) (mkLocals 0 0 [])))
  = flat (flat_map (lower exF []) exD15) ++ f_before (exF 10) ++ [FEnd].
Proof. exact resolve_flatten_former_D15_witness_holds. Qed.
