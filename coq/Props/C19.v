(* C19 — block exit probes fire when the block or arm falls through.  Statements only. *)
From Coq Require Import List Arith NArith ZArith Bool.
Import ListNotations.
From Orca Require Import Util Flat Lowering CheckLow Tree TreeLower WasmP SemProofs EvalP Sim CheckSem KnownSem SelfCase.

(* [exec .. true] fires the block-exit probes [f_bx] of a block / loop / else exactly when that body
   evaluates to [ONormal] (falls through to its end), and those of an `if` exactly when the then-arm falls
   through to its else or end; never when the construct is left by a branch.  The plain interpreter on
   the tree-level lowering (probes placed at the end of the body / of the then-arm) produces the same
   result and trace -- for every body, plan, configuration and fuel. *)
Theorem C19_block_exit_tree_lowering_correct :
  forall (ftypes : list (nat * nat)) (F : nat -> flags) (X : list fop),
    pcode X ->     (* X: function-exit probes, spliced before return / unreachable / throw (C17); [] when there are none *)
    (forall i, pcode (bef F i) /\ pcode (aft F i) /\ pcode (be_ F i) /\ pcode (bx_ F i) /\ pcode (sa_ F i)) ->
    forall fuel body c ob,
      exec ftypes F X true fuel false body c = ob -> ob <> OFuel -> nbl F body ->
      exists fuel', exec ftypes (fun _ => no_flags) [] false fuel' false (flat_map (lower F X) body) c = ob.
Proof. exact sim_closed. Qed.
Print Assumptions C19_block_exit_tree_lowering_correct.

(* The implementation's flat pass places the probes where the tree lowering does *except* for D15
   (CheckSem.tree_tie compares the two on every sampled case outside D15).  D15, known finding: block-exit
   on an `if` whose then-arm contains a block-like instruction is emitted at the first inner end: with
   the argument 1 the specification fires 1003 after the event 7, the emitted code fires it before. *)
Example C19_refuted_D15 :
  let body := [FLocalGet 0; FIf BtEmpty; FBlock BtEmpty; FEnd; FConst 7; FOther 3; FEnd; FEnd] in
  let l := self_l 2 4 [] [] body [(1%nat, MBlockExit, LOG 1003)] 0 false in
  in_class 15 (self_s 0 l []) = true /\ check (fun _ => true) (self_s 0 l [[1; 0]%Z]) = VDiff.
Proof. vm_compute. split; reflexivity. Qed.

Example C19_nonvacuous :
  let body := [FLocalGet 0; FIf BtEmpty; FConst 7; FOther 3; FElse; FLocalGet 1; FBrIf 0; FConst 8; FOther 3; FEnd; FEnd] in
  let l := self_l 2 4 [] [] body [(1%nat, MBlockExit, LOG 1003); (4%nat, MBlockExit, LOG 1004)] 0 false in
  check (fun _ => true) (self_s 0 l [[1; 0]; [0; 0]; [0; 1]]%Z) = VSame /\ agree_sem (self_s 0 l []) = true.
Proof. vm_compute. split; reflexivity. Qed.
