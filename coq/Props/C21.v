(* C21 — block alternate replaces exactly the selected construct.  Statements only. *)
From Coq Require Import List Arith NArith ZArith Bool.
Import ListNotations.
From Orca Require Import Util Flat Lowering CheckLow LowSpecial.

(* block-alternate is accepted exactly on block / loop / if / else *)
Theorem C21_accepted_on_constructs_only :
  forall op x f, (is_block_style op = false -> add_instr op MBlockAlt x f = None)
              /\ (is_block_style op = true -> exists f' s, add_instr op MBlockAlt x f = Some (f', s)).
Proof.
  intros op x f. split; intros H.
  - apply add_instr_rejects. exact H.
  - apply add_instr_accepts. exact H.
Qed.
Print Assumptions C21_accepted_on_constructs_only.

(* PARTIAL: the executable specification [spec21] (CheckLow.v: the construct from its opener through its
   matching end -- for else: the else and its arm, the end kept -- is replaced by the replacement code;
   everything outside, with its before/after/alternate instrumentation, is untouched) is compared with the
   real output on every sampled (body, plan); the theorem `model c = spec21` for all bodies is not proved.
   (D19, FunctionModifier::inject_at dropping the replacement, has been repaired.) *)
Example C21_spec_example :
  let body := [FConst 1; FIf BtEmpty; FBlock BtEmpty; FOther 1; FEnd; FElse; FOther 2; FEnd; FLoop BtEmpty; FEnd; FEnd] in
  spec21 [(5%nat, MBlockAlt, [FConst 7; FDrop]); (8%nat, MBlockAlt, []); (0%nat, MBefore, [FOther 3])] body
  = [FOther 3; FConst 1; FIf BtEmpty; FBlock BtEmpty; FOther 1; FEnd; FConst 7; FDrop; FEnd; FEnd].
Proof. vm_compute. reflexivity. Qed.
Example C21_nonvacuous :
  let body := [FConst 1; FIf BtEmpty; FBlock BtEmpty; FOther 1; FEnd; FElse; FOther 2; FEnd; FLoop BtEmpty; FEnd; FEnd] in
  let plan := [(5%nat, MBlockAlt, [FConst 1007; FDrop]); (8%nat, MBlockAlt, []); (0%nat, MBefore, [FOther 3])] in
  let c0 := mkCase 1 0 [] [] [] 2 body plan 0 false None true 0 in
  let c := mkCase 1 0 [] [] [] 2 body plan 0 false (model c0) true 0 in
  agree c = true /\ domain21 c = true /\ holds21 c = true.
Proof. vm_compute. repeat split; reflexivity. Qed.
(* former D19 witness (FunctionModifier::inject_at dropped the replacement; repaired): now holds *)
Example C21_former_D19_witness_holds :
  let body := [FBlock BtEmpty; FOther 1; FEnd; FEnd] in
  let plan := [(0%nat, MBlockAlt, [FConst 1007; FDrop])] in
  let c0 := mkCase 1 0 [] [] [] 2 body plan 3 false None true 0 in
  let c := mkCase 1 0 [] [] [] 2 body plan 3 false (model c0) true 0 in
  agree c = true /\ domain21 c = true /\ holds21 c = true.
Proof. vm_compute. repeat split; reflexivity. Qed.
