(* C21 — block alternate replaces exactly the selected construct.  Statements only. *)
From Coq Require Import List Arith NArith ZArith Bool.
Import ListNotations.
From Orca Require Import Util Flat Lowering CheckLow LowPlain LowSpecial LowAlt LowAltEq.

(* block-alternate is accepted exactly on block / loop / if / else *)
Theorem C21_accepted_on_constructs_only :
  forall op x f, (is_block_style op = false -> add_instr op MBlockAlt x f = None)
              /\ (is_block_style op = true -> exists f' s, add_instr op MBlockAlt x f = Some (f', s)).
Proof.
  intros op x f. split; intros H.
  - apply add_instr_rejects. exact H.
  - apply add_instr_accepts. exact H.
Qed.
Print Assumptions C21_accepted_on_constructs_only.

(* For every body and every plan over before / after / alternate / block-alternate (replacement or removal, any
   nesting, several per site, any API path), the model of the injection API + resolve_special_instrumentation
   + emission is exactly [dspec]: one left-to-right pass with a depth counter in which an opener (or else)
   carrying a block-alternate, met outside a removed region, is replaced by its replacement code and opens a
   removed region ending at its matching end (for else: just before the end, which is kept); inside a removed
   region no original instruction is emitted; everything else is rendered as in C15.  Locals untouched. *)
Theorem C21_block_alternate_lowering_exact :
  forall c : lcase,
    plan_ok (c_body c) (c_plan c) = true -> is_nil (c_entry c) = true -> is_nil (c_exit c) = true ->
    model c = Some (dspec (c_plan c) (length (c_body c) - 1) 0 1 None true (c_body c), c_groups c).
Proof. exact lowering_alt_exact. Qed.
Print Assumptions C21_block_alternate_lowering_exact.

Theorem C21_checker_sound :
  forall c : lcase, agree c = true -> plan_ok (c_body c) (c_plan c) = true -> is_nil (c_entry c) = true -> is_nil (c_exit c) = true ->
    match c_obs c with
    | Some (b, _) => obs_is (dspec (c_plan c) (length (c_body c) - 1) 0 1 None true (c_body c)) b = true
    | None => False
    end.
Proof. exact checker_alt_sound. Qed.
Print Assumptions C21_checker_sound.

(* The depth-counter pass coincides with the region-based reading of the property ([spec21]: the construct from
   its opener through its matching end -- for else: the else and its arm, the end kept -- is replaced by the
   replacement code, everything else is rendered as in C15) for every body whose nesting is consistent
   ([okdepth]) and every plan that puts no before/after/alternate probe on a removed position ([eqdom]). *)
Theorem C21_depth_counter_is_region_replacement :
  forall plan body, eqdom plan body = true ->
    dspec plan (length body - 1) 0 1 None true body = spec21 plan body.
Proof. exact dspec_is_spec21. Qed.
Print Assumptions C21_depth_counter_is_region_replacement.

(* C21 in full: block-alternate replaces exactly the selected construct, all other instructions and their
   instrumentation unaffected, locals untouched -- for all bodies and all plans in the property's quantifier. *)
Theorem C21_block_alternate_replaces_exactly_the_construct :
  forall c : lcase,
    plan_ok (c_body c) (c_plan c) = true -> eqdom (c_plan c) (c_body c) = true ->
    is_nil (c_entry c) = true -> is_nil (c_exit c) = true ->
    model c = Some (spec21 (c_plan c) (c_body c), c_groups c).
Proof.
  intros c Hok Heq He Hx. rewrite (lowering_alt_exact c Hok He Hx). rewrite (dspec_is_spec21 _ _ Heq). reflexivity.
Qed.
Print Assumptions C21_block_alternate_replaces_exactly_the_construct.

Example C21_spec_example :
  let body := [FConst 1; FIf BtEmpty; FBlock BtEmpty; FOther 1; FEnd; FElse; FOther 2; FEnd; FLoop BtEmpty; FEnd; FEnd] in
  spec21 [(5%nat, MBlockAlt, [FConst 7; FDrop]); (8%nat, MBlockAlt, []); (0%nat, MBefore, [FOther 3])] body
  = [FOther 3; FConst 1; FIf BtEmpty; FBlock BtEmpty; FOther 1; FEnd; FConst 7; FDrop; FEnd; FEnd].
Proof. vm_compute. reflexivity. Qed.
Example C21_nonvacuous :
  let body := [FConst 1; FIf BtEmpty; FBlock BtEmpty; FOther 1; FEnd; FElse; FOther 2; FEnd; FLoop BtEmpty; FEnd; FEnd] in
  let plan := [(5%nat, MBlockAlt, [FConst 1007; FDrop]); (8%nat, MBlockAlt, []); (0%nat, MBefore, [FOther 3])] in
  let c0 := mkCase 1 0 [] [] [] 2 body plan 0 false None true 0 in
  let c := mkCase 1 0 [] [] [] 2 body plan 0 false (model c0) true 0 in
  agree c = true /\ domain21 c = true /\ holds21 c = true.
Proof. vm_compute. repeat split; reflexivity. Qed.
(* former D19 witness (FunctionModifier::inject_at dropped the replacement; repaired): now holds *)
Example C21_former_D19_witness_holds :
  let body := [FBlock BtEmpty; FOther 1; FEnd; FEnd] in
  let plan := [(0%nat, MBlockAlt, [FConst 1007; FDrop])] in
  let c0 := mkCase 1 0 [] [] [] 2 body plan 3 false None true 0 in
  let c := mkCase 1 0 [] [] [] 2 body plan 3 false (model c0) true 0 in
  agree c = true /\ domain21 c = true /\ holds21 c = true.
Proof. vm_compute. repeat split; reflexivity. Qed.
