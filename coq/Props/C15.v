(* C15 — before/after/alternate injection is lowered exactly.  Statements only. *)
From Coq Require Import List NArith ZArith Bool.
Import ListNotations.
From Orca Require Import Util Flat Lowering CheckLow LowPlain GenEmit GenEmitProofs GenAddInstr GenAddInstrProofs.

(* For every function body and every plan of before / after / alternate / removal injections (any
   instruction, several injections per site, any of the four API paths — [c_path] is unconstrained),
   the model of the injection API, special-mode resolution and code emission yields exactly [spec15]:
   per site before-code ++ (replacement | instruction) ++ after-code, all other instructions unchanged and
   in order, only before-code at the function's final instruction; the locals are untouched. *)
Theorem C15_lowering_exact :
  forall c : lcase, domain15 c = true ->
    model c = Some (spec15 (c_plan c) (c_body c), c_groups c).
Proof. exact lowering_plain_exact. Qed.
Print Assumptions C15_lowering_exact.

(* Whenever the implementation's observed output agrees with the model (the correspondence check), the
   property holds of that output. *)
Theorem C15_checker_sound :
  forall c : lcase, agree c = true -> domain15 c = true -> holds15 c = true.
Proof. exact checker15_sound. Qed.
Print Assumptions C15_checker_sound.

Theorem C15_untouched_without_plan : forall body, spec15 [] body = body.
Proof. exact spec15_nil. Qed.
Print Assumptions C15_untouched_without_plan.

(* non-vacuity: a concrete case with three sites, two injections on one site, a removal, and an alternate
   on the final end (dropped) lies inside the domain, and the specification is what one expects *)
Example C15_nonvacuous :
  let c := mkCase 1 0 [] [] [] 0
             [FConst 1; FDrop; FBlock BtEmpty; FOther 1; FEnd; FEnd]
             [(0%nat, MBefore, [FConst 7; FDrop]); (0%nat, MBefore, [FConst 8; FDrop]);
              (1%nat, MAlternate, []); (3%nat, MAfter, [FOther 2]); (3%nat, MAlternate, [FOther 3]);
              (5%nat, MAlternate, [FOther 4]); (5%nat, MBefore, [FOther 5])]
             0 false None true 0 in
  domain15 c = true /\
  spec15 (c_plan c) (c_body c)
  = [FConst 7; FDrop; FConst 8; FDrop; FConst 1; FBlock BtEmpty; FOther 3; FOther 2; FEnd; FOther 5; FEnd].
Proof. vm_compute. split; reflexivity. Qed.

(* Tie to the source by translation: the code-section loop of Module::encode_internal (what one iteration appends:
   before-code, the alternate or the instruction, after-code; nothing but before-code at the function's final
   instruction), InstrumentationFlag::has_instr and InstrumentationFlag::add_instr, as the translator reads them from
   /repo/src on every check, ARE the [emit] / [has_instr] / [add_instr] of the model the theorem above is about. *)
Theorem C15_translated_emission_is_the_model :
  (forall body, gen_emit body = emit body) /\
  (forall body instr_len idx, gen_emit_from instr_len idx body = emit_from instr_len idx body) /\
  (forall f, gen_has_instr f = has_instr f) /\
  (forall op m x f, gen_add_instr op m x f = add_instr op m x f).
Proof. exact (conj gen_emit_is_emit (conj gen_emit_from_is_emit_from (conj gen_has_instr_is_has_instr gen_add_instr_is_add_instr))). Qed.
Print Assumptions C15_translated_emission_is_the_model.
