(* C28 — custom sections are preserved and edited exactly.  Statements only. *)
From Coq Require Import List NArith Bool.
Import ListNotations.
From Orca Require Import Util Flat Custom CheckCustom CustomProofs.
Local Open Scope N_scope.

(* add = append (and the returned id is the old length); delete = remove at the index (nothing when the id is out
   of range); get_section_data_mut = replace the data of the section at the index, its name and all other
   sections untouched; the query calls change nothing; emission is the vector in order. *)
Theorem C28_single_calls :
  (forall name data l, apply_op (OAdd name data) l = Some ([len l], l ++ [(name, data)]))
  /\ (forall id l, apply_op (ODelete id) l
        = Some ([], if id <? len l then firstn (N.to_nat id) l ++ skipn (S (N.to_nat id)) l else l))
  /\ (forall id d l,
        match nth_error l (N.to_nat id) with
        | Some (nm, d0) => id < len l ->
            apply_op (OModify id d) l = Some ([1], firstn (N.to_nat id) l ++ (nm, d) :: skipn (S (N.to_nat id)) l)
        | None => apply_op (OModify id d) l = Some ([0], l)
        end)
  /\ (forall o l r l', match o with OGetId _ | OGet _ | OLen => True | _ => False end ->
        apply_op o l = Some (r, l') -> l' = l)
  /\ (forall l, emit_customs l = l).
Proof.
  split; [exact add_is_append|]. split; [exact delete_is_remove|]. split; [exact modify_replaces_data|].
  split; [exact queries_change_nothing|exact emit_is_list_order].
Qed.
Print Assumptions C28_single_calls.

(* Parsing then encoding: for every section layout whose name sections are well-formed (D09 is repaired),
   the vector handed to the encoder is exactly the list of the custom sections not called "name", in file order
   (wherever they stood among the standard sections, whatever their names — producers included). *)
Theorem C28_parse_then_emit :
  forall layout, forallb name_wellformed layout = true ->
    parse_customs layout = Done (spec_customs layout).
Proof. exact parse_then_emit. Qed.
Print Assumptions C28_parse_then_emit.

(* Any edit sequence (left fold over the calls, no bound on the length): the model's vector and answers are
   those of the slot specification — sections never move, an id designates the live slot with that many live
   slots in front of it, delete kills it, modify gives it new data, add appends a live slot. *)
Theorem C28_model_is_slot_spec :
  forall ops l,
    run_ops ops l = match spec_run ops l with Some (rs, s) => Some (rs, view s) | None => None end.
Proof. exact model_is_view_of_slots. Qed.
Print Assumptions C28_model_is_slot_spec.

(* One id-directed action (delete / modify) touches at most the slot its id designates; every other slot of the
   list — every other custom section, live or not — is left exactly as it was. *)
Theorem C28_one_slot_touched :
  forall f s k i x, nth_error s i = Some x ->
    nth_error (on_live k f s) i = Some x
    \/ (nth_error (on_live k f s) i = Some (f x) /\ s_alive x = true /\ live (firstn i s) = k).
Proof. exact on_live_frame. Qed.
Print Assumptions C28_one_slot_touched.

(* Names, contents and relative order under any edit sequence: the emitted list is [view s1 ++ view added] where
   s1 carries exactly the names of the sections that were there before, in the same order (each still live or
   deleted), everything added follows them; without a modify in the sequence the contents are the old ones,
   without a delete every old section is still emitted. *)
Theorem C28_edits_preserve_names_and_order :
  forall ops l rs l', run_ops ops l = Some (rs, l') ->
    exists s1 added,
      emit_customs l' = view s1 ++ view added
      /\ map s_name s1 = map fst l
      /\ (forallb (fun o => negb (is_modify o)) ops = true -> map s_data s1 = map snd l)
      /\ (forallb (fun o => negb (is_delete o)) ops = true -> forallb s_alive s1 = true).
Proof. exact edits_preserve_names_and_order. Qed.
Print Assumptions C28_edits_preserve_names_and_order.

(* The model of a harness case meets the executable specification evaluated on the implementation's output
   (answers of every call, emitted list = live slots, "everything else" of the module unchanged by parsing,
   encoding and by the edits), for every case in the domain. *)
Theorem C28_model_meets_spec :
  forall c, domain28 c = true -> holds_on c (model c) = true.
Proof. exact model_meets_spec. Qed.
Print Assumptions C28_model_meets_spec.

Theorem C28_checker_sound :
  forall c, agree c = true -> domain28 c = true -> holds28 c = true.
Proof. exact checker28_sound. Qed.
Print Assumptions C28_checker_sound.

(* D09 used to refute the unrestricted property (Module::parse panicked on a valid module with a zero-field
   "producers" section); after the repair that very input satisfies it. *)
Theorem C28_former_D09_witness_holds :
  exists c, cc_layout c = [IStd 1 0; ICustom 2 0 CPlain; ICustom PRODUCERS 1 (CProd 1)]
            /\ agree c = true /\ domain28 c = true /\ holds28 c = true.
Proof. exact former_D09_witness_holds. Qed.
Print Assumptions C28_former_D09_witness_holds.

(* ---------- non-vacuity ---------- *)
Example C28_ex_calls :
  let l := [(2, 0); (3, 1); (2, 2)] in
  apply_op (OAdd 4 7) l = Some ([3], [(2, 0); (3, 1); (2, 2); (4, 7)])
  /\ apply_op (ODelete 1) l = Some ([], [(2, 0); (2, 2)])
  /\ apply_op (ODelete 3) l = Some ([], l)
  /\ apply_op (OModify 2 9) l = Some ([1], [(2, 0); (3, 1); (2, 9)])
  /\ apply_op (OModify 4294967295 9) l = Some ([0], l)
  /\ apply_op (OGetId 2) l = Some ([0], l)
  /\ apply_op (OGet 3) l = None.
Proof. vm_compute. repeat split; reflexivity. Qed.

(* custom sections before, between and after the standard sections, a name section *before* the code section that
   names a local function, a producers section without fields: the hypothesis of C28_parse_then_emit holds and the
   result is the expected list *)
Example C28_ex_parse :
  let layout := [ICustom 2 0 CPlain; IStd 1 0; IStd 2 1; ICustom 1 1 (CProd 1); IStd 3 0;
                 ICustom 0 2 (CNameOk [0; 2]); IStd 10 2; ICustom 3 3 CPlain; IStd 11 0; ICustom 2 4 CPlain] in
  forallb name_wellformed layout = true
  /\ parse_customs layout = Done [(2, 0); (1, 1); (3, 3); (2, 4)].
Proof. vm_compute. repeat split; reflexivity. Qed.

Example C28_ex_sequence :
  let l := [(2, 0); (3, 1); (2, 2)] in
  let ops := [ODelete 0; OAdd 5 3; OModify 1 4; OGetId 2; ODelete 7; OAdd 3 5; ODelete 2; OLen] in
  run_ops ops l = Some ([[]; [2]; [1]; [1]; []; [3]; []; [3]], [(3, 1); (2, 4); (3, 5)])
  /\ (exists rs s, spec_run ops l = Some (rs, s)
        /\ s = [mkSlot 2 0 false; mkSlot 3 1 true; mkSlot 2 4 true; mkSlot 5 3 false; mkSlot 3 5 true]).
Proof. vm_compute. split; [reflexivity|]. eexists. eexists. split; reflexivity. Qed.

Example C28_ex_checker :
  let c st res out ro rn := mkCC [ICustom 2 0 CPlain; IStd 1 0; ICustom 3 1 CPlain; IStd 10 1; ICustom 0 2 (CNameOk [0])]
                                [OAdd 4 3; ODelete 0; OModify 0 5] 1 st res out ro rn true in
  let good := c 0 [[2]; []; [1]] [(3, 5); (4, 3)] 1 1 in
  domain28 good = true /\ agree good = true /\ holds28 good = true
  /\ holds28 (c 0 [[2]; []; [1]] [(4, 3); (3, 5)] 1 1) = false       (* order changed *)
  /\ holds28 (c 0 [[2]; []; [1]] [(3, 1); (4, 3)] 1 1) = false       (* modification lost *)
  /\ holds28 (c 0 [[2]; []; [1]] [(2, 0); (3, 5); (4, 3)] 1 1) = false  (* deletion lost *)
  /\ holds28 (c 0 [[2]; []; [1]] [(3, 5); (4, 3)] 2 1) = false       (* something else changed *)
  /\ holds28 (c 1 [] [] 0 0) = false.                                (* panic *)
Proof. vm_compute. repeat split; reflexivity. Qed.
