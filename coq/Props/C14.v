(* C14 — added locals get fresh indices of the requested type.  Statements only. *)
From Coq Require Import List NArith Bool.
Import ListNotations.
From Orca Require Import Util Flat Lowering Locals CheckLocals LocalsProofs.
Local Open Scope N_scope.

(* One call of add_local (the function every local-adding API ends in) returns
   "number of parameters + number of locals recorded so far" ... *)
Theorem C14_add_local_index :
  forall (ty : N) (l : locals), fst (add_local ty l) = nparams l + num_locals l.
Proof. exact add_local_index. Qed.
Print Assumptions C14_add_local_index.

(* ... and the locals the run-length groups declare afterwards are the old ones followed by exactly one
   local of the requested type (whether the last group was extended or a new group pushed). *)
Theorem C14_add_local_expand :
  forall (ty : N) (l : locals),
    expand (groups (snd (add_local ty l))) = expand (groups l) ++ [ty]
    /\ nparams (snd (add_local ty l)) = nparams l.
Proof. intros ty l. split; [apply add_local_expand|apply add_local_nparams]. Qed.
Print Assumptions C14_add_local_expand.

(* The counter num_locals equals the number of declared locals after parsing (for any declared groups,
   including empty groups and a builder's empty list), and every addition / sequence of additions keeps
   it so.  Hence "nparams + num_locals" is always the first free index. *)
Theorem C14_num_locals_invariant :
  (forall np g, num_locals (parse_locals np g) = N.of_nat (length (expand (groups (parse_locals np g)))))
  /\ (forall ty l, num_locals l = N.of_nat (length (expand (groups l))) ->
        num_locals (snd (add_local ty l)) = N.of_nat (length (expand (groups (snd (add_local ty l))))))
  /\ (forall tys l, num_locals l = N.of_nat (length (expand (groups l))) ->
        num_locals (snd (add_seq tys l)) = N.of_nat (length (expand (groups (snd (add_seq tys l)))))).
Proof. split; [exact parse_wf|split; [exact add_local_wf|exact add_seq_wf]]. Qed.
Print Assumptions C14_num_locals_invariant.

(* Arbitrary sequences of additions (left fold over the requested types, no bound on the length), seen on
   the function's local index space [space params l] = parameters ++ expanded groups:
   the space is only extended, by the requested types in order; the returned ids are the consecutive next
   free indices; the k-th returned id designates a local of the k-th requested type; every parameter and
   every previously declared local keeps its index and its type. *)
Theorem C14_sequences :
  forall (params tys : list N) (l : locals),
    num_locals l = N.of_nat (length (expand (groups l))) ->
    nparams l = N.of_nat (length params) ->
    let r := add_seq tys l in
    space params (snd r) = space params l ++ tys
    /\ fst r = ids_from (N.of_nat (length (space params l))) (length tys)
    /\ (forall k ty, nth_error tys k = Some ty ->
          exists id, nth_error (fst r) k = Some id
                     /\ id = N.of_nat (length (space params l) + k)
                     /\ nth_error (space params (snd r)) (N.to_nat id) = Some ty)
    /\ (forall i, (i < length (space params l))%nat ->
          nth_error (space params (snd r)) i = nth_error (space params l) i).
Proof. exact add_seq_space. Qed.
Print Assumptions C14_sequences.

(* The model of a harness case (parse the declared groups, run the API sequence — every path calls
   add_local with the function's parameter count —, emit the groups) satisfies the executable
   specification of C14 that is evaluated on the implementation's observed output, for every case. *)
Theorem C14_model_meets_spec : forall c : lccase, holds_on c (model c) = true.
Proof. exact model_meets_spec. Qed.
Print Assumptions C14_model_meets_spec.

(* Whenever the implementation's observed output agrees with the model, the property holds of it. *)
Theorem C14_checker_sound :
  forall c : lccase, agree c = true -> domain14 c = true -> holds14 c = true.
Proof. exact checker14_sound. Qed.
Print Assumptions C14_checker_sound.

(* ---------- non-vacuity ---------- *)
(* a function with 2 parameters whose last declared group is extended *)
Example C14_ex_index :
  let l := parse_locals 2 [(2, 0); (0, 3); (3, 1)] in
  add_local 1 l = (7, mkLocals 2 6 [(2, 0); (0, 3); (4, 1)])
  /\ add_local 5 l = (7, mkLocals 2 6 [(2, 0); (0, 3); (3, 1); (1, 5)]).
Proof. vm_compute. split; reflexivity. Qed.

Example C14_ex_expand :
  let l := parse_locals 2 [(2, 0); (0, 3); (3, 1)] in
  expand (groups l) = [0; 0; 1; 1; 1]
  /\ expand (groups (snd (add_local 1 l))) = [0; 0; 1; 1; 1; 1]
  /\ expand (groups (snd (add_local 5 l))) = [0; 0; 1; 1; 1; 5].
Proof. vm_compute. repeat split; reflexivity. Qed.

Example C14_ex_invariant :
  let l := parse_locals 1 [(0, 6); (3, 6)] in
  num_locals l = 3 /\ N.of_nat (length (expand (groups l))) = 3
  /\ num_locals (snd (add_seq [6; 0; 0] l)) = 6.
Proof. vm_compute. repeat split; reflexivity. Qed.

(* the hypotheses of C14_sequences are satisfied by a parsed function with parameters [i64; f32], and the
   conclusion is the expected concrete one *)
Example C14_ex_sequences :
  let params := [1; 2] in
  let l := parse_locals 2 [(2, 0); (1, 4)] in
  num_locals l = N.of_nat (length (expand (groups l)))
  /\ nparams l = N.of_nat (length params)
  /\ add_seq [4; 4; 0; 5] l = ([5; 6; 7; 8], mkLocals 2 7 [(2, 0); (3, 4); (1, 0); (1, 5)])
  /\ space params (snd (add_seq [4; 4; 0; 5] l)) = [1; 2; 0; 0; 4; 4; 4; 0; 5].
Proof. vm_compute. repeat split; reflexivity. Qed.

(* a case in the domain, through builder, modifier, iterator and add_locals paths, on which the checker accepts
   the model's own output and rejects an output whose new local has the wrong type *)
Example C14_ex_checker :
  let c o := mkLC [1; 2] [(2, 0); (1, 4)] [(1, 4); (4, 4); (2, 0); (5, 5)] o in
  domain14 (c None) = true
  /\ model (c None) = ([Some 5; None; Some 7; Some 8], [1; 2], [(2, 0); (3, 4); (1, 0); (1, 5)], true)
  /\ agree (c (Some (model (c None)))) = true
  /\ holds14 (c (Some (model (c None)))) = true
  /\ holds14 (c (Some ([Some 5; None; Some 7; Some 8], [1; 2], [(2, 0); (3, 4); (1, 0); (1, 6)], true))) = false
  /\ holds14 (c (Some ([Some 5; None; Some 7; Some 7], [1; 2], [(2, 0); (3, 4); (1, 0); (1, 5)], true))) = false
  /\ holds14 (c (Some ([Some 5; None; Some 7; Some 8], [1; 2], [(3, 4); (2, 0); (1, 0); (1, 5)], true))) = false.
Proof. vm_compute. repeat split; reflexivity. Qed.
