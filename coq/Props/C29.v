(* C29 — names stay attached to their entities.  Statements only. *)
From Coq Require Import List Arith NArith Bool.
Import ListNotations.
From Orca Require Import Util Reindex ReidxProofs CheckReidx SelfReidx Names CheckNames NamesProofs.
Local Open Scope N_scope.

(* FULL, for every input module and every history of edits and naming calls: the function-name map that
   encode rebuilds consists exactly of
   - (position p of a live local function in the function vector after recalculate_ids, its body name), where p
     is also the index the id map assigns to the function's stored id - the index every reference to the
     function is rewritten to; and
   - (number of function imports emitted before an emitted function import, the custom name of its entry) - the
     imports are emitted in index order ([emitted_imports], since the repair of D02); this number is the import's
     function index by Wasm's index-space rule (C29_import_name_index) and the index the id map assigns to the
     import's function id (C29_names_follow_import_items). *)
Theorem C29_names_follow_functions :
  forall (c : ncase) (s0 s : nst) (h : list nop) (rets : list (option N)) (lf lg lm : list item) (mf : list (N * N)),
    init_state c = Ok s0 -> nrun_pref s0 h [] = (s, rets, false) ->
    index_space (m_f (ns_m s)) = Ok (lf, mf) ->
    forall q t, In (q, t) (emit_fnames s lf lg lm) <->
      (exists p it, nth_error lf p = Some it /\ is_local it = true /\ it_del it = false /\
                    lookup (ns_body s) (it_id it) = Some t /\ lookup mf (it_id it) = Some q /\ q = N.of_nat p)
      \/ (exists j k, nth_error (emitted_imports (m_imports (ns_m s)) lf lg lm) j = Some k /\
                      is_fn_entry (m_imports (ns_m s)) k = true /\ lookup (ns_imp s) k = Some t /\
                      q = emitted_funcs_before (m_imports (ns_m s)) (emitted_imports (m_imports (ns_m s)) lf lg lm) j).
Proof. exact names_follow_functions. Qed.
Print Assumptions C29_names_follow_functions.

Theorem C29_import_name_index :
  forall m dead sites e lf mf lg mg lm mm j k,
    encode m dead sites = Ok e ->
    index_space (m_f m) = Ok (lf, mf) -> index_space (m_g m) = Ok (lg, mg) -> index_space (m_m m) = Ok (lm, mm) ->
    nth_error (emitted_imports (m_imports m) lf lg lm) j = Some k -> is_fn_entry (m_imports m) k = true ->
    designates e SF (emitted_funcs_before (m_imports m) (emitted_imports (m_imports m) lf lg lm) j)
    = Some (snd (import_at (m_imports m) k)).
Proof. exact import_name_index_is_wasm_index. Qed.
Print Assumptions C29_import_name_index.

(* the name of an imported function follows the function through every history: the import item at position p of the
   recomputed function vector (p = the index its stored id is mapped to, i.e. what every reference to it is rewritten
   to) gets the custom name of its import entry at index p - whatever the order of the import vector *)
Theorem C29_names_follow_import_items :
  forall (c : ncase) (s0 s : nst) (h : list nop) (rets : list (option N)) lf mf lg mg lm mm,
    init_state c = Ok s0 -> nrun_pref s0 h [] = (s, rets, false) ->
    index_space (m_f (ns_m s)) = Ok (lf, mf) -> index_space (m_g (ns_m s)) = Ok (lg, mg) ->
    index_space (m_m (ns_m s)) = Ok (lm, mm) ->
    forall p it k t, nth_error lf p = Some it -> it_imp it = Some k -> lookup (ns_imp s) k = Some t ->
      In (N.of_nat p, t) (emit_fnames s lf lg lm) /\ lookup mf (it_id it) = Some (N.of_nat p).
Proof. exact names_follow_import_items. Qed.
Print Assumptions C29_names_follow_import_items.

(* FULL since the repair of D21 and D202 (the theorem names are those of the former partial results), for every input
   module and every history: the emitted global-name map consists exactly of the custom names of the emitted global
   imports under their global indices (C29_import_global_names) and, for every other index, of the parsed entries whose
   global still has an index, each under that new index; the emitted local-name map of the parsed entries whose function still has an
   index and was not converted (a conversion replaces the body, resp. the signature, the names belonged to) - the
   names of deleted entities are gone, no other name appears; both maps are in ascending index order. *)
Theorem C29_partial :
  forall (c : ncase) (s0 s : nst) (h : list nop) (rets : list (option N)) (e : emod) (n : names) lf mf lg mg lm mm,
    init_state c = Ok s0 -> nrun_pref s0 h [] = (s, rets, false) -> nencode (nb_names c) s = Ok (e, n) ->
    index_space (m_f (ns_m s)) = Ok (lf, mf) -> index_space (m_g (ns_m s)) = Ok (lg, mg) -> index_space (m_m (ns_m s)) = Ok (lm, mm) ->
    (forall q t, In (q, t) (n_globals n) <->
       In (q, t) (import_global_names s lf lg lm) \/
       (~ In q (map fst (import_global_names s lf lg lm)) /\ exists g, In (g, t) (n_globals (nb_names c)) /\ lookup mg g = Some q)) /\
    (forall q l, In (q, l) (n_locals n) <->
       exists f, In (f, l) (n_locals (nb_names c)) /\ ~ In f (ns_forgot s) /\ lookup mf f = Some q) /\
    ascending (n_globals n) /\ ascending (n_locals n).
Proof. exact name_maps_follow_their_entities. Qed.
Print Assumptions C29_partial.

(* the names given to imported globals through their import entries (imports.set_name): (number of global imports
   emitted before an emitted global import - its global index by Wasm's rule -, the custom name of its entry) *)
Theorem C29_import_global_names :
  forall imports nm order idx q t,
    In (q, t) (emit_imp_gnames idx imports order nm) <->
    exists j k, nth_error order j = Some k /\ is_gl_entry imports k = true /\
                lookup nm k = Some t /\ q = idx + emitted_globals_before imports order j.
Proof. exact emit_imp_gnames_spec. Qed.
Print Assumptions C29_import_global_names.

(* ... and the new index is the index of the very entity the input named: the item at position q of the recomputed
   vector, where q is what the id map assigns to the parsed index, has that stored id and the fingerprint the input's
   global (function) had - for a function that was not converted also its kind (local / imported). *)
Theorem C29_partial_global_entity :
  forall (c : ncase) (s0 s : nst) (h : list nop) (rets : list (option N)) lf mf lg mg,
    init_state c = Ok s0 -> nrun_pref s0 h [] = (s, rets, false) ->
    index_space (m_f (ns_m s)) = Ok (lf, mf) -> index_space (m_g (ns_m s)) = Ok (lg, mg) ->
    (forall g q g0, lookup mg g = Some q -> nth_error (s_items (m_g (ns_m s0))) (N.to_nat g) = Some g0 ->
       exists it, nth_error lg (N.to_nat q) = Some it /\ it_id it = g /\ it_fp it = it_fp g0) /\
    (forall f q f0, ~ In f (ns_forgot s) -> lookup mf f = Some q -> nth_error (s_items (m_f (ns_m s0))) (N.to_nat f) = Some f0 ->
       exists it, nth_error lf (N.to_nat q) = Some it /\ it_id it = f /\ it_fp it = it_fp f0 /\ it_imp it = it_imp f0).
Proof. exact named_entities_are_the_parsed_ones. Qed.
Print Assumptions C29_partial_global_entity.

(* the boolean checker evaluated on the observed output means the property *)
Theorem C29_checker_sound :
  forall (c : ncase) (e : emod) (n : names),
    holds c = true -> no_enc c = Some (e, n) ->
    Names_attached (fst (nspec_final c)) e n /\ naming_panic c = false /\ sp_ret (fst (nspec_final c)) = true.
Proof. exact names_checker_sound. Qed.
Print Assumptions C29_checker_sound.

(* ---- the property is false of the faithful model: refutation witnesses ---- *)
Definition refuted (c : ncase) (k : N) : Prop :=
  agree c = true /\ dom_of (verdict29 c) = true /\ holds_of (verdict29 c) = false /\ known_of (verdict29 c) = [k].

(* D25 (remaining part): imports.set_fn_name with the FunctionID of an import added after parsing (id 1, behind the local function):
   there is no 2nd function entry in the import vector, nothing is named *)
Example C29_refuted_D25_imports_api :
  refuted (self_n [] [11] [] [] (only_names [] [] []) [NEdit (AddImport SF 9) None; NImpSetFn 1 7]) 25.
Proof. vm_compute. repeat split; reflexivity. Qed.

(* ---- repaired (fix: commits in /repo): the former refutation witnesses are positive examples now ---- *)
Definition repaired (c : ncase) (fn : nmap) : Prop :=
  agree c = true /\ dom_of (verdict29 c) = true /\ holds_of (verdict29 c) = true /\ known_of (verdict29 c) = []
  /\ option_map (fun en => n_funcs (snd en)) (no_enc c) = Some fn.
(* former D25: Module::set_fn_name on the local function 0 after add_import_func names it (it is function 1 now) *)
Example C29_repaired_D25_set_fn_name :
  repaired (self_n [] [11] [] [] (only_names [] [] []) [NEdit (AddImport SF 9) None; NSetFn 0 5]) [(1, 5)].
Proof. vm_compute. repeat split; reflexivity. Qed.
(* former D25: Module::set_fn_name on the added import itself (id 1 >= the parsed import count) *)
Example C29_repaired_D25_added_import :
  repaired (self_n [] [11] [] [] (only_names [] [] []) [NEdit (AddImport SF 9) None; NSetFn 1 5]) [(0, 5)].
Proof. vm_compute. repeat split; reflexivity. Qed.
(* former D25: imports.set_fn_name(FunctionID 1) with a global import in front names function 1 *)
Example C29_repaired_D25_miscount :
  repaired (self_n [(1, 1); (0, 2); (0, 3)] [11] [] [] (only_names [] [] []) [NImpSetFn 1 7]) [(1, 7)].
Proof. vm_compute. repeat split; reflexivity. Qed.
(* former D201: replace_import_in_module keeps the name set on the FunctionBuilder *)
Example C29_repaired_201 :
  repaired (self_n [(0, 1)] [11] [] [] (only_names [] [] []) [NEdit (ImportToLocal 0 21) (Some 7)]) [(1, 7)].
Proof. vm_compute. repeat split; reflexivity. Qed.
(* former D21 (repaired): the names follow their entities *)
Definition repaired_maps (c : ncase) (fn : nmap) (ln : imap) (gn : nmap) : Prop :=
  agree c = true /\ dom_of (verdict29 c) = true /\ holds_of (verdict29 c) = true /\ known_of (verdict29 c) = []
  /\ option_map (fun en => (n_funcs (snd en), n_locals (snd en), n_globals (snd en))) (no_enc c) = Some (fn, ln, gn).
(* (a) `$g0 $g1` move to indices 1 2 when an imported global is inserted at index 0; the name of a deleted global is gone *)
Example C29_repaired_D21_globals :
  repaired_maps (self_n [] [11] [5; 6] [] (only_names [] [] [(0, 1); (1, 2)]) [NEdit (AddImport SG 9) None]) [] [] [(1, 1); (2, 2)].
Proof. vm_compute. repeat split; reflexivity. Qed.
Example C29_repaired_D21_deleted_global :
  repaired_maps (self_n [] [11] [5; 6; 7] [] (only_names [] [] [(0, 1); (1, 2); (2, 3)]) [NEdit (Delete SG 1) None]) [] [] [(0, 1); (1, 3)].
Proof. vm_compute. repeat split; reflexivity. Qed.
(* (b) the local names of function 1 move to index 2 when an imported function is inserted *)
Example C29_repaired_D21_locals :
  repaired_maps (self_n [] [11; 12] [] [] (only_names [] [(1, [(0, 3)])] []) [NEdit (AddImport SF 9) None]) [] [(2, [(0, 3)])] [].
Proof. vm_compute. repeat split; reflexivity. Qed.
(* (c) a named function converted to an import keeps its name (the import is function 0 now); the names of its locals
   are gone with its body *)
Example C29_repaired_D21_converted :
  repaired_maps (self_n [] [11; 12] [] [] (only_names [(0, 1); (1, 2)] [(0, [(0, 4)]); (1, [(0, 3)])] []) [NEdit (LocalToImport 1 21) None])
                [(0, 2); (1, 1)] [(1, [(0, 4)])] [].
Proof. vm_compute. repeat split; reflexivity. Qed.
(* former D202 (repaired): imports.set_name on a global import names the global (it replaces the parsed name), also
   after the import moved to another global index *)
Example C29_repaired_202 :
  repaired_maps (self_n [(1, 1)] [11] [] [] (only_names [] [] []) [NImpSetName 0 7]) [] [] [(0, 7)].
Proof. vm_compute. repeat split; reflexivity. Qed.
Example C29_repaired_202_replaces_parsed_name :
  repaired_maps (self_n [(1, 1); (1, 2)] [11] [5] [] (only_names [] [] [(0, 3); (1, 4); (2, 6)])
                        [NImpSetName 1 7; NEdit (Delete SG 0) None]) [] [] [(0, 7); (1, 6)].
Proof. vm_compute. repeat split; reflexivity. Qed.
(* former D06 / D26 (a deleted item that survived in the function vector shifted the positions body names are
   emitted under; repaired: recalculate_ids drops every deleted item): the witnesses now satisfy the property *)
Example C29_former_D06_witness_holds :
  repaired (self_n [] [11; 12] [] [] (only_names [(0, 1); (1, 2)] [] []) [NEdit (AddImport SF 21) None; NEdit (Delete SF 2) None])
           [(0, 1); (1, 2)].
Proof. vm_compute. repeat split; reflexivity. Qed.
Example C29_former_D26_witness_holds :
  repaired (self_n [(0, 1); (0, 2)] [11] [] [] (only_names [] [] [])
             [NEdit (ImportToLocal 0 21) None; NEdit (Delete SF 0) None; NEdit (ImportToLocal 1 22) None])
           [(1, 1000002)].
Proof. vm_compute. repeat split; reflexivity. Qed.

(* former D02 shape (an import added before a conversion: the import vector holds the added import first, the index
   space the converted one): the import section follows the index space and the custom names follow their imports *)
Example C29_former_D02_shape_names_follow :
  let c := self_n [] [11; 12] [] [] (only_names [(0, 1); (1, 2)] [] [])
             [NEdit (AddImport SF 21) None; NEdit (LocalToImport 0 22) None; NImpSetName 0 7; NImpSetName 1 8] in
  agree c = true /\ dom_of (verdict29 c) = true /\ holds_of (verdict29 c) = true
  /\ option_map (fun en => (e_imports (fst en), n_funcs (snd en))) (no_enc c)
     = Some ([(0, 22); (0, 21)], [(0, 8); (1, 7); (2, 2)]).
Proof. vm_compute. repeat split; reflexivity. Qed.

(* ---- non-vacuity ---- *)
(* an index-shifting history with naming calls on which the property holds, outside every known class *)
Example C29_nonvacuous :
  let c := self_n [(0, 1); (1, 2)] [11; 12] [5] [] (only_names [(0, 1); (1, 2); (2, 3)] [] [])
             [NEdit (AddImport SF 21) None; NEdit (Delete SF 1) None; NImpSetName 0 9; NSetLocalFn 2 8;
              NEdit (AddLocal SG 7) None; NEdit (AddLocal SF 31) (Some 4)] in
  agree c = true /\ dom_of (verdict29 c) = true /\ holds_of (verdict29 c) = true /\ known_of (verdict29 c) = []
  /\ option_map (fun en => n_funcs (snd en)) (no_enc c) = Some [(0, 9); (2, 8); (3, 4)].
Proof. vm_compute. repeat split; reflexivity. Qed.
(* local and global names through a history that moves, deletes and converts named entities *)
Example C29_partial_nonvacuous :
  let c := self_n [(1, 2)] [11; 12; 13] [5; 6] [] (only_names [(1, 1)] [(0, [(0, 7)]); (1, [(0, 3)]); (2, [(1, 8)])] [(0, 4); (1, 9); (2, 5)])
             [NEdit (AddImport SG 7) None; NEdit (AddImport SF 21) None; NEdit (Delete SG 1) None; NEdit (Delete SF 0) None;
              NEdit (LocalToImport 2 22) None; NSetFn 1 6] in
  agree c = true /\ dom_of (verdict29 c) = true /\ holds_of (verdict29 c) = true /\ known_of (verdict29 c) = []
  /\ option_map (fun en => (n_funcs (snd en), n_locals (snd en), n_globals (snd en))) (no_enc c)
     = Some ([(2, 6)], [(2, [(0, 3)])], [(0, 4); (2, 5)]).
Proof. vm_compute. repeat split; reflexivity. Qed.
