(* C05: what a second encode() does.  (a) instrumentation side: on a body whose special-mode lists are all
   empty (the state the first encode leaves behind: Proofs/Cleared.v, for every plan) the resolution pass changes nothing;
   (b) index side: when an id map is the identity on its domain, every reference is emitted unchanged, so
   re-applying the map to the already rewritten references changes nothing (otherwise: D01). *)
From Coq Require Import List Arith NArith ZArith Bool Lia.
Import ListNotations.
From Orca Require Import Util Reindex Flat Lowering CheckLow.
Local Open Scope nat_scope.

Definition no_special (f : flags) : bool :=
  is_nil (f_sa f) && is_nil (f_be f) && is_nil (f_bx f) && is_none (f_balt f).

Definition quiet (st : rstate) : Prop :=
  r_entry st = [] /\ r_exit st = [] /\ r_del st = None /\ r_roe st = [] /\ r_ron st = [].

Lemma flag_stage_quiet op f st w : no_special f = true -> flag_stage op f st w = (st, w).
Proof.
  unfold no_special. intros H. repeat (apply andb_prop in H as [H ?]).
  unfold flag_stage.
  destruct (f_sa f); [|discriminate]. destruct (f_be f); [|discriminate]. destruct (f_bx f); [|discriminate].
  destruct (has_instr f); reflexivity.
Qed.

Lemma rstep_quiet last idx op f st :
  no_special f = true -> quiet st ->
  exists st', rstep last idx op f st = (st', f) /\ quiet st' /\ r_loc st' = r_loc st.
Proof.
  intros Hf (He & Hx & Hd & Hr & Hn).
  assert (Hb : f_balt f = None).
  { unfold no_special in Hf. repeat (apply andb_prop in Hf as [Hf ?]). destruct (f_balt f); [discriminate|reflexivity]. }
  unfold rstep. rewrite He. cbn [is_nil negb andb]. rewrite Hx. cbn [is_nil].
  destruct op; cbn -[flag_stage].
  all: try (unfold block_alt_case; rewrite Hb; cbn [r_del set_stack]; rewrite ?Hd; rewrite flag_stage_quiet by exact Hf;
            eexists; split; [reflexivity|]; unfold quiet, set_stack; cbn; repeat split; auto; fail).
  all: try (rewrite Hd; rewrite flag_stage_quiet by exact Hf; eexists; split; [reflexivity|]; unfold quiet; repeat split; auto; fail).
  - (* else *)
    assert (E : match r_stack st with [] => (st, f) | k :: _ => resolve_roe k st f end = (st, f)).
    { destruct (r_stack st); [reflexivity|]. unfold resolve_roe. rewrite Hr. reflexivity. }
    rewrite E. unfold block_alt_case. rewrite Hb. cbn [r_del]. rewrite Hd.
    rewrite flag_stage_quiet by exact Hf. eexists; split; [reflexivity|]. unfold quiet; cbn; repeat split; auto.
  - (* end *)
    destruct (r_stack st) as [|b rest] eqn:Es.
    + rewrite flag_stage_quiet by exact Hf. eexists; split; [reflexivity|]. unfold quiet; repeat split; auto.
    + cbn [set_stack r_del]. rewrite Hd. unfold resolve_roe. cbn [r_roe set_stack]. rewrite Hr.
      cbn [ron_get]. cbn [r_ron set_stack]. rewrite ?Hn. cbn [ron_get].
      rewrite flag_stage_quiet by exact Hf. eexists; split; [reflexivity|]. unfold quiet; cbn; repeat split; auto.
Qed.

Lemma rloop_quiet last : forall body idx st,
  forallb (fun x => no_special (snd x)) body = true -> quiet st ->
  exists st', rloop last idx body st = (body, st') /\ quiet st' /\ r_loc st' = r_loc st.
Proof.
  induction body as [|[op f] body IH]; intros idx st Hb Hq.
  - exists st. repeat split; try reflexivity; apply Hq.
  - cbn [forallb snd] in Hb. apply andb_prop in Hb as [Hf Hb].
    destruct (rstep_quiet last idx op f st Hf Hq) as [st1 [E1 [Q1 L1]]].
    destruct (IH (S idx) st1 Hb Q1) as [st2 [E2 [Q2 L2]]].
    exists st2. cbn [rloop]. rewrite E1, E2. split; [reflexivity|]. split; [exact Q2|]. rewrite L2. exact L1.
Qed.

(* (a) resolving an already resolved body is the identity (body and locals) *)
Theorem resolve_idempotent ty body loc :
  forallb (fun x => no_special (snd x)) body = true ->
  resolve true [] [] ty body loc = (body, loc).
Proof.
  intros Hb. unfold resolve. cbn [negb is_nil].
  destruct (rloop_quiet (length body - 1) body 0 (mkR [] [] [0%nat] None true [] [] loc) Hb) as [st' [E [Q L]]].
  { unfold quiet; cbn; auto. }
  rewrite E. cbn [r_loc] in L. rewrite L. reflexivity.
Qed.

(* (b) an identity map leaves every reference where it is *)
Definition id_on_domain (m : list (N * N)) : Prop := forall k v, lookup m k = Some v -> v = k.
Theorem site_emit_identity mf mg mm s q :
  id_on_domain mf -> id_on_domain mg -> id_on_domain mm ->
  site_emit mf mg mm s = Ok (Some q) -> q = rs_id s.
Proof.
  intros Hf Hg Hm. unfold site_emit.
  destruct (rs_k s), (rs_sp s); intros H;
    try (inversion H; reflexivity);
    repeat match type of H with
           | context [lookup ?m ?k] => let E := fresh "E" in destruct (lookup m k) eqn:E; try discriminate
           end;
    inversion H; subst;
    first [ eapply Hf; eassumption | eapply Hg; eassumption | eapply Hm; eassumption ].
Qed.
