(* Theorems of the side-effect engine (C23). *)
From Coq Require Import List Arith NArith ZArith Bool Lia.
Import ListNotations.
From Orca Require Import Util Flat Lowering CheckLow Reindex ReidxProofs CheckReidx SideFx CheckSideFx NamesProofs.
Local Open Scope N_scope.

(* ------------------------------------------------------------------------------------------ *)
(* 1. one record per item that has a tag, none otherwise: the record list of every kind is the image of the
      tagged (and, where the loop tests it, not deleted / locally defined) items, in order             *)
Definition has_tag (t : tg) : bool := match t with Some _ => true | None => false end.

Lemma tagged_flat_map {A} (skip : A -> bool) (tagof : A -> tg) (flds : A -> list N) (bd : A -> list fop) (l : list A) :
  flat_map (fun a => if skip a then [] else opt_rec (tagof a) (flds a) (bd a)) l
  = map (fun a => mkRec (flds a) (bd a) (tgtok (tagof a))) (filter (fun a => negb (skip a) && has_tag (tagof a)) l).
Proof.
  induction l as [|a l IH]; [reflexivity|]. cbn [flat_map filter].
  destruct (skip a); cbn [negb andb]; [exact IH|].
  destruct (tagof a) as [k|] eqn:E; cbn [opt_rec has_tag app map]; [rewrite E; cbn [tgtok]; f_equal|]; exact IH.
Qed.
Lemma tagged_flat_map0 {A} (tagof : A -> tg) (flds : A -> list N) (bd : A -> list fop) (l : list A) :
  flat_map (fun a => opt_rec (tagof a) (flds a) (bd a)) l
  = map (fun a => mkRec (flds a) (bd a) (tgtok (tagof a))) (filter (fun a => has_tag (tagof a)) l).
Proof.
  induction l as [|a l IH]; [reflexivity|]. cbn [flat_map filter].
  destruct (tagof a) as [k|] eqn:E; cbn [opt_rec has_tag app map]; [rewrite E; cbn [tgtok]; f_equal|]; exact IH.
Qed.
Lemma fx_imports_from_spec : forall l pos tags,
  fx_imports_from pos l tags
  = map (fun pi : N * imp => mkRec [i_sp (snd pi); i_fp (snd pi)] [] (tgtok (lookup tags (fst pi))))
        (filter (fun pi : N * imp => negb (i_del (snd pi)) && has_tag (lookup tags (fst pi))) (number pos l)).
Proof.
  induction l as [|i l IH]; intros pos tags; [reflexivity|]. cbn [fx_imports_from number filter fst snd].
  rewrite IH. destruct (i_del i); cbn [negb andb app]; [reflexivity|].
  destruct (lookup tags pos) as [k|] eqn:E; cbn [opt_rec has_tag app map fst snd]; [rewrite E|]; reflexivity.
Qed.

Theorem additions_exact (s : sst) (lf lg lm : list item) :
  fx_types s = map (fun ct => mkRec [fst ct] [] (tgtok (snd ct))) (filter (fun ct => has_tag (snd ct)) (t_types s))
  /\ fx_imports s = map (fun pi : N * imp => mkRec [i_sp (snd pi); i_fp (snd pi)] [] (tgtok (lookup (t_imp_tag s) (fst pi))))
                        (filter (fun pi : N * imp => negb (i_del (snd pi)) && has_tag (lookup (t_imp_tag s) (fst pi))) (number 0 (m_imports (t_m s))))
  /\ fx_exports s = map (fun e => mkRec [x_name e; x_kind e; x_index e] [] (tgtok (x_tag e)))
                        (filter (fun e => negb (x_del e) && has_tag (x_tag e)) (t_exports s))
  /\ fx_data s = map (fun d => mkRec [if d_active d then 1 else 0; d_byte d; if d_active d then d_mem d else 0] [] (tgtok (d_tag d)))
                     (filter (fun d => has_tag (d_tag d)) (t_data s))
  /\ fx_funcs s lf = map (fun it => mkRec [it_fp it; it_id it] (match bget (t_fbody s) (it_id it) with Some b => b | None => [] end)
                                          (tgtok (lookup (t_ftag s) (it_id it))))
                         (filter (fun it => negb (it_del it || is_import it) && has_tag (lookup (t_ftag s) (it_id it))) lf)
  /\ fx_globals s lg = map (fun it => mkRec [it_fp it; it_id it] [] (tgtok (lookup (t_gtag s) (it_id it))))
                           (filter (fun it => negb (it_del it || is_import it) && has_tag (lookup (t_gtag s) (it_id it))) lg)
  /\ fx_mems s lm = map (fun it => mkRec [it_fp it; it_id it] [] (tgtok (lookup (t_mtag s) (it_id it))))
                        (filter (fun it => negb (is_import it) && has_tag (lookup (t_mtag s) (it_id it))) lm).
Proof.
  repeat split.
  - unfold fx_types. apply (tagged_flat_map0 (fun ct : N * tg => snd ct) (fun ct => [fst ct]) (fun _ => [])).
  - unfold fx_imports. apply fx_imports_from_spec.
  - unfold fx_exports. apply (tagged_flat_map x_del x_tag (fun e => [x_name e; x_kind e; x_index e]) (fun _ => [])).
  - unfold fx_data. apply (tagged_flat_map0 d_tag (fun d => [if d_active d then 1 else 0; d_byte d; if d_active d then d_mem d else 0]) (fun _ => [])).
  - unfold fx_funcs.
    apply (tagged_flat_map (fun it => it_del it || is_import it) (fun it => lookup (t_ftag s) (it_id it)) (fun it => [it_fp it; it_id it])
             (fun it => match bget (t_fbody s) (it_id it) with Some b => b | None => [] end)).
  - unfold fx_globals.
    apply (tagged_flat_map (fun it => it_del it || is_import it) (fun it => lookup (t_gtag s) (it_id it)) (fun it => [it_fp it; it_id it]) (fun _ => [])).
  - unfold fx_mems.
    apply (tagged_flat_map is_import (fun it => lookup (t_mtag s) (it_id it)) (fun it => [it_fp it; it_id it]) (fun _ => [])).
Qed.

(* ------------------------------------------------------------------------------------------ *)
(* 2. no record for an item of the parsed module: in every state reached by a history, the parsed items have no tag *)
Definition len_le (m m' : mst) : Prop :=
  lenN (s_items (m_f m)) <= lenN (s_items (m_f m')) /\ lenN (s_items (m_g m)) <= lenN (s_items (m_g m')) /\
  lenN (s_items (m_m m)) <= lenN (s_items (m_m m')) /\ lenN (m_imports m) <= lenN (m_imports m').
Lemma len_le_refl m : len_le m m.
Proof. unfold len_le. repeat split; lia. Qed.
Lemma len_le_trans a b c : len_le a b -> len_le b c -> len_le a c.
Proof. unfold len_le. intros (A1 & A2 & A3 & A4) (B1 & B2 & B3 & B4). repeat split; lia. Qed.
Lemma lenN_app1 {A} (l : list A) x : lenN (l ++ [x]) = lenN l + 1.
Proof. unfold lenN. rewrite app_length. cbn. lia. Qed.
Lemma lenN_updN {A} (f : A -> A) n (l : list A) : lenN (updN n f l) = lenN l.
Proof. unfold lenN. rewrite updN_length. reflexivity. Qed.

Lemma delete_in_len m s id m' : delete_in m s id = Ok m' ->
  lenN (s_items (m_f m')) = lenN (s_items (m_f m)) /\ lenN (s_items (m_g m')) = lenN (s_items (m_g m)) /\
  lenN (s_items (m_m m')) = lenN (s_items (m_m m)) /\ lenN (m_imports m') = lenN (m_imports m).
Proof.
  unfold delete_in. intros H. destruct (nthN _ id) as [it|]; [|discriminate].
  assert (E : forall x : space, lenN (if id <? lenN (s_items x) then updN id (set_del true) (s_items x) else s_items x) = lenN (s_items x)).
  { intros x. destruct (id <? lenN (s_items x)); [apply lenN_updN|reflexivity]. }
  destruct (it_imp it); inversion H; subst; clear H; destruct s; cbn; rewrite ?lenN_updN, ?E; auto.
Qed.

Lemma step_len_le m o m' r : Reindex.step m o = Ok (m', r) -> len_le m m'.
Proof.
  intros H. unfold len_le. destruct o as [s fp|s fp|s id|id fp|k fp|fp|s id|k|mem]; cbn [Reindex.step] in H.
  - destruct s; break_match_in H; inversion H; subst; cbn; rewrite ?lenN_app1; repeat split; lia.
  - destruct s; unfold push_import in H; cbn in H; break_match_in H; inversion H; subst; cbn; rewrite ?lenN_app1; repeat split; lia.
  - destruct (delete_in m s id) as [m1|] eqn:E; [|discriminate]. inversion H; subst.
    destruct (delete_in_len _ _ _ _ E) as (A & B & C & D). repeat split; lia.
  - destruct (nthN (s_items (m_f m)) id) as [it|]; [|discriminate].
    destruct (is_import it); [inversion H; subst; repeat split; lia|].
    destruct (delete_in m SF id) as [m1|] eqn:E; [|discriminate].
    destruct (delete_in_len _ _ _ _ E) as (A & B & C & D).
    unfold push_import in H. cbn in H. inversion H; subst. cbn. rewrite ?lenN_updN, ?lenN_app1. repeat split; lia.
  - destruct (nthN (m_imports m) k) as [im|]; [|discriminate].
    destruct (negb (N.eqb (i_sp im) 0)); [discriminate|].
    destruct (find_imp (s_items (m_f m)) k 0) as [p|]; [|inversion H; subst; repeat split; lia].
    destruct (delete_in m SF p) as [m1|] eqn:E; [|discriminate].
    destruct (delete_in_len _ _ _ _ E) as (A & B & C & D).
    inversion H; subst. cbn. rewrite ?lenN_updN. repeat split; lia.
  - inversion H; subst. cbn. rewrite ?lenN_app1. repeat split; lia.
  - inversion H; subst. repeat split; lia.
  - inversion H; subst. repeat split; lia.
  - inversion H; subst. repeat split; lia.
Qed.

(* the id an addition returns is the length of the vector before the call *)
Lemma step_add_ret m x fp m' id : Reindex.step m (AddLocal x fp) = Ok (m', Some id) -> id = lenN (s_items (get_sp m x)).
Proof. cbn [Reindex.step]. destruct x; intros H; break_match_in H; inversion H; subst; reflexivity. Qed.
Lemma step_itadd_ret m fp m' id : Reindex.step m (ItAddGlobal fp) = Ok (m', Some id) -> id = lenN (s_items (m_g m)).
Proof. cbn [Reindex.step]. intros H. inversion H; subst; reflexivity. Qed.

Lemma lookup_aset_other m k v k' : k' <> k -> lookup (aset m k v) k' = lookup m k'.
Proof.
  intros Hne. unfold aset. cbn [lookup]. destruct (N.eqb_spec k' k); [contradiction|].
  apply lookup_filter_neq. exact Hne.
Qed.

Record untagged_base (c : scase) (s : sst) : Prop := mkUB {
  ub_len : len_le (t_m (sinit c)) (t_m s);
  ub_f : forall id, id < lenN (s_items (m_f (t_m (sinit c)))) -> lookup (t_ftag s) id = None;
  ub_g : forall id, id < lenN (s_items (m_g (t_m (sinit c)))) -> lookup (t_gtag s) id = None;
  ub_m : forall id, id < lenN (s_items (m_m (t_m (sinit c)))) -> lookup (t_mtag s) id = None;
  ub_i : forall k, k < lenN (m_imports (t_m (sinit c))) -> lookup (t_imp_tag s) k = None;
  ub_tl : (length (t_types (sinit c)) <= length (t_types s))%nat;
  ub_t : forall n ct, (n < length (t_types (sinit c)))%nat -> nth_error (t_types s) n = Some ct -> snd ct = None;
  ub_xl : (length (t_exports (sinit c)) <= length (t_exports s))%nat;
  ub_x : forall n e, (n < length (t_exports (sinit c)))%nat -> nth_error (t_exports s) n = Some e -> x_tag e = None;
  ub_dl : (length (t_data (sinit c)) <= length (t_data s))%nat;
  ub_d : forall n d, (n < length (t_data (sinit c)))%nat -> nth_error (t_data s) n = Some d -> d_tag d = None }.

Lemma base_exports_untagged : forall l k n e, nth_error (base_exports k l) n = Some e -> x_tag e = None.
Proof.
  induction l as [|id l IH]; intros k n e H; [destruct n; discriminate|].
  destruct n; cbn in H; [inversion H; reflexivity|exact (IH _ _ _ H)].
Qed.

Lemma sinit_untagged c : untagged_base c (sinit c).
Proof.
  constructor; try (intros; reflexivity); try lia.
  - apply len_le_refl.
  - intros n ct _ H. cbn [sinit t_types] in H. rewrite nth_error_map in H.
    destruct (nth_error _ n); inversion H; reflexivity.
  - intros n e _ H. exact (base_exports_untagged _ _ _ _ H).
  - intros n d _ H. cbn [sinit t_data] in H. rewrite nth_error_map in H.
    destruct (nth_error _ n); inversion H; reflexivity.
Qed.

Lemma nth_error_app_lt {A} (l : list A) x n : (n < length l)%nat -> nth_error (l ++ [x]) n = nth_error l n.
Proof. intros H. apply nth_error_app1. exact H. Qed.

Ltac sproj := cbn [t_m t_types t_imp_tag t_ftag t_gtag t_mtag t_fbody t_exports t_data with_m].
Lemma sstep_untagged c s o s' r : sstep s o = Ok (s', r) -> untagged_base c s -> untagged_base c s'.
Proof.
  intros H U. destruct U as [Ulen Uf Ug Um Ui Utl Ut Uxl Ux Udl Ud].
  pose proof Ulen as (Lf & Lg & Lm & Li).
  destruct o as [code t|x fp t|x fp body t|fp t|x id|x id name t|k|active mem byte t]; cbn [sstep] in H.
  - (* SAddType *)
    destruct (find_type 0 code (t_types s)); inversion H; subst; clear H; constructor; sproj; auto.
    + rewrite app_length. cbn [length]. lia.
    + intros n ct Hn Hnth. rewrite nth_error_app_lt in Hnth by lia. exact (Ut n ct Hn Hnth).
  - (* SAddImport *)
    destruct (Reindex.step (t_m s) (AddImport x fp)) as [[m' r']|] eqn:E; [|discriminate].
    inversion H; subst; clear H. pose proof (step_len_le _ _ _ _ E) as L'.
    constructor; sproj; auto.
    + exact (len_le_trans _ _ _ Ulen L').
    + intros k Hk. rewrite lookup_aset_other by lia. exact (Ui k Hk).
  - (* SAddLocal *)
    destruct (Reindex.step (t_m s) (AddLocal x fp)) as [[m' r']|] eqn:E; [|discriminate].
    pose proof (step_len_le _ _ _ _ E) as L'. pose proof (len_le_trans _ _ _ Ulen L') as L2.
    destruct r' as [id|]; [|inversion H; subst; constructor; sproj; auto].
    pose proof (step_add_ret _ _ _ _ _ E) as Hid.
    destruct x; inversion H; subst; clear H; constructor; sproj; auto; intros id' Hid'; rewrite lookup_aset_other; auto; cbn [get_sp]; lia.
  - (* SItAddGlobal *)
    destruct (Reindex.step (t_m s) (ItAddGlobal fp)) as [[m' r']|] eqn:E; [|discriminate].
    pose proof (step_len_le _ _ _ _ E) as L'. pose proof (len_le_trans _ _ _ Ulen L') as L2.
    destruct r' as [id|]; [|inversion H; subst; constructor; sproj; auto].
    pose proof (step_itadd_ret _ _ _ _ E) as Hid.
    destruct t as [k|]; inversion H; subst; clear H; constructor; sproj; auto.
    intros id' Hid'. rewrite lookup_aset_other; auto. lia.
  - (* SDelete *)
    destruct (Reindex.step (t_m s) (Delete x id)) as [[m' r']|] eqn:E; [|discriminate].
    inversion H; subst; clear H. pose proof (step_len_le _ _ _ _ E) as L'.
    constructor; sproj; auto. exact (len_le_trans _ _ _ Ulen L').
  - (* SAddExport *)
    inversion H; subst; clear H. constructor; sproj; auto.
    + rewrite app_length. cbn [length]. lia.
    + intros n e Hn Hnth. rewrite nth_error_app_lt in Hnth by lia. exact (Ux n e Hn Hnth).
  - (* SDeleteExport *)
    destruct (k <? lenN (t_exports s)); [|discriminate]. inversion H; subst; clear H. constructor; sproj; auto.
    + rewrite updN_length. exact Uxl.
    + intros n e Hn Hnth. unfold updN in Hnth. rewrite nth_error_upd in Hnth.
      destruct (Nat.eqb n (N.to_nat k)); [|exact (Ux n e Hn Hnth)].
      destruct (nth_error (t_exports s) n) as [e0|] eqn:E0; cbn in Hnth; [|discriminate].
      inversion Hnth; subst. cbn. exact (Ux n e0 Hn E0).
  - (* SAddData *)
    inversion H; subst; clear H. constructor; sproj; auto.
    + rewrite app_length. cbn [length]. lia.
    + intros n d Hn Hnth. rewrite nth_error_app_lt in Hnth by lia. exact (Ud n d Hn Hnth).
Qed.

Lemma srun_pref_untagged c : forall h s rets s' rets' p,
  srun_pref s h rets = (s', rets', p) -> untagged_base c s -> untagged_base c s'.
Proof.
  induction h as [|o h IH]; intros s rets s' rets' p H U; cbn in H.
  - inversion H; subst. exact U.
  - destruct (sstep s o) as [[s1 r]|w] eqn:E.
    + exact (IH _ _ _ _ _ H (sstep_untagged _ _ _ _ _ E U)).
    + inversion H; subst. exact U.
Qed.

(* for every input module and every history: the parsed functions, globals, memories, imports, types, exports and
   data segments carry no tag when the report is pulled, hence (additions_exact) none of them has a record *)
Theorem parsed_items_unreported (c : scase) (h : list sop) (s : sst) rets p :
  srun_pref (sinit c) h [] = (s, rets, p) -> untagged_base c s.
Proof. intros H. exact (srun_pref_untagged c _ _ _ _ _ _ H (sinit_untagged c)). Qed.

(* ------------------------------------------------------------------------------------------ *)
(* 3. code bodies of probe records are the emitted (re-mapped) operators                         *)
Lemma remap_all_app mf mg mm a b :
  remap_all mf mg mm (a ++ b)
  = match remap_all mf mg mm a, remap_all mf mg mm b with Some a', Some b' => Some (a' ++ b') | _, _ => None end.
Proof.
  induction a as [|o a IH]; cbn [app remap_all].
  - destruct (remap_all mf mg mm b); reflexivity.
  - rewrite IH. destruct (remap_fop mf mg mm o); [|reflexivity].
    destruct (remap_all mf mg mm a); [|reflexivity]. destruct (remap_all mf mg mm b); reflexivity.
Qed.
Lemma remap_app_inv mf mg mm a b c :
  remap_all mf mg mm (a ++ b) = Some c ->
  exists a' b', remap_all mf mg mm a = Some a' /\ remap_all mf mg mm b = Some b' /\ c = a' ++ b'.
Proof.
  rewrite remap_all_app. destruct (remap_all mf mg mm a) as [a'|]; [|discriminate].
  destruct (remap_all mf mg mm b) as [b'|]; [|discriminate]. intros H. inversion H. exists a', b'. auto.
Qed.

Definition one_rec (remap : list fop -> option (list fop)) (pos : N) (idx : nat) (code tag : N) (l : list fop)
  : option (list srec) :=
  match l with
  | [] => Some []
  | _ => match remap l with
         | Some l' => Some [mkRec [1; code; N.of_nat idx; pos] l' tag]
         | None => None
         end
  end.
Lemma fx_loc_probes_cons pos last idx op f r' tagof remap :
  fx_loc_probes pos last idx ((op, f) :: r') tagof remap
  = match one_rec remap pos idx 0 (tagof idx MBefore) (f_before f),
          one_rec remap pos idx 1 (tagof idx MAfter) (if Nat.leb last idx then [] else f_after f),
          one_rec remap pos idx 2 (tagof idx MAlternate)
                  (if Nat.leb last idx then [] else match f_alt f with Some a => a | None => [] end),
          fx_loc_probes pos last (S idx) r' tagof remap with
    | Some a, Some b, Some c, Some rest => Some (a ++ b ++ c ++ rest)
    | _, _, _, _ => None
    end.
Proof. reflexivity. Qed.
Lemma one_rec_inv remap pos idx code tag l a rc :
  one_rec remap pos idx code tag l = Some a -> In rc a ->
  l <> [] /\ exists l', rc = mkRec [1; code; N.of_nat idx; pos] l' tag /\ remap l = Some l'.
Proof.
  unfold one_rec. destruct l as [|o l]; [intros H; inversion H; subst; intros []|].
  destruct (remap (o :: l)) as [l'|]; [|discriminate]. intros H Hin. inversion H; subst. destruct Hin as [<-|[]].
  split; [discriminate|]. exists l'. auto.
Qed.

Lemma has_instr_before f : f_before f <> [] -> has_instr f = true.
Proof. unfold has_instr. destruct (f_before f); [congruence|reflexivity]. Qed.
Lemma has_instr_after f : f_after f <> [] -> has_instr f = true.
Proof. unfold has_instr. destruct (f_after f); [congruence|]. cbn. rewrite !orb_true_r. reflexivity. Qed.
Lemma has_instr_alt f a : f_alt f = Some a -> has_instr f = true.
Proof. unfold has_instr. intros ->. cbn. rewrite !orb_true_r. reflexivity. Qed.

(* every probe body that add_opcode_injections reports occurs verbatim, with the very same index immediates, in the
   code the encoder emits (since the repair of D205 without exception: what the encoder drops at the final `end` is not
   reported) *)
Theorem probe_bodies_are_emitted mf mg mm : forall (r : list (fop * flags)) pos last idx tagof recs body,
  fx_loc_probes pos last idx r tagof (remap_all mf mg mm) = Some recs ->
  remap_all mf mg mm (emit_from last idx r) = Some body ->
  forall rc, In rc recs -> exists pre post, body = pre ++ r_body rc ++ post.
Proof.
  induction r as [|[op f] r' IH]; intros pos last idx tagof recs body Hrec Hemit rc Hin.
  - cbn in Hrec. inversion Hrec; subst. destruct Hin.
  - rewrite fx_loc_probes_cons in Hrec.
    destruct (one_rec _ pos idx 0 _ (f_before f)) as [ra|] eqn:Ea; [|discriminate].
    destruct (one_rec _ pos idx 1 _ _) as [rb|] eqn:Eb; [|discriminate].
    destruct (one_rec _ pos idx 2 _ _) as [rcs|] eqn:Ec; [|discriminate].
    destruct (fx_loc_probes pos last (S idx) r' tagof _) as [rest|] eqn:Er; [|discriminate].
    inversion Hrec; subst recs; clear Hrec.
    cbn [emit_from] in Hemit.
    apply remap_app_inv in Hemit as (c' & t' & Hc & Ht & ->).
    apply in_app_or in Hin as [Hin|Hin]; [|apply in_app_or in Hin as [Hin|Hin]; [|apply in_app_or in Hin as [Hin|Hin]]].
    + (* before *)
      destruct (one_rec_inv _ _ _ _ _ _ _ _ Ea Hin) as (Hne & l' & -> & Hl).
      rewrite (has_instr_before f Hne) in Hc. cbn [negb] in Hc.
      apply remap_app_inv in Hc as (b' & x' & Hb & _ & ->). rewrite Hl in Hb. inversion Hb; subst b'.
      exists [], (x' ++ t'). cbn [r_body app]. rewrite <- app_assoc. reflexivity.
    + (* after *)
      destruct (one_rec_inv _ _ _ _ _ _ _ _ Eb Hin) as (Hne & l' & -> & Hl).
      destruct (Nat.leb last idx) eqn:Hat; [congruence|].
      rewrite (has_instr_after f Hne) in Hc. cbn [negb] in Hc.
      apply remap_app_inv in Hc as (b' & x' & _ & Hx & ->).
      apply remap_app_inv in Hx as (m' & a' & _ & Ha & ->). rewrite Hl in Ha. inversion Ha; subst a'.
      exists (b' ++ m'), t'. cbn [r_body]. rewrite <- !app_assoc. reflexivity.
    + (* alternate *)
      destruct (one_rec_inv _ _ _ _ _ _ _ _ Ec Hin) as (Hne & l' & -> & Hl).
      destruct (Nat.leb last idx) eqn:Hat; [congruence|].
      destruct (f_alt f) as [a0|] eqn:Ealt; [|congruence].
      rewrite (has_instr_alt f a0 Ealt) in Hc. cbn [negb] in Hc.
      apply remap_app_inv in Hc as (b' & x' & _ & Hx & ->).
      apply remap_app_inv in Hx as (m' & a' & Hm & _ & ->). rewrite Hl in Hm. inversion Hm; subst m'.
      exists b', (a' ++ t'). cbn [r_body]. rewrite <- !app_assoc. reflexivity.
    + (* a later instruction *)
      destruct (IH _ _ _ _ _ _ Er Ht rc Hin) as (pre & post & ->).
      exists (c' ++ pre), post. rewrite <- app_assoc. reflexivity.
Qed.

(* the report of a function with special instrumentation (since the repair of D22): every record is the list of exactly
   one (instruction, mode) of the flags *before* the lowering - its operators re-mapped, under that very instruction and
   mode, with the tag appended in that mode - and no (instruction, mode) is reported twice *)
Lemma fx_modes_spec pos idx at_end f tagof remap : forall modes recs rc,
  fx_modes pos idx at_end f modes tagof remap = Some recs -> In rc recs ->
  exists m, In m modes /\ mode_list f m <> [] /\ remap (mode_list f m) = Some (r_body rc) /\
            r_fields rc = [1; mcode m; N.of_nat idx; pos] /\ r_tag rc = tagof idx m.
Proof.
  induction modes as [|m ms IH]; intros recs rc H Hin; cbn [fx_modes] in H.
  - inversion H; subst. destruct Hin.
  - set (l := if at_end && match m with MAfter | MAlternate => true | _ => false end then [] else mode_list f m) in *.
    destruct (match l with [] => Some [] | _ :: _ => match remap l with Some l' => Some [mkRec [1; mcode m; N.of_nat idx; pos] l' (tagof idx m)] | None => None end end) as [a|] eqn:Ea; [|discriminate].
    destruct (fx_modes pos idx at_end f ms tagof remap) as [rest|] eqn:Er; [|discriminate].
    inversion H; subst recs; clear H. apply in_app_or in Hin as [Hin|Hin].
    + exists m. split; [left; reflexivity|].
      destruct l as [|o l'] eqn:El; [inversion Ea; subst; destruct Hin|].
      destruct (remap (o :: l')) as [l2|] eqn:E2; [|discriminate]. inversion Ea; subst a. destruct Hin as [<-|[]].
      assert (Hl : mode_list f m = o :: l').
      { subst l. destruct (at_end && _); [discriminate|exact El]. }
      rewrite Hl. repeat split; try reflexivity; [discriminate|exact E2].
    + destruct (IH _ _ eq_refl Hin) as (m' & Hm & R). exists m'. split; [right; exact Hm|exact R].
Qed.

Theorem unresolved_records_are_probes pos tagof remap : forall body last idx st recs rc,
  fx_unresolved pos last idx body st tagof remap = Some recs -> In rc recs ->
  exists k op f m, nth_error body k = Some (op, f) /\ mode_list f m <> [] /\ remap (mode_list f m) = Some (r_body rc) /\
                   r_fields rc = [1; mcode m; N.of_nat (idx + k); pos] /\ r_tag rc = tagof (idx + k)%nat m.
Proof.
  induction body as [|[op f] body IH]; intros last idx st recs rc H Hin; cbn [fx_unresolved] in H.
  - inversion H; subst. destruct Hin.
  - destruct (site_step op f st) as [st' what].
    destruct (fx_modes pos idx (Nat.leb last idx) f [MBefore; MAfter] tagof remap) as [a|] eqn:Ea; [|discriminate].
    match type of H with context [match ?X with Some b => Some (a ++ b) | None => None end] => destruct X as [b|] eqn:Eb end; [|discriminate].
    destruct (fx_unresolved pos last (S idx) body st' tagof remap) as [rest|] eqn:Er; [|discriminate].
    inversion H; subst recs; clear H.
    assert (Here : forall at_end modes l, fx_modes pos idx at_end f modes tagof remap = Some l -> In rc l ->
              exists k op0 f0 m, nth_error ((op, f) :: body) k = Some (op0, f0) /\ mode_list f0 m <> [] /\
                remap (mode_list f0 m) = Some (r_body rc) /\ r_fields rc = [1; mcode m; N.of_nat (idx + k); pos] /\
                r_tag rc = tagof (idx + k)%nat m).
    { intros at_end modes l Hl Hrc. destruct (fx_modes_spec _ _ _ _ _ _ _ _ _ Hl Hrc) as (m & _ & A & B & C & D).
      exists 0%nat, op, f, m. rewrite Nat.add_0_r. cbn. auto. }
    apply in_app_or in Hin as [Hin|Hin]; [apply in_app_or in Hin as [Hin|Hin]|].
    + exact (Here _ _ _ Ea Hin).
    + destruct what.
      * destruct (has_instr f); [exact (Here _ _ _ Eb Hin)|inversion Eb; subst; destruct Hin].
      * exact (Here _ _ _ Eb Hin).
      * inversion Eb; subst. destruct Hin.
    + destruct (IH _ _ _ _ _ Er Hin) as (k & op0 & f0 & m & A & B & C & D & E).
      exists (S k), op0, f0, m. cbn [nth_error]. replace (idx + S k)%nat with (S idx + k)%nat by lia. auto.
Qed.

(* ------------------------------------------------------------------------------------------ *)
(* 4. the boolean checker means what the property says                                          *)
From Orca Require Import EqbFacts.
Lemma blockty_eqb_eq a b : blockty_eqb a b = true -> a = b.
Proof. destruct a, b; cbn; intros H; try discriminate; try reflexivity; apply N.eqb_eq in H; subst; reflexivity. Qed.
Lemma fop_eqb_eq a b : fop_eqb a b = true -> a = b.
Proof.
  destruct a, b; cbn; intros H; try discriminate; try reflexivity;
    try (apply blockty_eqb_eq in H; subst; reflexivity);
    try (apply Nat.eqb_eq in H; subst; reflexivity);
    try (apply N.eqb_eq in H; subst; reflexivity);
    try (apply Z.eqb_eq in H; subst; reflexivity).
  - apply andb_prop in H as [H1 H2]. apply Nat.eqb_eq in H2. subst.
    apply (list_eqb_eq Nat.eqb) in H1; [subst; reflexivity|]. intros x y E. apply Nat.eqb_eq. exact E.
  - apply andb_prop in H as [H1 H2]. apply Nat.eqb_eq in H1. apply N.eqb_eq in H2. subst. reflexivity.
Qed.
Lemma fops_eqb_eq a b : fops_eqb a b = true -> a = b.
Proof. apply list_eqb_eq. exact fop_eqb_eq. Qed.
Lemma keyeq_eq : forall a b, keyeq a b = true -> a = b.
Proof.
  unfold keyeq. induction a as [|x a IH]; intros [|y b] H; cbn in H; try discriminate; [reflexivity|].
  apply andb_prop in H as [H1 H2]. apply N.eqb_eq in H1. subst. f_equal. exact (IH _ H2).
Qed.

(* the property about the records of one kind of addition, as a proposition *)
Definition Kind_ok (exp : list (list N * tg)) (k : N) (recs : list srec) : Prop :=
  (* every record belongs to an item the history added and that is still present, and shows its tag
     (the empty tag when the item has none) *)
  (forall r, In r recs -> exists it, In it exp /\ fst it = key_of k r /\ tag_ok (snd it) (r_tag r) = true) /\
  (* no item is reported twice *)
  kind_once k recs = true /\
  (* every item that carries a tag is reported *)
  (forall it, In it exp -> carries_tag (snd it) = true -> exists r, In r recs /\ key_of k r = fst it).

Lemma kind_ok_sound s fx k : kind_ok s fx k = true -> Kind_ok (expected s k) k (recs_of fx k).
Proof.
  unfold kind_ok, Kind_ok. intros H. apply andb_prop in H as [H Hc]. apply andb_prop in H as [Hs Ho].
  split; [|split; [exact Ho|]].
  - intros r Hin. unfold kind_sound in Hs. rewrite forallb_forall in Hs. specialize (Hs r Hin).
    apply existsb_exists in Hs as (it & Hit & Hk). apply andb_prop in Hk as [Hk Ht].
    exists it. split; [exact Hit|]. split; [exact (keyeq_eq _ _ Hk)|exact Ht].
  - intros it Hin Hct. unfold kind_complete in Hc. rewrite forallb_forall in Hc. specialize (Hc it Hin).
    rewrite Hct in Hc. cbn in Hc. apply existsb_exists in Hc as (r & Hr & Hk). exists r. split; [exact Hr|].
    symmetry. exact (keyeq_eq _ _ Hk).
Qed.

(* the property about one probe record *)
Definition Probe_rec_ok (c : scase) (e : emod) (emitted : list fop) (r : srec) : Prop :=
  exists z flds ops t,
    marker_of (r_body r) = Some z /\ probe_of_marker c z = Some (flds, ops, t) /\
    firstn 3 (r_fields r) = flds /\                                         (* kind, mode and instruction of that probe *)
    optN_eqb (designates e SF (nth 3 (r_fields r) BADTOK)) (target_fp c) = true /\   (* the function, by its index in the encoding *)
    tag_ok t (r_tag r) = true /\                                            (* the probe's tag *)
    (forall run, find_run z (length ops) emitted = Some run -> run = r_body r) /\  (* the operators the encoder emitted for it *)
    refs_ok (spec_fin c) e ops (r_body r) = true.                           (* in the index space of the encoded module *)

Lemma probe_rec_ok_sound c e emitted r : probe_rec_ok c e emitted r = true -> Probe_rec_ok c e emitted r.
Proof.
  unfold probe_rec_ok, Probe_rec_ok. destruct (marker_of (r_body r)) as [z|] eqn:Em; [|discriminate].
  destruct (probe_of_marker c z) as [[[flds ops] t]|] eqn:Ep; [|discriminate]. intros H.
  apply andb_prop in H as [H Hrefs]. apply andb_prop in H as [H Hrun]. apply andb_prop in H as [H Htag].
  apply andb_prop in H as [H Hlen]. apply andb_prop in H as [Hk Hfn].
  exists z, flds, ops, t.
  split; [first [reflexivity|exact Em]|]. split; [exact Ep|]. split; [exact (keyeq_eq _ _ Hk)|]. split; [exact Hfn|].
  split; [exact Htag|]. split; [|exact Hrefs].
  intros run Hr. rewrite Hr in Hrun. exact (fops_eqb_eq _ _ Hrun).
Qed.

Definition Report_ok (c : scase) (fx : list (N * list srec)) (e : emod) (emitted : list fop) : Prop :=
  (forall k, In k addition_kinds -> Kind_ok (expected (spec_fin c) k) k (recs_of fx k)) /\
  (forall r, In r (recs_of fx K_PROBE) -> Probe_rec_ok c e emitted r) /\
  probes_once (recs_of fx K_PROBE) = true /\
  probes_complete c emitted (recs_of fx K_PROBE) = true.

Theorem sidefx_checker_sound (c : scase) fx e emitted :
  holds c = true -> so_fx c = Some fx -> so_enc c = Some (e, emitted) -> Report_ok c fx e emitted.
Proof.
  unfold holds. intros H Hfx Henc. rewrite Hfx, Henc in H. apply andb_prop in H as [H Hc]. apply andb_prop in H as [H Ho].
  apply andb_prop in H as [Ha Hs]. unfold additions_ok in Ha. apply andb_prop in Ha as [Ha _].
  rewrite forallb_forall in Ha. split; [|split; [|split; assumption]].
  - intros k Hk. exact (kind_ok_sound _ _ _ (Ha k Hk)).
  - intros r Hr. unfold probes_sound in Hs. rewrite forallb_forall in Hs. exact (probe_rec_ok_sound _ _ _ _ (Hs r Hr)).
Qed.
