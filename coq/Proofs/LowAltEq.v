(* C21: the depth-counter pass [dspec] (what the code is proved to do, LowAlt.v) coincides with the
   region-based reading of the property [spec21] (replace the construct from its opener through its matching
   end; for else: the else and its arm, the end kept) whenever no before/after/alternate probe sits on a
   removed position and no removed position is the function's final instruction. *)
From Coq Require Import List Arith NArith ZArith Bool Lia.
Import ListNotations.
From Orca Require Import Util Flat Lowering CheckLow LowPlain LowAlt.

Section Eq.
Variable plan : list (nat * mode * list fop).
Variable last : nat.

Notation B := (B plan). Notation A := (A plan). Notation R := (R plan). Notation BA := (BA plan).

(* dspec over an indexed list *)
Fixpoint dspecI (depth : nat) (del : option nat) (retain : bool) (l : list (nat * fop)) : list fop :=
  match l with
  | [] => []
  | (i, op) :: l' =>
      match op with
      | FBlock _ | FLoop _ | FIf _ =>
          match del, BA i with
          | None, Some alt => rend_alt plan last i op alt ++ dspecI (S depth) (Some depth) false l'
          | Some _, _ => rend_del plan last i op ++ dspecI (S depth) del retain l'
          | None, None => rend plan last i op ++ dspecI (S depth) None retain l'
          end
      | FElse =>
          match del, BA i with
          | None, Some alt => rend_alt plan last i op alt ++ dspecI depth (Some (depth - 1)) true l'
          | Some _, _ => rend_del plan last i op ++ dspecI depth del retain l'
          | None, None => rend plan last i op ++ dspecI depth None retain l'
          end
      | FEnd =>
          match depth with
          | O => rend plan last i op ++ dspecI O del retain l'
          | S d =>
              match del with
              | Some dd =>
                  if Nat.eqb dd d
                  then (if retain then rend plan last i op else rend_del plan last i op) ++ dspecI d None true l'
                  else rend_del plan last i op ++ dspecI d del retain l'
              | None => rend plan last i op ++ dspecI d None retain l'
              end
          end
      | _ =>
          match del with
          | Some _ => rend_del plan last i op ++ dspecI depth del retain l'
          | None => rend plan last i op ++ dspecI depth None retain l'
          end
      end
  end.

Lemma dspec_I : forall l i depth del retain,
  dspec plan last i depth del retain l = dspecI depth del retain (index_from i l).
Proof.
  induction l as [|op l IH]; intros i depth del retain; [reflexivity|].
  cbn [index_from dspec dspecI].
  destruct op; try (destruct del; rewrite ?IH; reflexivity);
    try (destruct del; destruct (BA i); rewrite ?IH; reflexivity).
  destruct depth as [|d]; [rewrite IH; reflexivity|].
  destruct del as [dd|]; [|rewrite IH; reflexivity].
  destruct (Nat.eqb dd d); rewrite IH; reflexivity.
Qed.

(* outside a removed region the retain flag is never read *)
Lemma dspecI_retain : forall l depth r r', dspecI depth None r l = dspecI depth None r' l.
Proof.
  induction l as [|[i op] l IH]; intros depth r r'; [reflexivity|].
  cbn [dspecI].
  destruct op; try (rewrite (IH _ r r'); reflexivity);
    try (destruct (BA i); [reflexivity | rewrite (IH _ r r'); reflexivity]).
  destruct depth as [|d]; rewrite (IH _ r r'); reflexivity.
Qed.

Definition quiet_pos (j : nat) : Prop := B j = [] /\ A j = [] /\ R j = None /\ j < last.

Lemma rend_del_quiet j op : quiet_pos j -> rend_del plan last j op = [].
Proof.
  intros (HB & HA & _ & Hl). unfold rend_del. fold (B j) (A j). rewrite HB, HA.
  destruct (Nat.leb_spec last j); [lia|reflexivity].
Qed.
Lemma rend_alt_quiet j op alt : quiet_pos j -> rend_alt plan last j op alt = alt.
Proof.
  intros (HB & HA & HR & Hl). unfold rend_alt. fold (B j) (A j) (R j). rewrite HB, HA, HR.
  destruct (Nat.leb_spec last j); [lia|]. destruct alt; cbn; rewrite ?app_nil_r; reflexivity.
Qed.
Lemma rend_render15 j op : j <= last -> rend plan last j op = render15 plan last j op.
Proof.
  intros Hl. unfold rend, render15. fold (B j) (A j) (R j).
  destruct (Nat.eqb_spec j last) as [->|Hne].
  - rewrite Nat.leb_refl. reflexivity.
  - destruct (Nat.leb_spec last j); [lia|]. reflexivity.
Qed.

Lemma drop_suffix_len (keep : bool) : forall l k, length (drop_region keep k l) <= length l.
Proof. intros. apply drop_region_length. Qed.

(* skipping a removed region: everything up to (and, for an opener, including) the matching end emits nothing *)
Lemma skip_region (keep : bool) : forall l k d,
  (forall x, In x (firstn (length l - length (drop_region keep k l)) l) -> quiet_pos (fst x)) ->
  dspecI (S d + k) (Some d) keep l = dspecI (if keep then S d else d) None true (drop_region keep k l).
Proof.
  induction l as [|[i op] l IH]; intros k d Hq; [destruct keep; reflexivity|].
  assert (Hsub : forall k', length (drop_region keep k' l) <= length l) by (intros; apply drop_region_length).
  (* the head is in the dropped prefix whenever the region does not stop right here *)
  assert (Hhead : forall k', drop_region keep k ((i, op) :: l) = drop_region keep k' l -> quiet_pos i).
  { intros k' E. apply (Hq (i, op)). rewrite E. specialize (Hsub k'). cbn [length].
    replace (S (length l) - length (drop_region keep k' l)) with (S (length l - length (drop_region keep k' l))) by lia.
    left. reflexivity. }
  assert (Htail : forall k', drop_region keep k ((i, op) :: l) = drop_region keep k' l ->
             forall x, In x (firstn (length l - length (drop_region keep k' l)) l) -> quiet_pos (fst x)).
  { intros k' E x Hx. apply Hq. rewrite E. specialize (Hsub k'). cbn [length].
    replace (S (length l) - length (drop_region keep k' l)) with (S (length l - length (drop_region keep k' l))) by lia.
    right. exact Hx. }
  destruct op;
    try (cbn [dspecI drop_region]; rewrite (rend_del_quiet i _ (Hhead k eq_refl)); cbn [app];
         apply IH; apply (Htail k eq_refl); fail).
  - (* FBlock *) cbn [dspecI drop_region]. rewrite (rend_del_quiet i _ (Hhead (S k) eq_refl)). cbn [app].
    replace (S (S d + k)) with (S d + S k) by lia. apply IH. apply (Htail (S k) eq_refl).
  - cbn [dspecI drop_region]. rewrite (rend_del_quiet i _ (Hhead (S k) eq_refl)). cbn [app].
    replace (S (S d + k)) with (S d + S k) by lia. apply IH. apply (Htail (S k) eq_refl).
  - cbn [dspecI drop_region]. rewrite (rend_del_quiet i _ (Hhead (S k) eq_refl)). cbn [app].
    replace (S (S d + k)) with (S d + S k) by lia. apply IH. apply (Htail (S k) eq_refl).
  - (* FEnd *)
    destruct k as [|k'].
    + cbn [dspecI drop_region Nat.add]. rewrite Nat.add_0_r. rewrite Nat.eqb_refl.
      destruct keep.
      * cbn [dspecI]. reflexivity.
      * assert (Q : quiet_pos i).
        { apply (Hq (i, FEnd)). cbn [drop_region length]. replace (S (length l) - length l) with 1 by lia. left. reflexivity. }
        rewrite (rend_del_quiet i _ Q). reflexivity.
    + cbn [dspecI drop_region]. replace (S d + S k') with (S (S d + k')) by lia.
      destruct (Nat.eqb_spec d (S d + k')); [lia|].
      rewrite (rend_del_quiet i _ (Hhead k' eq_refl)). cbn [app]. apply IH. apply (Htail k' eq_refl).
Qed.

Lemma okdepth_drop (keep : bool) : forall l k d,
  okdepth (S d + k) l = true -> okdepth (if keep then S d else d) (drop_region keep k l) = true.
Proof.
  induction l as [|[i op] l IH]; intros k d H; [reflexivity|].
  destruct op; cbn [okdepth drop_region] in *; try (apply IH; exact H).
  - apply (IH (S k) d). replace (S d + S k) with (S (S d + k)) by lia. exact H.
  - apply (IH (S k) d). replace (S d + S k) with (S (S d + k)) by lia. exact H.
  - apply (IH (S k) d). replace (S d + S k) with (S (S d + k)) by lia. exact H.
  - destruct k as [|k'].
    + rewrite Nat.add_0_r in *. destruct keep.
      * cbn [okdepth Nat.leb andb]. exact H.
      * replace (S d - 1) with d in H by lia. exact H.
    + apply IH. replace (S d + S k' - 1) with (S d + k') in H by lia. exact H.
Qed.

Lemma removed_go_quiet_tail fuel i op l :
  (forall j, In j (removed_go (S fuel) plan ((i, op) :: l)) -> quiet_pos j) ->
  (if is_block_style op then acc_repl plan i MBlockAlt None else None) = None ->
  forall j, In j (removed_go fuel plan l) -> quiet_pos j.
Proof. intros H E j Hj. apply H. cbn [removed_go]. rewrite E. exact Hj. Qed.

Lemma dspecI_spec21 : forall fuel l depth r,
  length l < fuel ->
  (forall x, In x l -> fst x <= last) ->
  okdepth depth l = true ->
  (forall j, In j (removed_go fuel plan l) -> quiet_pos j) ->
  dspecI depth None r l = spec21_go fuel plan last l.
Proof.
  induction fuel as [|fuel IH]; intros l depth r Hlen Hpos Hok Hq; [lia|].
  destruct l as [|[i op] l]; [reflexivity|].
  cbn [length] in Hlen.
  assert (Hi : i <= last) by (apply (Hpos (i, op)); left; reflexivity).
  assert (Hpos' : forall x, In x l -> fst x <= last) by (intros x Hx; apply Hpos; right; exact Hx).
  (* an instruction that is not replaced *)
  assert (PLAIN : forall depth', (if is_block_style op then acc_repl plan i MBlockAlt None else None) = None ->
            okdepth depth' l = true ->
            rend plan last i op ++ dspecI depth' None r l = spec21_go (S fuel) plan last ((i, op) :: l)).
  { intros depth' E Hok'. cbn [spec21_go]. rewrite E. rewrite (rend_render15 i op Hi). f_equal.
    apply IH; [lia|exact Hpos'|exact Hok'|]. apply (removed_go_quiet_tail fuel i op l Hq E). }
  (* an opener / else that is replaced *)
  assert (REPL : forall (keep : bool) alt d,
            (if is_block_style op then acc_repl plan i MBlockAlt None else None) = Some alt ->
            (match op with FElse => true | _ => false end) = keep ->
            okdepth (S d) l = true ->
            rend_alt plan last i op alt ++ dspecI (S d) (Some d) keep l = spec21_go (S fuel) plan last ((i, op) :: l)).
  { intros keep alt d E Ek Hok'. cbn [spec21_go]. rewrite E, Ek.
    assert (Qi : quiet_pos i). { apply Hq. cbn [removed_go]. rewrite E. left. reflexivity. }
    rewrite (rend_alt_quiet i op alt Qi).
    destruct Qi as (HB & HA & _ & _). fold (B i) (A i). rewrite HB, HA. cbn [app].
    f_equal.
    pose proof (drop_region_length keep l 0) as Hdl.
    rewrite <- (Nat.add_0_r (S d)). rewrite skip_region.
    - rewrite (dspecI_retain _ _ true r). apply IH.
      + lia.
      + intros x Hx. apply Hpos'.
        (* the rest is a suffix of l *)
        assert (Suf : forall l0 k x0, In x0 (drop_region keep k l0) -> In x0 l0).
        { clear. induction l0 as [|[j o] l0 IHl]; intros k x0 H0; [exact H0|].
          destruct o; cbn [drop_region] in H0; try (right; eapply IHl; exact H0).
          destruct k; [destruct keep; [exact H0|right; exact H0]|right; eapply IHl; exact H0]. }
        eapply Suf. exact Hx.
      + rewrite <- (Nat.add_0_r (S d)) in Hok'. apply (okdepth_drop keep l 0 d Hok').
      + intros j Hj. apply Hq. cbn [removed_go]. rewrite E, Ek. right. apply in_or_app. right. exact Hj.
    - intros x Hx. apply Hq. cbn [removed_go]. rewrite E, Ek. right. apply in_or_app. left.
      apply in_map. exact Hx. }
  destruct op; cbn [dspecI okdepth] in *;
    try (apply (PLAIN depth eq_refl Hok); fail).
  - (* FBlock *) destruct (acc_repl plan i MBlockAlt None) as [alt|] eqn:E; unfold BA; rewrite E.
    + apply (REPL false alt depth); [reflexivity|reflexivity|exact Hok].
    + apply (PLAIN (S depth)); [reflexivity|exact Hok].
  - destruct (acc_repl plan i MBlockAlt None) as [alt|] eqn:E; unfold BA; rewrite E.
    + apply (REPL false alt depth); [reflexivity|reflexivity|exact Hok].
    + apply (PLAIN (S depth)); [reflexivity|exact Hok].
  - destruct (acc_repl plan i MBlockAlt None) as [alt|] eqn:E; unfold BA; rewrite E.
    + apply (REPL false alt depth); [reflexivity|reflexivity|exact Hok].
    + apply (PLAIN (S depth)); [reflexivity|exact Hok].
  - (* FElse *)
    apply andb_prop in Hok as [Hd Hok]. apply Nat.leb_le in Hd.
    destruct (acc_repl plan i MBlockAlt None) as [alt|] eqn:E; unfold BA; rewrite E.
    + destruct depth as [|d]; [lia|]. replace (S d - 1) with d by lia.
      apply (REPL true alt d); [reflexivity|reflexivity|exact Hok].
    + apply (PLAIN depth); [reflexivity|exact Hok].
  - (* FEnd *)
    apply andb_prop in Hok as [Hd Hok]. apply Nat.leb_le in Hd.
    destruct depth as [|d]; [lia|]. replace (S d - 1) with d in Hok by lia.
    apply (PLAIN d eq_refl Hok).
Qed.
End Eq.

Lemma index_from_length {A} : forall (l : list A) i, length (index_from i l) = length l.
Proof. induction l as [|x l IH]; intros i; cbn; [reflexivity|]. rewrite IH. reflexivity. Qed.
Lemma index_from_bound {A} : forall (l : list A) i x, In x (index_from i l) -> fst x < i + length l.
Proof.
  induction l as [|y l IH]; intros i x H; [contradiction|].
  cbn [index_from length] in *. destruct H as [<-|H]; [cbn; lia|]. specialize (IH (S i) x H). lia.
Qed.

Theorem dspec_is_spec21 plan body :
  eqdom plan body = true ->
  dspec plan (length body - 1) 0 1 None true body = spec21 plan body.
Proof.
  unfold eqdom. intros H. apply andb_prop in H as [Hok Hq].
  rewrite dspec_I. unfold spec21.
  apply dspecI_spec21.
  - rewrite index_from_length. lia.
  - intros x Hx. apply index_from_bound in Hx. lia.
  - exact Hok.
  - intros j Hj. rewrite forallb_forall in Hq. specialize (Hq j Hj).
    unfold quiet_posb in Hq. repeat (apply andb_prop in Hq as [Hq ?]).
    unfold quiet_pos, B, A, R.
    destruct (acc_code plan j MBefore); [|discriminate]. destruct (acc_code plan j MAfter); [|discriminate].
    destruct (acc_repl plan j MAlternate None); [discriminate|].
    repeat split; auto. apply Nat.ltb_lt. assumption.
Qed.
