(* placeholder: additions engine (C30), under construction *)
