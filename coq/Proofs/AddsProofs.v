(* C30: theorems about the additions model (Model/Additions.v) and its checker (Check/CheckAdds.v).
   A. InitExpr::to_wasmencoder_type read back: bit-exact, injective, decodes to the request (all forms).
   B. add_data / exports / add_global / add_local_memory only append: closed forms over whole histories.
   C. mod_global_init_expr changes exactly one initialiser.
   D. emission: every data segment / export / global / memory of the output is the stored request.
   E. reflection of [agree]. *)
From Coq Require Import List Arith NArith ZArith Bool Lia FinFun.
Import ListNotations.
From Orca Require Import Util Wrap Reindex ReidxProofs CheckReidx Additions CheckAdds.
Local Open Scope N_scope.

(* ------------------------------------------------------------------------------------------ *)
(* A. constant expressions *)
Definition wf_value (v : value) : bool :=
  match v with
  | VI32 z => in_i32 z | VI64 z => in_i64 z | VF32 b => in_u32 b | VF64 b => in_u64 b | VV128 u => in_u128 u
  end.
Definition wf_instr (i : iinstr) : bool := match i with IVal v => wf_value v | _ => true end.

(* how a decoder turns the operator back into a request: the 128 bits of a v128 constant are the unsigned
   reading of the i128 wasmparser hands out *)
Definition dec_cop (c : cop) : option iinstr :=
  match c with
  | CI32 z => Some (IVal (VI32 z)) | CI64 z => Some (IVal (VI64 z))
  | CF32 b => Some (IVal (VF32 b)) | CF64 b => Some (IVal (VF64 b))
  | CV128 z => Some (IVal (VV128 (to_u128 z)))
  | CGlobalGet q => Some (IGlobal q) | CRefFunc q => Some (IRefFunc q) | CRefNull ht => Some (IRefNull ht)
  | COther _ => None
  end.

Theorem enc_instr_decodes (i : iinstr) : wf_instr i = true -> dec_cop (enc_instr i) = Some i.
Proof.
  destruct i as [[z|z|b|b|u]|g|f|ht]; cbn [wf_instr wf_value enc_instr enc_value dec_cop]; intros H; try reflexivity.
  apply in_u128_iff in H. rewrite to_u128_wrap_s128 by exact H. reflexivity.
Qed.

Theorem enc_instr_injective (i j : iinstr) :
  wf_instr i = true -> wf_instr j = true -> enc_instr i = enc_instr j -> i = j.
Proof.
  intros Hi Hj E. apply enc_instr_decodes in Hi. apply enc_instr_decodes in Hj.
  rewrite E in Hi. rewrite Hi in Hj. inversion Hj. reflexivity.
Qed.

Theorem enc_init_injective : forall e e' : init,
  forallb wf_instr e = true -> forallb wf_instr e' = true -> enc_init e = enc_init e' -> e = e'.
Proof.
  induction e as [|i e IH]; intros [|j e'] H H' E; cbn in *; try discriminate; [reflexivity|].
  apply andb_true_iff in H as [Hi He]. apply andb_true_iff in H' as [Hj He'].
  inversion E. f_equal; [apply enc_instr_injective; assumption | apply IH; assumption].
Qed.

(* the v128 constant: the emitted immediate is the two's-complement reading of the requested 128 bits and
   lies in the i128 range; its 128 bits are the requested ones *)
Theorem v128_bits_exact (u : Z) : in_u128 u = true ->
  enc_value (VV128 u) = CV128 (as_i128 u) /\ in_i128 (as_i128 u) = true /\ to_u128 (as_i128 u) = u.
Proof.
  intros H. apply in_u128_iff in H. cbn [enc_value]. rewrite wrap_s128_u128 by exact H.
  split; [reflexivity|]. split; [apply in_i128_iff, as_i128_range; exact H | apply to_u128_as_i128; exact H].
Qed.

(* against the specification of the checker: the resolved form of the emitted operator is the resolved form
   of the request, for every value (NaN payloads, signed zeros and infinities are just bit patterns) *)
Theorem enc_value_meets_spec (o : aobs) (h : sstate) (v : value) :
  wf_value v = true -> obs_rop o (enc_value v) = exp_rop h (IVal v).
Proof.
  destruct v as [z|z|b|b|u]; cbn [wf_value enc_value obs_rop exp_rop]; intros H; try reflexivity.
  apply in_u128_iff in H. rewrite to_u128_wrap_s128 by exact H. reflexivity.
Qed.
Theorem enc_null_meets_spec (o : aobs) (h : sstate) (ht : N) : obs_rop o (enc_instr (IRefNull ht)) = exp_rop h (IRefNull ht).
Proof. reflexivity. Qed.

(* fix_id_mapping touches only the two index-carrying forms *)
Lemma fix_instr_val mf mg v : fix_instr mf mg (IVal v) = Ok (IVal v).
Proof. reflexivity. Qed.
Lemma fix_instr_null mf mg ht : fix_instr mf mg (IRefNull ht) = Ok (IRefNull ht).
Proof. reflexivity. Qed.
Definition index_free (i : iinstr) : bool := match i with IVal _ | IRefNull _ => true | _ => false end.
Lemma fix_init_index_free mf mg : forall e, forallb index_free e = true -> fix_init mf mg e = Ok e.
Proof.
  induction e as [|i e IH]; cbn [forallb fix_init]; intros H; [reflexivity|].
  apply andb_true_iff in H as [Hi He]. destruct i; try discriminate; cbn [fix_instr]; rewrite (IH He); reflexivity.
Qed.
Lemma fix_init_length mf mg : forall e e', fix_init mf mg e = Ok e' -> length e' = length e.
Proof.
  induction e as [|i e IH]; cbn [fix_init]; intros e' H; [inversion H; reflexivity|].
  destruct (fix_instr mf mg i); [|discriminate]. destruct (fix_init mf mg e) eqn:E; [|discriminate].
  inversion H. cbn. f_equal. apply IH. reflexivity.
Qed.

(* ------------------------------------------------------------------------------------------ *)
(* helpers on rmap *)
Lemma rmap_length {A B} (f : A -> res B) : forall l r, rmap f l = Ok r -> length r = length l.
Proof.
  induction l as [|x l IH]; cbn [rmap]; intros r H; [inversion H; reflexivity|].
  destruct (f x); [|discriminate]. destruct (rmap f l); [|discriminate]. inversion H. cbn. f_equal. apply IH. reflexivity.
Qed.
Lemma rmap_nth {A B} (f : A -> res B) : forall l r k x, rmap f l = Ok r -> nth_error l k = Some x ->
  exists y, nth_error r k = Some y /\ f x = Ok y.
Proof.
  induction l as [|a l IH]; intros r k x H Hn; [destruct k; discriminate|].
  cbn [rmap] in H. destruct (f a) eqn:Ea; [|discriminate]. destruct (rmap f l) eqn:El; [|discriminate]. inversion H; subst r.
  destruct k as [|k]; cbn in Hn |- *.
  - inversion Hn; subst. eexists. split; [reflexivity|exact Ea].
  - eapply IH; [reflexivity|exact Hn].
Qed.
Lemma rmap_nth_inv {A B} (f : A -> res B) : forall l r k y, rmap f l = Ok r -> nth_error r k = Some y ->
  exists x, nth_error l k = Some x /\ f x = Ok y.
Proof.
  induction l as [|a l IH]; intros r k y H Hn; cbn [rmap] in H.
  - inversion H; subst. destruct k; discriminate.
  - destruct (f a) eqn:Ea; [|discriminate]. destruct (rmap f l) eqn:El; [|discriminate]. inversion H; subst r.
    destruct k as [|k]; cbn in Hn |- *.
    + inversion Hn; subst. eexists. split; [reflexivity|exact Ea].
    + eapply IH; [reflexivity|exact Hn].
Qed.
Lemma rmap_ext_in {A B} (f g : A -> res B) : forall l, (forall x, In x l -> f x = g x) -> rmap f l = rmap g l.
Proof.
  induction l as [|a l IH]; intros H; [reflexivity|]. cbn [rmap].
  rewrite (H a (or_introl eq_refl)). rewrite IH by (intros x Hx; apply H; right; exact Hx). reflexivity.
Qed.
Lemma rmap_map {A B C} (f : A -> res B) (g : B -> C) (h : A -> C) : forall l r,
  (forall x y, f x = Ok y -> g y = h x) -> rmap f l = Ok r -> map g r = map h l.
Proof.
  induction l as [|a l IH]; intros r Hg H; cbn [rmap] in H; [inversion H; reflexivity|].
  destruct (f a) eqn:Ea; [|discriminate]. destruct (rmap f l) eqn:El; [|discriminate]. inversion H; subst r.
  cbn [map]. f_equal; [apply Hg; exact Ea | apply IH; [exact Hg|reflexivity]].
Qed.

(* ------------------------------------------------------------------------------------------ *)
(* B. the additions only append *)
Definition data_of (o : aop) : list dseg := match o with OAddData d => [d] | _ => [] end.
Definition ex_core (e : expo) : N * N * N := (ex_name e, ex_kind e, ex_idx e).
Definition exports_of (o : aop) : list (N * N * N) := match o with OAddExport k n id => [(n, k, id)] | _ => [] end.
Definition gfps_of (o : aop) : list N :=
  match o with OAddGlobal fp _ _ | OAddImpGlobal fp _ | OItAddGlobal fp _ _ => [fp] | _ => [] end.
Definition mfps_of (o : aop) : list N := match o with OAddMem fp _ | OAddImpMem fp _ => [fp] | _ => [] end.
Definition ffps_of (o : aop) : list N := match o with OAddImpFunc fp => [fp] | _ => [] end.
Definition fps (s : astate) (x : sp) : list N := map it_fp (s_items (get_sp (a_m s) x)).
Definition ids (s : astate) (x : sp) : list N := map it_id (s_items (get_sp (a_m s) x)).
Definition new_fps (o : aop) (x : sp) : list N := match x with SF => ffps_of o | SG => gfps_of o | SM => mfps_of o end.

Lemma map_upd_same {A B} (g : A -> B) (f : A -> A) : (forall a, g (f a) = g a) -> forall n l, map g (upd n f l) = map g l.
Proof.
  intros Hf. induction n as [|n IH]; intros [|a l]; cbn [upd map]; try reflexivity.
  - rewrite Hf. reflexivity.
  - rewrite IH. reflexivity.
Qed.
Lemma upd_length {A} (f : A -> A) : forall n l, length (upd n f l) = length l.
Proof. induction n as [|n IH]; intros [|a l]; cbn [upd length]; try reflexivity. rewrite IH. reflexivity. Qed.

(* delete_in keeps every item's fingerprint and id *)
Lemma delete_in_keeps m x id m' : delete_in m x id = Ok m' ->
  forall y, map it_fp (s_items (get_sp m' y)) = map it_fp (s_items (get_sp m y))
         /\ map it_id (s_items (get_sp m' y)) = map it_id (s_items (get_sp m y)).
Proof.
  unfold delete_in. intros H y.
  set (items' := if id <? lenN (s_items (get_sp m x)) then updN id (set_del true) (s_items (get_sp m x)) else s_items (get_sp m x)) in *.
  assert (Hk : map it_fp items' = map it_fp (s_items (get_sp m x)) /\ map it_id items' = map it_id (s_items (get_sp m x))).
  { unfold items'. destruct (id <? _); [|split; reflexivity]. unfold updN. split; apply map_upd_same; reflexivity. }
  destruct (nthN items' id) as [it|]; [|discriminate].
  destruct (it_imp it); inversion H; subst m'; clear H; destruct x, y; cbn; try (split; reflexivity); exact Hk.
Qed.

Lemma astep_appends s o s' r : astep s o = Ok (s', r) ->
  a_data s' = a_data s ++ data_of o
  /\ map ex_core (a_exports s') = map ex_core (a_exports s) ++ exports_of o
  /\ (forall x, fps s' x = fps s x ++ new_fps o x)
  /\ (forall x, length (ids s' x) = length (ids s x) + length (new_fps o x))%nat.
Proof.
  unfold fps, ids. destruct o; cbn [astep data_of exports_of new_fps gfps_of mfps_of ffps_of]; intros H.
  - (* OAddGlobal *)
    destruct (gty_conv t); [|discriminate]. cbn [step] in H. inversion H; subst; clear H. cbn.
    rewrite !app_nil_r. repeat split; try reflexivity; intros []; cbn; rewrite ?app_nil_r, ?map_app, ?app_length, ?map_length; cbn; try reflexivity; lia.
  - (* OAddImpGlobal *)
    destruct (gty_conv t); [|discriminate]. cbn [step] in H. unfold push_import in H. cbn in H. inversion H; subst; clear H. cbn.
    rewrite !app_nil_r. repeat split; try reflexivity; intros []; cbn; rewrite ?app_nil_r, ?map_app, ?app_length, ?map_length; cbn; try reflexivity; lia.
  - (* OItAddGlobal *)
    cbn [step] in H. inversion H; subst; clear H. cbn.
    rewrite !app_nil_r. repeat split; try reflexivity; intros []; cbn; rewrite ?app_nil_r, ?map_app, ?app_length, ?map_length; cbn; try reflexivity; lia.
  - (* OAddMem *)
    cbn [step] in H. inversion H; subst; clear H. cbn.
    rewrite !app_nil_r. repeat split; try reflexivity; intros []; cbn; rewrite ?app_nil_r, ?map_app, ?app_length, ?map_length; cbn; try reflexivity; lia.
  - (* OAddImpMem *)
    cbn [step] in H. unfold push_import in H. cbn in H.
    destruct (N.eqb _ _); [|discriminate]. inversion H; subst; clear H. cbn.
    rewrite !app_nil_r. repeat split; try reflexivity; intros []; cbn; rewrite ?app_nil_r, ?map_app, ?app_length, ?map_length; cbn; try reflexivity; lia.
  - (* OAddImpFunc *)
    cbn [step] in H. unfold push_import in H. cbn in H.
    destruct (N.eqb _ _); [|discriminate]. inversion H; subst; clear H. cbn.
    rewrite !app_nil_r. repeat split; try reflexivity; intros []; cbn; rewrite ?app_nil_r, ?map_app, ?app_length, ?map_length; cbn; try reflexivity; lia.
  - (* OAddData *)
    inversion H; subst; clear H. cbn. rewrite !app_nil_r. repeat split; try reflexivity; intros []; cbn; rewrite ?app_nil_r; try reflexivity; lia.
  - (* OAddExport *)
    inversion H; subst; clear H. cbn. rewrite map_app, !app_nil_r. repeat split; try reflexivity; intros []; cbn; rewrite ?app_nil_r; try reflexivity; lia.
  - (* ODelExport *)
    destruct (k <? lenN (a_exports s)); [|discriminate]. inversion H; subst; clear H. cbn. rewrite !app_nil_r.
    repeat split; try reflexivity; try (intros []; cbn; rewrite ?app_nil_r; try reflexivity; lia).
    unfold updN. apply map_upd_same. reflexivity.
  - (* OModInit *)
    destruct (nthN _ g) as [it|]; [|discriminate]. destruct (is_local it); [|discriminate].
    destruct (plookup _ _); [|discriminate]. inversion H; subst; clear H. cbn. rewrite !app_nil_r.
    repeat split; try reflexivity; intros []; cbn; rewrite ?app_nil_r; try reflexivity; lia.
  - (* ODelete *)
    cbn [step] in H. destruct (delete_in (a_m s) s0 id) as [m'|] eqn:E; [|discriminate]. inversion H; subst; clear H. cbn.
    rewrite !app_nil_r. pose proof (delete_in_keeps _ _ _ _ E) as K.
    repeat split; try reflexivity.
    + intros x. destruct (K x) as [K1 _]. destruct x; cbn in *; rewrite app_nil_r; exact K1.
    + intros x. rewrite !map_length. destruct (K x) as [K1 _]. apply (f_equal (@length N)) in K1. rewrite !map_length in K1. rewrite K1.
      destruct x; cbn; lia.
Qed.

(* lifted over whole histories (no bound on the length): what a completed run has appended *)
Theorem arun_appends : forall h s rets s' rets',
  arun s h rets = (s', rets', false) ->
  a_data s' = a_data s ++ flat_map data_of h
  /\ map ex_core (a_exports s') = map ex_core (a_exports s) ++ flat_map exports_of h
  /\ (forall x, fps s' x = fps s x ++ flat_map (fun o => new_fps o x) h).
Proof.
  induction h as [|o h IH]; intros s rets s' rets' H; cbn [arun flat_map] in *.
  - inversion H; subst. rewrite !app_nil_r. repeat split; try reflexivity. intros x. rewrite app_nil_r. reflexivity.
  - destruct (astep s o) as [[s1 r]|] eqn:E; [|inversion H].
    destruct (astep_appends _ _ _ _ E) as (D1 & E1 & F1 & _).
    destruct (IH _ _ _ _ H) as (D2 & E2 & F2).
    rewrite D2, D1, E2, E1, !app_assoc. repeat split; try reflexivity.
    intros x. rewrite F2, F1, app_assoc. reflexivity.
Qed.

(* the run is a left fold of the single step *)
Lemma arun_panics_stay : forall h s rets s' rets', arun s h rets = (s', rets', false) ->
  forall o, In o h -> exists s0 s1 r, astep s0 o = Ok (s1, r).
Proof.
  induction h as [|o h IH]; intros s rets s' rets' H o' Hin; [destruct Hin|].
  cbn [arun] in H. destruct (astep s o) as [[s1 r]|] eqn:E; [|inversion H].
  destruct Hin as [->|Hin]; [exists s, s1, r; exact E | eapply IH; eassumption].
Qed.

(* add_data returns the position at which the segment is stored, and it stays there *)
Lemma nthN_app_len {A} (l : list A) x t : nthN (l ++ x :: t) (lenN l) = Some x.
Proof. unfold nthN, lenN. rewrite Nat2N.id. induction l; cbn; auto. Qed.
Theorem add_data_id_designates s d s1 r h rets s2 rets2 :
  astep s (OAddData d) = Ok (s1, r) -> arun s1 h rets = (s2, rets2, false) ->
  r = Some (lenN (a_data s)) /\ nthN (a_data s2) (lenN (a_data s)) = Some d.
Proof.
  intros H1 H2. cbn [astep] in H1. inversion H1; subst; clear H1. split; [reflexivity|].
  destruct (arun_appends _ _ _ _ _ H2) as (D & _). rewrite D. cbn [a_data]. rewrite <- app_assoc. apply nthN_app_len.
Qed.

(* the GlobalType stored for add_global / add_imported_global is the requested one, whenever the call does not panic
   (I8 / I16 have no value type); since the repair of D30 this includes DataType::FuncRef / ExternRef *)
Theorem gty_conv_exact t t' : gty_conv t = Ok t' -> t' = t.
Proof.
  unfold gty_conv, ty_conv. destruct (N.eqb (gt_ty t) 20 || N.eqb (gt_ty t) 21); [discriminate|].
  intros H. inversion H. destruct t; reflexivity.
Qed.

(* add_global / add_local_memory: the new item is pushed at the end with stored id = its position, nothing else moves *)
Theorem add_global_appends s fp t e s1 r :
  astep s (OAddGlobal fp t e) = Ok (s1, r) ->
  exists t', gty_conv t = Ok t'
  /\ s_items (m_g (a_m s1)) = s_items (m_g (a_m s)) ++ [mkItem (lenN (s_items (m_g (a_m s)))) None false fp]
  /\ r = Some (lenN (s_items (m_g (a_m s))))
  /\ plookup (a_gpay s1) fp = Some (mkGP t' (Some e))
  /\ m_f (a_m s1) = m_f (a_m s) /\ m_m (a_m s1) = m_m (a_m s) /\ m_imports (a_m s1) = m_imports (a_m s)
  /\ a_mpay s1 = a_mpay s /\ a_data s1 = a_data s /\ a_exports s1 = a_exports s.
Proof.
  cbn [astep]. destruct (gty_conv t) as [t'|]; [|discriminate]. cbn [step]. intros H. inversion H; subst; clear H.
  exists t'. cbn. rewrite N.eqb_refl. repeat split; reflexivity.
Qed.
Theorem add_memory_appends s fp t s1 r :
  astep s (OAddMem fp t) = Ok (s1, r) ->
  s_items (m_m (a_m s1)) = s_items (m_m (a_m s)) ++ [mkItem (lenN (s_items (m_m (a_m s)))) None false fp]
  /\ r = Some (lenN (s_items (m_m (a_m s))))
  /\ plookup (a_mpay s1) fp = Some t
  /\ m_f (a_m s1) = m_f (a_m s) /\ m_g (a_m s1) = m_g (a_m s) /\ m_imports (a_m s1) = m_imports (a_m s)
  /\ a_gpay s1 = a_gpay s /\ a_data s1 = a_data s /\ a_exports s1 = a_exports s.
Proof.
  cbn [astep step]. intros H. inversion H; subst; clear H. cbn. rewrite N.eqb_refl. repeat split; reflexivity.
Qed.
Theorem add_data_appends s d s1 r :
  astep s (OAddData d) = Ok (s1, r) ->
  a_data s1 = a_data s ++ [d] /\ r = Some (lenN (a_data s))
  /\ a_m s1 = a_m s /\ a_gpay s1 = a_gpay s /\ a_mpay s1 = a_mpay s /\ a_exports s1 = a_exports s.
Proof. cbn [astep]. intros H. inversion H; subst. cbn. repeat split; reflexivity. Qed.
Theorem add_export_appends s k n id s1 r :
  astep s (OAddExport k n id) = Ok (s1, r) ->
  a_exports s1 = a_exports s ++ [mkEx n k id false]
  /\ a_m s1 = a_m s /\ a_gpay s1 = a_gpay s /\ a_mpay s1 = a_mpay s /\ a_data s1 = a_data s.
Proof. cbn [astep]. intros H. inversion H; subst. cbn. repeat split; reflexivity. Qed.

(* ------------------------------------------------------------------------------------------ *)
(* C. mod_global_init_expr changes exactly one initialiser *)
Lemma plookup_pset_same {A} (t : list (N * A)) k v : plookup (pset t k v) k = Some v.
Proof. unfold pset. cbn [plookup]. rewrite N.eqb_refl. reflexivity. Qed.
Lemma plookup_filter_neq {A} (t : list (N * A)) a k :
  k <> a -> plookup (filter (fun kv => negb (N.eqb (fst kv) a)) t) k = plookup t k.
Proof.
  intros Hne. induction t as [|[k' v] t IH]; [reflexivity|].
  cbn [filter fst]. destruct (N.eqb_spec k' a) as [->|Hk]; cbn [negb].
  - cbn [plookup]. destruct (N.eqb_spec k a); [contradiction|]. exact IH.
  - cbn [plookup]. destruct (N.eqb k k'); [reflexivity|exact IH].
Qed.
Lemma plookup_pset_other {A} (t : list (N * A)) k k' v : k' <> k -> plookup (pset t k v) k' = plookup t k'.
Proof.
  intros Hne. unfold pset. cbn [plookup]. destruct (N.eqb_spec k' k); [contradiction|]. apply plookup_filter_neq. exact Hne.
Qed.

Theorem mod_init_changes_only_that_global s g e s1 r :
  astep s (OModInit g e) = Ok (s1, r) ->
  exists it p,
    nthN (s_items (m_g (a_m s))) g = Some it /\ is_local it = true
    /\ plookup (a_gpay s) (it_fp it) = Some p
    /\ plookup (a_gpay s1) (it_fp it) = Some (mkGP (gp_ty p) (Some e))                 (* same type, the new initialiser *)
    /\ (forall fp, fp <> it_fp it -> plookup (a_gpay s1) fp = plookup (a_gpay s) fp)  (* every other global as before *)
    /\ a_m s1 = a_m s /\ a_mpay s1 = a_mpay s /\ a_data s1 = a_data s /\ a_exports s1 = a_exports s /\ r = None.
Proof.
  cbn [astep]. destruct (nthN _ g) as [it|] eqn:En; [|discriminate].
  destruct (is_local it) eqn:El; [|discriminate]. destruct (plookup _ _) as [p|] eqn:Ep; [|discriminate].
  intros H. inversion H; subst; clear H. exists it, p. cbn.
  repeat split; try reflexivity; try assumption.
  - apply plookup_pset_same.
  - intros fp Hne. apply plookup_pset_other. exact Hne.
Qed.

(* at the level of the encoded module: every emitted global other than the one whose initialiser was replaced is
   emitted exactly as before, and so is every import, memory, data segment, export and reference *)
Theorem mod_init_emission s g e s1 r dc sites :
  astep s (OModInit g e) = Ok (s1, r) ->
  exists fp, (exists it, nthN (s_items (m_g (a_m s))) g = Some it /\ it_fp it = fp) /\
  forall mf mg,
    (forall it', it_fp it' <> fp -> emit_global (a_gpay s1) mf mg it' = emit_global (a_gpay s) mf mg it')
    /\ (forall i, i_fp i <> fp \/ i_sp i <> 1 -> emit_imp s1 i = emit_imp s i)
    /\ (forall o o', aencode s dc sites = Ok o -> aencode s1 dc sites = Ok o' ->
          ob_funcs o' = ob_funcs o /\ ob_mems o' = ob_mems o /\ ob_data o' = ob_data o
          /\ ob_exports o' = ob_exports o /\ ob_sites o' = ob_sites o /\ ob_dcount o' = ob_dcount o
          /\ length (ob_globals o') = length (ob_globals o)).
Proof.
  intros H. destruct (mod_init_changes_only_that_global _ _ _ _ _ H) as (it & p & Hn & Hl & Hp & Hp1 & Hoth & Hm & Hmp & Hd & He & _).
  exists (it_fp it). split; [exists it; split; [exact Hn|reflexivity]|]. intros mf mg. split; [|split].
  - intros it' Hne. unfold emit_global. rewrite (Hoth _ Hne). reflexivity.
  - intros i Hi. unfold emit_imp. rewrite Hmp.
    destruct (N.eqb_spec (i_sp i) 1) as [E1|E1]; [|reflexivity].
    destruct Hi as [Hi|Hi]; [|contradiction]. rewrite (Hoth _ Hi). reflexivity.
  - intros o o'. unfold aencode. rewrite Hm, Hmp, Hd, He.
    destruct (index_space (m_f (a_m s))) as [[lf mf']|]; [|discriminate].
    destruct (index_space (m_g (a_m s))) as [[lg mg']|]; [|discriminate].
    destruct (index_space (m_m (a_m s))) as [[lm mm']|]; [|discriminate].
    repeat match goal with
           | |- context [match rmap ?f ?l with _ => _ end] => let E := fresh "E" in destruct (rmap f l) eqn:E
           end; try (intros; discriminate).
    intros Ho Ho'. inversion Ho; inversion Ho'; subst; cbn.
    repeat split; try reflexivity.
    repeat match goal with H : rmap (emit_global _ _ _) _ = Ok _ |- _ => apply rmap_length in H end. congruence.
Qed.

(* ------------------------------------------------------------------------------------------ *)
(* D. emission: the sections of the output are the stored requests *)
Definition dseg_bytes (d : dseg) := match d with DPassive b | DActive _ _ b => b end.
Definition odseg_bytes (d : odseg) := match d with OPassive b | OActive _ _ b => b end.
Definition dseg_passive (d : dseg) := match d with DPassive _ => true | _ => false end.
Definition odseg_passive (d : odseg) := match d with OPassive _ => true | _ => false end.

Lemma emit_data_exact mf mg mm d od : emit_data mf mg mm d = Ok od ->
  odseg_bytes od = dseg_bytes d /\ odseg_passive od = dseg_passive d
  /\ match d, od with
     | DActive mem off _, OActive q off' _ => lookup mm mem = Some q /\ exists offx, fix_init mf mg off = Ok offx /\ off' = enc_init offx
     | DPassive _, OPassive _ => True
     | _, _ => False
     end.
Proof.
  destruct d as [b|mem off b]; cbn [emit_data]; intros H.
  - inversion H; subst. repeat split.
  - destruct (fix_init mf mg off) as [offx|] eqn:E; [|discriminate]. destruct (lookup mm mem) as [q|] eqn:L; [|discriminate].
    inversion H; subst. cbn. repeat split. exists offx. split; reflexivity.
Qed.

(* every data segment of the state is in the output at its own position, payload bytes and kind intact; the
   output has no other segment *)
Theorem data_section_exact s dc sites o :
  aencode s dc sites = Ok o ->
  length (ob_data o) = length (a_data s)
  /\ forall k d, nthN (a_data s) k = Some d ->
       exists od, nthN (ob_data o) k = Some od /\ odseg_bytes od = dseg_bytes d /\ odseg_passive od = dseg_passive d.
Proof.
  unfold aencode.
  destruct (index_space (m_f (a_m s))) as [[lf mf]|]; [|discriminate].
  destruct (index_space (m_g (a_m s))) as [[lg mg]|]; [|discriminate].
  destruct (index_space (m_m (a_m s))) as [[lm mm]|]; [|discriminate].
  destruct (rmap (emit_imp s) _) as [oi|]; [|discriminate].
  destruct (rmap (emit_global _ _ _) _) as [og|]; [|discriminate].
  destruct (rmap (emit_mem _) _) as [om|]; [|discriminate].
  destruct (rmap (emit_data mf mg mm) _) as [od|] eqn:D; [|discriminate].
  destruct (rmap (emit_export _ _ _) _) as [oe|]; [|discriminate].
  destruct (rmap (emit_site _ _ _) _) as [os|]; [|discriminate].
  intros H. inversion H; subst; cbn. split; [apply (rmap_length _ _ _ D)|].
  intros k d Hn. unfold nthN in *. destruct (rmap_nth _ _ _ _ _ D Hn) as (y & Hy & Ey).
  exists y. split; [exact Hy|]. destruct (emit_data_exact _ _ _ _ _ Ey) as (B & P & _). split; assumption.
Qed.

(* the export section: the live exports in order, names and kinds intact (indices go through the id maps) *)
Theorem export_section_exact s dc sites o :
  aencode s dc sites = Ok o ->
  map (fun t => (fst (fst t), snd (fst t))) (ob_exports o)
  = map (fun e => (ex_name e, ex_kind e)) (filter (fun e => negb (ex_del e)) (a_exports s)).
Proof.
  unfold aencode.
  destruct (index_space (m_f (a_m s))) as [[lf mf]|]; [|discriminate].
  destruct (index_space (m_g (a_m s))) as [[lg mg]|]; [|discriminate].
  destruct (index_space (m_m (a_m s))) as [[lm mm]|]; [|discriminate].
  destruct (rmap (emit_imp s) _) as [oi|]; [|discriminate].
  destruct (rmap (emit_global _ _ _) _) as [og|]; [|discriminate].
  destruct (rmap (emit_mem _) _) as [om|]; [|discriminate].
  destruct (rmap (emit_data mf mg mm) _) as [od|]; [|discriminate].
  destruct (rmap (emit_export _ _ _) _) as [oe|] eqn:E; [|discriminate].
  destruct (rmap (emit_site _ _ _) _) as [os|]; [|discriminate].
  intros H. inversion H; subst; cbn.
  eapply rmap_map; [|exact E]. intros x y. unfold emit_export.
  destruct (N.eqb_spec (ex_kind x) 0) as [E0|E0].
  - destruct (lookup mf (ex_idx x)); [|discriminate]. intros Hy. inversion Hy; subst. cbn. rewrite E0. reflexivity.
  - destruct (N.eqb_spec (ex_kind x) 1) as [E1|E1].
    + destruct (lookup mg (ex_idx x)); [|discriminate]. intros Hy. inversion Hy; subst. cbn. rewrite E1. reflexivity.
    + destruct (N.eqb_spec (ex_kind x) 2) as [E2|E2].
      * destruct (lookup mm (ex_idx x)); [|discriminate]. intros Hy. inversion Hy; subst. cbn. rewrite E2. reflexivity.
      * intros Hy. inversion Hy; subst. reflexivity.
Qed.

(* every global of the output is a live local item of the index space, with its stored type and the encoding
   of its stored initialiser after the id maps; every memory likewise with its stored limits *)
Theorem global_section_exact s dc sites o :
  aencode s dc sites = Ok o ->
  exists lg mf mg, (exists l, index_space (m_f (a_m s)) = Ok (l, mf)) /\ index_space (m_g (a_m s)) = Ok (lg, mg) /\
  let live := filter (fun i => is_local i && negb (it_del i)) lg in
  length (ob_globals o) = length live /\
  forall k it, nth_error live k = Some it ->
    exists t e e', plookup (a_gpay s) (it_fp it) = Some (mkGP t (Some e)) /\ fix_init mf mg e = Ok e'
                   /\ nth_error (ob_globals o) k = Some (mkOG t (enc_init e')).
Proof.
  unfold aencode.
  destruct (index_space (m_f (a_m s))) as [[lf mf]|]; [|discriminate].
  destruct (index_space (m_g (a_m s))) as [[lg mg]|]; [|discriminate].
  destruct (index_space (m_m (a_m s))) as [[lm mm]|]; [|discriminate].
  destruct (rmap (emit_imp s) _) as [oi|]; [|discriminate].
  destruct (rmap (emit_global _ _ _) _) as [og|] eqn:G; [|discriminate].
  destruct (rmap (emit_mem _) _) as [om|]; [|discriminate].
  destruct (rmap (emit_data mf mg mm) _) as [od|]; [|discriminate].
  destruct (rmap (emit_export _ _ _) _) as [oe|]; [|discriminate].
  destruct (rmap (emit_site _ _ _) _) as [os|]; [|discriminate].
  intros H. inversion H; subst; cbn. exists lg, mf, mg. split; [exists lf; reflexivity|]. split; [reflexivity|].
  split; [apply (rmap_length _ _ _ G)|].
  intros k it Hn. destruct (rmap_nth _ _ _ _ _ G Hn) as (y & Hy & Ey).
  unfold emit_global in Ey. destruct (plookup (a_gpay s) (it_fp it)) as [[t [e|]]|]; try discriminate.
  destruct (fix_init mf mg e) as [e'|] eqn:F; [|discriminate]. inversion Ey; subst.
  exists t, e, e'. repeat split; assumption.
Qed.
Theorem memory_section_exact s dc sites o :
  aencode s dc sites = Ok o ->
  exists lm mm, index_space (m_m (a_m s)) = Ok (lm, mm) /\
  length (ob_mems o) = length (filter is_local lm) /\
  forall k it, nth_error (filter is_local lm) k = Some it ->
    exists t, plookup (a_mpay s) (it_fp it) = Some t /\ nth_error (ob_mems o) k = Some t.
Proof.
  unfold aencode.
  destruct (index_space (m_f (a_m s))) as [[lf mf]|]; [|discriminate].
  destruct (index_space (m_g (a_m s))) as [[lg mg]|]; [|discriminate].
  destruct (index_space (m_m (a_m s))) as [[lm mm]|]; [|discriminate].
  destruct (rmap (emit_imp s) _) as [oi|]; [|discriminate].
  destruct (rmap (emit_global _ _ _) _) as [og|]; [|discriminate].
  destruct (rmap (emit_mem _) _) as [om|] eqn:M; [|discriminate].
  destruct (rmap (emit_data mf mg mm) _) as [od|]; [|discriminate].
  destruct (rmap (emit_export _ _ _) _) as [oe|]; [|discriminate].
  destruct (rmap (emit_site _ _ _) _) as [os|]; [|discriminate].
  intros H. inversion H; subst; cbn. exists lm, mm. split; [reflexivity|]. split; [apply (rmap_length _ _ _ M)|].
  intros k it Hn. destruct (rmap_nth _ _ _ _ _ M Hn) as (y & Hy & Ey).
  unfold emit_mem in Ey. destruct (plookup (a_mpay s) (it_fp it)) as [t|]; [|discriminate]. inversion Ey; subst.
  exists y. split; [reflexivity|exact Hy].
Qed.

(* ------------------------------------------------------------------------------------------ *)
(* E. reflection: [agree c = true] means the observation *is* the model's output *)
Lemma leqb_eq {A} (e : A -> A -> bool) : (forall a b, e a b = true -> a = b) -> forall l l', leqb e l l' = true -> l = l'.
Proof.
  intros He. induction l as [|a l IH]; intros [|b l'] H; cbn in H; try discriminate; [reflexivity|].
  apply andb_true_iff in H as [H1 H2]. f_equal; [apply He; exact H1 | apply IH; exact H2].
Qed.
Lemma opt_eqb_eq {A} (e : A -> A -> bool) : (forall a b, e a b = true -> a = b) -> forall x y, opt_eqb e x y = true -> x = y.
Proof. intros He [a|] [b|] H; cbn in H; try discriminate; [f_equal; apply He; exact H | reflexivity]. Qed.
Lemma Neqb_eq a b : N.eqb a b = true -> a = b. Proof. apply N.eqb_eq. Qed.
Lemma Zeqb_eq a b : Z.eqb a b = true -> a = b. Proof. apply Z.eqb_eq. Qed.
Lemma beqb_eq a b : Bool.eqb a b = true -> a = b. Proof. apply eqb_prop. Qed.
Lemma optN_eqb_eq a b : optN_eqb a b = true -> a = b.
Proof. destruct a, b; cbn; intros H; try discriminate; [apply N.eqb_eq in H; subst|]; reflexivity. Qed.
Lemma gty_eqb_eq a b : gty_eqb a b = true -> a = b.
Proof.
  destruct a, b. unfold gty_eqb. cbn. intros H. apply andb_true_iff in H as [H H3]. apply andb_true_iff in H as [H1 H2].
  apply N.eqb_eq in H1. apply eqb_prop in H2. apply eqb_prop in H3. subst. reflexivity.
Qed.
Lemma mty_eqb_eq a b : mty_eqb a b = true -> a = b.
Proof.
  destruct a, b. unfold mty_eqb. cbn. intros H.
  apply andb_true_iff in H as [H H5]. apply andb_true_iff in H as [H H4]. apply andb_true_iff in H as [H H3]. apply andb_true_iff in H as [H1 H2].
  apply eqb_prop in H1. apply eqb_prop in H2. apply N.eqb_eq in H3.
  apply (opt_eqb_eq _ Neqb_eq) in H4. apply (opt_eqb_eq _ Neqb_eq) in H5. subst. reflexivity.
Qed.
Lemma cop_eqb_eq a b : cop_eqb a b = true -> a = b.
Proof.
  destruct a, b; cbn; intros H; try discriminate; first [apply Z.eqb_eq in H | apply N.eqb_eq in H]; subst; reflexivity.
Qed.
Lemma oglobal_eqb_eq a b : oglobal_eqb a b = true -> a = b.
Proof.
  destruct a, b. unfold oglobal_eqb. cbn. intros H. apply andb_true_iff in H as [H1 H2].
  apply gty_eqb_eq in H1. apply (leqb_eq _ cop_eqb_eq) in H2. subst. reflexivity.
Qed.
Lemma odseg_eqb_eq a b : odseg_eqb a b = true -> a = b.
Proof.
  destruct a, b; cbn; intros H; try discriminate.
  - apply (leqb_eq _ Neqb_eq) in H. subst. reflexivity.
  - apply andb_true_iff in H as [H H3]. apply andb_true_iff in H as [H1 H2].
    apply N.eqb_eq in H1. apply (leqb_eq _ cop_eqb_eq) in H2. apply (leqb_eq _ Neqb_eq) in H3. subst. reflexivity.
Qed.
Lemma idesc_eqb_eq a b : idesc_eqb a b = true -> a = b.
Proof.
  destruct a, b; cbn; intros H; try discriminate; [reflexivity | apply gty_eqb_eq in H | apply mty_eqb_eq in H]; subst; reflexivity.
Qed.
Lemma oimp_eqb_eq a b : oimp_eqb a b = true -> a = b.
Proof.
  destruct a, b. unfold oimp_eqb. cbn. intros H. apply andb_true_iff in H as [H H3]. apply andb_true_iff in H as [H1 H2].
  apply N.eqb_eq in H1. apply N.eqb_eq in H2. apply idesc_eqb_eq in H3. subst. reflexivity.
Qed.
Lemma triple_eqb_eq a b : triple_eqb a b = true -> a = b.
Proof.
  destruct a as [[a1 a2] a3], b as [[b1 b2] b3]. unfold triple_eqb. cbn. intros H.
  apply andb_true_iff in H as [H H3]. apply andb_true_iff in H as [H1 H2].
  apply N.eqb_eq in H1. apply N.eqb_eq in H2. apply N.eqb_eq in H3. subst. reflexivity.
Qed.
Lemma pair_eqb_eq a b : pair_eqb a b = true -> a = b.
Proof.
  destruct a, b. unfold pair_eqb. cbn. intros H. apply andb_true_iff in H as [H1 H2].
  apply N.eqb_eq in H1. apply N.eqb_eq in H2. subst. reflexivity.
Qed.
Lemma aobs_eqb_eq a b : aobs_eqb a b = true -> a = b.
Proof.
  destruct a, b. unfold aobs_eqb. cbn. intros H.
  repeat match type of H with (_ && _) = true => let H' := fresh "H" in apply andb_true_iff in H as [H H'] end.
  apply (leqb_eq _ oimp_eqb_eq) in H. apply (leqb_eq _ Neqb_eq) in H6. apply (leqb_eq _ oglobal_eqb_eq) in H5.
  apply (leqb_eq _ mty_eqb_eq) in H4. apply (leqb_eq _ odseg_eqb_eq) in H3. apply (leqb_eq _ triple_eqb_eq) in H2.
  apply (leqb_eq _ pair_eqb_eq) in H1. apply (opt_eqb_eq _ Neqb_eq) in H0. subst. reflexivity.
Qed.

Theorem agree_reflect (c : acase) : agree c = true -> model_out c = (ao_rets c, ao_api_panic c, ao_enc c).
Proof.
  unfold agree. destruct (model_out c) as [[rets p] e]. intros H.
  apply andb_true_iff in H as [H H3]. apply andb_true_iff in H as [H1 H2].
  apply (leqb_eq _ optN_eqb_eq) in H1. apply eqb_prop in H2. apply (opt_eqb_eq _ aobs_eqb_eq) in H3. subst. reflexivity.
Qed.

(* Consequently everything section D says about the model's output is true of the *observed* output of a case
   on which the implementation agrees with the model. *)
Theorem agree_observed_is_encoded (c : acase) o :
  agree c = true -> ao_enc c = Some o ->
  exists s rets, arun (abase c) (ah_ops c) [] = (s, rets, false) /\ aencode s (ab_dcount c) (ah_sites c) = Ok o
                 /\ rets = ao_rets c /\ ao_api_panic c = false.
Proof.
  intros Ha Ho. apply agree_reflect in Ha. unfold model_out in Ha.
  destruct (arun (abase c) (ah_ops c) []) as [[s rets] p] eqn:E.
  destruct p; inversion Ha as [[H1 H2 H3]]; [rewrite Ho in H3; discriminate|].
  exists s, rets. rewrite Ho in H3.
  destruct (aencode s (ab_dcount c) (ah_sites c)) as [e|]; inversion H3; subst. repeat split; reflexivity.
Qed.

(* ------------------------------------------------------------------------------------------ *)
(* F. end to end for data segments, all histories: whatever else the history does (additions, deletions, import
   additions, initialiser replacements, in any number), a segment added by add_data is found in the observed
   output at the returned id with exactly the requested payload bytes and kind. *)
Lemma arun_app : forall h1 h2 s rets,
  arun s (h1 ++ h2) rets = match arun s h1 rets with (s1, r1, false) => arun s1 h2 r1 | x => x end.
Proof.
  induction h1 as [|o h1 IH]; intros h2 s rets; cbn [app arun]; [reflexivity|].
  destruct (astep s o) as [[s1 r]|]; [apply IH | reflexivity].
Qed.
Lemma arun_rets : forall h s rets s' rets' p, arun s h rets = (s', rets', p) ->
  exists l, rets' = rets ++ l /\ (p = false -> length l = length h).
Proof.
  induction h as [|o h IH]; intros s rets s' rets' p H; cbn [arun] in H.
  - inversion H; subst. exists []. rewrite app_nil_r. split; reflexivity.
  - destruct (astep s o) as [[s1 r]|].
    + destruct (IH _ _ _ _ _ H) as (l & Hl & Hlen). exists (r :: l). rewrite Hl, <- app_assoc. split; [reflexivity|].
      intros Hp. cbn. rewrite (Hlen Hp). reflexivity.
    + inversion H; subst. exists []. rewrite app_nil_r. split; [reflexivity|discriminate].
Qed.

Theorem observed_data_exact (c : acase) o h1 d h2 :
  agree c = true -> ao_enc c = Some o -> ah_ops c = h1 ++ OAddData d :: h2 ->
  exists r od, nth_error (ao_rets c) (length h1) = Some (Some r)
               /\ nthN (ob_data o) r = Some od
               /\ odseg_bytes od = dseg_bytes d /\ odseg_passive od = dseg_passive d.
Proof.
  intros Ha Ho Hh. destruct (agree_observed_is_encoded c o Ha Ho) as (s & rets & Hrun & Henc & Hr & _).
  rewrite Hh, arun_app in Hrun.
  destruct (arun (abase c) h1 []) as [[s1 r1] p1] eqn:E1. destruct p1; [inversion Hrun|].
  destruct (arun_rets _ _ _ _ _ _ E1) as (l1 & Hl1 & Hlen1). cbn [app] in Hl1. subst r1. specialize (Hlen1 eq_refl).
  cbn [arun] in Hrun. destruct (astep s1 (OAddData d)) as [[s2 r]|] eqn:E2; [|inversion Hrun].
  destruct (add_data_id_designates _ _ _ _ _ _ _ _ E2 Hrun) as (Hret & Hnth).
  destruct (arun_rets _ _ _ _ _ _ Hrun) as (l2 & Hl2 & _).
  destruct (data_section_exact _ _ _ _ Henc) as (_ & Hd). destruct (Hd _ _ Hnth) as (od & Hod & Hb & Hp).
  exists (lenN (a_data s1)), od. repeat split; try assumption.
  rewrite <- Hr, Hl2, Hret, <- app_assoc. cbn [app]. rewrite <- Hlen1.
  clear. induction l1; cbn; auto.
Qed.

(* ------------------------------------------------------------------------------------------ *)
(* G. add_global end to end on a module whose global ids are not pending recalculation (every freshly parsed module,
   and every module to which only add_global / add_data / exports / mod_global_init_expr were applied):
   the encoded module is the old one with exactly one more global, of exactly the requested type and initial value,
   and the returned id is the index the id map sends it to. *)
Definition ids_pos (l : list item) : Prop := map it_id l = map N.of_nat (seq 0 (length l)).

Lemma seq_N_nodup n : NoDup (map N.of_nat (seq 0 n)).
Proof.
  apply Injective_map_NoDup; [|apply seq_NoDup]. intros a b H. apply Nat2N.inj. exact H.
Qed.
Lemma ids_pos_nodup l : ids_pos l -> NoDup (map it_id l).
Proof. unfold ids_pos. intros ->. apply seq_N_nodup. Qed.
Lemma ids_pos_app l fp imp d : ids_pos l -> ids_pos (l ++ [mkItem (lenN l) imp d fp]).
Proof.
  unfold ids_pos, lenN. intros H. rewrite map_app, app_length, H. cbn [length map it_id].
  rewrite Nat.add_1_r, seq_S, map_app. reflexivity.
Qed.
Lemma ids_pos_nth l p it : ids_pos l -> nth_error l p = Some it -> it_id it = N.of_nat p.
Proof.
  unfold ids_pos. intros H Hn.
  assert (E : nth_error (map it_id l) p = Some (it_id it)) by (rewrite nth_error_map, Hn; reflexivity).
  rewrite H, nth_error_map in E.
  assert (Hp : (p < length l)%nat) by (apply nth_error_Some; rewrite Hn; discriminate).
  rewrite nth_error_nth' with (d := 0%nat) in E by (rewrite seq_length; exact Hp). rewrite seq_nth in E by exact Hp.
  cbn in E. inversion E. reflexivity.
Qed.

Lemma nodup_app_l {A} : forall (l l' : list A), NoDup (l ++ l') -> NoDup l.
Proof.
  induction l as [|a l IH]; intros l' H; [constructor|]. cbn in H. inversion H; subst. constructor.
  - intros Hin. apply H2. apply in_or_app. left. exact Hin.
  - apply (IH l'). exact H3.
Qed.

Definition extends (m m' : list (N * N)) : Prop := forall g q, lookup m g = Some q -> lookup m' g = Some q.

Lemma mapping_extends l x : NoDup (map it_id (l ++ [x])) -> extends (mapping l) (mapping (l ++ [x])).
Proof.
  intros Hnd g q H.
  assert (Hnd0 : NoDup (map it_id l)) by (rewrite map_app in Hnd; apply nodup_app_l in Hnd; exact Hnd).
  destruct (in_dec N.eq_dec g (map it_id l)) as [Hin|Hni].
  - apply in_map_iff in Hin as (it & Hid & Hin). apply In_nth_error in Hin as (p & Hp).
    pose proof (ReidxProofs.mapping_pos l p it Hnd0 Hp) as M. rewrite Hid, H in M. inversion M; subst q.
    rewrite <- Hid. apply (ReidxProofs.mapping_pos (l ++ [x]) p it Hnd). rewrite nth_error_app1; [exact Hp|].
    apply nth_error_Some. rewrite Hp. discriminate.
  - rewrite (ReidxProofs.mapping_absent l g Hni) in H. discriminate.
Qed.

Lemma fix_init_extends mf mg mg' : extends mg mg' -> forall e e', fix_init mf mg e = Ok e' -> fix_init mf mg' e = Ok e'.
Proof.
  intros Hx. induction e as [|i e IH]; intros e' H; cbn [fix_init] in *; [exact H|].
  destruct (fix_instr mf mg i) as [i'|] eqn:Ei; [|discriminate].
  destruct (fix_init mf mg e) as [r|] eqn:Er; [|discriminate]. inversion H; subst e'.
  rewrite (IH r eq_refl).
  assert (Ei' : fix_instr mf mg' i = Ok i').
  { destruct i as [v|g|f|ht]; cbn [fix_instr] in *; try exact Ei.
    destruct (lookup mg g) as [q|] eqn:L; [|discriminate]. rewrite (Hx g q L). exact Ei. }
  rewrite Ei'. reflexivity.
Qed.
Lemma rmap_mono {A B} (f f' : A -> res B) : (forall x y, f x = Ok y -> f' x = Ok y) -> forall l r, rmap f l = Ok r -> rmap f' l = Ok r.
Proof.
  intros Hf. induction l as [|a l IH]; intros r H; cbn [rmap] in *; [exact H|].
  destruct (f a) as [y|] eqn:Ea; [|discriminate]. destruct (rmap f l) as [r0|] eqn:El; [|discriminate]. inversion H; subst r.
  rewrite (Hf a y Ea), (IH r0 eq_refl). reflexivity.
Qed.
Lemma rmap_app {A B} (f : A -> res B) : forall l1 l2 r1 r2, rmap f l1 = Ok r1 -> rmap f l2 = Ok r2 -> rmap f (l1 ++ l2) = Ok (r1 ++ r2).
Proof.
  induction l1 as [|a l1 IH]; intros l2 r1 r2 H1 H2; cbn [rmap app] in *; [inversion H1; subst; exact H2|].
  destruct (f a) as [y|]; [|discriminate]. destruct (rmap f l1) as [r0|] eqn:E; [|discriminate]. inversion H1; subst r1.
  rewrite (IH l2 r0 r2 eq_refl H2). reflexivity.
Qed.

Lemma index_space_norecalc x : s_recalc x = false -> index_space x = Ok (s_items x, mapping (s_items x)).
Proof. unfold index_space. intros ->. reflexivity. Qed.

Definition fresh_fp (s : astate) (fp : N) : Prop :=
  (forall it, In it (s_items (m_g (a_m s))) -> it_fp it <> fp) /\ (forall i, In i (m_imports (a_m s)) -> i_fp i <> fp).

Theorem add_global_end_to_end s fp t e s1 r dc sites o :
  s_recalc (m_g (a_m s)) = false -> ids_pos (s_items (m_g (a_m s))) -> fresh_fp s fp ->
  astep s (OAddGlobal fp t e) = Ok (s1, r) ->
  aencode s dc sites = Ok o ->
  forall lf mf e', index_space (m_f (a_m s)) = Ok (lf, mf) ->
  fix_init mf (mapping (s_items (m_g (a_m s1)))) e = Ok e' ->
  exists t', gty_conv t = Ok t'
  /\ r = Some (lenN (s_items (m_g (a_m s))))
  /\ lookup (mapping (s_items (m_g (a_m s1)))) (lenN (s_items (m_g (a_m s)))) = Some (lenN (s_items (m_g (a_m s))))
  /\ aencode s1 dc sites
     = Ok (mkO (ob_imports o) (ob_funcs o) (ob_globals o ++ [mkOG t' (enc_init e')]) (ob_mems o) (ob_data o)
               (ob_exports o) (ob_sites o) (ob_dcount o))
  /\ s_recalc (m_g (a_m s1)) = false /\ ids_pos (s_items (m_g (a_m s1))).
Proof.
  intros Hrc Hip [Hfr1 Hfr2] Hstep Henc lf mf e' Hf Hfix.
  destruct (add_global_appends _ _ _ _ _ _ Hstep) as (t' & Ht & Hitems & Hr & Hpay & Hmf & Hmm & Himp & Hmpay & Hdata & Hexp).
  exists t'. split; [exact Ht|]. split; [exact Hr|].
  set (items := s_items (m_g (a_m s))) in *.
  set (new := mkItem (lenN items) None false fp) in *.
  assert (Hip1 : ids_pos (items ++ [new])) by (apply ids_pos_app; exact Hip).
  assert (Hnd1 : NoDup (map it_id (items ++ [new]))) by (apply ids_pos_nodup; exact Hip1).
  assert (Hrc1 : s_recalc (m_g (a_m s1)) = false).
  { cbn [astep] in Hstep. rewrite Ht in Hstep. cbn [step] in Hstep. inversion Hstep; subst. cbn. exact Hrc. }
  assert (Hgp1 : a_gpay s1 = (fp, mkGP t' (Some e)) :: a_gpay s).
  { cbn [astep] in Hstep. rewrite Ht in Hstep. cbn [step] in Hstep. inversion Hstep; subst. reflexivity. }
  assert (Hnew : lookup (mapping (items ++ [new])) (lenN items) = Some (lenN items)).
  { pose proof (ReidxProofs.mapping_pos (items ++ [new]) (length items) new Hnd1) as M.
    rewrite nth_error_app2, Nat.sub_diag in M by lia. specialize (M eq_refl). exact M. }
  rewrite Hitems. split; [exact Hnew|]. split; [|split; [exact Hrc1 | exact Hip1]].
  (* the encoding *)
  unfold aencode in *. rewrite Hmf, Hmm, Hf in *.
  rewrite (index_space_norecalc _ Hrc1), Hitems. rewrite (index_space_norecalc _ Hrc) in Henc. fold items in Henc.
  destruct (index_space (m_m (a_m s))) as [[lm mm]|]; [|discriminate].
  set (mg := mapping items) in *. set (mg1 := mapping (items ++ [new])) in *.
  assert (Hext : extends mg mg1) by (apply mapping_extends; exact Hnd1).
  destruct (rmap (emit_imp s) _) as [oi|] eqn:Ei; [|discriminate].
  destruct (rmap (emit_global (a_gpay s) mf mg) _) as [og|] eqn:Eg; [|discriminate].
  destruct (rmap (emit_mem (a_mpay s)) _) as [om|] eqn:Em; [|discriminate].
  destruct (rmap (emit_data mf mg mm) _) as [od|] eqn:Ed; [|discriminate].
  destruct (rmap (emit_export mf mg mm) _) as [oe|] eqn:Ee; [|discriminate].
  destruct (rmap (emit_site mf mg mm) _) as [os|] eqn:Es; [|discriminate].
  inversion Henc; subst o; clear Henc. cbn [ob_imports ob_funcs ob_globals ob_mems ob_data ob_exports ob_sites ob_dcount].
  (* imports *)
  assert (Ei1 : rmap (emit_imp s1) (filter (fun i => negb (i_del i)) (m_imports (a_m s1))) = Ok oi).
  { rewrite Himp, <- Ei. apply rmap_ext_in. intros i Hi. apply filter_In in Hi as [Hi _].
    unfold emit_imp. rewrite Hmpay, Hgp1. destruct (N.eqb (i_sp i) 1); [|reflexivity].
    cbn [plookup]. destruct (N.eqb_spec (i_fp i) fp) as [Ef|_]; [exfalso; exact (Hfr2 i Hi Ef)|reflexivity]. }
  rewrite Ei1.
  (* globals *)
  assert (Eg1 : rmap (emit_global (a_gpay s1) mf mg1) (filter (fun i => is_local i && negb (it_del i)) (items ++ [new]))
                = Ok (og ++ [mkOG t' (enc_init e')])).
  { rewrite filter_app. apply rmap_app.
    - rewrite <- Eg.
      transitivity (rmap (emit_global (a_gpay s) mf mg1) (filter (fun i => is_local i && negb (it_del i)) items)).
      + apply rmap_ext_in. intros it Hit. apply filter_In in Hit as [Hit _]. unfold emit_global. rewrite Hgp1. cbn [plookup].
        destruct (N.eqb_spec (it_fp it) fp) as [Ef|_]; [exfalso; exact (Hfr1 it Hit Ef)|reflexivity].
      + rewrite Eg. eapply rmap_mono; [|exact Eg]. intros it y. unfold emit_global.
        destruct (plookup (a_gpay s) (it_fp it)) as [[tt [ee|]]|]; try discriminate.
        destruct (fix_init mf mg ee) as [ee'|] eqn:Ex; [|discriminate]. rewrite (fix_init_extends _ _ _ Hext _ _ Ex). auto.
    - cbn [filter new is_local it_imp it_del andb negb rmap]. unfold emit_global. rewrite Hgp1. cbn [plookup it_fp]. rewrite N.eqb_refl.
      fold items new in Hfix. rewrite Hitems in Hfix. fold mg1 in Hfix. rewrite Hfix. reflexivity. }
  rewrite Eg1.
  (* memories, data, exports, sites *)
  rewrite Hmpay, Em, Hdata.
  rewrite (rmap_mono (emit_data mf mg mm) (emit_data mf mg1 mm)) with (r := od); [|
    intros d y; unfold emit_data; destruct d as [b|mem off b]; [auto|];
    destruct (fix_init mf mg off) as [off'|] eqn:Ex; [|discriminate]; rewrite (fix_init_extends _ _ _ Hext _ _ Ex); auto | exact Ed].
  rewrite Hexp.
  rewrite (rmap_mono (emit_export mf mg mm) (emit_export mf mg1 mm)) with (r := oe); [|
    intros x y; unfold emit_export; destruct (N.eqb (ex_kind x) 0); auto; destruct (N.eqb (ex_kind x) 1); auto;
    destruct (lookup mg (ex_idx x)) as [q|] eqn:L; [|discriminate]; rewrite (Hext _ q L); auto | exact Ee].
  rewrite (rmap_mono (emit_site mf mg mm) (emit_site mf mg1 mm)) with (r := os); [|
    intros [n [x id]] y; unfold emit_site; destruct x; auto;
    destruct (lookup mg id) as [q|] eqn:L; [|discriminate]; rewrite (Hext id q L); auto | exact Es].
  reflexivity.
Qed.

(* any number of add_global calls with index-free initialisers (every constant form and ref.null): all succeed, return
   consecutive ids, and the encoded module is the old one followed by exactly the requested globals, in order *)
Definition greq := (N * gty * init)%type.
Definition op_of (a : greq) : aop := let '(fp, t, e) := a in OAddGlobal fp t e.
Definition render (a : greq) : oglobal :=
  let '(fp, t, e) := a in mkOG (match gty_conv t with Ok t' => t' | Panic _ => t end) (enc_init e).
Definition req_ok (a : greq) : Prop := let '(fp, t, e) := a in (exists t', gty_conv t = Ok t') /\ forallb index_free e = true.
Fixpoint fresh_all (s : astate) (l : list greq) : Prop :=
  match l with
  | [] => True
  | (fp, _, _) :: l' => fresh_fp s fp /\ ~ In fp (map (fun a => fst (fst a)) l') /\ fresh_all s l'
  end.
Fixpoint idsN (first : N) (n : nat) : list (option N) :=
  match n with O => [] | S n' => Some first :: idsN (first + 1) n' end.

Lemma fresh_all_step s s1 fp t e r l :
  astep s (OAddGlobal fp t e) = Ok (s1, r) -> ~ In fp (map (fun a => fst (fst a)) l) -> fresh_all s l -> fresh_all s1 l.
Proof.
  intros Hstep. destruct (add_global_appends _ _ _ _ _ _ Hstep) as (t' & _ & Hitems & _ & _ & _ & _ & Himp & _).
  induction l as [|[[fp' t0] e0] l IH]; intros Hni Hfr; cbn [fresh_all] in *; [exact I|].
  destruct Hfr as ((F1 & F2) & Hnd & Hrest). cbn [map fst] in Hni.
  split; [|split; [exact Hnd | apply IH; [intros H; apply Hni; right; exact H | exact Hrest]]].
  split.
  - intros it Hin. rewrite Hitems in Hin. apply in_app_or in Hin as [Hin|[<-|[]]]; [apply F1; exact Hin|].
    cbn [it_fp]. intros E. apply Hni. left. symmetry. exact E.
  - intros i Hin. rewrite Himp in Hin. apply F2. exact Hin.
Qed.

Lemma lenN_snoc {A} (l : list A) x : lenN (l ++ [x]) = lenN l + 1.
Proof. unfold lenN. rewrite app_length. cbn. lia. Qed.

Theorem add_globals_sequence : forall (adds : list greq) s rets dc sites o lf mf,
  s_recalc (m_g (a_m s)) = false -> ids_pos (s_items (m_g (a_m s))) -> fresh_all s adds ->
  Forall req_ok adds ->
  aencode s dc sites = Ok o -> index_space (m_f (a_m s)) = Ok (lf, mf) ->
  exists s',
    arun s (map op_of adds) rets = (s', rets ++ idsN (lenN (s_items (m_g (a_m s)))) (length adds), false)
    /\ aencode s' dc sites
       = Ok (mkO (ob_imports o) (ob_funcs o) (ob_globals o ++ map render adds) (ob_mems o) (ob_data o)
                 (ob_exports o) (ob_sites o) (ob_dcount o)).
Proof.
  induction adds as [|[[fp t] e] adds IH]; intros s rets dc sites o lf mf Hrc Hip Hfr Hok Henc Hf.
  - exists s. cbn [map arun idsN length]. rewrite !app_nil_r. split; [reflexivity|]. rewrite Henc. destruct o; reflexivity.
  - cbn [fresh_all] in Hfr. destruct Hfr as (Hfresh & Hni & Hrest). inversion Hok as [|a l Hreq Hok']; subst. unfold req_ok in Hreq. destruct Hreq as [[t' Ht] Hfree].
    cbn [map op_of arun].
    assert (Hstep : exists s1, astep s (OAddGlobal fp t e) = Ok (s1, Some (lenN (s_items (m_g (a_m s)))))).
    { cbn [astep]. rewrite Ht. cbn [step]. eexists. reflexivity. }
    destruct Hstep as (s1 & Hstep). rewrite Hstep.
    destruct (add_global_end_to_end _ _ _ _ _ _ _ _ _ Hrc Hip Hfresh Hstep Henc lf mf e Hf (fix_init_index_free _ _ _ Hfree))
      as (t'' & Ht'' & _ & _ & Henc1 & Hrc1 & Hip1).
    rewrite Ht in Ht''. inversion Ht''; subst t''.
    destruct (add_global_appends _ _ _ _ _ _ Hstep) as (_ & _ & Hitems & _ & _ & Hmf & _).
    assert (Hf1 : index_space (m_f (a_m s1)) = Ok (lf, mf)) by (rewrite Hmf; exact Hf).
    destruct (IH s1 (rets ++ [Some (lenN (s_items (m_g (a_m s))))]) dc sites _ lf mf Hrc1 Hip1
                 (fresh_all_step _ _ _ _ _ _ _ Hstep Hni Hrest) Hok' Henc1 Hf1) as (s' & Hrun & Henc').
    exists s'. split.
    + rewrite Hrun. cbn [length idsN]. rewrite <- app_assoc. cbn [app]. rewrite Hitems, lenN_snoc. reflexivity.
    + rewrite Henc'. cbn [ob_imports ob_funcs ob_globals ob_mems ob_data ob_exports ob_sites ob_dcount map render].
      rewrite Ht, <- app_assoc. reflexivity.
Qed.

(* every freshly parsed module satisfies the hypotheses of the two theorems above: the stored ids are the positions and
   the globals are not pending recalculation *)
Definition ids_from_pos (pos : N) (l : list item) : Prop := map it_id l = map (fun j => pos + N.of_nat j) (seq 0 (length l)).
Lemma seq_map_S pos n : map (fun j => pos + N.of_nat j) (seq 0 (S n)) = pos :: map (fun j => pos + 1 + N.of_nat j) (seq 0 n).
Proof.
  cbn [seq map]. rewrite N.add_0_r. f_equal. rewrite <- seq_shift, map_map. apply map_ext. intros j. lia.
Qed.
Lemma imp_items_ids : forall l code pos k, ids_from_pos pos (imp_items code pos k l).
Proof.
  unfold ids_from_pos. induction l as [|[c fp] l IH]; intros code pos k; cbn [imp_items]; [reflexivity|].
  destruct (N.eqb c code); [|apply IH]. cbn [length map it_id]. rewrite seq_map_S. f_equal. apply IH.
Qed.
Lemma loc_items_ids : forall l pos, ids_from_pos pos (loc_items pos l).
Proof.
  unfold ids_from_pos. induction l as [|fp l IH]; intros pos; cbn [loc_items]; [reflexivity|].
  cbn [length map it_id]. rewrite seq_map_S. f_equal. apply IH.
Qed.
Lemma seq_from : forall n st, map N.of_nat (seq st n) = map (fun j => N.of_nat st + N.of_nat j) (seq 0 n).
Proof.
  induction n as [|n IH]; intros st; [reflexivity|].
  rewrite seq_map_S. cbn [seq map]. f_equal. rewrite IH. apply map_ext. intros j. lia.
Qed.
Lemma ids_from_pos_app a b : ids_from_pos 0 a -> ids_from_pos (lenN a) b -> ids_pos (a ++ b).
Proof.
  unfold ids_from_pos, ids_pos, lenN. intros Ha Hb. rewrite map_app, Ha, Hb, app_length, seq_app, map_app. apply (f_equal2 (@app N)).
  - apply map_ext. intros j. lia.
  - cbn [Nat.add]. rewrite seq_from. reflexivity.
Qed.
Theorem base_globals_clean (c : acase) :
  s_recalc (m_g (a_m (abase c))) = false /\ ids_pos (s_items (m_g (a_m (abase c)))).
Proof.
  unfold abase, mk_base, mk_space. cbn [a_m m_g s_recalc s_items]. split; [reflexivity|].
  apply ids_from_pos_app; [apply imp_items_ids | apply loc_items_ids].
Qed.

(* boolean versions of the freshness / request hypotheses (to discharge them on concrete states by computation) *)
Definition fresh_fpb (s : astate) (fp : N) : bool :=
  forallb (fun it => negb (N.eqb (it_fp it) fp)) (s_items (m_g (a_m s))) && forallb (fun i => negb (N.eqb (i_fp i) fp)) (m_imports (a_m s)).
Lemma fresh_fpb_ok s fp : fresh_fpb s fp = true -> fresh_fp s fp.
Proof.
  unfold fresh_fpb, fresh_fp. intros H. apply andb_true_iff in H as [H1 H2]. rewrite forallb_forall in H1, H2. split.
  - intros it Hin E. specialize (H1 it Hin). rewrite E, N.eqb_refl in H1. discriminate.
  - intros i Hin E. specialize (H2 i Hin). rewrite E, N.eqb_refl in H2. discriminate.
Qed.
Fixpoint fresh_allb (s : astate) (l : list greq) : bool :=
  match l with
  | [] => true
  | (fp, _, _) :: l' => fresh_fpb s fp && negb (existsb (N.eqb fp) (map (fun a => fst (fst a)) l')) && fresh_allb s l'
  end.
Lemma fresh_allb_ok s : forall l, fresh_allb s l = true -> fresh_all s l.
Proof.
  induction l as [|[[fp t] e] l IH]; cbn [fresh_allb fresh_all]; intros H; [exact I|].
  apply andb_true_iff in H as [H H3]. apply andb_true_iff in H as [H1 H2].
  split; [apply fresh_fpb_ok; exact H1|]. split; [|apply IH; exact H3].
  intros Hin. apply negb_true_iff in H2. assert (E : existsb (N.eqb fp) (map (fun a => fst (fst a)) l) = true).
  { apply existsb_exists. exists fp. split; [exact Hin|apply N.eqb_refl]. }
  rewrite E in H2. discriminate.
Qed.
Definition req_okb (a : greq) : bool :=
  let '(fp, t, e) := a in match gty_conv t with Ok _ => true | Panic _ => false end && forallb index_free e.
Lemma req_okb_ok : forall l, forallb req_okb l = true -> Forall req_ok l.
Proof.
  induction l as [|[[fp t] e] l IH]; cbn [forallb]; intros H; [constructor|].
  apply andb_true_iff in H as [H1 H2]. constructor; [|apply IH; exact H2].
  unfold req_okb in H1. unfold req_ok. apply andb_true_iff in H1 as [Ha Hb]. split; [|exact Hb].
  destruct (gty_conv t) as [t'|]; [exists t'; reflexivity|discriminate].
Qed.
