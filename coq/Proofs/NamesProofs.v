(* Theorems of the name-section engine (C29). *)
From Coq Require Import List Arith NArith Bool Lia.
Import ListNotations.
From Orca Require Import Util Reindex Reorg ReidxProofs CheckReidx Names CheckNames.
Local Open Scope N_scope.

(* ------------------------------------------------------------------------------------------ *)
(* 1. stored ids are positions; the number of original imports never exceeds the vector          *)
Definition pos_ids (l : list item) : Prop := forall p it, nth_error l p = Some it -> it_id it = N.of_nat p.
Definition inv_space (s : space) : Prop :=
  pos_ids (s_items s) /\ (N.to_nat (s_num s - s_added s) <= length (s_items s))%nat.

Lemma lenN_length {A} (l : list A) : N.to_nat (lenN l) = length l.
Proof. unfold lenN. apply Nat2N.id. Qed.

Lemma pos_ids_app l x : pos_ids l -> it_id x = lenN l -> pos_ids (l ++ [x]).
Proof.
  intros H Hx p it Hn. destruct (Nat.lt_ge_cases p (length l)) as [Hlt|Hge].
  - rewrite nth_error_app1 in Hn by exact Hlt. apply H. exact Hn.
  - rewrite nth_error_app2 in Hn by exact Hge. destruct (p - length l)%nat as [|k] eqn:E; cbn in Hn.
    + inversion Hn; subst. rewrite Hx. unfold lenN. f_equal. lia.
    + destruct k; discriminate.
Qed.

Lemma nth_error_upd {A} (f : A -> A) : forall n l p,
  nth_error (upd n f l) p = if Nat.eqb p n then option_map f (nth_error l p) else nth_error l p.
Proof.
  induction n as [|n IH]; intros [|x l] [|p]; cbn; try reflexivity.
  - destruct (Nat.eqb p n); reflexivity.
  - apply IH.
Qed.
Lemma upd_length {A} (f : A -> A) : forall n l, length (upd n f l) = length l.
Proof. induction n; intros [|x l]; cbn; auto. Qed.

Lemma pos_ids_updN l n f :
  pos_ids l -> (forall it, nth_error l (N.to_nat n) = Some it -> it_id (f it) = n) -> pos_ids (updN n f l).
Proof.
  intros H Hf p it Hn. unfold updN in Hn. rewrite nth_error_upd in Hn.
  destruct (Nat.eqb_spec p (N.to_nat n)) as [->|Hne].
  - destruct (nth_error l (N.to_nat n)) eqn:E; cbn in Hn; [|discriminate].
    inversion Hn; subst. rewrite (Hf _ eq_refl). symmetry. apply N2Nat.id.
  - apply H. exact Hn.
Qed.
Lemma updN_length {A} (f : A -> A) n (l : list A) : length (updN n f l) = length l.
Proof. apply upd_length. Qed.

Lemma pos_ids_NoDup l : pos_ids l -> NoDup (map it_id l).
Proof.
  intros H. apply NoDup_nth_error. intros i j Hi Heq.
  rewrite map_length in Hi. rewrite !nth_error_map in Heq.
  destruct (nth_error l i) as [a|] eqn:Ea; [|apply nth_error_None in Ea; lia].
  destruct (nth_error l j) as [b|] eqn:Eb; cbn in Heq; [|discriminate].
  inversion Heq as [Hid]. rewrite (H _ _ Ea), (H _ _ Eb) in Hid. lia.
Qed.

(* base state *)
Lemma imp_items_pos : forall l code pos k p it,
  nth_error (imp_items code pos k l) p = Some it -> it_id it = pos + N.of_nat p.
Proof.
  induction l as [|[c fp] l IH]; intros code pos k p it Hn; cbn in Hn; [destruct p; discriminate|].
  destruct (N.eqb c code).
  - destruct p as [|p]; cbn in Hn.
    + inversion Hn; subst. cbn. lia.
    + rewrite (IH _ _ _ _ _ Hn). lia.
  - exact (IH _ _ _ _ _ Hn).
Qed.
Lemma loc_items_pos : forall l pos p it, nth_error (loc_items pos l) p = Some it -> it_id it = pos + N.of_nat p.
Proof.
  induction l as [|fp l IH]; intros pos p it Hn; cbn in Hn; [destruct p; discriminate|].
  destruct p as [|p]; cbn in Hn.
  - inversion Hn; subst. cbn. lia.
  - rewrite (IH _ _ _ Hn). lia.
Qed.
Lemma mk_space_inv code imps locs : inv_space (mk_space code imps locs).
Proof.
  unfold mk_space, inv_space. cbn [s_items s_num s_added]. split.
  - intros p it Hn. destruct (Nat.lt_ge_cases p (length (imp_items code 0 0 imps))) as [Hlt|Hge].
    + rewrite nth_error_app1 in Hn by exact Hlt. rewrite (imp_items_pos _ _ _ _ _ _ Hn). lia.
    + rewrite nth_error_app2 in Hn by exact Hge. rewrite (loc_items_pos _ _ _ _ Hn). unfold lenN. lia.
  - rewrite N.sub_0_r, lenN_length, app_length. lia.
Qed.

(* the edit API preserves the invariant of every space *)
Lemma inv_push s x : inv_space s -> it_id x = lenN (s_items s) -> forall r n a nl,
  n - a = s_num s - s_added s -> inv_space (mkSpace (s_items s ++ [x]) r n a nl).
Proof.
  intros [H1 H2] Hx r n a nl E. split; cbn [s_items s_num s_added].
  - apply pos_ids_app; assumption.
  - rewrite E, app_length. cbn. lia.
Qed.
Lemma inv_upd s k f : inv_space s -> (forall it, nth_error (s_items s) (N.to_nat k) = Some it -> it_id (f it) = k) ->
  forall r n a nl, n - a = s_num s - s_added s -> inv_space (mkSpace (updN k f (s_items s)) r n a nl).
Proof.
  intros [H1 H2] Hf r n a nl E. split; cbn [s_items s_num s_added].
  - apply pos_ids_updN; assumption.
  - rewrite E, updN_length. exact H2.
Qed.
Lemma inv_same s : inv_space s -> forall r n a nl, n - a = s_num s - s_added s -> inv_space (mkSpace (s_items s) r n a nl).
Proof. intros [H1 H2] r n a nl E. split; cbn [s_items s_num s_added]; [exact H1|rewrite E; exact H2]. Qed.

Definition inv_m (m : mst) : Prop := inv_space (m_f m) /\ inv_space (m_g m) /\ inv_space (m_m m).

Lemma set_del_id d it : it_id (set_del d it) = it_id it.
Proof. reflexivity. Qed.

Lemma inv_del s id r : inv_space s ->
  inv_space (mkSpace (if id <? lenN (s_items s) then updN id (set_del true) (s_items s) else s_items s) r (s_num s) (s_added s) (s_nlocal s)).
Proof.
  intros H. destruct (id <? lenN (s_items s)).
  - apply inv_upd; [exact H| |reflexivity]. intros it Hn. rewrite set_del_id. destruct H as [H _].
    rewrite (H _ _ Hn). apply N2Nat.id.
  - apply inv_same; [exact H|reflexivity].
Qed.

Lemma inv_set_sp m s x : inv_m m -> inv_space x -> inv_m (set_sp m s x).
Proof. intros (Hf & Hg & Hm) Hx. destruct s; cbn; repeat split; assumption. Qed.
Lemma inv_get_sp m s : inv_m m -> inv_space (get_sp m s).
Proof. intros (Hf & Hg & Hm). destruct s; assumption. Qed.
Lemma inv_imports m l : inv_m m -> inv_m (mkM (m_f m) (m_g m) (m_m m) l).
Proof. intros H. exact H. Qed.

Lemma delete_in_inv m s id m' : delete_in m s id = Ok m' -> inv_m m -> inv_m m'.
Proof.
  unfold delete_in. intros H Hinv.
  pose proof (inv_set_sp m s _ Hinv (inv_del (get_sp m s) id true (inv_get_sp m s Hinv))) as H1.
  destruct (nthN _ id) as [it|]; [|discriminate].
  destruct (it_imp it); inversion H; subst; clear H.
  - apply inv_imports. exact H1.
  - exact H1.
Qed.

Lemma push_import_inv m s fp m1 id k : push_import m s fp = (m1, id, k) -> inv_m m -> inv_m m1.
Proof.
  unfold push_import. intros H (Hf & Hg & Hm). inversion H; subst; clear H.
  assert (E : forall x : space, s_num x + 1 - (s_added x + 1) = s_num x - s_added x) by (intros; lia).
  destruct s; cbn; repeat split; try assumption; apply inv_same; auto.
Qed.
Lemma push_import_items m s fp m1 id k : push_import m s fp = (m1, id, k) ->
  s_items (m_f m1) = s_items (m_f m) /\ s_items (m_g m1) = s_items (m_g m) /\ s_items (m_m m1) = s_items (m_m m).
Proof. unfold push_import. intros H. inversion H; subst; clear H. destruct s; cbn; auto. Qed.

Lemma step_inv m o m' r : Reindex.step m o = Ok (m', r) -> inv_m m -> inv_m m'.
Proof.
  intros H Hinv. pose proof Hinv as (Hf & Hg & Hm).
  destruct o as [s fp|s fp|s id|id fp|k fp|fp|s id|k|mem]; cbn [Reindex.step] in H.
  - (* AddLocal *)
    destruct s.
    + match type of H with (if ?c then _ else _) = _ => destruct c end; [|discriminate].
      inversion H; subst; clear H. cbn. repeat split; try assumption. apply inv_push; auto.
    + inversion H; subst; clear H. cbn. repeat split; try assumption. apply inv_push; auto.
    + inversion H; subst; clear H. cbn. repeat split; try assumption. apply inv_push; auto.
  - (* AddImport *)
    destruct s.
    + destruct (push_import m SF fp) as [[m1 id] k] eqn:E.
      pose proof (push_import_inv _ _ _ _ _ _ E Hinv) as (Hf1 & Hg1 & Hm1).
      match type of H with (if ?c then _ else _) = _ => destruct c eqn:Ec end; [|discriminate].
      inversion H; subst; clear H. cbn. repeat split; try assumption.
      apply inv_push; auto. cbn [it_id]. apply N.eqb_eq in Ec. cbn [get_sp] in Ec. symmetry. exact Ec.
    + destruct (push_import m SG fp) as [[m1 id] k] eqn:E.
      pose proof (push_import_inv _ _ _ _ _ _ E Hinv) as (Hf1 & Hg1 & Hm1).
      inversion H; subst; clear H. cbn. repeat split; try assumption. apply inv_push; auto.
    + destruct (push_import m SM fp) as [[m1 id] k] eqn:E.
      pose proof (push_import_inv _ _ _ _ _ _ E Hinv) as (Hf1 & Hg1 & Hm1).
      match type of H with (if ?c then _ else _) = _ => destruct c eqn:Ec end; [|discriminate].
      inversion H; subst; clear H. cbn. repeat split; try assumption.
      apply inv_push; auto. cbn [it_id]. apply N.eqb_eq in Ec. cbn [get_sp] in Ec. symmetry. exact Ec.
  - (* Delete *)
    destruct (delete_in m s id) as [m1|] eqn:E; [|discriminate]. inversion H; subst; clear H.
    exact (delete_in_inv _ _ _ _ E Hinv).
  - (* LocalToImport *)
    destruct (nthN (s_items (m_f m)) id) as [it|]; [|discriminate].
    destruct (is_import it); [inversion H; subst; exact Hinv|].
    destruct (delete_in m SF id) as [m1|] eqn:E; [|discriminate].
    pose proof (delete_in_inv _ _ _ _ E Hinv) as Hinv1.
    destruct (push_import m1 SF fp) as [[m2 id2] k] eqn:E2.
    pose proof (push_import_inv _ _ _ _ _ _ E2 Hinv1) as (Hf2 & Hg2 & Hm2).
    inversion H; subst; clear H. cbn. repeat split; try assumption.
    apply inv_upd; auto.
  - (* ImportToLocal *)
    destruct (nthN (m_imports m) k) as [im|]; [|discriminate].
    destruct (negb (N.eqb (i_sp im) 0)); [discriminate|].
    destruct (nthN (s_items (m_f m)) k) as [it|]; [|discriminate].
    destruct (is_local it); [inversion H; subst; exact Hinv|].
    destruct (delete_in m SF k) as [m1|] eqn:E; [|discriminate].
    pose proof (delete_in_inv _ _ _ _ E Hinv) as (Hf1 & Hg1 & Hm1).
    inversion H; subst; clear H. cbn. repeat split; try assumption.
    apply inv_upd; auto.
  - (* ItAddGlobal *)
    inversion H; subst; clear H. cbn. repeat split; try assumption. apply inv_push; auto.
  - inversion H; subst; exact Hinv.
  - inversion H; subst; exact Hinv.
  - inversion H; subst; exact Hinv.
Qed.
