(* Theorems of the name-section engine (C29). *)
From Coq Require Import List Arith NArith Bool Lia.
Import ListNotations.
From Orca Require Import Util Reindex Reorg ReidxProofs CheckReidx Names CheckNames.
From Orca Require ReidxBind ReidxInv.
Local Open Scope N_scope.

(* ------------------------------------------------------------------------------------------ *)
(* 1. stored ids are positions; the number of original imports never exceeds the vector          *)
Definition pos_ids (l : list item) : Prop := forall p it, nth_error l p = Some it -> it_id it = N.of_nat p.
Definition inv_space (s : space) : Prop :=
  pos_ids (s_items s) /\ (N.to_nat (s_num s - s_added s) <= length (s_items s))%nat.

Lemma lenN_length {A} (l : list A) : N.to_nat (lenN l) = length l.
Proof. unfold lenN. apply Nat2N.id. Qed.

Lemma pos_ids_app l x : pos_ids l -> it_id x = lenN l -> pos_ids (l ++ [x]).
Proof.
  intros H Hx p it Hn. destruct (Nat.lt_ge_cases p (length l)) as [Hlt|Hge].
  - rewrite nth_error_app1 in Hn by exact Hlt. apply H. exact Hn.
  - rewrite nth_error_app2 in Hn by exact Hge. destruct (p - length l)%nat as [|k] eqn:E; cbn in Hn.
    + inversion Hn; subst. rewrite Hx. unfold lenN. f_equal. lia.
    + destruct k; discriminate.
Qed.

Lemma nth_error_upd {A} (f : A -> A) : forall n l p,
  nth_error (upd n f l) p = if Nat.eqb p n then option_map f (nth_error l p) else nth_error l p.
Proof.
  induction n as [|n IH]; intros [|x l] [|p]; cbn; try reflexivity.
  - destruct (Nat.eqb p n); reflexivity.
  - apply IH.
Qed.
Lemma upd_length {A} (f : A -> A) : forall n l, length (upd n f l) = length l.
Proof. induction n; intros [|x l]; cbn; auto. Qed.

Lemma pos_ids_updN l n f :
  pos_ids l -> (forall it, nth_error l (N.to_nat n) = Some it -> it_id (f it) = n) -> pos_ids (updN n f l).
Proof.
  intros H Hf p it Hn. unfold updN in Hn. rewrite nth_error_upd in Hn.
  destruct (Nat.eqb_spec p (N.to_nat n)) as [->|Hne].
  - destruct (nth_error l (N.to_nat n)) eqn:E; cbn in Hn; [|discriminate].
    inversion Hn; subst. rewrite (Hf _ eq_refl). symmetry. apply N2Nat.id.
  - apply H. exact Hn.
Qed.
Lemma updN_length {A} (f : A -> A) n (l : list A) : length (updN n f l) = length l.
Proof. apply upd_length. Qed.

Lemma pos_ids_NoDup l : pos_ids l -> NoDup (map it_id l).
Proof.
  intros H. apply NoDup_nth_error. intros i j Hi Heq.
  rewrite map_length in Hi. rewrite !nth_error_map in Heq.
  destruct (nth_error l i) as [a|] eqn:Ea; [|apply nth_error_None in Ea; lia].
  destruct (nth_error l j) as [b|] eqn:Eb; cbn in Heq; [|discriminate].
  inversion Heq as [Hid]. rewrite (H _ _ Ea), (H _ _ Eb) in Hid. lia.
Qed.

(* base state *)
Lemma imp_items_pos : forall l code pos k p it,
  nth_error (imp_items code pos k l) p = Some it -> it_id it = pos + N.of_nat p.
Proof.
  induction l as [|[c fp] l IH]; intros code pos k p it Hn; cbn in Hn; [destruct p; discriminate|].
  destruct (N.eqb c code).
  - destruct p as [|p]; cbn in Hn.
    + inversion Hn; subst. cbn. lia.
    + rewrite (IH _ _ _ _ _ Hn). lia.
  - exact (IH _ _ _ _ _ Hn).
Qed.
Lemma loc_items_pos : forall l pos p it, nth_error (loc_items pos l) p = Some it -> it_id it = pos + N.of_nat p.
Proof.
  induction l as [|fp l IH]; intros pos p it Hn; cbn in Hn; [destruct p; discriminate|].
  destruct p as [|p]; cbn in Hn.
  - inversion Hn; subst. cbn. lia.
  - rewrite (IH _ _ _ Hn). lia.
Qed.
Lemma mk_space_inv code imps locs : inv_space (mk_space code imps locs).
Proof.
  unfold mk_space, inv_space. cbn [s_items s_num s_added]. split.
  - intros p it Hn. destruct (Nat.lt_ge_cases p (length (imp_items code 0 0 imps))) as [Hlt|Hge].
    + rewrite nth_error_app1 in Hn by exact Hlt. rewrite (imp_items_pos _ _ _ _ _ _ Hn). lia.
    + rewrite nth_error_app2 in Hn by exact Hge. rewrite (loc_items_pos _ _ _ _ Hn). unfold lenN. lia.
  - rewrite N.sub_0_r, lenN_length, app_length. lia.
Qed.

(* the edit API preserves the invariant of every space *)
Lemma inv_push s x : inv_space s -> it_id x = lenN (s_items s) -> forall r n a nl,
  n - a = s_num s - s_added s -> inv_space (mkSpace (s_items s ++ [x]) r n a nl).
Proof.
  intros [H1 H2] Hx r n a nl E. split; cbn [s_items s_num s_added].
  - apply pos_ids_app; assumption.
  - rewrite E, app_length. cbn. lia.
Qed.
Lemma inv_upd s k f : inv_space s -> (forall it, nth_error (s_items s) (N.to_nat k) = Some it -> it_id (f it) = k) ->
  forall r n a nl, n - a = s_num s - s_added s -> inv_space (mkSpace (updN k f (s_items s)) r n a nl).
Proof.
  intros [H1 H2] Hf r n a nl E. split; cbn [s_items s_num s_added].
  - apply pos_ids_updN; assumption.
  - rewrite E, updN_length. exact H2.
Qed.
Lemma inv_same s : inv_space s -> forall r n a nl, n - a = s_num s - s_added s -> inv_space (mkSpace (s_items s) r n a nl).
Proof. intros [H1 H2] r n a nl E. split; cbn [s_items s_num s_added]; [exact H1|rewrite E; exact H2]. Qed.

Definition inv_m (m : mst) : Prop := inv_space (m_f m) /\ inv_space (m_g m) /\ inv_space (m_m m).

Lemma set_del_id d it : it_id (set_del d it) = it_id it.
Proof. reflexivity. Qed.

Lemma inv_del s id r : inv_space s ->
  inv_space (mkSpace (if id <? lenN (s_items s) then updN id (set_del true) (s_items s) else s_items s) r (s_num s) (s_added s) (s_nlocal s)).
Proof.
  intros H. destruct (id <? lenN (s_items s)).
  - apply inv_upd; [exact H| |reflexivity]. intros it Hn. rewrite set_del_id. destruct H as [H _].
    rewrite (H _ _ Hn). apply N2Nat.id.
  - apply inv_same; [exact H|reflexivity].
Qed.

Lemma inv_set_sp m s x : inv_m m -> inv_space x -> inv_m (set_sp m s x).
Proof. intros (Hf & Hg & Hm) Hx. destruct s; cbn; (split; [|split]); assumption. Qed.
Lemma inv_get_sp m s : inv_m m -> inv_space (get_sp m s).
Proof. intros (Hf & Hg & Hm). destruct s; assumption. Qed.
Lemma inv_imports m l : inv_m m -> inv_m (mkM (m_f m) (m_g m) (m_m m) l).
Proof. intros H. exact H. Qed.

Lemma delete_in_inv m s id m' : delete_in m s id = Ok m' -> inv_m m -> inv_m m'.
Proof.
  unfold delete_in. intros H Hinv.
  pose proof (inv_set_sp m s _ Hinv (inv_del (get_sp m s) id true (inv_get_sp m s Hinv))) as H1.
  destruct (nthN _ id) as [it|]; [|discriminate].
  destruct (it_imp it); inversion H; subst; clear H.
  - apply inv_imports. exact H1.
  - exact H1.
Qed.

Lemma push_import_inv m s fp m1 id k : push_import m s fp = (m1, id, k) -> inv_m m -> inv_m m1.
Proof.
  unfold push_import. intros H (Hf & Hg & Hm). inversion H; subst; clear H.
  assert (E : forall x : space, s_num x + 1 - (s_added x + 1) = s_num x - s_added x) by (intros; lia).
  destruct s; cbn; (split; [|split]); try assumption; apply inv_same; auto.
Qed.
Lemma push_import_items m s fp m1 id k : push_import m s fp = (m1, id, k) ->
  s_items (m_f m1) = s_items (m_f m) /\ s_items (m_g m1) = s_items (m_g m) /\ s_items (m_m m1) = s_items (m_m m).
Proof. unfold push_import. intros H. inversion H; subst; clear H. destruct s; cbn; auto. Qed.

Lemma step_inv m o m' r : Reindex.step m o = Ok (m', r) -> inv_m m -> inv_m m'.
Proof.
  intros H Hinv. pose proof Hinv as (Hf & Hg & Hm).
  destruct o as [s fp|s fp|s id|id fp|k fp|fp|s id|k|mem]; cbn [Reindex.step] in H.
  - (* AddLocal *)
    destruct s.
    + match type of H with (if ?c then _ else _) = _ => destruct c end; [|discriminate].
      inversion H; subst; clear H. cbn. (split; [|split]); try assumption. apply inv_push; auto.
    + inversion H; subst; clear H. cbn. (split; [|split]); try assumption. apply inv_push; auto.
    + inversion H; subst; clear H. cbn. (split; [|split]); try assumption. apply inv_push; auto.
  - (* AddImport *)
    destruct s.
    + destruct (push_import m SF fp) as [[m1 id] k] eqn:E.
      pose proof (push_import_inv _ _ _ _ _ _ E Hinv) as (Hf1 & Hg1 & Hm1).
      match type of H with (if ?c then _ else _) = _ => destruct c eqn:Ec end; [|discriminate].
      inversion H; subst; clear H. cbn. (split; [|split]); try assumption.
      apply inv_push; auto. cbn [it_id]. apply N.eqb_eq in Ec. cbn [get_sp] in Ec. symmetry. exact Ec.
    + destruct (push_import m SG fp) as [[m1 id] k] eqn:E.
      pose proof (push_import_inv _ _ _ _ _ _ E Hinv) as (Hf1 & Hg1 & Hm1).
      inversion H; subst; clear H. cbn. (split; [|split]); try assumption. apply inv_push; auto.
    + destruct (push_import m SM fp) as [[m1 id] k] eqn:E.
      pose proof (push_import_inv _ _ _ _ _ _ E Hinv) as (Hf1 & Hg1 & Hm1).
      match type of H with (if ?c then _ else _) = _ => destruct c eqn:Ec end; [|discriminate].
      inversion H; subst; clear H. cbn. (split; [|split]); try assumption.
      apply inv_push; auto. cbn [it_id]. apply N.eqb_eq in Ec. cbn [get_sp] in Ec. symmetry. exact Ec.
  - (* Delete *)
    destruct (delete_in m s id) as [m1|] eqn:E; [|discriminate]. inversion H; subst; clear H.
    exact (delete_in_inv _ _ _ _ E Hinv).
  - (* LocalToImport *)
    destruct (nthN (s_items (m_f m)) id) as [it|]; [|discriminate].
    destruct (is_import it); [inversion H; subst; exact Hinv|].
    destruct (delete_in m SF id) as [m1|] eqn:E; [|discriminate].
    pose proof (delete_in_inv _ _ _ _ E Hinv) as Hinv1.
    destruct (push_import m1 SF fp) as [[m2 id2] k] eqn:E2.
    pose proof (push_import_inv _ _ _ _ _ _ E2 Hinv1) as (Hf2 & Hg2 & Hm2).
    inversion H; subst; clear H. cbn. (split; [|split]); try assumption.
    apply inv_upd; auto.
  - (* ImportToLocal *)
    destruct (nthN (m_imports m) k) as [im|]; [|discriminate].
    destruct (negb (N.eqb (i_sp im) 0)); [discriminate|].
    destruct (find_imp (s_items (m_f m)) k 0) as [p|]; [|inversion H; subst; exact Hinv].
    destruct (delete_in m SF p) as [m1|] eqn:E; [|discriminate].
    pose proof (delete_in_inv _ _ _ _ E Hinv) as (Hf1 & Hg1 & Hm1).
    inversion H; subst; clear H. cbn. (split; [|split]); try assumption.
    apply inv_upd; auto.
  - (* ItAddGlobal *)
    inversion H; subst; clear H. cbn. (split; [|split]); try assumption. apply inv_push; auto.
  - inversion H; subst; exact Hinv.
  - inversion H; subst; exact Hinv.
  - inversion H; subst; exact Hinv.
Qed.

(* ------------------------------------------------------------------------------------------ *)
(* 2. every state reached by a history satisfies the invariant                                  *)
Ltac break_match_in H :=
  repeat match type of H with
         | context [match ?x with _ => _ end] => destruct x eqn:?
         end.

Lemma nstep_edit_m s e b s' r : nstep s (NEdit e b) = Ok (s', r) -> Reindex.step (ns_m s) e = Ok (ns_m s', r).
Proof.
  unfold nstep. intros H.
  destruct (Reindex.step (ns_m s) e) as [[m' r']|w] eqn:E; [|discriminate].
  break_match_in H; inversion H; subst; reflexivity.
Qed.

Lemma nstep_inv s o s' r : nstep s o = Ok (s', r) -> inv_m (ns_m s) -> inv_m (ns_m s').
Proof.
  intros H Hinv. destruct o as [e b|id t|id t|id t|k t].
  - apply nstep_edit_m in H. exact (step_inv _ _ _ _ H Hinv).
  - unfold nstep, imp_set_fn_name in H. break_match_in H; inversion H; subst; exact Hinv.
  - unfold nstep in H. break_match_in H; inversion H; subst; exact Hinv.
  - unfold nstep, imp_set_fn_name in H. break_match_in H; inversion H; subst; exact Hinv.
  - unfold nstep in H. break_match_in H; inversion H; subst; exact Hinv.
Qed.

Lemma nrun_pref_inv : forall h s rets s' rets' p,
  nrun_pref s h rets = (s', rets', p) -> inv_m (ns_m s) -> inv_m (ns_m s').
Proof.
  induction h as [|o h IH]; intros s rets s' rets' p H Hinv; cbn in H.
  - inversion H; subst. exact Hinv.
  - destruct (nstep s o) as [[s1 r]|w] eqn:E.
    + exact (IH _ _ _ _ _ H (nstep_inv _ _ _ _ E Hinv)).
    + inversion H; subst. exact Hinv.
Qed.

Lemma init_state_inv c s0 : init_state c = Ok s0 -> inv_m (ns_m s0).
Proof.
  unfold init_state, parse_names. intros H.
  destruct (parse_fnames _ _ _ _) as [[i b]|]; [|discriminate]. inversion H; subst. cbn.
  unfold mk_base. cbn. split; [|split]; apply mk_space_inv.
Qed.

Theorem reachable_inv c s0 h s rets p :
  init_state c = Ok s0 -> nrun_pref s0 h [] = (s, rets, p) -> inv_m (ns_m s).
Proof. intros H0 H. exact (nrun_pref_inv _ _ _ _ _ _ H (init_state_inv _ _ H0)). Qed.

(* ------------------------------------------------------------------------------------------ *)
(* 3. the vector after recalculate_ids still carries pairwise distinct stored ids               *)
Lemma NoDup_app_intro {A} (a b : list A) : NoDup a -> NoDup b -> (forall x, In x a -> ~ In x b) -> NoDup (a ++ b).
Proof.
  induction a as [|x a IH]; intros Ha Hb Hd; [exact Hb|].
  inversion Ha; subst. cbn. constructor.
  - intro Hin. apply in_app_or in Hin as [Hin|Hin]; [contradiction|]. exact (Hd x (or_introl eq_refl) Hin).
  - apply IH; [assumption|assumption|]. intros y Hy. apply Hd. right. exact Hy.
Qed.
Lemma NoDup_app_disj {A} (a b : list A) : NoDup (a ++ b) -> forall x, In x a -> ~ In x b.
Proof.
  induction a as [|y a IH]; intros H x Hx; [destruct Hx|].
  cbn in H. inversion H; subst. destruct Hx as [->|Hx].
  - intro Hb. apply H2. apply in_or_app. right. exact Hb.
  - exact (IH H3 x Hx).
Qed.
Lemma NoDup_app_l {A} (a b : list A) : NoDup (a ++ b) -> NoDup a.
Proof.
  induction a as [|y a IH]; intros H; [constructor|]. cbn in H. inversion H; subst. constructor.
  - intro Hin. apply H2. apply in_or_app. left. exact Hin.
  - exact (IH H3).
Qed.
Lemma NoDup_app_r {A} (a b : list A) : NoDup (a ++ b) -> NoDup b.
Proof. induction a as [|y a IH]; intros H; [exact H|]. cbn in H. inversion H; subst. exact (IH H3). Qed.
Lemma NoDup_map_inj_on {A B} (f : A -> B) (s : list A) :
  NoDup s -> (forall a b, In a s -> In b s -> f a = f b -> a = b) -> NoDup (map f s).
Proof.
  induction s as [|x s IH]; intros Hn Hi; [constructor|].
  inversion Hn; subst. cbn. constructor.
  - intro Hin. apply in_map_iff in Hin as (y & Hy & Hys).
    assert (y = x) by (apply Hi; [right; exact Hys|left; reflexivity|exact Hy]). subst. contradiction.
  - apply IH; [assumption|]. intros a b Ha Hb. apply Hi; right; assumption.
Qed.

Lemma pos_ids_inj l : pos_ids l -> forall a b, In a l -> In b l -> it_id a = it_id b -> a = b.
Proof.
  intros H a b Ha Hb E. apply In_nth_error in Ha as [p Hp]. apply In_nth_error in Hb as [q Hq].
  rewrite (H _ _ Hp), (H _ _ Hq) in E. assert (p = q) by lia. subst. congruence.
Qed.

Lemma spec_incl orig l x : In x (spec orig l) -> In x l.
Proof.
  unfold spec. intros H. rewrite <- (firstn_skipn orig l).
  repeat (apply in_app_or in H as [H|H]); apply filter_In in H as [H _]; apply in_or_app; auto.
Qed.

Lemma spec_NoDup orig l : NoDup l -> NoDup (spec orig l).
Proof.
  intros Hn. rewrite <- (firstn_skipn orig l) in Hn.
  pose proof (NoDup_app_r _ _ Hn) as Hs. pose proof (NoDup_app_l _ _ Hn) as Hf.
  pose proof (NoDup_app_disj _ _ Hn) as Hd.
  unfold spec. set (F := firstn orig l) in *. set (S := skipn orig l) in *.
  apply NoDup_app_intro; [apply NoDup_filter; exact Hf| |].
  - apply NoDup_app_intro; [apply NoDup_filter; exact Hs| |].
    + apply NoDup_app_intro; [apply NoDup_filter; exact Hs|apply NoDup_filter; exact Hf|].
      intros x H1 H2. apply filter_In in H1 as [H1 _]. apply filter_In in H2 as [H2 _]. exact (Hd x H2 H1).
    + intros x H1 H2. apply filter_In in H1 as [H1 P1]. apply in_app_or in H2 as [H2|H2]; apply filter_In in H2 as [H2 P2].
      * unfold keepA, keepC, is_import in *. destruct (is_local x); cbn in *; discriminate.
      * exact (Hd x H2 H1).
  - intros x H1 H2. apply filter_In in H1 as [H1 P1].
    apply in_app_or in H2 as [H2|H2]; [|apply in_app_or in H2 as [H2|H2]]; apply filter_In in H2 as [H2 P2].
    + exact (Hd x H1 H2).
    + exact (Hd x H1 H2).
    + unfold keepA, keepC, is_import in *. destruct (is_local x); cbn in *; discriminate.
Qed.

Theorem index_space_NoDup (s : space) lf mf :
  inv_space s -> index_space s = Ok (lf, mf) -> NoDup (map it_id lf) /\ mf = mapping lf.
Proof.
  intros [Hp Hle] H. unfold index_space in H. destruct (s_recalc s).
  - rewrite reorganise_spec_N in H by exact Hle.
    destruct (N.eqb _ _); inversion H; subst. split; [|reflexivity].
    apply NoDup_map_inj_on.
    + apply spec_NoDup. exact (NoDup_map_inv _ _ (pos_ids_NoDup _ Hp)).
    + intros a b Ha Hb. apply (pos_ids_inj _ Hp); apply (spec_incl (N.to_nat (s_num s - s_added s))); assumption.
  - inversion H; subst. split; [apply pos_ids_NoDup; exact Hp|reflexivity].
Qed.

(* ------------------------------------------------------------------------------------------ *)
(* 4. what the rebuilt function-name map contains                                               *)
Lemma emit_body_names_spec : forall l nm pos q t,
  In (q, t) (emit_body_names pos l nm) <->
  exists p it, nth_error l p = Some it /\ is_local it = true /\ it_del it = false /\
               lookup nm (it_id it) = Some t /\ q = pos + N.of_nat p.
Proof.
  induction l as [|x l IH]; intros nm pos q t; cbn [emit_body_names].
  - split; [intros []|]. intros (p & it & Hn & _). destruct p; discriminate.
  - assert (Tail : In (q, t) (emit_body_names (pos + 1) l nm) ->
                   exists p it, nth_error (x :: l) p = Some it /\ is_local it = true /\ it_del it = false /\
                                lookup nm (it_id it) = Some t /\ q = pos + N.of_nat p).
    { intros H. apply IH in H as (p & it & Hn & Hl & Hd & Hk & Hq). exists (S p), it. cbn [nth_error].
      repeat split; try assumption. lia. }
    assert (TailR : forall p it, nth_error l p = Some it -> is_local it = true -> it_del it = false ->
                    lookup nm (it_id it) = Some t -> In (pos + N.of_nat (S p), t) (emit_body_names (pos + 1) l nm)).
    { intros p it Hn Hl Hd Hk. apply IH. exists p, it. repeat split; try assumption. lia. }
    destruct (it_del x || is_import x) eqn:Eskip.
    + split; [exact Tail|]. intros (p & it & Hn & Hl & Hd & Hk & ->). destruct p as [|p]; cbn in Hn.
      * inversion Hn; subst. unfold is_import in Eskip. rewrite Hl, Hd in Eskip. discriminate.
      * exact (TailR p it Hn Hl Hd Hk).
    + apply orb_false_iff in Eskip as [Ed Ei]. unfold is_import in Ei. apply negb_false_iff in Ei.
      destruct (lookup nm (it_id x)) as [t0|] eqn:Ek.
      * split.
        -- intros [H|H]; [|exact (Tail H)]. inversion H; subst. exists 0%nat, x. cbn. repeat split; try assumption. lia.
        -- intros (p & it & Hn & Hl & Hd & Hk & ->). destruct p as [|p]; cbn in Hn.
           ++ inversion Hn; subst. left. rewrite Hk in Ek. inversion Ek; subst. f_equal. cbn. lia.
           ++ right. exact (TailR p it Hn Hl Hd Hk).
      * split; [exact Tail|]. intros (p & it & Hn & Hl & Hd & Hk & ->). destruct p as [|p]; cbn in Hn.
        -- inversion Hn; subst. rewrite Hk in Ek. discriminate.
        -- exact (TailR p it Hn Hl Hd Hk).
Qed.

(* emitted function imports: the entries of the emission order that occupy a function index of the output *)
Definition is_fn_entry (imports : list imp) (k : N) : bool := N.eqb (fst (import_at imports k)) 0.
Definition emitted_funcs_before (imports : list imp) (order : list N) (j : nat) : N :=
  lenN (filter (is_fn_entry imports) (firstn j order)).

Lemma efb_S imports k o j : emitted_funcs_before imports (k :: o) (S j)
  = (if is_fn_entry imports k then 1 else 0) + emitted_funcs_before imports o j.
Proof. unfold emitted_funcs_before, lenN. cbn [firstn filter]. destruct (is_fn_entry imports k); cbn [length]; lia. Qed.

Lemma emit_imp_names_spec imports nm : forall order idx q t,
  In (q, t) (emit_imp_names idx imports order nm) <->
  exists j k, nth_error order j = Some k /\ is_fn_entry imports k = true /\
              lookup nm k = Some t /\ q = idx + emitted_funcs_before imports order j.
Proof.
  induction order as [|k o IH]; intros idx q t; cbn [emit_imp_names].
  - split; [intros []|]. intros (j & k & Hn & _). destruct j; discriminate.
  - fold (is_fn_entry imports k).
    assert (Tail : forall idx', idx' = idx + (if is_fn_entry imports k then 1 else 0) ->
                   (In (q, t) (emit_imp_names idx' imports o nm) <->
                    exists j k', nth_error o j = Some k' /\ is_fn_entry imports k' = true /\ lookup nm k' = Some t /\
                                 q = idx + emitted_funcs_before imports (k :: o) (S j))).
    { intros idx' Ei. rewrite IH. split; intros (j & k' & Hn & Hf & Hk & Hq); exists j, k'; repeat split; try assumption;
        rewrite efb_S in *; lia. }
    assert (Split : (exists j k', nth_error (k :: o) j = Some k' /\ is_fn_entry imports k' = true /\ lookup nm k' = Some t /\
                                  q = idx + emitted_funcs_before imports (k :: o) j) <->
                    (is_fn_entry imports k = true /\ lookup nm k = Some t /\ q = idx) \/
                    (exists j k', nth_error o j = Some k' /\ is_fn_entry imports k' = true /\ lookup nm k' = Some t /\
                                  q = idx + emitted_funcs_before imports (k :: o) (S j))).
    { split.
      - intros (j & k' & Hn & Hf & Hk & Hq). destruct j as [|j]; cbn [nth_error] in Hn.
        + inversion Hn; subst k'. left. repeat split; try assumption. rewrite Hq. unfold emitted_funcs_before. cbn. lia.
        + right. exists j, k'. auto.
      - intros [(Hf & Hk & Hq)|(j & k' & Hn & Hf & Hk & Hq)].
        + exists 0%nat, k. repeat split; try assumption. rewrite Hq. unfold emitted_funcs_before. cbn. lia.
        + exists (S j), k'. auto. }
    rewrite Split. destruct (is_fn_entry imports k) eqn:Ef.
    + destruct (lookup nm k) as [t0|] eqn:Ek.
      * cbn [In]. rewrite (Tail (idx + 1) eq_refl). split.
        -- intros [H|H]; [left; inversion H; subst; auto|right; exact H].
        -- intros [(_ & Hk & Hq)|H]; [left; inversion Hk; subst; reflexivity|right; exact H].
      * rewrite (Tail (idx + 1) eq_refl). split; [intros H; right; exact H|]. intros [(_ & Hk & _)|H]; [discriminate|exact H].
    + rewrite (Tail idx) by lia. split; [intros H; right; exact H|]. intros [(Hf & _)|H]; [discriminate|exact H].
Qed.

(* emitted global imports: the entries of the emission order that occupy a global index of the output *)
Definition is_gl_entry (imports : list imp) (k : N) : bool := N.eqb (fst (import_at imports k)) 1.
Definition emitted_globals_before (imports : list imp) (order : list N) (j : nat) : N :=
  lenN (filter (is_gl_entry imports) (firstn j order)).

Lemma egb_S imports k o j : emitted_globals_before imports (k :: o) (S j)
  = (if is_gl_entry imports k then 1 else 0) + emitted_globals_before imports o j.
Proof. unfold emitted_globals_before, lenN. cbn [firstn filter]. destruct (is_gl_entry imports k); cbn [length]; lia. Qed.

Lemma emit_imp_gnames_spec imports nm : forall order idx q t,
  In (q, t) (emit_imp_gnames idx imports order nm) <->
  exists j k, nth_error order j = Some k /\ is_gl_entry imports k = true /\
              lookup nm k = Some t /\ q = idx + emitted_globals_before imports order j.
Proof.
  induction order as [|k o IH]; intros idx q t; cbn [emit_imp_gnames].
  - split; [intros []|]. intros (j & k & Hn & _). destruct j; discriminate.
  - fold (is_gl_entry imports k).
    assert (Tail : forall idx', idx' = idx + (if is_gl_entry imports k then 1 else 0) ->
                   (In (q, t) (emit_imp_gnames idx' imports o nm) <->
                    exists j k', nth_error o j = Some k' /\ is_gl_entry imports k' = true /\ lookup nm k' = Some t /\
                                 q = idx + emitted_globals_before imports (k :: o) (S j))).
    { intros idx' Ei. rewrite IH. split; intros (j & k' & Hn & Hf & Hk & Hq); exists j, k'; repeat split; try assumption;
        rewrite egb_S in *; lia. }
    assert (Split : (exists j k', nth_error (k :: o) j = Some k' /\ is_gl_entry imports k' = true /\ lookup nm k' = Some t /\
                                  q = idx + emitted_globals_before imports (k :: o) j) <->
                    (is_gl_entry imports k = true /\ lookup nm k = Some t /\ q = idx) \/
                    (exists j k', nth_error o j = Some k' /\ is_gl_entry imports k' = true /\ lookup nm k' = Some t /\
                                  q = idx + emitted_globals_before imports (k :: o) (S j))).
    { split.
      - intros (j & k' & Hn & Hf & Hk & Hq). destruct j as [|j]; cbn [nth_error] in Hn.
        + inversion Hn; subst k'. left. repeat split; try assumption. rewrite Hq. unfold emitted_globals_before. cbn. lia.
        + right. exists j, k'. auto.
      - intros [(Hf & Hk & Hq)|(j & k' & Hn & Hf & Hk & Hq)].
        + exists 0%nat, k. repeat split; try assumption. rewrite Hq. unfold emitted_globals_before. cbn. lia.
        + exists (S j), k'. auto. }
    rewrite Split. destruct (is_gl_entry imports k) eqn:Ef.
    + destruct (lookup nm k) as [t0|] eqn:Ek.
      * cbn [In]. rewrite (Tail (idx + 1) eq_refl). split.
        -- intros [H|H]; [left; inversion H; subst; auto|right; exact H].
        -- intros [(_ & Hk & Hq)|H]; [left; inversion Hk; subst; reflexivity|right; exact H].
      * rewrite (Tail (idx + 1) eq_refl). split; [intros H; right; exact H|]. intros [(_ & Hk & _)|H]; [discriminate|exact H].
    + rewrite (Tail idx) by lia. split; [intros H; right; exact H|]. intros [(Hf & _)|H]; [discriminate|exact H].
Qed.


Lemma emit_imp_gnames_ge imports nm : forall order idx q t, In (q, t) (emit_imp_gnames idx imports order nm) -> idx <= q.
Proof.
  induction order as [|k o IH]; intros idx q t H; cbn [emit_imp_gnames] in H; [destruct H|].
  destruct (N.eqb (fst (import_at imports k)) 1).
  - destruct (lookup nm k).
    + destruct H as [H|H]; [inversion H; lia|]. apply IH in H. lia.
    + apply IH in H. lia.
  - exact (IH _ _ _ H).
Qed.
Lemma emit_imp_gnames_NoDup imports nm : forall order idx, NoDup (map fst (emit_imp_gnames idx imports order nm)).
Proof.
  induction order as [|k o IH]; intros idx; cbn [emit_imp_gnames]; [constructor|].
  destruct (N.eqb (fst (import_at imports k)) 1); [|apply IH].
  destruct (lookup nm k); [|apply IH]. cbn [map fst]. constructor; [|apply IH].
  intro Hin. apply in_map_iff in Hin as ([q t] & Hq & Hin). cbn in Hq. subst q.
  apply emit_imp_gnames_ge in Hin. lia.
Qed.

(* reindex_namemap's `renamed`: the last entry of an index wins over the parsed one; here the indices are distinct *)
Lemma rename_all_In : forall (r l : nmap) q t, NoDup (map fst r) ->
  (In (q, t) (rename_all l r) <-> In (q, t) r \/ (~ In q (map fst r) /\ In (q, t) l)).
Proof.
  induction r as [|[i x] r IH]; intros l q t Hnd; cbn [rename_all map fst].
  - cbn. intuition.
  - inversion Hnd as [|? ? Hni Hnd']; subst. rewrite (IH _ q t Hnd'). rewrite in_app_iff, filter_In. cbn [In fst].
    split.
    + intros [H|(Hn & [(Hl & Hne)|[H|[]]])].
      * left. right. exact H.
      * right. split; [|exact Hl]. intros [E|E]; [|contradiction]. subst i. rewrite N.eqb_refl in Hne. discriminate.
      * left. left. exact H.
    + intros [[H|H]|(Hn & Hl)].
      * inversion H; subst. right. split; [exact Hni|]. right. left. reflexivity.
      * left. exact H.
      * right. split; [intro E; apply Hn; right; exact E|]. left. split; [exact Hl|].
        apply negb_true_iff. apply N.eqb_neq. intro E. apply Hn. left. symmetry. exact E.
Qed.

(* FULL: for every history, the rebuilt function-name map consists exactly of
   - for every live local function that carries a body name: (its position in the function vector after
     recalculate_ids, the name) - and that position is the index the id map sends the function's stored id to, i.e.
     the index every `call` / `ref.func` / export / start / element reference to the function is rewritten to;
   - for every emitted function import whose entry carries a custom name: (its position among the emitted function
     imports, the name) - the function index Wasm's rule gives the import (see [import_name_index_is_wasm_index]);
     by [names_follow_import_items] this is also the index the id map sends the import's function id to. *)
Theorem names_follow_functions :
  forall (c : ncase) (s0 s : nst) (h : list nop) (rets : list (option N)) (lf lg lm : list item) (mf : list (N * N)),
    init_state c = Ok s0 -> nrun_pref s0 h [] = (s, rets, false) ->
    index_space (m_f (ns_m s)) = Ok (lf, mf) ->
    forall q t, In (q, t) (emit_fnames s lf lg lm) <->
      (exists p it, nth_error lf p = Some it /\ is_local it = true /\ it_del it = false /\
                    lookup (ns_body s) (it_id it) = Some t /\ lookup mf (it_id it) = Some q /\ q = N.of_nat p)
      \/ (exists j k, nth_error (emitted_imports (m_imports (ns_m s)) lf lg lm) j = Some k /\
                      is_fn_entry (m_imports (ns_m s)) k = true /\ lookup (ns_imp s) k = Some t /\
                      q = emitted_funcs_before (m_imports (ns_m s)) (emitted_imports (m_imports (ns_m s)) lf lg lm) j).
Proof.
  intros c s0 s h rets lf lg lm mf H0 Hrun Hidx q t.
  pose proof (reachable_inv _ _ _ _ _ _ H0 Hrun) as (Hf & _ & _).
  destruct (index_space_NoDup _ _ _ Hf Hidx) as [Hnd ->].
  unfold emit_fnames. rewrite in_app_iff, emit_imp_names_spec, emit_body_names_spec. split.
  - intros [(j & k & Hn & Hs & Hk & Hq)|(p & it & Hn & Hl & Hd & Hk & Hq)].
    + right. exists j, k. rewrite !N.add_0_l in *. auto.
    + left. exists p, it. rewrite N.add_0_l in Hq. subst q. repeat split; try assumption.
      exact (mapping_pos lf p it Hnd Hn).
  - intros [(p & it & Hn & Hl & Hd & Hk & _ & Hq)|(j & k & Hn & Hs & Hk & Hq)].
    + right. exists p, it. rewrite N.add_0_l. auto.
    + left. exists j, k. rewrite !N.add_0_l. auto.
Qed.

(* ------------------------------------------------------------------------------------------ *)
(* 5. the index under which an import's name is emitted is the import's function index by Wasm's rule *)
Lemma nth_filter_before {A} (f : A -> bool) : forall l k x,
  nth_error l k = Some x -> f x = true -> nth_error (filter f l) (length (filter f (firstn k l))) = Some x.
Proof.
  induction l as [|y l IH]; intros k x Hn Hf; [destruct k; discriminate|].
  destruct k as [|k]; cbn in Hn.
  - inversion Hn; subst. cbn. rewrite Hf. reflexivity.
  - cbn [firstn filter]. destruct (f y); cbn [length nth_error]; exact (IH k x Hn Hf).
Qed.

Theorem import_name_index_is_wasm_index m dead sites e lf mf lg mg lm mm j k :
  encode m dead sites = Ok e ->
  index_space (m_f m) = Ok (lf, mf) -> index_space (m_g m) = Ok (lg, mg) -> index_space (m_m m) = Ok (lm, mm) ->
  nth_error (emitted_imports (m_imports m) lf lg lm) j = Some k -> is_fn_entry (m_imports m) k = true ->
  designates e SF (emitted_funcs_before (m_imports m) (emitted_imports (m_imports m) lf lg lm) j)
  = Some (snd (import_at (m_imports m) k)).
Proof.
  intros He Hf Hg Hm Hn Hs. unfold encode in He. rewrite Hf, Hg, Hm in He.
  match type of He with match ?X with _ => _ end = _ => destruct X; [|discriminate] end.
  inversion He; subst e; clear He.
  unfold designates, space_of, nthN. cbn [e_imports e_funcs sp_code].
  set (order := emitted_imports (m_imports m) lf lg lm) in *.
  assert (Efilt : forall L, filter (fun i : N * N => N.eqb (fst i) 0) (map (import_at (m_imports m)) L)
                            = map (import_at (m_imports m)) (filter (is_fn_entry (m_imports m)) L)).
  { induction L as [|a0 L IH]; [reflexivity|]. cbn [map filter]. unfold is_fn_entry at 1.
    destruct (N.eqb (fst (import_at (m_imports m) a0)) 0); cbn [map]; [f_equal|]; exact IH. }
  rewrite Efilt. unfold emitted_funcs_before. rewrite lenN_length.
  pose proof (nth_filter_before (is_fn_entry (m_imports m)) _ _ _ Hn Hs) as Hnth.
  rewrite nth_error_app1.
  - rewrite !nth_error_map, Hnth. reflexivity.
  - rewrite !map_length. apply nth_error_Some. rewrite Hnth. discriminate.
Qed.


(* ------------------------------------------------------------------------------------------ *)
(* 5'. the name of an imported function follows the function: the import item at position p of the recomputed
   function vector - p is the index the id map sends its stored id to - gets the custom name of its import entry
   at index p.  Uses the linkage invariant of Proofs/ReidxInv.v (the function slots of the import section are filled
   with exactly the live import items of the function space, in index order). *)
Lemma nstep_wf s o s' r : nstep s o = Ok (s', r) -> ReidxInv.wf (ns_m s) -> ReidxInv.wf (ns_m s').
Proof.
  intros H W. destruct o as [e b|id t|id t|id t|k t].
  - apply nstep_edit_m in H. exact (ReidxInv.step_wf _ _ _ _ W H).
  - unfold nstep, imp_set_fn_name in H. break_match_in H; inversion H; subst; exact W.
  - unfold nstep in H. break_match_in H; inversion H; subst; exact W.
  - unfold nstep, imp_set_fn_name in H. break_match_in H; inversion H; subst; exact W.
  - unfold nstep in H. break_match_in H; inversion H; subst; exact W.
Qed.
Lemma nrun_pref_wf : forall h s rets s' rets' p,
  nrun_pref s h rets = (s', rets', p) -> ReidxInv.wf (ns_m s) -> ReidxInv.wf (ns_m s').
Proof.
  induction h as [|o h IH]; intros s rets s' rets' p H W; cbn in H.
  - inversion H; subst. exact W.
  - destruct (nstep s o) as [[s1 r]|w] eqn:E.
    + exact (IH _ _ _ _ _ H (nstep_wf _ _ _ _ E W)).
    + inversion H; subst. exact W.
Qed.
Theorem reachable_wf c s0 h s rets p :
  init_state c = Ok s0 -> nrun_pref s0 h [] = (s, rets, p) -> ReidxInv.wf (ns_m s).
Proof.
  intros H0 H. apply (nrun_pref_wf _ _ _ _ _ _ H).
  unfold init_state, parse_names in H0. destruct (parse_fnames _ _ _ _) as [[i b]|]; [|discriminate].
  inversion H0; subst. cbn [ns_m]. apply ReidxInv.wf_mk_base.
Qed.

Lemma nth_filter_inv {A} (f : A -> bool) : forall L p x,
  nth_error (filter f L) p = Some x ->
  exists j, nth_error L j = Some x /\ f x = true /\ length (filter f (firstn j L)) = p.
Proof.
  induction L as [|y L IH]; intros p x H; [destruct p; discriminate|].
  cbn [filter] in H. destruct (f y) eqn:Ef.
  - destruct p as [|p]; cbn [nth_error] in H.
    + inversion H; subst. exists 0%nat. repeat split; auto.
    + destruct (IH p x H) as (j & Hj & Hf & Hl). exists (S j). cbn [nth_error firstn filter]. rewrite Ef. cbn [length].
      repeat split; auto.
  - destruct (IH p x H) as (j & Hj & Hf & Hl). exists (S j). cbn [nth_error firstn filter]. rewrite Ef. auto.
Qed.
Lemma live_imp_ks_nth : forall L p it k,
  (forall q i, (q < p)%nat -> nth_error L q = Some i -> is_import i = true /\ it_del i = false) ->
  nth_error L p = Some it -> it_imp it = Some k -> it_del it = false ->
  nth_error (live_imp_ks L) p = Some k.
Proof.
  induction L as [|a L IH]; intros p it k Hbefore Hn Hi Hd; [destruct p; discriminate|].
  unfold live_imp_ks. cbn [flat_map]. fold (live_imp_ks L). destruct p as [|p]; cbn [nth_error] in Hn.
  - inversion Hn; subst a. rewrite Hi, Hd. reflexivity.
  - destruct (Hbefore 0%nat a (Nat.lt_0_succ p) eq_refl) as [Ha Hda].
    unfold is_import, is_local in Ha. destruct (it_imp a) as [ka|]; [|discriminate]. rewrite Hda. cbn [app nth_error].
    apply (IH p it k); try assumption. intros q i Hq Hqi. apply (Hbefore (S q) i); [lia|exact Hqi].
Qed.

Theorem names_follow_import_items :
  forall (c : ncase) (s0 s : nst) (h : list nop) (rets : list (option N)) lf mf lg mg lm mm,
    init_state c = Ok s0 -> nrun_pref s0 h [] = (s, rets, false) ->
    index_space (m_f (ns_m s)) = Ok (lf, mf) -> index_space (m_g (ns_m s)) = Ok (lg, mg) ->
    index_space (m_m (ns_m s)) = Ok (lm, mm) ->
    forall p it k t, nth_error lf p = Some it -> it_imp it = Some k -> lookup (ns_imp s) k = Some t ->
      In (N.of_nat p, t) (emit_fnames s lf lg lm) /\ lookup mf (it_id it) = Some (N.of_nat p).
Proof.
  intros c s0 s h rets lf mf lg mg lm mm H0 Hrun Hf Hg Hm p it k t Hn Hi Hk.
  pose proof (reachable_wf _ _ _ _ _ _ H0 Hrun) as W.
  pose proof (reachable_inv _ _ _ _ _ _ H0 Hrun) as (Hinv & _ & _).
  destruct (index_space_NoDup _ _ _ Hinv Hf) as [Hnd Emf].
  split; [|rewrite Emf; exact (mapping_pos lf p it Hnd Hn)].
  pose proof (proj1 (ReidxInv.index_space_wf _ _ _ (W SF) _ _ Hf)) as El. cbn [get_sp] in El.
  set (orig := ReidxInv.origN (m_f (ns_m s))) in *. set (items := s_items (m_f (ns_m s))) in *.
  assert (Hd : it_del it = false) by (apply (spec_no_deleted orig items); rewrite <- El; eapply nth_error_In; exact Hn).
  (* everything in front of an import item of the recomputed vector is a live import item *)
  assert (Hks : nth_error (live_imp_ks lf) p = Some k).
  { apply (live_imp_ks_nth lf p it k); try assumption.
    intros q i Hq Hqi. rewrite El, ReidxBind.spec_split in Hqi, Hn.
    assert (Hp : (p < length (ReidxBind.Ipart orig items))%nat).
    { destruct (Nat.lt_ge_cases p (length (ReidxBind.Ipart orig items))) as [Hlt|Hge]; [exact Hlt|exfalso].
      rewrite nth_error_app2 in Hn by exact Hge.
      destruct (ReidxBind.Lpart_locals _ _ it (nth_error_In _ _ Hn)) as [Hl _].
      unfold is_local in Hl. rewrite Hi in Hl. discriminate. }
    rewrite nth_error_app1 in Hqi by lia. exact (ReidxBind.Ipart_imports _ _ i (nth_error_In _ _ Hqi)). }
  pose proof (ReidxInv.wf_emitted_imports_kind (ns_m s) SF W) as Ekind.
  unfold ReidxInv.ispace_m in Ekind. cbn [get_sp sp_code] in Ekind. rewrite Hf, Hg, Hm in Ekind. cbn [fst] in Ekind.
  rewrite <- Ekind in Hks.
  destruct (nth_filter_inv _ _ _ _ Hks) as (j & Hj & Hfn & Hlen).
  unfold emit_fnames. apply in_or_app. left. apply emit_imp_names_spec.
  exists j, k. repeat split; try assumption.
  unfold emitted_funcs_before, lenN, is_fn_entry. rewrite Hlen. lia.
Qed.

(* ------------------------------------------------------------------------------------------ *)
(* 6. local and global names: correct exactly when the id maps are the identity on the named ids *)
Lemma mapping_from_inv : forall l pos acc k p,
  lookup (mapping_from pos l acc) k = Some p ->
  (exists n it, nth_error l n = Some it /\ it_id it = k /\ p = pos + N.of_nat n) \/ lookup acc k = Some p.
Proof.
  induction l as [|i l IH]; intros pos acc k p H; cbn [mapping_from] in H; [right; exact H|].
  apply IH in H as [(n & it & Hn & Hid & Hp)|H].
  - left. exists (S n), it. cbn [nth_error]. repeat split; try assumption. lia.
  - cbn [lookup] in H. destruct (N.eqb_spec k (it_id i)) as [->|Hne].
    + inversion H; subst. left. exists 0%nat, i. cbn. repeat split. lia.
    + right. rewrite lookup_filter_neq in H by exact Hne. exact H.
Qed.
Theorem mapping_inv l k p :
  lookup (mapping l) k = Some p -> exists it, nth_error l (N.to_nat p) = Some it /\ it_id it = k.
Proof.
  unfold mapping. intros H. apply mapping_from_inv in H as [(n & it & Hn & Hid & Hp)|H]; [|discriminate].
  exists it. subst p. rewrite N.add_0_l, Nat2N.id. auto.
Qed.

Definition maps_identity {B} (mp : list (N * N)) (named : list (N * B)) : Prop :=
  forall k v, In (k, v) named -> lookup mp k = Some k.

Lemma index_space_mapping s l m : index_space s = Ok (l, m) -> m = mapping l.
Proof.
  unfold index_space. destruct (s_recalc s).
  - destruct (N.eqb _ _); intros H; inversion H; reflexivity.
  - intros H; inversion H; reflexivity.
Qed.

(* the global stored under an id keeps its identity (fingerprint) through every edit: globals are only appended
   or flagged deleted, never replaced *)
Definition g_stable (l l' : list item) : Prop :=
  forall p it, nth_error l p = Some it -> exists it', nth_error l' p = Some it' /\ it_fp it' = it_fp it.
Lemma g_stable_refl l : g_stable l l.
Proof. intros p it H. exists it. auto. Qed.
Lemma g_stable_trans a b c : g_stable a b -> g_stable b c -> g_stable a c.
Proof. intros H1 H2 p it H. apply H1 in H as (it1 & H & E1). apply H2 in H as (it2 & H & E2). exists it2. split; congruence. Qed.
Lemma g_stable_app l x : g_stable l (l ++ [x]).
Proof. intros p it H. exists it. split; [|reflexivity]. rewrite nth_error_app1; [exact H|]. apply nth_error_Some. congruence. Qed.
Lemma g_stable_del l id : g_stable l (if id <? lenN l then updN id (set_del true) l else l).
Proof.
  destruct (id <? lenN l); [|apply g_stable_refl]. intros p it H. unfold updN. rewrite nth_error_upd, H.
  destruct (Nat.eqb p (N.to_nat id)); cbn; eexists; split; reflexivity.
Qed.
Lemma delete_in_g m s id m' : delete_in m s id = Ok m' -> g_stable (s_items (m_g m)) (s_items (m_g m')).
Proof.
  unfold delete_in. intros H. destruct (nthN _ id) as [it|]; [|discriminate].
  destruct (it_imp it); inversion H; subst; clear H; destruct s; cbn; try apply g_stable_refl; apply g_stable_del.
Qed.
Lemma step_g_stable m o m' r : Reindex.step m o = Ok (m', r) -> g_stable (s_items (m_g m)) (s_items (m_g m')).
Proof.
  intros H. destruct o as [s fp|s fp|s id|id fp|k fp|fp|s id|k|mem]; cbn [Reindex.step] in H.
  - destruct s; break_match_in H; inversion H; subst; cbn; try apply g_stable_refl; apply g_stable_app.
  - destruct s; unfold push_import in H; cbn in H; break_match_in H; inversion H; subst; cbn; try apply g_stable_refl; apply g_stable_app.
  - destruct (delete_in m s id) as [m1|] eqn:E; [|discriminate]. inversion H; subst. exact (delete_in_g _ _ _ _ E).
  - destruct (nthN (s_items (m_f m)) id) as [it|]; [|discriminate].
    destruct (is_import it); [inversion H; subst; apply g_stable_refl|].
    destruct (delete_in m SF id) as [m1|] eqn:E; [|discriminate].
    unfold push_import in H. cbn in H. inversion H; subst. cbn. exact (delete_in_g _ _ _ _ E).
  - destruct (nthN (m_imports m) k) as [im|]; [|discriminate].
    destruct (negb (N.eqb (i_sp im) 0)); [discriminate|].
    destruct (find_imp (s_items (m_f m)) k 0) as [p|]; [|inversion H; subst; apply g_stable_refl].
    destruct (delete_in m SF p) as [m1|] eqn:E; [|discriminate].
    inversion H; subst. cbn. exact (delete_in_g _ _ _ _ E).
  - inversion H; subst. cbn. apply g_stable_app.
  - inversion H; subst. apply g_stable_refl.
  - inversion H; subst. apply g_stable_refl.
  - inversion H; subst. apply g_stable_refl.
Qed.
Lemma nstep_g_stable s o s' r : nstep s o = Ok (s', r) -> g_stable (s_items (m_g (ns_m s))) (s_items (m_g (ns_m s'))).
Proof.
  intros H. destruct o as [e b|id t|id t|id t|k t].
  - apply nstep_edit_m in H. exact (step_g_stable _ _ _ _ H).
  - unfold nstep, imp_set_fn_name in H. break_match_in H; inversion H; subst; apply g_stable_refl.
  - unfold nstep in H. break_match_in H; inversion H; subst; apply g_stable_refl.
  - unfold nstep, imp_set_fn_name in H. break_match_in H; inversion H; subst; apply g_stable_refl.
  - unfold nstep in H. break_match_in H; inversion H; subst; apply g_stable_refl.
Qed.
Lemma nrun_pref_g_stable : forall h s rets s' rets' p,
  nrun_pref s h rets = (s', rets', p) -> g_stable (s_items (m_g (ns_m s))) (s_items (m_g (ns_m s'))).
Proof.
  induction h as [|o h IH]; intros s rets s' rets' p H; cbn in H.
  - inversion H; subst. apply g_stable_refl.
  - destruct (nstep s o) as [[s1 r]|w] eqn:E.
    + exact (g_stable_trans _ _ _ (nstep_g_stable _ _ _ _ E) (IH _ _ _ _ _ H)).
    + inversion H; subst. apply g_stable_refl.
Qed.

Lemma index_space_incl s l m x : inv_space s -> index_space s = Ok (l, m) -> In x l -> In x (s_items s).
Proof.
  intros [_ Hle] H Hin. unfold index_space in H. destruct (s_recalc s).
  - rewrite reorganise_spec_N in H by exact Hle. destruct (N.eqb _ _); inversion H; subst.
    exact (spec_incl _ _ _ Hin).
  - inversion H; subst. exact Hin.
Qed.

(* ---- re-indexing of a parsed name map: reindex_names of wrappers.rs ---- *)
Lemma In_reindex {B} (mp : list (N * N)) : forall (l : list (N * B)) q v,
  In (q, v) (reindex mp l) <-> exists k, In (k, v) l /\ lookup mp k = Some q.
Proof.
  induction l as [|[k0 v0] l IH]; intros q v; cbn [reindex flat_map fst snd].
  - split; [intros []|intros (k & [] & _)].
  - fold (reindex mp l). rewrite in_app_iff, IH. split.
    + intros [H|(k & Hk & Hl)].
      * destruct (lookup mp k0) as [q0|] eqn:E; [|destruct H]. destruct H as [H|[]]. inversion H; subst.
        exists k0. split; [left; reflexivity|exact E].
      * exists k. split; [right; exact Hk|exact Hl].
    + intros (k & [Hk|Hk] & Hl).
      * inversion Hk; subst. left. rewrite Hl. left. reflexivity.
      * right. exists k. auto.
Qed.
Lemma In_insert_key {B} (x : N * B) : forall l y, In y (insert_key x l) <-> y = x \/ In y l.
Proof.
  induction l as [|z l IH]; intros y; cbn [insert_key].
  - cbn. intuition.
  - destruct (fst x <=? fst z); cbn [In]; [intuition|]. rewrite IH. intuition.
Qed.
Lemma In_sort_key {B} : forall (l : list (N * B)) y, In y (sort_key l) <-> In y l.
Proof.
  induction l as [|x l IH]; intros y; cbn [sort_key fold_right]; [reflexivity|].
  fold (sort_key l). rewrite In_insert_key, IH. cbn. intuition.
Qed.
(* the emitted map is in ascending index order, as the name section requires *)
Inductive ascending {B} : list (N * B) -> Prop :=
| asc_nil : ascending []
| asc_one x : ascending [x]
| asc_cons x y l : fst x <= fst y -> ascending (y :: l) -> ascending (x :: y :: l).
Lemma insert_key_ascending {B} (x : N * B) : forall l, ascending l -> ascending (insert_key x l).
Proof.
  induction l as [|y l IH]; intros Hs; cbn [insert_key]; [constructor|].
  destruct (fst x <=? fst y) eqn:E.
  - constructor; [apply N.leb_le; exact E|exact Hs].
  - apply N.leb_gt in E. inversion Hs; subst.
    + cbn. constructor; [lia|constructor].
    + specialize (IH H2). cbn [insert_key] in *. destruct (fst x <=? fst y0) eqn:E2.
      * constructor; [lia|]. constructor; [apply N.leb_le; exact E2|exact H2].
      * constructor; [exact H1|exact IH].
Qed.
Lemma sort_key_ascending {B} : forall l : list (N * B), ascending (sort_key l).
Proof.
  induction l as [|x l IH]; cbn [sort_key fold_right]; [constructor|]. apply insert_key_ascending. exact IH.
Qed.
Lemma In_remembered {B} forgot : forall (l : list (N * B)) kv,
  In kv (remembered forgot l) <-> In kv l /\ ~ In (fst kv) forgot.
Proof.
  intros l kv. unfold remembered. rewrite filter_In. split; intros [H1 H2]; (split; [exact H1|]).
  - intro Hin. apply negb_true_iff in H2.
    assert (T : existsb (N.eqb (fst kv)) forgot = true) by (apply existsb_exists; exists (fst kv); split; [exact Hin|apply N.eqb_refl]).
    congruence.
  - apply negb_true_iff. destruct (existsb _ forgot) eqn:E; [|reflexivity]. exfalso. apply H2.
    apply existsb_exists in E as (x & Hx & Ex). apply N.eqb_eq in Ex. subst. exact Hx.
Qed.

Lemma nencode_names c s e n lf mf lg mg lm mm :
  nencode (nb_names c) s = Ok (e, n) ->
  index_space (m_f (ns_m s)) = Ok (lf, mf) -> index_space (m_g (ns_m s)) = Ok (lg, mg) -> index_space (m_m (ns_m s)) = Ok (lm, mm) ->
  n = emit_names (nb_names c) s lf lg lm mf mg mm.
Proof.
  unfold nencode. intros H Hf Hg Hm. destruct (encode _ _ _) as [e'|]; [|discriminate].
  rewrite Hf, Hg, Hm in H. inversion H; reflexivity.
Qed.

(* FULL (since the repair of D21 and D202), for every input module and every history: the emitted global-name map
   consists exactly of (global index of an emitted global import, the custom name of its entry) - see
   [emit_imp_gnames_spec] - and, for the indices no such name is given to, of the parsed entries whose global still has
   an index, each under that new index - the names of deleted globals are gone, no other name appears - in ascending
   order; and the item found at that index is the very global
   the input had under the parsed index (same stored id, same fingerprint). *)
Theorem global_names_stay_attached :
  forall (c : ncase) (s0 s : nst) (h : list nop) (rets : list (option N)) (e : emod) (n : names) lf mf lg mg lm mm,
    init_state c = Ok s0 -> nrun_pref s0 h [] = (s, rets, false) -> nencode (nb_names c) s = Ok (e, n) ->
    index_space (m_f (ns_m s)) = Ok (lf, mf) -> index_space (m_g (ns_m s)) = Ok (lg, mg) -> index_space (m_m (ns_m s)) = Ok (lm, mm) ->
    (forall q t, In (q, t) (n_globals n) <->
       In (q, t) (import_global_names s lf lg lm) \/
       (~ In q (map fst (import_global_names s lf lg lm)) /\ exists g, In (g, t) (n_globals (nb_names c)) /\ lookup mg g = Some q)) /\
    ascending (n_globals n) /\
    (forall g t q g0, In (g, t) (n_globals (nb_names c)) -> lookup mg g = Some q ->
       nth_error (s_items (m_g (ns_m s0))) (N.to_nat g) = Some g0 ->            (* the input's global number g *)
       exists it, nth_error lg (N.to_nat q) = Some it /\ it_id it = g /\ it_fp it = it_fp g0).
Proof.
  intros c s0 s h rets e n lf mf lg mg lm mm H0 Hrun Henc Hf Hg Hm.
  rewrite (nencode_names _ _ _ _ _ _ _ _ _ _ Henc Hf Hg Hm). cbn [emit_names n_globals].
  split; [|split].
  - intros q t. rewrite In_sort_key. unfold import_global_names.
    rewrite (rename_all_In _ _ q t (emit_imp_gnames_NoDup _ _ _ _)), In_reindex. reflexivity.
  - apply sort_key_ascending.
  - intros g t q g0 _ Hid Hg0.
    pose proof (reachable_inv _ _ _ _ _ _ H0 Hrun) as (_ & Hgi & _).
    pose proof (index_space_mapping _ _ _ Hg) as ->.
    destruct (mapping_inv _ _ _ Hid) as (it & Hn & Hit). exists it. repeat split; try assumption.
    destruct (nrun_pref_g_stable _ _ _ _ _ _ Hrun _ _ Hg0) as (it' & Hn' & Hfp).
    assert (Hin : In it (s_items (m_g (ns_m s)))) by (apply (index_space_incl _ _ _ _ Hgi Hg); exact (nth_error_In _ _ Hn)).
    assert (Hin' : In it' (s_items (m_g (ns_m s)))) by exact (nth_error_In _ _ Hn').
    destruct Hgi as [Hp _].
    assert (it = it') as ->; [|exact Hfp].
    apply (pos_ids_inj _ Hp); try assumption. rewrite Hit, (Hp _ _ Hn'). symmetry. apply N2Nat.id.
Qed.

(* the function stored under an id keeps its identity (fingerprint, local / imported) through every edit unless it is
   converted - and then the names of its locals and labels are forgotten *)
Definition f_kept (l : list item) (s : nst) : Prop :=
  forall p it, nth_error l p = Some it ->
    In (N.of_nat p) (ns_forgot s) \/
    exists it', nth_error (s_items (m_f (ns_m s))) p = Some it' /\ it_fp it' = it_fp it /\ it_imp it' = it_imp it.

Lemma delete_in_f_items m s id m' : delete_in m s id = Ok m' ->
  forall p it, nth_error (s_items (m_f m)) p = Some it ->
    exists it', nth_error (s_items (m_f m')) p = Some it' /\ it_fp it' = it_fp it /\ it_imp it' = it_imp it.
Proof.
  unfold delete_in. intros H p it Hp. destruct (nthN _ id) as [it0|]; [|discriminate].
  assert (X : forall l : list item, nth_error l p = Some it ->
              exists it', nth_error (if id <? lenN l then updN id (set_del true) l else l) p = Some it' /\ it_fp it' = it_fp it /\ it_imp it' = it_imp it).
  { intros l Hl. destruct (id <? lenN l); [|exists it; auto]. unfold updN. rewrite nth_error_upd, Hl.
    destruct (Nat.eqb p (N.to_nat id)); cbn; eexists; repeat split; reflexivity. }
  destruct (it_imp it0); inversion H; subst; clear H; destruct s; cbn; first [apply X; exact Hp | exists it; auto].
Qed.

Lemma nth_error_updN_other {A} (f : A -> A) (l : list A) (k : N) p : p <> N.to_nat k -> nth_error (updN k f l) p = nth_error l p.
Proof. intros H. unfold updN. rewrite nth_error_upd. destruct (Nat.eqb_spec p (N.to_nat k)); [contradiction|reflexivity]. Qed.

Lemma nstep_f_kept s o s' r : nstep s o = Ok (s', r) ->
  (forall x, In x (ns_forgot s) -> In x (ns_forgot s')) /\
  (forall p it, nth_error (s_items (m_f (ns_m s))) p = Some it ->
     In (N.of_nat p) (ns_forgot s') \/
     exists it', nth_error (s_items (m_f (ns_m s'))) p = Some it' /\ it_fp it' = it_fp it /\ it_imp it' = it_imp it).
Proof.
  intros H.
  assert (Same : forall s1, ns_forgot s1 = ns_forgot s -> s_items (m_f (ns_m s1)) = s_items (m_f (ns_m s)) ->
            (forall x, In x (ns_forgot s) -> In x (ns_forgot s1)) /\
            (forall p it, nth_error (s_items (m_f (ns_m s))) p = Some it ->
               In (N.of_nat p) (ns_forgot s1) \/
               exists it', nth_error (s_items (m_f (ns_m s1))) p = Some it' /\ it_fp it' = it_fp it /\ it_imp it' = it_imp it)).
  { intros s1 E1 E2. rewrite E1, E2. split; [auto|]. intros p it Hp. right. exists it. auto. }
  destruct o as [e b|id t|id t|id t|k t].
  2-5: (unfold nstep, imp_set_fn_name in H; break_match_in H; inversion H; subst; apply Same; reflexivity).
  unfold nstep in H. destruct (Reindex.step (ns_m s) e) as [[m' r']|w] eqn:E; [|discriminate].
  destruct e as [x fp|x fp|x id|id fp|k fp|fp|x id|k|mem]; cbn [Reindex.step] in E.
  - (* AddLocal *)
    assert (Hit : forall p it, nth_error (s_items (m_f (ns_m s))) p = Some it -> nth_error (s_items (m_f m')) p = Some it).
    { intros p it Hp. destruct x; break_match_in E; inversion E; subst; cbn; try exact Hp;
        (rewrite nth_error_app1; [exact Hp|]; apply nth_error_Some; congruence). }
    assert (Hf : ns_forgot s' = ns_forgot s /\ ns_m s' = m').
    { destruct x; break_match_in H; inversion H; subst; cbn; auto. }
    destruct Hf as [Hf Hm]. rewrite Hf, Hm. split; [auto|]. intros p it Hp. right. exists it. auto.
  - (* AddImport *)
    assert (Hit : forall p it, nth_error (s_items (m_f (ns_m s))) p = Some it -> nth_error (s_items (m_f m')) p = Some it).
    { intros p it Hp. destruct x; unfold push_import in E; cbn in E; break_match_in E; inversion E; subst; cbn; try exact Hp;
        (rewrite nth_error_app1; [exact Hp|]; apply nth_error_Some; congruence). }
    assert (Hf : ns_forgot s' = ns_forgot s /\ ns_m s' = m') by (destruct x; inversion H; subst; cbn; auto).
    destruct Hf as [Hf Hm]. rewrite Hf, Hm. split; [auto|]. intros p it Hp. right. exists it. auto.
  - (* Delete *)
    destruct (delete_in (ns_m s) x id) as [m1|] eqn:Ed; [|discriminate]. inversion E; subst m1 r'; clear E.
    assert (Hf : ns_forgot s' = ns_forgot s /\ ns_m s' = m') by (destruct x; inversion H; subst; cbn; auto).
    destruct Hf as [Hf Hm]. rewrite Hf, Hm. split; [auto|]. intros p it Hp. right.
    exact (delete_in_f_items _ _ _ _ Ed p it Hp).
  - (* LocalToImport *)
    destruct (nthN (s_items (m_f (ns_m s))) id) as [it0|] eqn:E0; [|discriminate].
    destruct (is_import it0) eqn:Ei.
    + inversion E; subst. inversion H; subst. apply Same; reflexivity.
    + destruct (delete_in (ns_m s) SF id) as [m1|] eqn:Ed; [|discriminate].
      unfold push_import in E. cbn in E. inversion E; subst m' r'; clear E.
      inversion H; subst s' r; clear H. cbn [ns_forgot ns_m]. split; [intros x0 Hx; right; exact Hx|].
      intros p it Hp. destruct (Nat.eq_dec p (N.to_nat id)) as [->|Hne].
      * left. left. symmetry. apply N2Nat.id.
      * right. destruct (delete_in_f_items _ _ _ _ Ed p it Hp) as (it' & Hn' & A & B).
        exists it'. cbn. rewrite nth_error_updN_other by exact Hne. auto.
  - (* ImportToLocal *)
    destruct (nthN (m_imports (ns_m s)) k) as [im|] eqn:Ek; [|discriminate].
    destruct (negb (N.eqb (i_sp im) 0)); [discriminate|].
    destruct (find_imp (s_items (m_f (ns_m s))) k 0) as [p0|] eqn:Ef.
    + destruct (delete_in (ns_m s) SF p0) as [m1|] eqn:Ed; [|discriminate].
      inversion E; subst m' r'; clear E. inversion H; subst s' r; clear H. cbn [ns_forgot ns_m].
      split; [intros x0 Hx; right; exact Hx|].
      intros p it Hp. destruct (Nat.eq_dec p (N.to_nat p0)) as [->|Hne].
      * left. left. symmetry. apply N2Nat.id.
      * right. destruct (delete_in_f_items _ _ _ _ Ed p it Hp) as (it' & Hn' & A & B).
        exists it'. cbn. rewrite nth_error_updN_other by exact Hne. auto.
    + inversion E; subst. inversion H; subst. apply Same; reflexivity.
  - (* ItAddGlobal *)
    inversion E; subst. inversion H; subst. cbn. split; [auto|]. intros p it Hp. right. exists it. auto.
  - inversion E; subst. inversion H; subst. apply Same; reflexivity.
  - inversion E; subst. inversion H; subst. apply Same; reflexivity.
  - inversion E; subst. inversion H; subst. apply Same; reflexivity.
Qed.

Lemma nrun_pref_f_kept l : forall h s rets s' rets' p,
  nrun_pref s h rets = (s', rets', p) -> f_kept l s -> f_kept l s'.
Proof.
  induction h as [|o h IH]; intros s rets s' rets' p H K; cbn in H.
  - inversion H; subst. exact K.
  - destruct (nstep s o) as [[s1 r]|w] eqn:E; [|inversion H; subst; exact K].
    apply (IH _ _ _ _ _ H). destruct (nstep_f_kept _ _ _ _ E) as [Hmono Hstep].
    intros q it Hq. destruct (K q it Hq) as [Hin|(it1 & Hn1 & A1 & B1)]; [left; apply Hmono; exact Hin|].
    destruct (Hstep q it1 Hn1) as [Hin|(it2 & Hn2 & A2 & B2)]; [left; exact Hin|].
    right. exists it2. repeat split; congruence.
Qed.

(* FULL (since the repair of D21), for every input module and every history: the emitted local-name map consists exactly
   of the parsed entries whose function was not converted and still has an index, each under that new index, in
   ascending order; and the item found at that index is the very function the input had under the parsed index (same
   stored id, same fingerprint, still local resp. still imported). *)
Theorem local_names_stay_attached :
  forall (c : ncase) (s0 s : nst) (h : list nop) (rets : list (option N)) (e : emod) (n : names) lf mf lg mg lm mm,
    init_state c = Ok s0 -> nrun_pref s0 h [] = (s, rets, false) -> nencode (nb_names c) s = Ok (e, n) ->
    index_space (m_f (ns_m s)) = Ok (lf, mf) -> index_space (m_g (ns_m s)) = Ok (lg, mg) -> index_space (m_m (ns_m s)) = Ok (lm, mm) ->
    (forall q l, In (q, l) (n_locals n) <->
       exists f, In (f, l) (n_locals (nb_names c)) /\ ~ In f (ns_forgot s) /\ lookup mf f = Some q) /\
    ascending (n_locals n) /\
    (forall f l q f0, In (f, l) (n_locals (nb_names c)) -> ~ In f (ns_forgot s) -> lookup mf f = Some q ->
       nth_error (s_items (m_f (ns_m s0))) (N.to_nat f) = Some f0 ->            (* the input's function number f *)
       exists it, nth_error lf (N.to_nat q) = Some it /\ it_id it = f /\ it_fp it = it_fp f0 /\ it_imp it = it_imp f0).
Proof.
  intros c s0 s h rets e n lf mf lg mg lm mm H0 Hrun Henc Hf Hg Hm.
  rewrite (nencode_names _ _ _ _ _ _ _ _ _ _ Henc Hf Hg Hm). cbn [emit_names n_locals].
  split; [|split].
  - intros q l. rewrite In_sort_key, In_reindex. split.
    + intros (f & Hin & Hl). apply In_remembered in Hin as [Hin Hnf]. exists f. auto.
    + intros (f & Hin & Hnf & Hl). exists f. split; [|exact Hl]. apply In_remembered. auto.
  - apply sort_key_ascending.
  - intros f l q f0 _ Hnf Hid Hf0.
    pose proof (reachable_inv _ _ _ _ _ _ H0 Hrun) as (Hfi & _ & _).
    pose proof (index_space_mapping _ _ _ Hf) as ->.
    destruct (mapping_inv _ _ _ Hid) as (it & Hn & Hit). exists it. split; [exact Hn|]. split; [exact Hit|].
    assert (K0 : f_kept (s_items (m_f (ns_m s0))) s0) by (intros p0 it0 Hp0; right; exists it0; auto).
    pose proof (nrun_pref_f_kept _ _ _ _ _ _ _ Hrun K0 _ _ Hf0) as [Hin|(it' & Hn' & Hfp & Himp)].
    { rewrite N2Nat.id in Hin. contradiction. }
    assert (Hin : In it (s_items (m_f (ns_m s)))) by (apply (index_space_incl _ _ _ _ Hfi Hf); exact (nth_error_In _ _ Hn)).
    assert (Hin' : In it' (s_items (m_f (ns_m s)))) by exact (nth_error_In _ _ Hn').
    destruct Hfi as [Hp _].
    assert (it = it') as ->; [|split; assumption].
    apply (pos_ids_inj _ Hp); try assumption. rewrite Hit, (Hp _ _ Hn'). symmetry. apply N2Nat.id.
Qed.

(* the two statements about the *content* of the maps, and the two about the *entities*, side by side *)
Theorem name_maps_follow_their_entities :
  forall (c : ncase) (s0 s : nst) (h : list nop) (rets : list (option N)) (e : emod) (n : names) lf mf lg mg lm mm,
    init_state c = Ok s0 -> nrun_pref s0 h [] = (s, rets, false) -> nencode (nb_names c) s = Ok (e, n) ->
    index_space (m_f (ns_m s)) = Ok (lf, mf) -> index_space (m_g (ns_m s)) = Ok (lg, mg) -> index_space (m_m (ns_m s)) = Ok (lm, mm) ->
    (forall q t, In (q, t) (n_globals n) <->
       In (q, t) (import_global_names s lf lg lm) \/
       (~ In q (map fst (import_global_names s lf lg lm)) /\ exists g, In (g, t) (n_globals (nb_names c)) /\ lookup mg g = Some q)) /\
    (forall q l, In (q, l) (n_locals n) <->
       exists f, In (f, l) (n_locals (nb_names c)) /\ ~ In f (ns_forgot s) /\ lookup mf f = Some q) /\
    ascending (n_globals n) /\ ascending (n_locals n).
Proof.
  intros c s0 s h rets e n lf mf lg mg lm mm H0 Hrun Henc Hf Hg Hm.
  destruct (global_names_stay_attached _ _ _ _ _ _ _ _ _ _ _ _ _ H0 Hrun Henc Hf Hg Hm) as (G1 & G2 & _).
  destruct (local_names_stay_attached _ _ _ _ _ _ _ _ _ _ _ _ _ H0 Hrun Henc Hf Hg Hm) as (L1 & L2 & _).
  auto.
Qed.
Theorem named_entities_are_the_parsed_ones :
  forall (c : ncase) (s0 s : nst) (h : list nop) (rets : list (option N)) lf mf lg mg,
    init_state c = Ok s0 -> nrun_pref s0 h [] = (s, rets, false) ->
    index_space (m_f (ns_m s)) = Ok (lf, mf) -> index_space (m_g (ns_m s)) = Ok (lg, mg) ->
    (forall g q g0, lookup mg g = Some q -> nth_error (s_items (m_g (ns_m s0))) (N.to_nat g) = Some g0 ->
       exists it, nth_error lg (N.to_nat q) = Some it /\ it_id it = g /\ it_fp it = it_fp g0) /\
    (forall f q f0, ~ In f (ns_forgot s) -> lookup mf f = Some q -> nth_error (s_items (m_f (ns_m s0))) (N.to_nat f) = Some f0 ->
       exists it, nth_error lf (N.to_nat q) = Some it /\ it_id it = f /\ it_fp it = it_fp f0 /\ it_imp it = it_imp f0).
Proof.
  intros c s0 s h rets lf mf lg mg H0 Hrun Hf Hg. split.
  - intros g q g0 Hid Hg0.
    pose proof (reachable_inv _ _ _ _ _ _ H0 Hrun) as (_ & Hgi & _).
    pose proof (index_space_mapping _ _ _ Hg) as ->.
    destruct (mapping_inv _ _ _ Hid) as (it & Hn & Hit). exists it. repeat split; try assumption.
    destruct (nrun_pref_g_stable _ _ _ _ _ _ Hrun _ _ Hg0) as (it' & Hn' & Hfp).
    assert (Hin : In it (s_items (m_g (ns_m s)))) by (apply (index_space_incl _ _ _ _ Hgi Hg); exact (nth_error_In _ _ Hn)).
    assert (Hin' : In it' (s_items (m_g (ns_m s)))) by exact (nth_error_In _ _ Hn').
    destruct Hgi as [Hp _].
    assert (it = it') as ->; [|exact Hfp].
    apply (pos_ids_inj _ Hp); try assumption. rewrite Hit, (Hp _ _ Hn'). symmetry. apply N2Nat.id.
  - intros f q f0 Hnf Hid Hf0.
    pose proof (reachable_inv _ _ _ _ _ _ H0 Hrun) as (Hfi & _ & _).
    pose proof (index_space_mapping _ _ _ Hf) as ->.
    destruct (mapping_inv _ _ _ Hid) as (it & Hn & Hit). exists it. split; [exact Hn|]. split; [exact Hit|].
    assert (K0 : f_kept (s_items (m_f (ns_m s0))) s0) by (intros p0 it0 Hp0; right; exists it0; auto).
    pose proof (nrun_pref_f_kept _ _ _ _ _ _ _ Hrun K0 _ _ Hf0) as [Hin|(it' & Hn' & Hfp & Himp)].
    { rewrite N2Nat.id in Hin. contradiction. }
    assert (Hin : In it (s_items (m_f (ns_m s)))) by (apply (index_space_incl _ _ _ _ Hfi Hf); exact (nth_error_In _ _ Hn)).
    assert (Hin' : In it' (s_items (m_f (ns_m s)))) by exact (nth_error_In _ _ Hn').
    destruct Hfi as [Hp _].
    assert (it = it') as ->; [|split; assumption].
    apply (pos_ids_inj _ Hp); try assumption. rewrite Hit, (Hp _ _ Hn'). symmetry. apply N2Nat.id.
Qed.

(* ------------------------------------------------------------------------------------------ *)
(* 7. the boolean checker means what the property says                                          *)
Lemma nmap_eqb_eq : forall a b : nmap, nmap_eqb a b = true -> a = b.
Proof.
  unfold nmap_eqb. induction a as [|[x1 x2] a IH]; intros [|[y1 y2] b] H; cbn in H; try discriminate; [reflexivity|].
  apply andb_prop in H as [H1 H2]. unfold pair_eqb in H1. cbn in H1. apply andb_prop in H1 as [Ha Hb].
  apply N.eqb_eq in Ha, Hb. subst. f_equal. exact (IH _ H2).
Qed.

(* the property on an observed output, as a proposition *)
Definition Names_attached (s : nspec) (e : emod) (n : names) : Prop :=
  (* every emitted function name sits on the entity that carries it (or that the conversion API named so) *)
  (forall q t, In (q, t) (n_funcs n) ->
     exists h, out_handle (sp_s s) e SF q = Some h /\ (lookup (sp_fn s) h = Some t \/ In (h, t) (sp_alt s))) /\
  (* every live named function still has a name entry *)
  (forall h t, In (h, t) (sp_fn s) -> is_live (ss_f (sp_s s)) h = true ->
     exists q t', In (q, t') (n_funcs n) /\ out_handle (sp_s s) e SF q = Some h) /\
  (* local names *)
  (forall q l, In (q, l) (n_locals n) -> exists h, out_handle (sp_s s) e SF q = Some h /\ iget (sp_ln s) h = Some l) /\
  (forall h l, In (h, l) (sp_ln s) -> is_live (ss_f (sp_s s)) h = true ->
     exists q l', In (q, l') (n_locals n) /\ out_handle (sp_s s) e SF q = Some h) /\
  (* global names *)
  (forall q t, In (q, t) (n_globals n) -> exists h, out_handle (sp_s s) e SG q = Some h /\ lookup (sp_gn s) h = Some t) /\
  (forall h t, In (h, t) (sp_gn s) -> is_live (ss_g (sp_s s)) h = true ->
     exists q t', In (q, t') (n_globals n) /\ out_handle (sp_s s) e SG q = Some h).

Lemma has_entry_sound {B} s e x (out : list (N * B)) h :
  has_entry s e x out h = true -> exists q v, In (q, v) out /\ out_handle s e x q = Some h.
Proof.
  unfold has_entry. intros H. apply existsb_exists in H as ([q v] & Hin & Hq). exists q, v. split; [exact Hin|].
  cbn in Hq. destruct (out_handle s e x q) as [h'|]; cbn in Hq; [|discriminate]. apply N.eqb_eq in Hq. congruence.
Qed.
Lemma tok_allowed_sound t a alts h : tok_allowed t a alts h = true -> a = Some t \/ In (h, t) alts.
Proof.
  unfold tok_allowed. intros H. apply orb_prop in H as [H|H].
  - destruct a as [x|]; [|discriminate]. apply N.eqb_eq in H. subst. auto.
  - right. apply existsb_exists in H as ([k v] & Hin & Hkv). cbn in Hkv. apply andb_prop in Hkv as [A B].
    apply N.eqb_eq in A, B. subst. exact Hin.
Qed.

Theorem names_checker_sound (c : ncase) (e : emod) (n : names) :
  holds c = true -> no_enc c = Some (e, n) ->
  Names_attached (fst (nspec_final c)) e n /\ naming_panic c = false /\ sp_ret (fst (nspec_final c)) = true.
Proof.
  unfold holds. intros H Henc. rewrite Henc in H. set (s := fst (nspec_final c)) in *.
  apply andb_prop in H as [H Hok]. apply andb_prop in H as [Hret Hpan]. apply negb_true_iff in Hpan.
  split; [|split; assumption].
  unfold names_ok in Hok.
  apply andb_prop in Hok as [Hok Hgk]. apply andb_prop in Hok as [Hok Hgs]. apply andb_prop in Hok as [Hok Hlk].
  apply andb_prop in Hok as [Hok Hls]. apply andb_prop in Hok as [Hfs Hfk].
  unfold Names_attached. repeat split.
  - intros q t Hin. unfold fn_sound in Hfs. apply andb_prop in Hfs as [_ Hfs].
    rewrite forallb_forall in Hfs. specialize (Hfs _ Hin). cbn in Hfs.
    destruct (out_handle (sp_s s) e SF q) as [h|]; [|discriminate]. exists h. split; [reflexivity|].
    exact (tok_allowed_sound _ _ _ _ Hfs).
  - intros h t Hin Hl. unfold fn_kept in Hfk. rewrite forallb_forall in Hfk. specialize (Hfk _ Hin). cbn in Hfk.
    rewrite Hl in Hfk. cbn in Hfk. exact (has_entry_sound _ _ _ _ _ Hfk).
  - intros q l Hin. unfold ln_sound in Hls. apply andb_prop in Hls as [_ Hls].
    rewrite forallb_forall in Hls. specialize (Hls _ Hin). cbn in Hls.
    destruct (out_handle (sp_s s) e SF q) as [h|]; [|discriminate]. exists h. split; [reflexivity|].
    destruct (iget (sp_ln s) h) as [l'|]; [|discriminate]. apply nmap_eqb_eq in Hls. congruence.
  - intros h l Hin Hl. unfold ln_kept in Hlk. rewrite forallb_forall in Hlk. specialize (Hlk _ Hin). cbn in Hlk.
    rewrite Hl in Hlk. cbn in Hlk. exact (has_entry_sound _ _ _ _ _ Hlk).
  - intros q t Hin. unfold gn_sound in Hgs. apply andb_prop in Hgs as [_ Hgs].
    rewrite forallb_forall in Hgs. specialize (Hgs _ Hin). cbn in Hgs.
    destruct (out_handle (sp_s s) e SG q) as [h|]; [|discriminate]. exists h. split; [reflexivity|].
    destruct (lookup (sp_gn s) h) as [t'|]; [|discriminate]. apply N.eqb_eq in Hgs. congruence.
  - intros h t Hin Hl. unfold gn_kept in Hgk. rewrite forallb_forall in Hgk. specialize (Hgk _ Hin). cbn in Hgk.
    rewrite Hl in Hgk. cbn in Hgk. exact (has_entry_sound _ _ _ _ _ Hgk).
Qed.
