(* The translated bodies of reorganise_generic / get_mapping_generic (Gen/GenReorg.v, regenerated from
   /repo/src/ir/module/mod.rs on every check) ARE the hand-written model Reindex.rstep / rloop / reorganise /
   mapping_from / mapping, for all arguments: every theorem of Reorg.v, ReidxProofs.v, ReidxBind.v, ReidxInv.v,
   ReidxHandles.v is therefore a theorem about the translated code. *)
From Coq Require Import List Arith NArith Bool Lia.
Import ListNotations.
From Orca Require Import Reindex GenReorg.

Theorem gen_rstep_is_rstep : forall orig idx val st, gen_rstep orig idx val st = rstep orig idx val st.
Proof.
  intros orig idx val [[items ni] nd]. unfold gen_rstep, rstep, is_import.
  destruct (idx <? orig)%nat, (it_del val), (is_local val); cbn [negb];
    try reflexivity; destruct (nth_error items (idx - nd)); reflexivity.
Qed.

(* `for (idx, val) in items_read_only.enumerate()` *)
Definition enumerate_from {A} (i : nat) (l : list A) : list (nat * A) := combine (seq i (length l)) l.
Definition gen_rloop (orig idx : nat) (snap : list item) (st : list item * nat * nat) : list item * nat * nat :=
  fold_left (fun st iv => gen_rstep orig (fst iv) (snd iv) st) (enumerate_from idx snap) st.
(* reorganise_generic(orig_num_imported, items, items_read_only = a copy of items) *)
Definition gen_reorganise (orig : N) (items : list item) : list item :=
  fst (fst (gen_rloop (N.to_nat orig) 0 items (gen_rinit (N.to_nat orig) items))).

Lemma gen_rloop_is_rloop : forall snap orig idx st, gen_rloop orig idx snap st = rloop orig idx snap st.
Proof.
  induction snap as [|v snap IH]; intros orig idx st; [reflexivity|].
  unfold gen_rloop, enumerate_from. cbn [length seq combine fold_left fst snd rloop].
  rewrite gen_rstep_is_rstep. exact (IH orig (S idx) (rstep orig idx v st)).
Qed.

Theorem gen_reorganise_is_reorganise : forall orig items, gen_reorganise orig items = reorganise orig items.
Proof. intros. unfold gen_reorganise, reorganise, gen_rinit. rewrite gen_rloop_is_rloop. reflexivity. Qed.

(* `for (new_id, item) in slice.enumerate()` starting from an empty HashMap *)
Fixpoint gen_mapping_from (pos : N) (l : list item) (acc : list (N * N)) : list (N * N) :=
  match l with
  | [] => acc
  | i :: l' => gen_mapping_from (pos + 1) l' (gen_mapping_step pos i acc)
  end.
Theorem gen_mapping_is_mapping : forall l pos acc, gen_mapping_from pos l acc = mapping_from pos l acc.
Proof. induction l as [|i l IH]; intros; cbn [gen_mapping_from mapping_from]; [reflexivity|]. rewrite IH. reflexivity. Qed.

(* recalculate_ids on the translated pieces = the model's index_space on a flagged space *)
Theorem gen_recalculate_is_index_space : forall s, s_recalc s = true ->
  index_space s =
  let l := gen_reorganise (s_num s - s_added s) (s_items s) in
  let m := gen_mapping_from 0 l [] in
  if N.eqb (lenN l) (lenN m) then Ok (l, m) else Panic 100.
Proof.
  intros s Hr. unfold index_space. rewrite Hr. cbv zeta. rewrite gen_reorganise_is_reorganise, gen_mapping_is_mapping. reflexivity.
Qed.
