From Coq Require Import List Arith NArith Lia Bool.
Import ListNotations.

(* reorganise_generic (mod.rs:980-1024) as mirrored in Model/Reindex.v (rstep / rloop / reorganise):
   closed form of the one-pass remove/insert/push loop. *)
From Orca Require Import Reindex.
Local Open Scope nat_scope.
Notation deleted := it_del.
Notation step := rstep.
Notation loop := rloop.
Definition reorganise (orig : nat) (l : list item) : list item :=
  fst (fst (rloop orig 0 l (l, orig, 0))).

(* ---- specification ---- *)
Definition keepA (i : item) := is_import i && negb (deleted i).   (* surviving imports *)
Definition keepC (i : item) := is_local i && negb (deleted i).    (* live locals *)
(* live imports of the region of the original imports, live imports of the later region, live locals of the later
   region, live locals of the region of the original imports (converted imports): no deleted item survives *)
Definition spec (orig : nat) (l : list item) : list item :=
  filter keepA (firstn orig l) ++ filter keepA (skipn orig l)
  ++ filter keepC (skipn orig l) ++ filter keepC (firstn orig l).

(* ---- list lemmas ---- *)
Lemma remove_at_app {A} (pre : list A) x post : remove_at (length pre) (pre ++ x :: post) = pre ++ post.
Proof. induction pre; cbn; congruence. Qed.
Lemma nth_error_app_len {A} (pre : list A) x post : nth_error (pre ++ x :: post) (length pre) = Some x.
Proof. induction pre; cbn; auto. Qed.
Lemma insert_at_app {A} (pre : list A) x post : insert_at (length pre) x (pre ++ post) = pre ++ x :: post.
Proof. induction pre; cbn; [destruct post; reflexivity | congruence]. Qed.

Lemma filter_len_le {A} (f : A -> bool) l : length (filter f l) <= length l.
Proof. induction l; cbn; [lia|destruct (f a); cbn; lia]. Qed.

Lemma loop_app : forall a b orig idx st,
  loop orig idx (a ++ b) st = loop orig (idx + length a) b (loop orig idx a st).
Proof.
  induction a as [|v a IH]; intros; cbn [loop app length].
  - rewrite Nat.add_0_r. reflexivity.
  - rewrite IH. f_equal. lia.
Qed.

(* removed-so-far in phase 1 *)
Definition rem1 (done : list item) := length done - length (filter keepA done).

(* phase 1: indices below orig.  live = kept(done) ++ todo ++ later ++ D *)
Lemma phase1 : forall todo done later D orig,
  length done + length todo <= orig ->
  loop orig (length done) todo
       (filter keepA done ++ todo ++ later ++ D, orig - rem1 done, rem1 done)
  = (filter keepA (done ++ todo) ++ later ++ D ++ filter keepC todo,
     orig - rem1 (done ++ todo), rem1 (done ++ todo)).
Proof.
  induction todo as [|v todo IH]; intros done later D orig Hlen.
  - cbn. rewrite !app_nil_r. reflexivity.
  - cbn [loop].
    pose proof (filter_len_le keepA done) as Hf.
    assert (Hlt : length done <? orig = true) by (apply Nat.ltb_lt; cbn in Hlen; lia).
    assert (Hidx : length done - rem1 done = length (filter keepA done)) by (unfold rem1; lia).
    unfold step. rewrite Hlt, Hidx.
    change ((v :: todo) ++ later ++ D) with (v :: (todo ++ later ++ D)).
    assert (Hdv : done ++ v :: todo = (done ++ [v]) ++ todo) by (rewrite <- app_assoc; reflexivity).
    assert (Hl1 : length (done ++ [v]) = S (length done)) by (rewrite app_length; cbn; lia).
    destruct (deleted v) eqn:Hd.
    + (* deleted, whatever its kind: removed *)
      rewrite remove_at_app.
      assert (Hk : keepA v = false) by (unfold keepA; rewrite Hd, andb_false_r; reflexivity).
      assert (Hkc : keepC v = false) by (unfold keepC; rewrite Hd, andb_false_r; reflexivity).
      assert (Hfv : filter keepA (done ++ [v]) = filter keepA done)
        by (rewrite filter_app; cbn; rewrite Hk, app_nil_r; reflexivity).
      specialize (IH (done ++ [v]) later D orig).
      rewrite Hl1, Hfv in IH.
      assert (Hr : rem1 (done ++ [v]) = rem1 done + 1) by (unfold rem1; rewrite Hl1, Hfv; lia).
      rewrite Hr in IH.
      replace (orig - rem1 done - 1) with (orig - (rem1 done + 1)) by lia.
      rewrite IH by (cbn in Hlen; lia).
      rewrite Hdv. cbn [filter]. rewrite Hkc. reflexivity.
    + destruct (is_local v) eqn:Hl.
      * (* live local (a converted import): moved behind everything *)
        rewrite nth_error_app_len, remove_at_app.
        assert (Hk : keepA v = false) by (unfold keepA, is_import; rewrite Hl; reflexivity).
        assert (Hkc : keepC v = true) by (unfold keepC; rewrite Hl, Hd; reflexivity).
        assert (Hfv : filter keepA (done ++ [v]) = filter keepA done)
          by (rewrite filter_app; cbn; rewrite Hk, app_nil_r; reflexivity).
        specialize (IH (done ++ [v]) later (D ++ [v]) orig).
        rewrite Hl1, Hfv in IH.
        assert (Hr : rem1 (done ++ [v]) = rem1 done + 1) by (unfold rem1; rewrite Hl1, Hfv; lia).
        rewrite Hr in IH.
        replace (orig - rem1 done - 1) with (orig - (rem1 done + 1)) by lia.
        replace ((filter keepA done ++ todo ++ later ++ D) ++ [v])
          with (filter keepA done ++ todo ++ later ++ D ++ [v]) by (rewrite <- !app_assoc; reflexivity).
        rewrite IH by (cbn in Hlen; lia).
        rewrite Hdv. cbn [filter]. rewrite Hkc. rewrite <- !app_assoc. reflexivity.
      * (* live import: stays *)
        assert (Hi : is_import v = true) by (unfold is_import; rewrite Hl; reflexivity).
        assert (Hk : keepA v = true) by (unfold keepA; rewrite Hi, Hd; reflexivity).
        assert (Hkc : keepC v = false) by (unfold keepC; rewrite Hl; reflexivity).
        assert (Hfv : filter keepA (done ++ [v]) = filter keepA done ++ [v])
          by (rewrite filter_app; cbn; rewrite Hk; reflexivity).
        specialize (IH (done ++ [v]) later D orig).
        rewrite Hl1, Hfv in IH.
        assert (Hr : rem1 (done ++ [v]) = rem1 done)
          by (unfold rem1; rewrite Hl1, Hfv, app_length; change (length [v]) with 1; pose proof (filter_len_le keepA done); lia).
        rewrite Hr in IH. rewrite <- app_assoc in IH. cbn [app] in IH.
        rewrite IH by (cbn in Hlen; lia).
        rewrite Hdv. cbn [filter]. rewrite Hkc. reflexivity.
Qed.

(* phase 2: indices >= orig.  live = A ++ liveimports(done) ++ livelocals(done) ++ todo ++ D *)
Definition dl (done : list item) := length done - length (filter keepA done) - length (filter keepC done).

Lemma filter_split_len (l : list item) :
  length (filter keepA l) + length (filter keepC l) <= length l.
Proof.
  induction l as [|a l IH]; cbn; [lia|].
  unfold keepA, keepC, is_import in *. destruct (is_local a), (deleted a); cbn; lia.
Qed.

Lemma insert_at_mid {A} (pre mid post : list A) x :
  insert_at (length pre) x (pre ++ mid ++ post) = pre ++ x :: mid ++ post.
Proof. apply (insert_at_app pre x (mid ++ post)). Qed.

Lemma phase2 : forall todo done A D orig r1,
  length A + r1 = orig ->
  loop orig (orig + length done) todo
       (A ++ filter keepA done ++ filter keepC done ++ todo ++ D,
        length A + length (filter keepA done), r1 + dl done)
  = (A ++ filter keepA (done ++ todo) ++ filter keepC (done ++ todo) ++ D,
     length A + length (filter keepA (done ++ todo)), r1 + dl (done ++ todo)).
Proof.
  induction todo as [|v todo IH]; intros done A D orig r1 HA.
  - cbn. rewrite !app_nil_r. reflexivity.
  - cbn [loop].
    pose proof (filter_split_len done) as Hs.
    assert (Hge : orig + length done <? orig = false) by (apply Nat.ltb_ge; lia).
    assert (Hidx : orig + length done - (r1 + dl done)
                   = length (A ++ filter keepA done ++ filter keepC done))
      by (rewrite !app_length; unfold dl; lia).
    unfold step. rewrite Hge, Hidx.
    change ((v :: todo) ++ D) with (v :: (todo ++ D)).
    assert (Hdv : done ++ v :: todo = (done ++ [v]) ++ todo) by (rewrite <- app_assoc; reflexivity).
    assert (Hl1 : length (done ++ [v]) = S (length done)) by (rewrite app_length; cbn; lia).
    replace (A ++ filter keepA done ++ filter keepC done ++ v :: todo ++ D)
      with ((A ++ filter keepA done ++ filter keepC done) ++ v :: (todo ++ D))
      by (rewrite <- !app_assoc; reflexivity).
    destruct (deleted v) eqn:Hd.
    + (* deleted, whatever its kind: removed *)
      rewrite remove_at_app.
      assert (Hka : keepA v = false) by (unfold keepA; rewrite Hd, andb_false_r; reflexivity).
      assert (Hk : keepC v = false) by (unfold keepC; rewrite Hd, andb_false_r; reflexivity).
      assert (Hfi : filter keepA (done ++ [v]) = filter keepA done)
        by (rewrite filter_app; cbn; rewrite Hka, app_nil_r; reflexivity).
      assert (Hfc : filter keepC (done ++ [v]) = filter keepC done)
        by (rewrite filter_app; cbn; rewrite Hk, app_nil_r; reflexivity).
      specialize (IH (done ++ [v]) A D orig r1 HA).
      rewrite Hl1, Hfi, Hfc in IH.
      assert (Hdl : dl (done ++ [v]) = dl done + 1)
        by (unfold dl; rewrite Hl1, Hfi, Hfc; lia).
      rewrite Hdl in IH.
      replace (orig + S (length done)) with (S (orig + length done)) in IH by lia.
      replace (r1 + (dl done + 1)) with (r1 + dl done + 1) in IH by lia.
      rewrite <- !app_assoc. rewrite IH. rewrite Hdv. reflexivity.
    + destruct (is_import v) eqn:Hi.
      * (* live import found among the locals: moved to position num_imported *)
        rewrite nth_error_app_len, remove_at_app.
        assert (Hka : keepA v = true) by (unfold keepA; rewrite Hi, Hd; reflexivity).
        assert (Hk : keepC v = false) by (unfold keepC; unfold is_import in Hi; destruct (is_local v); [discriminate|reflexivity]).
        assert (Hfi : filter keepA (done ++ [v]) = filter keepA done ++ [v])
          by (rewrite filter_app; cbn; rewrite Hka; reflexivity).
        assert (Hfc : filter keepC (done ++ [v]) = filter keepC done)
          by (rewrite filter_app; cbn; rewrite Hk, app_nil_r; reflexivity).
        specialize (IH (done ++ [v]) A D orig r1 HA).
        rewrite Hl1, Hfi, Hfc in IH.
        assert (Hdl : dl (done ++ [v]) = dl done)
          by (unfold dl; rewrite Hl1, Hfi, Hfc, app_length; change (length [v]) with 1; lia).
        rewrite Hdl, app_length in IH. change (length [v]) with 1 in IH.
        replace (orig + S (length done)) with (S (orig + length done)) in IH by lia.
        replace (length A + (length (filter keepA done) + 1))
          with (length A + length (filter keepA done) + 1) in IH by lia.
        replace ((A ++ filter keepA done ++ filter keepC done) ++ todo ++ D)
          with ((A ++ filter keepA done) ++ filter keepC done ++ todo ++ D)
          by (rewrite <- !app_assoc; reflexivity).
        replace (length A + length (filter keepA done)) with (length (A ++ filter keepA done))
          by (rewrite app_length; reflexivity).
        rewrite insert_at_app.
        rewrite app_length.
        replace ((A ++ filter keepA done) ++ v :: filter keepC done ++ todo ++ D)
          with (A ++ (filter keepA done ++ [v]) ++ filter keepC done ++ todo ++ D)
          by (rewrite <- !app_assoc; reflexivity).
        rewrite IH. rewrite Hdv. reflexivity.
      * (* live local: stays *)
        assert (Hloc : is_local v = true) by (unfold is_import in Hi; destruct (is_local v); [reflexivity|discriminate]).
        assert (Hka : keepA v = false) by (unfold keepA; rewrite Hi; reflexivity).
        assert (Hfi : filter keepA (done ++ [v]) = filter keepA done)
          by (rewrite filter_app; cbn; rewrite Hka, app_nil_r; reflexivity).
        assert (Hk : keepC v = true) by (unfold keepC; rewrite Hloc, Hd; reflexivity).
        assert (Hfc : filter keepC (done ++ [v]) = filter keepC done ++ [v])
          by (rewrite filter_app; cbn; rewrite Hk; reflexivity).
        specialize (IH (done ++ [v]) A D orig r1 HA).
        rewrite Hl1, Hfi, Hfc in IH.
        assert (Hdl : dl (done ++ [v]) = dl done)
          by (unfold dl; rewrite Hl1, Hfi, Hfc, app_length; change (length [v]) with 1; lia).
        rewrite Hdl in IH.
        replace (orig + S (length done)) with (S (orig + length done)) in IH by lia.
        rewrite <- !app_assoc in IH. cbn [app] in IH.
        rewrite <- !app_assoc. rewrite IH. rewrite Hdv. reflexivity.
Qed.

Theorem reorganise_spec : forall orig l, orig <= length l -> reorganise orig l = spec orig l.
Proof.
  intros orig l Hle. unfold reorganise, spec.
  set (first := firstn orig l). set (later := skipn orig l).
  assert (Hl : l = first ++ later) by (symmetry; apply firstn_skipn).
  assert (Hlf : length first = orig) by (apply firstn_length_le; exact Hle).
  rewrite Hl. rewrite loop_app. cbn [Nat.add].
  pose proof (filter_len_le keepA first) as Hf.
  (* phase 1 *)
  pose proof (phase1 first [] later [] orig) as P1.
  assert (R0 : rem1 (@nil item) = 0) by reflexivity.
  rewrite R0 in P1. cbn [filter app length] in P1.
  rewrite Nat.sub_0_r, app_nil_r in P1.
  rewrite P1 by lia. clear P1.
  (* phase 2 *)
  pose proof (phase2 later [] (filter keepA first) (filter keepC first) orig (rem1 first)) as P2.
  assert (D0 : dl (@nil item) = 0) by reflexivity.
  rewrite D0 in P2. cbn [filter app length] in P2. rewrite !Nat.add_0_r in P2.
  rewrite Hlf.
  replace (orig - rem1 first) with (length (filter keepA first)) by (unfold rem1; lia).
  rewrite P2 by (unfold rem1; lia).
  reflexivity.
Qed.
Print Assumptions reorganise_spec.

(* the same statement for the N-indexed entry point the model uses *)
Theorem reorganise_spec_N : forall (orig : N) l, N.to_nat orig <= length l ->
  Reindex.reorganise orig l = spec (N.to_nat orig) l.
Proof. intros orig l H. exact (reorganise_spec (N.to_nat orig) l H). Qed.
Print Assumptions reorganise_spec_N.
