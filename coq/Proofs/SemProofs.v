From Coq Require Import List Arith NArith ZArith Bool Lia.
Import ListNotations.
From Orca Require Import Flat Tree WasmP.

Definition le_out (a b : outcome) := a = OFuel \/ a = b.
Lemma le_out_refl a : le_out a a. Proof. right; reflexivity. Qed.
Global Hint Resolve le_out_refl : core.

Section Mono.
Variable ftypes : list (nat * nat).
Variable flags_at : nat -> flags.
Variable fn_exit : list fop.
Variable spec : bool.

Notation probes := (probes spec).
Notation run_pend := (run_pend spec).
Notation step_body := (step_body ftypes flags_at fn_exit spec).
Notation exec := (exec ftypes flags_at fn_exit spec).

Lemma probes_mono code c k1 k2 :
  (forall c', le_out (k1 c') (k2 c')) -> le_out (probes code c k1) (probes code c k2).
Proof.
  intros H. unfold WasmP.probes. destruct spec; [|apply H].
  destruct (run_code code c); auto.
Qed.

Lemma run_pend_mono p : forall c k1 k2,
  (forall c', le_out (k1 c') (k2 c')) -> le_out (run_pend p c k1) (run_pend p c k2).
Proof.
  induction p as [|b p IH]; intros c k1 k2 H; cbn [WasmP.run_pend]; [apply H|].
  apply probes_mono. intros c'. apply IH, H.
Qed.

Definition le_rec (r1 r2 : bool -> list instr -> cfg -> outcome) := forall s i c, le_out (r1 s i c) (r2 s i c).

Ltac rec_call H :=
  match goal with
  | |- le_out (match ?r1 ?s ?i ?c with _ => _ end) (match ?r2 ?s ?i ?c with _ => _ end) =>
      let E := fresh "E" in
      destruct (H s i c) as [E|E]; rewrite E; [left; reflexivity|]; destruct (r2 s i c)
  end.

Ltac mono H :=
  repeat first
    [ apply le_out_refl
    | apply probes_mono; intros ?
    | apply run_pend_mono; intros ?
    | apply H
    | rec_call H
    | match goal with
      | |- le_out (match ?x with _ => _ end) (match ?x with _ => _ end) => destruct x
      | |- le_out (if ?x then _ else _) (if ?x then _ else _) => destruct x
      | |- le_out (let '(_, _) := ?x in _) (let '(_, _) := ?x in _) => destruct x
      end ].

Lemma step_mono r1 r2 : le_rec r1 r2 -> forall s is c, le_out (step_body r1 s is c) (step_body r2 s is c).
Proof.
  intros H s is c. unfold WasmP.step_body.
  destruct is as [|ins rest]; [auto|].
  destruct ins as [i o | i e bt body | i e bt body | i el e bt thn els].
  - mono H.
  - cbv zeta. mono H.
  - cbv zeta. mono H.
  - cbv zeta. mono H.
Qed.

Lemma exec_mono_S : forall fuel s is c, le_out (exec fuel s is c) (exec (S fuel) s is c).
Proof.
  induction fuel as [|f IH]; intros s is c; [left; reflexivity|].
  cbn [WasmP.exec]. apply step_mono. exact IH.
Qed.

Lemma exec_mono : forall fuel fuel' s is c o,
  fuel <= fuel' -> exec fuel s is c = o -> o <> OFuel -> exec fuel' s is c = o.
Proof.
  intros fuel fuel' s is c o Hle. induction Hle as [|m Hle IH]; intros He Hn; [exact He|].
  destruct (exec_mono_S m s is c) as [E|E]; [rewrite IH in E by assumption; congruence|].
  rewrite <- E. apply IH; assumption.
Qed.
End Mono.
