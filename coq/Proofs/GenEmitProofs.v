(* The translated per-instruction emission of encode_internal and InstrumentationFlag::has_instr (Gen/GenEmit.v,
   regenerated from /repo/src on every check) ARE the model's emission (Lowering.emit_from / emit, Flat.has_instr)
   for all arguments: the theorems about the plain lowering (C15, C21) and everything built on [emit] speak about
   the loop as the source has it on this run. *)
From Coq Require Import List Arith NArith ZArith Bool.
Import ListNotations.
From Orca Require Import Flat Lowering GenEmit.

Theorem gen_has_instr_is_has_instr : forall f, gen_has_instr f = has_instr f.
Proof. intros f. reflexivity. Qed.

(* `for (idx, Instruction { op, instr_flag }) in instructions.iter_mut().enumerate()` *)
Fixpoint gen_emit_from (instr_len idx : nat) (body : list (fop * flags)) : list fop :=
  match body with
  | [] => []
  | (op, f) :: body' => gen_emit_instr instr_len idx op f ++ gen_emit_from instr_len (S idx) body'
  end.
(* let instr_len = instructions.len() - 1; *)
Definition gen_emit (body : list (fop * flags)) : list fop := gen_emit_from (length body - 1) 0 body.

Theorem gen_emit_from_is_emit_from : forall body instr_len idx,
  gen_emit_from instr_len idx body = emit_from instr_len idx body.
Proof.
  induction body as [|[op f] body IH]; intros instr_len idx; [reflexivity|].
  cbn [gen_emit_from emit_from]. rewrite IH. f_equal.
  unfold gen_emit_instr. destruct (has_instr f); cbn [negb]; [|reflexivity].
  destruct (instr_len <=? idx)%nat, (f_alt f); cbn [negb andb is_none]; reflexivity.
Qed.

Theorem gen_emit_is_emit : forall body, gen_emit body = emit body.
Proof. intros. unfold gen_emit, emit. apply gen_emit_from_is_emit_from. Qed.
