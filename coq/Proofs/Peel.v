(* The specification interpreter depends on the flags only at the positions that occur in the body
   (extensionality), and the before-probes of the first instruction can be peeled off: running them first and
   then the body with those probes removed is the same as running the body.  Used by SimFnReal.v to state the
   function entry/exit theorem for the *real* placement of instruction 0's before-code (in front of the wrapper
   block's opener). *)
From Coq Require Import List Arith NArith ZArith Bool Lia.
Import ListNotations.
From Orca Require Import Flat Tree TreeLower WasmP SemProofs.

Fixpoint npos (x : instr) : list nat :=
  match x with
  | IPlain i _ => [i]
  | IBlock i e _ b => i :: e :: flat_map npos b
  | ILoop i e _ b => i :: e :: flat_map npos b
  | IIf i el e _ t els => i :: e :: (match el with Some x => [x] | None => [] end) ++ flat_map npos t ++ flat_map npos els
  end.
Definition positions (is : list instr) : list nat := flat_map npos is.

Section Ext.
Variable ftypes : list (nat * nat).
Variable X : list fop.
Variable spec : bool.
Variables F F' : nat -> flags.

Definition agree_on (is : list instr) : Prop := forall p, In p (positions is) -> F p = F' p.

Lemma agree_tail x rest : agree_on (x :: rest) -> agree_on rest.
Proof. intros H p Hp. apply H. unfold positions. cbn [flat_map]. apply in_or_app. right. exact Hp. Qed.
Lemma agree_head_pos x rest p : agree_on (x :: rest) -> In p (npos x) -> F p = F' p.
Proof. intros H Hp. apply H. unfold positions. cbn [flat_map]. apply in_or_app. left. exact Hp. Qed.

Lemma probes_ext code c k1 k2 : (forall c', k1 c' = k2 c') -> probes spec code c k1 = probes spec code c k2.
Proof. intros H. unfold probes. destruct spec; [|apply H]. destruct (run_code code c); auto. Qed.
Lemma run_pend_ext p : forall c k1 k2, (forall c', k1 c' = k2 c') -> run_pend spec p c k1 = run_pend spec p c k2.
Proof.
  induction p as [|b p IH]; intros c k1 k2 H; cbn [run_pend]; [apply H|].
  apply probes_ext. intros c'. apply IH, H.
Qed.

Ltac ext_tac H :=
  repeat first
    [ reflexivity
    | apply probes_ext; intros ?
    | apply run_pend_ext; intros ?
    | match goal with
      | |- match ?r1 ?s ?i ?c with _ => _ end = match ?r2 ?s ?i ?c with _ => _ end =>
          rewrite (H s i c) by assumption; destruct (r2 s i c)
      | |- ?r1 ?s ?i ?c = ?r2 ?s ?i ?c => apply H; assumption
      | |- match ?x with _ => _ end = match ?x with _ => _ end => destruct x
      | |- (if ?x then _ else _) = (if ?x then _ else _) => destruct x
      | |- (let '(_, _) := ?x in _) = (let '(_, _) := ?x in _) => destruct x
      end ].

Lemma step_ext r1 r2 s is c :
  agree_on is ->
  (forall s' i' c', agree_on i' -> r1 s' i' c' = r2 s' i' c') ->
  step_body ftypes F X spec r1 s is c = step_body ftypes F' X spec r2 s is c.
Proof.
  intros Ha H. unfold step_body.
  destruct is as [|ins rest]; [reflexivity|].
  pose proof (agree_tail _ _ Ha) as Hrest.
  destruct ins as [i o | i e bt body | i e bt body | i el e bt thn els].
  - assert (Ei : F i = F' i) by (apply (agree_head_pos _ _ i Ha); left; reflexivity).
    unfold sa_pend. rewrite Ei.
    assert (HR : forall c', r1 false rest c' = r2 false rest c') by (intros; apply H; exact Hrest).
    ext_tac HR.
  - assert (Ei : F i = F' i) by (apply (agree_head_pos _ _ i Ha); left; reflexivity).
    assert (Ee : F e = F' e) by (apply (agree_head_pos _ _ e Ha); right; left; reflexivity).
    assert (Hbody : agree_on body).
    { intros p Hp. apply (agree_head_pos _ _ p Ha). right. right. exact Hp. }
    rewrite Ei, Ee. cbv zeta.
    assert (HR : forall c', r1 false rest c' = r2 false rest c') by (intros; apply H; exact Hrest).
    assert (HB : forall c', r1 false body c' = r2 false body c') by (intros; apply H; exact Hbody).
    destruct (arity ftypes bt) as [np nr].
    apply probes_ext; intros c1. apply probes_ext; intros c2.
    rewrite HB. destruct (r2 false body c2) as [c'|n pend c'|c'|c'| |]; try reflexivity.
    + ext_tac HR.
    + destruct n; [|reflexivity]. ext_tac HR.
  - assert (Ei : F i = F' i) by (apply (agree_head_pos _ _ i Ha); left; reflexivity).
    assert (Ee : F e = F' e) by (apply (agree_head_pos _ _ e Ha); right; left; reflexivity).
    assert (Hbody : agree_on body).
    { intros p Hp. apply (agree_head_pos _ _ p Ha). right. right. exact Hp. }
    rewrite Ei, Ee. cbv zeta.
    assert (HR : forall c', r1 false rest c' = r2 false rest c') by (intros; apply H; exact Hrest).
    assert (HB : forall c', r1 false body c' = r2 false body c') by (intros; apply H; exact Hbody).
    assert (HL : forall c', r1 true (ILoop i e bt body :: rest) c' = r2 true (ILoop i e bt body :: rest) c') by (intros; apply H; exact Ha).
    destruct (arity ftypes bt) as [np nr].
    apply probes_ext; intros c1. apply probes_ext; intros c2.
    rewrite HB. destruct (r2 false body c2) as [c'|n pend c'|c'|c'| |]; try reflexivity.
    + ext_tac HR.
    + destruct n; [apply HL|reflexivity].
  - assert (Ei : F i = F' i) by (apply (agree_head_pos _ _ i Ha); left; reflexivity).
    assert (Ee : F e = F' e) by (apply (agree_head_pos _ _ e Ha); right; left; reflexivity).
    assert (Hthn : agree_on thn).
    { intros p Hp. apply (agree_head_pos _ _ p Ha). right. right. apply in_or_app. right. apply in_or_app. left. exact Hp. }
    assert (Hels : agree_on els).
    { intros p Hp. apply (agree_head_pos _ _ p Ha). right. right. apply in_or_app. right. apply in_or_app. right. exact Hp. }
    assert (Eel : forall x, el = Some x -> F x = F' x).
    { intros x ->. apply (agree_head_pos _ _ x Ha). right. right. apply in_or_app. left. left. reflexivity. }
    rewrite Ei, Ee. cbv zeta.
    assert (HR : forall c', r1 false rest c' = r2 false rest c') by (intros; apply H; exact Hrest).
    assert (HT : forall c', r1 false thn c' = r2 false thn c') by (intros; apply H; exact Hthn).
    assert (HE : forall c', r1 false els c' = r2 false els c') by (intros; apply H; exact Hels).
    destruct (arity ftypes bt) as [np nr].
    destruct el as [x|]; [rewrite (Eel x eq_refl)|].
    + apply probes_ext; intros c1. destruct (stack c1) as [|v st]; [reflexivity|].
      destruct (negb (Z.eqb v 0)).
      * apply probes_ext; intros c2. rewrite HT. destruct (r2 false thn c2) as [c'|n pend c'|c'|c'| |]; try reflexivity.
        -- ext_tac HR.
        -- destruct n; [|reflexivity]. ext_tac HR.
      * apply probes_ext; intros c2. rewrite HE. destruct (r2 false els c2) as [c'|n pend c'|c'|c'| |]; try reflexivity.
        -- ext_tac HR.
        -- destruct n; [|reflexivity]. ext_tac HR.
    + apply probes_ext; intros c1. destruct (stack c1) as [|v st]; [reflexivity|].
      destruct (negb (Z.eqb v 0)).
      * apply probes_ext; intros c2. rewrite HT. destruct (r2 false thn c2) as [c'|n pend c'|c'|c'| |]; try reflexivity.
        -- ext_tac HR.
        -- destruct n; [|reflexivity]. ext_tac HR.
      * ext_tac HR.
Qed.

Theorem exec_ext : forall fuel s is c, agree_on is ->
  exec ftypes F X spec fuel s is c = exec ftypes F' X spec fuel s is c.
Proof.
  induction fuel as [|f IH]; intros s is c Ha; [reflexivity|].
  cbn [exec]. apply step_ext; [exact Ha|]. intros s' i' c' Ha'. apply IH. exact Ha'.
Qed.
End Ext.

(* ------------------------------------------------------------------------------------------ *)
(* peeling the before-probes of the first instruction *)
Section Peel.
Variable ftypes : list (nat * nat).
Variable X : list fop.
Variable F : nat -> flags.

(* the flags with the before-probes of position 0 removed: TreeLower.F0 *)
Notation F0 := (TreeLower.F0 F).

Lemma F0_other p : p <> 0 -> F0 p = F p.
Proof. intros H. unfold TreeLower.F0. destruct (Nat.eqb_spec p 0); [contradiction|reflexivity]. Qed.
Lemma agree_F0 is : ~ In 0 (positions is) -> agree_on F F0 is.
Proof. intros H p Hp. symmetry. apply F0_other. intros ->. contradiction. Qed.

Lemma probes_nil c k : probes true [] c k = k c.
Proof. reflexivity. Qed.

Notation E := (exec ftypes F X true).
Notation E0 := (exec ftypes F0 X true).

(* re-entering a loop at position 0 never looks at its before-probes *)
Lemma loop_reentry : forall fuel e bt body rest c,
  e <> 0 -> ~ In 0 (positions body) -> ~ In 0 (positions rest) ->
  E fuel true (ILoop 0 e bt body :: rest) c = E0 fuel true (ILoop 0 e bt body :: rest) c.
Proof.
  induction fuel as [|f IH]; intros e bt body rest c He Hb Hr; [reflexivity|].
  cbn [exec]. unfold step_body. cbv zeta.
  assert (Ee : F0 e = F e) by (apply F0_other; exact He).
  rewrite Ee.
  assert (E0f : f_after (F0 0) = f_after (F 0) /\ f_be (F0 0) = f_be (F 0) /\ f_bx (F0 0) = f_bx (F 0) /\ f_sa (F0 0) = f_sa (F 0)) by (repeat split; reflexivity).
  destruct E0f as (Ea & Ebe & Ebx & Esa). rewrite Ea, Ebe, Ebx, Esa.
  destruct (arity ftypes bt) as [np nr].
  apply probes_ext; intros c1. apply probes_ext; intros c2.
  rewrite (exec_ext ftypes X true F F0 f false body c2 (agree_F0 body Hb)).
  destruct (E0 f false body c2) as [c'|n pend c'|c'|c'| |]; try reflexivity.
  - apply probes_ext; intros c3. apply probes_ext; intros c4. apply probes_ext; intros c5.
    apply (exec_ext ftypes X true F F0 f false rest c5 (agree_F0 rest Hr)).
  - destruct n; [|reflexivity]. apply IH; assumption.
Qed.

(* the first instruction sits at position 0, nothing else does *)
Definition head_at_0 (x : instr) : Prop :=
  match x with
  | IPlain i _ => i = 0
  | IBlock i e _ b | ILoop i e _ b => i = 0 /\ e <> 0 /\ ~ In 0 (positions b)
  | IIf i el e _ t els => i = 0 /\ e <> 0 /\ (forall x, el = Some x -> x <> 0) /\ ~ In 0 (positions t) /\ ~ In 0 (positions els)
  end.

Theorem peel_first fuel x rest c :
  head_at_0 x -> ~ In 0 (positions rest) ->
  E (S fuel) false (x :: rest) c
  = probes true (f_before (F 0)) c (fun c' => E0 (S fuel) false (x :: rest) c').
Proof.
  intros Hx Hr. cbn [exec]. unfold step_body.
  assert (HR : forall c', E fuel false rest c' = E0 fuel false rest c')
    by (intros; apply (exec_ext ftypes X true F F0 fuel false rest _ (agree_F0 rest Hr))).
  assert (Ea : f_after (F0 0) = f_after (F 0)) by reflexivity.
  assert (Ebe : f_be (F0 0) = f_be (F 0)) by reflexivity.
  assert (Ebx : f_bx (F0 0) = f_bx (F 0)) by reflexivity.
  assert (Esa : f_sa (F0 0) = f_sa (F 0)) by reflexivity.
  assert (Eb : f_before (F0 0) = []) by reflexivity.
  destruct x as [i o | i e bt body | i e bt body | i el e bt thn els]; cbn [head_at_0] in Hx.
  - subst i. rewrite Eb. apply probes_ext; intros c1. rewrite probes_nil.
    unfold sa_pend. rewrite Ea, Esa.
    destruct o; try reflexivity;
      repeat first [ reflexivity | apply probes_ext; intros ? | rewrite HR
                   | match goal with
                     | |- match ?x with _ => _ end = match ?x with _ => _ end => destruct x
                     | |- (if ?x then _ else _) = (if ?x then _ else _) => destruct x
                     end ].
  - destruct Hx as (-> & He & Hb). cbv zeta. rewrite Eb, (F0_other e He), Ea, Ebe, Ebx, Esa.
    destruct (arity ftypes bt) as [np nr].
    apply probes_ext; intros c1. rewrite probes_nil. apply probes_ext; intros c2.
    rewrite (exec_ext ftypes X true F F0 fuel false body c2 (agree_F0 body Hb)).
    destruct (E0 fuel false body c2) as [c'|n pend c'|c'|c'| |]; try reflexivity.
    + apply probes_ext; intros c3. apply probes_ext; intros c4. apply run_pend_ext; intros c5. apply probes_ext; intros c6. apply HR.
    + destruct n; [|reflexivity]. apply probes_ext; intros c4. apply run_pend_ext; intros c5. apply probes_ext; intros c6. apply HR.
  - destruct Hx as (-> & He & Hb). cbv zeta. rewrite Eb, (F0_other e He), Ea, Ebe, Ebx, Esa.
    destruct (arity ftypes bt) as [np nr].
    apply probes_ext; intros c1. rewrite probes_nil. apply probes_ext; intros c2.
    rewrite (exec_ext ftypes X true F F0 fuel false body c2 (agree_F0 body Hb)).
    destruct (E0 fuel false body c2) as [c'|n pend c'|c'|c'| |]; try reflexivity.
    + apply probes_ext; intros c3. apply probes_ext; intros c4. apply probes_ext; intros c5. apply HR.
    + destruct n; [|reflexivity]. apply loop_reentry; assumption.
  - destruct Hx as (-> & He & Hel & Ht & Hels). cbv zeta. rewrite Eb, (F0_other e He), Ea, Ebe, Ebx, Esa.
    destruct (arity ftypes bt) as [np nr].
    assert (HT : forall c', E fuel false thn c' = E0 fuel false thn c')
      by (intros; apply (exec_ext ftypes X true F F0 fuel false thn _ (agree_F0 thn Ht))).
    assert (HE : forall c', E fuel false els c' = E0 fuel false els c')
      by (intros; apply (exec_ext ftypes X true F F0 fuel false els _ (agree_F0 els Hels))).
    apply probes_ext; intros c1. rewrite probes_nil.
    destruct el as [x|].
    + rewrite (F0_other x (Hel x eq_refl)).
      destruct (stack c1) as [|v st]; [reflexivity|].
      destruct (negb (Z.eqb v 0)).
      * apply probes_ext; intros c2. rewrite HT. destruct (E0 fuel false thn c2) as [c'|n pend c'|c'|c'| |]; try reflexivity.
        -- apply probes_ext; intros c3. apply probes_ext; intros c4. apply run_pend_ext; intros c5. apply probes_ext; intros c6. apply HR.
        -- destruct n; [|reflexivity]. apply probes_ext; intros c4. apply run_pend_ext; intros c5. apply probes_ext; intros c6. apply HR.
      * apply probes_ext; intros c2. rewrite HE. destruct (E0 fuel false els c2) as [c'|n pend c'|c'|c'| |]; try reflexivity.
        -- apply probes_ext; intros c3. apply probes_ext; intros c4. apply run_pend_ext; intros c5. apply probes_ext; intros c6. apply HR.
        -- destruct n; [|reflexivity]. apply probes_ext; intros c4. apply run_pend_ext; intros c5. apply probes_ext; intros c6. apply HR.
    + destruct (stack c1) as [|v st]; [reflexivity|].
      destruct (negb (Z.eqb v 0)).
      * apply probes_ext; intros c2. rewrite HT. destruct (E0 fuel false thn c2) as [c'|n pend c'|c'|c'| |]; try reflexivity.
        -- apply probes_ext; intros c3. apply probes_ext; intros c4. apply run_pend_ext; intros c5. apply probes_ext; intros c6. apply HR.
        -- destruct n; [|reflexivity]. apply probes_ext; intros c4. apply run_pend_ext; intros c5. apply probes_ext; intros c6. apply HR.
      * apply probes_ext; intros c4. apply run_pend_ext; intros c5. apply probes_ext; intros c6. apply HR.
Qed.
End Peel.
