(* C06 / C07 / C08: the binding theorem for one index space.  For every item vector with pairwise distinct stored
   ids, provided the import section lists this kind's imports in the order of the import items (hypothesis noD02;
   Proofs/ReidxInv.v proves it of every reachable state since the repair of D02), every live item's id is mapped to
   the index at which Wasm's index rule (imports of that kind in import-section order, then the locally defined ones
   in section order) finds that very item.  (Before the repair of D06 / D26 the theorem needed two more premises: no
   deleted later-region import, no deleted converted original import.) *)
From Coq Require Import List Arith NArith Bool Lia Permutation.
Import ListNotations.
From Orca Require Import Reindex Reorg ReidxProofs.
Local Open Scope nat_scope.

Section Bind.
Variable orig : nat.
Variable l : list item.
Hypothesis Hle : orig <= length l.
Hypothesis Hnd : NoDup (map it_id l).

Notation first := (firstn orig l).
Notation later := (skipn orig l).

Definition Ipart : list item := filter keepA first ++ filter keepA later.
Definition Lpart : list item := filter keepC later ++ filter keepC first.

Lemma spec_split : spec orig l = Ipart ++ Lpart.
Proof. unfold spec, Ipart, Lpart. rewrite <- !app_assoc. reflexivity. Qed.

Lemma Ipart_imports : forall i, In i Ipart -> is_import i = true /\ it_del i = false.
Proof.
  intros i H. unfold Ipart in H. apply in_app_or in H as [H|H]; apply filter_In in H as [Hin Hp];
    unfold keepA in Hp; apply andb_prop in Hp as [H1 H2]; (split; [exact H1|]); destruct (it_del i); (discriminate || reflexivity).
Qed.
Lemma Lpart_locals : forall i, In i Lpart -> is_local i = true /\ it_del i = false.
Proof.
  intros i H. unfold Lpart in H. apply in_app_or in H as [H|H]; apply filter_In in H as [Hin Hp];
    unfold keepC in Hp; apply andb_prop in Hp as [H1 H2]; (split; [exact H1|]); destruct (it_del i); (discriminate || reflexivity).
Qed.

Lemma filter_all {A} (p : A -> bool) (xs : list A) : (forall x, In x xs -> p x = true) -> filter p xs = xs.
Proof.
  induction xs as [|x xs IH]; intros H; [reflexivity|]. cbn. rewrite (H x (or_introl eq_refl)).
  f_equal. apply IH. intros y Hy. apply H. right. exact Hy.
Qed.
Lemma filter_none {A} (p : A -> bool) (xs : list A) : (forall x, In x xs -> p x = false) -> filter p xs = [].
Proof.
  induction xs as [|x xs IH]; intros H; [reflexivity|]. cbn. rewrite (H x (or_introl eq_refl)).
  apply IH. intros y Hy. apply H. right. exact Hy.
Qed.

Lemma import_not_local i : is_import i = true -> is_local i = false.
Proof. unfold is_import. destruct (is_local i); [discriminate|reflexivity]. Qed.
Lemma local_not_import i : is_local i = true -> is_import i = false.
Proof. unfold is_import. intros ->. reflexivity. Qed.

(* the locals the encoder emits for this space are exactly the local part, in order *)
Lemma emitted_locals_spec : emitted_locals (spec orig l) true = map it_fp Lpart.
Proof.
  unfold emitted_locals. rewrite spec_split, filter_app. f_equal.
  rewrite filter_none, filter_all; [reflexivity| |].
  - intros i Hi. destruct (Lpart_locals i Hi) as [H1 H2]. rewrite H1, H2. reflexivity.
  - intros i Hi. destruct (Ipart_imports i Hi) as [H1 H2]. rewrite (import_not_local i H1). reflexivity.
Qed.

(* distinct ids survive the reorganisation *)
Lemma NoDup_map_filter {A B} (f : A -> B) (p : A -> bool) (xs : list A) : NoDup (map f xs) -> NoDup (map f (filter p xs)).
Proof.
  induction xs as [|x xs IH]; intros H; [constructor|]. cbn in *. inversion H; subst.
  destruct (p x); [|apply IH; assumption]. cbn. constructor; [|apply IH; assumption].
  intros Hin. apply H2. apply in_map_iff in Hin as [y [Hy1 Hy2]]. apply filter_In in Hy2 as [Hy2 _].
  apply in_map_iff. exists y. split; assumption.
Qed.

Lemma nodup_app_inv {A} (a b : list A) : NoDup (a ++ b) -> NoDup a /\ NoDup b.
Proof.
  induction a as [|x a IH]; intros H; [split; [constructor|exact H]|].
  cbn in H. inversion H; subst. destruct (IH H3) as [Ha Hb]. split; [|exact Hb].
  constructor; [|exact Ha]. intros Hin. apply H2. apply in_or_app. left. exact Hin.
Qed.

Lemma spec_ids_nodup : NoDup (map it_id (spec orig l)).
Proof.
  assert (Hfl : NoDup (map it_id (first ++ later))) by (rewrite firstn_skipn; exact Hnd).
  rewrite map_app in Hfl.
  destruct (nodup_app_inv _ _ Hfl) as [Hf Hl].
  assert (Hdisj : forall a b, In a first -> In b later -> it_id a <> it_id b).
  { intros a b Ha Hb E. revert Hfl. generalize (in_map it_id _ _ Ha) (in_map it_id _ _ Hb). rewrite E.
    intros H1 H2 Hfl. clear -H1 H2 Hfl.
    induction (map it_id first) as [|x xs IH]; [contradiction|].
    cbn in Hfl. inversion Hfl; subst. destruct H1 as [->|H1].
    - apply H3. apply in_or_app. right. exact H2.
    - apply IH; assumption. }
  unfold spec.
  (* a permutation of a duplicate-free list of ids built from disjoint filters *)
  assert (P : forall A B C D : list item,
            NoDup (map it_id A) -> NoDup (map it_id B) -> NoDup (map it_id C) -> NoDup (map it_id D) ->
            (forall a b, In a A -> In b B -> it_id a <> it_id b) -> (forall a b, In a A -> In b C -> it_id a <> it_id b) ->
            (forall a b, In a A -> In b D -> it_id a <> it_id b) -> (forall a b, In a B -> In b C -> it_id a <> it_id b) ->
            (forall a b, In a B -> In b D -> it_id a <> it_id b) -> (forall a b, In a C -> In b D -> it_id a <> it_id b) ->
            NoDup (map it_id (A ++ B ++ C ++ D))).
  { clear. intros A B C D HA HB HC HD AB AC AD BC BD CD.
    assert (App : forall X Y, NoDup (map it_id X) -> NoDup (map it_id Y) -> (forall a b, In a X -> In b Y -> it_id a <> it_id b) ->
                  NoDup (map it_id (X ++ Y))).
    { intros X Y HX HY HXY. rewrite map_app. induction X as [|x X IH]; [exact HY|].
      cbn in *. inversion HX; subst. constructor.
      - intros Hin. apply in_app_or in Hin as [Hin|Hin]; [contradiction|].
        apply in_map_iff in Hin as [y [Ey Hy]]. apply (HXY x y); [left; reflexivity|exact Hy|]. symmetry. exact Ey.
      - apply IH; [assumption|]. intros a b Ha Hb. apply HXY; [right; exact Ha|exact Hb]. }
    apply App; [exact HA| |].
    - apply App; [exact HB| |].
      + apply App; assumption.
      + intros a b Ha Hb. apply in_app_or in Hb as [Hb|Hb]; [apply BC|apply BD]; assumption.
    - intros a b Ha Hb. apply in_app_or in Hb as [Hb|Hb]; [apply AB; assumption|].
      apply in_app_or in Hb as [Hb|Hb]; [apply AC|apply AD]; assumption. }
  assert (Same : forall (p q : item -> bool) xs, NoDup (map it_id xs) -> (forall x, p x = true -> q x = true -> False) ->
            forall a b, In a (filter p xs) -> In b (filter q xs) -> it_id a <> it_id b).
  { clear. intros p q xs Hxs Hpq a b Ha Hb E.
    apply filter_In in Ha as [Ha Pa]. apply filter_In in Hb as [Hb Qb].
    assert (a = b).
    { clear Pa Qb Hpq. induction xs as [|x xs IH]; [contradiction|].
      cbn in Hxs. inversion Hxs; subst.
      destruct Ha as [->|Ha], Hb as [->|Hb]; try reflexivity.
      - exfalso. apply H1. rewrite E. apply in_map. exact Hb.
      - exfalso. apply H1. rewrite <- E. apply in_map. exact Ha.
      - apply IH; assumption. }
    subst b. eapply Hpq; eassumption. }
  apply P.
  - apply NoDup_map_filter. exact Hf.
  - apply NoDup_map_filter. exact Hl.
  - apply NoDup_map_filter. exact Hl.
  - apply NoDup_map_filter. exact Hf.
  - intros a b Ha Hb. apply filter_In in Ha as [Ha _]. apply filter_In in Hb as [Hb _]. apply Hdisj; assumption.
  - intros a b Ha Hb. apply filter_In in Ha as [Ha _]. apply filter_In in Hb as [Hb _]. apply Hdisj; assumption.
  - apply (Same keepA keepC first Hf). intros x Hx1 Hx2. unfold keepA in Hx1. apply andb_prop in Hx1 as [Hx1 _].
    unfold keepC in Hx2. apply andb_prop in Hx2 as [Hx2 _]. rewrite (import_not_local x Hx1) in Hx2. discriminate.
  - apply (Same keepA keepC later Hl). intros x Hx1 Hx2. unfold keepA in Hx1. apply andb_prop in Hx1 as [Hx1 _].
    unfold keepC in Hx2. apply andb_prop in Hx2 as [Hx2 _]. rewrite (import_not_local x Hx1) in Hx2. discriminate.
  - intros a b Ha Hb E. apply filter_In in Ha as [Ha _]. apply filter_In in Hb as [Hb _]. apply (Hdisj b a Hb Ha). symmetry. exact E.
  - intros a b Ha Hb E. apply filter_In in Ha as [Ha _]. apply filter_In in Hb as [Hb _]. apply (Hdisj b a Hb Ha). symmetry. exact E.
Qed.

(* [import_fps]: the fingerprints of this kind's live imports in import-section order; [noD02] = they come in the
   order of the import items of the index space.  Proofs/ReidxInv.v derives this premise for every reachable state
   from the linkage invariant (the encoder fills the import slots of a kind in index order). *)
Variable import_fps : list N.
Hypothesis noD02 : import_fps = map it_fp Ipart.

Theorem binding : forall p it,
  nth_error (spec orig l) p = Some it ->
  exists q, lookup (mapping (spec orig l)) (it_id it) = Some q /\
            nth_error (import_fps ++ emitted_locals (spec orig l) true) (N.to_nat q) = Some (it_fp it).
Proof.
  intros p it Hp. exists (N.of_nat p). split.
  - apply mapping_pos; [exact spec_ids_nodup|exact Hp].
  - rewrite Nat2N.id. rewrite noD02, emitted_locals_spec, <- map_app, <- spec_split.
    rewrite nth_error_map, Hp. reflexivity.
Qed.

(* every live item of the input is in the index space, so [binding] applies to it *)
Theorem live_items_bound : forall it, In it l -> it_del it = false ->
  exists q, lookup (mapping (spec orig l)) (it_id it) = Some q /\
            nth_error (import_fps ++ emitted_locals (spec orig l) true) (N.to_nat q) = Some (it_fp it).
Proof.
  intros it Hin Hd. pose proof (spec_keeps_live orig l it Hin Hd) as H.
  apply In_nth_error in H as [p Hp]. eapply binding. exact Hp.
Qed.

(* ... and no index designates a deleted item: nothing deleted is left in the index space *)
Theorem no_deleted_left : forall it, In it (spec orig l) -> it_del it = false.
Proof. intros it H. exact (spec_no_deleted orig l it H). Qed.
End Bind.

Print Assumptions binding.
Print Assumptions live_items_bound.
