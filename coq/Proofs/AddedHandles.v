(* The index-space half of C12 and C30 as theorems: the FunctionID that FunctionBuilder::finish_module returns, the
   GlobalID of add_global (module or iterator level) and the MemoryID of add_local_memory designate the added item
   after any later history of the engine's API calls that does not delete / convert that very item, from every
   parsed module and every earlier history.  Lifted from Proofs/ReidxHandles.v: the builder model (Model/Builder.v)
   and the additions model (Model/Additions.v) drive Reindex.step on their embedded index-space state. *)
From Coq Require Import List Arith NArith ZArith Bool Lia.
Import ListNotations.
From Orca Require Import Util Reindex CheckReidx ReidxInv ReidxHandles Builder CheckBuild Additions CheckAdds.
Local Open Scope N_scope.

(* ------------------------------------------------------------------------------------------ *)
(* builder engine (C12) *)
Definition rop_b (o : bop) : op :=
  match o with
  | BBuild fp _ _ _ _ _ => AddLocal SF fp
  | BAddImpFunc fp => AddImport SF fp
  | BDelete id => Delete SF id
  | BLocalToImport id fp => LocalToImport id fp
  end.

Lemma bstep_step s o s' r : bstep s o = Ok (s', r) -> step (b_m s) (rop_b o) = Ok (b_m s', r).
Proof.
  destruct o; cbn [bstep rop_b].
  - destruct (Types.add_type _ _) as [tid ts']. destruct (step (b_m s) (AddLocal SF fp)) as [[m r']|]; [|discriminate].
    intros H. injection H as H1 H2. subst. reflexivity.
  - destruct (step (b_m s) (AddImport SF fp)) as [[m r']|]; [|discriminate]. intros H. injection H as H1 H2. subst. reflexivity.
  - destruct (step (b_m s) (Delete SF id)) as [[m r']|]; [|discriminate]. intros H. injection H as H1 H2. subst. reflexivity.
  - destruct (step (b_m s) (LocalToImport id fp)) as [[m r']|]; [|discriminate]. intros H. injection H as H1 H2. subst. reflexivity.
Qed.

Lemma brun_run_pref : forall h s rets s' rets',
  brun s h rets = (s', rets', false) -> run_pref (b_m s) (map rop_b h) rets = (b_m s', rets', false).
Proof.
  induction h as [|o h IH]; intros s rets s' rets' H; cbn [brun] in H; cbn [map run_pref].
  - injection H as H1 H2. subst. reflexivity.
  - destruct (bstep s o) as [[s1 r]|w] eqn:E; [|discriminate].
    rewrite (bstep_step _ _ _ _ E). exact (IH _ _ _ _ H).
Qed.

Theorem built_function_id_designates_it :
  forall (c : bcase) h1 fp params results locs body name h2 s0 r0 s1 id s2 rets2 lf mf,
  brun (bbase c) h1 [] = (s0, r0, false) ->
  bstep s0 (BBuild fp params results locs body name) = Ok (s1, Some id) ->
  brun s1 h2 [] = (s2, rets2, false) ->
  existsb (fun o => names (rop_b o) SF id) h2 = false ->
  index_space (m_f (b_m s2)) = Ok (lf, mf) ->
  nthN (s_items (m_f (b_m s2))) id = Some (mkItem id None false fp) /\
  exists q, lookup mf id = Some q /\ nthN (space_of_model (b_m s2) lf SF) q = Some fp.
Proof.
  intros c h1 fp params results locs body name h2 s0 r0 s1 id s2 rets2 lf mf H1 Hb H2 Hn Hl.
  pose proof (brun_run_pref _ _ _ _ _ H1) as R1. cbn [bbase b_m] in R1.
  pose proof (run_pref_wf _ _ _ _ _ _ (wf_mk_base (CheckBuild.to_rcase c)) R1) as W0.
  pose proof (bstep_step _ _ _ _ Hb) as Hs. cbn [rop_b] in Hs.
  pose proof (brun_run_pref _ _ _ _ _ H2) as R2.
  assert (Hn' : existsb (fun o' => names o' SF id) (map rop_b h2) = false).
  { clear -Hn. induction h2 as [|o h IH]; [reflexivity|]. cbn [existsb map] in *. apply orb_false_iff in Hn.
    destruct Hn as [A B]. rewrite A, (IH B). reflexivity. }
  assert (Ha : adds (AddLocal SF fp) SF fp = true) by (cbn [adds sp_eqb]; rewrite N.eqb_refl; reflexivity).
  destruct (returned_id_designates_from (b_m s0) (AddLocal SF fp) SF fp (map rop_b h2) (b_m s1) id (b_m s2) rets2 []
              W0 Ha Hs R2 Hn' lf mf Hl) as [_ [Hit Hq]].
  split; [exact Hit | exact Hq].
Qed.

(* ------------------------------------------------------------------------------------------ *)
(* additions engine (C30) *)
Definition rop_a (o : aop) : op :=
  match o with
  | OAddGlobal fp _ _ => AddLocal SG fp
  | OAddImpGlobal fp _ => AddImport SG fp
  | OItAddGlobal fp _ _ => ItAddGlobal fp
  | OAddMem fp _ => AddLocal SM fp
  | OAddImpMem fp _ => AddImport SM fp
  | OAddImpFunc fp => AddImport SF fp
  | ODelete x id => Delete x id
  | OAddData _ | OAddExport _ _ _ | ODelExport _ | OModInit _ _ => AddData 0      (* no effect on the index spaces *)
  end.
Definition index_op (o : aop) : bool :=
  match o with OAddData _ | OAddExport _ _ _ | ODelExport _ | OModInit _ _ => false | _ => true end.

Lemma astep_step s o s' r : astep s o = Ok (s', r) ->
  exists r', step (a_m s) (rop_a o) = Ok (a_m s', r') /\ (index_op o = true -> r' = r).
Proof.
  destruct o; cbn [astep rop_a index_op].
  - destruct (gty_conv t); [|discriminate]. destruct (step (a_m s) (AddLocal SG fp)) as [[m r0]|]; [|discriminate].
    intros H. injection H as H1 H2. subst. exists r. split; [reflexivity|auto].
  - destruct (gty_conv t); [|discriminate]. destruct (step (a_m s) (AddImport SG fp)) as [[m r0]|]; [|discriminate].
    intros H. injection H as H1 H2. subst. exists r. split; [reflexivity|auto].
  - destruct (step (a_m s) (ItAddGlobal fp)) as [[m r0]|]; [|discriminate].
    intros H. injection H as H1 H2. subst. exists r. split; [reflexivity|auto].
  - destruct (step (a_m s) (AddLocal SM fp)) as [[m r0]|]; [|discriminate].
    intros H. injection H as H1 H2. subst. exists r. split; [reflexivity|auto].
  - destruct (step (a_m s) (AddImport SM fp)) as [[m r0]|]; [|discriminate].
    intros H. injection H as H1 H2. subst. exists r. split; [reflexivity|auto].
  - destruct (step (a_m s) (AddImport SF fp)) as [[m r0]|]; [|discriminate].
    intros H. injection H as H1 H2. subst. exists r. split; [reflexivity|auto].
  - intros H. injection H as H1 H2. subst. exists None. split; [reflexivity|discriminate].
  - intros H. injection H as H1 H2. subst. exists None. split; [reflexivity|discriminate].
  - destruct (k <? lenN (a_exports s)); [|discriminate]. intros H. injection H as H1 H2. subst. exists None. split; [reflexivity|discriminate].
  - destruct (nthN (s_items (m_g (a_m s))) g) as [it|]; [|discriminate]. destruct (is_local it); [|discriminate].
    destruct (plookup (a_gpay s) (it_fp it)); [|discriminate]. intros H. injection H as H1 H2. subst. exists None. split; [reflexivity|discriminate].
  - destruct (step (a_m s) (Delete s0 id)) as [[m r0]|]; [|discriminate].
    intros H. injection H as H1 H2. subst. exists r. split; [reflexivity|auto].
Qed.

Lemma arun_run_pref : forall h s rets s' rets' rr,
  arun s h rets = (s', rets', false) -> exists rr', run_pref (a_m s) (map rop_a h) rr = (a_m s', rr', false).
Proof.
  induction h as [|o h IH]; intros s rets s' rets' rr H; cbn [arun] in H; cbn [map run_pref].
  - injection H as H1 H2. subst. exists rr. reflexivity.
  - destruct (astep s o) as [[s1 r]|w] eqn:E; [|discriminate].
    destruct (astep_step _ _ _ _ E) as [r' [Hs _]]. rewrite Hs. exact (IH _ _ _ _ _ H).
Qed.

(* the additions whose returned id is a handle into an index space *)
Definition adds_a (o : aop) (x : sp) (fp : N) : bool := index_op o && adds (rop_a o) x fp.

Theorem added_item_id_designates_it :
  forall (c : acase) h1 o x fp h2 s0 r0 s1 id s2 rets2 l mp,
  arun (abase c) h1 [] = (s0, r0, false) ->
  adds_a o x fp = true -> astep s0 o = Ok (s1, Some id) ->
  arun s1 h2 [] = (s2, rets2, false) ->
  existsb (fun o' => names (rop_a o') x id) h2 = false ->
  index_space (get_sp (a_m s2) x) = Ok (l, mp) ->
  nthN (s_items (get_sp (a_m s2) x)) id = Some (mkItem id None false fp) /\
  exists q, lookup mp id = Some q /\ nthN (space_of_model (a_m s2) l x) q = Some fp.
Proof.
  intros c h1 o x fp h2 s0 r0 s1 id s2 rets2 l mp H1 Ha Hs H2 Hn Hl.
  destruct (arun_run_pref _ _ _ _ _ [] H1) as [rr1 R1]. cbn [abase a_m] in R1.
  pose proof (run_pref_wf _ _ _ _ _ _ (wf_mk_base (CheckAdds.to_rcase c)) R1) as W0.
  unfold adds_a in Ha. apply andb_true_iff in Ha. destruct Ha as [Hio Ha].
  destruct (astep_step _ _ _ _ Hs) as [r' [Hs' Hr]]. rewrite (Hr Hio) in Hs'.
  destruct (arun_run_pref _ _ _ _ _ [] H2) as [rr2 R2].
  assert (Hn' : existsb (fun o' => names o' x id) (map rop_a h2) = false).
  { clear -Hn. induction h2 as [|o' h IH]; [reflexivity|]. cbn [existsb map] in *. apply orb_false_iff in Hn.
    destruct Hn as [A B]. rewrite A, (IH B). reflexivity. }
  destruct (returned_id_designates_from (a_m s0) (rop_a o) x fp (map rop_a h2) (a_m s1) id (a_m s2) rr2 []
              W0 Ha Hs' R2 Hn' l mp Hl) as [_ [Hit Hq]].
  split; [exact Hit | exact Hq].
Qed.
