(* C05, instrumentation side: the resolution pass leaves no special-mode list behind.  Every instruction the pass
   visits either has its semantic-after / block-entry / block-exit lists planned and cleared (flag_stage), or is the
   opener of a replaced construct (block-alt resolved, every special mode cleared with it), or is deleted inside a
   replaced region (delete_instr: empty alternate + every special mode cleared).  Hence the body the first encode()
   leaves behind satisfies the premise of Idem.resolve_idempotent, and the second resolution is the identity --
   also when special probes sat inside regions the same plan removes (the former D31). *)
From Coq Require Import List Arith NArith ZArith Bool Lia.
Import ListNotations.
From Orca Require Import Util Flat Lowering CheckLow Idem Commute Flatten.

Local Arguments flag_stage : simpl never.

(* what the injection API can produce: block-alt only on block / loop / if / else *)
Definition accepted (x : fop * flags) : bool := is_block_style (fst x) || is_none (f_balt (snd x)).

(* the working flags carry the special lists of the instruction's own flags *)
Definition sp_eq (w orig : flags) : Prop :=
  f_sa w = f_sa orig /\ f_be w = f_be orig /\ f_bx w = f_bx orig /\ f_balt w = f_balt orig.

Lemma sp_eq_refl f : sp_eq f f.
Proof. repeat split. Qed.
Lemma sp_eq_before x w orig : sp_eq w orig -> sp_eq (w_before x w) orig.
Proof. intros H. exact H. Qed.
Lemma sp_eq_pend2 p w orig : sp_eq w orig -> sp_eq (resolve_pend2 p w) orig.
Proof. intros H. exact H. Qed.

Lemma no_special_delete w : no_special (w_delete w) = true.
Proof. reflexivity. Qed.
Lemma no_special_clear w : no_special (w_clear_special w) = true.
Proof. reflexivity. Qed.

Lemma flag_stage_clears op orig st w :
  sp_eq w orig -> f_balt orig = None -> no_special (snd (flag_stage op orig st w)) = true.
Proof.
  intros (Hs & Hb & Hx & Ha) Hn. rewrite Hn in Ha.
  destruct orig as [ob oa oal osa obe obx obal]. destruct w as [wb wa wal wsa wbe wbx wbal].
  cbn [f_sa f_be f_bx f_balt] in *. subst.
  unfold flag_stage.
  destruct obe as [|e1 obe]; destruct obx as [|x1 obx]; destruct osa as [|s1 osa];
    try (unfold has_instr; cbn [f_before f_after f_alt f_sa f_be f_bx f_balt is_nil is_none negb];
         rewrite ?orb_true_r; cbn [negb orb]);
    try (destruct (negb _); reflexivity);
    destruct op; reflexivity.
Qed.

Lemma resolve_roe_sp k st w orig : sp_eq w orig -> sp_eq (snd (resolve_roe k st w)) orig.
Proof. intros H. unfold resolve_roe. destruct (ron_get k (r_roe st)); exact H. Qed.

Lemma rstep3_clears op orig st w :
  sp_eq w orig -> accepted (op, orig) = true -> no_special (snd (rstep3 op orig st w)) = true.
Proof.
  intros H Hacc.
  assert (BA : forall b st0 w0, sp_eq w0 orig ->
            no_special (snd (match block_alt_case b orig st0 w0 with Some r => r | None => flag_stage op orig st0 w0 end)) = true).
  { intros b st0 w0 H0. unfold block_alt_case.
    destruct (f_balt orig) as [alt|] eqn:Eb; destruct (r_del st0); try reflexivity.
    apply flag_stage_clears; assumption. }
  assert (NB : is_block_style op = false -> f_balt orig = None).
  { intros Hb. unfold accepted in Hacc. cbn [fst snd] in Hacc. rewrite Hb in Hacc. cbn [orb] in Hacc.
    destruct (f_balt orig); [discriminate|reflexivity]. }
  destruct op; cbn [rstep3];
    try (destruct (r_del st); [reflexivity|apply flag_stage_clears; [exact H|apply NB; reflexivity]]).
  - apply BA. exact H.
  - apply BA. exact H.
  - apply BA. exact H.
  - (* else *)
    assert (E : sp_eq (snd (match r_stack st with [] => (st, w) | k :: _ => resolve_roe k st w end)) orig).
    { destruct (r_stack st); [exact H|apply resolve_roe_sp; exact H]. }
    destruct (match r_stack st with [] => (st, w) | k :: _ => resolve_roe k st w end) as [st1 w1]. apply BA. exact E.
  - (* end *)
    destruct (r_stack st) as [|bid rest]; [apply flag_stage_clears; [exact H|apply NB; reflexivity]|].
    assert (K : forall st0 w0, sp_eq w0 orig ->
      no_special (snd (let '(st1, w1) := resolve_roe bid st0 w0 in
         let '(st2, w2) := match ron_get bid (r_ron st1) with
                           | Some p => (set_ron (ron_remove bid (r_ron st1)) st1, resolve_pend2 p w1)
                           | None => (st1, w1) end in
         flag_stage FEnd orig st2 w2)) = true).
    { intros st0 w0 H0. pose proof (resolve_roe_sp bid st0 w0 orig H0) as H1.
      destruct (resolve_roe bid st0 w0) as [st1 w1]. cbn [snd] in H1.
      destruct (ron_get bid (r_ron st1)); apply flag_stage_clears; try exact H1; apply NB; reflexivity. }
    destruct (r_del (set_stack rest st)) as [dd|]; [|apply K; exact H].
    destruct (Nat.eqb dd bid); [|reflexivity].
    destruct (negb (r_retain (set_del None (set_stack rest st)))); [reflexivity|apply K; exact H].
Qed.

(* rstep = its stage 3 on working flags that still carry the instruction's special lists *)
Lemma rstep_is_rstep3 last idx op orig st :
  exists st' w, rstep last idx op orig st = rstep3 op orig st' w /\ sp_eq w orig.
Proof.
  unfold rstep.
  destruct (negb (is_nil (r_entry st)) && Nat.eqb idx 0);
    (destruct (is_nil (r_exit _)); [eexists _, _; split; [reflexivity|repeat split]|]);
    (destruct (is_exit_op op); [eexists _, _; split; [reflexivity|repeat split]|]);
    (destruct (Nat.eqb idx last); eexists _, _; (split; [reflexivity|repeat split])).
Qed.

Lemma rstep_clears last idx op orig st :
  accepted (op, orig) = true -> no_special (snd (rstep last idx op orig st)) = true.
Proof.
  intros Hacc. destruct (rstep_is_rstep3 last idx op orig st) as (st' & w & E & H). rewrite E.
  apply rstep3_clears; assumption.
Qed.

Lemma rloop_clears last : forall body idx st,
  forallb accepted body = true ->
  forallb (fun x => no_special (snd x)) (fst (rloop last idx body st)) = true.
Proof.
  induction body as [|[op f] body IH]; intros idx st Hb; [reflexivity|].
  cbn [forallb] in Hb. apply andb_prop in Hb as [Ha Hb].
  cbn [rloop]. pose proof (rstep_clears last idx op f st Ha) as H1.
  destruct (rstep last idx op f st) as [st1 w]. specialize (IH (S idx) st1 Hb).
  destruct (rloop last (S idx) body st1) as [r st2]. cbn [fst snd forallb] in *. rewrite H1, IH. reflexivity.
Qed.

(* after the first resolution no special-mode list is left, whatever the plan removes *)
Theorem resolve_clears_special entry exit ty body loc :
  forallb accepted body = true ->
  forallb (fun x => no_special (snd x)) (fst (resolve true entry exit ty body loc)) = true.
Proof.
  intros Hb. unfold resolve. cbn [negb].
  pose proof (rloop_clears (length body - 1) body 0
                (mkR (if is_nil exit then entry else entry ++ [FBlock (BtFunc ty)]) exit [0] None true [] [] loc) Hb) as H.
  destruct (rloop _ _ _ _) as [r st']. exact H.
Qed.

(* ... so the resolution pass of a second encode() is the identity on it (body and locals) *)
Theorem second_resolution_is_identity entry exit ty body loc loc2 :
  forallb accepted body = true ->
  resolve true [] [] ty (fst (resolve true entry exit ty body loc)) loc2
  = (fst (resolve true entry exit ty body loc), loc2).
Proof. intros Hb. apply resolve_idempotent. apply resolve_clears_special. exact Hb. Qed.

(* ---------- the flags the injection API builds are [accepted] ---------- *)
Lemma add_all_accepted op m : forall xs f sp f' s,
  add_all op m xs f sp = Some (f', s) -> accepted (op, f) = true -> accepted (op, f') = true.
Proof.
  induction xs as [|x xs IH]; intros f sp f' s H Ha.
  - inversion H; subst. exact Ha.
  - cbn [add_all] in H. destruct (add_instr op m x f) as [[f1 s1]|] eqn:E; [|discriminate H].
    apply (IH _ _ _ _ H). clear - E Ha. unfold accepted in *. cbn [fst snd] in *.
    unfold add_instr in E. destruct m.
    1-3: inversion E; subst; exact Ha.
    + destruct (is_block_style op || is_branching op); inversion E; subst. exact Ha.
    + destruct (is_block_style op); inversion E; subst. reflexivity.
    + destruct (is_block_style op); inversion E; subst. reflexivity.
    + destruct (is_block_style op); inversion E; subst. reflexivity.
Qed.

(* every block-alternate of the plan sits on a block / loop / if / else (what Module-level callers get: the API
   rejects anything else; the model's removal form `[], MBlockAlt` is guarded by this premise) *)
Definition balt_sites_ok (ops : list fop) (plan : list (nat * mode * list fop)) : bool :=
  forallb (fun e => negb (mode_eqb (snd (fst e)) MBlockAlt) || is_block_style (nth (fst (fst e)) ops FEnd)) plan.

Lemma apply_plan_accepted ma : forall plan body sp fb sp',
  apply_plan ma plan body sp = Some (fb, sp') ->
  balt_sites_ok (map fst body) plan = true -> forallb accepted body = true -> forallb accepted fb = true.
Proof.
  induction plan as [|[[idx m] xs] plan IH]; intros body sp fb sp' H Hok Hb.
  - inversion H; subst. exact Hb.
  - cbn [apply_plan] in H. destruct (nth_error body idx) as [[op f]|] eqn:En; [|discriminate H].
    unfold balt_sites_ok in Hok. cbn [forallb fst snd] in Hok. apply andb_prop in Hok as [Hs Hok].
    assert (Hop : nth idx (map fst body) FEnd = op).
    { apply nth_error_nth. rewrite nth_error_map, En. reflexivity. }
    rewrite Hop in Hs.
    assert (Hf : accepted (op, f) = true).
    { apply nth_error_In in En. rewrite forallb_forall in Hb. apply (Hb _ En). }
    destruct (match xs, m with
              | [], MAlternate => Some (mkFlags (f_before f) (f_after f) (Some []) (f_sa f) (f_be f) (f_bx f) (f_balt f), false)
              | [], MBlockAlt => Some (mkFlags (f_before f) (f_after f) (f_alt f) (f_sa f) (f_be f) (f_bx f) (Some []), true)
              | _, _ => match add_all op m xs f false with Some (f', s) => Some (f', s) | None => None end
              end) as [[f' s]|] eqn:Em; [|discriminate H].
    destruct (upd_nth idx (fun _ => Some (op, f')) body) as [body'|] eqn:Eu; [|discriminate H].
    assert (Hf' : accepted (op, f') = true).
    { destruct xs as [|x xs].
      - destruct m; inversion Em; subst; try exact Hf.
        cbn [mode_eqb negb orb] in Hs. unfold accepted. cbn [fst]. rewrite Hs. reflexivity.
      - assert (Em' : exists s0, add_all op m (x :: xs) f false = Some (f', s0)).
        { destruct m; destruct (add_all op _ (x :: xs) f false) as [[? ?]|]; inversion Em; eauto. }
        destruct Em' as [s0 Em']. eapply add_all_accepted; eassumption. }
    apply (IH _ _ _ _ H).
    + unfold balt_sites_ok. rewrite (upd_nth_fst FEnd idx body body' op f'); [exact Hok| |exact Eu].
      rewrite nth_error_map, En. reflexivity.
    + eapply upd_nth_forallb; [exact Eu|exact Hf'|exact Hb].
Qed.

(* C05 on the mirror of one case: whatever the plan (all seven modes, nested block-alternates, special probes inside
   the regions it removes), after the first encode's resolution no special list is left and the resolution of a
   second encode is the identity *)
Theorem model_second_resolution_is_identity (c : lcase) fb sp loc2 :
  apply_plan false (c_plan c) (map (fun o => (o, no_flags)) (c_body c)) false = Some (fb, sp) ->
  balt_sites_ok (c_body c) (c_plan c) = true ->
  let loc := mkLocals (c_nparams c) (c_numlocals c) (c_groups c) in
  let r := fst (resolve true (c_entry c) (c_exit c) (c_exit_ty c) fb loc) in
  forallb (fun x => no_special (snd x)) r = true /\ resolve true [] [] (c_exit_ty c) r loc2 = (r, loc2).
Proof.
  intros Ha Hok loc r.
  assert (Hacc : forallb accepted fb = true).
  { apply (apply_plan_accepted _ _ _ _ _ _ Ha).
    - rewrite map_map. cbn [fst]. rewrite map_id. exact Hok.
    - clear. induction (c_body c) as [|o l IHl]; [reflexivity|]. cbn [map forallb]. rewrite IHl.
      unfold accepted. cbn. rewrite orb_true_r. reflexivity. }
  split; [apply resolve_clears_special; exact Hacc|apply second_resolution_is_identity; exact Hacc].
Qed.

Print Assumptions resolve_clears_special.
Print Assumptions second_resolution_is_identity.
Print Assumptions model_second_resolution_is_identity.
