(* Handles returned by the additions stay valid (C12, C30, and the "added" half of C06-C08): the id that
   FunctionBuilder::finish_module / add_global / add_local_memory / an iterator's add_global returns designates the
   added item after ANY later history that does not itself delete or convert that item -- whatever else is added,
   deleted, converted or replaced in between, in any of the three spaces -- and the encoder maps it to the index at
   which Wasm's index rule finds that very item in the emitted module.  Proved over the Reindex model on top of the
   well-formedness invariant and the binding theorem of ReidxInv.v. *)
From Coq Require Import List Arith NArith Bool Lia.
Import ListNotations.
From Orca Require Import Util Reindex CheckReidx ReidxProofs ReidxBind ReidxInv.
Local Open Scope N_scope.

Definition sp_eqb (a b : sp) : bool :=
  match a, b with SF, SF | SG, SG | SM, SM => true | _, _ => false end.
Lemma sp_eqb_eq a b : sp_eqb a b = true <-> a = b.
Proof. destruct a, b; cbn; split; intros H; try reflexivity; try discriminate. Qed.

(* the call names the local item [id] of space [x]: it deletes it or converts it into an import *)
Definition names (o : op) (x : sp) (id : N) : bool :=
  match o with
  | Delete s i => sp_eqb s x && N.eqb i id
  | LocalToImport i _ => sp_eqb SF x && N.eqb i id
  | _ => false
  end.

Lemma get_set_same m s x : get_sp (set_sp m s x) s = x.
Proof. destruct s; reflexivity. Qed.
Lemma get_set_other m s s' x : s' <> s -> get_sp (set_sp m s x) s' = get_sp m s'.
Proof. destruct s, s'; intros H; try reflexivity; contradiction H; reflexivity. Qed.
Lemma get_set m s s' x : get_sp (set_sp m s x) s' = if sp_eqb s s' then x else get_sp m s'.
Proof. destruct s, s'; reflexivity. Qed.

Lemma nthN_updN_other' {A} (f : A -> A) l k k' : k <> k' -> nthN (updN k f l) k' = nthN l k'.
Proof. intros H. apply nthN_updN_other. exact H. Qed.

(* items of the spaces of a state whose import list alone was changed *)
Lemma items_mkM_imports m imps x : s_items (get_sp (mkM (m_f m) (m_g m) (m_m m) imps) x) = s_items (get_sp m x).
Proof. destruct x; reflexivity. Qed.

Lemma delete_in_keeps m s i m' x id it :
  delete_in m s i = Ok m' -> nthN (s_items (get_sp m x)) id = Some it ->
  (sp_eqb s x && N.eqb i id) = false ->
  nthN (s_items (get_sp m' x)) id = Some it.
Proof.
  intros H Hit Hn. unfold delete_in in H.
  set (xs := get_sp m s) in *.
  set (items' := if i <? lenN (s_items xs) then updN i (set_del true) (s_items xs) else s_items xs) in *.
  set (m1 := set_sp m s (mkSpace items' true (s_num xs) (s_added xs) (s_nlocal xs))) in *.
  assert (Hm1 : nthN (s_items (get_sp m1 x)) id = Some it).
  { destruct (sp_eqb s x) eqn:Esx.
    - apply sp_eqb_eq in Esx. subst x. unfold m1. rewrite get_set_same. cbn [s_items]. unfold items'.
      cbn [andb] in Hn. apply N.eqb_neq in Hn.
      destruct (i <? lenN (s_items xs)); [rewrite nthN_updN_other' by exact Hn|]; exact Hit.
    - unfold m1. rewrite get_set_other; [exact Hit|]. intros E. subst x. destruct s; discriminate. }
  destruct (nthN items' i) as [it0|]; [|discriminate].
  destruct (it_imp it0) as [k|]; injection H as H; subst m'; [|exact Hm1].
  rewrite items_mkM_imports. exact Hm1.
Qed.

Lemma push_import_keeps m s fp x :
  s_items (get_sp (fst (fst (push_import m s fp))) x) = s_items (get_sp m x).
Proof.
  unfold push_import. cbn [fst]. rewrite items_mkM_imports.
  destruct (sp_eqb s x) eqn:E.
  - apply sp_eqb_eq in E. subst x. rewrite get_set_same. reflexivity.
  - rewrite get_set_other; [reflexivity|]. intros E'. subst x. destruct s; discriminate.
Qed.

(* a local item that the call does not name stays where it is, as it is *)
Lemma step_keeps_local_item m o m' r x id it :
  step m o = Ok (m', r) -> nthN (s_items (get_sp m x)) id = Some it -> it_imp it = None ->
  names o x id = false -> nthN (s_items (get_sp m' x)) id = Some it.
Proof.
  intros H Hit Hloc Hn.
  assert (Hsnoc : forall s (xs : space) a rc nm ad nl,
            xs = get_sp m s ->
            nthN (s_items (get_sp (set_sp m s (mkSpace (s_items xs ++ [a]) rc nm ad nl)) x)) id = Some it).
  { intros s xs a rc nm ad nl Exs. rewrite get_set. destruct (sp_eqb s x) eqn:E; [|exact Hit].
    apply sp_eqb_eq in E. cbn [s_items]. apply nthN_snoc_l. rewrite Exs, E. exact Hit. }
  destruct o as [s fp|s fp|s i|i fp|k fp|fp|s i|k|mem].
  - (* AddLocal *)
    destruct s; cbn [step] in H.
    + destruct (N.eqb _ _); [|discriminate]. injection H as H _. subst m'. apply (Hsnoc SF (m_f m)). reflexivity.
    + injection H as H _. subst m'. apply (Hsnoc SG (m_g m)). reflexivity.
    + injection H as H _. subst m'. apply (Hsnoc SM (m_m m)). reflexivity.
  - (* AddImport *)
    assert (Hp : forall s', nthN (s_items (get_sp (fst (fst (push_import m s' fp))) x)) id = Some it)
      by (intros s'; rewrite push_import_keeps; exact Hit).
    destruct s; cbn [step] in H.
    + destruct (push_import m SF fp) as [[m1 i1] k1] eqn:Ep. specialize (Hp SF). rewrite Ep in Hp. cbn [fst] in Hp.
      destruct (N.eqb _ _); [|discriminate]. injection H as H _. subst m'.
      destruct x; cbn [get_sp set_sp s_items m_f m_g m_m] in *; try exact Hp; apply nthN_snoc_l; exact Hp.
    + destruct (push_import m SG fp) as [[m1 i1] k1] eqn:Ep. specialize (Hp SG). rewrite Ep in Hp. cbn [fst] in Hp.
      injection H as H _. subst m'.
      destruct x; cbn [get_sp set_sp s_items m_f m_g m_m] in *; try exact Hp; apply nthN_snoc_l; exact Hp.
    + destruct (push_import m SM fp) as [[m1 i1] k1] eqn:Ep. specialize (Hp SM). rewrite Ep in Hp. cbn [fst] in Hp.
      destruct (N.eqb _ _); [|discriminate]. injection H as H _. subst m'.
      destruct x; cbn [get_sp set_sp s_items m_f m_g m_m] in *; try exact Hp; apply nthN_snoc_l; exact Hp.
  - (* Delete *)
    cbn [step] in H. destruct (delete_in m s i) as [m1|] eqn:E; [|discriminate]. injection H as H _. subst m'.
    exact (delete_in_keeps _ _ _ _ _ _ _ E Hit Hn).
  - (* LocalToImport *)
    cbn [step] in H. destruct (nthN (s_items (m_f m)) i) as [it0|]; [|discriminate].
    destruct (is_import it0); [injection H as H _; subst m'; exact Hit|].
    destruct (delete_in m SF i) as [m1|] eqn:E; [|discriminate].
    pose proof (delete_in_keeps _ _ _ _ x id it E Hit Hn) as H1.
    destruct (push_import m1 SF fp) as [[m2 i2] k2] eqn:Ep.
    pose proof (push_import_keeps m1 SF fp x) as Hk. rewrite Ep in Hk. cbn [fst] in Hk.
    injection H as H _. subst m'.
    destruct x; cbn [get_sp set_sp s_items m_f m_g m_m] in *; try (rewrite Hk; exact H1).
    cbn [names sp_eqb andb] in Hn. apply N.eqb_neq in Hn.
    rewrite nthN_updN_other' by exact Hn. rewrite Hk. exact H1.
  - (* ImportToLocal: the replaced item carries an import entry, so it is not the local item [id] *)
    cbn [step] in H. destruct (nthN (m_imports m) k) as [im|]; [|discriminate].
    destruct (negb (N.eqb (i_sp im) 0)); [discriminate|].
    destruct (find_imp (s_items (m_f m)) k 0) as [p|] eqn:Ef; [|injection H as H _; subst m'; exact Hit].
    destruct (delete_in m SF p) as [m1|] eqn:E; [|discriminate].
    injection H as H _. subst m'.
    destruct (find_imp_spec _ _ _ _ Ef) as [_ [itp [Hp Hip]]]. rewrite N.sub_0_r in Hp.
    destruct x.
    + cbn [get_sp set_sp s_items m_f m_g m_m] in *.
      assert (Hne : p <> id).
      { intros ->. unfold nthN in Hit. rewrite Hp in Hit. injection Hit as <-. congruence. }
      rewrite nthN_updN_other' by exact Hne.
      apply (delete_in_keeps _ _ _ _ SF id it E Hit). cbn [sp_eqb andb]. apply N.eqb_neq. exact Hne.
    + cbn [get_sp set_sp s_items m_f m_g m_m]. apply (delete_in_keeps _ _ _ _ SG id it E Hit). reflexivity.
    + cbn [get_sp set_sp s_items m_f m_g m_m]. apply (delete_in_keeps _ _ _ _ SM id it E Hit). reflexivity.
  - (* ItAddGlobal *)
    cbn [step] in H. injection H as H _. subst m'. apply (Hsnoc SG (m_g m)). reflexivity.
  - cbn [step] in H. injection H as H _. subst m'. exact Hit.
  - cbn [step] in H. injection H as H _. subst m'. exact Hit.
  - cbn [step] in H. injection H as H _. subst m'. exact Hit.
Qed.

Lemma run_pref_keeps_local_item : forall h m rets m' rets' b x id it,
  run_pref m h rets = (m', rets', b) -> nthN (s_items (get_sp m x)) id = Some it -> it_imp it = None ->
  existsb (fun o => names o x id) h = false -> nthN (s_items (get_sp m' x)) id = Some it.
Proof.
  induction h as [|o h IH]; intros m rets m' rets' b x id it H Hit Hloc Hn; cbn [run_pref] in H.
  - injection H as H _ _. subst m'. exact Hit.
  - cbn [existsb] in Hn. apply orb_false_iff in Hn. destruct Hn as [Ho Hh].
    destruct (step m o) as [[m1 r]|w] eqn:E.
    + exact (IH m1 _ m' rets' b x id it H (step_keeps_local_item _ _ _ _ _ _ _ E Hit Hloc Ho) Hloc Hh).
    + injection H as H _ _. subst m'. exact Hit.
Qed.

(* what the additions return *)
Definition adds (o : op) (x : sp) (fp : N) : bool :=
  match o with
  | AddLocal s f => sp_eqb s x && N.eqb f fp
  | ItAddGlobal f => sp_eqb SG x && N.eqb f fp
  | _ => false
  end.

Lemma addition_returns_handle m o m' id x fp :
  adds o x fp = true -> step m o = Ok (m', Some id) ->
  nthN (s_items (get_sp m' x)) id = Some (mkItem id None false fp).
Proof.
  intros Ha H. destruct o as [s f|s f|s i|i f|k f|f|s i|k|mem]; cbn [adds] in Ha; try discriminate.
  - apply andb_true_iff in Ha. destruct Ha as [Hs Hf]. apply sp_eqb_eq in Hs. apply N.eqb_eq in Hf. subst x f.
    destruct s; cbn [step] in H.
    + destruct (N.eqb _ _); [|discriminate]. injection H as H Hid. subst m' id. cbn [get_sp set_sp s_items m_f m_g m_m]. apply nthN_snoc_r.
    + injection H as H Hid. subst m' id. cbn [get_sp set_sp s_items m_f m_g m_m]. apply nthN_snoc_r.
    + injection H as H Hid. subst m' id. cbn [get_sp set_sp s_items m_f m_g m_m]. apply nthN_snoc_r.
  - apply andb_true_iff in Ha. destruct Ha as [Hs Hf]. apply sp_eqb_eq in Hs. apply N.eqb_eq in Hf. subst x f.
    cbn [step] in H. injection H as H Hid. subst m' id. cbn [get_sp set_sp s_items m_f m_g m_m]. apply nthN_snoc_r.
Qed.

Lemma nthN_In {A} (l : list A) k a : nthN l k = Some a -> In a l.
Proof. unfold nthN. apply nth_error_In. Qed.

(* MAIN: the id an addition returned is, after any later history that does not name it, mapped by the encoder to
   the index at which Wasm's index rule finds the added item -- from every well-formed state *)
Theorem returned_id_designates_from : forall m0 o x fp h2 m1 id m rets rets0,
  wf m0 -> adds o x fp = true -> step m0 o = Ok (m1, Some id) ->
  run_pref m1 h2 rets0 = (m, rets, false) -> existsb (fun o' => names o' x id) h2 = false ->
  forall l mp, index_space (get_sp m x) = Ok (l, mp) ->
  wf m /\ nthN (s_items (get_sp m x)) id = Some (mkItem id None false fp) /\
  exists q, lookup mp id = Some q /\ nthN (space_of_model m l x) q = Some fp.
Proof.
  intros m0 o x fp h2 m1 id m rets rets0 W0 Ha Hs H2 Hn l mp Hl.
  pose proof (step_wf _ _ _ _ W0 Hs) as W1.
  pose proof (run_pref_wf _ _ _ _ _ _ W1 H2) as W.
  pose proof (addition_returns_handle _ _ _ _ _ _ Ha Hs) as Hit1.
  pose proof (run_pref_keeps_local_item _ _ _ _ _ _ x id _ H2 Hit1 eq_refl Hn) as Hit.
  split; [exact W|]. split; [exact Hit|].
  destruct (wf_binding m x W l mp Hl _ (nthN_In _ _ _ Hit) eq_refl) as [q [Hq Hf]].
  exists q. split; [exact Hq | exact Hf].
Qed.

Theorem returned_id_designates_added_item :
  forall base h1 o x fp h2 m0 r0 m1 id m rets,
  wf base -> run_pref base h1 [] = (m0, r0, false) ->
  adds o x fp = true -> step m0 o = Ok (m1, Some id) ->
  run_pref m1 h2 [] = (m, rets, false) -> existsb (fun o' => names o' x id) h2 = false ->
  forall l mp, index_space (get_sp m x) = Ok (l, mp) ->
  exists q, lookup mp id = Some q /\ nthN (space_of_model m l x) q = Some fp.
Proof.
  intros base h1 o x fp h2 m0 r0 m1 id m rets Wb H1 Ha Hs H2 Hn l mp Hl.
  pose proof (run_pref_wf _ _ _ _ _ _ Wb H1) as W0.
  exact (proj2 (proj2 (returned_id_designates_from m0 o x fp h2 m1 id m rets [] W0 Ha Hs H2 Hn l mp Hl))).
Qed.

(* the same on the emitted module, in the checker's vocabulary *)
Theorem returned_id_designates_in_emitted_module :
  forall base h1 o x fp h2 m0 r0 m1 id m rets dead sites e,
  wf base -> run_pref base h1 [] = (m0, r0, false) ->
  adds o x fp = true -> step m0 o = Ok (m1, Some id) ->
  run_pref m1 h2 [] = (m, rets, false) -> existsb (fun o' => names o' x id) h2 = false ->
  encode m dead sites = Ok e ->
  forall l mp, index_space (get_sp m x) = Ok (l, mp) ->
  exists q, lookup mp id = Some q /\ designates e x q = Some fp.
Proof.
  intros base h1 o x fp h2 m0 r0 m1 id m rets dead sites e Wb H1 Ha Hs H2 Hn He l mp Hl.
  pose proof (run_pref_wf _ _ _ _ _ _ Wb H1) as W0.
  destruct (returned_id_designates_from m0 o x fp h2 m1 id m rets [] W0 Ha Hs H2 Hn l mp Hl) as [W [Hit _]].
  destruct (wf_encode_designates m dead sites e W He x l mp Hl _ (nthN_In _ _ _ Hit) eq_refl) as [q [Hq Hf]].
  exists q. split; [exact Hq | exact Hf].
Qed.

(* every reference the encoder walks that carries the returned id is emitted with that index *)
Corollary reference_to_added_item_is_bound :
  forall mf mg mm s q, lookup (match rs_sp s with SF => mf | SG => mg | SM => mm end) (rs_id s) = Some q ->
  site_emit mf mg mm s = Ok (Some q).
Proof.
  intros mf mg mm s q H. unfold site_emit. destruct (rs_k s); rewrite H; try reflexivity; destruct (rs_sp s); reflexivity.
Qed.
