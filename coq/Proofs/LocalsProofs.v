(* C14: added locals get fresh indices of the requested type.  Theorems about the mirror of add_local
   (Lowering.add_local / bump_last) for all inputs: one addition, arbitrary sequences (fold_left), the
   invariant num_locals = number of declared locals, the view on the function's local index space
   (parameters ++ expanded groups), and soundness of the C14 checker of CheckLocals.v. *)
From Coq Require Import List Arith NArith Bool Lia.
Import ListNotations.
From Orca Require Import Util Flat Lowering Locals CheckLocals EqbFacts.
Local Open Scope N_scope.

(* ---------- expand ---------- *)
Lemma expand_app g1 g2 : expand (g1 ++ g2) = expand g1 ++ expand g2.
Proof.
  induction g1 as [|[c t] g1 IH]; cbn [expand app]; [reflexivity|].
  rewrite IH, app_assoc. reflexivity.
Qed.

Lemma repeat_snoc {A} (a : A) : forall n, repeat a (S n) = repeat a n ++ [a].
Proof.
  induction n as [|n IH]; [reflexivity|].
  change (a :: repeat a (S n) = a :: (repeat a n ++ [a])). f_equal. exact IH.
Qed.

Lemma bump_last_cons ty x y g : bump_last ty (x :: y :: g) = x :: bump_last ty (y :: g).
Proof. destruct x as [c t]. reflexivity. Qed.

Lemma bump_last_expand ty : forall g, expand (bump_last ty g) = expand g ++ [ty].
Proof.
  induction g as [|[c t] g IH]; [reflexivity|].
  destruct g as [|y g'].
  - cbn [bump_last]. destruct (N.eqb_spec t ty) as [->|_].
    + cbn [expand]. rewrite !app_nil_r, N.add_1_r, N2Nat.inj_succ. apply repeat_snoc.
    + cbn [expand]. rewrite !app_nil_r. reflexivity.
  - rewrite bump_last_cons. cbn [expand] in *. rewrite IH. rewrite !app_assoc. reflexivity.
Qed.

Lemma sum_counts_expand : forall g, sum_counts g = N.of_nat (length (expand g)).
Proof.
  induction g as [|[c t] g IH]; [reflexivity|].
  cbn [sum_counts expand]. rewrite app_length, repeat_length, IH. lia.
Qed.

Lemma declared_expand : forall g, declared g = N.of_nat (length (expand g)).
Proof.
  induction g as [|[c t] g IH]; [reflexivity|].
  cbn [declared expand]. rewrite app_length, repeat_length, IH. lia.
Qed.

(* ---------- one addition ---------- *)
Definition wf (l : locals) : Prop := num_locals l = N.of_nat (length (expand (groups l))).

Theorem add_local_index ty l : fst (add_local ty l) = nparams l + num_locals l.
Proof. reflexivity. Qed.

Theorem add_local_expand ty l :
  expand (groups (snd (add_local ty l))) = expand (groups l) ++ [ty].
Proof. cbn [add_local snd groups]. apply bump_last_expand. Qed.

Theorem add_local_nparams ty l : nparams (snd (add_local ty l)) = nparams l.
Proof. reflexivity. Qed.

Theorem add_local_num ty l : num_locals (snd (add_local ty l)) = num_locals l + 1.
Proof. reflexivity. Qed.

Theorem parse_wf np g : wf (parse_locals np g).
Proof. unfold wf, parse_locals. cbn [num_locals groups]. apply sum_counts_expand. Qed.

Theorem add_local_wf ty l : wf l -> wf (snd (add_local ty l)).
Proof.
  unfold wf. intros H. rewrite add_local_expand, add_local_num, H, app_length. cbn [length]. lia.
Qed.

(* ---------- sequences of additions (left fold) ---------- *)
Definition ids_from (first : N) (n : nat) : list N := map (fun k => first + N.of_nat k) (seq 0 n).

Lemma ids_from_S first n : ids_from first (S n) = first :: ids_from (first + 1) n.
Proof.
  unfold ids_from. cbn [seq map]. rewrite N.add_0_r. f_equal.
  rewrite <- seq_shift, map_map. apply map_ext. intros k. lia.
Qed.

Lemma ids_from_length first n : length (ids_from first n) = n.
Proof. unfold ids_from. rewrite map_length, seq_length. reflexivity. Qed.

Lemma ids_from_nth first n k : (k < n)%nat -> nth_error (ids_from first n) k = Some (first + N.of_nat k).
Proof.
  intros H. unfold ids_from. rewrite nth_error_map, nth_error_nth' with (d := 0%nat) by (rewrite seq_length; exact H).
  rewrite seq_nth by exact H. reflexivity.
Qed.

Lemma fold_add_step : forall tys acc l,
  let r := fold_left add_step tys (acc, l) in
  fst r = acc ++ ids_from (nparams l + num_locals l) (length tys)
  /\ expand (groups (snd r)) = expand (groups l) ++ tys
  /\ nparams (snd r) = nparams l
  /\ num_locals (snd r) = num_locals l + N.of_nat (length tys).
Proof.
  induction tys as [|ty tys IH]; intros acc l.
  - cbn. rewrite !app_nil_r. repeat split. lia.
  - cbn [fold_left].
    destruct (add_local ty l) as [id l1] eqn:E.
    assert (Hs : add_step (acc, l) ty = (acc ++ [id], l1)) by (unfold add_step; cbn [fst snd]; rewrite E; reflexivity).
    rewrite Hs.
    assert (Hid : id = nparams l + num_locals l) by (rewrite <- (add_local_index ty l), E; reflexivity).
    assert (Hl1 : l1 = snd (add_local ty l)) by (rewrite E; reflexivity).
    specialize (IH (acc ++ [id]) l1). cbn zeta in IH. destruct IH as (I1 & I2 & I3 & I4).
    cbn zeta. rewrite I1, I2, I3, I4. subst l1. rewrite add_local_expand, add_local_nparams, add_local_num.
    cbn [length]. rewrite ids_from_S, <- !app_assoc. cbn [app]. subst id.
    replace (nparams l + (num_locals l + 1)) with (nparams l + num_locals l + 1) by lia.
    repeat split. lia.
Qed.

Theorem add_seq_ids tys l :
  fst (add_seq tys l) = ids_from (nparams l + num_locals l) (length tys).
Proof. unfold add_seq. destruct (fold_add_step tys [] l) as (H & _). exact H. Qed.

Theorem add_seq_expand tys l :
  expand (groups (snd (add_seq tys l))) = expand (groups l) ++ tys.
Proof. unfold add_seq. destruct (fold_add_step tys [] l) as (_ & H & _). exact H. Qed.

Theorem add_seq_nparams tys l : nparams (snd (add_seq tys l)) = nparams l.
Proof. unfold add_seq. destruct (fold_add_step tys [] l) as (_ & _ & H & _). exact H. Qed.

Theorem add_seq_wf tys l : wf l -> wf (snd (add_seq tys l)).
Proof.
  unfold wf, add_seq. intros H. destruct (fold_add_step tys [] l) as (_ & H2 & _ & H4). cbn zeta in *.
  rewrite H4, H2, H, app_length. lia.
Qed.

(* ---------- the local index space of the function ---------- *)
Definition space (params : list N) (l : locals) : list N := params ++ expand (groups l).

Theorem add_seq_space params tys l :
  wf l -> nparams l = N.of_nat (length params) ->
  let r := add_seq tys l in
  (* the index space is only extended, by the requested types in order *)
  space params (snd r) = space params l ++ tys
  (* the returned ids are the next free indices, in order *)
  /\ fst r = ids_from (N.of_nat (length (space params l))) (length tys)
  (* the k-th returned id designates a local of the k-th requested type *)
  /\ (forall k ty, nth_error tys k = Some ty ->
        exists id, nth_error (fst r) k = Some id
                   /\ id = N.of_nat (length (space params l) + k)
                   /\ nth_error (space params (snd r)) (N.to_nat id) = Some ty)
  (* every parameter and every previously declared local keeps its index and type *)
  /\ (forall i, (i < length (space params l))%nat ->
        nth_error (space params (snd r)) i = nth_error (space params l) i).
Proof.
  intros Hwf Hnp r.
  assert (S1 : space params (snd r) = space params l ++ tys).
  { unfold space, r. rewrite add_seq_expand, app_assoc. reflexivity. }
  assert (S2 : fst r = ids_from (N.of_nat (length (space params l))) (length tys)).
  { unfold r. rewrite add_seq_ids. f_equal. unfold space. rewrite app_length, Hnp, Hwf. lia. }
  split; [exact S1|]. split; [exact S2|]. split.
  - intros k ty Hk.
    assert (Hlt : (k < length tys)%nat) by (apply nth_error_Some; rewrite Hk; discriminate).
    exists (N.of_nat (length (space params l) + k)). split; [|split; [reflexivity|]].
    + rewrite S2, ids_from_nth by exact Hlt. f_equal. lia.
    + rewrite S1, Nat2N.id, nth_error_app2 by lia.
      replace (length (space params l) + k - length (space params l))%nat with k by lia. exact Hk.
  - intros i Hi. rewrite S1, nth_error_app1 by exact Hi. reflexivity.
Qed.

(* ---------- the API sequence of the case model ---------- *)
Lemma fold_add_step_acc : forall tys acc acc' l,
  snd (fold_left add_step tys (acc, l)) = snd (fold_left add_step tys (acc', l)).
Proof.
  induction tys as [|ty tys IH]; intros acc acc' l; [reflexivity|].
  cbn [fold_left]. unfold add_step at 2 4. cbn [fst snd].
  destruct (add_local ty l) as [id l1]. apply IH.
Qed.

Lemma add_seq_cons ty tys l : snd (add_seq (ty :: tys) l) = snd (add_seq tys (snd (add_local ty l))).
Proof.
  unfold add_seq. cbn [fold_left]. unfold add_step at 2. cbn [fst snd].
  destruct (add_local ty l) as [id l1]. cbn [snd]. apply fold_add_step_acc.
Qed.

Definition ret_of (pi : N * N) : option N := if N.eqb (fst pi) 4 then None else Some (snd pi).

Lemma api_seq_spec : forall ops l,
  snd (api_seq ops l) = snd (add_seq (map snd ops) l)
  /\ fst (api_seq ops l)
     = map ret_of (combine (map fst ops) (ids_from (nparams l + num_locals l) (length ops))).
Proof.
  induction ops as [|[p ty] ops IH]; intros l; [split; reflexivity|].
  cbn [api_seq map]. unfold api_add. rewrite add_seq_cons.
  destruct (add_local ty l) as [id l1] eqn:E.
  assert (Hid : id = nparams l + num_locals l) by (rewrite <- (add_local_index ty l), E; reflexivity).
  assert (Hl1 : l1 = snd (add_local ty l)) by (rewrite E; reflexivity).
  destruct (IH l1) as [I1 I2]. destruct (api_seq ops l1) as [rs l2]. cbn [fst snd] in *.
  split; [rewrite <- Hl1; exact I1|].
  cbn [length]. rewrite ids_from_S. cbn [combine map]. unfold ret_of at 1. cbn [fst snd].
  rewrite I2. subst l1. rewrite add_local_nparams, add_local_num. subst id.
  replace (nparams l + (num_locals l + 1)) with (nparams l + num_locals l + 1) by lia. reflexivity.
Qed.

(* ---------- the executable specification, in terms of the index space ---------- *)
Lemma group_type_expand : forall g i, group_type g i = nth_error (expand g) (N.to_nat i).
Proof.
  induction g as [|[c t] g IH]; intros i; cbn [group_type expand].
  - destruct (N.to_nat i); reflexivity.
  - destruct (N.ltb_spec i c) as [H|H].
    + rewrite nth_error_app1 by (rewrite repeat_length; lia).
      symmetry. apply nth_error_repeat. lia.
    + rewrite nth_error_app2 by (rewrite repeat_length; lia).
      rewrite repeat_length, IH. f_equal. lia.
Qed.

Lemma local_type_space params g i :
  local_type params g i = nth_error (params ++ expand g) (N.to_nat i).
Proof.
  unfold local_type. destruct (N.ltb_spec i (N.of_nat (length params))) as [H|H].
  - rewrite nth_error_app1 by lia. reflexivity.
  - rewrite nth_error_app2 by lia. rewrite group_type_expand. f_equal. lia.
Qed.

Lemma optN_eqb_refl x : optN_eqb x x = true.
Proof. destruct x; cbn; [apply N.eqb_refl|reflexivity]. Qed.
Lemma optN_eqb_eq x y : optN_eqb x y = true -> x = y.
Proof. destruct x, y; cbn; try discriminate; [|reflexivity]. intros H. apply N.eqb_eq in H. subst. reflexivity. Qed.
Lemma pairN_eqb_eq x y : pairN_eqb x y = true -> x = y.
Proof.
  destruct x, y. unfold pairN_eqb. cbn [fst snd]. intros H. apply andb_true_iff in H. destruct H as [H1 H2].
  apply N.eqb_eq in H1, H2. subst. reflexivity.
Qed.
Lemma obs14_eqb_eq a b : obs14_eqb a b = true -> a = b.
Proof.
  destruct a as [[[i1 p1] g1] s1], b as [[[i2 p2] g2] s2]. unfold obs14_eqb.
  rewrite !andb_true_iff. intros [[[H1 H2] H3] H4].
  apply (list_eqb_eq _ optN_eqb_eq) in H1. apply (list_eqb_eq _ Neqb_eq) in H2.
  apply (list_eqb_eq _ pairN_eqb_eq) in H3. apply booleqb_eq in H4. subst. reflexivity.
Qed.

Lemma ops_ok_ids : forall ops params gfin first,
  (forall k ty, nth_error (map snd ops) k = Some ty ->
      local_type params gfin (first + N.of_nat k) = Some ty) ->
  ops_ok params gfin first ops (map ret_of (combine (map fst ops) (ids_from first (length ops)))) = true.
Proof.
  induction ops as [|[p ty] ops IH]; intros params gfin first H; [reflexivity|].
  cbn [length map]. rewrite ids_from_S. cbn [combine map ops_ok].
  rewrite !andb_true_iff. split; [split|].
  - unfold ret_of. cbn [fst snd]. destruct (N.eqb p 4) eqn:E; [reflexivity|apply N.eqb_refl].
  - specialize (H 0%nat ty eq_refl). rewrite N.add_0_r in H. rewrite H. apply optN_eqb_refl.
  - apply IH. intros k ty' Hk. specialize (H (S k) ty' Hk).
    replace (first + 1 + N.of_nat k) with (first + N.of_nat (S k)) by lia. exact H.
Qed.

Lemma In_upto : forall n i, In i (upto n) -> (N.to_nat i < n)%nat.
Proof.
  induction n as [|n IH]; intros i H; [destruct H|].
  cbn [upto] in H. apply in_app_or in H. destruct H as [H|[H|[]]].
  - specialize (IH i H). lia.
  - subst. lia.
Qed.

(* the model of a case satisfies the executable specification of C14, for every case *)
Theorem model_meets_spec : forall c, holds_on c (model c) = true.
Proof.
  intros c. unfold model.
  set (params := lc_params c). set (g := lc_groups c). set (ops := lc_ops c).
  set (l0 := parse_locals (N.of_nat (length params)) g).
  destruct (api_seq_spec ops l0) as [A1 A2].
  destruct (api_seq ops l0) as [ids l'] eqn:E. cbn [fst snd] in A1, A2.
  pose proof (add_seq_space params (map snd ops) l0 (parse_wf _ _) eq_refl) as S. cbn zeta in S.
  rewrite <- A1 in S. destruct S as (S1 & _ & S3 & S4).
  assert (Hn0 : N.of_nat (length params) + declared g = N.of_nat (length (space params l0))).
  { unfold space, l0. cbn [parse_locals groups]. rewrite app_length, declared_expand. lia. }
  unfold holds_on. fold params g ops. unfold emit_locals.
  rewrite !andb_true_iff. repeat split.
  - rewrite A2. replace (nparams l0 + num_locals l0) with (N.of_nat (length params) + declared g).
    2:{ unfold l0. cbn [parse_locals nparams num_locals]. rewrite sum_counts_expand, declared_expand. reflexivity. }
    apply ops_ok_ids. intros k ty Hk.
    destruct (S3 k ty Hk) as (id & _ & Hid & Hty). subst id.
    rewrite local_type_space. fold (space params l'). rewrite Hn0.
    replace (N.of_nat (length (space params l0)) + N.of_nat k) with (N.of_nat (length (space params l0) + k)) by lia.
    exact Hty.
  - apply forallb_forall. intros i Hi. apply In_upto in Hi.
    rewrite !local_type_space. fold (space params l').
    change (params ++ expand g) with (space params l0).
    rewrite S4 by lia. apply optN_eqb_refl.
  - apply N.eqb_refl.
  - apply N.eqb_eq. rewrite !declared_expand.
    assert (L : expand (groups l') = expand g ++ map snd ops).
    { unfold space in S1. rewrite <- app_assoc in S1. apply app_inv_head in S1. rewrite S1. unfold l0. cbn [parse_locals groups]. reflexivity. }
    rewrite L, app_length, map_length. lia.
Qed.

Theorem checker14_sound : forall c, agree c = true -> domain14 c = true -> holds14 c = true.
Proof.
  intros c Ha _. unfold agree in Ha. unfold holds14.
  destruct (lc_obs c) as [o|]; [|discriminate].
  apply obs14_eqb_eq in Ha. subst o. apply model_meets_spec.
Qed.
