(* Faithfulness of the value-type conversions of /repo/src/ir/types.rs, proved over the *generated* tables
   (Gen/GenDataTypeConv.v):  wasmparser::ValType --of_val--> DataType --to_val_enc--> wasm_encoder::ValType is the
   identity exactly outside the known class D10; so is the wasmparser direction (to_val_wp, used by the add_global API
   and BlockType) since the repair of D10d / D30: it used to turn the non-nullable (ref func) / (ref extern) into the
   nullable funcref / externref. *)
From Coq Require Import List NArith Bool.
From Orca Require Import Model.ValTypes Gen.GenDataTypeConv.
Import ListNotations.
Local Open Scope N_scope.

Definition roundtrip_enc (t : valtype) : option valtype :=
  match of_val t with Some d => to_val_enc d | None => None end.
Definition roundtrip_wp (t : valtype) : option valtype :=
  match of_val t with Some d => to_val_wp d | None => None end.
Definition roundtrip_storage (s : storage) : option storage :=
  match of_storage s with Some d => to_storage d | None => None end.

(* the known classes of D10, as predicates on the input value type *)
(* 101: exnref = (ref null exn) and nullexnref = (ref null noexn) come back non-nullable *)
Definition d10_exn (t : valtype) : bool :=
  match t with VRef true (HAbs _ AExn) | VRef true (HAbs _ ANoExn) => true | _ => false end.
(* 102: contref = (ref null cont) and nullcontref = (ref null nocont) come back non-nullable *)
Definition d10_cont (t : valtype) : bool :=
  match t with VRef true (HAbs _ ACont) | VRef true (HAbs _ ANoCont) => true | _ => false end.
(* 103: `shared` abstract heap types lose `shared` *)
Definition d10_shared (t : valtype) : bool :=
  match t with VRef _ (HAbs true _) => true | _ => false end.
Definition known_D10 (t : valtype) : bool := d10_exn t || d10_cont t || d10_shared t.
(* (class 104 = D10d, wasmparser direction only: the non-nullable (ref func) / (ref extern) came back nullable -- repaired) *)

Definition in_profile (t : valtype) : Prop := reader_valtype t = true.

Theorem valtype_faithful : forall t, in_profile t -> known_D10 t = false -> roundtrip_enc t = Some t.
Proof.
  intros t P K. unfold in_profile in P.
  destruct t as [| | | | |n h]; try reflexivity.
  destruct h as [s a|i|i|i]; try discriminate P.
  - destruct n, s, a; try discriminate K; reflexivity.
  - destruct n; reflexivity.
Qed.

(* ... and the class is exact: inside D10 the round trip is NOT the identity *)
Theorem valtype_unfaithful_in_D10 : forall t, known_D10 t = true -> roundtrip_enc t <> Some t.
Proof.
  intros t K. destruct t as [| | | | |n h]; try discriminate K.
  destruct n, h as [s a|i|i|i]; try discriminate K;
  destruct s, a; cbv in K; try discriminate K; intro H; cbv in H; discriminate H.
Qed.

Corollary valtype_faithful_iff : forall t, in_profile t -> (roundtrip_enc t = Some t <-> known_D10 t = false).
Proof.
  intros t P; split.
  - intro R. destruct (known_D10 t) eqn:K; [|reflexivity]. exfalso. exact (valtype_unfaithful_in_D10 t K R).
  - apply valtype_faithful; exact P.
Qed.

(* witnesses *)
Example valtype_refuted_exnref : roundtrip_enc (VRef true (HAbs false AExn)) = Some (VRef false (HAbs false AExn)).
Proof. reflexivity. Qed.
Example valtype_refuted_nullexnref : roundtrip_enc (VRef true (HAbs false ANoExn)) = Some (VRef false (HAbs false ANoExn)).
Proof. reflexivity. Qed.
Example valtype_refuted_contref : roundtrip_enc (VRef true (HAbs false ACont)) = Some (VRef false (HAbs false ACont)).
Proof. reflexivity. Qed.
Example valtype_refuted_nullcontref : roundtrip_enc (VRef true (HAbs false ANoCont)) = Some (VRef false (HAbs false ANoCont)).
Proof. reflexivity. Qed.
Example valtype_refuted_shared : roundtrip_enc (VRef true (HAbs true AAny)) = Some (VRef true (HAbs false AAny)).
Proof. reflexivity. Qed.
Theorem valtype_refuted : exists t, in_profile t /\ roundtrip_enc t <> Some t.
Proof. exists (VRef true (HAbs false AExn)). split; [reflexivity | vm_compute; discriminate]. Qed.

(* the wasmparser direction *)
Theorem valtype_wp_faithful : forall t, in_profile t -> known_D10 t = false -> roundtrip_wp t = Some t.
Proof.
  intros t P K. unfold in_profile in P.
  destruct t as [| | | | |n h]; try reflexivity.
  destruct h as [s a|i|i|i]; try discriminate P.
  - destruct n, s, a; try discriminate K; reflexivity.
  - destruct n; reflexivity.
Qed.
(* the former witnesses of class 104: (ref func) / (ref extern) stay non-nullable *)
Example valtype_wp_keeps_ref_func : roundtrip_wp (VRef false (HAbs false AFunc)) = Some (VRef false (HAbs false AFunc)).
Proof. reflexivity. Qed.
Example valtype_wp_keeps_ref_extern : roundtrip_wp (VRef false (HAbs false AExtern)) = Some (VRef false (HAbs false AExtern)).
Proof. reflexivity. Qed.
(* the two directions agree now on every DataType but the two index-carrying ones (RecGroup stays a rec-group index in
   the wasmparser direction, CoreTypeId is refused there): whatever else the API is given, add_global / BlockType
   (wasmparser direction) and the type / code sections (wasm_encoder direction) read the same value type out of it *)
Theorem to_val_wp_agrees_with_enc : forall d,
  match d with DT_RecGroup _ | DT_CoreTypeId _ => True | _ => to_val_wp d = to_val_enc d end.
Proof. destruct d; try exact I; reflexivity. Qed.
(* the encoder direction always kept them *)
Example valtype_enc_keeps_ref_func : roundtrip_enc (VRef false (HAbs false AFunc)) = Some (VRef false (HAbs false AFunc)).
Proof. reflexivity. Qed.

(* storage types (struct fields, array elements) *)
Definition storage_known_D10 (s : storage) : bool := match s with SVal v => known_D10 v | _ => false end.
Definition storage_in_profile (s : storage) : Prop := match s with SVal v => in_profile v | _ => True end.
Theorem storage_faithful : forall s, storage_in_profile s -> storage_known_D10 s = false -> roundtrip_storage s = Some s.
Proof.
  intros s P K. destruct s as [| |v]; try reflexivity.
  cbn [storage_in_profile storage_known_D10] in P, K.
  pose proof (valtype_faithful v P K) as R. unfold roundtrip_enc in R.
  unfold roundtrip_storage. cbn [of_storage].
  destruct (of_val v) as [d|] eqn:E; [|discriminate R].
  destruct d; cbn [to_storage]; try (rewrite R; reflexivity); cbn [to_val_enc] in R; discriminate R.
Qed.

(* no conversion of a reader-producible type panics *)
Theorem of_val_total : forall t, in_profile t -> of_val t <> None.
Proof.
  intros t P. unfold in_profile in P. destruct t as [| | | | |n h]; try discriminate.
  destruct h as [s a|i|i|i]; try discriminate P; [destruct n, a; discriminate | discriminate].
Qed.
