(* resolve_flatten: the flat mirror of resolve_special_instrumentation + the emission loop computes exactly the
   flattening of the tree-level lowering (TreeLower.lower), on the fragment of the simulation theorems:
   no replacing mode, no semantic-after on branch instructions, no D15 shape. *)
From Coq Require Import List Arith NArith ZArith Bool Lia.
Import ListNotations.
From Orca Require Import Util Flat Lowering Tree TreeLower WasmP EvalP Sim SimFn Commute CheckLow LowPlain LowAlt CheckSem Idem.

Local Arguments flag_stage : simpl never.
Local Arguments stack_of : simpl never.

(* ---------- induction principle for the nested type of trees ---------- *)
Section InstrInd.
Variable P : instr -> Prop.
Hypothesis HP : forall i o, P (IPlain i o).
Hypothesis HB : forall i e bt b, Forall P b -> P (IBlock i e bt b).
Hypothesis HL : forall i e bt b, Forall P b -> P (ILoop i e bt b).
Hypothesis HI : forall i el e bt t els, Forall P t -> Forall P els -> P (IIf i el e bt t els).
Fixpoint instr_ind2 (x : instr) : P x :=
  let go := fix go (l : list instr) : Forall P l :=
    match l with [] => Forall_nil P | y :: l' => Forall_cons y (instr_ind2 y) (go l') end in
  match x with
  | IPlain i o => HP i o
  | IBlock i e bt b => HB i e bt b (go b)
  | ILoop i e bt b => HL i e bt b (go b)
  | IIf i el e bt t els => HI i el e bt t els (go t) (go els)
  end.
End InstrInd.

(* ---------- generic facts ---------- *)
Lemma if_same {A} (b : bool) (x : A) : (if b then x else x) = x.
Proof. destruct b; reflexivity. Qed.

Lemma is_nil_true {A} (l : list A) : is_nil l = true -> l = [].
Proof. destruct l; [reflexivity|discriminate]. Qed.

Lemma top_stack_of_S d : top (stack_of (S d)) = d.
Proof. rewrite stack_of_S. reflexivity. Qed.

Lemma rloop_cons last idx op fl b st st1 w o2 st2 :
  rstep last idx op fl st = (st1, w) -> rloop last (S idx) b st1 = (o2, st2) ->
  rloop last idx ((op, fl) :: b) st = ((op, w) :: o2, st2).
Proof. intros H1 H2. cbn [rloop]. rewrite H1, H2. reflexivity. Qed.

Lemma rloop_app2 last a b idx st o1 st1 o2 st2 :
  rloop last idx a st = (o1, st1) -> rloop last (idx + length a) b st1 = (o2, st2) ->
  rloop last idx (a ++ b) st = (o1 ++ o2, st2).
Proof. intros H1 H2. rewrite rloop_app, H1, H2. reflexivity. Qed.

Lemma rloop_length last : forall b i st, length (fst (rloop last i b st)) = length b.
Proof.
  induction b as [|[o f] b IH]; intros i st; [reflexivity|].
  cbn [rloop]. destruct (rstep last i o f st) as [st1 w].
  specialize (IH (S i) st1). destruct (rloop last (S i) b st1) as [r st2]. cbn [fst length] in *. rewrite IH. reflexivity.
Qed.

Lemma emit_mid_app a b : emit_mid (a ++ b) = emit_mid a ++ emit_mid b.
Proof. apply flat_map_app. Qed.
Lemma emit_mid_cons x a : emit_mid (x :: a) = emit1 x ++ emit_mid a.
Proof. reflexivity. Qed.

Lemma emit_from_app last : forall a b idx,
  emit_from last idx (a ++ b) = emit_from last idx a ++ emit_from last (idx + length a) b.
Proof.
  induction a as [|[op f] a IH]; intros b idx.
  - cbn. rewrite Nat.add_0_r. reflexivity.
  - cbn [app emit_from length]. rewrite IH, <- app_assoc.
    replace (idx + S (length a)) with (S idx + length a) by lia. reflexivity.
Qed.

Lemma emit_from_mid last : forall l idx, idx + length l <= last -> emit_from last idx l = emit_mid l.
Proof.
  induction l as [|[op f] l IH]; intros idx H; [reflexivity|].
  cbn [emit_from length] in *. rewrite emit_mid_cons, IH by lia.
  f_equal. unfold emit1.
  assert (E : (last <=? idx) = false) by (apply Nat.leb_gt; lia). rewrite E.
  destruct (f_alt f); reflexivity.
Qed.

(* ---------- the pending entry of one construct in resolve_on_end ---------- *)
Definition ent (d : nat) (B A : list (list fop)) (m : list (nat * pend2)) : list (nat * pend2) :=
  match B, A with
  | [], [] => m
  | _, _ => (d, mkPend2 (mkPend [] B) (mkPend [] A)) :: m
  end.
Definition addc (c : list fop) (L : list (list fop)) : list (list fop) := if is_nil c then L else L ++ [c].

Lemma concat_addc c L : concat (addc c L) = concat L ++ c.
Proof.
  unfold addc. destruct c as [|x c]; cbn [is_nil]; [rewrite app_nil_r; reflexivity|].
  rewrite concat_app. cbn [concat]. rewrite app_nil_r. reflexivity.
Qed.

Lemma regb_ent d bx B A m : ron_get d m = None -> regb d bx (ent d B A m) = ent d (addc bx B) A m.
Proof.
  intros Hm. unfold regb, addc. destruct bx as [|x bx]; cbn [is_nil]; [reflexivity|].
  unfold ron_upd, ent. destruct B as [|b B]; [destruct A as [|a A]|].
  - rewrite Hm. reflexivity.
  - cbn [ron_get ron_remove]. rewrite Nat.eqb_refl. reflexivity.
  - cbn [ron_get ron_remove]. rewrite Nat.eqb_refl. reflexivity.
Qed.

Lemma rega_ent d sa B A m : ron_get d m = None -> rega d sa (ent d B A m) = ent d B (addc sa A) m.
Proof.
  intros Hm. unfold rega, addc. destruct sa as [|x sa]; cbn [is_nil]; [reflexivity|].
  unfold ron_upd, ent. destruct B as [|b B]; [destruct A as [|a A]|].
  - rewrite Hm. reflexivity.
  - cbn [ron_get ron_remove]. rewrite Nat.eqb_refl. reflexivity.
  - cbn [ron_get ron_remove]. rewrite Nat.eqb_refl. cbn. destruct A; reflexivity.
Qed.

Lemma bodies_not L : bodies (mkPend [] L) = concat L.
Proof. reflexivity. Qed.

Lemma end_ent d B A m : ron_get d m = None ->
  (ron_get d (ent d B A m) = None /\ ent d B A m = m /\ B = [] /\ A = []) \/
  (exists p, ron_get d (ent d B A m) = Some p /\ ron_remove d (ent d B A m) = m
             /\ bodies (pb p) = concat B /\ bodies (pa p) = concat A).
Proof.
  intros Hm. unfold ent. destruct B as [|b B]; [destruct A as [|a A]|].
  - left. auto.
  - right. eexists. cbn [ron_get ron_remove]. rewrite Nat.eqb_refl. repeat split.
  - right. eexists. cbn [ron_get ron_remove]. rewrite Nat.eqb_refl. repeat split.
Qed.

Definition fresh (d : nat) (m : list (nat * pend2)) : Prop := forall k, d <= k -> ron_get k m = None.
Lemma fresh_ent d B A m : fresh d m -> fresh (S d) (ent d B A m).
Proof.
  intros H k Hk. assert (E : ron_get k m = None) by (apply H; lia).
  unfold ent. destruct B; [destruct A|]; auto; cbn [ron_get];
    (destruct (Nat.eqb_spec k d); [lia|exact E]).
Qed.

(* flag_stage on an instruction that is neither block-like nor an instrumented branch: nothing is registered *)
Lemma flag_stage_leaf op orig st w :
  is_block_style op = false -> (is_branching op = true -> f_sa orig = []) ->
  exists w', flag_stage op orig st w = (st, w') /\ f_before w' = f_before w /\ f_after w' = f_after w /\ f_alt w' = f_alt w.
Proof.
  intros Hb Hs. unfold flag_stage.
  destruct (has_instr orig); cbn [negb]; [|eexists; repeat split].
  rewrite Hb.
  destruct (f_be orig) as [|b1 bl]; destruct (f_bx orig) as [|x1 xl]; destruct (f_sa orig) as [|s1 sl] eqn:Es; cbn [is_nil];
    destruct op; try discriminate Hb; try (specialize (Hs eq_refl); discriminate Hs);
    eexists; repeat split.
Qed.

(* ---------- rstep = stage 3 after the entry / exit stages ---------- *)
Definition rstep3 (op : fop) (orig : flags) (st : rstate) (w : flags) : rstate * flags :=
  match op with
  | FBlock _ | FLoop _ | FIf _ =>
      let st := set_stack (length (r_stack st) :: r_stack st) st in
      match block_alt_case false orig st w with
      | Some r => r
      | None => flag_stage op orig st w
      end
  | FElse =>
      let '(st, w) := resolve_roe st w in
      match block_alt_case true orig st w with
      | Some r => r
      | None => flag_stage op orig st w
      end
  | FEnd =>
      match r_stack st with
      | [] => flag_stage op orig st w
      | block_id :: rest =>
          let st := set_stack rest st in
          let cont (st : rstate) (w : flags) :=
            let '(st, w) := resolve_roe st w in
            let '(st, w) :=
              match ron_get block_id (r_ron st) with
              | Some p => (set_ron (ron_remove block_id (r_ron st)) st, resolve_pend2 p w)
              | None => (st, w)
              end in
            flag_stage op orig st w in
          match r_del st with
          | Some d =>
              if Nat.eqb d block_id then
                let st := set_del None st in
                if negb (r_retain st) then (set_retain true st, w_alt_empty w)
                else cont (set_retain true st) w
              else (st, w_alt_empty w)
          | None => cont st w
          end
      end
  | _ =>
      match r_del st with
      | Some _ => (st, w_alt_empty w)
      | None => flag_stage op orig st w
      end
  end.

(* an instruction that is neither the first (entry code) nor the last one (closing of the exit wrapper) *)
Definition xw (X : list fop) (op : fop) (orig : flags) : flags :=
  if is_nil X then orig else if is_exit_op op then w_before X orig else orig.

Lemma xw_fields X op orig :
  f_before (xw X op orig) = f_before orig ++ (if is_exit_op op then X else [])
  /\ f_after (xw X op orig) = f_after orig /\ f_alt (xw X op orig) = f_alt orig.
Proof.
  unfold xw. destruct X as [|x0 X0]; cbn [is_nil].
  - rewrite if_same, app_nil_r. auto.
  - destruct (is_exit_op op); cbn [w_before f_before f_after f_alt]; rewrite ?app_nil_r; auto.
Qed.

Lemma rstep_mid last idx op orig st :
  r_entry st = [] -> idx < last ->
  rstep last idx op orig st = rstep3 op orig st (xw (r_exit st) op orig).
Proof.
  intros He Hlt. unfold rstep, xw. rewrite He. cbn [is_nil negb andb].
  assert (E : (idx =? last) = false) by (apply Nat.eqb_neq; lia). rewrite E.
  destruct (r_exit st) as [|x0 X0] eqn:EX; cbn [is_nil]; [reflexivity|].
  destruct (is_exit_op op); reflexivity.
Qed.

(* ------------------------------------------------------------------------------------------ *)
Section Flatten.
Variable F : nat -> flags.
Variable X : list fop.          (* function-exit probes *)

Notation bef := (TreeLower.bef F). Notation aft := (TreeLower.aft F). Notation be_ := (TreeLower.be_ F).
Notation bx_ := (TreeLower.bx_ F). Notation sa_ := (TreeLower.sa_ F).
Notation lower := (TreeLower.lower F X).

(* the fragment: no replacing mode anywhere *)
Hypothesis HNR : forall i, f_alt (F i) = None /\ f_balt (F i) = None.

(* well-formedness of a tree + the fragment conditions that depend on the tree *)
Definition plain_op (o : fop) : bool :=
  negb (is_block_style o) && negb (match o with FEnd => true | _ => false end).

Fixpoint okI (x : instr) : bool :=
  match x with
  | IPlain i o => plain_op o && (negb (is_branching o) || is_nil (f_sa (F i)))
  | IBlock _ _ _ b | ILoop _ _ _ b => forallb okI b
  | IIf i _ _ _ t e =>
      negb (negb (is_nil (f_bx (F i))) && existsb blocklike t) && forallb okI t && forallb okI e
  end.

(* the state of the pass inside a function body of the fragment *)
Definition St (d : nat) (ret : bool) (q : list (list fop)) (m : list (nat * pend2)) (loc : Lowering.locals) : rstate :=
  mkR [] X (stack_of d) None ret q m loc.

Ltac fields := cbn [r_entry r_exit r_stack r_del r_retain r_roe r_ron r_loc
                    set_stack set_ron set_roe set_del set_retain set_loc set_entry set_exit].

Lemma step_open3 op i d ret q m loc w0 :
  (exists bt, op = FBlock bt \/ op = FLoop bt) -> ron_get d m = None ->
  exists w, rstep3 op (F i) (St d ret q m loc) w0
            = (St (S d) ret q (ent d (addc (bx_ i) []) (addc (sa_ i) []) m) loc, w)
    /\ f_before w = f_before w0 /\ f_after w = f_after w0 ++ be_ i /\ f_alt w = f_alt w0.
Proof.
  intros Hop Hm.
  assert (Hop' : op = FElse \/ exists bt, op = FBlock bt \/ op = FLoop bt) by (right; exact Hop).
  assert (E : rstep3 op (F i) (St d ret q m loc) w0 = flag_stage op (F i) (St (S d) ret q m loc) w0).
  { unfold St. destruct Hop as [bt [-> | ->]]; unfold rstep3; fields;
      rewrite stack_of_length, <- stack_of_S; unfold block_alt_case; rewrite (proj2 (HNR i)); reflexivity. }
  rewrite E. unfold St.
  pose proof (flag_stage_reg op (F i) (mkR [] X (stack_of (S d)) None ret q m loc) w0 Hop') as R.
  destruct (flag_stage op (F i) (mkR [] X (stack_of (S d)) None ret q m loc) w0) as [st' w'] eqn:EF.
  cbn [r_entry r_exit r_stack r_del r_retain r_roe r_ron r_loc] in R.
  destruct R as (R1&R2&R3&R4&R5&R6&R7&R8&R9&R10&R11).
  exists w'. split; [|auto].
  f_equal. apply rstate_eta; fields; auto.
  rewrite R8, top_stack_of_S. change m with (ent d [] [] m) at 1.
  rewrite regb_ent, rega_ent by exact Hm. reflexivity.
Qed.

Lemma step_if3 bt i d ret q m loc w0 :
  ron_get d m = None ->
  exists w, rstep3 (FIf bt) (F i) (St d ret q m loc) w0
            = (St (S d) ret (q ++ (if is_nil (bx_ i) then [] else [bx_ i])) (ent d [] (addc (sa_ i) []) m) loc, w)
    /\ f_before w = f_before w0 /\ f_after w = f_after w0 ++ be_ i /\ f_alt w = f_alt w0.
Proof.
  intros Hm.
  assert (E : rstep3 (FIf bt) (F i) (St d ret q m loc) w0 = flag_stage (FIf bt) (F i) (St (S d) ret q m loc) w0).
  { unfold St, rstep3; fields.
    rewrite stack_of_length, <- stack_of_S; unfold block_alt_case; rewrite (proj2 (HNR i)); reflexivity. }
  rewrite E. unfold St.
  pose proof (flag_stage_if bt (F i) (mkR [] X (stack_of (S d)) None ret q m loc) w0) as R.
  destruct (flag_stage (FIf bt) (F i) (mkR [] X (stack_of (S d)) None ret q m loc) w0) as [st' w'] eqn:EF.
  cbn [r_entry r_exit r_stack r_del r_retain r_roe r_ron r_loc] in R.
  destruct R as (R1&R2&R3&R4&R5&R6&R7&R8&R9&R10&R11).
  exists w'. split; [|auto].
  f_equal. apply rstate_eta; fields; auto.
  rewrite R8, top_stack_of_S. change m with (ent d [] [] m) at 1.
  rewrite rega_ent by exact Hm. reflexivity.
Qed.

Lemma step_else3 x d ret q A m loc w0 :
  ron_get d m = None ->
  exists w, rstep3 FElse (F x) (St (S d) ret q (ent d [] A m) loc) w0
            = (St (S d) ret [] (ent d (addc (bx_ x) []) (addc (sa_ x) A) m) loc, w)
    /\ f_before w = f_before w0 ++ concat q /\ f_after w = f_after w0 ++ be_ x /\ f_alt w = f_alt w0.
Proof.
  intros Hm.
  set (w1 := match q with [] => w0 | _ => w_before (concat q) w0 end).
  assert (W1 : f_before w1 = f_before w0 ++ concat q /\ f_after w1 = f_after w0 /\ f_alt w1 = f_alt w0).
  { unfold w1. destruct q; [cbn [concat]; rewrite app_nil_r; auto|]. cbn [w_before f_before f_after f_alt]. auto. }
  assert (E : rstep3 FElse (F x) (St (S d) ret q (ent d [] A m) loc) w0
              = flag_stage FElse (F x) (St (S d) ret [] (ent d [] A m) loc) w1).
  { unfold St, rstep3, resolve_roe; fields.
    unfold block_alt_case; fields. rewrite (proj2 (HNR x)). reflexivity. }
  rewrite E. unfold St.
  pose proof (flag_stage_reg FElse (F x) (mkR [] X (stack_of (S d)) None ret [] (ent d [] A m) loc) w1 (or_introl eq_refl)) as R.
  destruct (flag_stage FElse (F x) (mkR [] X (stack_of (S d)) None ret [] (ent d [] A m) loc) w1) as [st' w'] eqn:EF.
  cbn [r_entry r_exit r_stack r_del r_retain r_roe r_ron r_loc] in R.
  destruct R as (R1&R2&R3&R4&R5&R6&R7&R8&R9&R10&R11).
  destruct W1 as (W1&W2&W3).
  exists w'. split; [|rewrite R9, R10, R11, W1, W2, W3; auto].
  f_equal. apply rstate_eta; fields; auto.
  rewrite R8, top_stack_of_S.
  rewrite regb_ent, rega_ent by exact Hm. reflexivity.
Qed.

Lemma step_end3 e d ret q B A m loc w0 :
  ron_get d m = None ->
  exists w, rstep3 FEnd (F e) (St (S d) ret q (ent d B A m) loc) w0
            = (St d ret [] m loc, w)
    /\ f_before w = f_before w0 ++ concat q ++ concat B /\ f_after w = f_after w0 ++ concat A /\ f_alt w = f_alt w0.
Proof.
  intros Hm.
  set (w1 := match q with [] => w0 | _ => w_before (concat q) w0 end).
  assert (W1 : f_before w1 = f_before w0 ++ concat q /\ f_after w1 = f_after w0 /\ f_alt w1 = f_alt w0).
  { unfold w1. destruct q; [cbn [concat]; rewrite app_nil_r; auto|]. cbn [w_before f_before f_after f_alt]. auto. }
  destruct W1 as (W1&W2&W3).
  assert (E : rstep3 FEnd (F e) (St (S d) ret q (ent d B A m) loc) w0
              = let '(st, w) :=
                  match ron_get d (ent d B A m) with
                  | Some p => (St d ret [] (ron_remove d (ent d B A m)) loc, resolve_pend2 p w1)
                  | None => (St d ret [] (ent d B A m) loc, w1)
                  end in flag_stage FEnd (F e) st w).
  { unfold St, rstep3; fields. rewrite stack_of_S. unfold resolve_roe; fields. reflexivity. }
  rewrite E. clear E.
  destruct (end_ent d B A m Hm) as [(G1&G2&G3&G4)|(p&G1&G2&G3&G4)]; rewrite G1.
  - rewrite G2.
    destruct (flag_stage_leaf FEnd (F e) (St d ret [] m loc) w1 eq_refl ltac:(discriminate)) as (w'&E1&E2&E3&E4).
    exists w'. split; [exact E1|]. subst B A. cbn [concat]. rewrite !app_nil_r, E2, E3, E4. auto.
  - rewrite G2.
    destruct (flag_stage_leaf FEnd (F e) (St d ret [] m loc) (resolve_pend2 p w1) eq_refl ltac:(discriminate)) as (w'&E1&E2&E3&E4).
    exists w'. split; [exact E1|]. rewrite E2, E3, E4.
    unfold resolve_pend2. cbn [w_before w_after f_before f_after f_alt]. rewrite G3, G4, W1, W2, W3, <- app_assoc. auto.
Qed.

Lemma step_plain3 i o d ret q m loc w0 :
  plain_op o = true -> (is_branching o = true -> sa_ i = []) ->
  exists w, rstep3 o (F i) (St d ret q m loc) w0 = (St d ret q m loc, w)
    /\ f_before w = f_before w0 /\ f_after w = f_after w0 /\ f_alt w = f_alt w0.
Proof.
  intros Hp Hs.
  assert (Hb : is_block_style o = false) by (destruct o; try discriminate Hp; reflexivity).
  assert (E : rstep3 o (F i) (St d ret q m loc) w0 = flag_stage o (F i) (St d ret q m loc) w0).
  { destruct o; try discriminate Hp; reflexivity. }
  rewrite E. apply flag_stage_leaf; assumption.
Qed.

(* ---------- one step of the pass + its emission, for an instruction in the middle of the body ---------- *)
Lemma mid_emit last idx op i st st' PB PA :
  idx < last -> r_entry st = [] -> r_exit st = X ->
  (forall w0, exists w, rstep3 op (F i) st w0 = (st', w)
     /\ f_before w = f_before w0 ++ PB /\ f_after w = f_after w0 ++ PA /\ f_alt w = f_alt w0) ->
  exists w, rstep last idx op (F i) st = (st', w)
    /\ emit1 (op, w) = bef i ++ (if is_exit_op op then X else []) ++ PB ++ [op] ++ aft i ++ PA.
Proof.
  intros Hlt He Hx H. rewrite rstep_mid by assumption. rewrite Hx.
  destruct (H (xw X op (F i))) as (w & E & W1 & W2 & W3).
  destruct (xw_fields X op (F i)) as (V1 & V2 & V3).
  exists w. split; [exact E|].
  rewrite emit1_noalt by (rewrite W3, V3; apply (proj1 (HNR i))).
  rewrite W1, W2, V1, V2. unfold TreeLower.bef, TreeLower.aft. rewrite <- !app_assoc. reflexivity.
Qed.

Lemma St_entry d ret q m loc : r_entry (St d ret q m loc) = [].
Proof. reflexivity. Qed.
Lemma St_exit d ret q m loc : r_exit (St d ret q m loc) = X.
Proof. reflexivity. Qed.

(* ---------- flattening of the tree lowering ---------- *)
Lemma flat_cons x t : flat (x :: t) = flat1 x ++ flat t.
Proof. reflexivity. Qed.

Lemma flat_lower_plain i o :
  flat (lower (IPlain i o)) = bef i ++ (if is_exit_op o then X else []) ++ [] ++ [o] ++ aft i ++ [].
Proof.
  cbn [TreeLower.lower]. rewrite !flat_app, !flat_ins, app_nil_r. cbn [app].
  destruct (is_exit_op o); rewrite ?flat_ins; reflexivity.
Qed.

Lemma flat_lower_block i e bt b :
  flat (lower (IBlock i e bt b))
  = bef i ++ [FBlock bt] ++ (aft i ++ be_ i) ++ flat (flat_map lower b) ++ (bef e ++ bx_ i) ++ [FEnd] ++ aft e ++ sa_ i.
Proof.
  cbn [TreeLower.lower]. rewrite !flat_app, !flat_ins, flat_cons. cbn [flat1]. fold (flat (ins (aft i ++ be_ i) ++ flat_map lower b ++ ins (bef e ++ bx_ i))).
  rewrite !flat_app, !flat_ins. cbn [flat flat_map]. cbn [app]. rewrite <- !app_assoc. reflexivity.
Qed.

Lemma flat_lower_loop i e bt b :
  flat (lower (ILoop i e bt b))
  = bef i ++ [FLoop bt] ++ (aft i ++ be_ i) ++ flat (flat_map lower b) ++ (bef e ++ bx_ i) ++ [FEnd] ++ aft e ++ sa_ i.
Proof.
  cbn [TreeLower.lower]. rewrite !flat_app, !flat_ins, flat_cons. cbn [flat1]. fold (flat (ins (aft i ++ be_ i) ++ flat_map lower b ++ ins (bef e ++ bx_ i))).
  rewrite !flat_app, !flat_ins. cbn [flat flat_map]. cbn [app]. rewrite <- !app_assoc. reflexivity.
Qed.

Lemma flat_lower_if_else i x e bt t els :
  flat (lower (IIf i (Some x) e bt t els))
  = bef i ++ [FIf bt] ++ (aft i ++ be_ i) ++ flat (flat_map lower t) ++ (bef x ++ bx_ i) ++ [FElse]
    ++ (aft x ++ be_ x) ++ flat (flat_map lower els) ++ (bef e ++ bx_ x) ++ [FEnd] ++ aft e ++ sa_ i ++ sa_ x.
Proof.
  cbn [TreeLower.lower else_sa]. rewrite !flat_app, !flat_ins, flat_cons. cbn [flat1].
  fold (flat (ins (aft i ++ be_ i) ++ flat_map lower t ++ ins (bef x ++ bx_ i))).
  fold (flat (ins (aft x ++ be_ x) ++ flat_map lower els ++ ins (bef e ++ bx_ x))).
  rewrite !flat_app, !flat_ins. cbn [flat flat_map]. cbn [app]. repeat (rewrite <- !app_assoc; cbn [app]). reflexivity.
Qed.

Lemma flat_lower_if_noelse i e bt t els :
  flat (lower (IIf i None e bt t els))
  = bef i ++ [FIf bt] ++ (aft i ++ be_ i) ++ flat (flat_map lower t) ++ (bef e ++ bx_ i) ++ [FEnd] ++ aft e ++ sa_ i.
Proof.
  cbn [TreeLower.lower else_sa]. rewrite !flat_app, !flat_ins, flat_cons. cbn [flat1].
  fold (flat (ins (aft i ++ be_ i) ++ flat_map lower t ++ ins (bef e ++ bx_ i))).
  rewrite !flat_app, !flat_ins. cbn [flat flat_map]. cbn [app]. rewrite <- !app_assoc. cbn [app]. rewrite !app_nil_r. reflexivity.
Qed.

(* ---------- the main lemma: a subtree leaves the state of the pass unchanged and emits its lowering ---------- *)
Definition P1 (x : instr) : Prop := forall last idx d ret q m loc,
  fresh d m -> (q = [] \/ blocklike x = false) -> okI x = true -> idx + length (flatF1 F x) <= last ->
  exists out, rloop last idx (flatF1 F x) (St d ret q m loc) = (out, St d ret q m loc)
              /\ emit_mid out = flat (lower x).
Definition PL (t : list instr) : Prop := forall last idx d ret q m loc,
  fresh d m -> (q = [] \/ existsb blocklike t = false) -> forallb okI t = true -> idx + length (flatF F t) <= last ->
  exists out, rloop last idx (flatF F t) (St d ret q m loc) = (out, St d ret q m loc)
              /\ emit_mid out = flat (flat_map lower t).

Lemma PL_of_Forall t : Forall P1 t -> PL t.
Proof.
  induction 1 as [|x t Hx Ht IH]; intros last idx d ret q m loc Hf Hq Hok Hlen.
  - exists []. split; reflexivity.
  - cbn [forallb] in Hok. apply andb_prop in Hok as [Hok1 Hok2].
    change (flatF F (x :: t)) with (flatF1 F x ++ flatF F t) in *. rewrite app_length in Hlen.
    change (flat_map lower (x :: t)) with (lower x ++ flat_map lower t).
    assert (Hq1 : q = [] \/ blocklike x = false).
    { destruct Hq as [Hq|Hq]; [left; exact Hq|right]. cbn [existsb] in Hq. apply orb_false_elim in Hq. tauto. }
    assert (Hq2 : q = [] \/ existsb blocklike t = false).
    { destruct Hq as [Hq|Hq]; [left; exact Hq|right]. cbn [existsb] in Hq. apply orb_false_elim in Hq. tauto. }
    destruct (Hx last idx d ret q m loc Hf Hq1 Hok1 ltac:(lia)) as (o1 & E1 & M1).
    destruct (IH last (idx + length (flatF1 F x)) d ret q m loc Hf Hq2 Hok2 ltac:(lia)) as (o2 & E2 & M2).
    exists (o1 ++ o2). split.
    + eapply rloop_app2; eassumption.
    + rewrite emit_mid_app, M1, M2, flat_app. reflexivity.
Qed.

Lemma addc_nil c : concat (addc c []) = c.
Proof. rewrite concat_addc. reflexivity. Qed.

Lemma rloop_one last idx op fl st st1 w :
  rstep last idx op fl st = (st1, w) -> rloop last idx [(op, fl)] st = ([(op, w)], st1).
Proof. intros H. cbn [rloop]. rewrite H. reflexivity. Qed.

Lemma emit_mid_one x : emit_mid [x] = emit1 x.
Proof. cbn [emit_mid flat_map]. apply app_nil_r. Qed.

Lemma P1_all : forall x, P1 x.
Proof.
  induction x as [i o|i e bt b IHb|i e bt b IHb|i el e bt t els IHt IHe] using instr_ind2;
    intros last idx d ret q m loc Hf Hq Hok Hlen.
  - (* plain *)
    cbn [okI] in Hok. apply andb_prop in Hok as [Hp Hs].
    assert (Hs' : is_branching o = true -> sa_ i = []).
    { intros Hb. rewrite Hb in Hs. cbn [negb orb] in Hs. apply is_nil_true. exact Hs. }
    cbn [flatF1 length] in *.
    destruct (mid_emit last idx o i (St d ret q m loc) (St d ret q m loc) [] [] ltac:(lia) eq_refl eq_refl) as (w & E & M).
    { intros w0. destruct (step_plain3 i o d ret q m loc w0 Hp Hs') as (w & E & W1 & W2 & W3).
      exists w. rewrite !app_nil_r. auto. }
    exists [(o, w)]. split; [apply rloop_one; exact E|].
    rewrite emit_mid_one, M, flat_lower_plain. reflexivity.
  - (* block *)
    destruct Hq as [-> | Hq]; [|discriminate Hq].
    cbn [okI] in Hok. cbn [flatF1] in *. cbn [length] in Hlen. rewrite app_length in Hlen. cbn [length] in Hlen.
    pose proof (Hf d (le_n d)) as Hm.
    destruct (mid_emit last idx (FBlock bt) i (St d ret [] m loc)
                (St (S d) ret [] (ent d (addc (bx_ i) []) (addc (sa_ i) []) m) loc) [] (be_ i) ltac:(lia) eq_refl eq_refl) as (w1 & E1 & M1).
    { intros w0. destruct (step_open3 (FBlock bt) i d ret [] m loc w0 ltac:(eauto) Hm) as (w & E & W1 & W2 & W3).
      exists w. rewrite !app_nil_r. auto. }
    destruct (PL_of_Forall b IHb last (S idx) (S d) ret [] (ent d (addc (bx_ i) []) (addc (sa_ i) []) m) loc
                (fresh_ent _ _ _ _ Hf) (or_introl eq_refl) Hok ltac:(unfold flatF; lia)) as (o2 & E2 & M2).
    destruct (mid_emit last (S idx + length (flatF F b)) FEnd e (St (S d) ret [] (ent d (addc (bx_ i) []) (addc (sa_ i) []) m) loc)
                (St d ret [] m loc) (concat [] ++ concat (addc (bx_ i) [])) (concat (addc (sa_ i) [])) ltac:(unfold flatF; lia) eq_refl eq_refl) as (w3 & E3 & M3).
    { intros w0. apply step_end3. exact Hm. }
    exists ((FBlock bt, w1) :: o2 ++ [(FEnd, w3)]). split.
    + eapply rloop_cons; [exact E1|]. eapply rloop_app2; [exact E2|]. apply rloop_one. exact E3.
    + rewrite emit_mid_cons, emit_mid_app, emit_mid_one, M1, M2, M3, flat_lower_block, !addc_nil.
      cbn [is_exit_op concat]. rewrite <- !app_assoc. cbn [app]. reflexivity.
  - (* loop *)
    destruct Hq as [-> | Hq]; [|discriminate Hq].
    cbn [okI] in Hok. cbn [flatF1] in *. cbn [length] in Hlen. rewrite app_length in Hlen. cbn [length] in Hlen.
    pose proof (Hf d (le_n d)) as Hm.
    destruct (mid_emit last idx (FLoop bt) i (St d ret [] m loc)
                (St (S d) ret [] (ent d (addc (bx_ i) []) (addc (sa_ i) []) m) loc) [] (be_ i) ltac:(lia) eq_refl eq_refl) as (w1 & E1 & M1).
    { intros w0. destruct (step_open3 (FLoop bt) i d ret [] m loc w0 ltac:(eauto) Hm) as (w & E & W1 & W2 & W3).
      exists w. rewrite !app_nil_r. auto. }
    destruct (PL_of_Forall b IHb last (S idx) (S d) ret [] (ent d (addc (bx_ i) []) (addc (sa_ i) []) m) loc
                (fresh_ent _ _ _ _ Hf) (or_introl eq_refl) Hok ltac:(unfold flatF; lia)) as (o2 & E2 & M2).
    destruct (mid_emit last (S idx + length (flatF F b)) FEnd e (St (S d) ret [] (ent d (addc (bx_ i) []) (addc (sa_ i) []) m) loc)
                (St d ret [] m loc) (concat [] ++ concat (addc (bx_ i) [])) (concat (addc (sa_ i) [])) ltac:(unfold flatF; lia) eq_refl eq_refl) as (w3 & E3 & M3).
    { intros w0. apply step_end3. exact Hm. }
    exists ((FLoop bt, w1) :: o2 ++ [(FEnd, w3)]). split.
    + eapply rloop_cons; [exact E1|]. eapply rloop_app2; [exact E2|]. apply rloop_one. exact E3.
    + rewrite emit_mid_cons, emit_mid_app, emit_mid_one, M1, M2, M3, flat_lower_loop, !addc_nil.
      cbn [is_exit_op concat]. rewrite <- !app_assoc. cbn [app]. reflexivity.
  - (* if *)
    destruct Hq as [-> | Hq]; [|discriminate Hq].
    cbn [okI] in Hok. apply andb_prop in Hok as [Hok Hoke]. apply andb_prop in Hok as [Hd15 Hokt].
    pose proof (Hf d (le_n d)) as Hm.
    set (qi := if is_nil (bx_ i) then [] else [bx_ i]).
    assert (Hqi : qi = [] \/ existsb blocklike t = false).
    { unfold qi, TreeLower.bx_. destruct (f_bx (F i)); cbn [is_nil negb andb] in *; [left; reflexivity|right].
      destruct (existsb blocklike t); [discriminate Hd15|reflexivity]. }
    assert (Cqi : concat qi = bx_ i).
    { unfold qi. destruct (bx_ i); cbn [is_nil concat]; rewrite ?app_nil_r; reflexivity. }
    destruct (mid_emit last idx (FIf bt) i (St d ret [] m loc)
                (St (S d) ret qi (ent d [] (addc (sa_ i) []) m) loc) [] (be_ i)) as (w1 & E1 & M1);
      [cbn [flatF1 length] in Hlen; lia|reflexivity|reflexivity| |].
    { intros w0. destruct (step_if3 bt i d ret [] m loc w0 Hm) as (w & E & W1 & W2 & W3).
      exists w. rewrite !app_nil_r. auto. }
    destruct el as [x|].
    + (* with else *)
      cbn [flatF1] in *. cbn [length] in Hlen. rewrite !app_length in Hlen. cbn [length] in Hlen. rewrite ?app_length in Hlen. cbn [length] in Hlen.
      destruct (PL_of_Forall t IHt last (S idx) (S d) ret qi (ent d [] (addc (sa_ i) []) m) loc
                  (fresh_ent _ _ _ _ Hf) Hqi Hokt ltac:(unfold flatF; lia)) as (o2 & E2 & M2).
      destruct (mid_emit last (S idx + length (flatF F t)) FElse x (St (S d) ret qi (ent d [] (addc (sa_ i) []) m) loc)
                  (St (S d) ret [] (ent d (addc (bx_ x) []) (addc (sa_ x) (addc (sa_ i) [])) m) loc)
                  (concat qi) (be_ x) ltac:(unfold flatF; lia) eq_refl eq_refl) as (w3 & E3 & M3).
      { intros w0. apply step_else3. exact Hm. }
      destruct (PL_of_Forall els IHe last (S (S idx + length (flatF F t))) (S d) ret []
                  (ent d (addc (bx_ x) []) (addc (sa_ x) (addc (sa_ i) [])) m) loc
                  (fresh_ent _ _ _ _ Hf) (or_introl eq_refl) Hoke ltac:(unfold flatF; lia)) as (o4 & E4 & M4).
      destruct (mid_emit last (S (S idx + length (flatF F t)) + length (flatF F els)) FEnd e
                  (St (S d) ret [] (ent d (addc (bx_ x) []) (addc (sa_ x) (addc (sa_ i) [])) m) loc)
                  (St d ret [] m loc) (concat [] ++ concat (addc (bx_ x) [])) (concat (addc (sa_ x) (addc (sa_ i) [])))
                  ltac:(unfold flatF; lia) eq_refl eq_refl) as (w5 & E5 & M5).
      { intros w0. apply step_end3. exact Hm. }
      exists ((FIf bt, w1) :: o2 ++ ((FElse, w3) :: o4) ++ [(FEnd, w5)]). split.
      * eapply rloop_cons; [exact E1|]. eapply rloop_app2; [exact E2|].
        eapply rloop_app2; [eapply rloop_cons; [exact E3|exact E4]|].
        apply rloop_one. cbn [length]. 
        match goal with |- rstep _ ?n _ _ _ = _ =>
          replace n with (S (S idx + length (flatF F t)) + length (flatF F els)) by (unfold flatF; lia) end.
        exact E5.
      * rewrite emit_mid_cons, !emit_mid_app, emit_mid_cons, emit_mid_one, M1, M2, M3, M4, M5, flat_lower_if_else.
        rewrite !concat_addc, Cqi. cbn [is_exit_op concat]. repeat (rewrite <- !app_assoc; cbn [app]). reflexivity.
    + (* without else *)
      cbn [flatF1] in *. cbn [length] in Hlen. rewrite !app_length in Hlen. cbn [length] in Hlen.
      destruct (PL_of_Forall t IHt last (S idx) (S d) ret qi (ent d [] (addc (sa_ i) []) m) loc
                  (fresh_ent _ _ _ _ Hf) Hqi Hokt ltac:(unfold flatF; lia)) as (o2 & E2 & M2).
      destruct (mid_emit last (S idx + length (flatF F t)) FEnd e (St (S d) ret qi (ent d [] (addc (sa_ i) []) m) loc)
                  (St d ret [] m loc) (concat qi ++ concat []) (concat (addc (sa_ i) []))
                  ltac:(unfold flatF; lia) eq_refl eq_refl) as (w3 & E3 & M3).
      { intros w0. apply step_end3. exact Hm. }
      exists ((FIf bt, w1) :: o2 ++ [(FEnd, w3)]). split.
      * eapply rloop_cons; [exact E1|]. eapply rloop_app2; [exact E2|]. apply rloop_one. exact E3.
      * rewrite emit_mid_cons, !emit_mid_app, emit_mid_one, M1, M2, M3, flat_lower_if_noelse.
        rewrite !concat_addc, Cqi. cbn [is_exit_op concat]. repeat (rewrite <- !app_assoc; cbn [app]). reflexivity.
Qed.

End Flatten.

Arguments St X d ret q m loc : simpl never.

(* ---------- the last instruction: the function's final end ---------- *)
Lemma emit_last n op w : f_alt w = None -> emit_from n n [(op, w)] = f_before w ++ [op].
Proof.
  intros Ha. cbn [emit_from]. rewrite Nat.leb_refl, Ha, app_nil_r.
  destruct (has_instr w) eqn:Hh; cbn [negb]; [rewrite app_nil_r; reflexivity|].
  apply has_instr_false in Hh. destruct Hh as (Hb & _). rewrite Hb. reflexivity.
Qed.

Lemma step_final (F : nat -> flags) (X : list fop) (HNR : forall i, f_alt (F i) = None /\ f_balt (F i) = None) last fe loc :
  exists w, rstep last last FEnd (F fe) (mkR [] X [0] None true [] [] loc) = (mkR [] [] [] None true [] [] loc, w)
    /\ f_before w = f_before (F fe) ++ (if is_nil X then [] else [FEnd] ++ X) /\ f_alt w = None.
Proof.
  unfold rstep. cbn [r_entry r_exit is_nil negb andb is_exit_op]. rewrite Nat.eqb_refl.
  destruct X as [|x0 X0]; cbn [is_nil].
  - destruct (step_end3 F [] fe 0 true [] [] [] [] loc (F fe) eq_refl) as (w & E & W1 & W2 & W3).
    exists w. split; [exact E|]. rewrite W1, W3. cbn [concat]. rewrite !app_nil_r. split; [reflexivity|apply HNR].
  - destruct (step_end3 F [] fe 0 true [] [] [] [] loc (w_before ([FEnd] ++ x0 :: X0) (F fe)) eq_refl) as (w & E & W1 & W2 & W3).
    exists w. split; [exact E|]. rewrite W1, W3. cbn [concat w_before f_before f_alt]. rewrite !app_nil_r. split; [reflexivity|apply HNR].
Qed.

(* the whole body, entry code already consumed *)
Lemma body_run (F : nat -> flags) (X : list fop) (HNR : forall i, f_alt (F i) = None /\ f_balt (F i) = None) t fe loc :
  forallb (okI F) t = true ->
  exists out w st',
    rloop (length (flatF F t ++ [(FEnd, F fe)]) - 1) 0 (flatF F t ++ [(FEnd, F fe)]) (mkR [] X [0] None true [] [] loc)
    = (out ++ [(FEnd, w)], st')
    /\ r_loc st' = loc /\ length out = length (flatF F t)
    /\ emit_mid out = flat (flat_map (lower F X) t)
    /\ f_before w = f_before (F fe) ++ (if is_nil X then [] else [FEnd] ++ X) /\ f_alt w = None.
Proof.
  intros Hok. rewrite app_length. cbn [length]. replace (length (flatF F t) + 1 - 1) with (length (flatF F t)) by lia.
  destruct (PL_of_Forall F X t (proj2 (Forall_forall _ _) (fun x _ => P1_all F X HNR x))
              (length (flatF F t)) 0 1 true [] [] loc ltac:(intros k _; reflexivity) (or_introl eq_refl) Hok ltac:(lia))
    as (out & E & M).
  destruct (step_final F X HNR (length (flatF F t)) fe loc) as (w & E2 & W1 & W3).
  exists out, w, (mkR [] [] [] None true [] [] loc). split; [|split; [reflexivity|split; [|auto]]].
  - eapply rloop_app2; [exact E|]. apply rloop_one. exact E2.
  - pose proof (rloop_length (length (flatF F t)) (flatF F t) 0 (St X 1 true [] [] loc)) as L. rewrite E in L. exact L.
Qed.

Lemma emit_snoc out op w : f_alt w = None -> emit (out ++ [(op, w)]) = emit_mid out ++ f_before w ++ [op].
Proof.
  intros Ha. unfold emit. rewrite app_length. cbn [length].
  replace (length out + 1 - 1) with (length out) by lia.
  rewrite emit_from_app, emit_from_mid by lia. cbn [Nat.add]. rewrite emit_last by exact Ha. reflexivity.
Qed.

(* ------------------------------------------------------------------------------------------ *)
(* The fragment *)
Definition nonrepl (F : nat -> flags) : Prop := forall i, f_alt (F i) = None /\ f_balt (F i) = None.
(* [okI F x]: plain nodes carry non-structural operators (well-formedness), no semantic-after on a branch
   instruction, no block-exit on an `if` whose then-arm contains a block-like instruction (D15) *)
Definition frag (F : nat -> flags) (t : list instr) : Prop := nonrepl F /\ forallb (okI F) t = true.

(* ---------- resolve_flatten, function entry / exit empty ---------- *)
Theorem resolve_flatten (F : nat -> flags) t fe ty loc :
  frag F t ->
  emit (fst (resolve true [] [] ty (flatF F t ++ [(FEnd, F fe)]) loc))
  = flat (flat_map (lower F []) t) ++ f_before (F fe) ++ [FEnd]
  /\ snd (resolve true [] [] ty (flatF F t ++ [(FEnd, F fe)]) loc) = loc.
Proof.
  intros [HNR Hok]. unfold resolve. cbn [negb is_nil].
  destruct (body_run F [] HNR t fe loc Hok) as (out & w & st' & E & L & _ & M & W1 & W3).
  rewrite E. cbn [fst snd]. split; [|exact L].
  rewrite emit_snoc by exact W3. rewrite M, W1. cbn [is_nil]. rewrite app_nil_r. reflexivity.
Qed.

(* ---------- the fragment is inside the domain of the simulation theorem ---------- *)
Lemma okI_nb F x : okI F x = true -> nb F x.
Proof.
  induction x as [i o|i e bt b IHb|i e bt b IHb|i el e bt t els IHt IHe] using instr_ind2; intros Hok.
  - cbn [okI] in Hok. apply andb_prop in Hok as [_ Hs].
    destruct o; cbn [nb]; try exact I; cbn [is_branching negb orb] in Hs; apply is_nil_true; exact Hs.
  - cbn [okI] in Hok. cbn [nb]. induction IHb as [|y b Hy _ IH]; [exact I|].
    cbn [forallb] in Hok. apply andb_prop in Hok as [H1 H2]. cbn [fold_right]. split; auto.
  - cbn [okI] in Hok. cbn [nb]. induction IHb as [|y b Hy _ IH]; [exact I|].
    cbn [forallb] in Hok. apply andb_prop in Hok as [H1 H2]. cbn [fold_right]. split; auto.
  - cbn [okI] in Hok. apply andb_prop in Hok as [Hok Hoke]. apply andb_prop in Hok as [_ Hokt]. cbn [nb]. split.
    + clear Hoke IHe. induction IHt as [|y b Hy _ IH]; [exact I|].
      cbn [forallb] in Hokt. apply andb_prop in Hokt as [H1 H2]. cbn [fold_right]. split; auto.
    + clear Hokt IHt. induction IHe as [|y b Hy _ IH]; [exact I|].
      cbn [forallb] in Hoke. apply andb_prop in Hoke as [H1 H2]. cbn [fold_right]. split; auto.
Qed.
Lemma okI_nbl F t : forallb (okI F) t = true -> nbl F t.
Proof.
  induction t as [|x t IH]; intros H; [exact I|].
  cbn [forallb] in H. apply andb_prop in H as [H1 H2]. split; [apply okI_nb; exact H1|apply IH; exact H2].
Qed.

(* ---------- corollary: what the mirror model emits is the flattening of a tree on which the plain interpreter
   reproduces every result of the specification interpreter on the original tree ---------- *)
Corollary resolve_flatten_sim ftypes (F : nat -> flags) t fe ty loc :
  frag F t ->
  (forall i, pcode (bef F i) /\ pcode (aft F i) /\ pcode (be_ F i) /\ pcode (bx_ F i) /\ pcode (sa_ F i)) ->
  exists low : list instr,
    emit (fst (resolve true [] [] ty (flatF F t ++ [(FEnd, F fe)]) loc)) = flat low ++ f_before (F fe) ++ [FEnd]
    /\ forall fuel c ob,
         exec ftypes F [] true fuel false t c = ob -> ob <> OFuel ->
         exists fuel', exec ftypes (fun _ => no_flags) [] false fuel' false low c = ob.
Proof.
  intros Hfr Hcode. exists (flat_map (lower F []) t). split.
  - apply (resolve_flatten F t fe ty loc Hfr).
  - intros fuel c ob H Hn.
    apply (sim_closed ftypes F [] eq_refl Hcode fuel t c ob H Hn). apply okI_nbl. apply Hfr.
Qed.

(* ------------------------------------------------------------------------------------------ *)
(* Connection with the flat body: for a body that parses, the flagged flat list the pass runs on is the
   flatF-image of the parsed tree (node positions = flat positions) *)
Definition flagged (F : nat -> flags) (idx : nat) (ops : list fop) : list (fop * flags) :=
  map (fun x => (snd x, F (fst x))) (index_from idx ops).
Definition tflag (F : nat -> flags) (tm : term) : list (fop * flags) :=
  match tm with TEnd e => [(FEnd, F e)] | TElse e => [(FElse, F e)] | TEof => [] end.

Fixpoint plainok (x : instr) : bool :=
  match x with
  | IPlain _ o => plain_op o
  | IBlock _ _ _ b | ILoop _ _ _ b => forallb plainok b
  | IIf _ _ _ _ t e => forallb plainok t && forallb plainok e
  end.

Lemma flagged_cons F idx o ops : flagged F idx (o :: ops) = (o, F idx) :: flagged F (S idx) ops.
Proof. reflexivity. Qed.

Lemma flatF_cons F x t : flatF F (x :: t) = flatF1 F x ++ flatF F t.
Proof. reflexivity. Qed.

Lemma parse_seq_flat F : forall fuel idx ops t tm idx' rest,
  parse_seq fuel idx ops = Some (t, tm, idx', rest) ->
  flagged F idx ops = flatF F t ++ tflag F tm ++ flagged F idx' rest /\ forallb plainok t = true.
Proof.
  induction fuel as [|fuel IH]; intros idx ops t tm idx' rest H; [discriminate H|].
  cbn [parse_seq] in H. destruct ops as [|o ops]; [inversion H; subst; split; reflexivity|].
  destruct o;
    try (destruct (parse_seq fuel (S idx) ops) as [[[[tl tm1] idx1] rest1]|] eqn:E1; [|discriminate H];
         inversion H; subst; destruct (IH _ _ _ _ _ _ E1) as [G1 P1];
         rewrite flagged_cons, G1; split; [reflexivity|cbn [forallb plainok]; rewrite P1; reflexivity]).
  - (* block *)
    destruct (parse_seq fuel (S idx) ops) as [[[[body tm1] idx1] rest1]|] eqn:E1; [|discriminate H].
    destruct tm1 as [e|e|]; try discriminate H.
    destruct (parse_seq fuel idx1 rest1) as [[[[tl tm2] idx2] rest2]|] eqn:E2; [|discriminate H].
    inversion H; subst. destruct (IH _ _ _ _ _ _ E1) as [G1 P1]. destruct (IH _ _ _ _ _ _ E2) as [G2 P2].
    rewrite flagged_cons, G1, G2, flatF_cons. cbn [flatF1 tflag]. split.
    + cbn [app]. rewrite <- !app_assoc. reflexivity.
    + cbn [forallb plainok]. rewrite P1, P2. reflexivity.
  - (* loop *)
    destruct (parse_seq fuel (S idx) ops) as [[[[body tm1] idx1] rest1]|] eqn:E1; [|discriminate H].
    destruct tm1 as [e|e|]; try discriminate H.
    destruct (parse_seq fuel idx1 rest1) as [[[[tl tm2] idx2] rest2]|] eqn:E2; [|discriminate H].
    inversion H; subst. destruct (IH _ _ _ _ _ _ E1) as [G1 P1]. destruct (IH _ _ _ _ _ _ E2) as [G2 P2].
    rewrite flagged_cons, G1, G2, flatF_cons. cbn [flatF1 tflag]. split.
    + cbn [app]. rewrite <- !app_assoc. reflexivity.
    + cbn [forallb plainok]. rewrite P1, P2. reflexivity.
  - (* if *)
    destruct (parse_seq fuel (S idx) ops) as [[[[thn tm1] idx1] rest1]|] eqn:E1; [|discriminate H].
    destruct tm1 as [e|el|]; try discriminate H.
    + destruct (parse_seq fuel idx1 rest1) as [[[[tl tm2] idx2] rest2]|] eqn:E2; [|discriminate H].
      inversion H; subst. destruct (IH _ _ _ _ _ _ E1) as [G1 P1]. destruct (IH _ _ _ _ _ _ E2) as [G2 P2].
      rewrite flagged_cons, G1, G2, flatF_cons. cbn [flatF1 tflag]. split.
      * cbn [app]. rewrite <- !app_assoc. reflexivity.
      * cbn [forallb plainok]. rewrite P1, P2. reflexivity.
    + destruct (parse_seq fuel idx1 rest1) as [[[[els tm2] idx2] rest2]|] eqn:E2; [|discriminate H].
      destruct tm2 as [e|e|]; try discriminate H.
      destruct (parse_seq fuel idx2 rest2) as [[[[tl tm3] idx3] rest3]|] eqn:E3; [|discriminate H].
      inversion H; subst. destruct (IH _ _ _ _ _ _ E1) as [G1 P1]. destruct (IH _ _ _ _ _ _ E2) as [G2 P2].
      destruct (IH _ _ _ _ _ _ E3) as [G3 P3].
      rewrite flagged_cons, G1, G2, G3, flatF_cons. cbn [flatF1 tflag]. split.
      * cbn [app]. repeat (rewrite <- !app_assoc; cbn [app]). reflexivity.
      * cbn [forallb plainok]. rewrite P1, P2, P3. reflexivity.
  - (* else *) inversion H; subst. rewrite flagged_cons. split; reflexivity.
  - (* end *) inversion H; subst. rewrite flagged_cons. split; reflexivity.
Qed.

Theorem parse_body_flat F ops t fe :
  parse_body ops = Some (t, fe) ->
  flatF F t ++ [(FEnd, F fe)] = flagged F 0 ops /\ forallb plainok t = true.
Proof.
  unfold parse_body. intros H.
  destruct (parse_seq (S (length ops)) 0 ops) as [[[[body tm] idx'] rest]|] eqn:E; [|discriminate H].
  destruct tm as [e|e|]; try discriminate H. destruct rest; [|discriminate H]. inversion H; subst.
  destruct (parse_seq_flat F _ _ _ _ _ _ _ E) as [G P]. rewrite G. cbn [tflag flagged index_from map]. split; [reflexivity|exact P].
Qed.

(* ------------------------------------------------------------------------------------------ *)
(* The theorem for the model of one harness case (CheckLow.model) *)
Lemma apply_plan_ma a a' : forall plan body sp, apply_plan a plan body sp = apply_plan a' plan body sp.
Proof.
  induction plan as [|[[idx m] xs] plan IH]; intros body sp; [reflexivity|].
  cbn [apply_plan]. destruct (nth_error body idx) as [[op f]|]; [|reflexivity].
  destruct (match xs, m with
            | [], MAlternate => Some (mkFlags (f_before f) (f_after f) (Some []) (f_sa f) (f_be f) (f_bx f) (f_balt f), false)
            | [], MBlockAlt => Some (mkFlags (f_before f) (f_after f) (f_alt f) (f_sa f) (f_be f) (f_bx f) (Some []), true)
            | _, _ => match add_all op m xs f false with Some (f', s) => Some (f', s) | None => None end
            end) as [[f' s]|]; [|reflexivity].
  destruct (upd_nth idx (fun _ => Some (op, f')) body); [apply IH|reflexivity].
Qed.

Lemma upd_nth_fst {A B} (d : A) : forall idx (body body' : list (A * B)) op f',
  nth_error (map fst body) idx = Some op ->
  upd_nth idx (fun _ => Some (op, f')) body = Some body' -> map fst body' = map fst body.
Proof.
  induction idx as [|idx IH]; intros [|[o g] body] body' op f' Hn H; try discriminate H.
  - cbn in H, Hn. inversion H; inversion Hn; subst. reflexivity.
  - cbn [upd_nth] in H. cbn [map nth_error fst] in Hn.
    destruct (upd_nth idx (fun _ => Some (op, f')) body) as [t'|] eqn:E; [|discriminate H].
    inversion H; subst. cbn [map fst]. f_equal. eapply IH; eassumption.
Qed.

Lemma apply_plan_ops a : forall plan body sp fb sp',
  apply_plan a plan body sp = Some (fb, sp') -> map fst fb = map fst body.
Proof.
  induction plan as [|[[idx m] xs] plan IH]; intros body sp fb sp' H.
  - inversion H; subst. reflexivity.
  - cbn [apply_plan] in H. destruct (nth_error body idx) as [[op f]|] eqn:En; [|discriminate H].
    destruct (match xs, m with
              | [], MAlternate => Some (mkFlags (f_before f) (f_after f) (Some []) (f_sa f) (f_be f) (f_bx f) (f_balt f), false)
              | [], MBlockAlt => Some (mkFlags (f_before f) (f_after f) (f_alt f) (f_sa f) (f_be f) (f_bx f) (Some []), true)
              | _, _ => match add_all op m xs f false with Some (f', s) => Some (f', s) | None => None end
              end) as [[f' s]|]; [|discriminate H].
    destruct (upd_nth idx (fun _ => Some (op, f')) body) as [body'|] eqn:Eu; [|discriminate H].
    rewrite (IH _ _ _ _ H). eapply (upd_nth_fst FEnd); [|exact Eu].
    rewrite nth_error_map, En. reflexivity.
Qed.

(* when no special mode was recorded, no special list is populated *)
Lemma add_all_nospecial op m : forall xs f sp f',
  add_all op m xs f sp = Some (f', false) -> sp = false /\ (Idem.no_special f = true -> Idem.no_special f' = true).
Proof.
  induction xs as [|x xs IH]; intros f sp f' H.
  - inversion H; subst. auto.
  - cbn [add_all] in H. destruct (add_instr op m x f) as [[f1 s1]|] eqn:E; [|discriminate H].
    destruct (IH _ _ _ H) as [Hs Hn]. apply orb_false_elim in Hs as [-> ->]. split; [reflexivity|].
    intros Hf. apply Hn. clear - E Hf.
    unfold add_instr in E. destruct m.
    1-3: inversion E; subst; exact Hf.
    + destruct (is_block_style op || is_branching op); inversion E.
    + destruct (is_block_style op); inversion E.
    + destruct (is_block_style op); inversion E.
    + destruct (is_block_style op); inversion E.
Qed.

Lemma upd_nth_forallb {A} (P : A -> bool) : forall idx (body body' : list A) y,
  upd_nth idx (fun _ => Some y) body = Some body' -> P y = true -> forallb P body = true -> forallb P body' = true.
Proof.
  induction idx as [|idx IH]; intros [|x body] body' y H Hy Hb; try discriminate H.
  - cbn in H. inversion H; subst. cbn [forallb] in *. apply andb_prop in Hb as [_ Hb]. rewrite Hy, Hb. reflexivity.
  - cbn [upd_nth] in H. destruct (upd_nth idx (fun _ => Some y) body) as [t'|] eqn:E; [|discriminate H].
    inversion H; subst. cbn [forallb] in *. apply andb_prop in Hb as [Hx Hb]. rewrite Hx. cbn [andb]. eapply IH; eassumption.
Qed.

Lemma apply_plan_nospecial a : forall plan body sp fb,
  apply_plan a plan body sp = Some (fb, false) ->
  forallb (fun x => Idem.no_special (snd x)) body = true -> forallb (fun x => Idem.no_special (snd x)) fb = true.
Proof.
  induction plan as [|[[idx m] xs] plan IH]; intros body sp fb H Hb.
  - inversion H; subst. exact Hb.
  - cbn [apply_plan] in H. destruct (nth_error body idx) as [[op f]|] eqn:En; [|discriminate H].
    assert (Hf : Idem.no_special f = true).
    { apply nth_error_In in En. rewrite forallb_forall in Hb. apply (Hb _ En). }
    destruct (match xs, m with
              | [], MAlternate => Some (mkFlags (f_before f) (f_after f) (Some []) (f_sa f) (f_be f) (f_bx f) (f_balt f), false)
              | [], MBlockAlt => Some (mkFlags (f_before f) (f_after f) (f_alt f) (f_sa f) (f_be f) (f_bx f) (Some []), true)
              | _, _ => match add_all op m xs f false with Some (f', s) => Some (f', s) | None => None end
              end) as [[f' s]|] eqn:Em; [|discriminate H].
    destruct (upd_nth idx (fun _ => Some (op, f')) body) as [body'|] eqn:Eu; [|discriminate H].
    assert (Hsp : sp || s = false).
    { clear - H. revert H. generalize (sp || s). generalize body'. clear.
      induction plan as [|[[idx m] xs] plan IH]; intros body b H; [inversion H; reflexivity|].
      cbn [apply_plan] in H. destruct (nth_error body idx) as [[op f]|]; [|discriminate H].
      destruct (match xs, m with
                | [], MAlternate => Some (mkFlags (f_before f) (f_after f) (Some []) (f_sa f) (f_be f) (f_bx f) (f_balt f), false)
                | [], MBlockAlt => Some (mkFlags (f_before f) (f_after f) (f_alt f) (f_sa f) (f_be f) (f_bx f) (Some []), true)
                | _, _ => match add_all op m xs f false with Some (f', s) => Some (f', s) | None => None end
                end) as [[f' s]|]; [|discriminate H].
      destruct (upd_nth idx (fun _ => Some (op, f')) body) as [body'|]; [|discriminate H].
      apply IH in H. apply orb_false_elim in H. tauto. }
    apply orb_false_elim in Hsp as [_ ->].
    apply (IH _ _ _ H). eapply upd_nth_forallb; [exact Eu| |exact Hb]. cbn [snd].
    destruct xs as [|x xs].
    + destruct m; try (inversion Em; subst; exact Hf).
    + assert (Em' : add_all op m (x :: xs) f false = Some (f', false)).
      { destruct m; destruct (add_all op _ (x :: xs) f false) as [[? ?]|]; inversion Em; reflexivity. }
      apply add_all_nospecial in Em'. apply Em'. exact Hf.
Qed.

(* a flagged body is the [flagged]-image of its own operators under its own flags function *)
Lemma flagged_self (fb : list (fop * flags)) : fb = flagged (flags_fn fb) 0 (map fst fb).
Proof.
  assert (G : forall l pre, l = flagged (flags_fn (pre ++ l)) (length pre) (map fst l)).
  { induction l as [|[o f] l IH]; intros pre; [reflexivity|].
    cbn [map fst]. rewrite flagged_cons. f_equal.
    - unfold flags_fn. rewrite app_nth2 by lia. rewrite Nat.sub_diag. reflexivity.
    - specialize (IH (pre ++ [(o, f)])). rewrite <- app_assoc, app_length in IH. cbn [app length] in IH.
      replace (length pre + 1) with (S (length pre)) in IH by lia. exact IH. }
  apply (G fb []).
Qed.

Lemma forallb_lift4 {A} (P1 P2 P3 Q : A -> bool) l :
  Forall (fun x => P1 x = true -> P2 x = true -> P3 x = true -> Q x = true) l ->
  forallb P1 l = true -> forallb P2 l = true -> forallb P3 l = true -> forallb Q l = true.
Proof.
  induction 1 as [|x l Hx _ IH]; intros H1 H2 H3; [reflexivity|].
  cbn [forallb] in *. apply andb_prop in H1 as [? ?]. apply andb_prop in H2 as [? ?]. apply andb_prop in H3 as [? ?].
  rewrite Hx, IH; auto.
Qed.

(* the fragment as CheckSem.tree_tie tests it (fuel-indexed predicates) implies [okI] on parsed trees *)
Lemma checksem_okI F x : forall n n',
  instr_no_branch_sa F n x = true -> instr_no_d15 F n' x = true -> plainok x = true -> okI F x = true.
Proof.
  induction x as [i o|i e bt b IHb|i e bt b IHb|i el e bt t els IHt IHe] using instr_ind2;
    intros [|n] [|n'] H1 H2 H3; try discriminate H1; try discriminate H2.
  - cbn [okI plainok] in *. rewrite H3. destruct o; cbn in H1 |- *; auto.
  - cbn [okI plainok instr_no_branch_sa instr_no_d15] in *.
    eapply forallb_lift4; [|exact H1|exact H2|exact H3].
    eapply Forall_impl; [|exact IHb]. intros x Hx. apply Hx.
  - cbn [okI plainok instr_no_branch_sa instr_no_d15] in *.
    eapply forallb_lift4; [|exact H1|exact H2|exact H3].
    eapply Forall_impl; [|exact IHb]. intros x Hx. apply Hx.
  - cbn [okI plainok instr_no_branch_sa instr_no_d15] in *.
    apply andb_prop in H1 as [H1t H1e]. apply andb_prop in H2 as [H2 H2e]. apply andb_prop in H2 as [Hd H2t].
    apply andb_prop in H3 as [H3t H3e]. rewrite Hd. cbn [andb]. apply andb_true_intro. split.
    + eapply forallb_lift4; [|exact H1t|exact H2t|exact H3t]. eapply Forall_impl; [|exact IHt]. intros x Hx. apply Hx.
    + eapply forallb_lift4; [|exact H1e|exact H2e|exact H3e]. eapply Forall_impl; [|exact IHe]. intros x Hx. apply Hx.
Qed.

Theorem model_flatten (c : lcase) t fe fb sp n n' :
  parse_body (c_body c) = Some (t, fe) ->
  apply_plan false (c_plan c) (map (fun o => (o, no_flags)) (c_body c)) false = Some (fb, sp) ->
  forallb (fun x => nonreplacing (snd x)) fb = true ->
  forallb (instr_no_branch_sa (flags_fn fb) n) t = true -> forallb (instr_no_d15 (flags_fn fb) n') t = true ->
  c_entry c = [] -> c_exit c = [] ->
  model c = Some (flat (flat_map (lower (flags_fn fb) []) t) ++ f_before (flags_fn fb fe) ++ [FEnd], c_groups c).
Proof.
  intros Hp Ha Hnr Hsa Hd Hen Hex.
  set (F := flags_fn fb) in *.
  assert (Hops : map fst fb = c_body c).
  { rewrite (apply_plan_ops _ _ _ _ _ _ Ha), map_map. cbn [fst]. apply map_id. }
  destruct (parse_body_flat F _ _ _ Hp) as [Hfl Hpl].
  assert (Hfb : fb = flatF F t ++ [(FEnd, F fe)]).
  { rewrite Hfl, <- Hops. apply flagged_self. }
  assert (HNR : nonrepl F).
  { intros i. unfold F, flags_fn.
    destruct (nth_in_or_default i fb (FEnd, no_flags)) as [Hin| ->]; [|split; reflexivity].
    rewrite forallb_forall in Hnr. specialize (Hnr _ Hin). unfold nonreplacing in Hnr.
    apply andb_prop in Hnr as [H1 H2]. destruct (f_alt _); [discriminate|]. destruct (f_balt _); [discriminate|]. auto. }
  assert (Hok : forallb (okI F) t = true).
  { eapply (forallb_lift4 (instr_no_branch_sa F n) (instr_no_d15 F n') plainok); [|exact Hsa|exact Hd|exact Hpl].
    apply Forall_forall. intros x _. apply checksem_okI. }
  unfold model. rewrite (apply_plan_ma _ false), Ha, Hen, Hex. cbn [is_nil negb orb]. rewrite !orb_false_r.
  destruct (resolve_flatten F t fe (c_exit_ty c) (mkLocals (c_nparams c) (c_numlocals c) (c_groups c)) (conj HNR Hok)) as [R1 R2].
  rewrite <- Hfb in R1, R2.
  destruct sp.
  - destruct (resolve true [] [] (c_exit_ty c) fb _) as [r loc'] eqn:ER. cbn [fst snd] in R1, R2. rewrite R1, R2. reflexivity.
  - assert (Hq : forallb (fun x => Idem.no_special (snd x)) fb = true).
    { apply (apply_plan_nospecial _ _ _ _ _ Ha). clear. induction (c_body c); [reflexivity|]. cbn. exact IHl. }
    rewrite (Idem.resolve_idempotent _ _ _ Hq) in R1, R2. cbn [fst snd] in R1.
    unfold resolve. cbn [negb]. rewrite R1. reflexivity.
Qed.
