(* resolve_flatten: the flat mirror of resolve_special_instrumentation + the emission loop (Model/Lowering.v:
   rloop / resolve / emit) computes exactly the flattening of the tree-level lowering (Model/TreeLower.v: lower),
   the object of the simulation theorems Sim.sim_closed / SimFn.sim_fn.

   Fragment ([frag F t]): no replacing mode anywhere ([nonrepl F]: f_alt = f_balt = None), and [okI F] on every node:
   plain nodes carry non-structural operators (well-formedness of the tree; parse_body only produces such trees),
   no semantic-after on a branch instruction.  (Before the repair of D15 -- block-exit of an `if` resolved at the
   next else / end of the flat stream -- the fragment also had to exclude block-exit on an `if` whose then-arm
   contains a block-like instruction; resolve_on_else_or_end is now keyed by the block id and the clause is gone.)

   Main results
     resolve_flatten        emit (fst (resolve true [] [] ty (flatF F t ++ [(FEnd, F fe)]) loc))
                              = flat (flat_map (lower F []) t) ++ f_before (F fe) ++ [FEnd],  locals unchanged
                            (all trees of the fragment; node labels need not be positions: both sides read F at the labels)
     parse_body_flat        parse_body ops = Some (t, fe) -> flatF F t ++ [(FEnd, F fe)] = flagged F 0 ops
                            (the flagged flat body the pass really runs on), and t is well formed
     resolve_flatten_sim    + Sim.sim_closed: the plain interpreter on the tree whose flattening is what the mirror
                            emits reproduces every result of the specification interpreter on the original tree
     model_flatten          CheckLow.model c = Some (flat (flat_map (lower F []) t) ++ f_before (F fe) ++ [FEnd], c_groups c)
                            for cases of the fragment without entry / exit probes (F = CheckSem.flags_fn of the plan)
     resolve_flatten_fn     function entry / exit probes: equality with flat (SimFn.fn_tree ..) ++ [FEnd], up to the
                            documented rotation of instruction 0's before-code in front of the wrapper's opener
     resolve_flatten_fn_sim + SimFn.sim_fn;   model_flatten_fn: the same for CheckLow.model.
     resolve_flatten_real   the real placement, no rotation: emitted = flat (SimFnReal.real_tree (with0 entry F) X ty t fe) ++ [FEnd]
                            for every parsed non-empty body, any entry / exit probes
     parse_body_positions   parse_body discharges the position hypotheses of SimFnReal.sim_fn_real (head_at_0, ...)
     resolve_flatten_real_sim  + SimFnReal.sim_fn_real
     model_flatten_real     CheckLow.model c = Some (tie_body ..): literally the body CheckSem.tree_tie compares with
     tree_tie_of_model      whenever the observed body is the model's body, CheckSem.tree_tie accepts the case
                            (the second per-case tie follows from the first).

   Technique: induction on the tree (instr_ind2), generalised over the depth (block stack = stack_of d), the pending
   r_ron / r_roe entries of enclosing constructs ([fresh d m], [fresh d q]: no key >= d), and the exit probes X; one step lemma per
   structural operator (step_open3 / step_if3 / step_else3 / step_end3 / step_plain3) on [rstep3] = rstep after the
   entry / exit stages; [ent d B A m] is the canonical form of the construct's own r_ron entry. *)
From Coq Require Import List Arith NArith ZArith Bool Lia.
Import ListNotations.
From Orca Require Import Util Flat Lowering Tree TreeLower WasmP EvalP Sim SimFn Peel SimFnReal Commute CheckLow LowPlain LowAlt CheckSem Idem.

Local Arguments flag_stage : simpl never.
Local Arguments stack_of : simpl never.

(* ---------- induction principle for the nested type of trees ---------- *)
Section InstrInd.
Variable P : instr -> Prop.
Hypothesis HP : forall i o, P (IPlain i o).
Hypothesis HB : forall i e bt b, Forall P b -> P (IBlock i e bt b).
Hypothesis HL : forall i e bt b, Forall P b -> P (ILoop i e bt b).
Hypothesis HI : forall i el e bt t els, Forall P t -> Forall P els -> P (IIf i el e bt t els).
Fixpoint instr_ind2 (x : instr) : P x :=
  let go := fix go (l : list instr) : Forall P l :=
    match l with [] => Forall_nil P | y :: l' => Forall_cons y (instr_ind2 y) (go l') end in
  match x with
  | IPlain i o => HP i o
  | IBlock i e bt b => HB i e bt b (go b)
  | ILoop i e bt b => HL i e bt b (go b)
  | IIf i el e bt t els => HI i el e bt t els (go t) (go els)
  end.
End InstrInd.

(* ---------- generic facts ---------- *)
Lemma if_same {A} (b : bool) (x : A) : (if b then x else x) = x.
Proof. destruct b; reflexivity. Qed.

Lemma is_nil_true {A} (l : list A) : is_nil l = true -> l = [].
Proof. destruct l; [reflexivity|discriminate]. Qed.

Lemma top_stack_of_S d : top (stack_of (S d)) = d.
Proof. rewrite stack_of_S. reflexivity. Qed.

Lemma rloop_cons last idx op fl b st st1 w o2 st2 :
  rstep last idx op fl st = (st1, w) -> rloop last (S idx) b st1 = (o2, st2) ->
  rloop last idx ((op, fl) :: b) st = ((op, w) :: o2, st2).
Proof. intros H1 H2. cbn [rloop]. rewrite H1, H2. reflexivity. Qed.

Lemma rloop_app2 last a b idx st o1 st1 o2 st2 :
  rloop last idx a st = (o1, st1) -> rloop last (idx + length a) b st1 = (o2, st2) ->
  rloop last idx (a ++ b) st = (o1 ++ o2, st2).
Proof. intros H1 H2. rewrite rloop_app, H1, H2. reflexivity. Qed.

Lemma rloop_length last : forall b i st, length (fst (rloop last i b st)) = length b.
Proof.
  induction b as [|[o f] b IH]; intros i st; [reflexivity|].
  cbn [rloop]. destruct (rstep last i o f st) as [st1 w].
  specialize (IH (S i) st1). destruct (rloop last (S i) b st1) as [r st2]. cbn [fst length] in *. rewrite IH. reflexivity.
Qed.

Lemma emit_mid_app a b : emit_mid (a ++ b) = emit_mid a ++ emit_mid b.
Proof. apply flat_map_app. Qed.
Lemma emit_mid_cons x a : emit_mid (x :: a) = emit1 x ++ emit_mid a.
Proof. reflexivity. Qed.

Lemma emit_from_app last : forall a b idx,
  emit_from last idx (a ++ b) = emit_from last idx a ++ emit_from last (idx + length a) b.
Proof.
  induction a as [|[op f] a IH]; intros b idx.
  - cbn. rewrite Nat.add_0_r. reflexivity.
  - cbn [app emit_from length]. rewrite IH, <- app_assoc.
    replace (idx + S (length a)) with (S idx + length a) by lia. reflexivity.
Qed.

Lemma emit_from_mid last : forall l idx, idx + length l <= last -> emit_from last idx l = emit_mid l.
Proof.
  induction l as [|[op f] l IH]; intros idx H; [reflexivity|].
  cbn [emit_from length] in *. rewrite emit_mid_cons, IH by lia.
  f_equal. unfold emit1.
  assert (E : (last <=? idx) = false) by (apply Nat.leb_gt; lia). rewrite E.
  destruct (f_alt f); reflexivity.
Qed.

(* ---------- the pending entry of one construct in resolve_on_end ---------- *)
Definition ent (d : nat) (B A : list (list fop)) (m : list (nat * pend2)) : list (nat * pend2) :=
  match B, A with
  | [], [] => m
  | _, _ => (d, mkPend2 (mkPend [] B) (mkPend [] A)) :: m
  end.
Definition addc (c : list fop) (L : list (list fop)) : list (list fop) := if is_nil c then L else L ++ [c].

Lemma concat_addc c L : concat (addc c L) = concat L ++ c.
Proof.
  unfold addc. destruct c as [|x c]; cbn [is_nil]; [rewrite app_nil_r; reflexivity|].
  rewrite concat_app. cbn [concat]. rewrite app_nil_r. reflexivity.
Qed.

Lemma regb_ent d bx B A m : ron_get d m = None -> regb d bx (ent d B A m) = ent d (addc bx B) A m.
Proof.
  intros Hm. unfold regb, addc. destruct bx as [|x bx]; cbn [is_nil]; [reflexivity|].
  unfold ron_upd, ent. destruct B as [|b B]; [destruct A as [|a A]|].
  - rewrite Hm. reflexivity.
  - cbn [ron_get ron_remove]. rewrite Nat.eqb_refl. reflexivity.
  - cbn [ron_get ron_remove]. rewrite Nat.eqb_refl. reflexivity.
Qed.

Lemma rega_ent d sa B A m : ron_get d m = None -> rega d sa (ent d B A m) = ent d B (addc sa A) m.
Proof.
  intros Hm. unfold rega, addc. destruct sa as [|x sa]; cbn [is_nil]; [reflexivity|].
  unfold ron_upd, ent. destruct B as [|b B]; [destruct A as [|a A]|].
  - rewrite Hm. reflexivity.
  - cbn [ron_get ron_remove]. rewrite Nat.eqb_refl. reflexivity.
  - cbn [ron_get ron_remove]. rewrite Nat.eqb_refl. cbn. destruct A; reflexivity.
Qed.

Lemma bodies_not L : bodies (mkPend [] L) = concat L.
Proof. reflexivity. Qed.

Lemma end_ent d B A m : ron_get d m = None ->
  (ron_get d (ent d B A m) = None /\ ent d B A m = m /\ B = [] /\ A = []) \/
  (exists p, ron_get d (ent d B A m) = Some p /\ ron_remove d (ent d B A m) = m
             /\ bodies (pb p) = concat B /\ bodies (pa p) = concat A).
Proof.
  intros Hm. unfold ent. destruct B as [|b B]; [destruct A as [|a A]|].
  - left. auto.
  - right. eexists. cbn [ron_get ron_remove]. rewrite Nat.eqb_refl. repeat split.
  - right. eexists. cbn [ron_get ron_remove]. rewrite Nat.eqb_refl. repeat split.
Qed.

Definition fresh (d : nat) (m : list (nat * pend2)) : Prop := forall k, d <= k -> ron_get k m = None.
Lemma fresh_ent d B A m : fresh d m -> fresh (S d) (ent d B A m).
Proof.
  intros H k Hk. assert (E : ron_get k m = None) by (apply H; lia).
  unfold ent. destruct B; [destruct A|]; auto; cbn [ron_get];
    (destruct (Nat.eqb_spec k d); [lia|exact E]).
Qed.

(* flag_stage on an instruction that is neither block-like nor an instrumented branch: nothing is registered *)
Lemma flag_stage_leaf op orig st w :
  is_block_style op = false -> (is_branching op = true -> f_sa orig = []) ->
  exists w', flag_stage op orig st w = (st, w') /\ f_before w' = f_before w /\ f_after w' = f_after w /\ f_alt w' = f_alt w.
Proof.
  intros Hb Hs. unfold flag_stage.
  destruct (has_instr orig); cbn [negb]; [|eexists; repeat split].
  rewrite Hb.
  destruct (f_be orig) as [|b1 bl]; destruct (f_bx orig) as [|x1 xl]; destruct (f_sa orig) as [|s1 sl] eqn:Es; cbn [is_nil];
    destruct op; try discriminate Hb; try (specialize (Hs eq_refl); discriminate Hs);
    eexists; repeat split.
Qed.

(* ---------- rstep = stage 3 after the entry / exit stages ---------- *)
Definition rstep3 (op : fop) (orig : flags) (st : rstate) (w : flags) : rstate * flags :=
  match op with
  | FBlock _ | FLoop _ | FIf _ =>
      let st := set_stack (length (r_stack st) :: r_stack st) st in
      match block_alt_case false orig st w with
      | Some r => r
      | None => flag_stage op orig st w
      end
  | FElse =>
      let '(st, w) := match r_stack st with [] => (st, w) | k :: _ => resolve_roe k st w end in
      match block_alt_case true orig st w with
      | Some r => r
      | None => flag_stage op orig st w
      end
  | FEnd =>
      match r_stack st with
      | [] => flag_stage op orig st w
      | block_id :: rest =>
          let st := set_stack rest st in
          let cont (st : rstate) (w : flags) :=
            let '(st, w) := resolve_roe block_id st w in
            let '(st, w) :=
              match ron_get block_id (r_ron st) with
              | Some p => (set_ron (ron_remove block_id (r_ron st)) st, resolve_pend2 p w)
              | None => (st, w)
              end in
            flag_stage op orig st w in
          match r_del st with
          | Some d =>
              if Nat.eqb d block_id then
                let st := set_del None st in
                if negb (r_retain st) then (set_retain true st, w_delete w)
                else cont (set_retain true st) w
              else (st, w_delete w)
          | None => cont st w
          end
      end
  | _ =>
      match r_del st with
      | Some _ => (st, w_delete w)
      | None => flag_stage op orig st w
      end
  end.

(* an instruction that is neither the first (entry code) nor the last one (closing of the exit wrapper) *)
Definition xw (X : list fop) (op : fop) (orig : flags) : flags :=
  if is_nil X then orig else if is_exit_op op then w_before X orig else orig.

Lemma xw_fields X op orig :
  f_before (xw X op orig) = f_before orig ++ (if is_exit_op op then X else [])
  /\ f_after (xw X op orig) = f_after orig /\ f_alt (xw X op orig) = f_alt orig.
Proof.
  unfold xw. destruct X as [|x0 X0]; cbn [is_nil].
  - rewrite if_same, app_nil_r. auto.
  - destruct (is_exit_op op); cbn [w_before f_before f_after f_alt]; rewrite ?app_nil_r; auto.
Qed.

Lemma rstep_mid last idx op orig st :
  r_entry st = [] -> idx < last ->
  rstep last idx op orig st = rstep3 op orig st (xw (r_exit st) op orig).
Proof.
  intros He Hlt. unfold rstep, xw. rewrite He. cbn [is_nil negb andb].
  assert (E : (idx =? last) = false) by (apply Nat.eqb_neq; lia). rewrite E.
  destruct (r_exit st) as [|x0 X0] eqn:EX; cbn [is_nil]; [reflexivity|].
  destruct (is_exit_op op); reflexivity.
Qed.

(* ------------------------------------------------------------------------------------------ *)
Section Flatten.
Variable F : nat -> flags.
Variable X : list fop.          (* function-exit probes *)

Notation bef := (TreeLower.bef F). Notation aft := (TreeLower.aft F). Notation be_ := (TreeLower.be_ F).
Notation bx_ := (TreeLower.bx_ F). Notation sa_ := (TreeLower.sa_ F).
Notation lower := (TreeLower.lower F X).

(* the fragment: no replacing mode anywhere *)
Hypothesis HNR : forall i, f_alt (F i) = None /\ f_balt (F i) = None.

(* well-formedness of a tree + the fragment conditions that depend on the tree *)
Definition plain_op (o : fop) : bool :=
  negb (is_block_style o) && negb (match o with FEnd => true | _ => false end).

Fixpoint okI (x : instr) : bool :=
  match x with
  | IPlain i o => plain_op o && (negb (is_branching o) || is_nil (f_sa (F i)))
  | IBlock _ _ _ b | ILoop _ _ _ b => forallb okI b
  | IIf _ _ _ _ t e => forallb okI t && forallb okI e
  end.

(* the state of the pass inside a function body of the fragment *)
Definition St (d : nat) (ret : bool) (q m : list (nat * pend2)) (loc : Lowering.locals) : rstate :=
  mkR [] X (stack_of d) None ret q m loc.

Ltac fields := cbn [r_entry r_exit r_stack r_del r_retain r_roe r_ron r_loc
                    set_stack set_ron set_roe set_del set_retain set_loc set_entry set_exit].

Lemma step_open3 op i d ret q m loc w0 :
  (exists bt, op = FBlock bt \/ op = FLoop bt) -> ron_get d m = None ->
  exists w, rstep3 op (F i) (St d ret q m loc) w0
            = (St (S d) ret q (ent d (addc (bx_ i) []) (addc (sa_ i) []) m) loc, w)
    /\ f_before w = f_before w0 /\ f_after w = f_after w0 ++ be_ i /\ f_alt w = f_alt w0.
Proof.
  intros Hop Hm.
  assert (Hop' : op = FElse \/ exists bt, op = FBlock bt \/ op = FLoop bt) by (right; exact Hop).
  assert (E : rstep3 op (F i) (St d ret q m loc) w0 = flag_stage op (F i) (St (S d) ret q m loc) w0).
  { unfold St. destruct Hop as [bt [-> | ->]]; unfold rstep3; fields;
      rewrite stack_of_length, <- stack_of_S; unfold block_alt_case; rewrite (proj2 (HNR i)); reflexivity. }
  rewrite E. unfold St.
  pose proof (flag_stage_reg op (F i) (mkR [] X (stack_of (S d)) None ret q m loc) w0 Hop') as R.
  destruct (flag_stage op (F i) (mkR [] X (stack_of (S d)) None ret q m loc) w0) as [st' w'] eqn:EF.
  cbn [r_entry r_exit r_stack r_del r_retain r_roe r_ron r_loc] in R.
  destruct R as (R1&R2&R3&R4&R5&R6&R7&R8&R9&R10&R11).
  exists w'. split; [|auto].
  f_equal. apply rstate_eta; fields; auto.
  rewrite R8, top_stack_of_S. change m with (ent d [] [] m) at 1.
  rewrite regb_ent, rega_ent by exact Hm. reflexivity.
Qed.

Lemma step_if3 bt i d ret q m loc w0 :
  ron_get d m = None -> ron_get d q = None ->
  exists w, rstep3 (FIf bt) (F i) (St d ret q m loc) w0
            = (St (S d) ret (ent d (addc (bx_ i) []) [] q) (ent d [] (addc (sa_ i) []) m) loc, w)
    /\ f_before w = f_before w0 /\ f_after w = f_after w0 ++ be_ i /\ f_alt w = f_alt w0.
Proof.
  intros Hm Hq.
  assert (E : rstep3 (FIf bt) (F i) (St d ret q m loc) w0 = flag_stage (FIf bt) (F i) (St (S d) ret q m loc) w0).
  { unfold St, rstep3; fields.
    rewrite stack_of_length, <- stack_of_S; unfold block_alt_case; rewrite (proj2 (HNR i)); reflexivity. }
  rewrite E. unfold St.
  pose proof (flag_stage_if bt (F i) (mkR [] X (stack_of (S d)) None ret q m loc) w0) as R.
  destruct (flag_stage (FIf bt) (F i) (mkR [] X (stack_of (S d)) None ret q m loc) w0) as [st' w'] eqn:EF.
  cbn [r_entry r_exit r_stack r_del r_retain r_roe r_ron r_loc] in R.
  destruct R as (R1&R2&R3&R4&R5&R6&R7&R8&R9&R10&R11).
  exists w'. split; [|auto].
  f_equal. apply rstate_eta; fields; auto.
  - rewrite R7, top_stack_of_S. change q with (ent d [] [] q) at 1. rewrite regb_ent by exact Hq. reflexivity.
  - rewrite R8, top_stack_of_S. change m with (ent d [] [] m) at 1.
    rewrite rega_ent by exact Hm. reflexivity.
Qed.

(* resolve_on_else_or_end.remove(&d): the entry of the `if` with id d, if any *)
Lemma resolve_roe_ent d ret st_stack Bq q m loc w0 :
  ron_get d q = None ->
  exists w1, resolve_roe d (mkR [] X st_stack None ret (ent d Bq [] q) m loc) w0 = (mkR [] X st_stack None ret q m loc, w1)
    /\ f_before w1 = f_before w0 ++ concat Bq /\ f_after w1 = f_after w0 /\ f_alt w1 = f_alt w0.
Proof.
  intros Hq. unfold resolve_roe; fields.
  destruct (end_ent d Bq [] q Hq) as [(G1&G2&G3&G4)|(p&G1&G2&G3&G4)]; rewrite G1.
  - rewrite G2. exists w0. subst Bq. cbn [concat]. rewrite app_nil_r. auto.
  - rewrite G2. exists (resolve_pend2 p w0). split; [reflexivity|].
    unfold resolve_pend2. cbn [w_before w_after f_before f_after f_alt]. rewrite G3, G4. cbn [concat]. rewrite app_nil_r. auto.
Qed.

Lemma step_else3 x d ret Bq q A m loc w0 :
  ron_get d m = None -> ron_get d q = None ->
  exists w, rstep3 FElse (F x) (St (S d) ret (ent d Bq [] q) (ent d [] A m) loc) w0
            = (St (S d) ret q (ent d (addc (bx_ x) []) (addc (sa_ x) A) m) loc, w)
    /\ f_before w = f_before w0 ++ concat Bq /\ f_after w = f_after w0 ++ be_ x /\ f_alt w = f_alt w0.
Proof.
  intros Hm Hq.
  destruct (resolve_roe_ent d ret (stack_of (S d)) Bq q (ent d [] A m) loc w0 Hq) as (w1 & ER & W1 & W2 & W3).
  assert (E : rstep3 FElse (F x) (St (S d) ret (ent d Bq [] q) (ent d [] A m) loc) w0
              = flag_stage FElse (F x) (St (S d) ret q (ent d [] A m) loc) w1).
  { unfold St, rstep3; fields. rewrite stack_of_S. rewrite <- (stack_of_S d), ER.
    unfold block_alt_case; fields. rewrite (proj2 (HNR x)). reflexivity. }
  rewrite E. unfold St.
  pose proof (flag_stage_reg FElse (F x) (mkR [] X (stack_of (S d)) None ret q (ent d [] A m) loc) w1 (or_introl eq_refl)) as R.
  destruct (flag_stage FElse (F x) (mkR [] X (stack_of (S d)) None ret q (ent d [] A m) loc) w1) as [st' w'] eqn:EF.
  cbn [r_entry r_exit r_stack r_del r_retain r_roe r_ron r_loc] in R.
  destruct R as (R1&R2&R3&R4&R5&R6&R7&R8&R9&R10&R11).
  exists w'. split; [|rewrite R9, R10, R11, W1, W2, W3; auto].
  f_equal. apply rstate_eta; fields; auto.
  rewrite R8, top_stack_of_S.
  rewrite regb_ent, rega_ent by exact Hm. reflexivity.
Qed.

Lemma step_end3 e d ret Bq q B A m loc w0 :
  ron_get d m = None -> ron_get d q = None ->
  exists w, rstep3 FEnd (F e) (St (S d) ret (ent d Bq [] q) (ent d B A m) loc) w0
            = (St d ret q m loc, w)
    /\ f_before w = f_before w0 ++ concat Bq ++ concat B /\ f_after w = f_after w0 ++ concat A /\ f_alt w = f_alt w0.
Proof.
  intros Hm Hq.
  destruct (resolve_roe_ent d ret (stack_of d) Bq q (ent d B A m) loc w0 Hq) as (w1 & ER & W1 & W2 & W3).
  assert (E : rstep3 FEnd (F e) (St (S d) ret (ent d Bq [] q) (ent d B A m) loc) w0
              = let '(st, w) :=
                  match ron_get d (ent d B A m) with
                  | Some p => (St d ret q (ron_remove d (ent d B A m)) loc, resolve_pend2 p w1)
                  | None => (St d ret q (ent d B A m) loc, w1)
                  end in flag_stage FEnd (F e) st w).
  { unfold St, rstep3; fields. rewrite stack_of_S. unfold set_stack; fields. rewrite ER. fields. reflexivity. }
  rewrite E. clear E.
  destruct (end_ent d B A m Hm) as [(G1&G2&G3&G4)|(p&G1&G2&G3&G4)]; rewrite G1.
  - rewrite G2.
    destruct (flag_stage_leaf FEnd (F e) (St d ret q m loc) w1 eq_refl ltac:(discriminate)) as (w'&E1&E2&E3&E4).
    exists w'. split; [exact E1|]. subst B A. cbn [concat]. rewrite !app_nil_r, E2, E3, E4. auto.
  - rewrite G2.
    destruct (flag_stage_leaf FEnd (F e) (St d ret q m loc) (resolve_pend2 p w1) eq_refl ltac:(discriminate)) as (w'&E1&E2&E3&E4).
    exists w'. split; [exact E1|]. rewrite E2, E3, E4.
    unfold resolve_pend2. cbn [w_before w_after f_before f_after f_alt]. rewrite G3, G4, W1, W2, W3, <- app_assoc. auto.
Qed.

Lemma step_plain3 i o d ret q m loc w0 :
  plain_op o = true -> (is_branching o = true -> sa_ i = []) ->
  exists w, rstep3 o (F i) (St d ret q m loc) w0 = (St d ret q m loc, w)
    /\ f_before w = f_before w0 /\ f_after w = f_after w0 /\ f_alt w = f_alt w0.
Proof.
  intros Hp Hs.
  assert (Hb : is_block_style o = false) by (destruct o; try discriminate Hp; reflexivity).
  assert (E : rstep3 o (F i) (St d ret q m loc) w0 = flag_stage o (F i) (St d ret q m loc) w0).
  { destruct o; try discriminate Hp; reflexivity. }
  rewrite E. apply flag_stage_leaf; assumption.
Qed.

(* ---------- one step of the pass + its emission, for an instruction in the middle of the body ---------- *)
Lemma mid_emit last idx op i st st' PB PA :
  idx < last -> r_entry st = [] -> r_exit st = X ->
  (forall w0, exists w, rstep3 op (F i) st w0 = (st', w)
     /\ f_before w = f_before w0 ++ PB /\ f_after w = f_after w0 ++ PA /\ f_alt w = f_alt w0) ->
  exists w, rstep last idx op (F i) st = (st', w)
    /\ emit1 (op, w) = bef i ++ (if is_exit_op op then X else []) ++ PB ++ [op] ++ aft i ++ PA.
Proof.
  intros Hlt He Hx H. rewrite rstep_mid by assumption. rewrite Hx.
  destruct (H (xw X op (F i))) as (w & E & W1 & W2 & W3).
  destruct (xw_fields X op (F i)) as (V1 & V2 & V3).
  exists w. split; [exact E|].
  rewrite emit1_noalt by (rewrite W3, V3; apply (proj1 (HNR i))).
  rewrite W1, W2, V1, V2. unfold TreeLower.bef, TreeLower.aft. rewrite <- !app_assoc. reflexivity.
Qed.

Lemma St_entry d ret q m loc : r_entry (St d ret q m loc) = [].
Proof. reflexivity. Qed.
Lemma St_exit d ret q m loc : r_exit (St d ret q m loc) = X.
Proof. reflexivity. Qed.

(* ---------- flattening of the tree lowering ---------- *)
Lemma flat_cons x t : flat (x :: t) = flat1 x ++ flat t.
Proof. reflexivity. Qed.

Lemma flat_lower_plain i o :
  flat (lower (IPlain i o)) = bef i ++ (if is_exit_op o then X else []) ++ [] ++ [o] ++ aft i ++ [].
Proof.
  cbn [TreeLower.lower]. rewrite !flat_app, !flat_ins, app_nil_r. cbn [app].
  destruct (is_exit_op o); rewrite ?flat_ins; reflexivity.
Qed.

Lemma flat_lower_block i e bt b :
  flat (lower (IBlock i e bt b))
  = bef i ++ [FBlock bt] ++ (aft i ++ be_ i) ++ flat (flat_map lower b) ++ (bef e ++ bx_ i) ++ [FEnd] ++ aft e ++ sa_ i.
Proof.
  cbn [TreeLower.lower]. rewrite !flat_app, !flat_ins, flat_cons. cbn [flat1]. fold (flat (ins (aft i ++ be_ i) ++ flat_map lower b ++ ins (bef e ++ bx_ i))).
  rewrite !flat_app, !flat_ins. cbn [flat flat_map]. cbn [app]. rewrite <- !app_assoc. reflexivity.
Qed.

Lemma flat_lower_loop i e bt b :
  flat (lower (ILoop i e bt b))
  = bef i ++ [FLoop bt] ++ (aft i ++ be_ i) ++ flat (flat_map lower b) ++ (bef e ++ bx_ i) ++ [FEnd] ++ aft e ++ sa_ i.
Proof.
  cbn [TreeLower.lower]. rewrite !flat_app, !flat_ins, flat_cons. cbn [flat1]. fold (flat (ins (aft i ++ be_ i) ++ flat_map lower b ++ ins (bef e ++ bx_ i))).
  rewrite !flat_app, !flat_ins. cbn [flat flat_map]. cbn [app]. rewrite <- !app_assoc. reflexivity.
Qed.

Lemma flat_lower_if_else i x e bt t els :
  flat (lower (IIf i (Some x) e bt t els))
  = bef i ++ [FIf bt] ++ (aft i ++ be_ i) ++ flat (flat_map lower t) ++ (bef x ++ bx_ i) ++ [FElse]
    ++ (aft x ++ be_ x) ++ flat (flat_map lower els) ++ (bef e ++ bx_ x) ++ [FEnd] ++ aft e ++ sa_ i ++ sa_ x.
Proof.
  cbn [TreeLower.lower else_sa]. rewrite !flat_app, !flat_ins, flat_cons. cbn [flat1].
  fold (flat (ins (aft i ++ be_ i) ++ flat_map lower t ++ ins (bef x ++ bx_ i))).
  fold (flat (ins (aft x ++ be_ x) ++ flat_map lower els ++ ins (bef e ++ bx_ x))).
  rewrite !flat_app, !flat_ins. cbn [flat flat_map]. cbn [app]. repeat (rewrite <- !app_assoc; cbn [app]). reflexivity.
Qed.

Lemma flat_lower_if_noelse i e bt t els :
  flat (lower (IIf i None e bt t els))
  = bef i ++ [FIf bt] ++ (aft i ++ be_ i) ++ flat (flat_map lower t) ++ (bef e ++ bx_ i) ++ [FEnd] ++ aft e ++ sa_ i.
Proof.
  cbn [TreeLower.lower else_sa]. rewrite !flat_app, !flat_ins, flat_cons. cbn [flat1].
  fold (flat (ins (aft i ++ be_ i) ++ flat_map lower t ++ ins (bef e ++ bx_ i))).
  rewrite !flat_app, !flat_ins. cbn [flat flat_map]. cbn [app]. rewrite <- !app_assoc. cbn [app]. rewrite !app_nil_r. reflexivity.
Qed.

(* ---------- the main lemma: a subtree leaves the state of the pass unchanged and emits its lowering ---------- *)
Definition P1 (x : instr) : Prop := forall last idx d ret q m loc,
  fresh d m -> fresh d q -> okI x = true -> idx + length (flatF1 F x) <= last ->
  exists out, rloop last idx (flatF1 F x) (St d ret q m loc) = (out, St d ret q m loc)
              /\ emit_mid out = flat (lower x).
Definition PL (t : list instr) : Prop := forall last idx d ret q m loc,
  fresh d m -> fresh d q -> forallb okI t = true -> idx + length (flatF F t) <= last ->
  exists out, rloop last idx (flatF F t) (St d ret q m loc) = (out, St d ret q m loc)
              /\ emit_mid out = flat (flat_map lower t).

Lemma PL_of_Forall t : Forall P1 t -> PL t.
Proof.
  induction 1 as [|x t Hx Ht IH]; intros last idx d ret q m loc Hf Hq Hok Hlen.
  - exists []. split; reflexivity.
  - cbn [forallb] in Hok. apply andb_prop in Hok as [Hok1 Hok2].
    change (flatF F (x :: t)) with (flatF1 F x ++ flatF F t) in *. rewrite app_length in Hlen.
    change (flat_map lower (x :: t)) with (lower x ++ flat_map lower t).
    destruct (Hx last idx d ret q m loc Hf Hq Hok1 ltac:(lia)) as (o1 & E1 & M1).
    destruct (IH last (idx + length (flatF1 F x)) d ret q m loc Hf Hq Hok2 ltac:(lia)) as (o2 & E2 & M2).
    exists (o1 ++ o2). split.
    + eapply rloop_app2; eassumption.
    + rewrite emit_mid_app, M1, M2, flat_app. reflexivity.
Qed.

Lemma addc_nil c : concat (addc c []) = c.
Proof. rewrite concat_addc. reflexivity. Qed.

Lemma rloop_one last idx op fl st st1 w :
  rstep last idx op fl st = (st1, w) -> rloop last idx [(op, fl)] st = ([(op, w)], st1).
Proof. intros H. cbn [rloop]. rewrite H. reflexivity. Qed.

Lemma emit_mid_one x : emit_mid [x] = emit1 x.
Proof. cbn [emit_mid flat_map]. apply app_nil_r. Qed.

Lemma P1_all : forall x, P1 x.
Proof.
  induction x as [i o|i e bt b IHb|i e bt b IHb|i el e bt t els IHt IHe] using instr_ind2;
    intros last idx d ret q m loc Hf Hq Hok Hlen.
  - (* plain *)
    cbn [okI] in Hok. apply andb_prop in Hok as [Hp Hs].
    assert (Hs' : is_branching o = true -> sa_ i = []).
    { intros Hb. rewrite Hb in Hs. cbn [negb orb] in Hs. apply is_nil_true. exact Hs. }
    cbn [flatF1 length] in *.
    destruct (mid_emit last idx o i (St d ret q m loc) (St d ret q m loc) [] [] ltac:(lia) eq_refl eq_refl) as (w & E & M).
    { intros w0. destruct (step_plain3 i o d ret q m loc w0 Hp Hs') as (w & E & W1 & W2 & W3).
      exists w. rewrite !app_nil_r. auto. }
    exists [(o, w)]. split; [apply rloop_one; exact E|].
    rewrite emit_mid_one, M, flat_lower_plain. reflexivity.
  - (* block *)
    cbn [okI] in Hok. cbn [flatF1] in *. cbn [length] in Hlen. rewrite app_length in Hlen. cbn [length] in Hlen.
    pose proof (Hf d (le_n d)) as Hm. pose proof (Hq d (le_n d)) as Hqd.
    destruct (mid_emit last idx (FBlock bt) i (St d ret q m loc)
                (St (S d) ret q (ent d (addc (bx_ i) []) (addc (sa_ i) []) m) loc) [] (be_ i) ltac:(lia) eq_refl eq_refl) as (w1 & E1 & M1).
    { intros w0. destruct (step_open3 (FBlock bt) i d ret q m loc w0 ltac:(eauto) Hm) as (w & E & W1 & W2 & W3).
      exists w. rewrite !app_nil_r. auto. }
    destruct (PL_of_Forall b IHb last (S idx) (S d) ret q (ent d (addc (bx_ i) []) (addc (sa_ i) []) m) loc
                (fresh_ent _ _ _ _ Hf) (fresh_ent d [] [] q Hq) Hok ltac:(unfold flatF; lia)) as (o2 & E2 & M2).
    destruct (mid_emit last (S idx + length (flatF F b)) FEnd e (St (S d) ret q (ent d (addc (bx_ i) []) (addc (sa_ i) []) m) loc)
                (St d ret q m loc) (concat [] ++ concat (addc (bx_ i) [])) (concat (addc (sa_ i) [])) ltac:(unfold flatF; lia) eq_refl eq_refl) as (w3 & E3 & M3).
    { intros w0. apply (step_end3 e d ret [] q); assumption. }
    exists ((FBlock bt, w1) :: o2 ++ [(FEnd, w3)]). split.
    + eapply rloop_cons; [exact E1|]. eapply rloop_app2; [exact E2|]. apply rloop_one. exact E3.
    + rewrite emit_mid_cons, emit_mid_app, emit_mid_one, M1, M2, M3, flat_lower_block, !addc_nil.
      cbn [is_exit_op concat]. rewrite <- !app_assoc. cbn [app]. reflexivity.
  - (* loop *)
    cbn [okI] in Hok. cbn [flatF1] in *. cbn [length] in Hlen. rewrite app_length in Hlen. cbn [length] in Hlen.
    pose proof (Hf d (le_n d)) as Hm. pose proof (Hq d (le_n d)) as Hqd.
    destruct (mid_emit last idx (FLoop bt) i (St d ret q m loc)
                (St (S d) ret q (ent d (addc (bx_ i) []) (addc (sa_ i) []) m) loc) [] (be_ i) ltac:(lia) eq_refl eq_refl) as (w1 & E1 & M1).
    { intros w0. destruct (step_open3 (FLoop bt) i d ret q m loc w0 ltac:(eauto) Hm) as (w & E & W1 & W2 & W3).
      exists w. rewrite !app_nil_r. auto. }
    destruct (PL_of_Forall b IHb last (S idx) (S d) ret q (ent d (addc (bx_ i) []) (addc (sa_ i) []) m) loc
                (fresh_ent _ _ _ _ Hf) (fresh_ent d [] [] q Hq) Hok ltac:(unfold flatF; lia)) as (o2 & E2 & M2).
    destruct (mid_emit last (S idx + length (flatF F b)) FEnd e (St (S d) ret q (ent d (addc (bx_ i) []) (addc (sa_ i) []) m) loc)
                (St d ret q m loc) (concat [] ++ concat (addc (bx_ i) [])) (concat (addc (sa_ i) [])) ltac:(unfold flatF; lia) eq_refl eq_refl) as (w3 & E3 & M3).
    { intros w0. apply (step_end3 e d ret [] q); assumption. }
    exists ((FLoop bt, w1) :: o2 ++ [(FEnd, w3)]). split.
    + eapply rloop_cons; [exact E1|]. eapply rloop_app2; [exact E2|]. apply rloop_one. exact E3.
    + rewrite emit_mid_cons, emit_mid_app, emit_mid_one, M1, M2, M3, flat_lower_loop, !addc_nil.
      cbn [is_exit_op concat]. rewrite <- !app_assoc. cbn [app]. reflexivity.
  - (* if: the block-exit code waits in r_roe under the if's own id, whatever the then-arm contains *)
    cbn [okI] in Hok. apply andb_prop in Hok as [Hokt Hoke].
    pose proof (Hf d (le_n d)) as Hm. pose proof (Hq d (le_n d)) as Hqd.
    set (qi := ent d (addc (bx_ i) []) [] q).
    assert (Fqi : fresh (S d) qi) by (apply fresh_ent; exact Hq).
    destruct (mid_emit last idx (FIf bt) i (St d ret q m loc)
                (St (S d) ret qi (ent d [] (addc (sa_ i) []) m) loc) [] (be_ i)) as (w1 & E1 & M1);
      [cbn [flatF1 length] in Hlen; lia|reflexivity|reflexivity| |].
    { intros w0. destruct (step_if3 bt i d ret q m loc w0 Hm Hqd) as (w & E & W1 & W2 & W3).
      exists w. rewrite !app_nil_r. auto. }
    destruct el as [x|].
    + (* with else *)
      cbn [flatF1] in *. cbn [length] in Hlen. rewrite !app_length in Hlen. cbn [length] in Hlen. rewrite ?app_length in Hlen. cbn [length] in Hlen.
      destruct (PL_of_Forall t IHt last (S idx) (S d) ret qi (ent d [] (addc (sa_ i) []) m) loc
                  (fresh_ent _ _ _ _ Hf) Fqi Hokt ltac:(unfold flatF; lia)) as (o2 & E2 & M2).
      destruct (mid_emit last (S idx + length (flatF F t)) FElse x (St (S d) ret qi (ent d [] (addc (sa_ i) []) m) loc)
                  (St (S d) ret q (ent d (addc (bx_ x) []) (addc (sa_ x) (addc (sa_ i) [])) m) loc)
                  (concat (addc (bx_ i) [])) (be_ x) ltac:(unfold flatF; lia) eq_refl eq_refl) as (w3 & E3 & M3).
      { intros w0. apply step_else3; assumption. }
      destruct (PL_of_Forall els IHe last (S (S idx + length (flatF F t))) (S d) ret q
                  (ent d (addc (bx_ x) []) (addc (sa_ x) (addc (sa_ i) [])) m) loc
                  (fresh_ent _ _ _ _ Hf) (fresh_ent d [] [] q Hq) Hoke ltac:(unfold flatF; lia)) as (o4 & E4 & M4).
      destruct (mid_emit last (S (S idx + length (flatF F t)) + length (flatF F els)) FEnd e
                  (St (S d) ret q (ent d (addc (bx_ x) []) (addc (sa_ x) (addc (sa_ i) [])) m) loc)
                  (St d ret q m loc) (concat [] ++ concat (addc (bx_ x) [])) (concat (addc (sa_ x) (addc (sa_ i) [])))
                  ltac:(unfold flatF; lia) eq_refl eq_refl) as (w5 & E5 & M5).
      { intros w0. apply (step_end3 e d ret [] q); assumption. }
      exists ((FIf bt, w1) :: o2 ++ ((FElse, w3) :: o4) ++ [(FEnd, w5)]). split.
      * eapply rloop_cons; [exact E1|]. eapply rloop_app2; [exact E2|].
        eapply rloop_app2; [eapply rloop_cons; [exact E3|exact E4]|].
        apply rloop_one. cbn [length].
        match goal with |- rstep _ ?n _ _ _ = _ =>
          replace n with (S (S idx + length (flatF F t)) + length (flatF F els)) by (unfold flatF; lia) end.
        exact E5.
      * rewrite emit_mid_cons, !emit_mid_app, emit_mid_cons, emit_mid_one, M1, M2, M3, M4, M5, flat_lower_if_else.
        rewrite !concat_addc. cbn [is_exit_op concat]. repeat (rewrite <- !app_assoc; cbn [app]). reflexivity.
    + (* without else *)
      cbn [flatF1] in *. cbn [length] in Hlen. rewrite !app_length in Hlen. cbn [length] in Hlen.
      destruct (PL_of_Forall t IHt last (S idx) (S d) ret qi (ent d [] (addc (sa_ i) []) m) loc
                  (fresh_ent _ _ _ _ Hf) Fqi Hokt ltac:(unfold flatF; lia)) as (o2 & E2 & M2).
      destruct (mid_emit last (S idx + length (flatF F t)) FEnd e (St (S d) ret qi (ent d [] (addc (sa_ i) []) m) loc)
                  (St d ret q m loc) (concat (addc (bx_ i) []) ++ concat []) (concat (addc (sa_ i) []))
                  ltac:(unfold flatF; lia) eq_refl eq_refl) as (w3 & E3 & M3).
      { intros w0. apply step_end3; assumption. }
      exists ((FIf bt, w1) :: o2 ++ [(FEnd, w3)]). split.
      * eapply rloop_cons; [exact E1|]. eapply rloop_app2; [exact E2|]. apply rloop_one. exact E3.
      * rewrite emit_mid_cons, !emit_mid_app, emit_mid_one, M1, M2, M3, flat_lower_if_noelse.
        rewrite !concat_addc. cbn [is_exit_op concat]. repeat (rewrite <- !app_assoc; cbn [app]). reflexivity.
Qed.

End Flatten.

Arguments St X d ret q m loc : simpl never.

(* ---------- the last instruction: the function's final end ---------- *)
Lemma emit_last n op w : f_alt w = None -> emit_from n n [(op, w)] = f_before w ++ [op].
Proof.
  intros Ha. cbn [emit_from]. rewrite Nat.leb_refl, Ha, app_nil_r.
  destruct (has_instr w) eqn:Hh; cbn [negb]; [rewrite app_nil_r; reflexivity|].
  apply has_instr_false in Hh. destruct Hh as (Hb & _). rewrite Hb. reflexivity.
Qed.

Lemma step_final (F : nat -> flags) (X : list fop) (HNR : forall i, f_alt (F i) = None /\ f_balt (F i) = None) last fe loc :
  exists w, rstep last last FEnd (F fe) (mkR [] X [0] None true [] [] loc) = (mkR [] [] [] None true [] [] loc, w)
    /\ f_before w = f_before (F fe) ++ (if is_nil X then [] else [FEnd] ++ X) /\ f_alt w = None.
Proof.
  unfold rstep. cbn [r_entry r_exit is_nil negb andb is_exit_op]. rewrite Nat.eqb_refl.
  destruct X as [|x0 X0]; cbn [is_nil].
  - destruct (step_end3 F [] fe 0 true [] [] [] [] [] loc (F fe) eq_refl eq_refl) as (w & E & W1 & W2 & W3).
    exists w. split; [exact E|]. rewrite W1, W3. cbn [concat]. rewrite !app_nil_r. split; [reflexivity|apply HNR].
  - destruct (step_end3 F [] fe 0 true [] [] [] [] [] loc (w_before ([FEnd] ++ x0 :: X0) (F fe)) eq_refl eq_refl) as (w & E & W1 & W2 & W3).
    exists w. split; [exact E|]. rewrite W1, W3. cbn [concat w_before f_before f_alt]. rewrite !app_nil_r. split; [reflexivity|apply HNR].
Qed.

(* the whole body, entry code already consumed *)
Lemma body_run (F : nat -> flags) (X : list fop) (HNR : forall i, f_alt (F i) = None /\ f_balt (F i) = None) t fe loc :
  forallb (okI F) t = true ->
  exists out w st',
    rloop (length (flatF F t ++ [(FEnd, F fe)]) - 1) 0 (flatF F t ++ [(FEnd, F fe)]) (mkR [] X [0] None true [] [] loc)
    = (out ++ [(FEnd, w)], st')
    /\ r_loc st' = loc /\ length out = length (flatF F t)
    /\ emit_mid out = flat (flat_map (lower F X) t)
    /\ f_before w = f_before (F fe) ++ (if is_nil X then [] else [FEnd] ++ X) /\ f_alt w = None.
Proof.
  intros Hok. rewrite app_length. cbn [length]. replace (length (flatF F t) + 1 - 1) with (length (flatF F t)) by lia.
  destruct (PL_of_Forall F X t (proj2 (Forall_forall _ _) (fun x _ => P1_all F X HNR x))
              (length (flatF F t)) 0 1 true [] [] loc ltac:(intros k _; reflexivity) ltac:(intros k _; reflexivity) Hok ltac:(lia))
    as (out & E & M).
  destruct (step_final F X HNR (length (flatF F t)) fe loc) as (w & E2 & W1 & W3).
  exists out, w, (mkR [] [] [] None true [] [] loc). split; [|split; [reflexivity|split; [|auto]]].
  - eapply rloop_app2; [exact E|]. apply rloop_one. exact E2.
  - pose proof (rloop_length (length (flatF F t)) (flatF F t) 0 (St X 1 true [] [] loc)) as L. rewrite E in L. exact L.
Qed.

Lemma emit_snoc out op w : f_alt w = None -> emit (out ++ [(op, w)]) = emit_mid out ++ f_before w ++ [op].
Proof.
  intros Ha. unfold emit. rewrite app_length. cbn [length].
  replace (length out + 1 - 1) with (length out) by lia.
  rewrite emit_from_app, emit_from_mid by lia. cbn [Nat.add]. rewrite emit_last by exact Ha. reflexivity.
Qed.

(* ------------------------------------------------------------------------------------------ *)
(* The fragment *)
Definition nonrepl (F : nat -> flags) : Prop := forall i, f_alt (F i) = None /\ f_balt (F i) = None.
(* [okI F x]: plain nodes carry non-structural operators (well-formedness), no semantic-after on a branch
   instruction *)
Definition frag (F : nat -> flags) (t : list instr) : Prop := nonrepl F /\ forallb (okI F) t = true.

(* ---------- resolve_flatten, function entry / exit empty ---------- *)
Theorem resolve_flatten (F : nat -> flags) t fe ty loc :
  frag F t ->
  emit (fst (resolve true [] [] ty (flatF F t ++ [(FEnd, F fe)]) loc))
  = flat (flat_map (lower F []) t) ++ f_before (F fe) ++ [FEnd]
  /\ snd (resolve true [] [] ty (flatF F t ++ [(FEnd, F fe)]) loc) = loc.
Proof.
  intros [HNR Hok]. unfold resolve. cbn [negb is_nil].
  destruct (body_run F [] HNR t fe loc Hok) as (out & w & st' & E & L & _ & M & W1 & W3).
  rewrite E. cbn [fst snd]. split; [|exact L].
  rewrite emit_snoc by exact W3. rewrite M, W1. cbn [is_nil]. rewrite app_nil_r. reflexivity.
Qed.

(* ---------- the fragment is inside the domain of the simulation theorem ---------- *)
Lemma okI_nb F x : okI F x = true -> nb F x.
Proof.
  induction x as [i o|i e bt b IHb|i e bt b IHb|i el e bt t els IHt IHe] using instr_ind2; intros Hok.
  - cbn [okI] in Hok. apply andb_prop in Hok as [_ Hs].
    destruct o; cbn [nb]; try exact I; cbn [is_branching negb orb] in Hs; apply is_nil_true; exact Hs.
  - cbn [okI] in Hok. cbn [nb]. induction IHb as [|y b Hy _ IH]; [exact I|].
    cbn [forallb] in Hok. apply andb_prop in Hok as [H1 H2]. cbn [fold_right]. split; auto.
  - cbn [okI] in Hok. cbn [nb]. induction IHb as [|y b Hy _ IH]; [exact I|].
    cbn [forallb] in Hok. apply andb_prop in Hok as [H1 H2]. cbn [fold_right]. split; auto.
  - cbn [okI] in Hok. apply andb_prop in Hok as [Hokt Hoke]. cbn [nb]. split.
    + clear Hoke IHe. induction IHt as [|y b Hy _ IH]; [exact I|].
      cbn [forallb] in Hokt. apply andb_prop in Hokt as [H1 H2]. cbn [fold_right]. split; auto.
    + clear Hokt IHt. induction IHe as [|y b Hy _ IH]; [exact I|].
      cbn [forallb] in Hoke. apply andb_prop in Hoke as [H1 H2]. cbn [fold_right]. split; auto.
Qed.
Lemma okI_nbl F t : forallb (okI F) t = true -> nbl F t.
Proof.
  induction t as [|x t IH]; intros H; [exact I|].
  cbn [forallb] in H. apply andb_prop in H as [H1 H2]. split; [apply okI_nb; exact H1|apply IH; exact H2].
Qed.

(* ---------- corollary: what the mirror model emits is the flattening of a tree on which the plain interpreter
   reproduces every result of the specification interpreter on the original tree ---------- *)
Corollary resolve_flatten_sim ftypes (F : nat -> flags) t fe ty loc :
  frag F t ->
  (forall i, pcode (bef F i) /\ pcode (aft F i) /\ pcode (be_ F i) /\ pcode (bx_ F i) /\ pcode (sa_ F i)) ->
  exists low : list instr,
    emit (fst (resolve true [] [] ty (flatF F t ++ [(FEnd, F fe)]) loc)) = flat low ++ f_before (F fe) ++ [FEnd]
    /\ forall fuel c ob,
         exec ftypes F [] true fuel false t c = ob -> ob <> OFuel ->
         exists fuel', exec ftypes (fun _ => no_flags) [] false fuel' false low c = ob.
Proof.
  intros Hfr Hcode. exists (flat_map (lower F []) t). split.
  - apply (resolve_flatten F t fe ty loc Hfr).
  - intros fuel c ob H Hn.
    apply (sim_closed ftypes F [] eq_refl Hcode fuel t c ob H Hn). apply okI_nbl. apply Hfr.
Qed.

(* ------------------------------------------------------------------------------------------ *)
(* Connection with the flat body: for a body that parses, the flagged flat list the pass runs on is the
   flatF-image of the parsed tree (node positions = flat positions) *)
Definition flagged (F : nat -> flags) (idx : nat) (ops : list fop) : list (fop * flags) :=
  map (fun x => (snd x, F (fst x))) (index_from idx ops).
Definition tflag (F : nat -> flags) (tm : term) : list (fop * flags) :=
  match tm with TEnd e => [(FEnd, F e)] | TElse e => [(FElse, F e)] | TEof => [] end.

Fixpoint plainok (x : instr) : bool :=
  match x with
  | IPlain _ o => plain_op o
  | IBlock _ _ _ b | ILoop _ _ _ b => forallb plainok b
  | IIf _ _ _ _ t e => forallb plainok t && forallb plainok e
  end.

Lemma flagged_cons F idx o ops : flagged F idx (o :: ops) = (o, F idx) :: flagged F (S idx) ops.
Proof. reflexivity. Qed.

Lemma flatF_cons F x t : flatF F (x :: t) = flatF1 F x ++ flatF F t.
Proof. reflexivity. Qed.

Lemma parse_seq_flat F : forall fuel idx ops t tm idx' rest,
  parse_seq fuel idx ops = Some (t, tm, idx', rest) ->
  flagged F idx ops = flatF F t ++ tflag F tm ++ flagged F idx' rest /\ forallb plainok t = true.
Proof.
  induction fuel as [|fuel IH]; intros idx ops t tm idx' rest H; [discriminate H|].
  cbn [parse_seq] in H. destruct ops as [|o ops]; [inversion H; subst; split; reflexivity|].
  destruct o;
    try (destruct (parse_seq fuel (S idx) ops) as [[[[tl tm1] idx1] rest1]|] eqn:E1; [|discriminate H];
         inversion H; subst; destruct (IH _ _ _ _ _ _ E1) as [G1 P1];
         rewrite flagged_cons, G1; split; [reflexivity|cbn [forallb plainok]; rewrite P1; reflexivity]).
  - (* block *)
    destruct (parse_seq fuel (S idx) ops) as [[[[body tm1] idx1] rest1]|] eqn:E1; [|discriminate H].
    destruct tm1 as [e|e|]; try discriminate H.
    destruct (parse_seq fuel idx1 rest1) as [[[[tl tm2] idx2] rest2]|] eqn:E2; [|discriminate H].
    inversion H; subst. destruct (IH _ _ _ _ _ _ E1) as [G1 P1]. destruct (IH _ _ _ _ _ _ E2) as [G2 P2].
    rewrite flagged_cons, G1, G2, flatF_cons. cbn [flatF1 tflag]. split.
    + cbn [app]. rewrite <- !app_assoc. reflexivity.
    + cbn [forallb plainok]. rewrite P1, P2. reflexivity.
  - (* loop *)
    destruct (parse_seq fuel (S idx) ops) as [[[[body tm1] idx1] rest1]|] eqn:E1; [|discriminate H].
    destruct tm1 as [e|e|]; try discriminate H.
    destruct (parse_seq fuel idx1 rest1) as [[[[tl tm2] idx2] rest2]|] eqn:E2; [|discriminate H].
    inversion H; subst. destruct (IH _ _ _ _ _ _ E1) as [G1 P1]. destruct (IH _ _ _ _ _ _ E2) as [G2 P2].
    rewrite flagged_cons, G1, G2, flatF_cons. cbn [flatF1 tflag]. split.
    + cbn [app]. rewrite <- !app_assoc. reflexivity.
    + cbn [forallb plainok]. rewrite P1, P2. reflexivity.
  - (* if *)
    destruct (parse_seq fuel (S idx) ops) as [[[[thn tm1] idx1] rest1]|] eqn:E1; [|discriminate H].
    destruct tm1 as [e|el|]; try discriminate H.
    + destruct (parse_seq fuel idx1 rest1) as [[[[tl tm2] idx2] rest2]|] eqn:E2; [|discriminate H].
      inversion H; subst. destruct (IH _ _ _ _ _ _ E1) as [G1 P1]. destruct (IH _ _ _ _ _ _ E2) as [G2 P2].
      rewrite flagged_cons, G1, G2, flatF_cons. cbn [flatF1 tflag]. split.
      * cbn [app]. rewrite <- !app_assoc. reflexivity.
      * cbn [forallb plainok]. rewrite P1, P2. reflexivity.
    + destruct (parse_seq fuel idx1 rest1) as [[[[els tm2] idx2] rest2]|] eqn:E2; [|discriminate H].
      destruct tm2 as [e|e|]; try discriminate H.
      destruct (parse_seq fuel idx2 rest2) as [[[[tl tm3] idx3] rest3]|] eqn:E3; [|discriminate H].
      inversion H; subst. destruct (IH _ _ _ _ _ _ E1) as [G1 P1]. destruct (IH _ _ _ _ _ _ E2) as [G2 P2].
      destruct (IH _ _ _ _ _ _ E3) as [G3 P3].
      rewrite flagged_cons, G1, G2, G3, flatF_cons. cbn [flatF1 tflag]. split.
      * cbn [app]. repeat (rewrite <- !app_assoc; cbn [app]). reflexivity.
      * cbn [forallb plainok]. rewrite P1, P2, P3. reflexivity.
  - (* else *) inversion H; subst. rewrite flagged_cons. split; reflexivity.
  - (* end *) inversion H; subst. rewrite flagged_cons. split; reflexivity.
Qed.

Theorem parse_body_flat F ops t fe :
  parse_body ops = Some (t, fe) ->
  flatF F t ++ [(FEnd, F fe)] = flagged F 0 ops /\ forallb plainok t = true.
Proof.
  unfold parse_body. intros H.
  destruct (parse_seq (S (length ops)) 0 ops) as [[[[body tm] idx'] rest]|] eqn:E; [|discriminate H].
  destruct tm as [e|e|]; try discriminate H. destruct rest; [|discriminate H]. inversion H; subst.
  destruct (parse_seq_flat F _ _ _ _ _ _ _ E) as [G P]. rewrite G. cbn [tflag flagged index_from map]. split; [reflexivity|exact P].
Qed.

(* ------------------------------------------------------------------------------------------ *)
(* The theorem for the model of one harness case (CheckLow.model) *)
Lemma apply_plan_ma a a' : forall plan body sp, apply_plan a plan body sp = apply_plan a' plan body sp.
Proof.
  induction plan as [|[[idx m] xs] plan IH]; intros body sp; [reflexivity|].
  cbn [apply_plan]. destruct (nth_error body idx) as [[op f]|]; [|reflexivity].
  destruct (match xs, m with
            | [], MAlternate => Some (mkFlags (f_before f) (f_after f) (Some []) (f_sa f) (f_be f) (f_bx f) (f_balt f), false)
            | [], MBlockAlt => Some (mkFlags (f_before f) (f_after f) (f_alt f) (f_sa f) (f_be f) (f_bx f) (Some []), true)
            | _, _ => match add_all op m xs f false with Some (f', s) => Some (f', s) | None => None end
            end) as [[f' s]|]; [|reflexivity].
  destruct (upd_nth idx (fun _ => Some (op, f')) body); [apply IH|reflexivity].
Qed.

Lemma upd_nth_fst {A B} (d : A) : forall idx (body body' : list (A * B)) op f',
  nth_error (map fst body) idx = Some op ->
  upd_nth idx (fun _ => Some (op, f')) body = Some body' -> map fst body' = map fst body.
Proof.
  induction idx as [|idx IH]; intros [|[o g] body] body' op f' Hn H; try discriminate H.
  - cbn in H, Hn. inversion H; inversion Hn; subst. reflexivity.
  - cbn [upd_nth] in H. cbn [map nth_error fst] in Hn.
    destruct (upd_nth idx (fun _ => Some (op, f')) body) as [t'|] eqn:E; [|discriminate H].
    inversion H; subst. cbn [map fst]. f_equal. eapply IH; eassumption.
Qed.

Lemma apply_plan_ops a : forall plan body sp fb sp',
  apply_plan a plan body sp = Some (fb, sp') -> map fst fb = map fst body.
Proof.
  induction plan as [|[[idx m] xs] plan IH]; intros body sp fb sp' H.
  - inversion H; subst. reflexivity.
  - cbn [apply_plan] in H. destruct (nth_error body idx) as [[op f]|] eqn:En; [|discriminate H].
    destruct (match xs, m with
              | [], MAlternate => Some (mkFlags (f_before f) (f_after f) (Some []) (f_sa f) (f_be f) (f_bx f) (f_balt f), false)
              | [], MBlockAlt => Some (mkFlags (f_before f) (f_after f) (f_alt f) (f_sa f) (f_be f) (f_bx f) (Some []), true)
              | _, _ => match add_all op m xs f false with Some (f', s) => Some (f', s) | None => None end
              end) as [[f' s]|]; [|discriminate H].
    destruct (upd_nth idx (fun _ => Some (op, f')) body) as [body'|] eqn:Eu; [|discriminate H].
    rewrite (IH _ _ _ _ H). eapply (upd_nth_fst FEnd); [|exact Eu].
    rewrite nth_error_map, En. reflexivity.
Qed.

(* when no special mode was recorded, no special list is populated *)
Lemma add_all_nospecial op m : forall xs f sp f',
  add_all op m xs f sp = Some (f', false) -> sp = false /\ (Idem.no_special f = true -> Idem.no_special f' = true).
Proof.
  induction xs as [|x xs IH]; intros f sp f' H.
  - inversion H; subst. auto.
  - cbn [add_all] in H. destruct (add_instr op m x f) as [[f1 s1]|] eqn:E; [|discriminate H].
    destruct (IH _ _ _ H) as [Hs Hn]. apply orb_false_elim in Hs as [-> ->]. split; [reflexivity|].
    intros Hf. apply Hn. clear - E Hf.
    unfold add_instr in E. destruct m.
    1-3: inversion E; subst; exact Hf.
    + destruct (is_block_style op || is_branching op); inversion E.
    + destruct (is_block_style op); inversion E.
    + destruct (is_block_style op); inversion E.
    + destruct (is_block_style op); inversion E.
Qed.

Lemma upd_nth_forallb {A} (P : A -> bool) : forall idx (body body' : list A) y,
  upd_nth idx (fun _ => Some y) body = Some body' -> P y = true -> forallb P body = true -> forallb P body' = true.
Proof.
  induction idx as [|idx IH]; intros [|x body] body' y H Hy Hb; try discriminate H.
  - cbn in H. inversion H; subst. cbn [forallb] in *. apply andb_prop in Hb as [_ Hb]. rewrite Hy, Hb. reflexivity.
  - cbn [upd_nth] in H. destruct (upd_nth idx (fun _ => Some y) body) as [t'|] eqn:E; [|discriminate H].
    inversion H; subst. cbn [forallb] in *. apply andb_prop in Hb as [Hx Hb]. rewrite Hx. cbn [andb]. eapply IH; eassumption.
Qed.

Lemma apply_plan_nospecial a : forall plan body sp fb,
  apply_plan a plan body sp = Some (fb, false) ->
  forallb (fun x => Idem.no_special (snd x)) body = true -> forallb (fun x => Idem.no_special (snd x)) fb = true.
Proof.
  induction plan as [|[[idx m] xs] plan IH]; intros body sp fb H Hb.
  - inversion H; subst. exact Hb.
  - cbn [apply_plan] in H. destruct (nth_error body idx) as [[op f]|] eqn:En; [|discriminate H].
    assert (Hf : Idem.no_special f = true).
    { apply nth_error_In in En. rewrite forallb_forall in Hb. apply (Hb _ En). }
    destruct (match xs, m with
              | [], MAlternate => Some (mkFlags (f_before f) (f_after f) (Some []) (f_sa f) (f_be f) (f_bx f) (f_balt f), false)
              | [], MBlockAlt => Some (mkFlags (f_before f) (f_after f) (f_alt f) (f_sa f) (f_be f) (f_bx f) (Some []), true)
              | _, _ => match add_all op m xs f false with Some (f', s) => Some (f', s) | None => None end
              end) as [[f' s]|] eqn:Em; [|discriminate H].
    destruct (upd_nth idx (fun _ => Some (op, f')) body) as [body'|] eqn:Eu; [|discriminate H].
    assert (Hsp : sp || s = false).
    { clear - H. revert H. generalize (sp || s). generalize body'. clear.
      induction plan as [|[[idx m] xs] plan IH]; intros body b H; [inversion H; reflexivity|].
      cbn [apply_plan] in H. destruct (nth_error body idx) as [[op f]|]; [|discriminate H].
      destruct (match xs, m with
                | [], MAlternate => Some (mkFlags (f_before f) (f_after f) (Some []) (f_sa f) (f_be f) (f_bx f) (f_balt f), false)
                | [], MBlockAlt => Some (mkFlags (f_before f) (f_after f) (f_alt f) (f_sa f) (f_be f) (f_bx f) (Some []), true)
                | _, _ => match add_all op m xs f false with Some (f', s) => Some (f', s) | None => None end
                end) as [[f' s]|]; [|discriminate H].
      destruct (upd_nth idx (fun _ => Some (op, f')) body) as [body'|]; [|discriminate H].
      apply IH in H. apply orb_false_elim in H. tauto. }
    apply orb_false_elim in Hsp as [_ ->].
    apply (IH _ _ _ H). eapply upd_nth_forallb; [exact Eu| |exact Hb]. cbn [snd].
    destruct xs as [|x xs].
    + destruct m; try (inversion Em; subst; exact Hf).
    + assert (Em' : add_all op m (x :: xs) f false = Some (f', false)).
      { destruct m; destruct (add_all op _ (x :: xs) f false) as [[? ?]|]; inversion Em; reflexivity. }
      apply add_all_nospecial in Em'. apply Em'. exact Hf.
Qed.

(* a flagged body is the [flagged]-image of its own operators under its own flags function *)
Lemma flagged_self (fb : list (fop * flags)) : fb = flagged (flags_fn fb) 0 (map fst fb).
Proof.
  assert (G : forall l pre, l = flagged (flags_fn (pre ++ l)) (length pre) (map fst l)).
  { induction l as [|[o f] l IH]; intros pre; [reflexivity|].
    cbn [map fst]. rewrite flagged_cons. f_equal.
    - unfold flags_fn. rewrite app_nth2 by lia. rewrite Nat.sub_diag. reflexivity.
    - specialize (IH (pre ++ [(o, f)])). rewrite <- app_assoc, app_length in IH. cbn [app length] in IH.
      replace (length pre + 1) with (S (length pre)) in IH by lia. exact IH. }
  apply (G fb []).
Qed.

Lemma forallb_lift3 {A} (P1 P3 Q : A -> bool) l :
  Forall (fun x => P1 x = true -> P3 x = true -> Q x = true) l ->
  forallb P1 l = true -> forallb P3 l = true -> forallb Q l = true.
Proof.
  induction 1 as [|x l Hx _ IH]; intros H1 H3; [reflexivity|].
  cbn [forallb] in *. apply andb_prop in H1 as [? ?]. apply andb_prop in H3 as [? ?].
  rewrite Hx, IH; auto.
Qed.

(* the fragment as CheckSem.tree_tie tests it (fuel-indexed predicate) implies [okI] on parsed trees *)
Lemma checksem_okI F x : forall n,
  instr_no_branch_sa F n x = true -> plainok x = true -> okI F x = true.
Proof.
  induction x as [i o|i e bt b IHb|i e bt b IHb|i el e bt t els IHt IHe] using instr_ind2;
    intros [|n] H1 H3; try discriminate H1.
  - cbn [okI plainok] in *. rewrite H3. destruct o; cbn in H1 |- *; auto.
  - cbn [okI plainok instr_no_branch_sa] in *.
    eapply forallb_lift3; [|exact H1|exact H3].
    eapply Forall_impl; [|exact IHb]. intros x Hx. apply Hx.
  - cbn [okI plainok instr_no_branch_sa] in *.
    eapply forallb_lift3; [|exact H1|exact H3].
    eapply Forall_impl; [|exact IHb]. intros x Hx. apply Hx.
  - cbn [okI plainok instr_no_branch_sa] in *.
    apply andb_prop in H1 as [H1t H1e]. apply andb_prop in H3 as [H3t H3e]. apply andb_true_intro. split.
    + eapply forallb_lift3; [|exact H1t|exact H3t]. eapply Forall_impl; [|exact IHt]. intros x Hx. apply Hx.
    + eapply forallb_lift3; [|exact H1e|exact H3e]. eapply Forall_impl; [|exact IHe]. intros x Hx. apply Hx.
Qed.

Theorem model_flatten (c : lcase) t fe fb sp n :
  parse_body (c_body c) = Some (t, fe) ->
  apply_plan false (c_plan c) (map (fun o => (o, no_flags)) (c_body c)) false = Some (fb, sp) ->
  forallb (fun x => nonreplacing (snd x)) fb = true ->
  forallb (instr_no_branch_sa (flags_fn fb) n) t = true ->
  c_entry c = [] -> c_exit c = [] ->
  model c = Some (flat (flat_map (lower (flags_fn fb) []) t) ++ f_before (flags_fn fb fe) ++ [FEnd], c_groups c).
Proof.
  intros Hp Ha Hnr Hsa Hen Hex.
  set (F := flags_fn fb) in *.
  assert (Hops : map fst fb = c_body c).
  { rewrite (apply_plan_ops _ _ _ _ _ _ Ha), map_map. cbn [fst]. apply map_id. }
  destruct (parse_body_flat F _ _ _ Hp) as [Hfl Hpl].
  assert (Hfb : fb = flatF F t ++ [(FEnd, F fe)]).
  { rewrite Hfl, <- Hops. apply flagged_self. }
  assert (HNR : nonrepl F).
  { intros i. unfold F, flags_fn.
    destruct (nth_in_or_default i fb (FEnd, no_flags)) as [Hin| ->]; [|split; reflexivity].
    rewrite forallb_forall in Hnr. specialize (Hnr _ Hin). unfold nonreplacing in Hnr.
    apply andb_prop in Hnr as [H1 H2]. destruct (f_alt _); [discriminate|]. destruct (f_balt _); [discriminate|]. auto. }
  assert (Hok : forallb (okI F) t = true).
  { eapply (forallb_lift3 (instr_no_branch_sa F n) plainok); [|exact Hsa|exact Hpl].
    apply Forall_forall. intros x _. apply checksem_okI. }
  unfold model. rewrite (apply_plan_ma _ false), Ha, Hen, Hex. cbn [is_nil negb orb]. rewrite !orb_false_r.
  destruct (resolve_flatten F t fe (c_exit_ty c) (mkLocals (c_nparams c) (c_numlocals c) (c_groups c)) (conj HNR Hok)) as [R1 R2].
  rewrite <- Hfb in R1, R2.
  destruct sp.
  - destruct (resolve true [] [] (c_exit_ty c) fb _) as [r loc'] eqn:ER. cbn [fst snd] in R1, R2. rewrite R1, R2. reflexivity.
  - assert (Hq : forallb (fun x => Idem.no_special (snd x)) fb = true).
    { apply (apply_plan_nospecial _ _ _ _ _ Ha). clear. induction (c_body c); [reflexivity|]. cbn. exact IHl. }
    rewrite (Idem.resolve_idempotent _ _ _ Hq) in R1, R2. cbn [fst snd] in R1.
    unfold resolve. cbn [negb]. rewrite R1. reflexivity.
Qed.

(* ------------------------------------------------------------------------------------------ *)
(* Extension: function entry / exit probes.  The pass files the entry code (and, with exit probes, the opener
   of the wrapper block) as before-code of instruction 0. *)
Lemma flag_stage_orig_before E op orig st w : flag_stage op (w_before E orig) st w = flag_stage op orig st w.
Proof.
  unfold flag_stage. cbn [w_before f_be f_bx f_sa].
  destruct (has_instr orig) eqn:Hh.
  - assert (H' : has_instr (w_before E orig) = true).
    { unfold has_instr in *. cbn [w_before f_before f_after f_alt f_sa f_be f_bx f_balt].
      destruct (f_before orig); [|reflexivity]. cbn [app]. cbn [is_nil negb orb] in Hh.
      destruct E; cbn [is_nil negb orb]; [exact Hh|reflexivity]. }
    rewrite H'. reflexivity.
  - apply has_instr_false in Hh. destruct Hh as (_&_&_&Hs&Hb&Hx&_). rewrite Hs, Hb, Hx. cbn [is_nil negb].
    destruct (has_instr (w_before E orig)); reflexivity.
Qed.

Lemma rstep3_orig_before E op orig st w : rstep3 op (w_before E orig) st w = rstep3 op orig st w.
Proof.
  destruct op; cbn [rstep3]; unfold block_alt_case; cbn [w_before f_balt]; rewrite ?flag_stage_orig_before; try reflexivity.
  - (* else *)
    destruct (match r_stack st with [] => (st, w) | k :: _ => resolve_roe k st w end) as [st1 w1].
    rewrite ?flag_stage_orig_before. reflexivity.
  - (* end *)
    destruct (r_stack st) as [|bid rest]; [rewrite ?flag_stage_orig_before; reflexivity|].
    assert (K : forall st0 w0,
      (let '(st1, w1) := resolve_roe bid st0 w0 in
       let '(st2, w2) := match ron_get bid (r_ron st1) with
                         | Some p => (set_ron (ron_remove bid (r_ron st1)) st1, resolve_pend2 p w1)
                         | None => (st1, w1) end in
       flag_stage FEnd (w_before E orig) st2 w2)
      = (let '(st1, w1) := resolve_roe bid st0 w0 in
       let '(st2, w2) := match ron_get bid (r_ron st1) with
                         | Some p => (set_ron (ron_remove bid (r_ron st1)) st1, resolve_pend2 p w1)
                         | None => (st1, w1) end in
       flag_stage FEnd orig st2 w2)).
    { intros st0 w0. destruct (resolve_roe bid st0 w0) as [st1 w1]. destruct (ron_get bid _); rewrite flag_stage_orig_before; reflexivity. }
    destruct (r_del (set_stack rest st)) as [dd|]; [|apply K].
    destruct (Nat.eqb dd bid); [|reflexivity].
    destruct (negb (r_retain (set_del None (set_stack rest st)))); [reflexivity|apply K].
Qed.

Lemma rstep_entry last op orig st E :
  E <> [] -> r_entry st = E ->
  rstep last 0 op orig st = rstep last 0 op (w_before E orig) (set_entry [] st).
Proof.
  intros HE He.
  assert (L : rstep last 0 op orig st
              = let '(st1, w1) :=
                  if is_nil (r_exit st) then (set_entry [] st, w_before E orig)
                  else if is_exit_op op then (set_entry [] st, w_before (r_exit st) (w_before E orig))
                  else if Nat.eqb 0 last then (set_exit [] (set_entry [] st), w_before ([FEnd] ++ r_exit st) (w_before E orig))
                  else (set_entry [] st, w_before E orig) in
                rstep3 op orig st1 w1).
  { unfold rstep. rewrite He. destruct E as [|e0 E0]; [congruence|]. cbn [is_nil negb andb Nat.eqb]. reflexivity. }
  assert (R : rstep last 0 op (w_before E orig) (set_entry [] st)
              = let '(st1, w1) :=
                  if is_nil (r_exit st) then (set_entry [] st, w_before E orig)
                  else if is_exit_op op then (set_entry [] st, w_before (r_exit st) (w_before E orig))
                  else if Nat.eqb 0 last then (set_exit [] (set_entry [] st), w_before ([FEnd] ++ r_exit st) (w_before E orig))
                  else (set_entry [] st, w_before E orig) in
                rstep3 op (w_before E orig) st1 w1).
  { unfold rstep. cbn [r_entry set_entry is_nil negb andb r_exit]. reflexivity. }
  rewrite L, R.
  destruct (is_nil (r_exit st)); [symmetry; apply rstep3_orig_before|].
  destruct (is_exit_op op); [symmetry; apply rstep3_orig_before|].
  destruct (Nat.eqb 0 last); symmetry; apply rstep3_orig_before.
Qed.

(* the flags function the tree-level statement uses: [c] filed behind the before-code of instruction 0 *)
Definition with0 (c : list fop) (F : nat -> flags) : nat -> flags :=
  fun i => if Nat.eqb i 0 then w_before c (F i) else F i.

Lemma flagged_ext G G' : forall ops idx, (forall k, idx <= k -> G k = G' k) -> flagged G idx ops = flagged G' idx ops.
Proof.
  induction ops as [|o ops IH]; intros idx H; [reflexivity|].
  rewrite !flagged_cons, (H idx (le_n _)), (IH (S idx)); [reflexivity|]. intros k Hk. apply H. lia.
Qed.
Lemma flagged_with0 c F o ops : flagged (with0 c F) 0 (o :: ops) = (o, w_before c (F 0)) :: flagged F 1 ops.
Proof.
  rewrite flagged_cons. f_equal. apply flagged_ext. intros k Hk. unfold with0.
  destruct (Nat.eqb_spec k 0); [lia|reflexivity].
Qed.
Lemma flagged_length G ops : forall idx, length (flagged G idx ops) = length ops.
Proof. induction ops as [|o ops IH]; intros idx; [reflexivity|]. rewrite flagged_cons. cbn [length]. rewrite IH. reflexivity. Qed.

Lemma nonrepl_with0 c F : nonrepl F -> nonrepl (with0 c F).
Proof. intros H i. unfold with0. destruct (Nat.eqb i 0); cbn [w_before f_alt f_balt]; apply H. Qed.

Lemma forallb_ext_Forall {A} (P Q : A -> bool) l : Forall (fun x => P x = Q x) l -> forallb P l = forallb Q l.
Proof. induction 1 as [|x l Hx _ IH]; [reflexivity|]. cbn [forallb]. rewrite Hx, IH. reflexivity. Qed.

Lemma okI_ext F G : (forall i, f_sa (F i) = f_sa (G i)) -> forall x, okI F x = okI G x.
Proof.
  intros H. induction x as [i o|i e bt b IHb|i e bt b IHb|i el e bt t els IHt IHe] using instr_ind2; cbn [okI].
  - rewrite (H i). reflexivity.
  - apply forallb_ext_Forall. exact IHb.
  - apply forallb_ext_Forall. exact IHb.
  - rewrite (forallb_ext_Forall _ _ _ IHt), (forallb_ext_Forall _ _ _ IHe). reflexivity.
Qed.
Lemma okI_with0 c F t : forallb (okI (with0 c F)) t = forallb (okI F) t.
Proof.
  apply forallb_ext_Forall. apply Forall_forall. intros x _. apply okI_ext.
  intros i. unfold with0. destruct (Nat.eqb i 0); cbn [w_before f_sa]; auto.
Qed.

Lemma flat_map_ext_Forall {A B} (f g : A -> list B) l : Forall (fun x => f x = g x) l -> flat_map f l = flat_map g l.
Proof. induction 1 as [|x l Hx _ IH]; [reflexivity|]. cbn [flat_map]. rewrite Hx, IH. reflexivity. Qed.

(* the tree lowering only reads the five code lists *)
Lemma lower_ext F G X :
  (forall i, bef F i = bef G i /\ aft F i = aft G i /\ be_ F i = be_ G i /\ bx_ F i = bx_ G i /\ sa_ F i = sa_ G i) ->
  forall x, lower F X x = lower G X x.
Proof.
  intros H.
  assert (Hb : forall i, bef F i = bef G i) by (intros i; apply H).
  assert (Ha : forall i, aft F i = aft G i) by (intros i; apply H).
  assert (He : forall i, be_ F i = be_ G i) by (intros i; apply H).
  assert (Hx : forall i, bx_ F i = bx_ G i) by (intros i; apply H).
  assert (Hs : forall i, sa_ F i = sa_ G i) by (intros i; apply H).
  induction x as [i o|i e bt b IHb|i e bt b IHb|i el e bt t els IHt IHe] using instr_ind2; cbn [lower].
  - rewrite Hb, Ha. reflexivity.
  - rewrite !Hb, !Ha, He, Hx, Hs, (flat_map_ext_Forall _ _ _ IHb). reflexivity.
  - rewrite !Hb, !Ha, He, Hx, Hs, (flat_map_ext_Forall _ _ _ IHb). reflexivity.
  - rewrite (flat_map_ext_Forall _ _ _ IHt), (flat_map_ext_Forall _ _ _ IHe).
    unfold else_sa. destruct el as [x|]; rewrite ?Hb, ?Ha, ?He, ?Hx, ?Hs; reflexivity.
Qed.

Lemma mid_emit_c (F : nat -> flags) (X : list fop) (HNR : nonrepl F) last idx op i st st' PB PA c :
  idx < last -> r_entry st = [] -> r_exit st = X ->
  (forall w0, exists w, rstep3 op (F i) st w0 = (st', w)
     /\ f_before w = f_before w0 ++ PB /\ f_after w = f_after w0 ++ PA /\ f_alt w = f_alt w0) ->
  exists w, rstep last idx op (w_before c (F i)) st = (st', w)
    /\ emit1 (op, w) = f_before (F i) ++ c ++ (if is_exit_op op then X else []) ++ PB ++ [op] ++ f_after (F i) ++ PA.
Proof.
  intros Hlt He Hx H. rewrite rstep_mid by assumption. rewrite Hx, rstep3_orig_before.
  destruct (H (xw X op (w_before c (F i)))) as (w & E & W1 & W2 & W3).
  destruct (xw_fields X op (w_before c (F i))) as (V1 & V2 & V3).
  exists w. split; [exact E|].
  rewrite emit1_noalt by (rewrite W3, V3; apply (proj1 (HNR i))).
  rewrite W1, W2, V1, V2. cbn [w_before f_before f_after]. rewrite <- !app_assoc. reflexivity.
Qed.

(* the first step of a subtree, parametric in extra before-code [c] of its first instruction *)
Lemma first_step_param (F : nat -> flags) (X : list fop) (HNR : nonrepl F) x last idx d ret m loc :
  okI F x = true -> idx < last -> fresh d m ->
  exists op i tlx st' Q, flatF1 F x = (op, F i) :: tlx /\
    forall c, exists w, rstep last idx op (w_before c (F i)) (St X d ret [] m loc) = (st', w)
                        /\ emit1 (op, w) = f_before (F i) ++ c ++ Q.
Proof.
  intros Hok Hlt Hf. pose proof (Hf d (le_n d)) as Hm.
  destruct x as [i o|i e bt b|i e bt b|i el e bt t els].
  - cbn [okI] in Hok. apply andb_prop in Hok as [Hp Hs].
    assert (Hs' : is_branching o = true -> sa_ F i = []).
    { intros Hb. rewrite Hb in Hs. cbn [negb orb] in Hs. apply is_nil_true. exact Hs. }
    exists o, i, [], (St X d ret [] m loc). eexists. split; [reflexivity|]. intros c.
    apply (mid_emit_c F X HNR last idx o i (St X d ret [] m loc) _ [] [] c Hlt eq_refl eq_refl).
    intros w0. destruct (step_plain3 F X i o d ret [] m loc w0 Hp Hs') as (w & E & W1 & W2 & W3).
    exists w. rewrite !app_nil_r. auto.
  - exists (FBlock bt), i. eexists. eexists. eexists. split; [reflexivity|]. intros c.
    apply (mid_emit_c F X HNR last idx (FBlock bt) i (St X d ret [] m loc) _ [] (be_ F i) c Hlt eq_refl eq_refl).
    intros w0. destruct (step_open3 F X HNR (FBlock bt) i d ret [] m loc w0 ltac:(eauto) Hm) as (w & E & W1 & W2 & W3).
    exists w. rewrite !app_nil_r. split; [exact E|auto].
  - exists (FLoop bt), i. eexists. eexists. eexists. split; [reflexivity|]. intros c.
    apply (mid_emit_c F X HNR last idx (FLoop bt) i (St X d ret [] m loc) _ [] (be_ F i) c Hlt eq_refl eq_refl).
    intros w0. destruct (step_open3 F X HNR (FLoop bt) i d ret [] m loc w0 ltac:(eauto) Hm) as (w & E & W1 & W2 & W3).
    exists w. rewrite !app_nil_r. split; [exact E|auto].
  - exists (FIf bt), i. eexists. eexists. eexists. split; [reflexivity|]. intros c.
    apply (mid_emit_c F X HNR last idx (FIf bt) i (St X d ret [] m loc) _ [] (be_ F i) c Hlt eq_refl eq_refl).
    intros w0. destruct (step_if3 F X HNR bt i d ret [] m loc w0 Hm eq_refl) as (w & E & W1 & W2 & W3).
    exists w. rewrite !app_nil_r. split; [exact E|auto].
Qed.

(* the run on a parsed body, parametric in extra before-code [c] of instruction 0: the emitted body is
   [before-code of instruction 0] ++ c ++ rest, with [rest] and the final locals independent of c *)
Lemma head_param (F : nat -> flags) (X : list fop) (HNR : nonrepl F) ops t fe loc :
  parse_body ops = Some (t, fe) -> t <> [] -> forallb (okI F) t = true ->
  exists rest l0, forall c,
    emit (fst (rloop (length ops - 1) 0 (flagged (with0 c F) 0 ops) (mkR [] X [0] None true [] [] loc)))
    = f_before (F 0) ++ c ++ rest
    /\ r_loc (snd (rloop (length ops - 1) 0 (flagged (with0 c F) 0 ops) (mkR [] X [0] None true [] [] loc))) = l0.
Proof.
  intros Hp Hne Hok.
  destruct (parse_body_flat F _ _ _ Hp) as [Hfl _].
  destruct t as [|x t']; [congruence|]. clear Hne.
  cbn [forallb] in Hok. apply andb_prop in Hok as [Hokx _].
  destruct ops as [|o ops'].
  { exfalso. rewrite flatF_cons in Hfl. destruct (flatF1 F x ++ flatF F t'); discriminate Hfl. }
  cbn [length]. replace (S (length ops') - 1) with (length ops') by lia.
  assert (Hlast : 0 < length ops').
  { apply (f_equal (@length _)) in Hfl. rewrite flagged_length, app_length, flatF_cons, app_length in Hfl. cbn [length] in Hfl.
    destruct x; cbn [flatF1 length] in Hfl; lia. }
  destruct (first_step_param F X HNR x (length ops') 0 1 true [] loc Hokx Hlast ltac:(intros k _; reflexivity))
    as (op & i & tlx & st' & Q & Hx & Hstep).
  rewrite flatF_cons, Hx, flagged_cons in Hfl. cbn [app] in Hfl. inversion Hfl as [[Ho HF0 Htl]].
  destruct (rloop (length ops') 1 (flagged F 1 ops') st') as [outR st2] eqn:ER.
  exists (Q ++ emit_from (length outR) 1 outR), (r_loc st2). intros c.
  rewrite flagged_with0. cbn [rloop].
  destruct (Hstep c) as (w & E & M). rewrite <- HF0. change (St X 1 true [] [] loc) with (mkR [] X [0] None true [] [] loc) in E.
  rewrite <- Ho, E, ER. cbn [fst snd]. split; [|reflexivity].
  assert (Hlen : length outR = length ops').
  { pose proof (rloop_length (length ops') (flagged F 1 ops') 1 st') as L. rewrite ER, flagged_length in L. exact L. }
  unfold emit. cbn [length]. replace (S (length outR) - 1) with (length outR) by lia.
  change ((op, w) :: outR) with ([(op, w)] ++ outR). rewrite emit_from_app. cbn [length Nat.add].
  rewrite emit_from_mid by (cbn [length]; lia). rewrite emit_mid_one, M, <- !app_assoc. reflexivity.
Qed.

(* entry code present: the run is the run on the body whose instruction 0 carries the entry code as before-code *)
Lemma rloop_entry (F : nat -> flags) X E last o ops loc :
  E <> [] ->
  rloop last 0 (flagged F 0 (o :: ops)) (mkR E X [0] None true [] [] loc)
  = rloop last 0 (flagged (with0 E F) 0 (o :: ops)) (mkR [] X [0] None true [] [] loc).
Proof.
  intros HE. rewrite flagged_with0, flagged_cons. cbn [rloop].
  rewrite (rstep_entry last o (F 0) (mkR E X [0] None true [] [] loc) E HE eq_refl). reflexivity.
Qed.

Lemma flat_fn_tree_nil F ty t fe : flat (fn_tree F [] ty t fe) = flat (flat_map (lower F []) t) ++ f_before (F fe).
Proof. unfold fn_tree, inner. rewrite flat_app, flat_ins. reflexivity. Qed.
Lemma flat_fn_tree_cons F X ty t fe : X <> [] ->
  flat (fn_tree F X ty t fe) = FBlock (BtFunc ty) :: (flat (flat_map (lower F X) t) ++ f_before (F fe)) ++ [FEnd] ++ X.
Proof.
  intros HX. unfold fn_tree, inner. destruct X as [|x0 X0]; [congruence|].
  rewrite flat_app, flat_ins, flat_cons. cbn [flat1].
  fold (flat (flat_map (lower F (x0 :: X0)) t ++ ins (bef F fe))). rewrite flat_app, flat_ins.
  cbn [flat flat_map]. rewrite app_nil_r. cbn [app]. rewrite <- !app_assoc. reflexivity.
Qed.

(* ---------- resolve_flatten with function entry / exit probes ----------
   [with0 entry F] is the flags function of CheckSem.tree_tie (entry code filed behind the user's before-code of
   instruction 0); SimFn.fn_tree is the tree of the function-level simulation theorem.  Without exit probes the
   emitted body is exactly the flattening of that tree (+ the final end).  With exit probes the implementation
   emits pre = before-code of instruction 0 in front of the wrapper's opener, the tree has it just behind it. *)
Theorem resolve_flatten_fn (F : nat -> flags) ops t fe entry X ty loc :
  parse_body ops = Some (t, fe) -> nonrepl F -> forallb (okI F) t = true -> (X <> [] -> t <> []) ->
  let F0 := with0 entry F in
  let pre := f_before (F0 0) in
  let r := resolve true entry X ty (flagged F 0 ops) loc in
  snd r = loc /\
  match X with
  | [] => emit (fst r) = flat (fn_tree F0 X ty t fe) ++ [FEnd]
  | _ => exists rest, emit (fst r) = pre ++ FBlock (BtFunc ty) :: rest
                      /\ flat (fn_tree F0 X ty t fe) ++ [FEnd] = FBlock (BtFunc ty) :: pre ++ rest
  end.
Proof.
  intros Hp HNR Hok Hne F0 pre r.
  assert (HNR0 : nonrepl F0) by (apply nonrepl_with0; exact HNR).
  assert (Hok0 : forallb (okI F0) t = true) by (unfold F0; rewrite okI_with0; exact Hok).
  destruct (parse_body_flat F _ _ _ Hp) as [Hfl _].
  destruct (parse_body_flat F0 _ _ _ Hp) as [Hfl0 _].
  assert (Hops : exists o ops', ops = o :: ops').
  { destruct ops as [|o ops']; [|eauto]. destruct (flatF F t); discriminate Hfl. }
  destruct Hops as (o & ops' & ->).
  (* the run on the body that carries the entry code as before-code of instruction 0 *)
  destruct (body_run F0 X HNR0 t fe loc Hok0) as (out & w & st' & E & L & _ & M & W1 & W3).
  rewrite Hfl0 in E. rewrite flagged_length in E.
  unfold r, resolve. cbn [negb]. rewrite flagged_length.
  destruct X as [|x0 X0].
  - (* no exit probes *)
    cbn [is_nil].
    assert (ER : exists st2, rloop (length (o :: ops') - 1) 0 (flagged F 0 (o :: ops')) (mkR entry [] [0] None true [] [] loc) = (fst (rloop (length (o :: ops') - 1) 0 (flagged F 0 (o :: ops')) (mkR entry [] [0] None true [] [] loc)), st2)
                 /\ r_loc st2 = loc
                 /\ emit (fst (rloop (length (o :: ops') - 1) 0 (flagged F 0 (o :: ops')) (mkR entry [] [0] None true [] [] loc)))
                    = flat (flat_map (lower F0 []) t) ++ f_before (F0 fe) ++ [FEnd]).
    { destruct entry as [|e0 entry0].
      - (* no entry code either: the plain theorem, and with0 [] F reads the same code lists as F *)
        destruct (body_run F [] HNR t fe loc Hok) as (out1 & w1 & st1 & E1 & L1 & _ & M1 & W11 & W13).
        rewrite Hfl, flagged_length in E1. rewrite E1. cbn [fst]. exists st1. split; [reflexivity|]. split; [exact L1|].
        rewrite emit_snoc by exact W13. rewrite M1, W11. cbn [is_nil]. rewrite app_nil_r.
        assert (EXT : forall i, bef F i = bef F0 i /\ aft F i = aft F0 i /\ be_ F i = be_ F0 i /\ bx_ F i = bx_ F0 i /\ sa_ F i = sa_ F0 i).
        { intros i. unfold F0, with0, bef, aft, be_, bx_, sa_. destruct (Nat.eqb i 0); cbn [w_before f_before f_after f_be f_bx f_sa]; rewrite ?app_nil_r; auto. }
        rewrite (flat_map_ext_Forall (lower F []) (lower F0 [])) by (apply Forall_forall; intros x _; apply lower_ext; exact EXT).
        f_equal. f_equal. apply (proj1 (EXT fe)).
      - rewrite rloop_entry by discriminate. fold F0. rewrite E. cbn [fst]. exists st'. split; [reflexivity|]. split; [exact L|].
        rewrite emit_snoc by exact W3. rewrite M, W1. cbn [is_nil]. rewrite app_nil_r. reflexivity. }
    destruct ER as (st2 & ER & L2 & EM). rewrite ER. cbn [fst snd]. split; [exact L2|].
    rewrite ER in EM. cbn [fst] in EM. rewrite EM, flat_fn_tree_nil, <- app_assoc. reflexivity.
  - (* exit probes: the wrapper *)
    cbn [is_nil]. specialize (Hne ltac:(discriminate)).
    destruct (head_param F (x0 :: X0) HNR (o :: ops') t fe loc Hp Hne Hok) as (rest & l0 & HP).
    destruct (HP entry) as [B1 B2]. fold F0 in B1, B2. rewrite E in B1, B2. cbn [fst snd] in B1, B2.
    destruct (HP (entry ++ [FBlock (BtFunc ty)])) as [A1 A2].
    rewrite rloop_entry by (destruct entry; discriminate).
    destruct (rloop (length (o :: ops') - 1) 0 (flagged (with0 (entry ++ [FBlock (BtFunc ty)]) F) 0 (o :: ops')) _) as [rA stA].
    cbn [fst snd] in A1, A2 |- *. split; [rewrite A2, <- B2; exact L|].
    exists rest. split.
    + rewrite A1. unfold pre, F0, with0. cbn [Nat.eqb w_before f_before]. rewrite <- !app_assoc. reflexivity.
    + rewrite flat_fn_tree_cons by discriminate.
      rewrite emit_snoc in B1 by exact W3. rewrite M, W1 in B1. cbn [is_nil] in B1.
      unfold pre, F0 at 3, with0. cbn [Nat.eqb w_before f_before].
      cbn [app]. f_equal. rewrite <- !app_assoc. rewrite <- !app_assoc in B1. cbn [app] in B1 |- *. exact B1.
Qed.

(* ---------- function-level corollary (SimFn.sim_fn): entry / exit probes included ---------- *)
Corollary resolve_flatten_fn_sim ftypes (F : nat -> flags) ops t fe entry X ty nres loc :
  parse_body ops = Some (t, fe) -> nonrepl F -> forallb (okI F) t = true -> (X <> [] -> t <> []) ->
  let F0 := with0 entry F in
  let pre := f_before (F0 0) in
  let emitted := emit (fst (resolve true entry X ty (flagged F 0 ops) loc)) in
  pcode X ->
  (forall i, pcode (bef F0 i) /\ pcode (aft F0 i) /\ pcode (be_ F0 i) /\ pcode (bx_ F0 i) /\ pcode (sa_ F0 i)) ->
  neutral X -> arity ftypes (BtFunc ty) = (0, nres)%nat ->
  exists tree : list instr,
    (* the tree is what the mirror model emits (up to the rotation of pre in front of the wrapper's opener) *)
    match X with
    | [] => emitted = flat tree ++ [FEnd]
    | _ => exists rest, emitted = pre ++ FBlock (BtFunc ty) :: rest /\ flat tree ++ [FEnd] = FBlock (BtFunc ty) :: pre ++ rest
    end
    /\ (* and the plain interpreter on it reproduces every result of the specification interpreter *)
    forall fuel c ob,
      exec_fn ftypes F0 [] X true fuel t fe c = ob -> ob <> OFuel -> stack c = [] ->
      (forall n p c', exec ftypes F0 X true fuel false t c = OBr n p c' -> n = 0%nat) ->
      exists fuel' ob', exec_fn ftypes nof [] [] false fuel' tree 0 c = ob' /\ res_eq nres ob ob'.
Proof.
  intros Hp HNR Hok Hne F0 pre emitted HX Hcode NX Hty.
  exists (fn_tree F0 X ty t fe). split.
  - apply (resolve_flatten_fn F ops t fe entry X ty loc Hp HNR Hok Hne).
  - intros fuel c ob H Hn Hs Hd.
    apply (sim_fn ftypes F0 X HX Hcode NX ty nres Hty fuel t fe c ob H Hn); [|exact Hs|exact Hd].
    apply okI_nbl. unfold F0. rewrite okI_with0. exact Hok.
Qed.

(* ---------- the theorem for CheckLow.model with function entry / exit probes: exactly the equation
   CheckSem.tree_tie tests on every sampled case ---------- *)
Theorem model_flatten_fn (c : lcase) t fe fb sp n :
  parse_body (c_body c) = Some (t, fe) ->
  apply_plan false (c_plan c) (map (fun o => (o, no_flags)) (c_body c)) false = Some (fb, sp) ->
  forallb (fun x => nonreplacing (snd x)) fb = true ->
  let F0 := with0 (c_entry c) (flags_fn fb) in
  let pre := f_before (F0 0) in
  forallb (instr_no_branch_sa F0 n) t = true ->
  (c_exit c <> [] -> t <> []) ->
  exists body, model c = Some (body, c_groups c) /\
    match c_exit c with
    | [] => body = flat (fn_tree F0 (c_exit c) (c_exit_ty c) t fe) ++ [FEnd]
    | _ => exists rest, body = pre ++ FBlock (BtFunc (c_exit_ty c)) :: rest
                        /\ flat (fn_tree F0 (c_exit c) (c_exit_ty c) t fe) ++ [FEnd] = FBlock (BtFunc (c_exit_ty c)) :: pre ++ rest
    end.
Proof.
  intros Hp Ha Hnr F0 pre Hsa Hne.
  set (F := flags_fn fb) in *.
  assert (Hops : map fst fb = c_body c).
  { rewrite (apply_plan_ops _ _ _ _ _ _ Ha), map_map. cbn [fst]. apply map_id. }
  destruct (parse_body_flat F _ _ _ Hp) as [Hfl Hpl].
  assert (Hfb : fb = flagged F 0 (c_body c)) by (rewrite <- Hops; apply flagged_self).
  assert (HNR : nonrepl F).
  { intros i. unfold F, flags_fn.
    destruct (nth_in_or_default i fb (FEnd, no_flags)) as [Hin| ->]; [|split; reflexivity].
    rewrite forallb_forall in Hnr. specialize (Hnr _ Hin). unfold nonreplacing in Hnr.
    apply andb_prop in Hnr as [H1 H2]. destruct (f_alt _); [discriminate|]. destruct (f_balt _); [discriminate|]. auto. }
  assert (Hok : forallb (okI F) t = true).
  { rewrite <- (okI_with0 (c_entry c)). fold F0.
    eapply (forallb_lift3 (instr_no_branch_sa F0 n) plainok); [|exact Hsa|exact Hpl].
    apply Forall_forall. intros x _. apply checksem_okI. }
  set (loc := mkLocals (c_nparams c) (c_numlocals c) (c_groups c)).
  pose proof (resolve_flatten_fn F (c_body c) t fe (c_entry c) (c_exit c) (c_exit_ty c) loc Hp HNR Hok Hne) as R.
  cbn zeta in R. rewrite <- Hfb in R. fold F0 in R. destruct R as [R2 R1].
  assert (HS : resolve (sp || negb (is_nil (c_entry c)) || negb (is_nil (c_exit c))) (c_entry c) (c_exit c) (c_exit_ty c) fb loc
               = resolve true (c_entry c) (c_exit c) (c_exit_ty c) fb loc).
  { destruct sp; [reflexivity|]. destruct (c_entry c); [|reflexivity]. destruct (c_exit c); [|reflexivity].
    cbn [is_nil negb orb]. rewrite Idem.resolve_idempotent; [reflexivity|].
    apply (apply_plan_nospecial _ _ _ _ _ Ha). clear. induction (c_body c); [reflexivity|]. cbn. exact IHl. }
  unfold model. rewrite (apply_plan_ma _ false), Ha. fold loc. rewrite HS.
  destruct (resolve true (c_entry c) (c_exit c) (c_exit_ty c) fb loc) as [r loc'] eqn:ER.
  cbn [fst snd] in R1, R2. subst loc'. exists (emit r). split; [reflexivity|exact R1].
Qed.


(* ------------------------------------------------------------------------------------------ *)
(* The real placement (SimFnReal.real_tree, the tree CheckSem.tree_tie compares with the emitted body):
   pre ++ [block ty (lowered body, instruction 0 without its before-code) ++ bef(final end)) end] ++ X,
   pre = before-code of instruction 0 (the user's, then the entry probes).  No rotation. *)
Lemma w_before_clear f e : w_before (f_before f ++ e) (clear_before f) = w_before e f.
Proof. destruct f; reflexivity. Qed.
Lemma w_before_clear0 f : w_before (f_before f) (clear_before f) = f.
Proof. destruct f; reflexivity. Qed.

Lemma nonrepl_F0 F : nonrepl F -> nonrepl (TreeLower.F0 F).
Proof. intros H i. unfold TreeLower.F0. destruct (Nat.eqb i 0); cbn [clear_before f_alt f_balt]; apply H. Qed.
Lemma okI_F0 F t : forallb (okI (TreeLower.F0 F)) t = forallb (okI F) t.
Proof.
  apply forallb_ext_Forall. apply Forall_forall. intros x _. apply okI_ext.
  intros i. unfold TreeLower.F0. destruct (Nat.eqb_spec i 0) as [->|]; cbn [clear_before f_sa]; auto.
Qed.
Lemma F0_with0 e F p : TreeLower.F0 (with0 e F) p = TreeLower.F0 F p.
Proof. unfold TreeLower.F0, with0. destruct (Nat.eqb_spec p 0) as [->|Hp]; [reflexivity|]. destruct (Nat.eqb_spec p 0); [contradiction|reflexivity]. Qed.

Lemma flat_fn_tree_ext F G X ty t fe : (forall p, F p = G p) -> flat (fn_tree F X ty t fe) = flat (fn_tree G X ty t fe).
Proof.
  intros H.
  assert (EXT : forall i, bef F i = bef G i /\ aft F i = aft G i /\ be_ F i = be_ G i /\ bx_ F i = bx_ G i /\ sa_ F i = sa_ G i).
  { intros i. unfold bef, aft, be_, bx_, sa_. rewrite (H i). auto. }
  unfold fn_tree, inner.
  rewrite (flat_map_ext_Forall (lower F X) (lower G X)) by (apply Forall_forall; intros x _; apply lower_ext; exact EXT).
  rewrite (proj1 (EXT fe)). reflexivity.
Qed.

Theorem resolve_flatten_real (F : nat -> flags) ops t fe entry X ty loc :
  parse_body ops = Some (t, fe) -> nonrepl F -> forallb (okI F) t = true -> t <> [] ->
  let r := resolve true entry X ty (flagged F 0 ops) loc in
  emit (fst r) = flat (real_tree (with0 entry F) X ty t fe) ++ [FEnd] /\ snd r = loc.
Proof.
  intros Hp HNR Hok Hne r.
  set (G := TreeLower.F0 F).
  assert (HNRG : nonrepl G) by (apply nonrepl_F0; exact HNR).
  assert (HokG : forallb (okI G) t = true) by (unfold G; rewrite okI_F0; exact Hok).
  destruct (head_param G X HNRG ops t fe loc Hp Hne HokG) as (rest & l0 & HP).
  (* the run with nothing in front: the body theorem for G *)
  assert (HNRG0 : nonrepl (with0 [] G)) by (apply nonrepl_with0; exact HNRG).
  assert (HokG0 : forallb (okI (with0 [] G)) t = true) by (rewrite okI_with0; exact HokG).
  destruct (parse_body_flat (with0 [] G) _ _ _ Hp) as [Hfl0 _].
  destruct (body_run (with0 [] G) X HNRG0 t fe loc HokG0) as (out & w & st' & E & L & _ & M & W1 & W3).
  rewrite Hfl0, flagged_length in E.
  destruct (HP []) as [B1 B2]. rewrite E in B1, B2. cbn [fst snd] in B1, B2.
  rewrite emit_snoc in B1 by exact W3. rewrite M, W1 in B1. cbn [app] in B1.
  assert (EXT : forall i, bef (with0 [] G) i = bef G i /\ aft (with0 [] G) i = aft G i /\ be_ (with0 [] G) i = be_ G i
                          /\ bx_ (with0 [] G) i = bx_ G i /\ sa_ (with0 [] G) i = sa_ G i).
  { intros i. unfold with0, bef, aft, be_, bx_, sa_. destruct (Nat.eqb i 0); cbn [w_before f_before f_after f_be f_bx f_sa]; rewrite ?app_nil_r; auto. }
  rewrite (flat_map_ext_Forall (lower (with0 [] G) X) (lower G X)) in B1 by (apply Forall_forall; intros x _; apply lower_ext; exact EXT).
  change (f_before (with0 [] G fe)) with (bef (with0 [] G) fe) in B1. rewrite (proj1 (EXT fe)) in B1.
  change (f_before (G 0)) with (@nil fop) in B1. cbn [app] in B1.
  (* the real run *)
  destruct (parse_body_flat F _ _ _ Hp) as [Hfl _].
  assert (Hops : exists o ops', ops = o :: ops').
  { destruct ops as [|o ops']; [|eauto]. destruct (flatF F t); discriminate Hfl. }
  destruct Hops as (o & ops' & ->).
  assert (HG1 : flagged F 1 ops' = flagged G 1 ops').
  { apply flagged_ext. intros k Hk. unfold G, TreeLower.F0. destruct (Nat.eqb_spec k 0); [lia|reflexivity]. }
  assert (RUN : forall c, (o, w_before c (F 0)) :: flagged F 1 ops' = flagged (with0 (f_before (F 0) ++ c) G) 0 (o :: ops')).
  { intros c. rewrite flagged_with0, HG1. unfold G, TreeLower.F0 at 1. cbn [Nat.eqb]. rewrite w_before_clear. reflexivity. }
  assert (FIN : forall c, emit (fst (rloop (length (o :: ops') - 1) 0 ((o, w_before c (F 0)) :: flagged F 1 ops') (mkR [] X [0] None true [] [] loc)))
                          = f_before (F 0) ++ c ++ rest
                          /\ r_loc (snd (rloop (length (o :: ops') - 1) 0 ((o, w_before c (F 0)) :: flagged F 1 ops') (mkR [] X [0] None true [] [] loc))) = loc).
  { intros c. rewrite RUN. destruct (HP (f_before (F 0) ++ c)) as [A1 A2]. rewrite A1, A2, <- B2.
    change (f_before (G 0)) with (@nil fop). cbn [app]. rewrite <- app_assoc. split; [reflexivity|exact L]. }
  assert (REAL : flat (real_tree (with0 entry F) X ty t fe) ++ [FEnd]
                 = f_before (F 0) ++ (if is_nil X then entry else entry ++ [FBlock (BtFunc ty)]) ++ rest).
  { unfold real_tree. rewrite flat_app, flat_ins.
    rewrite (flat_fn_tree_ext (TreeLower.F0 (with0 entry F)) G X ty t fe) by (intros p; apply F0_with0).
    unfold bef, with0 at 1. cbn [Nat.eqb w_before f_before]. rewrite <- B1.
    destruct X as [|x0 X0]; cbn [is_nil].
    - rewrite flat_fn_tree_nil. rewrite <- !app_assoc. reflexivity.
    - rewrite flat_fn_tree_cons by discriminate. cbn [is_nil]. rewrite <- !app_assoc. cbn [app]. rewrite <- !app_assoc. reflexivity. }
  rewrite REAL.
  unfold r, resolve. cbn [negb]. rewrite flagged_length.
  set (E' := if is_nil X then entry else entry ++ [FBlock (BtFunc ty)]).
  destruct E' as [|e0 E0] eqn:EE.
  - (* no entry code at all *)
    assert (HX : X = []) by (unfold E' in EE; destruct X; [reflexivity|destruct entry; discriminate EE]).
    assert (Hen : entry = []) by (unfold E' in EE; rewrite HX in EE; exact EE).
    subst X entry. cbn [is_nil] in *.
    assert (RUN0 : flagged F 0 (o :: ops') = flagged (with0 (f_before (F 0)) G) 0 (o :: ops')).
    { rewrite flagged_with0, flagged_cons, HG1. unfold G, TreeLower.F0 at 1. cbn [Nat.eqb]. rewrite w_before_clear0. reflexivity. }
    rewrite RUN0. destruct (HP (f_before (F 0))) as [A1 A2].
    destruct (rloop (length (o :: ops') - 1) 0 (flagged (with0 (f_before (F 0)) G) 0 (o :: ops')) _) as [rA stA].
    cbn [fst snd] in A1, A2 |- *. rewrite A1, A2, <- B2.
    change (f_before (G 0)) with (@nil fop). cbn [app]. split; [reflexivity|exact L].
  - rewrite rloop_entry by discriminate. rewrite flagged_with0. rewrite <- EE.
    destruct (FIN E') as [A1 A2].
    destruct (rloop (length (o :: ops') - 1) 0 ((o, w_before E' (F 0)) :: flagged F 1 ops') _) as [rA stA].
    cbn [fst snd] in A1, A2 |- *. rewrite A1, A2. auto.
Qed.

(* ---------- node positions of a parsed tree are exactly the flat positions ---------- *)
Fixpoint labs1 (x : instr) : list nat :=
  match x with
  | IPlain i _ => [i]
  | IBlock i e _ b | ILoop i e _ b => i :: flat_map labs1 b ++ [e]
  | IIf i el e _ t els =>
      i :: flat_map labs1 t ++ (match el with Some x => [x] | None => [] end) ++ flat_map labs1 els ++ [e]
  end.
Definition labs (t : list instr) : list nat := flat_map labs1 t.
Definition tlab (tm : term) : list nat := match tm with TEnd e | TElse e => [e] | TEof => [] end.

Lemma parse_seq_labs : forall fuel idx ops t tm idx' rest,
  parse_seq fuel idx ops = Some (t, tm, idx', rest) ->
  seq idx (length ops) = labs t ++ tlab tm ++ seq idx' (length rest).
Proof.
  induction fuel as [|fuel IH]; intros idx ops t tm idx' rest H; [discriminate H|].
  cbn [parse_seq] in H. destruct ops as [|o ops]; [inversion H; subst; reflexivity|].
  cbn [length seq].
  destruct o;
    try (destruct (parse_seq fuel (S idx) ops) as [[[[tl tm1] idx1] rest1]|] eqn:E1; [|discriminate H];
         inversion H; subst; rewrite (IH _ _ _ _ _ _ E1); reflexivity).
  - destruct (parse_seq fuel (S idx) ops) as [[[[body tm1] idx1] rest1]|] eqn:E1; [|discriminate H].
    destruct tm1 as [e|e|]; try discriminate H.
    destruct (parse_seq fuel idx1 rest1) as [[[[tl tm2] idx2] rest2]|] eqn:E2; [|discriminate H].
    inversion H; subst. rewrite (IH _ _ _ _ _ _ E1), (IH _ _ _ _ _ _ E2).
    unfold labs. cbn [flat_map labs1 tlab]. cbn [app]. rewrite <- !app_assoc. reflexivity.
  - destruct (parse_seq fuel (S idx) ops) as [[[[body tm1] idx1] rest1]|] eqn:E1; [|discriminate H].
    destruct tm1 as [e|e|]; try discriminate H.
    destruct (parse_seq fuel idx1 rest1) as [[[[tl tm2] idx2] rest2]|] eqn:E2; [|discriminate H].
    inversion H; subst. rewrite (IH _ _ _ _ _ _ E1), (IH _ _ _ _ _ _ E2).
    unfold labs. cbn [flat_map labs1 tlab]. cbn [app]. rewrite <- !app_assoc. reflexivity.
  - destruct (parse_seq fuel (S idx) ops) as [[[[thn tm1] idx1] rest1]|] eqn:E1; [|discriminate H].
    destruct tm1 as [e|el|]; try discriminate H.
    + destruct (parse_seq fuel idx1 rest1) as [[[[tl tm2] idx2] rest2]|] eqn:E2; [|discriminate H].
      inversion H; subst. rewrite (IH _ _ _ _ _ _ E1), (IH _ _ _ _ _ _ E2).
      unfold labs. cbn [flat_map labs1 tlab]. cbn [app]. rewrite <- !app_assoc. reflexivity.
    + destruct (parse_seq fuel idx1 rest1) as [[[[els tm2] idx2] rest2]|] eqn:E2; [|discriminate H].
      destruct tm2 as [e|e|]; try discriminate H.
      destruct (parse_seq fuel idx2 rest2) as [[[[tl tm3] idx3] rest3]|] eqn:E3; [|discriminate H].
      inversion H; subst. rewrite (IH _ _ _ _ _ _ E1), (IH _ _ _ _ _ _ E2), (IH _ _ _ _ _ _ E3).
      unfold labs. cbn [flat_map labs1 tlab]. cbn [app]. repeat (rewrite <- !app_assoc; cbn [app]). reflexivity.
  - inversion H; subst. reflexivity.
  - inversion H; subst. reflexivity.
Qed.

Lemma npos_labs : forall x p, In p (npos x) -> In p (labs1 x).
Proof.
  assert (L : forall l, Forall (fun x => forall p, In p (npos x) -> In p (labs1 x)) l ->
                        forall p, In p (flat_map npos l) -> In p (flat_map labs1 l)).
  { intros l Hl p Hp. apply in_flat_map in Hp as (y & Hy & Hpy). apply in_flat_map. exists y. split; [exact Hy|].
    rewrite Forall_forall in Hl. apply (Hl y Hy). exact Hpy. }
  induction x as [i o|i e bt b IHb|i e bt b IHb|i el e bt t els IHt IHe] using instr_ind2; intros p Hp; cbn [npos labs1] in *.
  - exact Hp.
  - destruct Hp as [<-|[<-|Hp]]; [left; reflexivity|right; apply in_or_app; right; left; reflexivity|].
    right. apply in_or_app. left. apply (L b IHb). exact Hp.
  - destruct Hp as [<-|[<-|Hp]]; [left; reflexivity|right; apply in_or_app; right; left; reflexivity|].
    right. apply in_or_app. left. apply (L b IHb). exact Hp.
  - destruct Hp as [<-|[<-|Hp]]; [left; reflexivity| |].
    + right. apply in_or_app. right. apply in_or_app. right. apply in_or_app. right. left. reflexivity.
    + right. apply in_app_or in Hp as [Hp|Hp]; [|apply in_app_or in Hp as [Hp|Hp]].
      * apply in_or_app. right. apply in_or_app. left. exact Hp.
      * apply in_or_app. left. apply (L t IHt). exact Hp.
      * apply in_or_app. right. apply in_or_app. right. apply in_or_app. left. apply (L els IHe). exact Hp.
Qed.
Lemma positions_labs t p : In p (positions t) -> In p (labs t).
Proof.
  unfold positions, labs. intros Hp. apply in_flat_map in Hp as (y & Hy & Hpy). apply in_flat_map.
  exists y. split; [exact Hy|apply npos_labs; exact Hpy].
Qed.

(* the hypotheses of SimFnReal.sim_fn_real hold of every parsed body *)
Theorem parse_body_positions ops x rest fe :
  parse_body ops = Some (x :: rest, fe) -> head_at_0 x /\ ~ In 0 (positions rest) /\ fe <> 0.
Proof.
  unfold parse_body. intros H.
  destruct (parse_seq (S (length ops)) 0 ops) as [[[[body tm] idx'] rest']|] eqn:E; [|discriminate H].
  destruct tm as [e|e|]; try discriminate H. destruct rest'; [|discriminate H]. inversion H; subst.
  pose proof (parse_seq_labs _ _ _ _ _ _ _ E) as L. cbn [tlab length seq] in L. rewrite app_nil_r in L.
  unfold labs in L. cbn [flat_map] in L. fold (labs rest) in L. rewrite <- app_assoc in L.
  assert (K : forall i tlx, labs1 x = i :: tlx ->
              i = 0 /\ forall p, In p (tlx ++ labs rest ++ [fe]) -> p <> 0).
  { intros i tlx Hx. rewrite Hx in L. destruct (length ops) as [|n]; [discriminate L|].
    cbn [seq app] in L. inversion L as [[Hi Htl]]. split; [reflexivity|].
    intros p Hp. rewrite <- ?Htl in Hp. apply in_seq in Hp. lia. }
  assert (R : forall tlx, (forall p, In p (tlx ++ labs rest ++ [fe]) -> p <> 0) -> ~ In 0 (positions rest) /\ fe <> 0).
  { intros tlx Hall. split.
    - intros H0. apply positions_labs in H0. apply (Hall 0); [|reflexivity]. apply in_or_app. right. apply in_or_app. left. exact H0.
    - apply Hall. apply in_or_app. right. apply in_or_app. right. left. reflexivity. }
  destruct x as [i o|i e bt b|i e bt b|i el e bt t els]; cbn [labs1 head_at_0] in *.
  - destruct (K i [] eq_refl) as [-> Hall]. split; [reflexivity|apply (R [] Hall)].
  - destruct (K i _ eq_refl) as [-> Hall]. split; [|apply (R _ Hall)]. split; [reflexivity|]. split.
    + apply Hall. apply in_or_app. left. apply in_or_app. right. left. reflexivity.
    + intros H0. apply positions_labs in H0. apply (Hall 0); [|reflexivity]. apply in_or_app. left. apply in_or_app. left. exact H0.
  - destruct (K i _ eq_refl) as [-> Hall]. split; [|apply (R _ Hall)]. split; [reflexivity|]. split.
    + apply Hall. apply in_or_app. left. apply in_or_app. right. left. reflexivity.
    + intros H0. apply positions_labs in H0. apply (Hall 0); [|reflexivity]. apply in_or_app. left. apply in_or_app. left. exact H0.
  - destruct (K i _ eq_refl) as [-> Hall]. split; [|apply (R _ Hall)]. split; [reflexivity|]. repeat split.
    + apply Hall. apply in_or_app. left. apply in_or_app. right. apply in_or_app. right. apply in_or_app. right. left. reflexivity.
    + intros y ->. apply Hall. apply in_or_app. left. apply in_or_app. right. apply in_or_app. left. left. reflexivity.
    + intros H0. apply positions_labs in H0. apply (Hall 0); [|reflexivity]. apply in_or_app. left. apply in_or_app. left. exact H0.
    + intros H0. apply positions_labs in H0. apply (Hall 0); [|reflexivity]. apply in_or_app. left.
      apply in_or_app. right. apply in_or_app. right. apply in_or_app. left. exact H0.
Qed.

(* ---------- function-level corollary for the real placement (SimFnReal.sim_fn_real); every position
   hypothesis of that theorem is discharged from parse_body ---------- *)
Corollary resolve_flatten_real_sim ftypes (F : nat -> flags) ops t fe entry X ty nres loc :
  parse_body ops = Some (t, fe) -> nonrepl F -> forallb (okI F) t = true -> t <> [] ->
  let Fe := with0 entry F in
  pcode X ->
  (forall i, pcode (bef Fe i) /\ pcode (aft Fe i) /\ pcode (be_ Fe i) /\ pcode (bx_ Fe i) /\ pcode (sa_ Fe i)) ->
  neutral X -> neutral (bef Fe 0) -> arity ftypes (BtFunc ty) = (0, nres)%nat ->
  exists tree : list instr,
    (* the tree is exactly what the mirror model emits *)
    emit (fst (resolve true entry X ty (flagged F 0 ops) loc)) = flat tree ++ [FEnd]
    /\ (* and the plain interpreter on it reproduces every result of the specification interpreter *)
    forall fuel c ob,
      exec_fn ftypes Fe [] X true fuel t fe c = ob -> ob <> OFuel -> stack c = [] ->
      (forall c1 n p c', exec ftypes (TreeLower.F0 Fe) X true fuel false t c1 = OBr n p c' -> n = 0%nat) ->
      exists fuel' ob', exec_fn ftypes nof [] [] false fuel' tree 0 c = ob' /\ res_eq nres ob ob'.
Proof.
  intros Hp HNR Hok Hne Fe HX Hcode NX Npre Hty.
  exists (real_tree Fe X ty t fe). split.
  - apply (resolve_flatten_real F ops t fe entry X ty loc Hp HNR Hok Hne).
  - intros fuel c ob H Hn Hs Hd.
    destruct t as [|x rest]; [congruence|].
    destruct (parse_body_positions _ _ _ _ Hp) as (Hh & Hr & Hfe).
    apply (sim_fn_real ftypes Fe X HX Hcode NX Npre ty nres Hty fuel x rest fe c ob H Hn); auto.
    apply okI_nbl. unfold Fe. rewrite okI_with0. exact Hok.
Qed.

(* ---------- CheckLow.model in the literal form CheckSem.tree_tie tests ---------- *)
Definition tie_body (Fe : nat -> flags) (X : list fop) (ty : N) (t : list instr) (fe : nat) : list fop :=
  match X with
  | [] => flat (flat_map (lower Fe X) t) ++ f_before (Fe fe) ++ [FEnd]
  | _ => f_before (Fe 0) ++ FBlock (BtFunc ty) :: (flat (flat_map (lower (TreeLower.F0 Fe) X) t) ++ f_before (Fe fe)) ++ [FEnd] ++ X ++ [FEnd]
  end.

Theorem model_flatten_real (c : lcase) t fe fb sp n :
  parse_body (c_body c) = Some (t, fe) ->
  apply_plan false (c_plan c) (map (fun o => (o, no_flags)) (c_body c)) false = Some (fb, sp) ->
  forallb (fun x => nonreplacing (snd x)) fb = true ->
  let Fe := with0 (c_entry c) (flags_fn fb) in
  forallb (instr_no_branch_sa Fe n) t = true -> t <> [] ->
  model c = Some (tie_body Fe (c_exit c) (c_exit_ty c) t fe, c_groups c).
Proof.
  intros Hp Ha Hnr Fe Hsa Hne.
  destruct (c_exit c) as [|x0 X0] eqn:EX.
  - (* no exit probes: model_flatten_fn *)
    destruct (model_flatten_fn c t fe fb sp n Hp Ha Hnr Hsa ltac:(intros; exact Hne)) as (body & Hm & Hb).
    rewrite EX in Hb. rewrite Hm, Hb, flat_fn_tree_nil, <- app_assoc. reflexivity.
  - set (F := flags_fn fb) in *.
    assert (Hops : map fst fb = c_body c).
    { rewrite (apply_plan_ops _ _ _ _ _ _ Ha), map_map. cbn [fst]. apply map_id. }
    destruct (parse_body_flat F _ _ _ Hp) as [Hfl Hpl].
    assert (Hfb : fb = flagged F 0 (c_body c)) by (rewrite <- Hops; apply flagged_self).
    assert (HNR : nonrepl F).
    { intros i. unfold F, flags_fn.
      destruct (nth_in_or_default i fb (FEnd, no_flags)) as [Hin| ->]; [|split; reflexivity].
      rewrite forallb_forall in Hnr. specialize (Hnr _ Hin). unfold nonreplacing in Hnr.
      apply andb_prop in Hnr as [H1 H2]. destruct (f_alt _); [discriminate|]. destruct (f_balt _); [discriminate|]. auto. }
    assert (Hok : forallb (okI F) t = true).
    { rewrite <- (okI_with0 (c_entry c)). fold Fe.
      eapply (forallb_lift3 (instr_no_branch_sa Fe n) plainok); [|exact Hsa|exact Hpl].
      apply Forall_forall. intros x _. apply checksem_okI. }
    set (loc := mkLocals (c_nparams c) (c_numlocals c) (c_groups c)).
    destruct (resolve_flatten_real F (c_body c) t fe (c_entry c) (x0 :: X0) (c_exit_ty c) loc Hp HNR Hok Hne) as [R1 R2].
    rewrite <- Hfb in R1, R2. fold Fe in R1.
    unfold model. rewrite (apply_plan_ma _ false), Ha, EX. fold loc.
    replace (sp || negb (is_nil (c_entry c)) || negb (is_nil (x0 :: X0))) with true by (cbn [is_nil negb]; rewrite orb_true_r; reflexivity).
    destruct (resolve true (c_entry c) (x0 :: X0) (c_exit_ty c) fb loc) as [r loc'] eqn:ER.
    cbn [fst snd] in R1, R2. subst loc'. rewrite R1. f_equal. f_equal.
    unfold real_tree, tie_body. rewrite flat_app, flat_ins, flat_fn_tree_cons by discriminate.
    destruct t as [|x rest]; [congruence|].
    destruct (parse_body_positions _ _ _ _ Hp) as (_ & _ & Hfe).
    assert (E0 : f_before (TreeLower.F0 Fe fe) = f_before (Fe fe)).
    { unfold TreeLower.F0. destruct (Nat.eqb_spec fe 0); [contradiction|reflexivity]. }
    rewrite E0. unfold bef. rewrite <- !app_assoc. cbn [app]. rewrite <- !app_assoc. reflexivity.
Qed.

(* ---------- the second per-case tie follows from the first: whenever the observed body is the body the flat
   mirror model computes, CheckSem.tree_tie accepts the case ---------- *)
Lemma blockty_eqb_refl b : blockty_eqb b b = true.
Proof. destruct b; cbn; try reflexivity; apply N.eqb_refl. Qed.
Lemma list_nat_eqb_refl : forall l, list_eqb Nat.eqb l l = true.
Proof. induction l as [|x l IH]; [reflexivity|]. cbn. rewrite Nat.eqb_refl, IH. reflexivity. Qed.
Lemma fop_eqb_refl o : fop_eqb o o = true.
Proof.
  destruct o; cbn; try reflexivity;
    rewrite ?blockty_eqb_refl, ?Nat.eqb_refl, ?N.eqb_refl, ?Z.eqb_refl, ?list_nat_eqb_refl; reflexivity.
Qed.
Lemma list_fop_eqb_refl : forall l, list_eqb fop_eqb l l = true.
Proof. induction l as [|x l IH]; [reflexivity|]. cbn. rewrite fop_eqb_refl, IH. reflexivity. Qed.

Theorem tree_tie_of_model (c : scase) b g g' :
  model (s_l c) = Some (b, g) -> c_obs (s_l c) = Some (b, g') -> tree_tie c = true.
Proof.
  intros Hm Ho. unfold tree_tie.
  destruct (parse_body (c_body (s_l c))) as [[t fe]|] eqn:Hp; [|reflexivity].
  unfold flagged_body.
  destruct (apply_plan false (c_plan (s_l c)) (map (fun o => (o, no_flags)) (c_body (s_l c))) false) as [[fb sp]|] eqn:Ha; [|reflexivity].
  match goal with |- (if ?cond then _ else _) = true => destruct cond eqn:Hc; [|reflexivity] end.
  apply andb_prop in Hc as [Hc Hsa]. apply andb_prop in Hc as [Hnr Hne].
  assert (Hne' : t <> []) by (destruct t; [discriminate Hne|discriminate]).
  pose proof (model_flatten_real (s_l c) t fe fb sp _ Hp Ha Hnr Hsa Hne') as M.
  rewrite Hm in M. inversion M as [[Hb Hg]].
  unfold obs_body. rewrite Ho, Hb. unfold tie_body.
  destruct (c_exit (s_l c)); apply list_fop_eqb_refl.
Qed.
(* ------------------------------------------------------------------------------------------ *)
(* Non-triviality: a nested block / if-else / loop with before, after, block-entry, block-exit and semantic-after
   probes on every structural instruction lies in the fragment; so does the former D15 shape. *)
Definition exP (n : Z) : list fop := [FConst n; FDrop].
Definition exF (i : nat) : flags :=
  match i with
  | 0 => mkFlags (exP 1) (exP 2) None (exP 3) (exP 4) (exP 5) None
  | 1 => mkFlags (exP 11) (exP 12) None [] [] [] None
  | 2 => mkFlags (exP 21) (exP 22) None (exP 23) (exP 24) (exP 25) None
  | 3 => mkFlags (exP 31) (exP 32) None [] [] [] None
  | 4 => mkFlags (exP 41) (exP 42) None (exP 43) (exP 44) (exP 45) None
  | 5 => mkFlags (exP 51) (exP 52) None (exP 53) (exP 54) (exP 55) None
  | 6 => mkFlags (exP 61) (exP 62) None [] [] [] None
  | 7 => mkFlags (exP 71) (exP 72) None [] [] [] None
  | 8 => mkFlags (exP 81) (exP 82) None [] [] [] None
  | 9 => mkFlags (exP 91) (exP 92) None [] [] [] None
  | 10 => mkFlags (exP 101) (exP 102) None [] [] [] None
  | _ => no_flags
  end.
Definition exOps : list fop :=
  [FBlock BtEmpty; FConst 7; FIf BtEmpty; FReturn; FElse; FLoop BtEmpty; FBr 0; FEnd; FEnd; FEnd; FEnd].
Definition exT : list instr :=
  [IBlock 0 9 BtEmpty [IPlain 1 (FConst 7);
     IIf 2 (Some 4) 8 BtEmpty [IPlain 3 FReturn] [ILoop 5 7 BtEmpty [IPlain 6 (FBr 0)]]]].
Example ex_parse : parse_body exOps = Some (exT, 10).
Proof. reflexivity. Qed.
Example ex_frag : frag exF exT.
Proof.
  split; [|reflexivity]. intros i. do 11 (destruct i as [|i]; [split; reflexivity|]). split; reflexivity.
Qed.
(* the former D15 shape: block-exit on an `if` whose then-arm contains a block.  Before the repair of D15 the pass
   emitted the exit code at the inner end; it is now keyed by the if's own block id and the equation holds. *)
Definition exD15 : list instr := [IIf 2 None 8 BtEmpty [IBlock 5 7 BtEmpty []] []].
Example resolve_flatten_former_D15_witness_holds :
  frag exF exD15 /\
  emit (fst (resolve true [] [] 0%N (flatF exF exD15 ++ [(FEnd, exF 10)]) (mkLocals 0 0 [])))
  = flat (flat_map (lower exF []) exD15) ++ f_before (exF 10) ++ [FEnd].
Proof.
  assert (H : frag exF exD15).
  { split; [|reflexivity]. intros i. do 11 (destruct i as [|i]; [split; reflexivity|]). split; reflexivity. }
  split; [exact H|]. apply (resolve_flatten exF exD15 10 0%N (mkLocals 0 0 []) H).
Qed.

Print Assumptions resolve_flatten.
Print Assumptions parse_body_flat.
Print Assumptions resolve_flatten_sim.
Print Assumptions model_flatten.
Print Assumptions resolve_flatten_fn.
Print Assumptions resolve_flatten_fn_sim.
Print Assumptions model_flatten_fn.
Print Assumptions resolve_flatten_real.
Print Assumptions parse_body_positions.
Print Assumptions resolve_flatten_real_sim.
Print Assumptions model_flatten_real.
Print Assumptions tree_tie_of_model.
