(* Reflection facts about the boolean list equality of Flat.v, shared by the locals / custom / types engines. *)
From Coq Require Import List NArith Bool.
Import ListNotations.
From Orca Require Import Flat.

Lemma list_eqb_eq {A} (eqb : A -> A -> bool) :
  (forall x y, eqb x y = true -> x = y) ->
  forall a b, list_eqb eqb a b = true -> a = b.
Proof.
  intros H. induction a as [|x a IH]; intros [|y b] E; cbn in E; try discriminate; [reflexivity|].
  apply andb_true_iff in E. destruct E as [E1 E2].
  rewrite (H _ _ E1), (IH _ E2). reflexivity.
Qed.

Lemma list_eqb_refl {A} (eqb : A -> A -> bool) :
  (forall x, eqb x x = true) -> forall a, list_eqb eqb a a = true.
Proof.
  intros H. induction a as [|x a IH]; cbn; [reflexivity|]. rewrite H, IH. reflexivity.
Qed.

Lemma Neqb_eq : forall x y : N, N.eqb x y = true -> x = y.
Proof. intros x y. apply N.eqb_eq. Qed.

Lemma booleqb_eq : forall x y : bool, Bool.eqb x y = true -> x = y.
Proof. intros x y. apply eqb_prop. Qed.
