(* Proofs of the parse engine (C03).

   1. The glue model never panics (`parse_glue_never_panics`, `parse_comp_glue_never_panics`), for every abstract
      input, no size bound; stated through the (now empty) committed table of known panic sites.
   2. The former witnesses of D09a..D09l -- abstractions of the byte strings listed in known_findings.json / harness
      `witnesses()` -- are parsed (optional metadata) or rejected with Err.
   3. The inventory obligations (by vm_compute over the *generated* Gen/GenInventory.v): the hand-written status
      table Model/PanicSites.v lists exactly the generated sites, none of them is `Unknown`, and the classes it
      marks `Reachable` are exactly `known_panic_sites`.
   4. Soundness of the checker of Check/CheckParse.v.

   NOT covered by any of this (see Props/C03.v): panics inside wasmparser itself, allocation failure (e.g. a
   Vec::with_capacity driven by a huge count), stack exhaustion on deeply nested components. *)
From Coq Require Import List NArith Bool Lia String.
Open Scope string_scope.
From Orca Require Import Base.Util Model.ParseGlue Gen.GenInventory Model.PanicSites Check.CheckParse.
Import ListNotations.
Local Open Scope N_scope.

(* ---------------------------------------------------------------------------------------------- *)
(* 1. the model never panics (the table of known sites is empty) *)

Definition known_out (o : outcome) : Prop := match o with OPanic k => In k known_panic_sites | _ => True end.

Lemma eval_ops_known : forall ops t, known_out (eval_ops ops t).
Proof.
  induction ops as [|x r IH]; intro t; cbn [eval_ops]; [exact I|].
  destruct x; try apply IH; try exact I. destruct t; exact I.
Qed.
Lemma eval_cexpr_known : forall e, known_out (eval_cexpr e).
Proof. intro e; apply eval_ops_known. Qed.

Lemma run_globals_known : forall l, known_out (run_globals l).
Proof.
  induction l as [|g r IH]; cbn [run_globals]; [exact I|].
  destruct g as [|e]; [exact I|].
  pose proof (eval_cexpr_known e) as H. destruct (eval_cexpr e); auto.
Qed.
Lemma run_data_known : forall l, known_out (fst (run_data l)).
Proof.
  induction l as [|d r IH]; cbn [run_data]; [exact I|].
  destruct d as [| |e].
  - exact I.
  - destruct (run_data r); exact IH.
  - pose proof (eval_cexpr_known e) as H. destruct (eval_cexpr e); cbn [fst]; auto.
    destruct (run_data r); exact IH.
Qed.
Lemma run_tags_known : forall l, known_out (run_tags l).
Proof. induction l as [|x r IH]; cbn [run_tags]; [exact I|]. destruct x; [exact IH | exact I]. Qed.
Lemma run_fnames_known : forall l, known_out (run_fnames l).
Proof. induction l as [|x r IH]; cbn [run_fnames]; [exact I|]. destruct x; [exact I | exact IH]. Qed.
Lemma run_indirect_known : forall l, known_out (run_indirect l).
Proof.
  induction l as [|x r IH]; cbn [run_indirect]; [exact I|].
  destruct x as [|[|]]; [exact I | exact IH | exact I].
Qed.
Lemma run_name_known : forall l, known_out (run_name l).
Proof.
  induction l as [|x r IH]; cbn [run_name]; [exact I|].
  destruct x as [|f|ok|i|].
  - exact I.
  - pose proof (run_fnames_known f) as H. destruct (run_fnames f); auto.
  - destruct ok; [exact IH | exact I].
  - pose proof (run_indirect_known i) as H. destruct (run_indirect i); auto.
  - exact IH.
Qed.

Lemma step_known : forall mm st e o, step mm st e = inr o -> known_out o.
Proof.
  intros mm st e o H. destruct e; cbn [step] in H.
  - inversion H; exact I.
  - destruct (n =? 1); inversion H; exact I.
  - destruct ok; inversion H; exact I.
  - destruct ok; inversion H; exact I.
  - destruct ok; inversion H; exact I.
  - destruct ok; inversion H; exact I.
  - pose proof (run_globals_known l) as K. destruct (run_globals l); inversion H; subst; auto.
  - pose proof (run_data_known l) as K. destruct (run_data l) as [o' n]. cbn [fst] in K.
    destruct o'; inversion H; subst; auto.
  - destruct (ms_start st); inversion H; exact I.
  - inversion H.
  - inversion H.
  - destruct (negb locals_ok); [inversion H; exact I|].
    destruct (negb ops_ok); [inversion H; exact I|].
    destruct (negb last_end); [inversion H; exact I|].
    destruct (negb mm && nzmem); inversion H; exact I.
  - pose proof (run_tags_known l) as K. destruct (run_tags l); inversion H; subst; auto.
  - pose proof (run_name_known l) as K. destruct (run_name l); inversion H; subst; auto.
  - cbn [run_producers] in H. inversion H.
  - inversion H.
  - inversion H; exact I.
  - inversion H.
  - inversion H; exact I.
Qed.

Lemma check_func_types_known : forall types n funcs, known_out (check_func_types types funcs n).
Proof.
  intros types; induction n as [|n IH]; intros funcs; cbn [check_func_types]; [exact I|].
  destruct funcs as [|t r]; [exact I|].
  destruct (nth_error types (N.to_nat t)) as [[|]|]; [apply IH | exact I | exact I].
Qed.
Lemma finish_known : forall st, known_out (finish st).
Proof.
  intro st; unfold finish.
  destruct (negb (ms_code_count st =? ms_ncode st) || negb (ms_code_count st =? N.of_nat (List.length (ms_funcs st)))); [exact I|].
  destruct (ms_data_count st) as [d|]; [destruct (negb (d =? ms_ndata st)); [exact I|]|]; apply check_func_types_known.
Qed.
Lemma scan_known : forall mm l st, known_out (scan mm st l).
Proof.
  intros mm; induction l as [|e r IH]; intro st; cbn [scan]; [apply finish_known|].
  destruct (step mm st e) as [st'|o] eqn:E; [apply IH | exact (step_known _ _ _ _ E)].
Qed.

Theorem parse_glue_panics_known : forall mm s k, parse_glue mm s = OPanic k -> In k known_panic_sites.
Proof. intros mm s k H. pose proof (scan_known mm s ms0) as K. unfold parse_glue in H. rewrite H in K. exact K. Qed.

(* the table is empty: the model of Module::parse never panics *)
Theorem parse_glue_never_panics : forall mm s k, parse_glue mm s <> OPanic k.
Proof. intros mm s k H. exact (parse_glue_panics_known mm s k H). Qed.

Lemma run_cname_known : forall l, known_out (run_cname l).
Proof.
  induction l as [|x r IH]; cbn [run_cname]; [exact I|].
  destruct x as [|[|]|]; [exact I | exact IH | exact I | exact IH].
Qed.
Lemma cstep_known : forall mm e, known_out (cstep mm e).
Proof.
  intros mm e; destruct e; cbn [cstep]; try exact I.
  - destruct ok; exact I.
  - destruct slice_ok; [apply scan_known | exact I].
  - destruct slice_ok; exact I.
  - apply run_cname_known.
Qed.
Theorem parse_comp_glue_panics_known : forall mm s k, parse_comp_glue mm s = OPanic k -> In k known_panic_sites.
Proof.
  intros mm; induction s as [|e r IH]; intros k H; cbn [parse_comp_glue] in H; [discriminate|].
  pose proof (cstep_known mm e) as K. destruct (cstep mm e) eqn:E; try discriminate.
  - exact (IH k H).
  - inversion H; subst. exact K.
Qed.
Theorem parse_comp_glue_never_panics : forall mm s k, parse_comp_glue mm s <> OPanic k.
Proof. intros mm s k H. exact (parse_comp_glue_panics_known mm s k H). Qed.

(* ---------------------------------------------------------------------------------------------- *)
(* 2. the former witnesses of D09a..D09l: the inputs that used to panic are now parsed or rejected with Err *)

(* (module (type (func)) (func (type 0))) with the name section (function 0 named) *before* the code section -- a valid module *)
Definition w_name_before_code : list mev :=
  [MVersion 1; MTypes [true] true; MFuncs [0] true; MName [NSFunc [NIdx 0]]; MCodeStart 1; MCodeEntry true true true false; MIgnored].
(* the same module with the name section last *)
Definition w_name_after_code : list mev :=
  [MVersion 1; MTypes [true] true; MFuncs [0] true; MCodeStart 1; MCodeEntry true true true false; MName [NSFunc [NIdx 0]]; MIgnored].
(* name section last, but it names function 5 of a module with one function -- still a valid module *)
Definition w_name_index_past_end : list mev :=
  [MVersion 1; MTypes [true] true; MFuncs [0] true; MCodeStart 1; MCodeEntry true true true false; MName [NSFunc [NIdx 5]]; MIgnored].
(* (module (type (func))) + custom section "producers" with zero fields -- a valid module *)
Definition w_producers_empty : list mev := [MVersion 1; MTypes [true] true; MProducers PNone; MIgnored].
(* custom section "producers" whose first field is named "tool" -- a valid module *)
Definition w_producers_badfield : list mev := [MVersion 1; MProducers PFieldErr; MIgnored].
(* custom section "producers", field "language" with a value name that is not UTF-8 -- a valid module *)
Definition w_producers_badvalue : list mev := [MVersion 1; MProducers (PField false); MIgnored].
(* tag section whose attribute byte is 1 *)
Definition w_tag_attribute : list mev := [MVersion 1; MTypes [true] true; MTags [false]; MIgnored].
(* (module (global i32 (i32.add (i32.const 1) (i32.const 2)))) -- valid with the extended-const proposal *)
Definition w_extended_const : list mev := [MVersion 1; MGlobals [GInit ([XOk; XOk; XBad], false)]; MIgnored].
(* (module (type (func)) (func (type 7))) *)
Definition w_func_type_missing : list mev :=
  [MVersion 1; MTypes [true] true; MFuncs [7] true; MCodeStart 1; MCodeEntry true true true false; MIgnored].
(* (module (type (array i32)) (func (type 0))) *)
Definition w_func_type_array : list mev :=
  [MVersion 1; MTypes [false] true; MFuncs [0] true; MCodeStart 1; MCodeEntry true true true false; MIgnored].
(* name section with a type-name map whose name is not UTF-8 -- a valid module *)
Definition w_namemap : list mev := [MVersion 1; MTypes [true] true; MName [NSMap false]; MIgnored].
(* name section with a local-name map that announces two entries and has one -- a valid module *)
Definition w_indirect_namemap : list mev := [MVersion 1; MTypes [true] true; MName [NSInd [IIMap true; IIErr]]; MIgnored].
(* (component) + component-name section whose core-func map has a name that is not UTF-8 *)
Definition w_comp_namemap : list cev := [CSkip; CName [CSMap false; CSErr]; CSkip].
(* component header followed by a core module section that announces 20 bytes when 8 are left *)
Definition w_comp_slice : list cev := [CSkip; CModule false []].

Example name_before_code_parses : parse_glue false w_name_before_code = OOk. Proof. vm_compute; reflexivity. Qed.
Example name_index_past_end_parses : parse_glue false w_name_index_past_end = OOk. Proof. vm_compute; reflexivity. Qed.
Example name_after_code_parses : parse_glue false w_name_after_code = OOk. Proof. vm_compute; reflexivity. Qed.
Example producers_empty_parses : parse_glue false w_producers_empty = OOk. Proof. vm_compute; reflexivity. Qed.
Example producers_badfield_parses : parse_glue false w_producers_badfield = OOk. Proof. vm_compute; reflexivity. Qed.
Example producers_badvalue_parses : parse_glue false w_producers_badvalue = OOk. Proof. vm_compute; reflexivity. Qed.
Example tag_attribute_rejected : parse_glue false w_tag_attribute = OErr. Proof. vm_compute; reflexivity. Qed.
Example extended_const_rejected : parse_glue false w_extended_const = OErr. Proof. vm_compute; reflexivity. Qed.
Example func_type_missing_rejected : parse_glue false w_func_type_missing = OErr. Proof. vm_compute; reflexivity. Qed.
Example func_type_array_rejected : parse_glue false w_func_type_array = OErr. Proof. vm_compute; reflexivity. Qed.
Example namemap_rejected : parse_glue false w_namemap = OErr. Proof. vm_compute; reflexivity. Qed.
Example indirect_namemap_rejected : parse_glue false w_indirect_namemap = OErr. Proof. vm_compute; reflexivity. Qed.
Example comp_namemap_rejected : parse_comp_glue false w_comp_namemap = OErr. Proof. vm_compute; reflexivity. Qed.
Example comp_slice_rejected : parse_comp_glue false w_comp_slice = OErr. Proof. vm_compute; reflexivity. Qed.
(* a nested module with an empty producers section is parsed inside a component as well *)
Example producers_empty_nested_parses : parse_comp_glue false [CSkip; CModule true w_producers_empty; CSkip] = OOk.
Proof. vm_compute; reflexivity. Qed.


(* kept for the table-driven formulation: every listed site is reached by some input (vacuous while the table is empty) *)
Theorem every_known_site_reached : forall k, In k known_panic_sites ->
  (exists mm s, parse_glue mm s = OPanic k) \/ (exists mm s, parse_comp_glue mm s = OPanic k).
Proof. intros k H. destruct H. Qed.

(* ---------------------------------------------------------------------------------------------- *)
(* 3. inventory coverage *)

Definition status_is_unknown (s : status) : bool := match s with Unknown => true | _ => false end.
Definition reachable_classes : list N :=
  flat_map (fun p => match snd p with Reachable k => [k] | _ => [] end) site_status.

(* sites of the generated inventory without a status, and status entries for sites that are no longer generated.
   These two are stated first because their failure message names the offending sites:
   "Unable to unify [] with [{| s_file := "src/ir/module/mod.rs"; s_fn := "Module::parse_internal"; s_kind := "unwrap"; ... |}]" *)
Definition site_eqb (a b : site) : bool :=
  String.eqb (s_file a) (s_file b) && String.eqb (s_fn a) (s_fn b) && String.eqb (s_kind a) (s_kind b)
  && N.eqb (s_ord a) (s_ord b) && String.eqb (s_text a) (s_text b).
Definition sites_without_status : list site :=
  filter (fun s => negb (existsb (site_eqb s) (map fst site_status))) gen_sites.
Definition stale_status_entries : list site :=
  filter (fun s => negb (existsb (site_eqb s) gen_sites)) (map fst site_status).

Theorem inventory_no_site_without_status : sites_without_status = [].
Proof. vm_compute. reflexivity. Qed.
Theorem inventory_no_stale_status : stale_status_entries = [].
Proof. vm_compute. reflexivity. Qed.

(* the status table lists exactly the generated sites, in the generated order: a site added to (or removed from)
   the parse path of /repo changes Gen/GenInventory.v and breaks this proof *)
Theorem inventory_covered : map fst site_status = gen_sites.
Proof. vm_compute. reflexivity. Qed.

Corollary inventory_site_has_status : forall s, In s gen_sites <-> exists st, In (s, st) site_status.
Proof.
  intro s. rewrite <- inventory_covered. rewrite in_map_iff. split.
  - intros [[s' st] [E H]]. cbn [fst] in E. subst s'. exists st; exact H.
  - intros [st H]. exists (s, st). split; [reflexivity | exact H].
Qed.

Theorem inventory_no_unknown : forallb (fun p => negb (status_is_unknown (snd p))) site_status = true.
Proof. vm_compute. reflexivity. Qed.

Lemma mem_N_In : forall k l, mem_N k l = true <-> In k l.
Proof.
  intros k l. unfold mem_N. rewrite existsb_exists. split.
  - intros [x [H E]]. apply N.eqb_eq in E. subst x. exact H.
  - intro H. exists k. split; [exact H | apply N.eqb_refl].
Qed.
Lemma incl_by_compute : forall a b, forallb (fun k => mem_N k b) a = true -> forall k, In k a -> In k b.
Proof. intros a b H k Hk. rewrite forallb_forall in H. apply mem_N_In. exact (H k Hk). Qed.

(* the classes marked Reachable in the status table are exactly the known panic sites *)
Theorem inventory_reachable_eq_known : forall k, In k reachable_classes <-> In k known_panic_sites.
Proof.
  intro k; split; apply incl_by_compute; vm_compute; reflexivity.
Qed.

(* ---------------------------------------------------------------------------------------------- *)
(* 4. checker soundness *)

Lemma outcome_eqb_eq : forall a b, outcome_eqb a b = true -> a = b.
Proof.
  intros a b H; destruct a, b; cbn [outcome_eqb] in H; try discriminate; try reflexivity.
  apply N.eqb_eq in H. subst; reflexivity.
Qed.
Lemma predicts_eq : forall p o, predicts p o = true -> outcome_eqb p OUnmodelled = false -> p = o.
Proof.
  intros p o H U. destruct p; cbn [predicts] in H; try (apply outcome_eqb_eq; exact H).
  cbn [outcome_eqb] in U. discriminate.
Qed.

Lemma agree_modelled : forall c, agree c = true -> modelled c = true ->
  pc_obs_mod c = pred_mod c /\ pc_obs_mod_mm c = pred_mod_mm c /\ pc_obs_comp c = pred_comp c.
Proof.
  intros c A M. unfold agree in A. unfold modelled in M.
  apply andb_true_iff in A. destruct A as [A A3]. apply andb_true_iff in A. destruct A as [A1 A2].
  apply andb_true_iff in M. destruct M as [M M3]. apply andb_true_iff in M. destruct M as [M1 M2].
  apply negb_true_iff in M1, M2, M3.
  repeat split; symmetry; apply predicts_eq; assumption.
Qed.

(* on a case where the model agrees with the implementation and claims to predict, the property holds of the
   implementation's observed behaviour exactly when the model does not panic *)
Theorem checker_sound03 : forall c, agree c = true -> modelled c = true ->
  holds03 c = no_panic (pred_mod c) && no_panic (pred_mod_mm c) && no_panic (pred_comp c).
Proof.
  intros c A M. destruct (agree_modelled c A M) as [E1 [E2 E3]]. unfold holds03. rewrite E1, E2, E3. reflexivity.
Qed.

(* ... and when it fails, every observed panic site is a known one: an agreeing, modelled case is never an
   unlisted failure *)
Theorem agreeing_failures_are_known : forall c, agree c = true -> modelled c = true ->
  forall k, In k (panic_sites c) -> In k known_panic_sites.
Proof.
  intros c A M k H. destruct (agree_modelled c A M) as [E1 [E2 E3]].
  unfold panic_sites in H. cbn [flat_map app] in H. rewrite E1, E2, E3 in H.
  unfold pred_mod, pred_mod_mm, pred_comp in H.
  repeat rewrite in_app_iff in H.
  destruct H as [H|[H|[H|H]]]; try contradiction.
  - destruct (parse_glue false (pi_mod (pc_in c))) eqn:E; cbn [In] in H; try contradiction.
    destruct H as [H|[]]; subst. exact (parse_glue_panics_known _ _ _ E).
  - destruct (parse_glue true (pi_mod (pc_in c))) eqn:E; cbn [In] in H; try contradiction.
    destruct H as [H|[]]; subst. exact (parse_glue_panics_known _ _ _ E).
  - destruct (parse_comp_glue false (pi_comp (pc_in c))) eqn:E; cbn [In] in H; try contradiction.
    destruct H as [H|[]]; subst. exact (parse_comp_glue_panics_known _ _ _ E).
Qed.
