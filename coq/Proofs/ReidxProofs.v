(* Facts about get_mapping_generic (Reindex.mapping) and the index space after recalculate_ids. *)
From Coq Require Import List Arith NArith Bool Lia.
Import ListNotations.
From Orca Require Import Reindex Reorg.
Local Open Scope N_scope.

Lemma lookup_filter_neq (m : list (N * N)) (a k : N) :
  k <> a -> lookup (filter (fun kv => negb (N.eqb (fst kv) a)) m) k = lookup m k.
Proof.
  intros Hne. induction m as [|[k' v] m IH]; [reflexivity|].
  cbn [filter fst]. destruct (N.eqb_spec k' a) as [->|Hk]; cbn [negb].
  - cbn [lookup]. destruct (N.eqb_spec k a); [contradiction|]. exact IH.
  - cbn [lookup]. destruct (N.eqb k k'); [reflexivity|exact IH].
Qed.

Lemma mapping_from_other : forall l pos acc k,
  ~ In k (map it_id l) -> lookup (mapping_from pos l acc) k = lookup acc k.
Proof.
  induction l as [|i l IH]; intros pos acc k Hn; [reflexivity|].
  cbn [mapping_from]. rewrite IH by (intro H; apply Hn; right; exact H).
  cbn [lookup]. destruct (N.eqb_spec k (it_id i)) as [->|Hne].
  - exfalso. apply Hn. left. reflexivity.
  - apply lookup_filter_neq. exact Hne.
Qed.

(* with pairwise distinct stored ids, every item's id is mapped to the item's position *)
Lemma mapping_from_pos : forall l pos acc p it,
  NoDup (map it_id l) -> nth_error l p = Some it ->
  lookup (mapping_from pos l acc) (it_id it) = Some (pos + N.of_nat p).
Proof.
  induction l as [|i l IH]; intros pos acc p it Hnd Hnth; [destruct p; discriminate|].
  cbn [map] in Hnd. apply NoDup_cons_iff in Hnd as [Hni Hnd].
  destruct p as [|p]; cbn in Hnth.
  - inversion Hnth; subst it. cbn [mapping_from].
    rewrite mapping_from_other by exact Hni. cbn [lookup]. rewrite N.eqb_refl. f_equal. lia.
  - cbn [mapping_from]. rewrite (IH (pos + 1) _ p it Hnd Hnth). f_equal. lia.
Qed.

Theorem mapping_pos l p it :
  NoDup (map it_id l) -> nth_error l p = Some it -> lookup (mapping l) (it_id it) = Some (N.of_nat p).
Proof. intros Hnd H. unfold mapping. rewrite (mapping_from_pos l 0 [] p it Hnd H). f_equal. Qed.

(* an id that no item carries has no entry: the reference is rejected ("Deleted function!") *)
Theorem mapping_absent l k : ~ In k (map it_id l) -> lookup (mapping l) k = None.
Proof. intros H. unfold mapping. rewrite mapping_from_other by exact H. reflexivity. Qed.

(* distinct items are mapped to distinct indices *)
Theorem mapping_injective l p q a b :
  NoDup (map it_id l) -> nth_error l p = Some a -> nth_error l q = Some b ->
  lookup (mapping l) (it_id a) = lookup (mapping l) (it_id b) -> p = q.
Proof.
  intros Hnd Ha Hb. rewrite (mapping_pos l p a Hnd Ha), (mapping_pos l q b Hnd Hb).
  intros H. inversion H. lia.
Qed.

(* The index space after recalculate_ids, in closed form: the live original imports, then the live imports
   added or converted later, then the live locals of the later region, then the live locals among the original
   imports (imports replaced by a local function).  No deleted item survives (since the repair of D06 / D26). *)
Theorem index_space_closed_form (s : space) :
  s_recalc s = true -> (N.to_nat (s_num s - s_added s) <= length (s_items s))%nat ->
  forall l m, index_space s = Ok (l, m) ->
    l = spec (N.to_nat (s_num s - s_added s)) (s_items s) /\ m = mapping l.
Proof.
  intros Hr Hle l m H. unfold index_space in H. rewrite Hr in H.
  rewrite reorganise_spec_N in H by exact Hle.
  destruct (N.eqb _ _); inversion H; subst. split; reflexivity.
Qed.

(* no deleted item survives recalculate_ids, whatever its kind and region *)
Theorem spec_no_deleted (orig : nat) (l : list item) (i : item) :
  In i (spec orig l) -> it_del i = false.
Proof.
  unfold spec. intros Hin.
  assert (HA : forall xs, In i (filter keepA xs) -> it_del i = false).
  { intros xs H. apply filter_In in H as [_ H]. unfold keepA in H. apply andb_prop in H as [_ H].
    destruct (it_del i); [discriminate|reflexivity]. }
  assert (HC : forall xs, In i (filter keepC xs) -> it_del i = false).
  { intros xs H. apply filter_In in H as [_ H]. unfold keepC in H. apply andb_prop in H as [_ H].
    destruct (it_del i); [discriminate|reflexivity]. }
  apply in_app_or in Hin as [H|H]; [exact (HA _ H)|].
  apply in_app_or in H as [H|H]; [exact (HA _ H)|].
  apply in_app_or in H as [H|H]; [exact (HC _ H)|exact (HC _ H)].
Qed.
(* ... so "which deleted items survive" has the answer: none *)
Theorem spec_deleted_survivors (orig : nat) (l : list item) (i : item) :
  In i (spec orig l) -> it_del i = true -> False.
Proof. intros Hin Hd. rewrite (spec_no_deleted orig l i Hin) in Hd. discriminate. Qed.

(* every live item of the input is present in the index space (nothing else is dropped) *)
Theorem spec_keeps_live (orig : nat) (l : list item) (i : item) :
  In i l -> it_del i = false -> In i (spec orig l).
Proof.
  intros Hin Hd. unfold spec. rewrite <- (firstn_skipn orig l) in Hin.
  apply in_app_or in Hin as [H|H].
  - destruct (is_local i) eqn:Hl.
    + apply in_or_app. right. apply in_or_app. right. apply in_or_app. right. apply filter_In. split; [exact H|].
      unfold keepC. rewrite Hl, Hd. reflexivity.
    + apply in_or_app. left. apply filter_In. split; [exact H|]. unfold keepA, is_import. rewrite Hl, Hd. reflexivity.
  - destruct (is_local i) eqn:Hl.
    + apply in_or_app. right. apply in_or_app. right. apply in_or_app. left. apply filter_In. split; [exact H|].
      unfold keepC. rewrite Hl, Hd. reflexivity.
    + apply in_or_app. right. apply in_or_app. left. apply filter_In. split; [exact H|].
      unfold keepA, is_import. rewrite Hl, Hd. reflexivity.
Qed.
