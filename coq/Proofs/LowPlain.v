(* C15: for every body and every plan of before / after / alternate / removal injections, the mirror of
   the injection API + resolve + emission produces exactly the specification spec15 (CheckLow.v):
   before-code ++ (replacement | instruction) ++ after-code per site, everything else unchanged and in
   order, only before-code at the final instruction; locals untouched. *)
From Coq Require Import List Arith NArith ZArith Bool Lia.
Import ListNotations.
From Orca Require Import Util Flat Lowering CheckLow.

Definition plan_t := list (nat * mode * list fop).

(* effect of one plain plan entry on the flags of site i *)
Definition step_flags (e : nat * mode * list fop) (i : nat) (f : flags) : flags :=
  let '(j, m, code) := e in
  if Nat.eqb i j then
    match m with
    | MBefore => w_before code f
    | MAfter => w_after code f
    | MAlternate => match code with [] => w_alt_empty f | _ => w_alt_inject code f end
    | _ => f
    end
  else f.

Fixpoint set_flags_from (i : nat) (g : nat -> flags -> flags) (body : list (fop * flags)) : list (fop * flags) :=
  match body with
  | [] => []
  | (op, f) :: b => (op, g i f) :: set_flags_from (S i) g b
  end.

Lemma set_flags_from_compose g1 g2 : forall body k,
  set_flags_from k g2 (set_flags_from k g1 body) = set_flags_from k (fun i f => g2 i (g1 i f)) body.
Proof.
  induction body as [|[op f] b IH]; intros k; cbn [set_flags_from]; [reflexivity|].
  rewrite IH. reflexivity.
Qed.

Lemma set_flags_from_ext g1 g2 : forall body k,
  (forall i f, g1 i f = g2 i f) -> set_flags_from k g1 body = set_flags_from k g2 body.
Proof.
  induction body as [|[op f] b IH]; intros k H; cbn [set_flags_from]; [reflexivity|].
  rewrite H, (IH (S k) H). reflexivity.
Qed.

Lemma set_flags_from_length g : forall body k, length (set_flags_from k g body) = length body.
Proof. induction body as [|[op f] b IH]; intros k; cbn [set_flags_from length]; [reflexivity|]. rewrite IH. reflexivity. Qed.

Lemma upd_nth_set : forall (body : list (fop * flags)) j k op f f',
  nth_error body j = Some (op, f) ->
  upd_nth j (fun _ => Some (op, f')) body
  = Some (set_flags_from k (fun i x => if Nat.eqb i (k + j) then f' else x) body).
Proof.
  induction body as [|[op0 f0] b IH]; intros j k op f f' H.
  - destruct j; discriminate.
  - destruct j as [|j].
    + cbn in H. inversion H; subst. cbn [upd_nth set_flags_from].
      rewrite Nat.add_0_r, Nat.eqb_refl.
      f_equal. f_equal.
      assert (G : forall b' k', k < k' -> set_flags_from k' (fun i x => if Nat.eqb i k then f' else x) b' = b').
      { induction b' as [|[o g] b' IHb]; intros k' Hk; cbn [set_flags_from]; [reflexivity|].
        destruct (Nat.eqb_spec k' k); [lia|]. rewrite IHb by lia. reflexivity. }
      symmetry. apply G. lia.
    + cbn in H. cbn [upd_nth set_flags_from].
      rewrite (IH j (S k) op f f' H).
      destruct (Nat.eqb_spec k (k + S j)); [lia|].
      f_equal. f_equal. apply set_flags_from_ext. intros i x.
      replace (S k + j) with (k + S j) by lia. reflexivity.
Qed.

Lemma add_all_before op : forall xs f sp, add_all op MBefore xs f sp = Some (w_before xs f, sp).
Proof.
  induction xs as [|x xs IH]; intros f sp; cbn [add_all add_instr].
  - unfold w_before. rewrite app_nil_r. destruct f; reflexivity.
  - rewrite IH. unfold w_before; cbn. rewrite <- app_assoc. rewrite orb_false_r. reflexivity.
Qed.
Lemma add_all_after op : forall xs f sp, add_all op MAfter xs f sp = Some (w_after xs f, sp).
Proof.
  induction xs as [|x xs IH]; intros f sp; cbn [add_all add_instr].
  - unfold w_after. rewrite app_nil_r. destruct f; reflexivity.
  - rewrite IH. unfold w_after; cbn. rewrite <- app_assoc. rewrite orb_false_r. reflexivity.
Qed.
Lemma add_all_alt' op : forall xs f sp,
  add_all op MAlternate xs f sp = Some (match xs with [] => f | _ => w_alt_inject xs f end, sp).
Proof.
  induction xs as [|x xs IH]; intros f sp; [reflexivity|].
  cbn [add_all add_instr]. rewrite IH. rewrite orb_false_r.
  destruct xs as [|y xs'].
  - unfold w_alt_inject. destruct (f_alt f); reflexivity.
  - unfold w_alt_inject; cbn [f_before f_after f_alt f_sa f_be f_bx f_balt].
    destruct (f_alt f); cbn; rewrite <- ?app_assoc; reflexivity.
Qed.
Lemma add_all_alt op xs x f sp : add_all op MAlternate (x :: xs) f sp = Some (w_alt_inject (x :: xs) f, sp).
Proof. apply (add_all_alt' op (x :: xs)). Qed.

Lemma nth_error_set_flags g : forall body k j op f,
  nth_error body j = Some (op, f) -> nth_error (set_flags_from k g body) j = Some (op, g (k + j) f).
Proof.
  induction body as [|[o f0] b IH]; intros k j op f H; destruct j; try discriminate; cbn in *.
  - inversion H; subst. rewrite Nat.add_0_r. reflexivity.
  - rewrite (IH (S k) j op f H). replace (S k + j) with (k + S j) by lia. reflexivity.
Qed.

(* one plain entry = one pointwise flags update, and the special flag is untouched *)
Lemma apply_plan_step ma e plan body sp :
  plain_mode (snd (fst e)) = true -> fst (fst e) < length body ->
  apply_plan ma (e :: plan) body sp = apply_plan ma plan (set_flags_from 0 (step_flags e) body) sp.
Proof.
  destruct e as [[j m] code]. cbn [fst snd]. intros Hm Hj.
  destruct (nth_error body j) as [[op f]|] eqn:E; [|apply nth_error_None in E; lia].
  cbn [apply_plan]. rewrite E.
  assert (K : forall f', upd_nth j (fun _ => Some (op, f')) body
              = Some (set_flags_from 0 (fun i x => if Nat.eqb i j then f' else x) body)).
  { intros f'. apply (upd_nth_set body j 0 op f f' E). }
  assert (EXT : forall F : flags -> flags,
            set_flags_from 0 (fun i x => if Nat.eqb i j then F f else x) body
            = set_flags_from 0 (fun i x => if Nat.eqb i j then F x else x) body).
  { intros F.
    assert (G : forall b k, (forall x, nth_error b (j - k) = Some x -> k <= j -> snd x = f) ->
                set_flags_from k (fun i x => if Nat.eqb i j then F f else x) b
                = set_flags_from k (fun i x => if Nat.eqb i j then F x else x) b).
    { induction b as [|[o g] b IHb]; intros k Hk; cbn [set_flags_from]; [reflexivity|].
      rewrite IHb.
      - destruct (Nat.eqb_spec k j); [|reflexivity].
        subst k. specialize (Hk (o, g)). rewrite Nat.sub_diag in Hk. cbn in Hk.
        rewrite (Hk eq_refl (le_n _)). reflexivity.
      - intros x Hx Hle. apply Hk; [|lia].
        replace (j - k) with (S (j - S k)) by lia. exact Hx. }
    apply G. intros x Hx _. rewrite Nat.sub_0_r in Hx. rewrite E in Hx. inversion Hx. reflexivity. }
  assert (SP : sp || false = sp) by (destruct sp; reflexivity).
  destruct m; try discriminate.
  - (* before *)
    destruct code as [|c cs];
      rewrite (add_all_before op _ f false), K, (EXT (w_before _)), SP; reflexivity.
  - (* after *)
    destruct code as [|c cs];
      rewrite (add_all_after op _ f false), K, (EXT (w_after _)), SP; reflexivity.
  - (* alternate *)
    destruct code as [|c cs].
    + fold (w_alt_empty f). rewrite K, (EXT w_alt_empty), orb_false_r. reflexivity.
    + rewrite (add_all_alt op cs c f false), K, (EXT (w_alt_inject (c :: cs))), SP. reflexivity.
Qed.

Fixpoint flags_after (plan : plan_t) (i : nat) (f : flags) : flags :=
  match plan with
  | [] => f
  | e :: p => flags_after p i (step_flags e i f)
  end.

Lemma apply_plan_plain ma : forall plan body sp,
  forallb (fun e => plain_mode (snd (fst e))) plan = true ->
  plan_in_range (length body) plan = true ->
  apply_plan ma plan body sp = Some (set_flags_from 0 (flags_after plan) body, sp).
Proof.
  induction plan as [|e plan IH]; intros body sp Hp Hr.
  - cbn. f_equal. f_equal.
    assert (G : forall b k, set_flags_from k (fun _ f => f) b = b).
    { induction b as [|[o g] b IHb]; intros k; cbn [set_flags_from]; [reflexivity|]. rewrite IHb. reflexivity. }
    symmetry. apply G.
  - cbn [forallb] in Hp. apply andb_prop in Hp as [Hp1 Hp2].
    unfold plan_in_range in Hr. cbn [forallb] in Hr. apply andb_prop in Hr as [Hr1 Hr2].
    apply Nat.ltb_lt in Hr1.
    rewrite apply_plan_step by assumption.
    rewrite IH; [| assumption | unfold plan_in_range; rewrite set_flags_from_length; exact Hr2].
    rewrite set_flags_from_compose. reflexivity.
Qed.

(* the flags a plain plan leaves at site i, in closed form *)
Lemma flags_after_closed : forall plan i f,
  forallb (fun e => plain_mode (snd (fst e))) plan = true ->
  flags_after plan i f
  = mkFlags (f_before f ++ acc_code plan i MBefore) (f_after f ++ acc_code plan i MAfter)
            (acc_repl plan i MAlternate (f_alt f)) (f_sa f) (f_be f) (f_bx f) (f_balt f).
Proof.
  induction plan as [|[[j m] code] plan IH]; intros i f Hp.
  - cbn. rewrite !app_nil_r. destruct f; reflexivity.
  - cbn [forallb fst snd] in Hp. apply andb_prop in Hp as [Hm Hp].
    cbn [flags_after acc_code acc_repl]. rewrite IH by assumption.
    unfold step_flags. destruct (Nat.eqb i j); cbn [andb].
    + destruct m; try discriminate; cbn [mode_eqb].
      * unfold w_before; cbn [f_before f_after f_alt f_sa f_be f_bx f_balt app]; rewrite <- ?app_assoc; reflexivity.
      * unfold w_after; cbn [f_before f_after f_alt f_sa f_be f_bx f_balt app]; rewrite <- ?app_assoc; reflexivity.
      * destruct code as [|c cs]; cbn; reflexivity.
    + cbn. reflexivity.
Qed.

Lemma has_instr_plain f :
  f_sa f = [] -> f_be f = [] -> f_bx f = [] -> f_balt f = None ->
  has_instr f = false -> f_before f = [] /\ f_after f = [] /\ f_alt f = None.
Proof.
  intros H1 H2 H3 H4. unfold has_instr. rewrite H1, H2, H3, H4. cbn.
  destruct (f_before f), (f_after f), (f_alt f); cbn; intros; try discriminate; auto.
Qed.

Lemma emit_from_spec plan (Hp : forallb (fun e => plain_mode (snd (fst e))) plan = true) last :
  forall body i,
  emit_from last i (set_flags_from i (flags_after plan) (map (fun o => (o, no_flags)) body))
  = match body with [] => [] | _ =>
      (fix go (i : nat) (body : list fop) :=
         match body with
         | [] => []
         | op :: b =>
             (acc_code plan i MBefore
              ++ (if last <=? i then [op] else match acc_repl plan i MAlternate None with Some a => a | None => [op] end)
              ++ (if last <=? i then [] else acc_code plan i MAfter)) ++ go (S i) b
         end) i body end.
Proof.
  induction body as [|op b IH]; intros i; [reflexivity|].
  cbn [map set_flags_from emit_from].
  rewrite IH. clear IH.
  rewrite (flags_after_closed plan i no_flags Hp). cbn [f_before f_after f_alt f_sa f_be f_bx f_balt no_flags app].
  set (B := acc_code plan i MBefore). set (A := acc_code plan i MAfter).
  set (R := acc_repl plan i MAlternate None).
  assert (TAIL : match b with
                 | [] => []
                 | _ :: _ => (fix go (i0 : nat) (body : list fop) {struct body} : list fop :=
                     match body with
                     | [] => []
                     | op0 :: b0 =>
                         (acc_code plan i0 MBefore ++
                          (if last <=? i0 then [op0] else match acc_repl plan i0 MAlternate None with Some a => a | None => [op0] end) ++
                          (if last <=? i0 then [] else acc_code plan i0 MAfter)) ++ go (S i0) b0
                     end) (S i) b
                 end
                 = (fix go (i0 : nat) (body : list fop) {struct body} : list fop :=
                     match body with
                     | [] => []
                     | op0 :: b0 =>
                         (acc_code plan i0 MBefore ++
                          (if last <=? i0 then [op0] else match acc_repl plan i0 MAlternate None with Some a => a | None => [op0] end) ++
                          (if last <=? i0 then [] else acc_code plan i0 MAfter)) ++ go (S i0) b0
                     end) (S i) b).
  { destruct b; reflexivity. }
  rewrite TAIL. f_equal.
  destruct (has_instr (mkFlags B A R [] [] [] None)) eqn:HI.
  - cbn [negb f_before f_alt f_after]. destruct R; destruct (last <=? i); reflexivity.
  - apply has_instr_plain in HI; try reflexivity. cbn in HI. destruct HI as (HB & HA & HR).
    rewrite HB, HA, HR. cbn. destruct (last <=? i); reflexivity.
Qed.

Lemma spec15_from_go plan last : forall body i,
  i + length body = S last ->
  spec15_from plan last i body
  = (fix go (i : nat) (body : list fop) :=
         match body with
         | [] => []
         | op :: b =>
             (acc_code plan i MBefore
              ++ (if last <=? i then [op] else match acc_repl plan i MAlternate None with Some a => a | None => [op] end)
              ++ (if last <=? i then [] else acc_code plan i MAfter)) ++ go (S i) b
         end) i body.
Proof.
  induction body as [|op b IH]; intros i Hlen; [reflexivity|].
  cbn [spec15_from]. cbn [length] in Hlen. unfold render15.
  destruct b as [|op' b'].
  - cbn [length] in Hlen. assert (i = last) by lia. subst i.
    rewrite Nat.eqb_refl, Nat.leb_refl. reflexivity.
  - rewrite IH by (cbn [length] in *; lia).
    cbn [length] in Hlen.
    destruct (Nat.eqb_spec i last); [lia|].
    destruct (Nat.leb_spec last i); [lia|]. reflexivity.
Qed.

Theorem lowering_plain_exact (c : lcase) :
  domain15 c = true ->
  model c = Some (spec15 (c_plan c) (c_body c), c_groups c).
Proof.
  unfold domain15. intros H.
  repeat (apply andb_prop in H as [H ?]).
  match goal with Hx : negb (is_nil (c_body c)) = true |- _ => rename Hx into Hbody end.
  match goal with Hx : is_nil (c_exit c) = true |- _ => rename Hx into Hexit end.
  match goal with Hx : is_nil (c_entry c) = true |- _ => rename Hx into Hentry end.
  match goal with Hx : plan_in_range _ _ = true |- _ => rename Hx into Hrange end.
  unfold model.
  rewrite apply_plan_plain; [| assumption | rewrite map_length; assumption].
  rewrite Hentry, Hexit. cbn [orb negb andb].
  unfold resolve. cbn [negb].
  f_equal. f_equal.
  unfold emit, spec15. rewrite set_flags_from_length, map_length.
  rewrite (emit_from_spec (c_plan c) H).
  destruct (c_body c) as [|op b] eqn:Eb; [discriminate|].
  rewrite spec15_from_go; [reflexivity|]. cbn [length]. lia.
Qed.

(* the checker evaluated on harness cases is sound: whenever the implementation agrees with the model on
   a case inside the domain, the observed output satisfies the specification *)
Theorem checker15_sound (c : lcase) : agree c = true -> domain15 c = true -> holds15 c = true.
Proof.
  intros Ha Hd. unfold agree in Ha. rewrite (lowering_plain_exact c Hd) in Ha.
  unfold holds15. destruct (c_obs c) as [[b' g']|]; [exact Ha|discriminate].
Qed.

(* an empty plan leaves the body untouched *)
Lemma spec15_nil body : spec15 [] body = body.
Proof.
  unfold spec15. generalize (length body - 1) as last. generalize 0 as i.
  induction body as [|op b IH]; intros i last; [reflexivity|].
  cbn [spec15_from]. unfold render15. cbn [acc_code acc_repl app].
  destruct (Nat.eqb i last); cbn; rewrite IH; reflexivity.
Qed.
