(* C05, index side: theorems about the model of the second encode (Model/Reindex2.v).
   1. settled_second_encode_same: when no item vector is reorganised and every id map is the identity ("settled",
      an executable predicate), the second encoding IS the first one, for every set of references.
   2. pristine_settled / untouched_spaces_second_encode_same: every well-formed state none of whose three spaces was
      ever flagged for recalculation is settled -- every freshly parsed module, and every history of calls that do
      not flag a space (add_global, add_export_*, add_data, delete of an export).
   3. checker05_sound: on a case where the model agrees with the implementation (including the model's prediction
      for the second encode) and which the model does not put into the known class D01, the two real encodings were
      observed equal. *)
From Coq Require Import List Arith NArith Bool Lia.
Import ListNotations.
From Orca Require Import Util Reindex Reindex2 CheckReidx CheckReidx2 ReidxInv.
Local Open Scope N_scope.

Lemma id_map_lookup : forall m k q, id_map m = true -> lookup m k = Some q -> q = k.
Proof.
  induction m as [|[k' v] m IH]; intros k q Hm Hl; cbn [lookup] in Hl; [discriminate|].
  unfold id_map in Hm. cbn [forallb fst snd] in Hm. apply andb_true_iff in Hm. destruct Hm as [Hkv Hm].
  destruct (N.eqb_spec k k') as [E|_].
  - injection Hl as Hl. apply N.eqb_eq in Hkv. congruence.
  - exact (IH k q Hm Hl).
Qed.

Lemma site_eta s : mkSite (rs_k s) (rs_sp s) (rs_id s) (rs_owner s) = s.
Proof. destruct s; reflexivity. Qed.
Lemma res_eta {A} (x : res (list A)) : match x with Panic w => Panic w | Ok rest => Ok rest end = x.
Proof. destruct x; reflexivity. Qed.

(* under identity maps the first encode leaves every walked reference as it was (a deleted start function is
   dropped, and was not emitted in the first place) *)
Lemma emit_sites2_identity lf lg dead mf mg mm :
  id_map mf = true -> id_map mg = true -> id_map mm = true ->
  forall ss n, emit_sites2 n lf lg dead mf mg mm (sites_after lf lg dead mf mg mm ss) = emit_sites n lf lg dead mf mg mm ss.
Proof.
  intros Hf Hg Hm. induction ss as [|s ss IH]; intros n; [reflexivity|].
  cbn [sites_after map emit_sites]. fold (sites_after lf lg dead mf mg mm ss).
  destruct (site_active lf lg dead s) eqn:Ha.
  2:{ cbn [emit_sites2]. rewrite Ha. apply IH. }
  unfold site_after.
  assert (Hid : forall q, lookup (match rs_sp s with SF => mf | SG => mg | SM => mm end) (rs_id s) = Some q -> q = rs_id s).
  { intros q. destruct (rs_sp s); intros Hq;
    [exact (id_map_lookup _ _ _ Hf Hq) | exact (id_map_lookup _ _ _ Hg Hq) | exact (id_map_lookup _ _ _ Hm Hq)]. }
  destruct (in_place (rs_k s)) eqn:Hip.
  2:{ cbn [emit_sites2]. rewrite Ha, IH. reflexivity. }
  destruct (lookup (match rs_sp s with SF => mf | SG => mg | SM => mm end) (rs_id s)) as [q|] eqn:Hl.
  - rewrite (Hid q eq_refl), site_eta. cbn [emit_sites2]. rewrite Ha, IH. reflexivity.
  - destruct (rs_k s) eqn:Hk; try (cbn [emit_sites2]; rewrite Ha, IH; reflexivity).
    (* KStart, deleted start function *)
    cbn [emit_sites2]. rewrite IH. unfold site_emit. rewrite Hk, Hl.
    destruct (rs_sp s); rewrite res_eta; reflexivity.
Qed.

Lemma item_leqb_eq : forall l l',
  leqb (fun a b => N.eqb (it_id a) (it_id b) && Bool.eqb (it_del a) (it_del b)
                   && optN_eqb (it_imp a) (it_imp b) && N.eqb (it_fp a) (it_fp b)) l l' = true -> l = l'.
Proof.
  induction l as [|a l IH]; intros [|b l'] H; cbn [leqb] in H; try discriminate; [reflexivity|].
  apply andb_true_iff in H. destruct H as [Hab Hr]. rewrite (IH _ Hr). f_equal.
  apply andb_true_iff in Hab. destruct Hab as [Hab Hfp]. apply andb_true_iff in Hab. destruct Hab as [Hab Himp].
  apply andb_true_iff in Hab. destruct Hab as [Hid Hdel].
  destruct a as [ia ima da fa], b as [ib imb db fb]. cbn [it_id it_del it_imp it_fp] in *.
  apply N.eqb_eq in Hid, Hfp. apply eqb_prop in Hdel.
  assert (ima = imb).
  { destruct ima, imb; cbn [optN_eqb] in Himp; try discriminate; [apply N.eqb_eq in Himp; congruence | reflexivity]. }
  congruence.
Qed.

Lemma settled_space_spec s : settled_space s = true ->
  exists mp, index_space s = Ok (s_items s, mp) /\ id_map mp = true.
Proof.
  unfold settled_space. destruct (index_space s) as [[l mp]|w] eqn:E; [|discriminate].
  intros H. apply andb_true_iff in H. destruct H as [Hid Hl]. exists mp. split; [|exact Hid].
  destruct (s_recalc s) eqn:Hr.
  - rewrite (item_leqb_eq _ _ Hl). reflexivity.
  - unfold index_space in E. rewrite Hr in E. injection E as E1 E2. subst. reflexivity.
Qed.

Lemma space_after_same s : space_after s (s_items s) = s.
Proof. destruct s; reflexivity. Qed.

Theorem settled_second_encode_same : forall m dead sites e,
  settled m = true -> encode m dead sites = Ok e -> encode_again m dead sites = Ok e.
Proof.
  intros m dead sites e Hs He. unfold settled in Hs.
  apply andb_true_iff in Hs. destruct Hs as [Hs Hm]. apply andb_true_iff in Hs. destruct Hs as [Hf Hg].
  destruct (settled_space_spec _ Hf) as [mf [Ef If]].
  destruct (settled_space_spec _ Hg) as [mg [Eg Ig]].
  destruct (settled_space_spec _ Hm) as [mm [Em Im]].
  unfold encode_again, after_encode. rewrite Ef, Eg, Em, !space_after_same.
  replace (mkM (m_f m) (m_g m) (m_m m) (m_imports m)) with m by (destruct m; reflexivity).
  unfold encode_opt. unfold encode in He. rewrite Ef, Eg, Em in *.
  rewrite (emit_sites2_identity _ _ dead mf mg mm If Ig Im sites 0). exact He.
Qed.

(* ------------------------------------------------------------------------------------------ *)
(* a space that was never flagged is settled *)
Lemma forallb_filter {A} (p q : A -> bool) : forall l, forallb p l = true -> forallb p (filter q l) = true.
Proof.
  induction l as [|a l IH]; intros H; [reflexivity|]. cbn [forallb] in H. apply andb_true_iff in H. destruct H as [Ha Hl].
  cbn [filter]. destruct (q a); [cbn [forallb]; rewrite Ha, (IH Hl); reflexivity | exact (IH Hl)].
Qed.

Lemma mapping_from_id : forall l pos acc,
  (forall p it, nth_error l p = Some it -> it_id it = pos + N.of_nat p) ->
  id_map acc = true -> id_map (mapping_from pos l acc) = true.
Proof.
  induction l as [|i l IH]; intros pos acc Hids Hacc; cbn [mapping_from]; [exact Hacc|].
  apply IH.
  - intros p it Hn. rewrite (Hids (S p) it Hn). lia.
  - unfold id_map. cbn [forallb fst snd]. rewrite (Hids 0%nat i eq_refl). rewrite N.add_0_r, N.eqb_refl. cbn [andb].
    apply forallb_filter. exact Hacc.
Qed.

Lemma pristine_space_settled code imps x : wf_space code imps x -> s_recalc x = false -> settled_space x = true.
Proof.
  intros W Hr. unfold settled_space, index_space. rewrite Hr. rewrite andb_true_r.
  unfold mapping. apply mapping_from_id; [|reflexivity].
  intros p it Hn. rewrite (wf_ids _ _ _ W p it Hn). lia.
Qed.

Theorem pristine_settled : forall m, wf m -> (forall x, s_recalc (get_sp m x) = false) -> settled m = true.
Proof.
  intros m W Hr. unfold settled.
  pose proof (pristine_space_settled _ _ _ (W SF) (Hr SF)) as Hf.
  pose proof (pristine_space_settled _ _ _ (W SG) (Hr SG)) as Hg.
  pose proof (pristine_space_settled _ _ _ (W SM) (Hr SM)) as Hm.
  cbn [get_sp] in Hf, Hg, Hm. rewrite Hf, Hg, Hm. reflexivity.
Qed.

(* every state reached from a parsed module by a history that flags no space: second encoding = first encoding *)
Theorem untouched_spaces_second_encode_same : forall (c : rcase) h m rets dead sites e,
  run_pref (mk_base c) h [] = (m, rets, false) ->
  (forall x, s_recalc (get_sp m x) = false) ->
  encode m dead sites = Ok e -> encode_again m dead sites = Ok e.
Proof.
  intros c h m rets dead sites e Hrun Hr He.
  apply settled_second_encode_same; [|exact He].
  apply pristine_settled; [|exact Hr].
  exact (run_pref_wf h (mk_base c) [] m rets false (wf_mk_base c) Hrun).
Qed.

(* in particular the unmodified module *)
Corollary parsed_module_second_encode_same : forall (c : rcase) dead sites e,
  encode (mk_base c) dead sites = Ok e -> encode_again (mk_base c) dead sites = Ok e.
Proof.
  intros c dead sites e He.
  apply (untouched_spaces_second_encode_same c [] (mk_base c) [] dead sites e eq_refl); [|exact He].
  intros []; reflexivity.
Qed.

(* ------------------------------------------------------------------------------------------ *)
Lemma agree05_same2 : forall c2 : rcase2,
  agree05 c2 = true -> negb (o_api_panic (rc2 c2)) && encoded (rc2 c2) = true ->
  exists b, model_same2 (rc2 c2) = Some b /\ o_same2 (rc2 c2) = b.
Proof.
  intros c2 Ha Hd. unfold agree05 in Ha. apply andb_true_iff in Ha. destruct Ha as [_ Ha].
  apply andb_true_iff in Hd. destruct Hd as [Hp He]. apply negb_true_iff in Hp. rewrite Hp in Ha.
  unfold model_same2.
  destruct (encode (final_model (rc2 c2)) (dead_exports (h_ops (rc2 c2))) (sites (rc2 c2))) as [e1|w].
  2:{ rewrite He in Ha. discriminate. }
  apply andb_true_iff in Ha. destruct Ha as [_ Ha].
  destruct (encode_again (final_model (rc2 c2)) (dead_exports (h_ops (rc2 c2))) (sites (rc2 c2))) as [e2|w].
  - apply andb_true_iff in Ha. destruct Ha as [_ Ha]. exists (emod_eqb e1 e2). split; [reflexivity|].
    apply eqb_prop in Ha. symmetry. exact Ha.
  - apply andb_true_iff in Ha. destruct Ha as [_ Ha]. exists false. split; [reflexivity|].
    apply negb_true_iff in Ha. exact Ha.
Qed.

Theorem checker05_sound : forall c2 : rcase2,
  agree05 c2 = true -> negb (o_api_panic (rc2 c2)) && encoded (rc2 c2) = true -> known_D01 (rc2 c2) = false ->
  o_same2 (rc2 c2) = true.
Proof.
  intros c2 Ha Hd Hk. destruct (agree05_same2 c2 Ha Hd) as [b [Hm Hb]]. unfold known_D01 in Hk. rewrite Hm in Hk.
  destruct b; [exact Hb|discriminate].
Qed.

(* the class is exact on agreeing cases: inside D01 the two real encodings were observed to differ *)
Theorem known_D01_exact : forall c2 : rcase2,
  agree05 c2 = true -> negb (o_api_panic (rc2 c2)) && encoded (rc2 c2) = true -> known_D01 (rc2 c2) = true ->
  o_same2 (rc2 c2) = false.
Proof.
  intros c2 Ha Hd Hk. destruct (agree05_same2 c2 Ha Hd) as [b [Hm Hb]]. unfold known_D01 in Hk. rewrite Hm in Hk.
  destruct b; [discriminate|exact Hb].
Qed.

(* on agreeing cases the CONTENT of the second real encoding is what the model of the in-place rewriting emits *)
Theorem second_encoding_is_the_models : forall (c2 : rcase2) e2,
  agree05 c2 = true -> negb (o_api_panic (rc2 c2)) && encoded (rc2 c2) = true ->
  encode_again (final_model (rc2 c2)) (dead_exports (h_ops (rc2 c2))) (sites (rc2 c2)) = Ok e2 ->
  exists e2', o_enc2 c2 = Some e2' /\ emod_eqb e2 e2' = true.
Proof.
  intros c2 e2 Ha Hd H2. unfold agree05 in Ha. apply andb_true_iff in Ha. destruct Ha as [_ Ha].
  apply andb_true_iff in Hd. destruct Hd as [Hp He]. apply negb_true_iff in Hp. rewrite Hp in Ha.
  destruct (encode (final_model (rc2 c2)) (dead_exports (h_ops (rc2 c2))) (sites (rc2 c2))) as [e1|w].
  2:{ rewrite He in Ha. discriminate. }
  apply andb_true_iff in Ha. destruct Ha as [_ Ha]. rewrite H2 in Ha.
  apply andb_true_iff in Ha. destruct Ha as [Ha _].
  destruct (o_enc2 c2) as [e2'|]; [|discriminate]. exists e2'. split; [reflexivity|exact Ha].
Qed.
