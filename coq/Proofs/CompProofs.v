(* C27: proofs about the component model (Model/Comp.v) against the specification of CheckComp.v.

   Part 1 (parse).  For every tree, at any nesting depth, parse_comp's loop over the inline payload stream yields
   exactly the "ideal" IR in which every level has logged its own sections only ([parse_ideal]): while a level
   skips the inline payloads of a nested body it follows their nesting, so the stack is back at its old height
   exactly behind the End that closes that body ([skip_node]).
   Part 2 (replay).  Replaying the ideal IR gives exactly the normal form of the input tree (with the items
   re-encoded): run-length log + per-kind cursors = merging of adjacent item sections ([replay_ideal]).
   Part 3.  The theorems of Props/C27.v. *)
From Coq Require Import List Arith NArith Bool Lia.
Import ListNotations.
From Orca Require Import Util Comp CheckComp.

(* ------------------------------------------------------------------------------------------ *)
(* induction on trees *)
Section NodeInd.
  Variable P : node -> Prop.
  Hypothesis HItems : forall k its, P (NItems k its).
  Hypothesis HMod : forall t cs, P (NMod t cs).
  Hypothesis HCustom : forall t, P (NCustom t).
  Hypothesis HStart : forall t, P (NStart t).
  Hypothesis HNames : forall es, P (NNames es).
  Hypothesis HComp : forall cs, Forall P cs -> P (NComp cs).
  Fixpoint node_ind' (nd : node) : P nd :=
    match nd with
    | NItems k its => HItems k its
    | NMod t cs => HMod t cs
    | NCustom t => HCustom t
    | NStart t => HStart t
    | NNames es => HNames es
    | NComp cs =>
        HComp cs ((fix go (l : list node) : Forall P l :=
                     match l with
                     | [] => Forall_nil P
                     | x :: r => Forall_cons x (node_ind' x) (go r)
                     end) cs)
    end.
End NodeInd.

(* ------------------------------------------------------------------------------------------ *)
(* Part 1: the stack discipline *)

(* the three kinds of step in skip mode (stack non-empty after the pop) *)
Definition is_plain (p : payload) : bool :=
  match p with PEnd | PModule _ _ | PComponent _ => false | _ => true end.
Definition is_push (p : payload) : bool :=
  match p with PModule _ _ | PComponent _ => true | _ => false end.

Lemma step_skip_plain nested s a p :
  s <> 0%N -> is_plain p = true -> step nested (s, a) p = (s, a).
Proof.
  intros Hs Hp. unfold step.
  destruct p; try discriminate Hp; cbv beta iota zeta;
    (destruct (s =? 0)%N eqn:E; [apply N.eqb_eq in E; contradiction|reflexivity]).
Qed.
Lemma step_skip_push nested s a p :
  s <> 0%N -> is_push p = true -> step nested (s, a) p = ((s + 1)%N, a).
Proof.
  intros Hs Hp. unfold step.
  destruct p; try discriminate Hp; cbv beta iota zeta;
    (destruct (s =? 0)%N eqn:E; [apply N.eqb_eq in E; contradiction|reflexivity]).
Qed.
Lemma step_skip_pop nested s a :
  s <> 0%N -> step nested ((s + 1)%N, a) PEnd = (s, a).
Proof.
  intros Hs. unfold step. cbv beta iota zeta.
  rewrite N.add_1_r, N.pred_succ.
  destruct (s =? 0)%N eqn:E; [apply N.eqb_eq in E; contradiction|reflexivity].
Qed.

Lemma skip_plain nested : forall ps rest s a,
  s <> 0%N -> forallb is_plain ps = true ->
  fold_left (step nested) (ps ++ rest) (s, a) = fold_left (step nested) rest (s, a).
Proof.
  induction ps as [|p ps IH]; intros rest s a Hs H; [reflexivity|].
  cbn [forallb] in H. apply andb_true_iff in H. destruct H as [Hp H].
  cbn [app fold_left]. rewrite step_skip_plain by assumption. apply IH; assumption.
Qed.

(* The inline payloads of one section -- of a whole nested body, whatever it contains and however deep it is -- are
   skipped by a level whose stack is non-empty, and leave that stack as it was: the ModuleSection /
   ComponentSection payload pushes, the body's own End pops. *)
Definition skips (nd : node) : Prop :=
  forall nested rest s a, s <> 0%N ->
    fold_left (step nested) (stream_node nd ++ rest) (s, a) = fold_left (step nested) rest (s, a).

Lemma skip_list cs : Forall skips cs ->
  forall nested rest s a, s <> 0%N ->
    fold_left (step nested) (flat_map stream_node cs ++ rest) (s, a) = fold_left (step nested) rest (s, a).
Proof.
  induction 1 as [|c cs Hc _ IH]; intros nested rest s a Hs; [reflexivity|].
  cbn [flat_map]. rewrite <- app_assoc, Hc by exact Hs. apply IH. exact Hs.
Qed.

Lemma skip_node : forall nd, skips nd.
Proof.
  induction nd using node_ind'; unfold skips; intros nested rest s a Hs.
  1,3,4,5: cbn [stream_node app fold_left]; rewrite step_skip_plain by (try exact Hs; reflexivity); reflexivity.
  - (* a module: its ModuleSection payload pushes, Version and custom sections are ignored, its End pops *)
    cbn [stream_node app fold_left].
    rewrite step_skip_push by (try exact Hs; reflexivity).
    assert (Hs1 : (s + 1)%N <> 0%N) by lia.
    rewrite step_skip_plain by (try exact Hs1; reflexivity).
    rewrite <- app_assoc, skip_plain;
      [|exact Hs1|rewrite forallb_forall; intros p Hp; apply in_map_iff in Hp; destruct Hp as [x [<- _]]; reflexivity].
    cbn [app fold_left]. rewrite step_skip_pop by exact Hs. reflexivity.
  - (* a nested component: push, skip its sections one level higher, pop at its own End *)
    cbn [stream_node app fold_left].
    rewrite step_skip_push by (try exact Hs; reflexivity).
    assert (Hs1 : (s + 1)%N <> 0%N) by lia.
    rewrite step_skip_plain by (try exact Hs1; reflexivity).
    rewrite <- app_assoc, (skip_list cs H) by exact Hs1.
    cbn [app fold_left]. rewrite step_skip_pop by exact Hs. reflexivity.
Qed.

Lemma skip_nodes nested cs rest s a :
  s <> 0%N ->
  fold_left (step nested) (flat_map stream_node cs ++ rest) (s, a) = fold_left (step nested) rest (s, a).
Proof. apply skip_list. rewrite Forall_forall. intros nd _. apply skip_node. Qed.

(* the IR in which every level has absorbed exactly its own sections *)
Definition absorb (a : ir) (nd : node) (sub : ir) : ir :=
  match nd with
  | NItems k its => add_items a k its
  | NMod t _ => add_mod a t
  | NCustom t => add_custom a t
  | NStart t => add_start a t
  | NNames es => add_names a es
  | NComp _ => add_comp a sub
  end.
Fixpoint ideal_node (nd : node) : ir :=
  match nd with
  | NComp cs => fold_left (fun a c => absorb a c (ideal_node c)) cs empty_ir
  | _ => empty_ir
  end.
Definition ideal_from (a : ir) (cs : list node) : ir := fold_left (fun a c => absorb a c (ideal_node c)) cs a.
Definition ideal (cs : list node) : ir := ideal_from empty_ir cs.

Lemma depth_cons c cs : depth (c :: cs) = Nat.max (depth_node c) (depth cs).
Proof. reflexivity. Qed.

(* the loop over the sections of one level *)
Definition parse_ok (nd : node) : Prop :=
  match nd with
  | NComp cs => forall f, (depth cs < f)%nat -> parse_fuel f (stream cs) = ideal cs
  | _ => True
  end.

Lemma loop_level f : forall cs,
  Forall parse_ok cs -> (depth cs <= f)%nat ->
  forall rest a,
    fold_left (step (parse_fuel f)) (flat_map stream_node cs ++ rest) (0%N, a)
    = fold_left (step (parse_fuel f)) rest (0%N, ideal_from a cs).
Proof.
  induction cs as [|c cs IH]; intros HP Hd rest a; [reflexivity|].
  inversion HP as [|? ? Hc0 HP']; subst.
  rewrite depth_cons in Hd.
  cbn [flat_map]. rewrite <- app_assoc.
  assert (Hrest : forall a', a' = absorb a c (ideal_node c) ->
            fold_left (step (parse_fuel f)) (flat_map stream_node cs ++ rest) (0%N, a')
            = fold_left (step (parse_fuel f)) rest (0%N, ideal_from a (c :: cs))).
  { intros a' ->. rewrite IH; [reflexivity|assumption|lia]. }
  assert (H1 : 1%N <> 0%N) by discriminate.
  destruct c; cbn [stream_node] in *.
  1,3,4,5: cbn [app fold_left]; apply Hrest; reflexivity.
  - (* module: handled, then its Version / custom sections are skipped and its End empties the stack *)
    cbn [app fold_left].
    replace (step (parse_fuel f) (0%N, a) (PModule tok customs)) with (1%N, add_mod a tok) by reflexivity.
    rewrite step_skip_plain by (try exact H1; reflexivity).
    rewrite <- app_assoc, skip_plain;
      [|exact H1|rewrite forallb_forall; intros p Hp; apply in_map_iff in Hp; destruct Hp as [x [<- _]]; reflexivity].
    cbn [app fold_left].
    replace (step (parse_fuel f) (1%N, add_mod a tok) PEnd) with (0%N, add_mod a tok) by reflexivity.
    apply Hrest. reflexivity.
  - (* nested component: parsed recursively from its own byte range, then its inline payloads are skipped -- at any
       depth -- and its own End empties the stack *)
    cbn [depth_node] in Hd. fold (depth children) in Hd.
    assert (Hnested : parse_fuel f (stream children) = ideal children) by (apply Hc0; lia).
    cbn [app fold_left].
    replace (step (parse_fuel f) (0%N, a) (PComponent children))
      with (1%N, add_comp a (parse_fuel f (stream children))) by reflexivity.
    rewrite Hnested.
    rewrite step_skip_plain by (try exact H1; reflexivity).
    rewrite <- app_assoc, skip_nodes by exact H1.
    cbn [app fold_left].
    replace (step (parse_fuel f) (1%N, add_comp a (ideal children)) PEnd) with (0%N, add_comp a (ideal children)) by reflexivity.
    apply Hrest. reflexivity.
Qed.

Lemma parse_ok_all : forall nd, parse_ok nd.
Proof.
  induction nd using node_ind'; cbn [parse_ok]; auto.
  intros f Hf. destruct f as [|f]; [lia|].
  cbn [parse_fuel]. unfold stream, init_state.
  cbn [fold_left]. replace (step (parse_fuel f) (0%N, empty_ir) PVersion) with (0%N, empty_ir) by reflexivity.
  rewrite (loop_level f cs H ltac:(lia) [PEnd] empty_ir).
  reflexivity.
Qed.

(* parse_comp attributes every section to the level it belongs to: for EVERY tree, at any depth *)
Theorem parse_ideal cs : parse cs = ideal cs.
Proof.
  unfold parse. apply (parse_ok_all (NComp cs)). lia.
Qed.

(* ------------------------------------------------------------------------------------------ *)
(* Part 2: the ideal IR in closed form *)

Definition ir_log (i : ir) := match i with IR l _ _ _ _ _ _ _ => l end.
Definition ir_items (i : ir) := match i with IR _ s _ _ _ _ _ _ => s end.
Definition ir_mods (i : ir) := match i with IR _ _ m _ _ _ _ _ => m end.
Definition ir_comps (i : ir) := match i with IR _ _ _ c _ _ _ _ => c end.
Definition ir_customs (i : ir) := match i with IR _ _ _ _ u _ _ _ => u end.
Definition ir_starts (i : ir) := match i with IR _ _ _ _ _ s _ _ => s end.
Definition ir_cname (i : ir) := match i with IR _ _ _ _ _ _ c _ => c end.
Definition ir_names (i : ir) := match i with IR _ _ _ _ _ _ _ n => n end.

Definition entry_of (nd : node) : option (N * kind) :=
  match nd with
  | NItems k its => Some (N.of_nat (length its), KItems k)
  | NMod _ _ => Some (1%N, KModule)
  | NComp _ => Some (1%N, KComponent)
  | NCustom _ => Some (1%N, KCustom)
  | NStart _ => Some (1%N, KStart)
  | NNames _ => None
  end.
Definition log_step (l : list (N * kind)) (nd : node) : list (N * kind) :=
  match entry_of nd with Some (n, k) => log_add l n k | None => l end.
Definition log_from (l : list (N * kind)) (cs : list node) := fold_left log_step cs l.

Definition items1 (k : ikind) (nd : node) : list N :=
  match nd with NItems k' its => if ikind_eqb k' k then its else [] | _ => [] end.
Definition items_of (k : ikind) (cs : list node) : list N := flat_map (items1 k) cs.
Definition store_of (cs : list node) : store :=
  mkStore (items_of IAlias cs) (items_of ICoreType cs) (items_of ICompType cs) (items_of IImport cs)
          (items_of IExport cs) (items_of ICoreInst cs) (items_of ICompInst cs) (items_of ICanon cs).
Definition sapp (a b : store) : store :=
  mkStore (s_alias a ++ s_alias b) (s_coretype a ++ s_coretype b) (s_comptype a ++ s_comptype b)
          (s_import a ++ s_import b) (s_export a ++ s_export b) (s_coreinst a ++ s_coreinst b)
          (s_compinst a ++ s_compinst b) (s_canon a ++ s_canon b).
Definition mods1 (nd : node) : list N := match nd with NMod t _ => [t] | _ => [] end.
Definition comps1 (nd : node) : list ir := match nd with NComp c => [ideal c] | _ => [] end.
Definition customs1 (nd : node) : list N := match nd with NCustom t => [t] | _ => [] end.
Definition starts1 (nd : node) : list N := match nd with NStart t => [t] | _ => [] end.
Definition nm_step (st : option N * list (N * N)) (e : N * N) : option N * list (N * N) :=
  if (fst e =? 0)%N then (Some (snd e), snd st) else (fst st, snd st ++ [e]).

Lemma sget_sapp a b k : sget (sapp a b) k = sget a k ++ sget b k.
Proof. destruct k; reflexivity. Qed.
Lemma sget_store_of cs k : sget (store_of cs) k = items_of k cs.
Proof. destruct k; reflexivity. Qed.
Lemma sget_sset_same s k v : sget (sset s k v) k = v.
Proof. destruct k; reflexivity. Qed.
Lemma sget_sset_other s k j v : ikind_eqb k j = false -> sget (sset s k v) j = sget s j.
Proof. destruct k, j; intros H; try reflexivity; discriminate H. Qed.
Lemma store_ext a b : (forall k, sget a k = sget b k) -> a = b.
Proof.
  intros H. destruct a, b.
  pose proof (H IAlias). pose proof (H ICoreType). pose proof (H ICompType). pose proof (H IImport).
  pose proof (H IExport). pose proof (H ICoreInst). pose proof (H ICompInst). pose proof (H ICanon).
  cbn in *. congruence.
Qed.
Lemma ikind_eqb_refl k : ikind_eqb k k = true.
Proof. destruct k; reflexivity. Qed.
Lemma ikind_eqb_eq k j : ikind_eqb k j = true -> k = j.
Proof. destruct k, j; intros H; try reflexivity; discriminate H. Qed.
Lemma kind_eqb_eq k j : kind_eqb k j = true -> k = j.
Proof.
  destruct k, j; intros H; try reflexivity; try discriminate H.
  cbn in H. apply ikind_eqb_eq in H. congruence.
Qed.
Lemma kind_eqb_refl k : kind_eqb k k = true.
Proof. destruct k; try reflexivity. apply ikind_eqb_refl. Qed.

Lemma sapp_assoc a b c : sapp (sapp a b) c = sapp a (sapp b c).
Proof. apply store_ext. intros k. rewrite !sget_sapp, app_assoc. reflexivity. Qed.
Lemma sapp_empty a : sapp a (store_of []) = a.
Proof. apply store_ext. intros k. rewrite sget_sapp, sget_store_of. cbn. apply app_nil_r. Qed.
Lemma store_of_cons c cs : store_of (c :: cs) = sapp (store_of [c]) (store_of cs).
Proof.
  apply store_ext. intros k. rewrite sget_sapp, !sget_store_of. unfold items_of. cbn [flat_map].
  rewrite app_nil_r. reflexivity.
Qed.
Lemma store_of_app a b : store_of (a ++ b) = sapp (store_of a) (store_of b).
Proof.
  apply store_ext. intros k. rewrite sget_sapp, !sget_store_of. unfold items_of. apply flat_map_app.
Qed.

Lemma sapp_nonitems s nd : (forall k its, nd <> NItems k its) -> sapp s (store_of [nd]) = s.
Proof.
  intros H. apply store_ext. intros j. rewrite sget_sapp, sget_store_of. unfold items_of. cbn [flat_map].
  destruct nd; cbn [items1]; rewrite ?app_nil_r; try reflexivity. exfalso. eapply H. reflexivity.
Qed.

Lemma add_names_closed es : forall l s m c u st cn nm,
  add_names (IR l s m c u st cn nm) es
  = IR l s m c u st (fst (fold_left nm_step es (cn, nm))) (snd (fold_left nm_step es (cn, nm))).
Proof.
  unfold add_names. induction es as [|e es IH]; intros; [reflexivity|].
  cbn [fold_left]. unfold add_name at 2, nm_step at 2 4. cbn [fst snd].
  destruct (fst e =? 0)%N; apply IH.
Qed.

Lemma ideal_from_closed : forall cs a,
  ideal_from a cs
  = IR (log_from (ir_log a) cs) (sapp (ir_items a) (store_of cs))
       (ir_mods a ++ flat_map mods1 cs) (ir_comps a ++ flat_map comps1 cs)
       (ir_customs a ++ flat_map customs1 cs) (ir_starts a ++ flat_map starts1 cs)
       (fst (fold_left nm_step (names_of cs) (ir_cname a, ir_names a)))
       (snd (fold_left nm_step (names_of cs) (ir_cname a, ir_names a))).
Proof.
  induction cs as [|c cs IH]; intros a.
  - destruct a. cbn. rewrite sapp_empty, !app_nil_r. reflexivity.
  - unfold ideal_from in *. cbn [fold_left]. rewrite IH. clear IH.
    rewrite store_of_cons, <- sapp_assoc.
    destruct a as [l s m co u st cn nm].
    destruct c; cbn [absorb add_items add_mod add_comp add_custom add_start ir_log ir_items ir_mods ir_comps ir_customs
                     ir_starts ir_cname ir_names flat_map mods1 comps1 customs1 starts1 names_of app log_from fold_left log_step entry_of].
    + (* items *)
      f_equal. f_equal. apply store_ext. intros j. rewrite sget_sapp, sget_store_of. unfold items_of. cbn [flat_map items1].
      rewrite app_nil_r. destruct (ikind_eqb k j) eqn:E.
      * apply ikind_eqb_eq in E. subst j. apply sget_sset_same.
      * rewrite sget_sset_other by exact E. rewrite app_nil_r. reflexivity.
    + rewrite sapp_nonitems by congruence. rewrite <- ?app_assoc. reflexivity.
    + rewrite sapp_nonitems by congruence. rewrite <- ?app_assoc. reflexivity.
    + rewrite sapp_nonitems by congruence. rewrite <- ?app_assoc. reflexivity.
    + rewrite add_names_closed.
      cbn [ir_log ir_items ir_mods ir_comps ir_customs ir_starts ir_cname ir_names].
      rewrite fold_left_app.
      rewrite sapp_nonitems by congruence.
      destruct (fold_left nm_step entries (cn, nm)) as [cn' nm']. reflexivity.
    + rewrite sapp_nonitems by congruence. rewrite <- ?app_assoc. reflexivity.
Qed.

(* ------------------------------------------------------------------------------------------ *)
(* Part 2, continued: replaying the run-length log *)

(* what the round trip is expected to produce: the normal form of CheckComp.v with the items re-encoded *)
Fixpoint expect (sf : list (N * N)) (nd : node) : node :=
  match nd with
  | NItems k its => NItems k (map (reencode_item sf k) its)
  | NMod t _ => NMod t []
  | NComp cs => NComp (merge (filter not_names (map (expect sf) cs)) ++ [NNames (canon_names (names_of cs))])
  | _ => nd
  end.
Definition expect_body (sf : list (N * N)) (cs : list node) : list node :=
  merge (filter not_names (map (expect sf) cs)) ++ [NNames (canon_names (names_of cs))].
Definition outs1 (sf : list (N * N)) (nd : node) : list (option (list node)) :=
  match nd with NComp c => [Some (expect_body sf c)] | _ => [] end.

(* the vectors of [cs] in front of a frame [X] *)
Definition radd (sf : list (N * N)) (cs : list node) (X : rstate) : rstate :=
  mkR (sapp (store_of cs) (r_items X)) (flat_map mods1 cs ++ r_mods X)
      (flat_map (outs1 sf) cs ++ r_comps X) (flat_map customs1 cs ++ r_customs X).

Lemma radd_app sf a b X : radd sf (a ++ b) X = radd sf a (radd sf b X).
Proof.
  unfold radd. cbn [r_items r_mods r_comps r_customs].
  rewrite store_of_app, sapp_assoc, !flat_map_app, <- !app_assoc. reflexivity.
Qed.
Lemma sapp_empty_l s : sapp (store_of []) s = s.
Proof. apply store_ext. intros k. rewrite sget_sapp, sget_store_of. reflexivity. Qed.
Lemma store_of_nonitems nd : (forall k its, nd <> NItems k its) -> store_of [nd] = store_of [].
Proof.
  intros H. apply store_ext. intros j. rewrite !sget_store_of. unfold items_of. cbn [flat_map].
  destruct nd; cbn [items1]; try reflexivity. exfalso. eapply H. reflexivity.
Qed.
Lemma radd_nil sf X : radd sf [] X = X.
Proof. unfold radd. cbn [flat_map app]. rewrite sapp_empty_l. destruct X; reflexivity. Qed.

Lemma replay_run_app sf st : forall l1 l2 r,
  replay_run sf st (l1 ++ l2) r =
  match replay_run sf st l1 r with
  | Some (o1, r1) => match replay_run sf st l2 r1 with
                     | Some (o2, r2) => Some (o1 ++ o2, r2)
                     | None => None
                     end
  | None => None
  end.
Proof.
  induction l1 as [|e l1 IH]; intros l2 r.
  - cbn [app replay_run]. destruct (replay_run sf st l2 r) as [[o2 r2]|]; reflexivity.
  - cbn [app replay_run]. destruct (replay_entry sf st e r) as [[o r']|]; [|reflexivity].
    rewrite IH. destruct (replay_run sf st l1 r') as [[o1 r1]|]; [|reflexivity].
    destruct (replay_run sf st l2 r1) as [[o2 r2]|]; [|reflexivity].
    rewrite app_assoc. reflexivity.
Qed.
Lemma replay_run_single sf st e r :
  replay_run sf st [e] r = match replay_entry sf st e r with Some (o, r') => Some (o, r') | None => None end.
Proof. cbn [replay_run]. destruct (replay_entry sf st e r) as [[o r']|]; [rewrite app_nil_r|]; reflexivity. Qed.

Lemma replay_run_snoc sf st l e r M X :
  replay_run sf st (l ++ [e]) r = Some (M, X) ->
  exists o1 r1 o, replay_run sf st l r = Some (o1, r1) /\ replay_entry sf st e r1 = Some (o, X) /\ M = o1 ++ o.
Proof.
  rewrite replay_run_app.
  destruct (replay_run sf st l r) as [[o1 r1]|]; [|discriminate].
  rewrite replay_run_single.
  destruct (replay_entry sf st e r1) as [[o r']|] eqn:Ee; [|discriminate].
  intros H. inversion H; subst. exists o1, r1, o. auto.
Qed.

Lemma log_add_cons2 e x r n k : log_add (e :: x :: r) n k = e :: log_add (x :: r) n k.
Proof. destruct e. reflexivity. Qed.
Lemma log_add_snoc l c k' n k :
  log_add (l ++ [(c, k')]) n k = if kind_eqb k' k then l ++ [((c + n)%N, k')] else l ++ [(c, k'); (n, k)].
Proof.
  induction l as [|e l IH].
  - cbn [app log_add]. destruct (kind_eqb k' k); reflexivity.
  - destruct l as [|e2 l].
    + cbn [app]. rewrite log_add_cons2. cbn [log_add]. destruct (kind_eqb k' k); reflexivity.
    + cbn [app] in *. rewrite log_add_cons2, IH. destruct (kind_eqb k' k); reflexivity.
Qed.

Lemma list_snoc_case {A} (l : list A) : l = [] \/ exists l0 e, l = l0 ++ [e].
Proof.
  induction l as [|x l IH] using rev_ind; [left; reflexivity|right; eauto].
Qed.

(* every run of a non-item kind in the log has a positive count *)
Definition pos_entry (e : N * kind) : Prop := match snd e with KItems _ => True | _ => (1 <= fst e)%N end.
Lemma log_add_pos l n k : Forall pos_entry l -> pos_entry (n, k) -> Forall pos_entry (log_add l n k).
Proof.
  intros Hl He. destruct (list_snoc_case l) as [->|[l0 [[c k'] ->]]].
  - constructor; [exact He|constructor].
  - rewrite log_add_snoc. apply Forall_app in Hl. destruct Hl as [H0 H1]. inversion H1; subst.
    destruct (kind_eqb k' k) eqn:E.
    + apply Forall_app. split; [exact H0|]. constructor; [|constructor].
      unfold pos_entry in *. cbn [fst snd] in *. destruct k'; [exact I|lia..].
    + apply Forall_app. split; [exact H0|]. constructor; [assumption|constructor; [exact He|constructor]].
Qed.
Lemma log_from_pos cs : forall l, Forall pos_entry l -> Forall pos_entry (log_from l cs).
Proof.
  induction cs as [|c cs IH]; intros l Hl; [exact Hl|].
  cbn [log_from fold_left]. apply IH. unfold log_step.
  destruct c; cbn [entry_of]; try exact Hl; apply log_add_pos; try exact Hl; unfold pos_entry; cbn; try exact I; lia.
Qed.
(* every kind in the log is the kind of one of the sections *)
Lemma log_add_kinds l n k e : In e (log_add l n k) -> snd e = k \/ exists e', In e' l /\ snd e' = snd e.
Proof.
  destruct (list_snoc_case l) as [->|[l0 [[c k'] ->]]].
  - cbn. intros [<-|[]]. left. reflexivity.
  - rewrite log_add_snoc. destruct (kind_eqb k' k) eqn:E; intros H; apply in_app_or in H; destruct H as [H|H].
    + right. exists e. split; [apply in_or_app; left; exact H|reflexivity].
    + destruct H as [<-|[]]. right. exists (c, k'). split; [apply in_or_app; right; left; reflexivity|reflexivity].
    + right. exists e. split; [apply in_or_app; left; exact H|reflexivity].
    + destruct H as [<-|[<-|[]]].
      * right. exists (c, k'). split; [apply in_or_app; right; left; reflexivity|reflexivity].
      * left. reflexivity.
Qed.
Lemma log_from_start cs : forall l e,
  In e (log_from l cs) -> snd e = KStart ->
  (exists e', In e' l /\ snd e' = KStart) \/ exists t, In (NStart t) cs.
Proof.
  induction cs as [|c cs IH]; intros l e He Hk.
  - left. eauto.
  - cbn [log_from fold_left] in He. destruct (IH _ _ He Hk) as [[e' [He' Hk']]|[t Ht]].
    + unfold log_step in He'. destruct (entry_of c) as [[n k]|] eqn:Ec.
      * destruct (log_add_kinds _ _ _ _ He') as [Hs|[e'' [Hin Hs]]].
        -- right. destruct c; cbn in Ec; inversion Ec; subst; try congruence. exists tok. left. reflexivity.
        -- left. exists e''. split; [exact Hin|congruence].
      * left. eauto.
    + right. exists t. right. exact Ht.
Qed.

Lemma merge_snoc l x : merge (l ++ [x]) = rev (merge1 (rev (merge l)) x).
Proof. unfold merge. rewrite fold_left_app, rev_involutive. reflexivity. Qed.

(* kind of the last item section of an output list, if its last node is one *)
Definition lastk (l : list node) : option ikind := match rev l with NItems i _ :: _ => Some i | _ => None end.
Lemma merge1_push M x :
  (forall i y, x = NItems i y -> lastk M <> Some i) -> rev (merge1 (rev M) x) = M ++ [x].
Proof.
  intros H. unfold merge1, lastk in *. destruct x; try (cbn [rev]; rewrite rev_involutive; reflexivity).
  destruct (rev M) as [|z r] eqn:E.
  - cbn [rev]. rewrite <- (rev_involutive M), E. reflexivity.
  - destruct z; try (rewrite <- E; cbn [rev]; rewrite rev_involutive; reflexivity).
    destruct (ikind_eqb k0 k) eqn:Ek.
    + apply ikind_eqb_eq in Ek. subst k0. exfalso. apply (H k items eq_refl). reflexivity.
    + rewrite <- E. cbn [rev]. rewrite rev_involutive. reflexivity.
Qed.
Lemma merge1_join o1 i a b :
  rev (merge1 (rev (o1 ++ [NItems i a])) (NItems i b)) = o1 ++ [NItems i (a ++ b)].
Proof.
  rewrite rev_app_distr. cbn [rev app merge1]. rewrite ikind_eqb_refl. cbn [rev]. rewrite rev_involutive. reflexivity.
Qed.
Lemma lastk_app o1 o : o <> [] -> lastk (o1 ++ o) = lastk o.
Proof.
  intros H. unfold lastk. rewrite rev_app_distr.
  destruct (rev o) eqn:E; [|reflexivity].
  exfalso. apply H. rewrite <- (rev_involutive o), E. reflexivity.
Qed.
Lemma lastk_map_nonitems {A} (f : A -> node) l :
  (forall x i y, f x <> NItems i y) -> lastk (map f l) = None.
Proof.
  intros H. unfold lastk. rewrite <- map_rev. destruct (rev l) as [|x r]; [reflexivity|].
  cbn [map]. specialize (H x). destruct (f x); try reflexivity. exfalso. eapply H. reflexivity.
Qed.

Lemma take_more {A} (v : list A) c (ext X : list A) :
  (c <= length v)%nat -> skipn c v = ext ++ X ->
  (c + length ext <= length v)%nat /\ firstn (c + length ext) v = firstn c v ++ ext /\ skipn (c + length ext) v = X.
Proof.
  intros Hc Hs. pose proof (firstn_skipn c v) as Hv. rewrite Hs in Hv.
  assert (HF : length (firstn c v) = c) by (apply firstn_length_le; exact Hc).
  remember (firstn c v) as F eqn:EF. clear EF Hs. subst v.
  rewrite !app_length. split; [lia|]. split.
  - rewrite app_assoc, firstn_app, app_length.
    replace (c + length ext - (length F + length ext))%nat with O by lia.
    rewrite firstn_O, app_nil_r. apply firstn_all2. rewrite app_length. lia.
  - rewrite app_assoc, skipn_app, app_length.
    replace (c + length ext - (length F + length ext))%nat with O by lia.
    rewrite skipn_O. rewrite skipn_all2 by (rewrite app_length; lia). reflexivity.
Qed.

Lemma all_some_app {A} (a : list (option A)) x :
  all_some (a ++ [Some x]) = match all_some a with Some l => Some (l ++ [x]) | None => None end.
Proof.
  induction a as [|o a IH]; [reflexivity|].
  cbn [app all_some fold_right] in *. fold (all_some (a ++ [Some x])). fold (all_some a).
  rewrite IH. destruct o; [|reflexivity]. destruct (all_some a); reflexivity.
Qed.

Section Replay.
  Variable sf : list (N * N).
  Variable st : list N.      (* the start_section vector of the level *)

  Lemma sget_radd_items i its s : sget (sapp (store_of [NItems i its]) s) i = its ++ sget s i.
  Proof. rewrite sget_sapp, sget_store_of. unfold items_of. cbn [flat_map items1]. rewrite ikind_eqb_refl, app_nil_r. reflexivity. Qed.
  Lemma sget_radd_items_other i j its s : ikind_eqb i j = false -> sget (sapp (store_of [NItems i its]) s) j = sget s j.
  Proof. intros E. rewrite sget_sapp, sget_store_of. unfold items_of. cbn [flat_map items1]. rewrite E. reflexivity. Qed.

  Lemma radd_nonitems nd X : (forall k its, nd <> NItems k its) ->
    radd sf [nd] X = mkR (r_items X) (mods1 nd ++ r_mods X) (outs1 sf nd ++ r_comps X) (customs1 nd ++ r_customs X).
  Proof.
    intros H. unfold radd. rewrite (store_of_nonitems nd H), sapp_empty_l. cbn [flat_map]. rewrite !app_nil_r. reflexivity.
  Qed.

  Lemma entry_single nd n k X :
    entry_of nd = Some (n, k) -> (forall t, nd = NStart t -> st = [t]) ->
    replay_entry sf st (n, k) (radd sf [nd] X) = Some ([expect sf nd], X).
  Proof.
    intros He Hst. destruct nd; cbn [entry_of] in He; inversion He; subst; clear He.
    - (* items *)
      unfold replay_entry, radd. cbn [fst snd r_items r_mods r_comps r_customs flat_map mods1 outs1 customs1 app].
      rewrite Nat2N.id, sget_radd_items.
      replace (Nat.leb (length items) (length (items ++ sget (r_items X) k0))) with true
        by (symmetry; apply Nat.leb_le; rewrite app_length; lia).
      rewrite firstn_app, Nat.sub_diag, firstn_O, app_nil_r, firstn_all.
      rewrite skipn_app, Nat.sub_diag, skipn_O, skipn_all. cbn [app expect].
      f_equal. f_equal. destruct X as [Xs Xm Xc Xu]. cbn [r_items r_mods r_comps r_customs]. f_equal.
      apply store_ext. intros j. destruct (ikind_eqb k0 j) eqn:E.
      + apply ikind_eqb_eq in E. subst j. apply sget_sset_same.
      + rewrite sget_sset_other by exact E. apply sget_radd_items_other. exact E.
    - rewrite radd_nonitems by congruence. destruct X. reflexivity.
    - rewrite radd_nonitems by congruence. destruct X. reflexivity.
    - rewrite radd_nonitems by congruence. unfold replay_entry. cbn [fst snd].
      rewrite (Hst tok eq_refl). destruct X. reflexivity.
    - rewrite radd_nonitems by congruence. destruct X. reflexivity.
  Qed.

  Lemma extend_items r1 c i o X its :
    replay_entry sf st (c, KItems i) r1 = Some (o, radd sf [NItems i its] X) ->
    exists a, o = [NItems i a] /\
      replay_entry sf st ((c + N.of_nat (length its))%N, KItems i) r1
      = Some ([NItems i (a ++ map (reencode_item sf i) its)], X).
  Proof.
    unfold replay_entry. cbn [fst snd].
    destruct (Nat.leb (N.to_nat c) (length (sget (r_items r1) i))) eqn:El; [|discriminate].
    apply Nat.leb_le in El. intros H. inversion H as [[Ho Hr]]. clear H.
    unfold radd in Hr. cbn [flat_map mods1 outs1 customs1 app] in Hr. inversion Hr as [[Hs Hm Hc Hu]]. clear Hr.
    assert (Hk : skipn (N.to_nat c) (sget (r_items r1) i) = its ++ sget (r_items X) i).
    { rewrite <- sget_radd_items, <- Hs, sget_sset_same. reflexivity. }
    destruct (take_more _ _ _ _ El Hk) as [T1 [T2 T3]].
    eexists. split; [reflexivity|].
    rewrite N2Nat.inj_add, Nat2N.id.
    replace (Nat.leb (N.to_nat c + length its) (length (sget (r_items r1) i))) with true by (symmetry; apply Nat.leb_le; exact T1).
    rewrite T2, T3, map_app. f_equal. f_equal.
    destruct X as [Xs Xm Xc Xu]. cbn [r_items r_mods r_comps r_customs] in *. subst. f_equal.
    apply store_ext. intros j. destruct (ikind_eqb i j) eqn:E.
    - apply ikind_eqb_eq in E. subst j. apply sget_sset_same.
    - rewrite sget_sset_other by exact E.
      rewrite <- (sget_sset_other (r_items r1) i j (skipn (N.to_nat c) (sget (r_items r1) i)) E), Hs.
      apply sget_radd_items_other. exact E.
  Qed.

  Lemma extend_mod r1 c o X t cs0 :
    replay_entry sf st (c, KModule) r1 = Some (o, radd sf [NMod t cs0] X) ->
    replay_entry sf st ((c + 1)%N, KModule) r1 = Some (o ++ [NMod t []], X).
  Proof.
    rewrite radd_nonitems by congruence. unfold replay_entry. cbn [fst snd mods1 outs1 customs1 app].
    destruct (Nat.leb (N.to_nat c) (length (r_mods r1))) eqn:El; [|discriminate].
    apply Nat.leb_le in El. intros H. inversion H as [[Ho Hr Hm Hc Hu]]. clear H.
    destruct (take_more _ _ [t] _ El Hm) as [T1 [T2 T3]]. cbn [length] in *.
    rewrite N2Nat.inj_add. change (N.to_nat 1) with 1%nat.
    replace (Nat.leb (N.to_nat c + 1) (length (r_mods r1))) with true by (symmetry; apply Nat.leb_le; exact T1).
    rewrite T2, T3, map_app. destruct X as [Xs Xm Xc Xu]. cbn [r_items r_mods r_comps r_customs] in *. subst. reflexivity.
  Qed.

  Lemma extend_custom r1 c o X t :
    replay_entry sf st (c, KCustom) r1 = Some (o, radd sf [NCustom t] X) ->
    replay_entry sf st ((c + 1)%N, KCustom) r1 = Some (o ++ [NCustom t], X).
  Proof.
    rewrite radd_nonitems by congruence. unfold replay_entry. cbn [fst snd mods1 outs1 customs1 app].
    destruct (Nat.leb (N.to_nat c) (length (r_customs r1))) eqn:El; [|discriminate].
    apply Nat.leb_le in El. intros H. inversion H as [[Ho Hr Hm Hc Hu]]. clear H.
    destruct (take_more _ _ [t] _ El Hu) as [T1 [T2 T3]]. cbn [length] in *.
    rewrite N2Nat.inj_add. change (N.to_nat 1) with 1%nat.
    replace (Nat.leb (N.to_nat c + 1) (length (r_customs r1))) with true by (symmetry; apply Nat.leb_le; exact T1).
    rewrite T2, T3, map_app. destruct X as [Xs Xm Xc Xu]. cbn [r_items r_mods r_comps r_customs] in *. subst. reflexivity.
  Qed.

  Lemma extend_comp r1 c o X cs0 :
    replay_entry sf st (c, KComponent) r1 = Some (o, radd sf [NComp cs0] X) ->
    replay_entry sf st ((c + 1)%N, KComponent) r1 = Some (o ++ [NComp (expect_body sf cs0)], X).
  Proof.
    rewrite radd_nonitems by congruence. unfold replay_entry. cbn [fst snd mods1 outs1 customs1 app].
    destruct (Nat.leb (N.to_nat c) (length (r_comps r1))) eqn:El; [|discriminate].
    apply Nat.leb_le in El.
    destruct (all_some (firstn (N.to_nat c) (r_comps r1))) as [csl|] eqn:Ea; [|discriminate].
    intros H. inversion H as [[Ho Hr Hm Hc Hu]]. clear H.
    destruct (take_more _ _ [Some (expect_body sf cs0)] _ El Hc) as [T1 [T2 T3]]. cbn [length] in *.
    rewrite N2Nat.inj_add. change (N.to_nat 1) with 1%nat.
    replace (Nat.leb (N.to_nat c + 1) (length (r_comps r1))) with true by (symmetry; apply Nat.leb_le; exact T1).
    rewrite T2, T3, all_some_app, Ea, map_app. destruct X as [Xs Xm Xc Xu]. cbn [r_items r_mods r_comps r_customs] in *. subst. reflexivity.
  Qed.

  (* the last node an entry emits *)
  Lemma entry_lastk c k r o r' o1 :
    replay_entry sf st (c, k) r = Some (o, r') -> pos_entry (c, k) ->
    lastk (o1 ++ o) = match k with KItems j => Some j | _ => None end.
  Proof.
    unfold replay_entry, pos_entry. cbn [fst snd]. intros H Hp.
    assert (Hne : forall {A} (v : list A), (1 <= c)%N -> (N.to_nat c <= length v)%nat -> firstn (N.to_nat c) v <> []).
    { intros A v H1 H2 E. apply (f_equal (@length A)) in E. rewrite firstn_length_le in E by exact H2. cbn in E. lia. }
    destruct k.
    - destruct (Nat.leb _ _); [|discriminate]. inversion H; subst. rewrite lastk_app by discriminate. reflexivity.
    - destruct (Nat.leb _ _) eqn:El; [|discriminate]. apply Nat.leb_le in El. inversion H; subst.
      rewrite lastk_app. { apply lastk_map_nonitems. intros; discriminate. }
      intros E. apply map_eq_nil in E. revert E. apply Hne; assumption.
    - destruct (Nat.leb _ _) eqn:El; [|discriminate]. apply Nat.leb_le in El.
      destruct (all_some _) as [csl|] eqn:Ea; [|discriminate]. inversion H; subst.
      rewrite lastk_app. { apply lastk_map_nonitems. intros; discriminate. }
      intros E. apply map_eq_nil in E. subst csl.
      assert (firstn (N.to_nat c) (r_comps r) = []).
      { destruct (firstn (N.to_nat c) (r_comps r)) as [|x l]; [reflexivity|]. cbn [all_some fold_right] in Ea.
        destruct x; [|discriminate]. destruct (fold_right _ _ l); discriminate. }
      revert H0. apply Hne; assumption.
    - destruct (Nat.leb _ _) eqn:El; [|discriminate]. apply Nat.leb_le in El. inversion H; subst.
      rewrite lastk_app. { apply lastk_map_nonitems. intros; discriminate. }
      intros E. apply map_eq_nil in E. revert E. apply Hne; assumption.
    - destruct st as [|s [|]]; try discriminate. inversion H; subst. rewrite lastk_app by discriminate. reflexivity.
  Qed.
End Replay.

Definition start_ok (st : list N) (cs : list node) : Prop :=
  (length (filter is_start cs) <= 1)%nat /\ forall t, In (NStart t) cs -> st = [t].

Lemma start_ok_prefix st cs x : start_ok st (cs ++ [x]) -> start_ok st cs.
Proof.
  intros [H1 H2]. split.
  - rewrite filter_app, app_length in H1. lia.
  - intros t Ht. apply H2. apply in_or_app. left. exact Ht.
Qed.
Lemma merge1_nil x : merge1 [] x = [x].
Proof. destruct x; reflexivity. Qed.

(* replaying the log of a level against its vectors (followed by any frame X) yields the merged sections and
   leaves exactly the frame *)
Lemma replay_inv sf st : forall cs, start_ok st cs -> forall X,
  replay_run sf st (log_from [] cs) (radd sf cs X) = Some (merge (filter not_names (map (expect sf) cs)), X).
Proof.
  induction cs as [|x cs IHcs] using rev_ind; intros Hs X.
  - cbn. rewrite radd_nil. reflexivity.
  - pose proof (start_ok_prefix _ _ _ Hs) as Hs'. specialize (IHcs Hs').
    unfold log_from. rewrite fold_left_app. cbn [fold_left]. fold (log_from [] cs).
    rewrite radd_app, map_app, filter_app. cbn [map filter].
    unfold log_step. destruct (entry_of x) as [[n k]|] eqn:Ee.
    2:{ destruct x; try discriminate Ee. cbn [expect not_names is_names negb]. rewrite app_nil_r.
        rewrite radd_nonitems by congruence. cbn [mods1 outs1 customs1 app].
        replace (mkR (r_items X) (r_mods X) (r_comps X) (r_customs X)) with X by (destruct X; reflexivity).
        apply IHcs. }
    assert (Hnn : not_names (expect sf x) = true) by (destruct x; try reflexivity; discriminate Ee).
    rewrite Hnn, merge_snoc.
    set (M := merge (filter not_names (map (expect sf) cs))) in *.
    pose proof (IHcs (radd sf [x] X)) as IH.
    assert (Hsingle : replay_entry sf st (n, k) (radd sf [x] X) = Some ([expect sf x], X)).
    { apply entry_single; [exact Ee|]. intros t ->. apply (proj2 Hs). apply in_or_app. right. left. reflexivity. }
    pose proof (log_from_pos cs [] (Forall_nil _)) as Hpos.
    destruct (list_snoc_case (log_from [] cs)) as [El|[l0 [[c k'] El]]]; rewrite El in *.
    + cbn [replay_run] in IH.
      assert (HM : M = []) by congruence.
      assert (HX : radd sf cs (radd sf [x] X) = radd sf [x] X) by congruence.
      cbn [log_add]. rewrite replay_run_single, HX, Hsingle, HM. cbn [rev]. rewrite merge1_nil. reflexivity.
    + rewrite log_add_snoc.
      destruct (replay_run_snoc _ _ _ _ _ _ _ IH) as [o1 [r1 [o [Hrun [Hent HM]]]]].
      apply Forall_app in Hpos. destruct Hpos as [_ Hpos]. inversion Hpos as [|? ? Hp _]; subst.
      destruct (kind_eqb k' k) eqn:Ek.
      * (* the section extends the last run *)
        apply kind_eqb_eq in Ek. subst k'.
        rewrite replay_run_app, Hrun, replay_run_single.
        destruct x; cbn [entry_of] in Ee; inversion Ee; subst n k; clear Ee.
        -- destruct (extend_items _ _ _ _ _ _ _ _ Hent) as [a [-> Hnew]].
           rewrite Hnew, HM. cbn [expect]. rewrite merge1_join. reflexivity.
        -- rewrite (extend_mod _ _ _ _ _ _ _ _ Hent), HM. cbn [expect].
           rewrite merge1_push by (intros; discriminate). rewrite <- app_assoc. reflexivity.
        -- rewrite (extend_custom _ _ _ _ _ _ _ Hent), HM. cbn [expect].
           rewrite merge1_push by (intros; discriminate). rewrite <- app_assoc. reflexivity.
        -- (* a second start section: excluded *)
           exfalso.
           assert (Hin : In (c, KStart) (log_from [] cs)) by (rewrite El; apply in_or_app; right; left; reflexivity).
           destruct (log_from_start cs [] _ Hin eq_refl) as [[e' [[] _]]|[t Ht]].
           destruct Hs as [Hlen _]. rewrite filter_app, app_length in Hlen. cbn [filter is_start length] in Hlen.
           assert (1 <= length (filter is_start cs))%nat; [|lia].
           assert (Hf : In (NStart t) (filter is_start cs)) by (apply filter_In; split; [exact Ht|reflexivity]).
           destruct (filter is_start cs); [destruct Hf|cbn; lia].
        -- rewrite (extend_comp _ _ _ _ _ _ _ Hent), HM.
           change (expect sf (NComp children)) with (NComp (expect_body sf children)).
           rewrite merge1_push by (intros; discriminate). rewrite <- app_assoc. reflexivity.
      * (* a new run *)
        replace (l0 ++ [(c, k'); (n, k)]) with ((l0 ++ [(c, k')]) ++ [(n, k)]) by (rewrite <- app_assoc; reflexivity).
        rewrite replay_run_app, IH, replay_run_single, Hsingle.
        rewrite merge1_push; [reflexivity|].
        intros i y Hx. rewrite HM, (entry_lastk _ _ _ _ _ _ _ o1 Hent Hp).
        destruct x; cbn [expect] in Hx; inversion Hx; subst. cbn [entry_of] in Ee. inversion Ee; subst.
        destruct k'; try discriminate. cbn [kind_eqb] in Ek. intros E. inversion E; subst. rewrite ikind_eqb_refl in Ek. discriminate.
Qed.

(* ------------------------------------------------------------------------------------------ *)
(* the component-name section *)
Lemma nm_fold_names : forall es cn nm,
  snd (fold_left nm_step es (cn, nm)) = nm ++ filter (fun e => negb (fst e =? 0)%N) es.
Proof.
  induction es as [|e es IH]; intros cn nm; [cbn; rewrite app_nil_r; reflexivity|].
  cbn [fold_left filter]. unfold nm_step at 2. cbn [fst snd].
  destruct (fst e =? 0)%N; cbn [negb]; rewrite IH; [reflexivity|].
  rewrite <- app_assoc. reflexivity.
Qed.
Lemma nm_fold_cname : forall es cn nm,
  (length (filter (fun e => fst e =? 0)%N es) <= 1)%nat ->
  fst (fold_left nm_step es (cn, nm))
  = match filter (fun e => fst e =? 0)%N es with [] => cn | e :: _ => Some (snd e) end.
Proof.
  induction es as [|e es IH]; intros cn nm H; [reflexivity|].
  cbn [fold_left filter] in *. unfold nm_step at 2. cbn [fst snd].
  destruct (fst e =? 0)%N eqn:E.
  - cbn [length] in H. rewrite IH by lia.
    destruct (filter (fun e0 => (fst e0 =? 0)%N) es); [reflexivity|cbn in H; lia].
  - apply IH. exact H.
Qed.
Lemma filter_filter_kind (es : list (N * N)) k j :
  filter (fun e => fst e =? k)%N (filter (fun e => fst e =? j)%N es)
  = if (k =? j)%N then filter (fun e => fst e =? j)%N es else [].
Proof.
  induction es as [|e es IH]; [destruct (k =? j)%N; reflexivity|].
  cbn [filter]. destruct (fst e =? j)%N eqn:Ej.
  - cbn [filter]. rewrite IH. apply N.eqb_eq in Ej. rewrite Ej.
    destruct (j =? k)%N eqn:Ek; rewrite (N.eqb_sym k j), Ek; reflexivity.
  - exact IH.
Qed.
Lemma filter_nz_kind (es : list (N * N)) k : k <> 0%N ->
  filter (fun e => fst e =? k)%N (filter (fun e => negb (fst e =? 0)%N) es) = filter (fun e => fst e =? k)%N es.
Proof.
  intros Hk. induction es as [|e es IH]; [reflexivity|].
  cbn [filter]. destruct (fst e =? 0)%N eqn:E0; cbn [negb].
  - apply N.eqb_eq in E0. rewrite E0. replace (0 =? k)%N with false by (symmetry; apply N.eqb_neq; lia). exact IH.
  - cbn [filter]. rewrite IH. reflexivity.
Qed.
Lemma names_out_canon es :
  (length (filter (fun e => fst e =? 0)%N es) <= 1)%nat ->
  names_out (fst (fold_left nm_step es (None, []))) (snd (fold_left nm_step es (None, []))) = canon_names es.
Proof.
  intros H. rewrite nm_fold_cname by exact H. rewrite nm_fold_names. cbn [app].
  unfold names_out, canon_names, all_name_kinds. cbn [flat_map]. f_equal.
  - destruct (filter (fun e => (fst e =? 0)%N) es) as [|e l] eqn:E; [reflexivity|].
    destruct l; [|cbn in H; lia].
    assert (Hin : In e (filter (fun e => (fst e =? 0)%N) es)) by (rewrite E; left; reflexivity).
    apply filter_In in Hin. destruct Hin as [_ He]. apply N.eqb_eq in He. destruct e as [a b]. cbn in *. subst. reflexivity.
  - unfold name_kinds. cbn [flat_map]. rewrite !filter_nz_kind by discriminate. reflexivity.
Qed.
Lemma canon_names_idem es : canon_names (canon_names es) = canon_names es.
Proof.
  unfold canon_names, all_name_kinds, name_kinds. cbn [flat_map].
  rewrite !filter_app, !filter_filter_kind. cbn [N.eqb Pos.eqb]. rewrite ?app_nil_r. cbn [app]. reflexivity.
Qed.

(* ------------------------------------------------------------------------------------------ *)
(* replaying the ideal IR *)
Lemma starts_single : forall cs t,
  (length (filter is_start cs) <= 1)%nat -> In (NStart t) cs -> flat_map starts1 cs = [t].
Proof.
  induction cs as [|c cs IH]; intros t Hl Hin; [destruct Hin|].
  cbn [filter flat_map] in *. destruct Hin as [->|Hin].
  - cbn [is_start starts1 length app] in *. f_equal.
    assert (Hn : filter is_start cs = []) by (destruct (filter is_start cs); [reflexivity|cbn in Hl; lia]).
    clear -Hn. induction cs as [|c cs IH]; [reflexivity|].
    cbn [filter flat_map] in *. destruct c; cbn [is_start starts1 app] in *; try discriminate; apply IH; exact Hn.
  - destruct c; cbn [is_start starts1 app length] in *; try (apply IH; [lia|exact Hin]).
    exfalso. assert (In (NStart t) (filter is_start cs)) by (apply filter_In; split; [exact Hin|reflexivity]).
    destruct (filter is_start cs); [contradiction|cbn in Hl; lia].
Qed.

Lemma replay_ideal_node sf : forall nd, wf_node nd = true ->
  match nd with NComp cs => replay sf (ideal cs) = Some (expect_body sf cs) | _ => True end.
Proof.
  induction nd using node_ind'; auto.
  cbn [wf_node]. intros Hw. apply andb_true_iff in Hw. destruct Hw as [Hl Hcs].
  unfold wf_level in Hl. apply andb_true_iff in Hl. destruct Hl as [Hl _]. apply andb_true_iff in Hl. destruct Hl as [Hst Hcn].
  apply Nat.leb_le in Hst. apply Nat.leb_le in Hcn.
  unfold ideal. rewrite ideal_from_closed.
  cbn [empty_ir ir_log ir_items ir_mods ir_comps ir_customs ir_starts ir_cname ir_names app replay].
  assert (Hcomps : map (replay sf) (flat_map comps1 cs) = flat_map (outs1 sf) cs).
  { rewrite forallb_forall in Hcs. clear -H Hcs. induction H as [|c cs Hc _ IH]; [reflexivity|].
    cbn [flat_map]. rewrite map_app, IH by (intros x Hx; apply Hcs; right; exact Hx). f_equal.
    destruct c; try reflexivity. cbn [comps1 outs1 map]. rewrite Hc; [reflexivity|]. apply Hcs. left. reflexivity. }
  rewrite Hcomps.
  replace (mkR (sapp empty_store (store_of cs)) (flat_map mods1 cs) (flat_map (outs1 sf) cs) (flat_map customs1 cs))
    with (radd sf cs (mkR (store_of []) [] [] [])).
  2:{ unfold radd. cbn [r_items r_mods r_comps r_customs]. rewrite !app_nil_r. f_equal.
      change empty_store with (store_of []). rewrite sapp_empty_l, sapp_empty. reflexivity. }
  rewrite replay_inv.
  - unfold expect_body. rewrite names_out_canon by exact Hcn. reflexivity.
  - split; [exact Hst|]. intros t Ht. apply starts_single; assumption.
Qed.

Theorem replay_ideal sf cs : wf cs = true -> replay sf (ideal cs) = Some (expect_body sf cs).
Proof. intros H. exact (replay_ideal_node sf (NComp cs) H). Qed.

(* parse, then replay: the round trip of the model, exactly *)
Theorem roundtrip_exact sf cs :
  wf cs = true -> roundtrip sf cs = Some (expect_body sf cs).
Proof.
  intros Hw. unfold roundtrip. rewrite parse_ideal. apply replay_ideal. exact Hw.
Qed.

(* ------------------------------------------------------------------------------------------ *)
(* Part 3: the expected output is the normal form of the input, and normal forms are stable *)

Lemma sf_apply_nohit sf its :
  existsb (fun t => negb (sf_apply sf t =? t)%N) its = false -> map (sf_apply sf) its = its.
Proof.
  induction its as [|t its IH]; [reflexivity|].
  cbn [existsb map]. intros H. apply orb_false_iff in H. destruct H as [Ht H].
  apply negb_false_iff, N.eqb_eq in Ht. rewrite Ht, IH by exact H. reflexivity.
Qed.
Lemma expect_norm sf : forall nd, sf_hit sf nd = false -> expect sf nd = norm nd.
Proof.
  induction nd using node_ind'; try reflexivity.
  - cbn [sf_hit expect norm]. intros Hh. f_equal.
    destruct k; cbn [reencode_item]; try apply map_id. apply sf_apply_nohit. exact Hh.
  - cbn [sf_hit expect norm]. intros Hh. f_equal. f_equal. f_equal. f_equal.
    apply map_ext_in. intros c Hc. rewrite Forall_forall in H. apply H; [exact Hc|].
    destruct (sf_hit sf c) eqn:E; [|reflexivity].
    exfalso. assert (existsb (sf_hit sf) cs = true) by (apply existsb_exists; exists c; auto). congruence.
Qed.
Lemma expect_body_norm sf cs : reenc_hit sf cs = false -> expect_body sf cs = norm_body cs.
Proof.
  intros H. exact (f_equal (fun n => match n with NComp b => b | _ => [] end) (expect_norm sf (NComp cs) H)).
Qed.

(* merging twice = merging once *)
Definition nomerge (y x : node) : bool :=
  match x, y with NItems k _, NItems k' _ => negb (ikind_eqb k' k) | _, _ => true end.
Fixpoint rmerged (R : list node) : bool :=
  match R with
  | x :: r => match r with y :: _ => nomerge y x | [] => true end && rmerged r
  | [] => true
  end.
Lemma rmerged_cons2 x y r : rmerged (x :: y :: r) = nomerge y x && rmerged (y :: r).
Proof. reflexivity. Qed.
Lemma rmerged_merge1 acc x : rmerged acc = true -> rmerged (merge1 acc x) = true.
Proof.
  intros H. unfold merge1. destruct x; try (cbn [rmerged]; rewrite H; destruct acc; reflexivity).
  destruct acc as [|z r]; [reflexivity|].
  destruct z; try (rewrite rmerged_cons2, H; reflexivity).
  destruct (ikind_eqb k0 k) eqn:E.
  - cbn [rmerged] in *. apply andb_true_iff in H. destruct H as [H1 H2]. rewrite H2, andb_true_r.
    destruct r as [|y r']; [reflexivity|]. destruct y; exact H1.
  - cbn [rmerged nomerge]. rewrite E. cbn [negb andb]. exact H.
Qed.
Lemma rmerged_fold : forall l acc, rmerged acc = true -> rmerged (fold_left merge1 l acc) = true.
Proof. induction l as [|x l IH]; intros acc H; [exact H|]. cbn [fold_left]. apply IH, rmerged_merge1, H. Qed.
Lemma merge1_rmerged x R : rmerged (x :: R) = true -> merge1 R x = x :: R.
Proof.
  cbn [rmerged]. intros H. apply andb_true_iff in H. destruct H as [H _].
  unfold merge1. destruct x; try reflexivity. destruct R as [|z r]; [reflexivity|].
  destruct z; try reflexivity. cbn [nomerge] in H. apply negb_true_iff in H. rewrite H. reflexivity.
Qed.
Lemma fold_rev_rmerged : forall R, rmerged R = true -> fold_left merge1 (rev R) [] = R.
Proof.
  induction R as [|x R IH]; intros H; [reflexivity|].
  cbn [rev]. rewrite fold_left_app. cbn [fold_left]. rewrite IH.
  - apply merge1_rmerged. exact H.
  - cbn [rmerged] in H. apply andb_true_iff in H. apply H.
Qed.
Lemma merge_idem l : merge (merge l) = merge l.
Proof.
  unfold merge. rewrite fold_rev_rmerged; [reflexivity|]. apply rmerged_fold. reflexivity.
Qed.

(* norm commutes with merging; merging creates no name sections *)
Lemma norm_merge1 acc x : map norm (merge1 acc x) = merge1 (map norm acc) (norm x).
Proof.
  unfold merge1. destruct x; try reflexivity.
  destruct acc as [|z r]; [reflexivity|]. destruct z; try reflexivity.
  cbn [map norm]. destruct (ikind_eqb k0 k); reflexivity.
Qed.
Lemma norm_fold : forall l acc, map norm (fold_left merge1 l acc) = fold_left merge1 (map norm l) (map norm acc).
Proof. induction l as [|x l IH]; intros acc; [reflexivity|]. cbn [fold_left map]. rewrite IH, norm_merge1. reflexivity. Qed.
Lemma norm_merge l : map norm (merge l) = merge (map norm l).
Proof. unfold merge. rewrite map_rev, norm_fold. reflexivity. Qed.
Lemma not_names_merge1 acc x : forallb not_names acc = true -> not_names x = true -> forallb not_names (merge1 acc x) = true.
Proof.
  intros Ha Hx. unfold merge1. destruct x; try (cbn [forallb]; rewrite Ha; reflexivity).
  - destruct acc as [|z r]; [reflexivity|]. destruct z; try (cbn [forallb] in *; rewrite Ha; reflexivity).
    destruct (ikind_eqb k0 k); cbn [forallb] in *; exact Ha.
  - discriminate Hx.
Qed.
Lemma not_names_fold : forall l acc, forallb not_names acc = true -> forallb not_names l = true ->
  forallb not_names (fold_left merge1 l acc) = true.
Proof.
  induction l as [|x l IH]; intros acc Ha Hl; [exact Ha|].
  cbn [fold_left forallb] in *. apply andb_true_iff in Hl. destruct Hl as [Hx Hl].
  apply IH; [apply not_names_merge1; assumption|exact Hl].
Qed.
Lemma not_names_merge l : forallb not_names l = true -> forallb not_names (merge l) = true.
Proof.
  intros H. unfold merge. rewrite forallb_forall. intros x Hx. apply in_rev in Hx.
  pose proof (not_names_fold l [] eq_refl H) as Hf. rewrite forallb_forall in Hf. apply Hf. exact Hx.
Qed.
Lemma filter_all {A} (f : A -> bool) l : forallb f l = true -> filter f l = l.
Proof.
  induction l as [|x l IH]; [reflexivity|]. cbn [forallb filter]. intros H. apply andb_true_iff in H.
  destruct H as [Hx H]. rewrite Hx, IH by exact H. reflexivity.
Qed.
Lemma forallb_filter {A} (f : A -> bool) l : forallb f (filter f l) = true.
Proof. induction l as [|x l IH]; [reflexivity|]. cbn [filter]. destruct (f x) eqn:E; [cbn [forallb]; rewrite E|]; exact IH. Qed.
Lemma names_of_none l : forallb not_names l = true -> names_of l = [].
Proof.
  induction l as [|x l IH]; [reflexivity|]. cbn [forallb]. intros H. apply andb_true_iff in H. destruct H as [Hx H].
  unfold names_of in *. cbn [flat_map]. rewrite IH by exact H. destruct x; try reflexivity. discriminate Hx.
Qed.

Lemma norm_idem : forall nd, norm (norm nd) = norm nd.
Proof.
  induction nd using node_ind'; try reflexivity.
  cbn [norm]. f_equal.
  set (F := filter not_names (map norm cs)).
  assert (HF : forallb not_names F = true) by apply forallb_filter.
  assert (HnF : map norm F = F).
  { unfold F. clear -H. induction H as [|c cs Hc _ IH]; [reflexivity|].
    cbn [map filter]. destruct (not_names (norm c)); [cbn [map]; rewrite Hc, IH|]; [reflexivity|exact IH]. }
  rewrite map_app, norm_merge, HnF. cbn [map norm].
  rewrite filter_app. cbn [filter not_names is_names negb]. rewrite app_nil_r.
  rewrite (filter_all _ _ (not_names_merge F HF)), merge_idem.
  unfold names_of at 1. rewrite flat_map_app. fold (names_of (merge F)).
  rewrite (names_of_none _ (not_names_merge F HF)). cbn [flat_map app]. rewrite app_nil_r, canon_names_idem. reflexivity.
Qed.
Lemma norm_body_idem cs : norm_body (norm_body cs) = norm_body cs.
Proof. exact (f_equal (fun n => match n with NComp b => b | _ => [] end) (norm_idem (NComp cs))). Qed.

(* ------------------------------------------------------------------------------------------ *)
(* boolean equality of trees *)
Lemma list_eqb_eq {A} (eqb : A -> A -> bool) :
  forall a b, (forall x y, In x a -> eqb x y = true -> x = y) -> list_eqb eqb a b = true -> a = b.
Proof.
  induction a as [|x a IH]; intros b H E; destruct b as [|y b]; try discriminate E; [reflexivity|].
  cbn [list_eqb] in E. apply andb_true_iff in E. destruct E as [E1 E2].
  f_equal; [apply H; [left; reflexivity|exact E1]|].
  apply IH; [intros; apply H; [right|]; assumption|exact E2].
Qed.
Lemma list_eqb_refl {A} (eqb : A -> A -> bool) : forall a, (forall x, In x a -> eqb x x = true) -> list_eqb eqb a a = true.
Proof.
  induction a as [|x a IH]; intros H; [reflexivity|]. cbn [list_eqb].
  rewrite H by (left; reflexivity). apply IH. intros; apply H; right; assumption.
Qed.
Lemma entry_eqb_eq a b : entry_eqb a b = true -> a = b.
Proof.
  unfold entry_eqb. intros H. apply andb_true_iff in H. destruct H as [H1 H2].
  apply N.eqb_eq in H1, H2. destruct a, b; cbn in *; congruence.
Qed.
Lemma node_eqb_comp cs cs' : node_eqb (NComp cs) (NComp cs') = list_eqb node_eqb cs cs'.
Proof. revert cs'. induction cs as [|x cs IH]; intros [|y cs']; try reflexivity. cbn [node_eqb list_eqb]. f_equal. apply IH. Qed.
Lemma node_eqb_eq : forall a b, node_eqb a b = true -> a = b.
Proof.
  induction a using node_ind'; intros b E; destruct b; try discriminate E.
  - cbn [node_eqb] in E. apply andb_true_iff in E. destruct E as [E1 E2]. apply ikind_eqb_eq in E1.
    apply list_eqb_eq in E2; [congruence|]. intros x y _. apply N.eqb_eq.
  - cbn [node_eqb] in E. apply andb_true_iff in E. destruct E as [E1 E2]. apply N.eqb_eq in E1.
    apply list_eqb_eq in E2; [congruence|]. intros x y _. apply N.eqb_eq.
  - cbn [node_eqb] in E. apply N.eqb_eq in E. congruence.
  - cbn [node_eqb] in E. apply N.eqb_eq in E. congruence.
  - cbn [node_eqb] in E. apply list_eqb_eq in E; [congruence|]. intros x y _. apply entry_eqb_eq.
  - rewrite node_eqb_comp in E. f_equal. apply list_eqb_eq in E; [exact E|].
    intros x y Hx. rewrite Forall_forall in H. apply H. exact Hx.
Qed.
Lemma node_eqb_refl : forall a, node_eqb a a = true.
Proof.
  induction a using node_ind'; cbn [node_eqb].
  - rewrite ikind_eqb_refl. apply list_eqb_refl. intros; apply N.eqb_refl.
  - rewrite N.eqb_refl. apply list_eqb_refl. intros; apply N.eqb_refl.
  - apply N.eqb_refl.
  - apply N.eqb_refl.
  - apply list_eqb_refl. intros [x y] _. unfold entry_eqb. cbn. rewrite !N.eqb_refl. reflexivity.
  - change (node_eqb (NComp cs) (NComp cs) = true). rewrite node_eqb_comp. apply list_eqb_refl.
    rewrite Forall_forall in H. exact H.
Qed.
Lemma nodes_eqb_eq a b : nodes_eqb a b = true -> a = b.
Proof. unfold nodes_eqb. intros H. apply list_eqb_eq in H; [exact H|]. intros x y _. apply node_eqb_eq. Qed.
Lemma nodes_eqb_refl a : nodes_eqb a a = true.
Proof. unfold nodes_eqb. apply list_eqb_refl. intros; apply node_eqb_refl. Qed.
Lemma eqvb_eqv a b : eqvb a b = true <-> eqv a b.
Proof.
  unfold eqvb, eqv. split; [apply nodes_eqb_eq|]. intros ->. apply nodes_eqb_refl.
Qed.

(* ------------------------------------------------------------------------------------------ *)
(* the theorems *)

(* without a re-encoded item the round trip of the model yields a tree equivalent to the input -- at any depth *)
Theorem roundtrip_equiv sf cs :
  wf cs = true -> reenc_hit sf cs = false ->
  exists out, roundtrip sf cs = Some out /\ eqv out cs.
Proof.
  intros Hw Hs. exists (expect_body sf cs). split; [apply roundtrip_exact; assumption|].
  unfold eqv. rewrite expect_body_norm by exact Hs. apply norm_body_idem.
Qed.

(* The two smallest witnesses of the former defect D14 (parse_comp skipped a nested body with a stack on which the
   child had pushed one entry per *direct* child of its own, so a body at depth >= 2 made the sections behind it leak
   into the parent).  With the repaired parser they are positive examples. *)
(* a section follows the only child of a component that has a grandchild: the section used to be duplicated into
   the root *)
Definition witness_D14 : list node := [NComp [NComp [NMod 1 []]; NItems ICompType [2]]]%N.
Theorem roundtrip_former_D14_witness :
  wf witness_D14 = true /\ depth witness_D14 = 3%nat /\ reenc_hit [] witness_D14 = false /\
  exists out, roundtrip [] witness_D14 = Some out /\ eqv out witness_D14.
Proof.
  split; [reflexivity|]. split; [reflexivity|]. split; [reflexivity|].
  eexists. split; [vm_compute; reflexivity|].
  apply eqvb_eqv. vm_compute. reflexivity.
Qed.
(* the child's start section used to leak into a parent that has its own, and encode_comp panicked on
   assert_eq!(start_section.len(), 1) *)
Definition witness_D14_panic : list node :=
  [NItems IImport [1]; NComp [NItems IImport [2]; NComp [NMod 3 []]; NStart 4]; NStart 5]%N.
Theorem roundtrip_former_D14_panic_witness :
  wf witness_D14_panic = true /\ depth witness_D14_panic = 3%nat /\ reenc_hit [] witness_D14_panic = false /\
  exists out, roundtrip [] witness_D14_panic = Some out /\ eqv out witness_D14_panic.
Proof.
  split; [reflexivity|]. split; [reflexivity|]. split; [reflexivity|].
  eexists. split; [vm_compute; reflexivity|].
  apply eqvb_eqv. vm_compute. reflexivity.
Qed.
(* the smallest D28 witness: one component-type item whose re-encoding differs *)
Theorem roundtrip_refuted_D28 :
  let cs := [NItems ICompType [1]]%N in let sf := [(1, 2)]%N in
  wf cs = true /\ reenc_hit sf cs = true /\
  exists out, roundtrip sf cs = Some out /\ ~ eqv out cs.
Proof.
  cbv zeta. split; [reflexivity|]. split; [reflexivity|].
  eexists. split; [vm_compute; reflexivity|].
  intros H. apply eqvb_eqv in H. vm_compute in H. discriminate H.
Qed.

(* checker soundness: a case the model agrees with, inside the domain, outside every known class (no re-encoded item),
   whose output the validator accepts, satisfies the property checker *)
Definition obs_valid (c : ccase) : bool := match c_obs c with OTree _ v => v | _ => false end.
Theorem checker27_sound c :
  agree c = true -> domain27 c = true -> classes27 c = [] -> obs_valid c = true -> holds27 c = true.
Proof.
  unfold agree, domain27, classes27, obs_valid, holds27, model.
  intros Ha Hd Hc Hv. apply andb_true_iff in Ha. destruct Ha as [_ Ha].
  apply andb_true_iff in Hd. destruct Hd as [_ Hw].
  unfold quirk_classes in Hc.
  destruct (reenc_hit (c_sf c) (c_in c)) eqn:E28.
  { exfalso. destruct (flat_map _ _) as [|k ks]; discriminate Hc. }
  rewrite (roundtrip_exact _ _ Hw) in Ha.
  destruct (c_obs c) as [| | |t v]; try discriminate Ha.
  apply nodes_eqb_eq in Ha. subst t. rewrite Hv. cbn [andb].
  apply eqvb_eqv. unfold eqv. rewrite expect_body_norm by exact E28. apply norm_body_idem.
Qed.
