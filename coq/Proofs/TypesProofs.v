(* C13: added types are exact and deduplicated.  Theorems about the mirror of ModuleTypes (Types.v) for all
   type sections, all addition sequences (no bound on their length) and ANY insertion order in which
   ModuleTypes::new builds the dedup map (since the repair of D11 the code uses the ascending id order,
   [asc_ids]; the theorems hold for every order, so in particular for that one):
   A. add_type: soundness, idempotence, preservation (one call);
   B. the dedup map built by ModuleTypes::new is consistent with the types for every order; last visited wins;
   C. sequences (fold_left): soundness of every returned id in the final state, idempotence across the whole
      sequence, the types / groups are only appended;
   D. emission: the groups of the input come out unchanged, every added type as its own implicit entry at
      index = id;
   E. the model satisfies the executable specification of CheckTypes.v; checker soundness. *)
From Coq Require Import List Arith NArith Bool Lia.
Import ListNotations.
From Orca Require Import Util Flat Types CheckTypes EqbFacts.
Local Open Scope N_scope.

(* ---------- structural equality is Leibniz equality ---------- *)
Lemma optN_eqb_eq x y : optN_eqb x y = true -> x = y.
Proof. destruct x, y; cbn; try discriminate; [|reflexivity]. intros H. apply N.eqb_eq in H. subst. reflexivity. Qed.
Lemma optN_eqb_refl x : optN_eqb x x = true.
Proof. destruct x; cbn; [apply N.eqb_refl|reflexivity]. Qed.

Lemma ctype_eqb_eq a b : ctype_eqb a b = true -> a = b.
Proof.
  destruct a as [k1 x1 y1 s1 f1 h1], b as [k2 x2 y2 s2 f2 h2]. unfold ctype_eqb. cbn [t_kind t_xs t_ys t_sup t_fin t_sh].
  rewrite !andb_true_iff. intros [[[[[H1 H2] H3] H4] H5] H6].
  apply N.eqb_eq in H1. apply (list_eqb_eq _ Neqb_eq) in H2, H3. apply optN_eqb_eq in H4.
  apply booleqb_eq in H5, H6. subst. reflexivity.
Qed.
Lemma ctype_eqb_refl a : ctype_eqb a a = true.
Proof.
  destruct a as [k x y s f h]. unfold ctype_eqb. cbn [t_kind t_xs t_ys t_sup t_fin t_sh].
  rewrite N.eqb_refl, !(list_eqb_refl _ N.eqb_refl), optN_eqb_refl, !eqb_reflx. reflexivity.
Qed.
Lemma ctype_eqb_spec a b : reflect (a = b) (ctype_eqb a b).
Proof.
  destruct (ctype_eqb a b) eqn:E; constructor.
  - apply ctype_eqb_eq. exact E.
  - intros ->. rewrite ctype_eqb_refl in E. discriminate.
Qed.

Lemma mem_type_In t l : mem_type t l = true <-> In t l.
Proof.
  unfold mem_type. rewrite existsb_exists. split.
  - intros (x & Hx & E). apply ctype_eqb_eq in E. subst. exact Hx.
  - intros H. exists t. split; [exact H|apply ctype_eqb_refl].
Qed.
Lemma mem_type_false t l : ~ In t l -> mem_type t l = false.
Proof. intros H. destruct (mem_type t l) eqn:E; [|reflexivity]. apply mem_type_In in E. contradiction. Qed.

(* ---------- the dedup map ---------- *)
Lemma lookup_app_some t m m' i : lookup_map t m = Some i -> lookup_map t (m ++ m') = Some i.
Proof.
  induction m as [|[t0 i0] m IH]; cbn [lookup_map app]; [discriminate|].
  destruct (ctype_eqb t0 t); [intros H; exact H|exact IH].
Qed.
Lemma lookup_app_none t m m' : lookup_map t m = None -> lookup_map t (m ++ m') = lookup_map t m'.
Proof.
  induction m as [|[t0 i0] m IH]; cbn [lookup_map app]; [reflexivity|].
  destruct (ctype_eqb t0 t); [discriminate|exact IH].
Qed.
Lemma lookup_single t i : lookup_map t [(t, i)] = Some i.
Proof. cbn. rewrite ctype_eqb_refl. reflexivity. Qed.
Lemma lookup_In t m i : lookup_map t m = Some i -> In (t, i) m.
Proof.
  induction m as [|[t0 i0] m IH]; cbn [lookup_map]; [discriminate|].
  destruct (ctype_eqb_spec t0 t) as [->|_].
  - intros H. inversion H; subst. left. reflexivity.
  - intros H. right. apply IH. exact H.
Qed.

Definition map_ok (types : list ctype) (m : list (ctype * N)) : Prop :=
  forall t i, In (t, i) m -> nth_error types (N.to_nat i) = Some t.

Lemma map_ok_grow types extra m : map_ok types m -> map_ok (types ++ extra) m.
Proof.
  intros H t i Hin. specialize (H t i Hin). rewrite nth_error_app1; [exact H|].
  apply nth_error_Some. rewrite H. discriminate.
Qed.

Lemma insert_map_In ty id : forall m t i, In (t, i) (insert_map ty id m) -> In (t, i) m \/ (t = ty /\ i = id).
Proof.
  induction m as [|[t0 i0] m IH]; intros t i H; cbn [insert_map] in H.
  - destruct H as [H|[]]. inversion H; subst. right. split; reflexivity.
  - destruct (ctype_eqb_spec t0 ty) as [->|_].
    + destruct H as [H|H]; [inversion H; subst; right; split; reflexivity|left; right; exact H].
    + destruct H as [H|H]; [left; left; exact H|].
      destruct (IH t i H) as [H1|H1]; [left; right; exact H1|right; exact H1].
Qed.
Lemma lookup_insert_same ty id : forall m, lookup_map ty (insert_map ty id m) = Some id.
Proof.
  induction m as [|[t0 i0] m IH]; cbn [insert_map lookup_map].
  - rewrite ctype_eqb_refl. reflexivity.
  - destruct (ctype_eqb t0 ty) eqn:E; cbn [lookup_map]; rewrite E; [reflexivity|exact IH].
Qed.
Lemma lookup_insert_keeps ty id t : forall m, lookup_map t m <> None -> lookup_map t (insert_map ty id m) <> None.
Proof.
  induction m as [|[t0 i0] m IH]; cbn [insert_map lookup_map]; [intros H; contradiction|].
  destruct (ctype_eqb t0 ty) eqn:E; cbn [lookup_map]; destruct (ctype_eqb t0 t); try discriminate; try exact IH.
  intros H; exact H.
Qed.

Definition build_step (types : list ctype) (m : list (ctype * N)) (id : N) : list (ctype * N) :=
  match nth_error types (N.to_nat id) with Some ty => insert_map ty id m | None => m end.
Lemma build_map_fold types order : build_map types order = fold_left (build_step types) order [].
Proof. reflexivity. Qed.

Lemma build_fold_ok types : forall order m, map_ok types m -> map_ok types (fold_left (build_step types) order m).
Proof.
  induction order as [|id order IH]; intros m H; [exact H|].
  cbn [fold_left]. apply IH. unfold build_step.
  destruct (nth_error types (N.to_nat id)) as [ty|] eqn:E; [|exact H].
  intros t i Hin. destruct (insert_map_In _ _ _ _ _ Hin) as [H1|[-> ->]]; [apply H; exact H1|exact E].
Qed.
(* B. for every iteration order whatsoever, every entry of the dedup map points at a type equal to its key *)
Theorem build_map_ok types order : map_ok types (build_map types order).
Proof. rewrite build_map_fold. apply build_fold_ok. intros t i []. Qed.

Lemma build_fold_keeps types t : forall order m,
  lookup_map t m <> None -> lookup_map t (fold_left (build_step types) order m) <> None.
Proof.
  induction order as [|id order IH]; intros m H; [exact H|].
  cbn [fold_left]. apply IH. unfold build_step.
  destruct (nth_error types (N.to_nat id)); [apply lookup_insert_keeps; exact H|exact H].
Qed.
Lemma build_fold_covers types t id : nth_error types (N.to_nat id) = Some t ->
  forall order m, In id order -> lookup_map t (fold_left (build_step types) order m) <> None.
Proof.
  intros Ht. induction order as [|x order IH]; intros m Hin; [destruct Hin|].
  cbn [fold_left]. destruct Hin as [->|Hin]; [|apply IH; exact Hin].
  apply build_fold_keeps. unfold build_step. rewrite Ht, lookup_insert_same. discriminate.
Qed.
(* the last visited of several structurally equal types is the one the map answers with *)
Theorem build_map_last_wins types order id t :
  nth_error types (N.to_nat id) = Some t ->
  lookup_map t (build_map types (order ++ [id])) = Some id.
Proof.
  intros H. rewrite build_map_fold, fold_left_app. cbn [fold_left]. unfold build_step at 1. rewrite H.
  apply lookup_insert_same.
Qed.

(* ---------- A. one call of add_type ---------- *)
Theorem add_type_sound ty st :
  map_ok (ts_types st) (ts_map st) ->
  nth_error (ts_types (snd (add_type ty st))) (N.to_nat (fst (add_type ty st))) = Some ty.
Proof.
  intros H. unfold add_type. destruct (lookup_map ty (ts_map st)) as [id|] eqn:E; cbn [fst snd ts_types].
  - apply H. apply lookup_In. exact E.
  - rewrite Nat2N.id, nth_error_app2, Nat.sub_diag by lia. reflexivity.
Qed.

Theorem add_type_idem ty st :
  add_type ty (snd (add_type ty st)) = (fst (add_type ty st), snd (add_type ty st)).
Proof.
  unfold add_type at 2 3 4. destruct (lookup_map ty (ts_map st)) as [id|] eqn:E; cbn [fst snd].
  - unfold add_type. rewrite E. reflexivity.
  - unfold add_type. cbn [ts_map]. rewrite (lookup_app_none _ _ _ E), lookup_single. reflexivity.
Qed.

Theorem add_type_preserves ty st :
  exists et eg em,
    ts_types (snd (add_type ty st)) = ts_types st ++ et
    /\ ts_groups (snd (add_type ty st)) = ts_groups st ++ eg
    /\ ts_map (snd (add_type ty st)) = ts_map st ++ em
    /\ (forall i t, nth_error (ts_types st) i = Some t -> nth_error (ts_types (snd (add_type ty st))) i = Some t).
Proof.
  unfold add_type. destruct (lookup_map ty (ts_map st)) as [id|]; cbn [snd ts_types ts_groups ts_map].
  - exists [], [], []. rewrite !app_nil_r. repeat split. intros i t H; exact H.
  - eexists. eexists. eexists. repeat split. intros i t H. rewrite nth_error_app1; [exact H|].
    apply nth_error_Some. rewrite H. discriminate.
Qed.

Lemma add_type_map_ok ty st : map_ok (ts_types st) (ts_map st) ->
  map_ok (ts_types (snd (add_type ty st))) (ts_map (snd (add_type ty st))).
Proof.
  intros H. unfold add_type. destruct (lookup_map ty (ts_map st)) as [id|]; cbn [snd ts_types ts_map]; [exact H|].
  intros t i Hin. apply in_app_or in Hin. destruct Hin as [Hin|[Hin|[]]].
  - apply (map_ok_grow _ [ty] _ H t i Hin).
  - inversion Hin; subst. rewrite Nat2N.id, nth_error_app2, Nat.sub_diag by lia. reflexivity.
Qed.

Lemma add_type_lookup ty st : lookup_map ty (ts_map (snd (add_type ty st))) = Some (fst (add_type ty st)).
Proof.
  unfold add_type. destruct (lookup_map ty (ts_map st)) as [id|] eqn:E; cbn [fst snd ts_map]; [exact E|].
  rewrite (lookup_app_none _ _ _ E). apply lookup_single.
Qed.

(* ---------- the invariant of a run, relative to the parsed type section ---------- *)
Definition single (i : N) : list N * bool := ([i], false).
Fixpoint no_repeat_ok (seen l : list ctype) : Prop :=
  match l with [] => True | t :: l' => ~ In t seen /\ no_repeat_ok (t :: seen) l' end.

Record inv (tys0 : list ctype) (groups0 : list (list N * bool)) (st : tstate) (added : list ctype) : Prop := mkInv {
  inv_types : ts_types st = tys0 ++ added;
  inv_groups : ts_groups st = groups0 ++ map single (Types.ids_from (N.of_nat (length tys0)) (length added));
  inv_map : map_ok (ts_types st) (ts_map st);
  inv_keys : forall t, In t tys0 \/ In t added -> lookup_map t (ts_map st) <> None;
  inv_norep : no_repeat_ok tys0 added }.

Lemma ids_from_snoc : forall n first, Types.ids_from first (S n) = Types.ids_from first n ++ [first + N.of_nat n].
Proof.
  induction n as [|n IH]; intros first.
  - cbn. rewrite N.add_0_r. reflexivity.
  - change (Types.ids_from first (S (S n))) with (first :: Types.ids_from (first + 1) (S n)).
    rewrite IH. cbn [Types.ids_from app].
    replace (first + 1 + N.of_nat n) with (first + N.of_nat (S n)) by lia. reflexivity.
Qed.

Lemma no_repeat_ok_snoc t : forall l seen,
  no_repeat_ok seen l -> ~ In t seen -> ~ In t l -> no_repeat_ok seen (l ++ [t]).
Proof.
  induction l as [|x l IH]; intros seen H Hs Hl; cbn [app no_repeat_ok].
  - split; [exact Hs|exact I].
  - destruct H as [H1 H2]. split; [exact H1|]. apply IH; [exact H2| |].
    + intros [->|Hin]; [apply Hl; left; reflexivity|apply Hs; exact Hin].
    + intros Hin. apply Hl. right. exact Hin.
Qed.
Lemma no_repeat_ok_bool : forall l seen, no_repeat_ok seen l -> no_repeat seen l = true.
Proof.
  induction l as [|x l IH]; intros seen H; [reflexivity|].
  destruct H as [H1 H2]. cbn [no_repeat]. rewrite (mem_type_false _ _ H1), (IH _ H2). reflexivity.
Qed.

Lemma add_type_inv tys0 groups0 st added ty :
  inv tys0 groups0 st added ->
  exists added', inv tys0 groups0 (snd (add_type ty st)) added' /\ (added' = added \/ added' = added ++ [ty]).
Proof.
  intros [I1 I2 I3 I4 I5]. unfold add_type. destruct (lookup_map ty (ts_map st)) as [id|] eqn:E; cbn [snd].
  - exists added. split; [constructor; assumption|left; reflexivity].
  - exists (added ++ [ty]). split; [|right; reflexivity]. constructor; cbn [ts_types ts_groups ts_map].
    + rewrite I1, app_assoc. reflexivity.
    + rewrite I2, app_length, Nat.add_1_r, ids_from_snoc, map_app, app_assoc. cbn [map]. unfold single at 3.
      rewrite I1, app_length. do 4 f_equal. lia.
    + pose proof (add_type_map_ok ty st I3) as M. unfold add_type in M. rewrite E in M. exact M.
    + intros t [H|H].
      * intros C. apply (I4 t (or_introl H)). destruct (lookup_map t (ts_map st)) eqn:L; [|reflexivity].
        rewrite (lookup_app_some _ _ _ _ L) in C. discriminate.
      * apply in_app_or in H. destruct H as [H|[->|[]]].
        -- intros C. apply (I4 t (or_intror H)). destruct (lookup_map t (ts_map st)) eqn:L; [|reflexivity].
           rewrite (lookup_app_some _ _ _ _ L) in C. discriminate.
        -- rewrite (lookup_app_none _ _ _ E), lookup_single. discriminate.
    + apply no_repeat_ok_snoc; [exact I5| |].
      * intros H. apply (I4 ty (or_introl H)). exact E.
      * intros H. apply (I4 ty (or_intror H)). exact E.
Qed.

(* ---------- C. sequences ---------- *)
Lemma api_fold : forall ops acc st tys0 groups0 added,
  inv tys0 groups0 st added ->
  exists ids added',
    fold_left api_step ops (acc, st) = (acc ++ ids, snd (fold_left api_step ops (acc, st)))
    /\ length ids = length ops
    /\ inv tys0 groups0 (snd (fold_left api_step ops (acc, st))) (added ++ added')
    /\ (forall k op id, nth_error ops k = Some op -> nth_error ids k = Some id ->
          lookup_map (api_type (fst op) (snd op)) (ts_map (snd (fold_left api_step ops (acc, st)))) = Some id)
    /\ (exists em, ts_map (snd (fold_left api_step ops (acc, st))) = ts_map st ++ em).
Proof.
  induction ops as [|op ops IH]; intros acc st tys0 groups0 added Hinv.
  - exists [], []. cbn [fold_left fst snd length]. rewrite !app_nil_r.
    split; [reflexivity|]. split; [reflexivity|]. split; [exact Hinv|]. split.
    + intros k op id H; destruct k; discriminate.
    + exists []. rewrite app_nil_r. reflexivity.
  - cbn [fold_left]. unfold api_step at 2 4 6 8 10. cbn [fst snd].
    set (ty := api_type (fst op) (snd op)).
    pose proof (add_type_lookup ty st) as L.
    destruct (add_type_preserves ty st) as (et & eg & em1 & _ & _ & P3 & _).
    destruct (add_type_inv _ _ _ _ ty Hinv) as (added1 & Hinv1 & Hadd).
    destruct (add_type ty st) as [id st1] eqn:E. cbn [fst snd] in *.
    destruct (IH (acc ++ [id]) st1 tys0 groups0 added1 Hinv1) as (ids & added' & F1 & F2 & F3 & F4 & em2 & F5).
    exists (id :: ids). destruct Hadd as [->| ->].
    + exists added'. split; [|split; [|split; [|split]]].
      * rewrite F1 at 1. rewrite <- app_assoc. reflexivity.
      * cbn [length]. rewrite F2. reflexivity.
      * exact F3.
      * intros k op' id' Hk Hi. destruct k as [|k]; cbn in Hk, Hi.
        -- inversion Hk; inversion Hi; subst. fold ty. rewrite F5. apply lookup_app_some. exact L.
        -- apply (F4 k op' id' Hk Hi).
      * exists (em1 ++ em2). rewrite F5, P3, app_assoc. reflexivity.
    + exists ([ty] ++ added'). split; [|split; [|split; [|split]]].
      * rewrite F1 at 1. rewrite <- app_assoc. reflexivity.
      * cbn [length]. rewrite F2. reflexivity.
      * rewrite app_assoc. exact F3.
      * intros k op' id' Hk Hi. destruct k as [|k]; cbn in Hk, Hi.
        -- inversion Hk; inversion Hi; subst. fold ty. rewrite F5. apply lookup_app_some. exact L.
        -- apply (F4 k op' id' Hk Hi).
      * exists (em1 ++ em2). rewrite F5, P3, app_assoc. reflexivity.
Qed.

(* the parsed type section *)
Fixpoint mk_groups (start : nat) (base : tgroups) : list (list N * bool) :=
  match base with
  | [] => []
  | (e, ms) :: b' => (Types.ids_from (N.of_nat start) (length ms), e) :: mk_groups (start + length ms) b'
  end.
Lemma parse_groups_spec : forall base groups types,
  parse_groups base groups types = (groups ++ mk_groups (length types) base, types ++ flat base).
Proof.
  induction base as [|[e ms] base IH]; intros groups types.
  - cbn. rewrite !app_nil_r. reflexivity.
  - cbn [parse_groups]. rewrite IH, app_length. unfold flat. cbn [map concat mk_groups snd].
    rewrite <- !app_assoc. reflexivity.
Qed.

Lemma upto_In : forall n i, (i < n)%nat -> In (N.of_nat i) (upto n).
Proof.
  induction n as [|n IH]; intros i H; [lia|].
  cbn [upto]. apply in_or_app. destruct (Nat.eq_dec i n) as [->|Hn]; [right; left; reflexivity|left; apply IH; lia].
Qed.
Lemma memN_In x l : memN x l = true -> In x l.
Proof. unfold memN. rewrite existsb_exists. intros (y & Hy & E). apply N.eqb_eq in E. subst. exact Hy. Qed.

Lemma parse_inv base order :
  forallb (fun id => memN id order) (upto (length (flat base))) = true ->
  inv (flat base) (mk_groups 0 base) (parse_types base order) [].
Proof.
  intros Hcov. unfold parse_types. rewrite parse_groups_spec. cbn [length app].
  constructor; cbn [ts_types ts_groups ts_map length map Types.ids_from].
  - rewrite app_nil_r. reflexivity.
  - rewrite app_nil_r. reflexivity.
  - apply build_map_ok.
  - intros t [H|[]]. apply In_nth_error in H. destruct H as [i Hi].
    assert (Hlt : (i < length (flat base))%nat) by (apply nth_error_Some; rewrite Hi; discriminate).
    rewrite build_map_fold. apply (build_fold_covers _ t (N.of_nat i)).
    + rewrite Nat2N.id. exact Hi.
    + apply memN_In. rewrite forallb_forall in Hcov. apply Hcov. apply upto_In. exact Hlt.
  - exact I.
Qed.

(* the same without the coverage hypothesis (any list as iteration order): everything but "every type of the input
   is a key of the map" *)
Record inv0 (tys0 : list ctype) (groups0 : list (list N * bool)) (st : tstate) (added : list ctype) : Prop := mkInv0 {
  inv0_types : ts_types st = tys0 ++ added;
  inv0_groups : ts_groups st = groups0 ++ map single (Types.ids_from (N.of_nat (length tys0)) (length added));
  inv0_map : map_ok (ts_types st) (ts_map st) }.

Lemma add_type_inv0 tys0 groups0 st added ty :
  inv0 tys0 groups0 st added ->
  exists added', inv0 tys0 groups0 (snd (add_type ty st)) added' /\ (added' = added \/ added' = added ++ [ty]).
Proof.
  intros [I1 I2 I3]. pose proof (add_type_map_ok ty st I3) as M. unfold add_type in *.
  destruct (lookup_map ty (ts_map st)) as [id|] eqn:E; cbn [snd] in *.
  - exists added. split; [constructor; assumption|left; reflexivity].
  - exists (added ++ [ty]). split; [|right; reflexivity]. constructor; cbn [ts_types ts_groups ts_map] in *.
    + rewrite I1, app_assoc. reflexivity.
    + rewrite I2, app_length, Nat.add_1_r, ids_from_snoc, map_app, app_assoc. cbn [map]. unfold single at 3.
      rewrite I1, app_length. do 4 f_equal. lia.
    + exact M.
Qed.

(* C. any base, ANY iteration order, any sequence of additions *)
Theorem api_run_spec base order ops :
  let ids := fst (api_run ops (parse_types base order)) in
  let st := snd (api_run ops (parse_types base order)) in
  exists added,
    (* preservation: the types and the groups of the input are still there, in place; additions are appended,
       each as its own implicit group whose only member is its id *)
    ts_types st = flat base ++ added
    /\ ts_groups st = mk_groups 0 base ++ map single (Types.ids_from (N.of_nat (length (flat base))) (length added))
    /\ length ids = length ops
    (* soundness: the type at every returned id is the requested one *)
    /\ (forall k op id, nth_error ops k = Some op -> nth_error ids k = Some id ->
          nth_error (ts_types st) (N.to_nat id) = Some (api_type (fst op) (snd op)))
    (* idempotence: two requests for the same type, anywhere in the sequence, get the same id *)
    /\ (forall i j opi opj idi idj,
          nth_error ops i = Some opi -> nth_error ops j = Some opj ->
          nth_error ids i = Some idi -> nth_error ids j = Some idj ->
          api_type (fst opi) (snd opi) = api_type (fst opj) (snd opj) -> idi = idj).
Proof.
  cbn zeta. unfold api_run.
  assert (G : forall ops acc st added, inv0 (flat base) (mk_groups 0 base) st added ->
    exists ids added',
      fst (fold_left api_step ops (acc, st)) = acc ++ ids /\ length ids = length ops
      /\ inv0 (flat base) (mk_groups 0 base) (snd (fold_left api_step ops (acc, st))) (added ++ added')
      /\ (forall k op id, nth_error ops k = Some op -> nth_error ids k = Some id ->
            lookup_map (api_type (fst op) (snd op)) (ts_map (snd (fold_left api_step ops (acc, st)))) = Some id)).
  { clear ops. induction ops as [|op ops IH]; intros acc st added Hinv.
    - exists [], []. cbn [fold_left fst snd length]. rewrite !app_nil_r.
      split; [reflexivity|]. split; [reflexivity|]. split; [exact Hinv|].
      intros k op id H; destruct k; discriminate.
    - cbn [fold_left]. unfold api_step at 2 4 6. cbn [fst snd].
      set (ty := api_type (fst op) (snd op)).
      pose proof (add_type_lookup ty st) as L.
      destruct (add_type_preserves ty st) as (et & eg & em1 & _ & _ & P3 & _).
      destruct (add_type_inv0 _ _ _ _ ty Hinv) as (added1 & Hinv1 & Hadd).
      destruct (add_type ty st) as [id st1] eqn:E. cbn [fst snd] in *.
      destruct (IH (acc ++ [id]) st1 added1 Hinv1) as (ids & added' & F1 & F2 & F3 & F4).
      assert (Hmono : forall t i, lookup_map t (ts_map st1) = Some i ->
                lookup_map t (ts_map (snd (fold_left api_step ops (acc ++ [id], st1)))) = Some i).
      { clear - ops. revert acc id st1. induction ops as [|o ops IHo]; intros acc id st1 t i H; [exact H|].
        cbn [fold_left]. unfold api_step at 2. cbn [fst snd].
        destruct (add_type_preserves (api_type (fst o) (snd o)) st1) as (_ & _ & em & _ & _ & Pm & _).
        destruct (add_type (api_type (fst o) (snd o)) st1) as [id2 st2]. cbn [snd] in Pm.
        apply (IHo (acc ++ [id]) id2 st2). rewrite Pm. apply lookup_app_some. exact H. }
      assert (Hids : fst (fold_left api_step ops (acc ++ [id], st1)) = acc ++ id :: ids)
        by (rewrite F1, <- app_assoc; reflexivity).
      assert (Hlen : length (id :: ids) = S (length ops)) by (cbn [length]; rewrite F2; reflexivity).
      assert (Hlk : forall k op' id', nth_error (op :: ops) k = Some op' -> nth_error (id :: ids) k = Some id' ->
                lookup_map (api_type (fst op') (snd op')) (ts_map (snd (fold_left api_step ops (acc ++ [id], st1)))) = Some id').
      { intros k op' id' Hk Hi. destruct k as [|k]; cbn in Hk, Hi.
        * inversion Hk; inversion Hi; subst. fold ty. apply Hmono. exact L.
        * apply (F4 k op' id' Hk Hi). }
      exists (id :: ids). destruct Hadd as [->| ->].
      + exists added'. split; [exact Hids|]. split; [exact Hlen|]. split; [exact F3|exact Hlk].
      + exists ([ty] ++ added'). split; [exact Hids|]. split; [exact Hlen|]. split; [rewrite app_assoc; exact F3|exact Hlk]. }
  assert (H0 : inv0 (flat base) (mk_groups 0 base) (parse_types base order) []).
  { unfold parse_types. rewrite parse_groups_spec. cbn [length app].
    constructor; cbn [ts_types ts_groups ts_map length map Types.ids_from]; rewrite ?app_nil_r; try reflexivity.
    apply build_map_ok. }
  destruct (G ops [] _ [] H0) as (ids & added & F1 & F2 & [I1 I2 I3] & F4).
  cbn [app] in F1, I1, I2. exists added. rewrite F1.
  split; [exact I1|]. split; [exact I2|]. split; [exact F2|]. split.
  - intros k op id Hk Hi. apply I3. apply lookup_In. apply (F4 k op id Hk Hi).
  - intros i j opi opj idi idj Hi Hj Hii Hjj Heq.
    pose proof (F4 i opi idi Hi Hii) as L1. pose proof (F4 j opj idj Hj Hjj) as L2.
    rewrite Heq in L1. rewrite L1 in L2. inversion L2. reflexivity.
Qed.

(* ---------- D. emission ---------- *)
Lemma get_all_run : forall ms pre rest,
  get_all (pre ++ ms ++ rest) (Types.ids_from (N.of_nat (length pre)) (length ms)) = Some ms.
Proof.
  induction ms as [|m ms IH]; intros pre rest; [reflexivity|].
  cbn [length Types.ids_from get_all]. rewrite Nat2N.id, nth_error_app2, Nat.sub_diag by lia. cbn [app nth_error].
  replace (N.of_nat (length pre) + 1) with (N.of_nat (length (pre ++ [m]))) by (rewrite app_length; cbn [length]; lia).
  replace (pre ++ m :: ms ++ rest) with ((pre ++ [m]) ++ ms ++ rest) by (rewrite <- app_assoc; reflexivity).
  rewrite IH. reflexivity.
Qed.

Definition shaped (base : tgroups) : bool := forallb (fun g => fst g || Nat.eqb (length (snd g)) 1) base.

Lemma emit_groups_app types : forall g1 g2 a b,
  emit_groups types g1 = Some a -> emit_groups types g2 = Some b -> emit_groups types (g1 ++ g2) = Some (a ++ b).
Proof.
  induction g1 as [|[ids e] g1 IH]; intros g2 a b H1 H2.
  - cbn in H1. inversion H1. exact H2.
  - cbn [emit_groups app] in *. destruct (get_all types ids) as [ts|]; [|discriminate].
    destruct (emit_groups types g1) as [r|] eqn:E; [|discriminate]. inversion H1; subst.
    rewrite (IH g2 r b eq_refl H2), app_assoc. reflexivity.
Qed.

Lemma emit_base : forall base pre rest, shaped base = true ->
  emit_groups (pre ++ flat base ++ rest) (mk_groups (length pre) base) = Some base.
Proof.
  induction base as [|[e ms] base IH]; intros pre rest Hs; [reflexivity|].
  cbn [shaped forallb] in Hs. apply andb_true_iff in Hs. destruct Hs as [Hs1 Hs].
  cbn [mk_groups emit_groups]. unfold flat. cbn [map concat snd]. fold (flat base).
  rewrite <- app_assoc, get_all_run.
  replace (pre ++ ms ++ flat base ++ rest) with ((pre ++ ms) ++ flat base ++ rest) by (rewrite <- app_assoc; reflexivity).
  replace (length pre + length ms)%nat with (length (pre ++ ms)) by (rewrite app_length; reflexivity).
  rewrite (IH (pre ++ ms) rest Hs). destruct e; [reflexivity|].
  cbn [fst snd orb] in Hs1. destruct ms as [|m [|m' ms]]; try discriminate. reflexivity.
Qed.

Lemma emit_singles : forall added pre,
  emit_groups (pre ++ added) (map single (Types.ids_from (N.of_nat (length pre)) (length added)))
  = Some (map (fun t => (false, [t])) added).
Proof.
  induction added as [|t added IH]; intros pre; [reflexivity|].
  cbn [length Types.ids_from map emit_groups]. unfold single at 1. cbn [get_all].
  rewrite Nat2N.id, nth_error_app2, Nat.sub_diag by lia. cbn [nth_error].
  replace (N.of_nat (length pre) + 1) with (N.of_nat (length (pre ++ [t]))) by (rewrite app_length; cbn [length]; lia).
  replace (pre ++ t :: added) with ((pre ++ [t]) ++ added) by (rewrite <- app_assoc; reflexivity).
  rewrite IH. reflexivity.
Qed.

(* the groups of the input come out unchanged (explicit groups kept, also empty ones), every added type follows as its
   own implicit entry; the flattened list is the types vector, i.e. emitted index = id *)
Theorem emit_after_run base st added :
  shaped base = true ->
  ts_types st = flat base ++ added ->
  ts_groups st = mk_groups 0 base ++ map single (Types.ids_from (N.of_nat (length (flat base))) (length added)) ->
  emit_types st = Some (base ++ map (fun t => (false, [t])) added).
Proof.
  intros Hs H1 H2. unfold emit_types. rewrite H1, H2. apply emit_groups_app.
  - pose proof (emit_base base [] added Hs) as E. cbn [app length] in E. exact E.
  - apply emit_singles.
Qed.

Lemma flat_app a b : flat (a ++ b) = flat a ++ flat b.
Proof. unfold flat. rewrite map_app, concat_app. reflexivity. Qed.
Lemma flat_singles added : flat (map (fun t => (false, [t])) added) = added.
Proof. induction added as [|t l IH]; [reflexivity|]. unfold flat in *. cbn [map concat snd app]. rewrite IH. reflexivity. Qed.

(* ---------- E. the executable specification ---------- *)
Lemma requested_api p a :
  (plain_path p || match t_sup a with Some i => i <? 1048576 | None => true end) = true ->
  requested (p, a) = api_type p a.
Proof.
  intros H. unfold requested.
  assert (Hp : pack (t_sup a) = t_sup a \/ plain_path p = true).
  { destruct (plain_path p); [right; reflexivity|left]. cbn in H. unfold pack. destruct (t_sup a); [rewrite H|]; reflexivity. }
  destruct p as [|[[[q|q|]|[q|q|]|]|[[q|q|]|[q|q|]|]|]];
    cbn [plain_path kind_of_path api_type N.eqb N.ltb N.compare Pos.eqb Pos.compare Pos.compare_cont orb] in *;
    try reflexivity; destruct Hp as [->|Hp]; try reflexivity; try discriminate.
Qed.

Lemma group_eqb_refl g : group_eqb g g = true.
Proof. unfold group_eqb. rewrite eqb_reflx, (list_eqb_refl _ ctype_eqb_refl). reflexivity. Qed.
Lemma group_eqb_eq a b : group_eqb a b = true -> a = b.
Proof.
  destruct a, b. unfold group_eqb. cbn [fst snd]. rewrite andb_true_iff. intros [H1 H2].
  apply booleqb_eq in H1. apply (list_eqb_eq _ ctype_eqb_eq) in H2. subst. reflexivity.
Qed.
Lemma obs13_eqb_eq a b : obs13_eqb a b = true -> a = b.
Proof.
  destruct a, b. unfold obs13_eqb. cbn [fst snd]. rewrite andb_true_iff. intros [H1 H2].
  apply (list_eqb_eq _ Neqb_eq) in H1. apply (list_eqb_eq _ group_eqb_eq) in H2. subst. reflexivity.
Qed.

Lemma sound_ok gs : forall ops ids, length ids = length ops ->
  (forall k op id, nth_error ops k = Some op -> nth_error ids k = Some id -> type_at gs id = Some (requested op)) ->
  sound gs ops ids = true.
Proof.
  induction ops as [|op ops IH]; intros [|id ids] Hl H; try discriminate; [reflexivity|].
  cbn [sound]. rewrite (H 0%nat op id eq_refl eq_refl). cbn [ctype_opt_eqb]. rewrite ctype_eqb_refl. cbn [andb].
  apply IH; [cbn in Hl; lia|]. intros k op' id' Hk Hi. apply (H (S k) op' id' Hk Hi).
Qed.

Lemma idempotent_ok (F : ctype -> option N) : forall ops ids,
  (forall k op id, nth_error ops k = Some op -> nth_error ids k = Some id -> F (requested op) = Some id) ->
  idempotent ops ids = true.
Proof.
  induction ops as [|op ops IH]; intros [|id ids] H; try reflexivity.
  cbn [idempotent]. apply andb_true_iff. split.
  - pose proof (H 0%nat op id eq_refl eq_refl) as H0.
    assert (G : forall ops' ids', (forall k o i, nth_error ops' k = Some o -> nth_error ids' k = Some i -> F (requested o) = Some i) ->
                same_as_before (requested op) id ops' ids' = true).
    { induction ops' as [|o ops' IHo]; intros [|i ids'] Hx; try reflexivity.
      cbn [same_as_before]. apply andb_true_iff. split.
      - destruct (ctype_eqb_spec (requested o) (requested op)) as [Eq|_]; [|reflexivity].
        pose proof (Hx 0%nat o i eq_refl eq_refl) as H1. rewrite Eq, H0 in H1. inversion H1. apply N.eqb_refl.
      - apply IHo. intros k o' i' Hk Hi. apply (Hx (S k) o' i' Hk Hi). }
    apply G. intros k o i Hk Hi. apply (H (S k) o i Hk Hi).
  - apply IH. intros k o i Hk Hi. apply (H (S k) o i Hk Hi).
Qed.

(* the ascending order visits every id, and parse_types_asc is parse_types under that order *)
Lemma ids_from_In : forall n first i, (i < n)%nat -> In (first + N.of_nat i) (Types.ids_from first n).
Proof.
  induction n as [|n IH]; intros first i H; [lia|].
  cbn [Types.ids_from]. destruct i as [|i].
  - left. cbn. lia.
  - right. replace (first + N.of_nat (S i)) with ((first + 1) + N.of_nat i) by lia. apply IH. lia.
Qed.
Lemma asc_ids_cover n : forallb (fun id => memN id (asc_ids n)) (upto n) = true.
Proof.
  apply forallb_forall. intros id Hin.
  assert (G : forall m x, In x (upto m) -> exists i, (i < m)%nat /\ x = N.of_nat i).
  { induction m as [|m IHm]; intros x Hx; [destruct Hx|].
    cbn [upto] in Hx. apply in_app_or in Hx. destruct Hx as [Hx|[<-|[]]].
    - destruct (IHm x Hx) as (i & Hi & ->). exists i. split; [lia|reflexivity].
    - exists m. split; [lia|reflexivity]. }
  destruct (G n id Hin) as (i & Hi & ->).
  unfold memN. apply existsb_exists. exists (N.of_nat i). split; [|apply N.eqb_refl].
  unfold asc_ids. replace (N.of_nat i) with (0 + N.of_nat i) by lia. apply ids_from_In. exact Hi.
Qed.
Lemma parse_types_asc_eq base : parse_types_asc base = parse_types base (asc_ids (length (flat base))).
Proof. unfold parse_types_asc, parse_types. rewrite parse_groups_spec. reflexivity. Qed.

Theorem model_meets_spec c :
  domain13 c = true -> exists o, model c = Some o /\ holds_on c o = true.
Proof.
  unfold domain13. rewrite !andb_true_iff. intros [[_ Hshape] Hsup].
  unfold model, api_run. rewrite parse_types_asc_eq.
  destruct (api_fold (tc_ops c) [] _ _ _ _ (parse_inv (tc_base c) (asc_ids (length (flat (tc_base c)))) (asc_ids_cover _)))
    as (ids & added & F1 & F2 & [I1 I2 I3 I4 I5] & F4 & _).
  cbn [app] in F1, I1, I2, I4, I5. rewrite F1.
  rewrite (emit_after_run _ _ _ Hshape I1 I2).
  eexists. split; [reflexivity|].
  set (st := snd (fold_left api_step (tc_ops c) ([], parse_types (tc_base c) (asc_ids (length (flat (tc_base c))))))) in *.
  set (gs := tc_base c ++ map (fun t => (false, [t])) added).
  assert (Hflat : flat gs = ts_types st) by (unfold gs; rewrite flat_app, flat_singles, I1; reflexivity).
  assert (Hreq : forall k op, nth_error (tc_ops c) k = Some op -> requested op = api_type (fst op) (snd op)).
  { intros k [p a] Hk. apply requested_api. rewrite forallb_forall in Hsup.
    apply (Hsup (p, a)). apply (nth_error_In _ _ Hk). }
  unfold holds_on, preserved. rewrite !andb_true_iff. repeat split.
  - apply sound_ok; [exact F2|]. intros k op id Hk Hi. unfold type_at. rewrite Hflat, (Hreq k op Hk).
    apply I3. apply lookup_In. apply (F4 k op id Hk Hi).
  - apply (idempotent_ok (fun t => lookup_map t (ts_map st))). intros k op id Hk Hi.
    rewrite (Hreq k op Hk). apply (F4 k op id Hk Hi).
  - unfold gs. rewrite firstn_app, Nat.sub_diag, firstn_all. cbn [firstn]. rewrite app_nil_r.
    apply (list_eqb_refl _ group_eqb_refl).
  - unfold gs. rewrite skipn_app, Nat.sub_diag, skipn_all. cbn [skipn app].
    apply forallb_forall. intros g Hg. apply in_map_iff in Hg. destruct Hg as (t & <- & _). reflexivity.
  - unfold deduplicated. rewrite Hflat, I1, skipn_app, Nat.sub_diag, skipn_all. cbn [skipn app].
    apply no_repeat_ok_bool. exact I5.
Qed.

Theorem checker13_sound c : agree c = true -> domain13 c = true -> holds13 c = true.
Proof.
  intros Ha Hd. destruct (model_meets_spec c Hd) as (o & Hm & Ho).
  unfold agree in Ha. rewrite Hm in Ha. unfold holds13.
  destruct (tc_obs c) as [b|]; [|discriminate]. apply obs13_eqb_eq in Ha. subst b. exact Ho.
Qed.

(* dedup against the input: under a covering order, asking for a type the input already has adds nothing and
   answers with the id of a structurally equal existing type *)
Theorem add_existing_type base order t :
  forallb (fun id => memN id order) (upto (length (flat base))) = true ->
  In t (flat base) ->
  let r := add_type t (parse_types base order) in
  snd r = parse_types base order /\ nth_error (flat base) (N.to_nat (fst r)) = Some t.
Proof.
  intros Hcov Hin. destruct (parse_inv base order Hcov) as [I1 _ I3 I4 _]. rewrite app_nil_r in I1.
  cbn zeta. unfold add_type. pose proof (I4 t (or_introl Hin)) as K.
  destruct (lookup_map t (ts_map (parse_types base order))) as [id|] eqn:E; [|contradiction].
  cbn [fst snd]. split; [reflexivity|]. rewrite <- I1. apply I3. apply lookup_In. exact E.
Qed.
