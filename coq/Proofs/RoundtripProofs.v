(* Proofs about the checker of the round-trip properties C02 / C01 (Check/CheckRoundtrip.v).

   What is proved here is the *reduction*: on a case where the model agrees with the implementation,
     - C02 holds of the observed output whenever the parse model predicts Ok and no value type that passes through
       wirm's DataType is in the known class D10 (decided with the generated conversion tables);
     - every failure of C02 / C01 on an agreeing, modelled case lies in a known class (10x D10) or the parse model
       predicts Err (the parse model never predicts a panic);
     - C01 holds whenever C02's content equality holds on a valid input.
   What is NOT proved: that Module::encode re-emits every section faithfully (there is no Gallina model of
   encode_internal's emission; that half is the differential run on decoded forms), and that validity depends only
   on decoded content and section order (sampled on every case, see agree01). *)
From Coq Require Import List NArith Bool.
From Orca Require Import Base.Util Model.ParseGlue Model.ValTypes Gen.GenDataTypeConv Proofs.ValTypeProofs
                         Check.CheckParse Proofs.ParseProofs Check.CheckRoundtrip.
Import ListNotations.
Local Open Scope N_scope.

Lemma eqb_true_eq : forall a b, Bool.eqb a b = true -> a = b.
Proof. intros [|] [|]; cbn; congruence. Qed.

Lemma agree_parse_obs : forall c, agree_parse c = true -> outcome_eqb (pred_parse c) OUnmodelled = false ->
  rc_obs_parse c = pred_parse c.
Proof.
  intros c A U. unfold agree_parse in A. apply andb_true_iff in A. destruct A as [A _].
  symmetry. apply predicts_eq; assumption.
Qed.

(* ---- C02 ---- *)
Theorem checker_sound02 : forall c, agree02 c = true -> pred_parse c = OOk -> d10_in c = false -> holds02 c = true.
Proof.
  intros c A P D. unfold agree02 in A. apply andb_true_iff in A. destruct A as [AP A].
  assert (O : rc_obs_parse c = OOk). { rewrite <- P. apply agree_parse_obs; [exact AP | rewrite P; reflexivity]. }
  rewrite O in A. apply andb_true_iff in A. destruct A as [E C].
  apply eqb_true_eq in C. unfold pred_content_equal in C. rewrite D in C. cbn [negb] in C.
  unfold holds02, ran_ok. rewrite O, E, C. reflexivity.
Qed.

Lemma known_D10_class : forall t, known_D10 t = true -> d10_exn t = true \/ d10_cont t = true \/ d10_shared t = true.
Proof.
  intros t K. unfold known_D10 in K. apply orb_true_iff in K. destruct K as [K|K]; [|tauto].
  apply orb_true_iff in K. tauto.
Qed.
Lemma existsb_weaken : forall (A : Type) (f g : A -> bool) l, (forall x, f x = true -> g x = true) -> existsb f l = true -> existsb g l = true.
Proof.
  intros A f g l H E. apply existsb_exists in E. destruct E as [x [I F]]. apply existsb_exists. exists x. split; [exact I | exact (H x F)].
Qed.
Lemma d10_in_classes : forall c, d10_in c = true -> d10_classes c <> [].
Proof.
  intros c D. unfold d10_in in D. apply existsb_exists in D. destruct D as [t [I K]].
  destruct (known_D10_class t K) as [H|[H|H]]; unfold d10_classes.
  - assert (E : existsb d10_exn (conv_types c) = true) by (apply existsb_exists; exists t; tauto). rewrite E. discriminate.
  - assert (E : existsb d10_cont (conv_types c) = true) by (apply existsb_exists; exists t; tauto). rewrite E.
    destruct (existsb d10_exn (conv_types c)); discriminate.
  - assert (E : existsb d10_shared (conv_types c) = true) by (apply existsb_exists; exists t; tauto). rewrite E.
    destruct (existsb d10_exn (conv_types c)); destruct (existsb d10_cont (conv_types c)); discriminate.
Qed.

Definition modelled_rt (c : rcase) : bool := negb (outcome_eqb (pred_parse c) OUnmodelled).

Theorem failures02_are_known : forall c, agree02 c = true -> modelled_rt c = true -> holds02 c = false ->
  pred_parse c = OErr \/ known_rt c <> [].
Proof.
  intros c A M H. unfold modelled_rt in M. apply negb_true_iff in M.
  destruct (pred_parse c) as [| |k|] eqn:P.
  - right. destruct (d10_in c) eqn:D.
    + unfold known_rt. intro E. apply app_eq_nil in E. destruct E as [_ E]. exact (d10_in_classes c D E).
    + rewrite (checker_sound02 c A P D) in H. discriminate.
  - left; reflexivity.
  - exfalso. unfold pred_parse in P. exact (parse_glue_never_panics _ _ _ P).
  - cbn [outcome_eqb] in M. discriminate.
Qed.

(* the parse model never predicts a panic: a valid module is parsed or rejected *)
Theorem pred_parse_never_panics : forall c k, pred_parse c <> OPanic k.
Proof. intros c k. unfold pred_parse. apply parse_glue_never_panics. Qed.

(* ---- C01 ---- *)
Theorem checker_sound01 : forall c, agree01 c = true -> pred_parse c = OOk -> rc_in_valid c = true -> content_equal c = true ->
  holds01 c = true.
Proof.
  intros c A P V C. unfold agree01 in A. apply andb_true_iff in A. destruct A as [AP A].
  assert (O : rc_obs_parse c = OOk). { rewrite <- P. apply agree_parse_obs; [exact AP | rewrite P; reflexivity]. }
  rewrite O in A. apply andb_true_iff in A. destruct A as [E I].
  rewrite V, C in I. cbn [andb implb] in I.
  unfold holds01, ran_ok. rewrite O, E, I. reflexivity.
Qed.

(* C01 from C02: on a valid input outside the known classes, an agreeing case is valid after the round trip *)
Corollary valid_roundtrip : forall c, agree01 c = true -> agree02 c = true -> pred_parse c = OOk -> d10_in c = false ->
  rc_in_valid c = true -> holds01 c = true.
Proof.
  intros c A1 A2 P D V. apply checker_sound01; try assumption.
  pose proof (checker_sound02 c A2 P D) as H. unfold holds02 in H. apply andb_true_iff in H. tauto.
Qed.

(* the generated conversion tables reproduce every observed conversion of an agreeing case *)
Theorem conv_table_validated : forall c, agree_parse c = true ->
  forall t o, In (t, o) (rc_conv c) -> opt_valtype_eqb (roundtrip_enc t) o = true.
Proof.
  intros c A t o I. unfold agree_parse in A. apply andb_true_iff in A. destruct A as [_ A].
  unfold conv_agrees in A. rewrite forallb_forall in A. exact (A (t, o) I).
Qed.
