(* C17 for the placement the implementation really emits: the before-code of instruction 0 (the user's
   before-probes of the first instruction, then the function-entry probes) comes *in front of* the wrapper
   block's opener:   pre ++ [block ty] ++ lowered body (instruction 0 without its before-code) ++ bef(final end)
                     ++ [end] ++ X.
   No rotation argument is needed any more: CheckSem.tree_tie compares exactly this tree with the emitted body. *)
From Coq Require Import List Arith NArith ZArith Bool Lia.
Import ListNotations.
From Orca Require Import Flat Tree TreeLower WasmP SemProofs EvalP Sim SimFn Peel.

Section Real.
Variable ftypes : list (nat * nat).
Variable F : nat -> flags.
Variable X : list fop.
Hypothesis HX : pcode X.
Hypothesis Hcode : forall i, pcode (bef F i) /\ pcode (aft F i) /\ pcode (be_ F i) /\ pcode (bx_ F i) /\ pcode (sa_ F i).
Hypothesis NX : neutral X.
Hypothesis Npre : neutral (bef F 0).
Variable ty : N.
Variable nres : nat.
Hypothesis Hty : arity ftypes (BtFunc ty) = (0, nres)%nat.

Notation F0 := (TreeLower.F0 F).
Notation evP := (evP ftypes).

Definition real_tree (body : list instr) (fe : nat) : list instr :=
  ins (bef F 0) ++ fn_tree F0 X ty body fe.

Lemma Hcode0 : forall i, pcode (bef F0 i) /\ pcode (aft F0 i) /\ pcode (be_ F0 i) /\ pcode (bx_ F0 i) /\ pcode (sa_ F0 i).
Proof.
  intros i. destruct (Hcode i) as (H1 & H2 & H3 & H4 & H5). destruct (Hcode 0) as (G1 & G2 & G3 & G4 & G5).
  unfold bef, aft, be_, bx_, sa_, TreeLower.F0 in *. destruct (Nat.eqb i 0); cbn; repeat split; auto.
Qed.

Lemma nbl_F0 body : nbl F body -> nbl F0 body.
Proof.
  assert (S : forall i, sa_ F0 i = sa_ F i).
  { intros i. unfold sa_, TreeLower.F0. destruct (Nat.eqb_spec i 0) as [->|]; reflexivity. }
  assert (G : forall x, nb F x -> nb F0 x).
  { fix IH 1. intros x. destruct x as [i o|i e bt b|i e bt b|i el e bt t els]; cbn [nb].
    - destruct o; auto; rewrite S; auto.
    - intros H. induction b as [|y b IHb]; cbn [fold_right] in *; [exact I|]. destruct H as [H1 H2]. split; [apply IH; exact H1|apply IHb; exact H2].
    - intros H. induction b as [|y b IHb]; cbn [fold_right] in *; [exact I|]. destruct H as [H1 H2]. split; [apply IH; exact H1|apply IHb; exact H2].
    - intros [Ht He]. split.
      + induction t as [|y t IHt]; cbn [fold_right] in *; [exact I|]. destruct Ht as [H1 H2]. split; [apply IH; exact H1|apply IHt; exact H2].
      + induction els as [|y els IHe]; cbn [fold_right] in *; [exact I|]. destruct He as [H1 H2]. split; [apply IH; exact H1|apply IHe; exact H2]. }
  unfold nbl. induction body as [|y b IHb]; cbn [fold_right]; [auto|]. intros [H1 H2]. split; [apply G; exact H1|apply IHb; exact H2].
Qed.

Definition ret (r : outcome) : outcome :=
  match r with ONormal c' => OReturn c' | OBr _ _ c' => OReturn c' | o => o end.

Theorem sim_fn_real fuel x rest fe c ob :
  exec_fn ftypes F [] X true fuel (x :: rest) fe c = ob -> ob <> OFuel -> nbl F (x :: rest) ->
  stack c = [] ->
  head_at_0 x -> ~ In 0 (positions rest) -> fe <> 0 ->
  (forall c1 n p c', exec ftypes F0 X true fuel false (x :: rest) c1 = OBr n p c' -> n = 0%nat) ->
  exists fuel' ob', exec_fn ftypes nof [] [] false fuel' (real_tree (x :: rest) fe) 0 c = ob' /\ res_eq nres ob ob'.
Proof.
  intros H Hn Hnb Hstk Hx Hr Hfe Hdepth.
  destruct fuel as [|f]; [cbn in H; congruence|].
  unfold exec_fn in H. cbn [run_code] in H.
  rewrite (peel_first ftypes X F f x rest c Hx Hr) in H.
  destruct Npre as [tp Htp].
  unfold probes in H. rewrite Htp in H.
  set (c1 := mkC (locals c) (globals c) (stack c) (trace c ++ tp)) in *.
  assert (Hstk1 : stack c1 = []) by exact Hstk.
  (* the run from c1 is a run of exec_fn with the peeled flags *)
  assert (H0 : exec_fn ftypes F0 [] X true (S f) (x :: rest) fe c1 = ob).
  { unfold exec_fn. cbn [run_code].
    replace (f_before (F0 fe)) with (f_before (F fe)); [exact H|].
    unfold TreeLower.F0. destruct (Nat.eqb_spec fe 0); [contradiction|reflexivity]. }
  destruct (sim_fn ftypes F0 X HX Hcode0 NX ty nres Hty (S f) (x :: rest) fe c1 ob H0 Hn (nbl_F0 _ Hnb) Hstk1
              (fun n p c' E => Hdepth c1 n p c' E)) as (f' & ob' & Hf' & Hres).
  assert (Hob' : ob' <> OFuel).
  { intros ->. destruct ob; cbn in Hres; congruence. }
  (* recover the plain run of the wrapped tree and put the pre-code in front of it *)
  unfold exec_fn in Hf'.
  set (r := exec ftypes nof [] false f' false (fn_tree F0 X ty (x :: rest) fe) c1) in *.
  assert (Hr1 : r <> OFuel) by (intros E; rewrite E in Hf'; congruence).
  assert (EV : evP (fn_tree F0 X ty (x :: rest) fe) c1 r) by (exists f'; split; [reflexivity|exact Hr1]).
  destruct (Hcode 0) as [Ppre _].
  pose proof (evP_ins ftypes (bef F 0) (fn_tree F0 X ty (x :: rest) fe) c Ppre) as HI.
  rewrite Htp in HI. fold c1 in HI. specialize (HI r EV).
  destruct HI as [f2 [Hf2 _]].
  exists f2, ob'. split; [|exact Hres].
  unfold exec_fn, real_tree. rewrite Hf2. exact Hf'.
Qed.
End Real.

Print Assumptions sim_fn_real.
