(* C24: the translated opcode helpers (Gen/GenHelpers.v) against the hand-written specification
   (Model/HelperSpec.v).  Finite in the helper (a boolean check of every entry of the generated table, run
   by vm_compute), universal in the immediates (the check is symbolic; its soundness lemma quantifies over
   all argument values in the range of the parameter types and uses the wrap-around lemmas of Base/Wrap.v). *)
From Coq Require Import List NArith ZArith Bool String Lia.
From Orca Require Import Util Wrap HelperLang HelperSpec GenHelpers CheckHelpers.
Import ListNotations.

(* ------------------------------------------------------------------------------------------ *)
(* the symbolic check of one helper                                                             *)

(* wrappers that do not change the representation of a value *)
Fixpoint strip (e : expr) : expr :=
  match e with
  | EDeref e' | EBitsF32 e' | EBitsF64 e' | EToBits e' | EConvBlockType e' | EConvHeapType e' => strip e'
  | _ => e
  end.

Definition param_is (ptys : list ty) (i : nat) (want : option ty) : bool :=
  match nth_error ptys i, want with
  | Some t, Some w => ty_eqb t w
  | Some _, None => true
  | None, _ => false
  end.

(* the generated expression [e] computes, for all in-range arguments, the immediate the specification
   describes by [s] *)
Definition imm_matches (ptys : list ty) (e : expr) (s : simm) : bool :=
  match strip e, s with
  | EParam i, Same j => Nat.eqb i j && param_is ptys i None
  | ECastI32 e', TwosCompl32 j =>
      match strip e' with EParam i => Nat.eqb i j && param_is ptys i (Some U32) | _ => false end
  | ECastI64 e', TwosCompl64 j =>
      match strip e' with EParam i => Nat.eqb i j && param_is ptys i (Some U64) | _ => false end
  | _, _ => false
  end.

Definition field_eqb (a b : string * ty) : bool := String.eqb (fst a) (fst b) && ty_eqb (snd a) (snd b).
Fixpoint fields_eqb (a b : list (string * ty)) : bool :=
  match a, b with
  | [], [] => true
  | x :: a', y :: b' => field_eqb x y && fields_eqb a' b'
  | _, _ => false
  end.
Fixpoint tys_eqb (a b : list ty) : bool :=
  match a, b with
  | [], [] => true
  | x :: a', y :: b' => ty_eqb x y && tys_eqb a' b'
  | _, _ => false
  end.

Definition check_field (ptys : list ty) (given : list (string * expr)) (simms : list (string * simm)) (f : string * ty) : bool :=
  match assoc (fst f) given, assoc (fst f) simms with
  | Some e, Some s => has_ty ptys e (snd f) && imm_matches ptys e s
  | _, _ => false
  end.

Definition check_inj (tbl : list opinfo) (ptys : list ty) (inj : injection) (s : sop) : bool :=
  match find_op tbl (i_variant inj), find_mnemonic tbl (s_mnemonic s) with
  | Some op, Some op' =>
      N.eqb (op_code op) (op_code op') && fields_eqb (op_fields op) (op_fields op')
      && Nat.eqb (List.length (i_fields inj)) (List.length (op_fields op))
      && Nat.eqb (List.length (s_imms s)) (List.length (op_fields op))
      && forallb (check_field ptys (i_fields inj) (s_imms s)) (op_fields op)
  | _, _ => false
  end.

Fixpoint forallb2 {A B} (f : A -> B -> bool) (a : list A) (b : list B) : bool :=
  match a, b with
  | [], [] => true
  | x :: a', y :: b' => f x y && forallb2 f a' b'
  | _, _ => false
  end.

Definition check_helper_against (tbl : list opinfo) (sp : hspec) (h : helper) : bool :=
  tys_eqb (map snd (h_params h)) (sp_params sp)
  && forallb2 (check_inj tbl (map snd (h_params h))) (h_injs h) (sp_ops sp).

Definition check_helper (h : helper) : bool :=
  match lookup_spec (h_name h) with
  | Some sp => check_helper_against optable sp h
  | None => false
  end.

(* ------------------------------------------------------------------------------------------ *)
(* soundness of the symbolic check                                                              *)

Lemma ty_eqb_eq a b : ty_eqb a b = true -> a = b.
Proof.
  destruct a, b; cbn [ty_eqb]; intros H; try discriminate; try reflexivity;
    apply String.eqb_eq in H; subst; reflexivity.
Qed.
Lemma tys_eqb_eq a : forall b, tys_eqb a b = true -> a = b.
Proof.
  induction a as [|x a IH]; intros [|y b] H; cbn [tys_eqb] in H; try discriminate; try reflexivity.
  apply andb_true_iff in H as [H1 H2]. apply ty_eqb_eq in H1. apply IH in H2. subst. reflexivity.
Qed.
Lemma fields_eqb_eq a : forall b, fields_eqb a b = true -> a = b.
Proof.
  induction a as [|[n t] a IH]; intros [|[n' t'] b] H; cbn [fields_eqb] in H; try discriminate; try reflexivity.
  apply andb_true_iff in H as [H1 H2]. unfold field_eqb in H1. cbn [fst snd] in H1.
  apply andb_true_iff in H1 as [Hn Ht]. apply String.eqb_eq in Hn. apply ty_eqb_eq in Ht.
  apply IH in H2. subst. reflexivity.
Qed.

Lemma eval_strip args e : eval args e = eval args (strip e).
Proof. induction e; cbn [eval strip]; auto. Qed.

Lemma nth_args_ok ptys : forall args i t,
  args_ok ptys args = true -> nth_error ptys i = Some t ->
  exists v, nth_error args i = Some v /\ val_ok t v = true.
Proof.
  induction ptys as [|t0 ptys IH]; intros args i t Hok Hn.
  - destruct i; discriminate.
  - destruct args as [|v0 args]; cbn [args_ok] in Hok; [discriminate|].
    apply andb_true_iff in Hok as [H0 Hr]. destruct i as [|i]; cbn [nth_error] in *.
    + inversion Hn; subst. eauto.
    + eauto.
Qed.

Lemma val_ok_U32 v : val_ok U32 v = true -> exists z, v = VZ z /\ 0 <= z < two32.
Proof. destruct v; cbn [val_ok]; intros H; [|discriminate]. apply in_u32_iff in H. eauto. Qed.
Lemma val_ok_U64 v : val_ok U64 v = true -> exists z, v = VZ z /\ 0 <= z < two64.
Proof. destruct v; cbn [val_ok]; intros H; [|discriminate]. apply in_u64_iff in H. eauto. Qed.

Lemma param_is_some ptys i w : param_is ptys i w = true ->
  exists t, nth_error ptys i = Some t /\ match w with Some w' => t = w' | None => True end.
Proof.
  unfold param_is. destruct (nth_error ptys i) as [t|]; [|discriminate]. destruct w as [w|]; intros H.
  - apply ty_eqb_eq in H. eauto.
  - eauto.
Qed.

(* the leaf: for ALL argument values in the range of the parameter types *)
Lemma imm_sound ptys args e s :
  args_ok ptys args = true -> imm_matches ptys e s = true ->
  exists v, eval args e = Some v /\ simm_eval args s = Some v.
Proof.
  intros Hok Hm. unfold imm_matches in Hm. rewrite (eval_strip args e).
  destruct (strip e) as [i|z|?|e'|e'|?|?|?|?|?|?|?|? ? ? ?]; try discriminate.
  - (* a parameter, unchanged *)
    destruct s as [j|j|j]; try discriminate.
    apply andb_true_iff in Hm as [Hij Hp]. apply Nat.eqb_eq in Hij. subst j.
    apply param_is_some in Hp as (t & Ht & _).
    destruct (nth_args_ok _ _ _ _ Hok Ht) as (v & Hv & _).
    exists v. cbn [eval simm_eval]. auto.
  - (* value as i32 on a u32 *)
    destruct s as [j|j|j]; try discriminate.
    cbn [eval]. rewrite (eval_strip args e').
    destruct (strip e') as [i|?|?|?|?|?|?|?|?|?|?|?|? ? ? ?]; try discriminate.
    apply andb_true_iff in Hm as [Hij Hp]. apply Nat.eqb_eq in Hij. subst j.
    apply param_is_some in Hp as (t & Ht & ->).
    destruct (nth_args_ok _ _ _ _ Hok Ht) as (v & Hv & Hr).
    apply val_ok_U32 in Hr as (z & -> & Hz).
    exists (VZ (as_i32 z)). cbn [eval simm_eval on_z]. rewrite Hv. cbn [on_z].
    rewrite (wrap_s32_u32 z Hz). auto.
  - (* value as i64 on a u64 *)
    destruct s as [j|j|j]; try discriminate.
    cbn [eval]. rewrite (eval_strip args e').
    destruct (strip e') as [i|?|?|?|?|?|?|?|?|?|?|?|? ? ? ?]; try discriminate.
    apply andb_true_iff in Hm as [Hij Hp]. apply Nat.eqb_eq in Hij. subst j.
    apply param_is_some in Hp as (t & Ht & ->).
    destruct (nth_args_ok _ _ _ _ Hok Ht) as (v & Hv & Hr).
    apply val_ok_U64 in Hr as (z & -> & Hz).
    exists (VZ (as_i64 z)). cbn [eval simm_eval on_z]. rewrite Hv. cbn [on_z].
    rewrite (wrap_s64_u64 z Hz). auto.
Qed.

Lemma fields_sound ptys args given simms :
  args_ok ptys args = true ->
  forall fs, forallb (check_field ptys given simms) fs = true ->
  exists vs, map_opt (run_field ptys args given) fs = Some vs /\ map_opt (spec_field args simms) fs = Some vs.
Proof.
  intros Hok. induction fs as [|f fs IH]; intros H.
  - exists []. auto.
  - cbn [forallb] in H. apply andb_true_iff in H as [Hf Hr]. destruct (IH Hr) as (vs & E1 & E2).
    unfold check_field in Hf.
    destruct (assoc (fst f) given) as [e|] eqn:Eg; [|discriminate].
    destruct (assoc (fst f) simms) as [s|] eqn:Es; [|discriminate].
    apply andb_true_iff in Hf as [Hty Hm].
    destruct (imm_sound _ _ _ _ Hok Hm) as (v & Ev & Sv).
    exists (v :: vs). cbn [map_opt]. rewrite E1, E2. unfold run_field, spec_field. rewrite Eg, Es, Hty, Ev, Sv. auto.
Qed.

Lemma inj_sound tbl ptys args inj s :
  args_ok ptys args = true -> check_inj tbl ptys inj s = true ->
  exists r, run_inj tbl ptys args inj = Some r /\ spec_inj tbl args s = Some r.
Proof.
  intros Hok H. unfold check_inj in H. unfold run_inj, spec_inj.
  destruct (find_op tbl (i_variant inj)) as [op|]; [|discriminate].
  destruct (find_mnemonic tbl (s_mnemonic s)) as [op'|]; [|discriminate].
  repeat (apply andb_true_iff in H as [H ?]).
  apply N.eqb_eq in H. apply fields_eqb_eq in H3.
  rewrite <- H3, <- H, H2, H1.
  destruct (fields_sound _ _ _ _ Hok _ H0) as (vs & E1 & E2). rewrite E1, E2. eauto.
Qed.

Lemma injs_sound tbl ptys args :
  args_ok ptys args = true ->
  forall injs sops, forallb2 (check_inj tbl ptys) injs sops = true ->
  exists rs, map_opt (run_inj tbl ptys args) injs = Some rs /\ map_opt (spec_inj tbl args) sops = Some rs.
Proof.
  intros Hok. induction injs as [|i injs IH]; intros [|s sops] H; cbn [forallb2] in H; try discriminate.
  - exists []. auto.
  - apply andb_true_iff in H as [Hi Hr]. destruct (IH _ Hr) as (rs & E1 & E2).
    destruct (inj_sound _ _ _ _ _ Hok Hi) as (r & R1 & R2).
    exists (r :: rs). cbn [map_opt]. rewrite R1, R2, E1, E2. auto.
Qed.

Lemma check_helper_against_sound tbl sp h :
  check_helper_against tbl sp h = true ->
  sp_params sp = map snd (h_params h) /\
  forall args, args_ok (map snd (h_params h)) args = true ->
    exists ops, run_helper tbl h args = Some ops /\ spec_run tbl sp args = Some ops.
Proof.
  unfold check_helper_against. intros H. apply andb_true_iff in H as [Ht Hi]. apply tys_eqb_eq in Ht. split; [auto|].
  intros args Hok. unfold run_helper, spec_run. apply injs_sound; assumption.
Qed.

(* ------------------------------------------------------------------------------------------ *)
(* the finite part: every helper of the regenerated table passes the check                      *)

Lemma all_helpers_checked : forallb check_helper helpers = true.
Proof. vm_compute. reflexivity. Qed.

Theorem helpers_exact :
  forall h, In h helpers ->
  forall args, args_ok (map snd (h_params h)) args = true ->
  exists sp ops,
    lookup_spec (h_name h) = Some sp /\ sp_params sp = map snd (h_params h) /\
    run_helper optable h args = Some ops /\ spec_run optable sp args = Some ops.
Proof.
  intros h Hin args Hok.
  pose proof (proj1 (forallb_forall _ _) all_helpers_checked h Hin) as Hc.
  unfold check_helper in Hc. destruct (lookup_spec (h_name h)) as [sp|]; [|discriminate].
  destruct (check_helper_against_sound _ _ _ Hc) as [Hp Hall].
  destruct (Hall args Hok) as (ops & E1 & E2). exists sp, ops. auto.
Qed.

(* ------------------------------------------------------------------------------------------ *)
(* coverage: the generated table and the specification name exactly the same helpers, once each  *)

Definition helper_names : list string := map h_name helpers.
Definition spec_names : list string := map sp_name spec.

Lemma mem_str_In x l : mem_str x l = true <-> In x l.
Proof.
  unfold mem_str. rewrite existsb_exists. split.
  - intros (y & Hy & E). apply String.eqb_eq in E. subst. assumption.
  - intros H. exists x. split; [assumption | apply String.eqb_refl].
Qed.
Lemma nodupb_NoDup l : nodupb l = true -> NoDup l.
Proof.
  induction l as [|x l IH]; cbn [nodupb]; intros H; constructor; apply andb_true_iff in H as [Hx Hl].
  - intros Hin. apply mem_str_In in Hin. rewrite Hin in Hx. discriminate.
  - auto.
Qed.
Lemma same_names_spec a b : same_names a b = true -> NoDup a /\ NoDup b /\ forall n, In n a <-> In n b.
Proof.
  unfold same_names. intros H. repeat (apply andb_true_iff in H as [H ?]).
  repeat split; try (apply nodupb_NoDup; assumption).
  - intros Hn. apply mem_str_In. exact (proj1 (forallb_forall _ _) H1 n Hn).
  - intros Hn. apply mem_str_In. exact (proj1 (forallb_forall _ _) H0 n Hn).
Qed.

Lemma coverage_checked : same_names helper_names spec_names = true.
Proof. vm_compute. reflexivity. Qed.

Theorem helpers_coverage :
  NoDup helper_names /\ NoDup spec_names /\ forall n, In n helper_names <-> In n spec_names.
Proof. exact (same_names_spec _ _ coverage_checked). Qed.

(* names identify helpers: looking a listed helper up by its name returns it *)
Lemma find_helper_of_In : forall hs h, NoDup (map h_name hs) -> In h hs -> find_helper hs (h_name h) = Some h.
Proof.
  induction hs as [|h0 hs IH]; intros h Hnd Hin; [destruct Hin|].
  cbn [map] in Hnd. inversion Hnd as [|? ? Hnot Hnd']; subst.
  unfold find_helper. cbn [find]. destruct Hin as [-> | Hin].
  - rewrite String.eqb_refl. reflexivity.
  - destruct (String.eqb (h_name h0) (h_name h)) eqn:E.
    + apply String.eqb_eq in E. exfalso. apply Hnot. rewrite E. apply in_map. assumption.
    + apply IH; assumption.
Qed.
Lemma find_helper_In hs n h : find_helper hs n = Some h -> In h hs /\ h_name h = n.
Proof.
  unfold find_helper. intros H. apply find_some in H as [Hin E]. apply String.eqb_eq in E. auto.
Qed.

(* ------------------------------------------------------------------------------------------ *)
(* the statement by helper NAME, and the two consequences the property text singles out          *)

Theorem helper_by_name_exact :
  forall name h, find_helper helpers name = Some h ->
  forall args, args_ok (map snd (h_params h)) args = true ->
  exists sp ops,
    lookup_spec name = Some sp /\ sp_params sp = map snd (h_params h) /\
    run_helper optable h args = Some ops /\ spec_run optable sp args = Some ops.
Proof.
  intros name h Hf args Hok. apply find_helper_In in Hf as [Hin <-]. apply helpers_exact; assumption.
Qed.

Definition code_of (mn : string) : option N := option_map op_code (find_mnemonic optable mn).

Lemma spec_run_const32 : forall v sp, lookup_spec "u32_const" = Some sp ->
  spec_run optable sp [VZ v] = match code_of "i32_const" with Some c => Some [(c, [VZ (as_i32 v)])] | None => None end.
Proof. intros v sp H. vm_compute in H. inversion H; subst. reflexivity. Qed.
Lemma spec_run_const64 : forall v sp, lookup_spec "u64_const" = Some sp ->
  spec_run optable sp [VZ v] = match code_of "i64_const" with Some c => Some [(c, [VZ (as_i64 v)])] | None => None end.
Proof. intros v sp H. vm_compute in H. inversion H; subst. reflexivity. Qed.
Lemma spec_run_f32 : forall v sp, lookup_spec "f32_const" = Some sp ->
  spec_run optable sp [VZ v] = match code_of "f32_const" with Some c => Some [(c, [VZ v])] | None => None end.
Proof. intros v sp H. vm_compute in H. inversion H; subst. reflexivity. Qed.
Lemma spec_run_f64 : forall v sp, lookup_spec "f64_const" = Some sp ->
  spec_run optable sp [VZ v] = match code_of "f64_const" with Some c => Some [(c, [VZ v])] | None => None end.
Proof. intros v sp H. vm_compute in H. inversion H; subst. reflexivity. Qed.

(* u32_const v appends i32.const z where z is the signed 32-bit integer with the same 32 bits as v *)
Theorem u32_const_bits : forall v, 0 <= v < two32 ->
  exists h c z, find_helper helpers "u32_const" = Some h /\ code_of "i32_const" = Some c /\
    run_helper optable h [VZ v] = Some [(c, [VZ z])] /\ - two31 <= z < two31 /\ to_u32 z = v.
Proof.
  intros v Hv.
  destruct (find_helper helpers "u32_const") as [h|] eqn:Hf; [|vm_compute in Hf; discriminate].
  assert (Hp : map snd (h_params h) = [U32]) by (vm_compute in Hf; inversion Hf; reflexivity).
  assert (Hok : args_ok (map snd (h_params h)) [VZ v] = true).
  { rewrite Hp. cbn [args_ok val_ok]. rewrite (proj2 (in_u32_iff v) Hv). reflexivity. }
  destruct (helper_by_name_exact _ _ Hf _ Hok) as (sp & ops & Hl & _ & Hr & Hs).
  rewrite (spec_run_const32 v sp Hl) in Hs.
  destruct (code_of "i32_const") as [c|] eqn:Hc; [|discriminate]. inversion Hs; subst ops.
  exists h, c, (as_i32 v). repeat split; auto using to_u32_as_i32; apply as_i32_range; assumption.
Qed.

Theorem u64_const_bits : forall v, 0 <= v < two64 ->
  exists h c z, find_helper helpers "u64_const" = Some h /\ code_of "i64_const" = Some c /\
    run_helper optable h [VZ v] = Some [(c, [VZ z])] /\ - two63 <= z < two63 /\ to_u64 z = v.
Proof.
  intros v Hv.
  destruct (find_helper helpers "u64_const") as [h|] eqn:Hf; [|vm_compute in Hf; discriminate].
  assert (Hp : map snd (h_params h) = [U64]) by (vm_compute in Hf; inversion Hf; reflexivity).
  assert (Hok : args_ok (map snd (h_params h)) [VZ v] = true).
  { rewrite Hp. cbn [args_ok val_ok]. rewrite (proj2 (in_u64_iff v) Hv). reflexivity. }
  destruct (helper_by_name_exact _ _ Hf _ Hok) as (sp & ops & Hl & _ & Hr & Hs).
  rewrite (spec_run_const64 v sp Hl) in Hs.
  destruct (code_of "i64_const") as [c|] eqn:Hc; [|discriminate]. inversion Hs; subst ops.
  exists h, c, (as_i64 v). repeat split; auto using to_u64_as_i64; apply as_i64_range; assumption.
Qed.

(* f32_const / f64_const append the constant with the very same bit pattern, NaN payloads included
   (a float argument IS its bit pattern here; the Rust step f32 -> Ieee32 is covered by the harness) *)
Theorem f32_const_bits : forall bits, 0 <= bits < two32 ->
  exists h c, find_helper helpers "f32_const" = Some h /\ code_of "f32_const" = Some c /\
    run_helper optable h [VZ bits] = Some [(c, [VZ bits])].
Proof.
  intros v Hv.
  destruct (find_helper helpers "f32_const") as [h|] eqn:Hf; [|vm_compute in Hf; discriminate].
  assert (Hp : map snd (h_params h) = [F32]) by (vm_compute in Hf; inversion Hf; reflexivity).
  assert (Hok : args_ok (map snd (h_params h)) [VZ v] = true).
  { rewrite Hp. cbn [args_ok val_ok]. rewrite (proj2 (in_u32_iff v) Hv). reflexivity. }
  destruct (helper_by_name_exact _ _ Hf _ Hok) as (sp & ops & Hl & _ & Hr & Hs).
  rewrite (spec_run_f32 v sp Hl) in Hs.
  destruct (code_of "f32_const") as [c|] eqn:Hc; [|discriminate]. inversion Hs; subst ops.
  exists h, c. auto.
Qed.

Theorem f64_const_bits : forall bits, 0 <= bits < two64 ->
  exists h c, find_helper helpers "f64_const" = Some h /\ code_of "f64_const" = Some c /\
    run_helper optable h [VZ bits] = Some [(c, [VZ bits])].
Proof.
  intros v Hv.
  destruct (find_helper helpers "f64_const") as [h|] eqn:Hf; [|vm_compute in Hf; discriminate].
  assert (Hp : map snd (h_params h) = [F64]) by (vm_compute in Hf; inversion Hf; reflexivity).
  assert (Hok : args_ok (map snd (h_params h)) [VZ v] = true).
  { rewrite Hp. cbn [args_ok val_ok]. rewrite (proj2 (in_u64_iff v) Hv). reflexivity. }
  destruct (helper_by_name_exact _ _ Hf _ Hok) as (sp & ops & Hl & _ & Hr & Hs).
  rewrite (spec_run_f64 v sp Hl) in Hs.
  destruct (code_of "f64_const") as [c|] eqn:Hc; [|discriminate]. inversion Hs; subst ops.
  exists h, c. auto.
Qed.

(* ------------------------------------------------------------------------------------------ *)
(* the correspondence checker is sound: a case on which the real helper was observed to do what the
   translated body says, with arguments in range, satisfies the specification                    *)
Theorem checker24_sound : forall names ok c,
  agree names ok c = true -> in_domain names c = true -> holds names c = true.
Proof.
  intros names ok c Ha Hd. unfold agree in Ha. apply andb_true_iff in Ha as [_ Ha].
  unfold in_domain in Hd. unfold holds, spec_obs.
  destruct (find_helper helpers (case_name names c)) as [h|] eqn:Hf; [|discriminate].
  destruct (helper_by_name_exact _ _ Hf _ Hd) as (sp & ops & Hl & _ & Hr & Hs).
  rewrite Hl, Hs. unfold model_obs in Ha. rewrite Hr in Ha. exact Ha.
Qed.
