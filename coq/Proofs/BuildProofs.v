(* placeholder: additions engine (C12), under construction *)
