(* C12: theorems about the builder model (Model/Builder.v) and its checker (Check/CheckBuild.v).
   A. finish appends exactly one End; the declared locals expand to the requested list; add_local ids are consecutive.
   B. the type stored at the function's type id is the requested signature (dedup soundness, any hash order).
   C. one build appends exactly one function item whose id is the returned id; payloads and types persist.
   D. the balance finish_module asserts is kept by every API call (former D08): finish_module never fails.
   E. emission: every function of the model's output is its stored payload.
   F. reflection of [agree]. *)
From Coq Require Import List Arith NArith ZArith Bool Lia.
Import ListNotations.
From Orca Require Import Util Flat Lowering Locals LocalsProofs Types TypesProofs Reindex CheckReidx Builder CheckBuild.
Local Open Scope N_scope.

(* ------------------------------------------------------------------------------------------ *)
(* A. body and locals *)
Theorem finish_appends_one_end (s : bstate) fp params results locs body name s' r :
  bstep s (BBuild fp params results locs body name) = Ok (s', r) ->
  exists p, plook (b_fpay s') fp = Some p /\ fp_body p = body ++ [end_tok] /\ fp_name p = name
            /\ removelast (fp_body p) = body /\ last (fp_body p) (0, []) = end_tok.
Proof.
  cbn [bstep]. destruct (add_type _ _) as [tid ts']. destruct (step (b_m s) (AddLocal SF fp)) as [[m r']|]; [|discriminate].
  intros H. inversion H; subst; clear H. cbn [b_fpay plook]. rewrite N.eqb_refl. eexists. split; [reflexivity|].
  cbn [fp_body fp_name]. repeat split; [apply removelast_last | apply last_last].
Qed.

Theorem built_locals_exact (params locs : list N) :
  expand (groups (built_locals params locs)) = locs
  /\ nparams (built_locals params locs) = lenN params
  /\ fst (add_seq locs (mkLocals (lenN params) 0 [])) = LocalsProofs.ids_from (lenN params) (length locs).
Proof.
  unfold built_locals. rewrite add_seq_expand, add_seq_nparams, add_seq_ids. cbn [groups expand nparams num_locals app].
  rewrite N.add_0_r. repeat split.
Qed.

(* ------------------------------------------------------------------------------------------ *)
(* B. the type table *)
Definition tinv (s : bstate) : Prop := map_ok (ts_types (b_ts s)) (ts_map (b_ts s)).

Lemma parse_types_ok base order : map_ok (ts_types (parse_types base order)) (ts_map (parse_types base order)).
Proof. unfold parse_types. destruct (parse_groups base [] []) as [g t]. cbn [ts_types ts_map]. apply build_map_ok. Qed.
Theorem base_tinv (c : bcase) : tinv (bbase c).
Proof. unfold tinv, bbase, base_types. cbn [b_ts]. apply parse_types_ok. Qed.

Lemma bstep_tinv s o s' r : tinv s -> bstep s o = Ok (s', r) -> tinv s'.
Proof.
  unfold tinv. intros Hi. destruct o; cbn [bstep].
  - destruct (add_type _ _) as [tid ts'] eqn:E. destruct (step _ _) as [[m r']|]; [|discriminate].
    intros H. inversion H; subst; clear H. cbn [b_ts].
    replace ts' with (snd (add_type (func_type params results) (b_ts s))) by (rewrite E; reflexivity).
    apply add_type_map_ok. exact Hi.
  - destruct (step _ _) as [[m r']|]; [|discriminate]. intros H. inversion H; subst. exact Hi.
  - destruct (step _ _) as [[m r']|]; [|discriminate]. intros H. inversion H; subst. exact Hi.
  - destruct (step _ _) as [[m r']|]; [|discriminate]. intros H. inversion H; subst. exact Hi.
Qed.
Lemma bstep_types_grow s o s' r : bstep s o = Ok (s', r) ->
  forall i t, nth_error (ts_types (b_ts s)) i = Some t -> nth_error (ts_types (b_ts s')) i = Some t.
Proof.
  destruct o; cbn [bstep].
  - destruct (add_type _ _) as [tid ts'] eqn:E. destruct (step _ _) as [[m r']|]; [|discriminate].
    intros H. inversion H; subst; clear H. cbn [b_ts].
    replace ts' with (snd (add_type (func_type params results) (b_ts s))) by (rewrite E; reflexivity).
    destruct (add_type_preserves (func_type params results) (b_ts s)) as (_ & _ & _ & _ & _ & _ & P). exact P.
  - destruct (step _ _) as [[m r']|]; [|discriminate]. intros H. inversion H; subst. auto.
  - destruct (step _ _) as [[m r']|]; [|discriminate]. intros H. inversion H; subst. auto.
  - destruct (step _ _) as [[m r']|]; [|discriminate]. intros H. inversion H; subst. auto.
Qed.

(* ------------------------------------------------------------------------------------------ *)
(* C. one build *)
Theorem build_step_exact s fp params results locs body name s' r :
  tinv s -> bstep s (BBuild fp params results locs body name) = Ok (s', r) ->
  (* exactly one function item is appended; its stored id is its position and is the returned id *)
  s_items (m_f (b_m s')) = s_items (m_f (b_m s)) ++ [mkItem (lenN (s_items (m_f (b_m s)))) None false fp]
  /\ r = Some (lenN (s_items (m_f (b_m s))))
  /\ m_imports (b_m s') = m_imports (b_m s)
  (* the payload: requested signature at the type id, the requested locals, the built sequence and one end, the name *)
  /\ exists p, b_fpay s' = (fp, p) :: b_fpay s
       /\ nth_error (ts_types (b_ts s')) (N.to_nat (fp_tid p)) = Some (mkT 0 params results None true false)
       /\ expand (fp_groups p) = locs
       /\ fp_body p = body ++ [end_tok]
       /\ fp_name p = name.
Proof.
  intros Hi. cbn [bstep]. destruct (add_type _ _) as [tid ts'] eqn:E. cbn [step].
  destruct (N.eqb _ _); [|discriminate]. intros H. inversion H; subst; clear H. cbn.
  repeat split. eexists. split; [reflexivity|]. cbn [fp_tid fp_groups fp_body fp_name].
  repeat split.
  - pose proof (add_type_sound (func_type params results) (b_ts s) Hi) as S. rewrite E in S. cbn [fst snd] in S. exact S.
  - apply built_locals_exact.
Qed.

Definition fp_of (o : bop) : option N := match o with BBuild fp _ _ _ _ _ => Some fp | _ => None end.
Lemma bstep_payload_persists s o s' r fp :
  bstep s o = Ok (s', r) -> fp_of o <> Some fp -> plook (b_fpay s') fp = plook (b_fpay s) fp.
Proof.
  destruct o; cbn [bstep fp_of].
  - destruct (add_type _ _) as [tid ts']. destruct (step _ _) as [[m r']|]; [|discriminate].
    intros H Hne. inversion H; subst; clear H. cbn [b_fpay plook].
    destruct (N.eqb_spec fp fp0) as [->|_]; [exfalso; apply Hne; reflexivity | reflexivity].
  - destruct (step _ _) as [[m r']|]; [|discriminate]. intros H _. inversion H; subst. reflexivity.
  - destruct (step _ _) as [[m r']|]; [|discriminate]. intros H _. inversion H; subst. reflexivity.
  - destruct (step _ _) as [[m r']|]; [|discriminate]. intros H _. inversion H; subst. reflexivity.
Qed.
(* over the rest of any history that does not reuse the fingerprint: the payload and its type stay what was built *)
Theorem built_payload_persists : forall h s rets s' rets' fp p ty,
  brun s h rets = (s', rets', false) ->
  (forall o, In o h -> fp_of o <> Some fp) ->
  plook (b_fpay s) fp = Some p -> nth_error (ts_types (b_ts s)) (N.to_nat (fp_tid p)) = Some ty ->
  plook (b_fpay s') fp = Some p /\ nth_error (ts_types (b_ts s')) (N.to_nat (fp_tid p)) = Some ty.
Proof.
  induction h as [|o h IH]; intros s rets s' rets' fp p ty H Hf Hp Ht; cbn [brun] in H.
  - inversion H; subst. split; assumption.
  - destruct (bstep s o) as [[s1 r]|] eqn:E; [|inversion H].
    eapply IH; [exact H | intros o' Ho'; apply Hf; right; exact Ho' | |].
    + rewrite (bstep_payload_persists _ _ _ _ fp E (Hf o (or_introl eq_refl))). exact Hp.
    + eapply bstep_types_grow; eassumption.
Qed.

(* ------------------------------------------------------------------------------------------ *)
(* D. the assertion of finish_module (former D08) *)
(* how far functions.len() is behind num_local_functions + imports.num_funcs *)
Definition behind (m : mst) (k : N) : Prop := lenN (s_items (m_f m)) + k = s_nlocal (m_f m) + s_num (m_f m).

Lemma lenN_app {A} (l : list A) x : lenN (l ++ [x]) = lenN l + 1.
Proof. unfold lenN. rewrite app_length. cbn. lia. Qed.
Lemma lenN_updN {A} (f : A -> A) n (l : list A) : lenN (updN n f l) = lenN l.
Proof.
  unfold lenN, updN. f_equal. generalize (N.to_nat n) as k. intros k. revert l.
  induction k as [|k IH]; intros [|a l]; cbn; try reflexivity. rewrite IH. reflexivity.
Qed.

(* finish_module succeeds exactly on a balanced module *)
Theorem build_needs_balance m fp : (exists r, step m (AddLocal SF fp) = Ok r) <-> behind m 0.
Proof.
  unfold behind. cbn [step s_items s_nlocal s_num]. rewrite lenN_app.
  destruct (N.eqb_spec (lenN (s_items (m_f m)) + 1) (s_nlocal (m_f m) + 1 + s_num (m_f m))) as [E|E].
  - split; [intros _; lia | intros _; eexists; reflexivity].
  - split; [intros [r H]; discriminate | intros H; exfalso; apply E; lia].
Qed.
Theorem unbalanced_build_panics m fp k : behind m k -> 0 < k -> step m (AddLocal SF fp) = Panic 2.
Proof.
  unfold behind. intros H Hk. cbn [step s_items s_nlocal s_num]. rewrite lenN_app.
  destruct (N.eqb_spec (lenN (s_items (m_f m)) + 1) (s_nlocal (m_f m) + 1 + s_num (m_f m))) as [E|E]; [lia|reflexivity].
Qed.

Lemma delete_in_f m id m' : delete_in m SF id = Ok m' ->
  lenN (s_items (m_f m')) = lenN (s_items (m_f m)) /\ s_nlocal (m_f m') = s_nlocal (m_f m) /\ s_num (m_f m') = s_num (m_f m).
Proof.
  unfold delete_in. cbn [get_sp set_sp].
  set (items' := if id <? lenN (s_items (m_f m)) then updN id (set_del true) (s_items (m_f m)) else s_items (m_f m)).
  assert (L : lenN items' = lenN (s_items (m_f m))) by (unfold items'; destruct (id <? _); [apply lenN_updN|reflexivity]).
  destruct (nthN items' id) as [it|]; [|discriminate]. destruct (it_imp it); intros H; inversion H; subst; cbn; repeat split; exact L.
Qed.

(* the counter is the number of function items of kind Local (no API call of this engine turns an import into a local
   function; FunctionBuilder::replace_import_in_module, which does, is the subject of C10) *)
Definition nloc (l : list item) : N := lenN (filter is_local l).
Definition counted (m : mst) : Prop := s_nlocal (m_f m) = nloc (s_items (m_f m)).
Definition wfb (m : mst) : Prop := behind m 0 /\ counted m.

Lemma nloc_app l x : nloc (l ++ [x]) = nloc l + (if is_local x then 1 else 0).
Proof. unfold nloc, lenN. rewrite filter_app, app_length. cbn [filter]. destruct (is_local x); cbn [length]; lia. Qed.
Lemma nloc_upd_same f : (forall a, is_local (f a) = is_local a) -> forall n l, nloc (upd n f l) = nloc l.
Proof.
  intros Hf. unfold nloc, lenN. induction n as [|n IH]; intros [|a l]; cbn [upd filter]; try reflexivity.
  - rewrite Hf. destruct (is_local a); reflexivity.
  - destruct (is_local a); cbn [length]; rewrite ?Nat2N.inj_succ; specialize (IH l); lia.
Qed.
Lemma nloc_upd_to_import x : is_local x = false -> forall n l it, nth_error l n = Some it -> is_local it = true ->
  nloc (upd n (fun _ => x) l) + 1 = nloc l.
Proof.
  intros Hx. unfold nloc, lenN. induction n as [|n IH]; intros [|a l] it Hn Hl; cbn in Hn; try discriminate.
  - inversion Hn; subst a. cbn [upd filter]. rewrite Hx, Hl. cbn [length]. lia.
  - cbn [upd filter]. specialize (IH l it Hn Hl). destruct (is_local a); cbn [length]; rewrite ?Nat2N.inj_succ; lia.
Qed.
Lemma nloc_pos n l it : nth_error l n = Some it -> is_local it = true -> 0 < nloc l.
Proof.
  unfold nloc, lenN. revert l. induction n as [|n IH]; intros [|a l] Hn Hl; cbn in Hn; try discriminate.
  - inversion Hn; subst a. cbn [filter]. rewrite Hl. cbn [length]. lia.
  - cbn [filter]. specialize (IH l Hn Hl). destruct (is_local a); cbn [length]; lia.
Qed.

Lemma nthN_updN_same {A} (f : A -> A) id : forall (l : list A) it, nthN l id = Some it -> nthN (updN id f l) id = Some (f it).
Proof.
  unfold nthN, updN. generalize (N.to_nat id) as k. intros k.
  induction k as [|k IH]; intros [|a l] it H; cbn in H; try discriminate; cbn [upd nth_error].
  - inversion H; reflexivity.
  - apply IH. exact H.
Qed.
Lemma delete_in_nloc m id m' : delete_in m SF id = Ok m' -> nloc (s_items (m_f m')) = nloc (s_items (m_f m))
  /\ forall it, nthN (s_items (m_f m)) id = Some it -> nthN (s_items (m_f m')) id = Some (set_del true it).
Proof.
  unfold delete_in. cbn [get_sp set_sp].
  destruct (N.ltb_spec id (lenN (s_items (m_f m)))) as [Hlt|Hge].
  - destruct (nthN (updN id (set_del true) (s_items (m_f m))) id) as [it|]; [|discriminate].
    destruct (it_imp it); intros H; inversion H; subst; cbn [m_f s_items];
      (split; [unfold updN; apply nloc_upd_same; intros a; reflexivity | apply nthN_updN_same]).
  - destruct (nthN (s_items (m_f m)) id) as [it|] eqn:E; [|discriminate].
    exfalso. unfold nthN in E. assert (Hn : (N.to_nat id < length (s_items (m_f m)))%nat) by (apply nth_error_Some; rewrite E; discriminate).
    unfold lenN in Hge. lia.
Qed.

(* every API call of this engine keeps the module balanced and counted: since the repair of D08 a conversion takes one
   off num_local_functions while add_import adds one to imports.num_funcs *)
Lemma step_wfb m o m' r : wfb m -> step m o = Ok (m', r) ->
  match o with AddLocal SF _ | AddImport SF _ | Delete SF _ | LocalToImport _ _ => wfb m' | _ => True end.
Proof.
  unfold wfb, behind, counted. intros [Hb Hc]. destruct o as [[]|[]|[]| | | | | |]; cbn [step]; try (intros; exact I).
  - destruct (N.eqb _ _); [|discriminate]. intros H. inversion H; subst; clear H. cbn. rewrite lenN_app, nloc_app. cbn. lia.
  - unfold push_import. cbn. destruct (N.eqb _ _); [|discriminate]. intros H. inversion H; subst; clear H. cbn.
    rewrite lenN_app, nloc_app. cbn. lia.
  - destruct (delete_in m SF id) as [m1|] eqn:E; [|discriminate]. intros H. inversion H; subst; clear H.
    destruct (delete_in_f _ _ _ E) as (A & B & C). destruct (delete_in_nloc _ _ _ E) as (D & _). rewrite A, B, C, D. split; assumption.
  - destruct (nthN (s_items (m_f m)) id) as [it|] eqn:En; [|discriminate].
    destruct (is_import it) eqn:Ei.
    + intros H. inversion H; subst. split; assumption.
    + destruct (delete_in m SF id) as [m1|] eqn:E; [|discriminate]. unfold push_import. cbn. intros H. inversion H; subst; clear H.
      destruct (delete_in_f _ _ _ E) as (A & B & C). destruct (delete_in_nloc _ _ _ E) as (D & F). cbn.
      assert (Hl : is_local it = true) by (unfold is_import in Ei; destruct (is_local it); [reflexivity|discriminate]).
      specialize (F it En). unfold nthN in F, En.
      pose proof (nloc_upd_to_import (mkItem id (Some (lenN (m_imports m1))) false fp) eq_refl _ _ _ F Hl) as U.
      pose proof (nloc_pos _ _ _ En Hl) as P.
      rewrite (lenN_updN (fun _ => mkItem id (Some (lenN (m_imports m1))) false fp) id), A, B, C. unfold updN. rewrite D in U. lia.
Qed.
Lemma bstep_wfb s o s' r : wfb (b_m s) -> bstep s o = Ok (s', r) -> wfb (b_m s').
Proof.
  intros W. destruct o; cbn [bstep].
  - destruct (add_type _ _). destruct (step (b_m s) (AddLocal SF fp)) as [[m r']|] eqn:E; [|discriminate]. intros H. inversion H; subst. cbn.
    exact (step_wfb _ _ _ _ W E).
  - destruct (step (b_m s) (AddImport SF fp)) as [[m r']|] eqn:E; [|discriminate]. intros H. inversion H; subst. cbn. exact (step_wfb _ _ _ _ W E).
  - destruct (step (b_m s) (Delete SF id)) as [[m r']|] eqn:E; [|discriminate]. intros H. inversion H; subst. cbn. exact (step_wfb _ _ _ _ W E).
  - destruct (step (b_m s) (LocalToImport id fp)) as [[m r']|] eqn:E; [|discriminate]. intros H. inversion H; subst. cbn. exact (step_wfb _ _ _ _ W E).
Qed.
Theorem brun_wfb : forall h s rets s' rets' p, wfb (b_m s) -> brun s h rets = (s', rets', p) -> wfb (b_m s').
Proof.
  induction h as [|o h IH]; intros s rets s' rets' p W H; cbn [brun] in H.
  - inversion H; subst. exact W.
  - destruct (bstep s o) as [[s1 r]|] eqn:E; [|inversion H; subst; exact W].
    eapply IH; [exact (bstep_wfb _ _ _ _ W E)|exact H].
Qed.
(* on such a module finish_module never fails: after any history of builds, import additions, deletions and
   conversions (the former D08: every build after a conversion used to panic) *)
Theorem build_succeeds s fp params results locs body name :
  wfb (b_m s) -> exists s' r, bstep s (BBuild fp params results locs body name) = Ok (s', r).
Proof.
  intros [Hb _]. cbn [bstep]. destruct (add_type _ _) as [tid ts'].
  apply build_needs_balance with (fp := fp) in Hb. destruct Hb as [[m r] E]. rewrite E. eexists. eexists. reflexivity.
Qed.

(* the base module of every case is balanced *)
Lemma imp_items_len : forall l code pos k, lenN (imp_items code pos k l) = lenN (filter (fun x => N.eqb (fst x) code) l).
Proof.
  induction l as [|[c fp] l IH]; intros code pos k; cbn [imp_items filter fst]; [reflexivity|].
  destruct (N.eqb c code); [|apply IH]. unfold lenN in *. cbn [length]. rewrite !Nat2N.inj_succ. f_equal. apply IH.
Qed.
Lemma loc_items_len : forall l pos, lenN (loc_items pos l) = lenN l.
Proof. induction l as [|fp l IH]; intros pos; cbn [loc_items]; [reflexivity|]. unfold lenN in *. cbn [length]. rewrite !Nat2N.inj_succ. f_equal. apply IH. Qed.
Theorem base_balanced (c : bcase) : behind (b_m (bbase c)) 0.
Proof.
  unfold behind, bbase, mk_base, mk_space. cbn [b_m m_f s_items s_nlocal s_num].
  unfold lenN at 1. rewrite app_length, Nat2N.inj_add. fold (lenN (imp_items 0 0 0 (b_imports (to_rcase c)))).
  fold (lenN (loc_items (lenN (imp_items 0 0 0 (b_imports (to_rcase c)))) (b_funcs (to_rcase c)))).
  rewrite loc_items_len. lia.
Qed.

Lemma imp_items_nloc : forall l code pos k, nloc (imp_items code pos k l) = 0.
Proof.
  unfold nloc, lenN. induction l as [|[c fp] l IH]; intros code pos k; cbn [imp_items]; [reflexivity|].
  destruct (N.eqb c code); [cbn [filter is_local it_imp]|]; apply IH.
Qed.
Lemma loc_items_nloc : forall l pos, nloc (loc_items pos l) = lenN l.
Proof.
  unfold nloc, lenN. induction l as [|fp l IH]; intros pos; cbn [loc_items]; [reflexivity|].
  cbn [filter is_local it_imp length]. rewrite !Nat2N.inj_succ. f_equal. apply IH.
Qed.
Lemma nloc_app2 a b : nloc (a ++ b) = nloc a + nloc b.
Proof. unfold nloc, lenN. rewrite filter_app, app_length. lia. Qed.
Theorem base_wfb (c : bcase) : wfb (b_m (bbase c)).
Proof.
  split; [apply base_balanced|]. unfold counted, bbase, mk_base, mk_space. cbn [b_m m_f s_items s_nlocal].
  rewrite nloc_app2, imp_items_nloc, loc_items_nloc. reflexivity.
Qed.

(* ------------------------------------------------------------------------------------------ *)
(* E. emission *)
Lemma rmapb_length {A B} (f : A -> res B) : forall l r, rmapb f l = Ok r -> length r = length l.
Proof.
  induction l as [|x l IH]; cbn [rmapb]; intros r H; [inversion H; reflexivity|].
  destruct (f x); [|discriminate]. destruct (rmapb f l); [|discriminate]. inversion H. cbn. f_equal. apply IH. reflexivity.
Qed.
Lemma rmapb_nth {A B} (f : A -> res B) : forall l r k x, rmapb f l = Ok r -> nth_error l k = Some x ->
  exists y, nth_error r k = Some y /\ f x = Ok y.
Proof.
  induction l as [|a l IH]; intros r k x H Hn; [destruct k; discriminate|].
  cbn [rmapb] in H. destruct (f a) eqn:Ea; [|discriminate]. destruct (rmapb f l) eqn:El; [|discriminate]. inversion H; subst r.
  destruct k as [|k]; cbn in Hn |- *.
  - inversion Hn; subst. eexists. split; [reflexivity|exact Ea].
  - eapply IH; [reflexivity|exact Hn].
Qed.
Lemma numberN_nth {A} : forall (l : list A) n k x, nth_error l k = Some x -> nth_error (numberN n l) k = Some (n + N.of_nat k, x).
Proof.
  induction l as [|a l IH]; intros n k x H; [destruct k; discriminate|].
  destruct k as [|k]; cbn in H |- *.
  - inversion H; subst. rewrite N.add_0_r. reflexivity.
  - rewrite (IH (n + 1) k x H). f_equal. f_equal. lia.
Qed.
Lemma numberN_length {A} : forall (l : list A) n, length (numberN n l) = length l.
Proof. induction l; intros n; cbn; [reflexivity|]. rewrite IHl. reflexivity. Qed.

(* the function and code sections of the output: one entry per live local item of the index space, in order, each
   with the signature stored at its type id, its stored local groups and its stored body *)
Theorem function_section_exact s sites o :
  bencode s sites = Ok o ->
  exists lf mf, index_space (m_f (b_m s)) = Ok (lf, mf) /\
  let live := map snd (filter (fun ki => is_local (snd ki) && negb (it_del (snd ki))) (number_items 0 lf)) in
  length (bo_funcs o) = length live /\
  forall k it, nth_error live k = Some it ->
    exists p ty nm, plook (b_fpay s) (it_fp it) = Some p
      /\ nth_error (ts_types (b_ts s)) (N.to_nat (fp_tid p)) = Some ty
      /\ nth_error (bo_funcs o) k = Some (mkFO (it_fp it) (t_xs ty) (t_ys ty) (fp_groups p) (fp_body p) nm).
Proof.
  unfold bencode. destruct (index_space (m_f (b_m s))) as [[lf mf]|]; [|discriminate].
  destruct (rmapb (emit_func s _ _) _) as [fs|] eqn:F; [|discriminate].
  destruct (rmapb (emit_site mf) _) as [ss|]; [|discriminate].
  intros H. inversion H; subst; clear H. cbn [bo_funcs]. exists lf, mf. split; [reflexivity|]. cbn zeta.
  split; [rewrite (rmapb_length _ _ _ F), numberN_length; reflexivity|].
  intros k it Hn. destruct (rmapb_nth _ _ _ _ _ F (numberN_nth _ 0 _ _ Hn)) as (y & Hy & Ey).
  unfold emit_func in Ey. destruct (plook (b_fpay s) (it_fp it)) as [p|] eqn:Ep; [|discriminate].
  destruct (nth_error (ts_types (b_ts s)) (N.to_nat (fp_tid p))) as [ty|] eqn:Et; [|discriminate]. inversion Ey; subst y.
  eexists p, ty, _. split; [reflexivity|]. split; [exact Et|exact Hy].
Qed.

(* end to end on the model, for every history: a function built at any point of a history that does not reuse its
   fingerprint is emitted -- wherever the index space puts it -- with exactly the requested parameter and result types,
   local groups that expand to the requested locals, and the built sequence followed by one end *)
Theorem built_function_emitted s fp params results locs body name s1 r h rets s2 rets2 sites o :
  tinv s -> bstep s (BBuild fp params results locs body name) = Ok (s1, r) ->
  brun s1 h rets = (s2, rets2, false) -> (forall x, In x h -> fp_of x <> Some fp) ->
  bencode s2 sites = Ok o ->
  exists lf mf, index_space (m_f (b_m s2)) = Ok (lf, mf) /\
  forall k it, nth_error (map snd (filter (fun ki => is_local (snd ki) && negb (it_del (snd ki))) (number_items 0 lf))) k = Some it ->
    it_fp it = fp ->
    exists g nm, nth_error (bo_funcs o) k = Some (mkFO fp params results g (body ++ [end_tok]) nm) /\ expand g = locs.
Proof.
  intros Hi Hb Hrun Hfresh Henc.
  destruct (build_step_exact _ _ _ _ _ _ _ _ _ Hi Hb) as (_ & _ & _ & p & Hpay & Hty & Hg & Hbody & _).
  assert (Hp1 : plook (b_fpay s1) fp = Some p) by (rewrite Hpay; cbn [plook]; rewrite N.eqb_refl; reflexivity).
  destruct (built_payload_persists _ _ _ _ _ _ _ _ Hrun Hfresh Hp1 Hty) as (Hp2 & Hty2).
  destruct (function_section_exact _ _ _ Henc) as (lf & mf & Hix & _ & Hall).
  exists lf, mf. split; [exact Hix|]. intros k it Hn Hfp.
  destruct (Hall k it Hn) as (p' & ty' & nm & Hp' & Hty' & Ho). rewrite Hfp in Hp', Ho. rewrite Hp2 in Hp'. inversion Hp'; subst p'.
  rewrite Hty2 in Hty'. inversion Hty'; subst ty'. cbn [t_xs t_ys] in Ho. rewrite Hbody in Ho.
  exists (fp_groups p), nm. split; [exact Ho|exact Hg].
Qed.

(* ------------------------------------------------------------------------------------------ *)
(* F. reflection *)
Lemma leqb_eq {A} (e : A -> A -> bool) : (forall a b, e a b = true -> a = b) -> forall l l', leqb e l l' = true -> l = l'.
Proof.
  intros He. induction l as [|a l IH]; intros [|b l'] H; cbn in H; try discriminate; [reflexivity|].
  apply andb_true_iff in H as [H1 H2]. f_equal; [apply He; exact H1 | apply IH; exact H2].
Qed.
Lemma Neqb_eq a b : N.eqb a b = true -> a = b. Proof. apply N.eqb_eq. Qed.
Lemma Zeqb_eq a b : Z.eqb a b = true -> a = b. Proof. apply Z.eqb_eq. Qed.
Lemma pair_eqb_eq a b : pair_eqb a b = true -> a = b.
Proof.
  destruct a, b. unfold pair_eqb. cbn. intros H. apply andb_true_iff in H as [H1 H2].
  apply N.eqb_eq in H1. apply N.eqb_eq in H2. subst. reflexivity.
Qed.
Lemma tok_eqb_eq a b : tok_eqb a b = true -> a = b.
Proof.
  destruct a, b. unfold tok_eqb. cbn. intros H. apply andb_true_iff in H as [H1 H2].
  apply N.eqb_eq in H1. apply (leqb_eq _ Zeqb_eq) in H2. subst. reflexivity.
Qed.
Lemma optn_eqb_eq a b : optn_eqb a b = true -> a = b.
Proof. destruct a, b; cbn; intros H; try discriminate; [apply N.eqb_eq in H; subst|]; reflexivity. Qed.
Lemma fobs_eqb_eq a b : fobs_eqb a b = true -> a = b.
Proof.
  destruct a, b. unfold fobs_eqb. cbn. intros H.
  repeat match type of H with (_ && _) = true => let H' := fresh "H" in apply andb_true_iff in H as [H H'] end.
  apply N.eqb_eq in H. apply (leqb_eq _ Neqb_eq) in H4. apply (leqb_eq _ Neqb_eq) in H3. apply (leqb_eq _ pair_eqb_eq) in H2.
  apply (leqb_eq _ tok_eqb_eq) in H1. apply optn_eqb_eq in H0. subst. reflexivity.
Qed.
Lemma bobs_eqb_eq a b : bobs_eqb a b = true -> a = b.
Proof.
  destruct a, b. unfold bobs_eqb. cbn. intros H. apply andb_true_iff in H as [H H3]. apply andb_true_iff in H as [H1 H2].
  apply (leqb_eq _ pair_eqb_eq) in H1. apply (leqb_eq _ fobs_eqb_eq) in H2. apply (leqb_eq _ pair_eqb_eq) in H3. subst. reflexivity.
Qed.
Theorem agree_reflect (c : bcase) : agree c = true -> model_out c = (bo_rets c, bo_api_panic c, bo_enc c).
Proof.
  unfold agree. destruct (model_out c) as [[rets p] e]. intros H.
  apply andb_true_iff in H as [H H3]. apply andb_true_iff in H as [H1 H2].
  apply (leqb_eq _ optn_eqb_eq) in H1. apply eqb_prop in H2.
  assert (E : e = bo_enc c).
  { destruct e as [x|], (bo_enc c) as [y|]; cbn in H3; try discriminate; [apply bobs_eqb_eq in H3; subst|]; reflexivity. }
  subst. reflexivity.
Qed.

(* checker soundness for the first build of a history, on the *observed* output: if the implementation agrees with the
   model on a case whose history starts with a build and never reuses its fingerprint, then wherever the observed
   output has a function carrying that fingerprint at a live position of the index space, that function has exactly
   the requested parameter and result types, locals, and instruction sequence followed by one end *)
Theorem observed_built_function (c : bcase) o fp params results locs body name h :
  agree c = true -> bo_enc c = Some o -> bh_ops c = BBuild fp params results locs body name :: h ->
  (forall x, In x h -> fp_of x <> Some fp) ->
  exists s2 lf mf, index_space (m_f (b_m s2)) = Ok (lf, mf) /\
  forall k it, nth_error (map snd (filter (fun ki => is_local (snd ki) && negb (it_del (snd ki))) (number_items 0 lf))) k = Some it ->
    it_fp it = fp ->
    exists g nm, nth_error (bo_funcs o) k = Some (mkFO fp params results g (body ++ [end_tok]) nm) /\ expand g = locs.
Proof.
  intros Ha Ho Hh Hfresh. apply agree_reflect in Ha. unfold model_out in Ha. rewrite Hh in Ha. cbn [brun] in Ha.
  destruct (bstep (bbase c) (BBuild fp params results locs body name)) as [[s1 r]|] eqn:E1.
  - destruct (brun s1 h ([] ++ [r])) as [[s2 rets] p] eqn:E2. destruct p; inversion Ha as [[H1 H2 H3]]; [rewrite Ho in H3; discriminate|].
    rewrite Ho in H3. destruct (bencode s2 (bh_sites c)) as [e|] eqn:E3; inversion H3; subst e.
    destruct (built_function_emitted _ _ _ _ _ _ _ _ _ _ _ _ _ _ _ (base_tinv c) E1 E2 Hfresh E3) as (lf & mf & Hix & Hall).
    exists s2, lf, mf. split; [exact Hix|exact Hall].
  - inversion Ha as [[H1 H2 H3]]. rewrite Ho in H3. discriminate.
Qed.
