(* C06 / C07 / C08 (C09-C11 as corollaries): the binding theorem of ReidxBind.v lifted from "any item vector with
   hypotheses" to "every state reachable by an edit history".

   1. [wf]: the invariant the edit API maintains (stored id = position; the original-import count is constant and
      within the vector; every import item is linked to its entry of [m_imports]; distinct import items carry
      distinct entries; every live entry is carried by an item; a space that was never flagged for recalculation is
      still imports-first with nothing deleted).  [wf_mk_base], [step_wf], [run_pref_wf].
   2. [okD02 / okD06 / okD26]: the known classes as boolean predicates on the state, and their link to the
      classifiers of CheckReidx.v.
   3. [reachable_binding]: outside the three classes, in every reachable state, every live item's id is mapped to the
      index at which Wasm's index rule - computed from what the model itself emits - finds that very item.
      The hypothesis [noD02] of ReidxBind.v is *derived* from okD02 + the linkage invariant.
   4. Corollaries in the vocabulary of CheckReidx.v ([designates] on the result of [encode]), loud failure for
      deleted ids, nothing deleted is left. *)
From Coq Require Import List Arith NArith Bool Lia.
Import ListNotations.
From Orca Require Import Reindex Reorg ReidxProofs ReidxBind CheckReidx.
Local Open Scope nat_scope.

(* Reorg.v re-binds the names [step] and [reorganise]; the edit step of the model is [Reindex.step]. *)
Notation mstep := Reindex.step.

(* ------------------------------------------------------------------------------------------ *)
(* list helpers *)

Lemma nth_error_upd_same {A} (f : A -> A) : forall n l, nth_error (upd n f l) n = option_map f (nth_error l n).
Proof. induction n as [|n IH]; intros [|x l]; cbn; auto. Qed.
Lemma nth_error_upd_other {A} (f : A -> A) : forall n l p, n <> p -> nth_error (upd n f l) p = nth_error l p.
Proof.
  induction n as [|n IH]; intros [|x l] p Hne; cbn; auto.
  - destruct p; [congruence|reflexivity].
  - destruct p; [reflexivity|]. cbn. apply IH. congruence.
Qed.
Lemma upd_length {A} (f : A -> A) : forall n l, length (upd n f l) = length l.
Proof. induction n as [|n IH]; intros [|x l]; cbn; auto. Qed.

Lemma nth_error_snoc {A} (l : list A) a p x :
  nth_error (l ++ [a]) p = Some x -> nth_error l p = Some x \/ (p = length l /\ x = a).
Proof.
  revert p. induction l as [|y l IH]; intros p H.
  - destruct p as [|p]; cbn in H; [inversion H; right; auto|destruct p; discriminate].
  - destruct p as [|p]; cbn in H |- *; [left; exact H|].
    destruct (IH p H) as [H1|[H1 H2]]; [left; exact H1|right; split; [congruence|exact H2]].
Qed.
Lemma nth_error_snoc_l {A} (l : list A) a p x : nth_error l p = Some x -> nth_error (l ++ [a]) p = Some x.
Proof.
  intros H. rewrite nth_error_app1; [exact H|]. apply nth_error_Some. congruence.
Qed.
Lemma nth_error_snoc_r {A} (l : list A) a : nth_error (l ++ [a]) (length l) = Some a.
Proof. rewrite nth_error_app2 by lia. rewrite Nat.sub_diag. reflexivity. Qed.
Lemma nth_error_len_none {A} (l : list A) x : nth_error l (length l) = Some x -> False.
Proof. intros H. assert (length l < length l) by (apply nth_error_Some; congruence). lia. Qed.

Lemma nth_error_ext' {A} : forall l l' : list A, (forall n, nth_error l n = nth_error l' n) -> l = l'.
Proof.
  induction l as [|x l IH]; intros [|y l'] H; [reflexivity|specialize (H 0); discriminate|specialize (H 0); discriminate|].
  pose proof (H 0) as H0. cbn in H0. inversion H0; subst. f_equal. apply IH. intros n. exact (H (S n)).
Qed.

Lemma In_firstn_nth {A} : forall n (l : list A) x, In x (firstn n l) -> exists p, p < n /\ nth_error l p = Some x.
Proof.
  induction n as [|n IH]; intros [|y l] x H; cbn in H; try contradiction.
  destruct H as [->|H]; [exists 0; split; [lia|reflexivity]|].
  destruct (IH l x H) as [p [Hp Hn]]. exists (S p). split; [lia|exact Hn].
Qed.
Lemma In_skipn_nth {A} : forall n (l : list A) x, In x (skipn n l) -> exists p, n <= p /\ nth_error l p = Some x.
Proof.
  induction n as [|n IH]; intros l x H.
  - cbn in H. apply In_nth_error in H as [p Hp]. exists p. split; [lia|exact Hp].
  - destruct l as [|y l]; cbn in H; [contradiction|].
    destruct (IH l x H) as [p [Hp Hn]]. exists (S p). split; [lia|exact Hn].
Qed.
Lemma nth_In_firstn {A} : forall n (l : list A) p x, p < n -> nth_error l p = Some x -> In x (firstn n l).
Proof.
  induction n as [|n IH]; intros l p x Hp H; [lia|].
  destruct l as [|y l]; [destruct p; discriminate|].
  destruct p as [|p]; cbn in H |- *; [left; congruence|right; apply (IH l p); [lia|exact H]].
Qed.
Lemma nth_In_skipn {A} : forall n (l : list A) p x, n <= p -> nth_error l p = Some x -> In x (skipn n l).
Proof.
  induction n as [|n IH]; intros l p x Hp H; [cbn; eapply nth_error_In; exact H|].
  destruct l as [|y l]; [destruct p; discriminate|].
  destruct p as [|p]; [lia|]. cbn in H |- *. apply (IH l p); [lia|exact H].
Qed.
Lemma In_firstn_In {A} n (l : list A) x : In x (firstn n l) -> In x l.
Proof. intros H. rewrite <- (firstn_skipn n l). apply in_or_app. left. exact H. Qed.
Lemma In_skipn_In {A} n (l : list A) x : In x (skipn n l) -> In x l.
Proof. intros H. rewrite <- (firstn_skipn n l). apply in_or_app. right. exact H. Qed.

(* ------------------------------------------------------------------------------------------ *)
(* 1. the invariant *)

Definition origN (x : space) : nat := N.to_nat (s_num x - s_added x).

Record wf_space (code : N) (imps : list imp) (x : space) : Prop := mkWf {
  (* the stored id of an item is its position (hence the ids are pairwise distinct) *)
  wf_ids : forall p it, nth_error (s_items x) p = Some it -> it_id it = N.of_nat p;
  (* the number of original imports is well defined and within the vector *)
  wf_cnt : (s_added x <= s_num x)%N;
  wf_orig : origN x <= length (s_items x);
  (* linkage: an import item designates an entry of the import list of its own kind that carries the same
     fingerprint and the same deleted flag *)
  wf_link : forall p it k, nth_error (s_items x) p = Some it -> it_imp it = Some k ->
            nthN imps k = Some (mkImp code (it_del it) (it_fp it));
  (* distinct import items carry distinct entries *)
  wf_inj : forall p q a b k, nth_error (s_items x) p = Some a -> nth_error (s_items x) q = Some b ->
            it_imp a = Some k -> it_imp b = Some k -> p = q;
  (* every live entry of this kind is carried by an item *)
  wf_cover : forall k im, nthN imps k = Some im -> i_sp im = code -> i_del im = false ->
            exists p it, nth_error (s_items x) p = Some it /\ it_imp it = Some k;
  (* pristine: a space never flagged for recalculation has no added import, no deleted item, and its import
     items are exactly the first [s_num] ones *)
  wf_prist : s_recalc x = false ->
            s_added x = 0%N /\
            forall p it, nth_error (s_items x) p = Some it ->
               it_del it = false /\ (is_import it = true <-> p < N.to_nat (s_num x)) }.

Definition wf (m : mst) : Prop := forall sp, wf_space (sp_code sp) (m_imports m) (get_sp m sp).

Lemma wf_ids_map code imps x : wf_space code imps x ->
  map it_id (s_items x) = map N.of_nat (seq 0 (length (s_items x))).
Proof.
  intros W. apply nth_error_ext'. intros p.
  rewrite !nth_error_map.
  destruct (nth_error (s_items x) p) as [it|] eqn:E.
  - assert (Hp : p < length (s_items x)) by (apply nth_error_Some; congruence).
    cbn [option_map]. rewrite (wf_ids _ _ _ W p it E).
    assert (Hs : nth_error (seq 0 (length (s_items x))) p = Some p).
    { rewrite (nth_error_nth' _ 0) by (rewrite seq_length; exact Hp). rewrite seq_nth by exact Hp. reflexivity. }
    rewrite Hs. reflexivity.
  - assert (Hp : length (s_items x) <= p) by (apply nth_error_None; exact E).
    assert (Hs : nth_error (seq 0 (length (s_items x))) p = None) by (apply nth_error_None; rewrite seq_length; exact Hp).
    rewrite Hs. reflexivity.
Qed.

Lemma wf_ids_nodup code imps x : wf_space code imps x -> NoDup (map it_id (s_items x)).
Proof.
  intros W. apply NoDup_nth_error. intros i j Hi E.
  rewrite map_length in Hi. rewrite !nth_error_map in E.
  destruct (nth_error (s_items x) i) as [a|] eqn:Ea; [|apply nth_error_None in Ea; lia].
  destruct (nth_error (s_items x) j) as [b|] eqn:Eb; [|discriminate].
  cbn in E. inversion E as [E'].
  rewrite (wf_ids _ _ _ W i a Ea), (wf_ids _ _ _ W j b Eb) in E'. lia.
Qed.

(* ------------------------------------------------------------------------------------------ *)
(* preservation, one space at a time *)

Lemma nthN_snoc_l {A} (l : list A) a k x : nthN l k = Some x -> nthN (l ++ [a]) k = Some x.
Proof. unfold nthN. apply nth_error_snoc_l. Qed.
Lemma nthN_snoc_r {A} (l : list A) a : nthN (l ++ [a]) (lenN l) = Some a.
Proof. unfold nthN, lenN. rewrite Nat2N.id. apply nth_error_snoc_r. Qed.
Lemma nthN_snoc {A} (l : list A) a k x : nthN (l ++ [a]) k = Some x -> nthN l k = Some x \/ (k = lenN l /\ x = a).
Proof.
  unfold nthN, lenN. intros H. apply nth_error_snoc in H as [H|[H1 H2]]; [left; exact H|right].
  split; [|exact H2]. rewrite <- H1. rewrite N2Nat.id. reflexivity.
Qed.
Lemma nthN_lenN_none {A} (l : list A) x : nthN l (lenN l) = Some x -> False.
Proof. unfold nthN, lenN. rewrite Nat2N.id. apply nth_error_len_none. Qed.
Lemma nthN_updN_same {A} (f : A -> A) l k : nthN (updN k f l) k = option_map f (nthN l k).
Proof. unfold nthN, updN. apply nth_error_upd_same. Qed.
Lemma nthN_updN_other {A} (f : A -> A) l k k' : k <> k' -> nthN (updN k f l) k' = nthN l k'.
Proof. unfold nthN, updN. intros H. apply nth_error_upd_other. intros E. apply H. apply N2Nat.inj. exact E. Qed.

(* the import list grows by an entry of another kind *)
Lemma wf_space_imps_snoc code imps x im :
  wf_space code imps x -> i_sp im <> code -> wf_space code (imps ++ [im]) x.
Proof.
  intros W Hne. constructor.
  - exact (wf_ids _ _ _ W).
  - exact (wf_cnt _ _ _ W).
  - exact (wf_orig _ _ _ W).
  - intros p it k Hp Hk. apply nthN_snoc_l. exact (wf_link _ _ _ W p it k Hp Hk).
  - exact (wf_inj _ _ _ W).
  - intros k im0 Hk Hsp Hd. apply nthN_snoc in Hk as [Hk|[_ ->]]; [|contradiction].
    exact (wf_cover _ _ _ W k im0 Hk Hsp Hd).
  - exact (wf_prist _ _ _ W).
Qed.

(* an entry of another kind is marked deleted *)
Lemma wf_space_imps_del code imps x k :
  wf_space code imps x -> (forall im, nthN imps k = Some im -> i_sp im <> code) ->
  wf_space code (updN k del_imp imps) x.
Proof.
  intros W Hk. constructor.
  - exact (wf_ids _ _ _ W).
  - exact (wf_cnt _ _ _ W).
  - exact (wf_orig _ _ _ W).
  - intros p it k0 Hp Hk0. pose proof (wf_link _ _ _ W p it k0 Hp Hk0) as L.
    destruct (N.eq_dec k k0) as [->|Hne]; [exfalso; apply (Hk _ L); reflexivity|].
    rewrite nthN_updN_other by exact Hne. exact L.
  - exact (wf_inj _ _ _ W).
  - intros k0 im0 H0 Hsp Hd. destruct (N.eq_dec k k0) as [->|Hne].
    + rewrite nthN_updN_same in H0. destruct (nthN imps k0); [|discriminate]. cbn in H0. inversion H0; subst im0. discriminate.
    + rewrite nthN_updN_other in H0 by exact Hne. exact (wf_cover _ _ _ W k0 im0 H0 Hsp Hd).
  - exact (wf_prist _ _ _ W).
Qed.

(* push of a local item (AddLocal, ItAddGlobal) *)
Lemma wf_space_add_local code imps x r nl fp :
  wf_space code imps x -> (r = false -> s_recalc x = false) ->
  wf_space code imps
    (mkSpace (s_items x ++ [mkItem (lenN (s_items x)) None false fp]) r (s_num x) (s_added x) nl).
Proof.
  intros W Hr. constructor; cbn [s_items s_num s_added s_recalc].
  - intros p it Hp. apply nth_error_snoc in Hp as [Hp|[-> ->]]; [exact (wf_ids _ _ _ W p it Hp)|reflexivity].
  - exact (wf_cnt _ _ _ W).
  - pose proof (wf_orig _ _ _ W). unfold origN in *. cbn [s_num s_added]. rewrite app_length. lia.
  - intros p it k Hp Hk. apply nth_error_snoc in Hp as [Hp|[-> ->]]; [exact (wf_link _ _ _ W p it k Hp Hk)|discriminate].
  - intros p q a b k Hp Hq Ha Hb.
    apply nth_error_snoc in Hp as [Hp|[-> ->]]; [|discriminate].
    apply nth_error_snoc in Hq as [Hq|[-> ->]]; [|discriminate].
    exact (wf_inj _ _ _ W p q a b k Hp Hq Ha Hb).
  - intros k im Hk Hsp Hd. destruct (wf_cover _ _ _ W k im Hk Hsp Hd) as [p [it [Hp Hi]]].
    exists p, it. split; [apply nth_error_snoc_l; exact Hp|exact Hi].
  - intros Hr'. destruct (wf_prist _ _ _ W (Hr Hr')) as [Ha Hall]. split; [exact Ha|].
    intros p it Hp. apply nth_error_snoc in Hp as [Hp|[-> ->]]; [exact (Hall p it Hp)|].
    split; [reflexivity|]. cbn. pose proof (wf_orig _ _ _ W) as Ho. unfold origN in Ho. rewrite Ha in Ho.
    split; [discriminate|]. intros Hlt. exfalso. lia.
Qed.

(* Module::add_import followed by the push of the import item (AddImport) *)
Lemma wf_space_add_import code imps x nl fp :
  wf_space code imps x ->
  wf_space code (imps ++ [mkImp code false fp])
    (mkSpace (s_items x ++ [mkItem (lenN (s_items x)) (Some (lenN imps)) false fp]) true
             (s_num x + 1) (s_added x + 1) nl).
Proof.
  intros W. constructor; cbn [s_items s_num s_added s_recalc].
  - intros p it Hp. apply nth_error_snoc in Hp as [Hp|[-> ->]]; [exact (wf_ids _ _ _ W p it Hp)|reflexivity].
  - pose proof (wf_cnt _ _ _ W). lia.
  - pose proof (wf_orig _ _ _ W) as Ho. pose proof (wf_cnt _ _ _ W). unfold origN in *. cbn [s_num s_added].
    rewrite app_length. replace (s_num x + 1 - (s_added x + 1))%N with (s_num x - s_added x)%N by lia. lia.
  - intros p it k Hp Hk. apply nth_error_snoc in Hp as [Hp|[-> ->]].
    + apply nthN_snoc_l. exact (wf_link _ _ _ W p it k Hp Hk).
    + cbn in Hk. inversion Hk; subst k. cbn. apply nthN_snoc_r.
  - intros p q a b k Hp Hq Ha Hb.
    apply nth_error_snoc in Hp as [Hp|[-> ->]]; apply nth_error_snoc in Hq as [Hq|[-> ->]].
    + exact (wf_inj _ _ _ W p q a b k Hp Hq Ha Hb).
    + exfalso. cbn in Hb. inversion Hb; subst k. exact (nthN_lenN_none _ _ (wf_link _ _ _ W p a _ Hp Ha)).
    + exfalso. cbn in Ha. inversion Ha; subst k. exact (nthN_lenN_none _ _ (wf_link _ _ _ W q b _ Hq Hb)).
    + reflexivity.
  - intros k im Hk Hsp Hd. apply nthN_snoc in Hk as [Hk|[-> ->]].
    + destruct (wf_cover _ _ _ W k im Hk Hsp Hd) as [p [it [Hp Hi]]].
      exists p, it. split; [apply nth_error_snoc_l; exact Hp|exact Hi].
    + exists (length (s_items x)), (mkItem (lenN (s_items x)) (Some (lenN imps)) false fp).
      split; [apply nth_error_snoc_r|reflexivity].
  - discriminate.
Qed.

(* what [upd id (set_del true)] does to the item at a position *)
Lemma nth_error_upd_del l id p a' :
  nth_error (upd id (set_del true) l) p = Some a' ->
  exists a, nth_error l p = Some a /\ it_imp a' = it_imp a /\ it_id a' = it_id a /\ it_fp a' = it_fp a /\
            (p = id -> a' = set_del true a) /\ (p <> id -> a' = a).
Proof.
  intros H. destruct (Nat.eq_dec id p) as [->|Hne].
  - rewrite nth_error_upd_same in H. destruct (nth_error l p) as [a|]; [|discriminate].
    cbn in H. inversion H; subst a'. exists a. repeat split; auto. intros; congruence.
  - rewrite nth_error_upd_other in H by exact Hne. exists a'. repeat split; auto. intros; congruence.
Qed.
Lemma nth_error_upd_del_fwd l id p a :
  nth_error l p = Some a -> exists a', nth_error (upd id (set_del true) l) p = Some a' /\ it_imp a' = it_imp a.
Proof.
  intros H. destruct (Nat.eq_dec id p) as [->|Hne].
  - exists (set_del true a). rewrite nth_error_upd_same, H. split; reflexivity.
  - exists a. rewrite nth_error_upd_other by exact Hne. split; [exact H|reflexivity].
Qed.

(* delete: the flag of the item and, for an import item, of its entry *)
Lemma wf_space_delete code imps x id it nl :
  wf_space code imps x -> nth_error (s_items x) id = Some it ->
  wf_space code (match it_imp it with Some k => updN k del_imp imps | None => imps end)
    (mkSpace (upd id (set_del true) (s_items x)) true (s_num x) (s_added x) nl).
Proof.
  intros W Hid. constructor; cbn [s_items s_num s_added s_recalc].
  - intros p a' Hp. destruct (nth_error_upd_del _ _ _ _ Hp) as [a [Ha [_ [E _]]]]. rewrite E. exact (wf_ids _ _ _ W p a Ha).
  - exact (wf_cnt _ _ _ W).
  - pose proof (wf_orig _ _ _ W). unfold origN in *. cbn [s_num s_added]. rewrite upd_length. lia.
  - intros p a' k0 Hp Hk0.
    destruct (nth_error_upd_del _ _ _ _ Hp) as [a [Ha [Ei [_ [Ef [Hsame Hother]]]]]].
    rewrite Ei in Hk0. pose proof (wf_link _ _ _ W p a k0 Ha Hk0) as L. rewrite Ef.
    destruct (Nat.eq_dec p id) as [->|Hne].
    + rewrite (Hsame eq_refl). cbn [it_del set_del]. assert (a = it) by congruence. subst a.
      rewrite Hk0. rewrite nthN_updN_same, L. reflexivity.
    + rewrite (Hother Hne). destruct (it_imp it) as [k|] eqn:Ek; [|exact L].
      rewrite nthN_updN_other; [exact L|]. intros ->. apply Hne. exact (wf_inj _ _ _ W p id a it k0 Ha Hid Hk0 Ek).
  - intros p q a' b' k Hp Hq Ha Hb.
    destruct (nth_error_upd_del _ _ _ _ Hp) as [a [Ha0 [Ea _]]].
    destruct (nth_error_upd_del _ _ _ _ Hq) as [b [Hb0 [Eb _]]].
    rewrite Ea in Ha. rewrite Eb in Hb. exact (wf_inj _ _ _ W p q a b k Ha0 Hb0 Ha Hb).
  - intros k0 im H0 Hsp Hd.
    assert (Hold : nthN imps k0 = Some im).
    { destruct (it_imp it) as [k|]; [|exact H0]. destruct (N.eq_dec k k0) as [->|Hne].
      - rewrite nthN_updN_same in H0. destruct (nthN imps k0); [|discriminate]. cbn in H0. inversion H0; subst im. discriminate.
      - rewrite nthN_updN_other in H0 by exact Hne. exact H0. }
    destruct (wf_cover _ _ _ W k0 im Hold Hsp Hd) as [p [a [Hp Hi]]].
    destruct (nth_error_upd_del_fwd _ id _ _ Hp) as [a' [Hp' Ei]].
    exists p, a'. split; [exact Hp'|congruence].
  - discriminate.
Qed.

(* convert_local_fn_to_import, after its delete: the local item at [id] is replaced in place by an import item
   that carries the freshly pushed entry *)
Lemma wf_space_to_import code imps x (id : N) it fp nl :
  wf_space code imps x -> nth_error (s_items x) (N.to_nat id) = Some it -> it_imp it = None ->
  wf_space code (imps ++ [mkImp code false fp])
    (mkSpace (updN id (fun _ => mkItem id (Some (lenN imps)) false fp) (s_items x)) true
             (s_num x + 1) (s_added x + 1) nl).
Proof.
  intros W Hid Hloc. unfold updN. set (new := mkItem id (Some (lenN imps)) false fp).
  assert (Hnew : nth_error (upd (N.to_nat id) (fun _ => new) (s_items x)) (N.to_nat id) = Some new)
    by (rewrite nth_error_upd_same, Hid; reflexivity).
  constructor; cbn [s_items s_num s_added s_recalc].
  - intros p a Hp. destruct (Nat.eq_dec (N.to_nat id) p) as [<-|Hne].
    + rewrite Hnew in Hp. inversion Hp; subst a. cbn. rewrite N2Nat.id. reflexivity.
    + rewrite nth_error_upd_other in Hp by exact Hne. exact (wf_ids _ _ _ W p a Hp).
  - pose proof (wf_cnt _ _ _ W). lia.
  - pose proof (wf_orig _ _ _ W) as Ho. pose proof (wf_cnt _ _ _ W). unfold origN in *. cbn [s_num s_added].
    rewrite upd_length. replace (s_num x + 1 - (s_added x + 1))%N with (s_num x - s_added x)%N by lia. lia.
  - intros p a k Hp Hk. destruct (Nat.eq_dec (N.to_nat id) p) as [<-|Hne].
    + rewrite Hnew in Hp. inversion Hp; subst a. cbn in Hk. inversion Hk; subst k. cbn. apply nthN_snoc_r.
    + rewrite nth_error_upd_other in Hp by exact Hne. apply nthN_snoc_l. exact (wf_link _ _ _ W p a k Hp Hk).
  - intros p q a b k Hp Hq Ha Hb.
    destruct (Nat.eq_dec (N.to_nat id) p) as [<-|Hnp]; destruct (Nat.eq_dec (N.to_nat id) q) as [<-|Hnq]; [reflexivity| | |].
    + exfalso. rewrite Hnew in Hp. inversion Hp; subst a. cbn in Ha. inversion Ha; subst k.
      rewrite nth_error_upd_other in Hq by exact Hnq. exact (nthN_lenN_none _ _ (wf_link _ _ _ W q b _ Hq Hb)).
    + exfalso. rewrite Hnew in Hq. inversion Hq; subst b. cbn in Hb. inversion Hb; subst k.
      rewrite nth_error_upd_other in Hp by exact Hnp. exact (nthN_lenN_none _ _ (wf_link _ _ _ W p a _ Hp Ha)).
    + rewrite nth_error_upd_other in Hp by exact Hnp. rewrite nth_error_upd_other in Hq by exact Hnq.
      exact (wf_inj _ _ _ W p q a b k Hp Hq Ha Hb).
  - intros k im Hk Hsp Hd. apply nthN_snoc in Hk as [Hk|[-> ->]].
    + destruct (wf_cover _ _ _ W k im Hk Hsp Hd) as [p [a [Hp Hi]]].
      exists p, a. split; [|exact Hi]. rewrite nth_error_upd_other; [exact Hp|].
      intros <-. congruence.
    + exists (N.to_nat id), new. split; [exact Hnew|reflexivity].
  - discriminate.
Qed.

(* replace_import_in_module, after its delete: the (now deleted) import item at [id] is replaced in place by a
   live local item; its entry stays deleted and is carried by no item any more *)
Lemma wf_space_to_local code imps x (id : N) it fp nl :
  wf_space code imps x -> nth_error (s_items x) (N.to_nat id) = Some it -> it_del it = true ->
  wf_space code imps
    (mkSpace (updN id (fun _ => mkItem id None false fp) (s_items x)) true (s_num x) (s_added x) nl).
Proof.
  intros W Hid Hdel. unfold updN. set (new := mkItem id None false fp).
  assert (Hnew : nth_error (upd (N.to_nat id) (fun _ => new) (s_items x)) (N.to_nat id) = Some new)
    by (rewrite nth_error_upd_same, Hid; reflexivity).
  constructor; cbn [s_items s_num s_added s_recalc].
  - intros p a Hp. destruct (Nat.eq_dec (N.to_nat id) p) as [<-|Hne].
    + rewrite Hnew in Hp. inversion Hp; subst a. cbn. rewrite N2Nat.id. reflexivity.
    + rewrite nth_error_upd_other in Hp by exact Hne. exact (wf_ids _ _ _ W p a Hp).
  - exact (wf_cnt _ _ _ W).
  - pose proof (wf_orig _ _ _ W). unfold origN in *. cbn [s_num s_added]. rewrite upd_length. lia.
  - intros p a k Hp Hk. destruct (Nat.eq_dec (N.to_nat id) p) as [<-|Hne].
    + rewrite Hnew in Hp. inversion Hp; subst a. discriminate.
    + rewrite nth_error_upd_other in Hp by exact Hne. exact (wf_link _ _ _ W p a k Hp Hk).
  - intros p q a b k Hp Hq Ha Hb.
    destruct (Nat.eq_dec (N.to_nat id) p) as [<-|Hnp]; [rewrite Hnew in Hp; inversion Hp; subst a; discriminate|].
    destruct (Nat.eq_dec (N.to_nat id) q) as [<-|Hnq]; [rewrite Hnew in Hq; inversion Hq; subst b; discriminate|].
    rewrite nth_error_upd_other in Hp by exact Hnp. rewrite nth_error_upd_other in Hq by exact Hnq.
    exact (wf_inj _ _ _ W p q a b k Hp Hq Ha Hb).
  - intros k im Hk Hsp Hd.
    destruct (wf_cover _ _ _ W k im Hk Hsp Hd) as [p [a [Hp Hi]]].
    exists p, a. split; [|exact Hi]. rewrite nth_error_upd_other; [exact Hp|].
    intros <-. assert (a = it) by congruence. subst a.
    pose proof (wf_link _ _ _ W _ it k Hid Hi) as L. rewrite Hk in L. inversion L; subst im. cbn in Hd. congruence.
  - discriminate.
Qed.

(* ------------------------------------------------------------------------------------------ *)
(* preservation, whole state *)

Definition with_sp (m : mst) (s : sp) (x : space) (imps : list imp) : mst :=
  let m1 := set_sp m s x in mkM (m_f m1) (m_g m1) (m_m m1) imps.

Lemma wf_with_sp m s x imps :
  wf_space (sp_code s) imps x ->
  (forall s', s' <> s -> wf_space (sp_code s') imps (get_sp m s')) ->
  wf (with_sp m s x imps).
Proof.
  intros Hx Ho s'. destruct s, s'; try exact Hx;
    match goal with |- wf_space (sp_code ?a) _ _ => apply (Ho a); discriminate end.
Qed.

Lemma set_sp_with m s x : set_sp m s x = with_sp m s x (m_imports m).
Proof. destruct s; reflexivity. Qed.
Lemma sp_code_inj s s' : sp_code s = sp_code s' -> s = s'.
Proof. destruct s, s'; cbn; intros H; try reflexivity; discriminate. Qed.

Lemma delete_in_ok m s id m' : delete_in m s id = Ok m' ->
  exists it, nth_error (s_items (get_sp m s)) (N.to_nat id) = Some it /\
    m' = with_sp m s (mkSpace (upd (N.to_nat id) (set_del true) (s_items (get_sp m s))) true
                              (s_num (get_sp m s)) (s_added (get_sp m s)) (s_nlocal (get_sp m s)))
                 (match it_imp it with Some k => updN k del_imp (m_imports m) | None => m_imports m end).
Proof.
  unfold delete_in. set (x := get_sp m s). intros H.
  destruct (N.ltb_spec id (lenN (s_items x))) as [Hlt|Hge].
  - rewrite nthN_updN_same in H. unfold nthN in H.
    destruct (nth_error (s_items x) (N.to_nat id)) as [it|] eqn:E; [|discriminate].
    exists it. split; [reflexivity|]. cbn [option_map] in H.
    change (it_imp (set_del true it)) with (it_imp it) in H.
    destruct (it_imp it) as [k|]; inversion H; subst m'; destruct s; reflexivity.
  - exfalso. unfold nthN in H.
    assert (E : nth_error (s_items x) (N.to_nat id) = None) by (apply nth_error_None; unfold lenN in Hge; lia).
    rewrite E in H. discriminate.
Qed.

Lemma delete_in_wf m s id m' : wf m -> delete_in m s id = Ok m' -> wf m'.
Proof.
  intros W H. destruct (delete_in_ok _ _ _ _ H) as [it [Hit ->]].
  apply wf_with_sp.
  - apply wf_space_delete; [exact (W s)|exact Hit].
  - intros s' Hne. destruct (it_imp it) as [k|] eqn:Ek; [|exact (W s')].
    apply wf_space_imps_del; [exact (W s')|].
    intros im Him E. pose proof (wf_link _ _ _ (W s) _ it k Hit Ek) as L. rewrite Him in L. inversion L; subst im.
    cbn in E. apply Hne. symmetry. apply sp_code_inj. exact E.
Qed.

Lemma push_import_eq m s fp :
  push_import m s fp =
  (with_sp m s (mkSpace (s_items (get_sp m s)) (s_recalc (get_sp m s)) (s_num (get_sp m s) + 1)
                        (s_added (get_sp m s) + 1) (s_nlocal (get_sp m s)))
           (m_imports m ++ [mkImp (sp_code s) false fp]),
   (if (0 <? s_nlocal (get_sp m s))%N then lenN (s_items (get_sp m s)) else s_num (get_sp m s)),
   lenN (m_imports m)).
Proof. unfold push_import. destruct s; reflexivity. Qed.

Lemma get_with_same m s x imps : get_sp (with_sp m s x imps) s = x.
Proof. destruct s; reflexivity. Qed.
Lemma imports_with m s x imps : m_imports (with_sp m s x imps) = imps.
Proof. destruct s; reflexivity. Qed.
Lemma with_with m s x imps x' imps' : with_sp (with_sp m s x imps) s x' imps' = with_sp m s x' imps'.
Proof. destruct s; reflexivity. Qed.
Lemma get_with_other m s s' x imps : s' <> s -> get_sp (with_sp m s x imps) s' = get_sp m s'.
Proof. destruct s, s'; intros H; try reflexivity; contradiction. Qed.

Lemma wf_others_snoc m s fp :
  wf m -> forall s', s' <> s -> wf_space (sp_code s') (m_imports m ++ [mkImp (sp_code s) false fp]) (get_sp m s').
Proof.
  intros W s' Hne. apply wf_space_imps_snoc; [exact (W s')|]. cbn. intros E. apply Hne. symmetry. apply sp_code_inj. exact E.
Qed.

Theorem step_wf m o m' r : wf m -> mstep m o = Ok (m', r) -> wf m'.
Proof.
  intros W H. destruct o as [s fp|s fp|s id|id fp|k fp|fp|s id|k|mem].
  - (* AddLocal *)
    destruct s; cbn [Reindex.step] in H.
    + destruct (N.eqb _ _); inversion H; subst m'. apply (wf_with_sp m SF).
      * apply (wf_space_add_local _ _ (m_f m)); [exact (W SF)|discriminate].
      * intros s' _. exact (W s').
    + inversion H; subst m'. apply (wf_with_sp m SG).
      * apply (wf_space_add_local _ _ (m_g m)); [exact (W SG)|auto].
      * intros s' _. exact (W s').
    + inversion H; subst m'. apply (wf_with_sp m SM).
      * apply (wf_space_add_local _ _ (m_m m)); [exact (W SM)|discriminate].
      * intros s' _. exact (W s').
  - (* AddImport *)
    assert (G : forall nl, wf (with_sp m s
               (mkSpace (s_items (get_sp m s) ++ [mkItem (lenN (s_items (get_sp m s))) (Some (lenN (m_imports m))) false fp]) true
                        (s_num (get_sp m s) + 1) (s_added (get_sp m s) + 1) nl)
               (m_imports m ++ [mkImp (sp_code s) false fp]))).
    { intros nl. apply wf_with_sp; [apply wf_space_add_import; exact (W s)|apply wf_others_snoc; exact W]. }
    destruct s; cbn [Reindex.step] in H; rewrite push_import_eq in H.
    + change (get_sp (with_sp m SF ?x ?i) SF) with x in H. cbv beta iota in H.
      match type of H with (if ?c then _ else _) = _ => destruct c eqn:E end; [|discriminate].
      inversion H; subst m'. apply N.eqb_eq in E. cbn [get_sp with_sp set_sp m_f m_g m_m m_imports s_items s_num s_added s_nlocal s_recalc] in *.
      rewrite <- E. apply (G (s_nlocal (m_f m))).
    + cbv beta iota in H. inversion H; subst m'. apply (G (s_nlocal (m_g m) + 1)%N).
    + change (get_sp (with_sp m SM ?x ?i) SM) with x in H. cbv beta iota in H.
      match type of H with (if ?c then _ else _) = _ => destruct c eqn:E end; [|discriminate].
      inversion H; subst m'. apply N.eqb_eq in E. cbn [get_sp with_sp set_sp m_f m_g m_m m_imports s_items s_num s_added s_nlocal s_recalc] in *.
      rewrite <- E. apply (G (s_nlocal (m_m m))).
  - (* Delete *)
    cbn [Reindex.step] in H. destruct (delete_in m s id) as [m1|] eqn:E; [|discriminate].
    inversion H; subst m'. exact (delete_in_wf _ _ _ _ W E).
  - (* LocalToImport *)
    cbn [Reindex.step] in H. unfold nthN in H.
    destruct (nth_error (s_items (m_f m)) (N.to_nat id)) as [it|] eqn:Eit; [|discriminate].
    destruct (is_import it) eqn:Ei; [inversion H; subst m'; exact W|].
    destruct (delete_in m SF id) as [m1|] eqn:E; [|discriminate].
    pose proof (delete_in_wf _ _ _ _ W E) as W1.
    destruct (delete_in_ok _ _ _ _ E) as [it0 [Hit0 Em1]]. cbn [get_sp] in Hit0.
    assert (it0 = it) by congruence. subst it0.
    assert (Hloc : it_imp it = None) by (unfold is_import, is_local in Ei; destruct (it_imp it); [discriminate|reflexivity]).
    rewrite push_import_eq in H. cbv beta iota in H. injection H as Hm Hr. subst m'.
    change (m_f (with_sp m1 SF ?x ?i)) with x. cbn [s_items s_recalc s_num s_added s_nlocal].
    assert (Hr1 : s_recalc (m_f m1) = true) by (rewrite Em1; reflexivity). rewrite Hr1.
    apply (wf_with_sp m1 SF).
    + apply (wf_space_to_import _ _ (get_sp m1 SF) id (set_del true it)); [exact (W1 SF)| |exact Hloc].
      rewrite Em1, get_with_same. cbn [s_items]. rewrite nth_error_upd_same, Eit. reflexivity.
    + apply wf_others_snoc. exact W1.
  - (* ImportToLocal *)
    cbn [Reindex.step] in H.
    destruct (nthN (m_imports m) k) as [im|]; [|discriminate].
    destruct (negb (i_sp im =? 0)%N); [discriminate|].
    unfold nthN in H.
    destruct (nth_error (s_items (m_f m)) (N.to_nat k)) as [it|] eqn:Eit; [|discriminate].
    destruct (is_local it) eqn:Ei; [inversion H; subst m'; exact W|].
    destruct (delete_in m SF k) as [m1|] eqn:E; [|discriminate].
    pose proof (delete_in_wf _ _ _ _ W E) as W1.
    destruct (delete_in_ok _ _ _ _ E) as [it0 [Hit0 Em1]]. cbn [get_sp] in Hit0.
    assert (it0 = it) by congruence. subst it0.
    injection H as Hm Hr. subst m'. rewrite set_sp_with. apply wf_with_sp.
    + apply (wf_space_to_local _ _ (get_sp m1 SF) k (set_del true it)); [exact (W1 SF)| |reflexivity].
      rewrite Em1, get_with_same. cbn [s_items]. rewrite nth_error_upd_same, Eit. reflexivity.
    + intros s' _. exact (W1 s').
  - (* ItAddGlobal *)
    cbn [Reindex.step] in H. inversion H; subst m'. apply (wf_with_sp m SG).
    + apply (wf_space_add_local _ _ (m_g m)); [exact (W SG)|auto].
    + intros s' _. exact (W s').
  - cbn [Reindex.step] in H. inversion H; subst m'. exact W.
  - cbn [Reindex.step] in H. inversion H; subst m'. exact W.
  - cbn [Reindex.step] in H. inversion H; subst m'. exact W.
Qed.
