(* C06 / C07 / C08 (C09-C11 as corollaries): the binding theorem of ReidxBind.v lifted from "any item vector with
   hypotheses" to "every state reachable by an edit history".

   1. [wf]: the invariant the edit API maintains (stored id = position; the original-import count is constant and
      within the vector; every import item is linked to its entry of [m_imports]; distinct import items carry
      distinct entries; every live entry is carried by an item; a space that was never flagged for recalculation is
      still imports-first with nothing deleted).  [wf_mk_base], [step_wf], [run_pref_wf].
   2. The import section of the model's output (since the repair of D02 every function / global / memory slot is
      filled with the next import of that kind in index order): restricted to one kind it lists exactly the live
      import items of that kind's index space, in index-space order ([import_order_agrees], no premise).  This is
      the hypothesis [noD02] of ReidxBind.v, *derived* from the linkage invariant.  (D06 / D26 / D02 are repaired:
      the former premises okD06 / okD26 / okD02 are gone.)
   3. [reachable_binding]: in every reachable state every live item's id is mapped to the index at which Wasm's
      index rule - computed from what the model itself emits - finds that very item.
   4. Corollaries in the vocabulary of CheckReidx.v ([designates] on the result of [encode]), loud failure for
      deleted ids, nothing deleted is left. *)
From Coq Require Import List Arith NArith Bool Lia Permutation.
Import ListNotations.
From Orca Require Import Reindex Reorg ReidxProofs ReidxBind CheckReidx.
Local Open Scope nat_scope.

(* Reorg.v re-binds the names [step] and [reorganise]; the edit step of the model is [Reindex.step]. *)
Notation mstep := Reindex.step.

(* ------------------------------------------------------------------------------------------ *)
(* list helpers *)

Lemma nth_error_upd_same {A} (f : A -> A) : forall n l, nth_error (upd n f l) n = option_map f (nth_error l n).
Proof. induction n as [|n IH]; intros [|x l]; cbn; auto. Qed.
Lemma nth_error_upd_other {A} (f : A -> A) : forall n l p, n <> p -> nth_error (upd n f l) p = nth_error l p.
Proof.
  induction n as [|n IH]; intros [|x l] p Hne; cbn; auto.
  - destruct p; [congruence|reflexivity].
  - destruct p; [reflexivity|]. cbn. apply IH. congruence.
Qed.
Lemma upd_length {A} (f : A -> A) : forall n l, length (upd n f l) = length l.
Proof. induction n as [|n IH]; intros [|x l]; cbn; auto. Qed.

Lemma nth_error_snoc {A} (l : list A) a p x :
  nth_error (l ++ [a]) p = Some x -> nth_error l p = Some x \/ (p = length l /\ x = a).
Proof.
  revert p. induction l as [|y l IH]; intros p H.
  - destruct p as [|p]; cbn in H; [inversion H; right; auto|destruct p; discriminate].
  - destruct p as [|p]; cbn in H |- *; [left; exact H|].
    destruct (IH p H) as [H1|[H1 H2]]; [left; exact H1|right; split; [congruence|exact H2]].
Qed.
Lemma nth_error_snoc_l {A} (l : list A) a p x : nth_error l p = Some x -> nth_error (l ++ [a]) p = Some x.
Proof.
  intros H. rewrite nth_error_app1; [exact H|]. apply nth_error_Some. congruence.
Qed.
Lemma nth_error_snoc_r {A} (l : list A) a : nth_error (l ++ [a]) (length l) = Some a.
Proof. rewrite nth_error_app2 by lia. rewrite Nat.sub_diag. reflexivity. Qed.
Lemma nth_error_len_none {A} (l : list A) x : nth_error l (length l) = Some x -> False.
Proof. intros H. assert (length l < length l) by (apply nth_error_Some; congruence). lia. Qed.

Lemma nth_error_ext' {A} : forall l l' : list A, (forall n, nth_error l n = nth_error l' n) -> l = l'.
Proof.
  induction l as [|x l IH]; intros [|y l'] H; [reflexivity|specialize (H 0); discriminate|specialize (H 0); discriminate|].
  pose proof (H 0) as H0. cbn in H0. inversion H0; subst. f_equal. apply IH. intros n. exact (H (S n)).
Qed.

Lemma In_firstn_nth {A} : forall n (l : list A) x, In x (firstn n l) -> exists p, p < n /\ nth_error l p = Some x.
Proof.
  induction n as [|n IH]; intros [|y l] x H; cbn in H; try contradiction.
  destruct H as [->|H]; [exists 0; split; [lia|reflexivity]|].
  destruct (IH l x H) as [p [Hp Hn]]. exists (S p). split; [lia|exact Hn].
Qed.
Lemma In_skipn_nth {A} : forall n (l : list A) x, In x (skipn n l) -> exists p, n <= p /\ nth_error l p = Some x.
Proof.
  induction n as [|n IH]; intros l x H.
  - cbn in H. apply In_nth_error in H as [p Hp]. exists p. split; [lia|exact Hp].
  - destruct l as [|y l]; cbn in H; [contradiction|].
    destruct (IH l x H) as [p [Hp Hn]]. exists (S p). split; [lia|exact Hn].
Qed.
Lemma nth_In_firstn {A} : forall n (l : list A) p x, p < n -> nth_error l p = Some x -> In x (firstn n l).
Proof.
  induction n as [|n IH]; intros l p x Hp H; [lia|].
  destruct l as [|y l]; [destruct p; discriminate|].
  destruct p as [|p]; cbn in H |- *; [left; congruence|right; apply (IH l p); [lia|exact H]].
Qed.
Lemma nth_In_skipn {A} : forall n (l : list A) p x, n <= p -> nth_error l p = Some x -> In x (skipn n l).
Proof.
  induction n as [|n IH]; intros l p x Hp H; [cbn; eapply nth_error_In; exact H|].
  destruct l as [|y l]; [destruct p; discriminate|].
  destruct p as [|p]; [lia|]. cbn in H |- *. apply (IH l p); [lia|exact H].
Qed.
Lemma In_firstn_In {A} n (l : list A) x : In x (firstn n l) -> In x l.
Proof. intros H. rewrite <- (firstn_skipn n l). apply in_or_app. left. exact H. Qed.
Lemma In_skipn_In {A} n (l : list A) x : In x (skipn n l) -> In x l.
Proof. intros H. rewrite <- (firstn_skipn n l). apply in_or_app. right. exact H. Qed.

(* ------------------------------------------------------------------------------------------ *)
(* 1. the invariant *)

Definition origN (x : space) : nat := N.to_nat (s_num x - s_added x).

Record wf_space (code : N) (imps : list imp) (x : space) : Prop := mkWf {
  (* the stored id of an item is its position (hence the ids are pairwise distinct) *)
  wf_ids : forall p it, nth_error (s_items x) p = Some it -> it_id it = N.of_nat p;
  (* the number of original imports is well defined and within the vector *)
  wf_cnt : (s_added x <= s_num x)%N;
  wf_orig : origN x <= length (s_items x);
  (* linkage: an import item designates an entry of the import list of its own kind that carries the same
     fingerprint and the same deleted flag *)
  wf_link : forall p it k, nth_error (s_items x) p = Some it -> it_imp it = Some k ->
            nthN imps k = Some (mkImp code (it_del it) (it_fp it));
  (* distinct import items carry distinct entries *)
  wf_inj : forall p q a b k, nth_error (s_items x) p = Some a -> nth_error (s_items x) q = Some b ->
            it_imp a = Some k -> it_imp b = Some k -> p = q;
  (* every live entry of this kind is carried by an item *)
  wf_cover : forall k im, nthN imps k = Some im -> i_sp im = code -> i_del im = false ->
            exists p it, nth_error (s_items x) p = Some it /\ it_imp it = Some k;
  (* pristine: a space never flagged for recalculation has no added import, no deleted item, and its import
     items are exactly the first [s_num] ones *)
  wf_prist : s_recalc x = false ->
            s_added x = 0%N /\
            forall p it, nth_error (s_items x) p = Some it ->
               it_del it = false /\ (is_import it = true <-> p < N.to_nat (s_num x)) }.

Definition wf (m : mst) : Prop := forall sp, wf_space (sp_code sp) (m_imports m) (get_sp m sp).

Lemma wf_ids_map code imps x : wf_space code imps x ->
  map it_id (s_items x) = map N.of_nat (seq 0 (length (s_items x))).
Proof.
  intros W. apply nth_error_ext'. intros p.
  rewrite !nth_error_map.
  destruct (nth_error (s_items x) p) as [it|] eqn:E.
  - assert (Hp : p < length (s_items x)) by (apply nth_error_Some; congruence).
    cbn [option_map]. rewrite (wf_ids _ _ _ W p it E).
    assert (Hs : nth_error (seq 0 (length (s_items x))) p = Some p).
    { rewrite (nth_error_nth' _ 0) by (rewrite seq_length; exact Hp). rewrite seq_nth by exact Hp. reflexivity. }
    rewrite Hs. reflexivity.
  - assert (Hp : length (s_items x) <= p) by (apply nth_error_None; exact E).
    assert (Hs : nth_error (seq 0 (length (s_items x))) p = None) by (apply nth_error_None; rewrite seq_length; exact Hp).
    rewrite Hs. reflexivity.
Qed.

Lemma wf_ids_nodup code imps x : wf_space code imps x -> NoDup (map it_id (s_items x)).
Proof.
  intros W. apply NoDup_nth_error. intros i j Hi E.
  rewrite map_length in Hi. rewrite !nth_error_map in E.
  destruct (nth_error (s_items x) i) as [a|] eqn:Ea; [|apply nth_error_None in Ea; lia].
  destruct (nth_error (s_items x) j) as [b|] eqn:Eb; [|discriminate].
  cbn in E. inversion E as [E'].
  rewrite (wf_ids _ _ _ W i a Ea), (wf_ids _ _ _ W j b Eb) in E'. lia.
Qed.

(* ------------------------------------------------------------------------------------------ *)
(* preservation, one space at a time *)

Lemma nthN_snoc_l {A} (l : list A) a k x : nthN l k = Some x -> nthN (l ++ [a]) k = Some x.
Proof. unfold nthN. apply nth_error_snoc_l. Qed.
Lemma nthN_snoc_r {A} (l : list A) a : nthN (l ++ [a]) (lenN l) = Some a.
Proof. unfold nthN, lenN. rewrite Nat2N.id. apply nth_error_snoc_r. Qed.
Lemma nthN_snoc {A} (l : list A) a k x : nthN (l ++ [a]) k = Some x -> nthN l k = Some x \/ (k = lenN l /\ x = a).
Proof.
  unfold nthN, lenN. intros H. apply nth_error_snoc in H as [H|[H1 H2]]; [left; exact H|right].
  split; [|exact H2]. rewrite <- H1. rewrite N2Nat.id. reflexivity.
Qed.
Lemma nthN_lenN_none {A} (l : list A) x : nthN l (lenN l) = Some x -> False.
Proof. unfold nthN, lenN. rewrite Nat2N.id. apply nth_error_len_none. Qed.
Lemma nthN_updN_same {A} (f : A -> A) l k : nthN (updN k f l) k = option_map f (nthN l k).
Proof. unfold nthN, updN. apply nth_error_upd_same. Qed.
Lemma nthN_updN_other {A} (f : A -> A) l k k' : k <> k' -> nthN (updN k f l) k' = nthN l k'.
Proof. unfold nthN, updN. intros H. apply nth_error_upd_other. intros E. apply H. apply N2Nat.inj. exact E. Qed.

(* the import list grows by an entry of another kind *)
Lemma wf_space_imps_snoc code imps x im :
  wf_space code imps x -> i_sp im <> code -> wf_space code (imps ++ [im]) x.
Proof.
  intros W Hne. constructor.
  - exact (wf_ids _ _ _ W).
  - exact (wf_cnt _ _ _ W).
  - exact (wf_orig _ _ _ W).
  - intros p it k Hp Hk. apply nthN_snoc_l. exact (wf_link _ _ _ W p it k Hp Hk).
  - exact (wf_inj _ _ _ W).
  - intros k im0 Hk Hsp Hd. apply nthN_snoc in Hk as [Hk|[_ ->]]; [|contradiction].
    exact (wf_cover _ _ _ W k im0 Hk Hsp Hd).
  - exact (wf_prist _ _ _ W).
Qed.

(* an entry of another kind is marked deleted *)
Lemma wf_space_imps_del code imps x k :
  wf_space code imps x -> (forall im, nthN imps k = Some im -> i_sp im <> code) ->
  wf_space code (updN k del_imp imps) x.
Proof.
  intros W Hk. constructor.
  - exact (wf_ids _ _ _ W).
  - exact (wf_cnt _ _ _ W).
  - exact (wf_orig _ _ _ W).
  - intros p it k0 Hp Hk0. pose proof (wf_link _ _ _ W p it k0 Hp Hk0) as L.
    destruct (N.eq_dec k k0) as [->|Hne]; [exfalso; apply (Hk _ L); reflexivity|].
    rewrite nthN_updN_other by exact Hne. exact L.
  - exact (wf_inj _ _ _ W).
  - intros k0 im0 H0 Hsp Hd. destruct (N.eq_dec k k0) as [->|Hne].
    + rewrite nthN_updN_same in H0. destruct (nthN imps k0); [|discriminate]. cbn in H0. inversion H0; subst im0. discriminate.
    + rewrite nthN_updN_other in H0 by exact Hne. exact (wf_cover _ _ _ W k0 im0 H0 Hsp Hd).
  - exact (wf_prist _ _ _ W).
Qed.

(* push of a local item (AddLocal, ItAddGlobal) *)
Lemma wf_space_add_local code imps x r nl fp :
  wf_space code imps x -> (r = false -> s_recalc x = false) ->
  wf_space code imps
    (mkSpace (s_items x ++ [mkItem (lenN (s_items x)) None false fp]) r (s_num x) (s_added x) nl).
Proof.
  intros W Hr. constructor; cbn [s_items s_num s_added s_recalc].
  - intros p it Hp. apply nth_error_snoc in Hp as [Hp|[-> ->]]; [exact (wf_ids _ _ _ W p it Hp)|reflexivity].
  - exact (wf_cnt _ _ _ W).
  - pose proof (wf_orig _ _ _ W). unfold origN in *. cbn [s_num s_added]. rewrite app_length. lia.
  - intros p it k Hp Hk. apply nth_error_snoc in Hp as [Hp|[-> ->]]; [exact (wf_link _ _ _ W p it k Hp Hk)|discriminate].
  - intros p q a b k Hp Hq Ha Hb.
    apply nth_error_snoc in Hp as [Hp|[-> ->]]; [|discriminate].
    apply nth_error_snoc in Hq as [Hq|[-> ->]]; [|discriminate].
    exact (wf_inj _ _ _ W p q a b k Hp Hq Ha Hb).
  - intros k im Hk Hsp Hd. destruct (wf_cover _ _ _ W k im Hk Hsp Hd) as [p [it [Hp Hi]]].
    exists p, it. split; [apply nth_error_snoc_l; exact Hp|exact Hi].
  - intros Hr'. destruct (wf_prist _ _ _ W (Hr Hr')) as [Ha Hall]. split; [exact Ha|].
    intros p it Hp. apply nth_error_snoc in Hp as [Hp|[-> ->]]; [exact (Hall p it Hp)|].
    split; [reflexivity|]. cbn. pose proof (wf_orig _ _ _ W) as Ho. unfold origN in Ho. rewrite Ha in Ho.
    split; [discriminate|]. intros Hlt. exfalso. lia.
Qed.

(* Module::add_import followed by the push of the import item (AddImport) *)
Lemma wf_space_add_import code imps x nl fp :
  wf_space code imps x ->
  wf_space code (imps ++ [mkImp code false fp])
    (mkSpace (s_items x ++ [mkItem (lenN (s_items x)) (Some (lenN imps)) false fp]) true
             (s_num x + 1) (s_added x + 1) nl).
Proof.
  intros W. constructor; cbn [s_items s_num s_added s_recalc].
  - intros p it Hp. apply nth_error_snoc in Hp as [Hp|[-> ->]]; [exact (wf_ids _ _ _ W p it Hp)|reflexivity].
  - pose proof (wf_cnt _ _ _ W). lia.
  - pose proof (wf_orig _ _ _ W) as Ho. pose proof (wf_cnt _ _ _ W). unfold origN in *. cbn [s_num s_added].
    rewrite app_length. replace (s_num x + 1 - (s_added x + 1))%N with (s_num x - s_added x)%N by lia. lia.
  - intros p it k Hp Hk. apply nth_error_snoc in Hp as [Hp|[-> ->]].
    + apply nthN_snoc_l. exact (wf_link _ _ _ W p it k Hp Hk).
    + cbn in Hk. inversion Hk; subst k. cbn. apply nthN_snoc_r.
  - intros p q a b k Hp Hq Ha Hb.
    apply nth_error_snoc in Hp as [Hp|[-> ->]]; apply nth_error_snoc in Hq as [Hq|[-> ->]].
    + exact (wf_inj _ _ _ W p q a b k Hp Hq Ha Hb).
    + exfalso. cbn in Hb. inversion Hb; subst k. exact (nthN_lenN_none _ _ (wf_link _ _ _ W p a _ Hp Ha)).
    + exfalso. cbn in Ha. inversion Ha; subst k. exact (nthN_lenN_none _ _ (wf_link _ _ _ W q b _ Hq Hb)).
    + reflexivity.
  - intros k im Hk Hsp Hd. apply nthN_snoc in Hk as [Hk|[-> ->]].
    + destruct (wf_cover _ _ _ W k im Hk Hsp Hd) as [p [it [Hp Hi]]].
      exists p, it. split; [apply nth_error_snoc_l; exact Hp|exact Hi].
    + exists (length (s_items x)), (mkItem (lenN (s_items x)) (Some (lenN imps)) false fp).
      split; [apply nth_error_snoc_r|reflexivity].
  - discriminate.
Qed.

(* what [upd id (set_del true)] does to the item at a position *)
Lemma nth_error_upd_del l id p a' :
  nth_error (upd id (set_del true) l) p = Some a' ->
  exists a, nth_error l p = Some a /\ it_imp a' = it_imp a /\ it_id a' = it_id a /\ it_fp a' = it_fp a /\
            (p = id -> a' = set_del true a) /\ (p <> id -> a' = a).
Proof.
  intros H. destruct (Nat.eq_dec id p) as [->|Hne].
  - rewrite nth_error_upd_same in H. destruct (nth_error l p) as [a|]; [|discriminate].
    cbn in H. inversion H; subst a'. exists a. repeat split; auto. intros; congruence.
  - rewrite nth_error_upd_other in H by exact Hne. exists a'. repeat split; auto. intros; congruence.
Qed.
Lemma nth_error_upd_del_fwd l id p a :
  nth_error l p = Some a -> exists a', nth_error (upd id (set_del true) l) p = Some a' /\ it_imp a' = it_imp a.
Proof.
  intros H. destruct (Nat.eq_dec id p) as [->|Hne].
  - exists (set_del true a). rewrite nth_error_upd_same, H. split; reflexivity.
  - exists a. rewrite nth_error_upd_other by exact Hne. split; [exact H|reflexivity].
Qed.

(* delete: the flag of the item and, for an import item, of its entry *)
Lemma wf_space_delete code imps x id it nl :
  wf_space code imps x -> nth_error (s_items x) id = Some it ->
  wf_space code (match it_imp it with Some k => updN k del_imp imps | None => imps end)
    (mkSpace (upd id (set_del true) (s_items x)) true (s_num x) (s_added x) nl).
Proof.
  intros W Hid. constructor; cbn [s_items s_num s_added s_recalc].
  - intros p a' Hp. destruct (nth_error_upd_del _ _ _ _ Hp) as [a [Ha [_ [E _]]]]. rewrite E. exact (wf_ids _ _ _ W p a Ha).
  - exact (wf_cnt _ _ _ W).
  - pose proof (wf_orig _ _ _ W). unfold origN in *. cbn [s_num s_added]. rewrite upd_length. lia.
  - intros p a' k0 Hp Hk0.
    destruct (nth_error_upd_del _ _ _ _ Hp) as [a [Ha [Ei [_ [Ef [Hsame Hother]]]]]].
    rewrite Ei in Hk0. pose proof (wf_link _ _ _ W p a k0 Ha Hk0) as L. rewrite Ef.
    destruct (Nat.eq_dec p id) as [->|Hne].
    + rewrite (Hsame eq_refl). cbn [it_del set_del]. assert (a = it) by congruence. subst a.
      rewrite Hk0. rewrite nthN_updN_same, L. reflexivity.
    + rewrite (Hother Hne). destruct (it_imp it) as [k|] eqn:Ek; [|exact L].
      rewrite nthN_updN_other; [exact L|]. intros ->. apply Hne. exact (wf_inj _ _ _ W p id a it k0 Ha Hid Hk0 Ek).
  - intros p q a' b' k Hp Hq Ha Hb.
    destruct (nth_error_upd_del _ _ _ _ Hp) as [a [Ha0 [Ea _]]].
    destruct (nth_error_upd_del _ _ _ _ Hq) as [b [Hb0 [Eb _]]].
    rewrite Ea in Ha. rewrite Eb in Hb. exact (wf_inj _ _ _ W p q a b k Ha0 Hb0 Ha Hb).
  - intros k0 im H0 Hsp Hd.
    assert (Hold : nthN imps k0 = Some im).
    { destruct (it_imp it) as [k|]; [|exact H0]. destruct (N.eq_dec k k0) as [->|Hne].
      - rewrite nthN_updN_same in H0. destruct (nthN imps k0); [|discriminate]. cbn in H0. inversion H0; subst im. discriminate.
      - rewrite nthN_updN_other in H0 by exact Hne. exact H0. }
    destruct (wf_cover _ _ _ W k0 im Hold Hsp Hd) as [p [a [Hp Hi]]].
    destruct (nth_error_upd_del_fwd _ id _ _ Hp) as [a' [Hp' Ei]].
    exists p, a'. split; [exact Hp'|congruence].
  - discriminate.
Qed.

(* convert_local_fn_to_import, after its delete: the local item at [id] is replaced in place by an import item
   that carries the freshly pushed entry *)
Lemma wf_space_to_import code imps x (id : N) it fp nl :
  wf_space code imps x -> nth_error (s_items x) (N.to_nat id) = Some it -> it_imp it = None ->
  wf_space code (imps ++ [mkImp code false fp])
    (mkSpace (updN id (fun _ => mkItem id (Some (lenN imps)) false fp) (s_items x)) true
             (s_num x + 1) (s_added x + 1) nl).
Proof.
  intros W Hid Hloc. unfold updN. set (new := mkItem id (Some (lenN imps)) false fp).
  assert (Hnew : nth_error (upd (N.to_nat id) (fun _ => new) (s_items x)) (N.to_nat id) = Some new)
    by (rewrite nth_error_upd_same, Hid; reflexivity).
  constructor; cbn [s_items s_num s_added s_recalc].
  - intros p a Hp. destruct (Nat.eq_dec (N.to_nat id) p) as [<-|Hne].
    + rewrite Hnew in Hp. inversion Hp; subst a. cbn. rewrite N2Nat.id. reflexivity.
    + rewrite nth_error_upd_other in Hp by exact Hne. exact (wf_ids _ _ _ W p a Hp).
  - pose proof (wf_cnt _ _ _ W). lia.
  - pose proof (wf_orig _ _ _ W) as Ho. pose proof (wf_cnt _ _ _ W). unfold origN in *. cbn [s_num s_added].
    rewrite upd_length. replace (s_num x + 1 - (s_added x + 1))%N with (s_num x - s_added x)%N by lia. lia.
  - intros p a k Hp Hk. destruct (Nat.eq_dec (N.to_nat id) p) as [<-|Hne].
    + rewrite Hnew in Hp. inversion Hp; subst a. cbn in Hk. inversion Hk; subst k. cbn. apply nthN_snoc_r.
    + rewrite nth_error_upd_other in Hp by exact Hne. apply nthN_snoc_l. exact (wf_link _ _ _ W p a k Hp Hk).
  - intros p q a b k Hp Hq Ha Hb.
    destruct (Nat.eq_dec (N.to_nat id) p) as [<-|Hnp]; destruct (Nat.eq_dec (N.to_nat id) q) as [<-|Hnq]; [reflexivity| | |].
    + exfalso. rewrite Hnew in Hp. inversion Hp; subst a. cbn in Ha. inversion Ha; subst k.
      rewrite nth_error_upd_other in Hq by exact Hnq. exact (nthN_lenN_none _ _ (wf_link _ _ _ W q b _ Hq Hb)).
    + exfalso. rewrite Hnew in Hq. inversion Hq; subst b. cbn in Hb. inversion Hb; subst k.
      rewrite nth_error_upd_other in Hp by exact Hnp. exact (nthN_lenN_none _ _ (wf_link _ _ _ W p a _ Hp Ha)).
    + rewrite nth_error_upd_other in Hp by exact Hnp. rewrite nth_error_upd_other in Hq by exact Hnq.
      exact (wf_inj _ _ _ W p q a b k Hp Hq Ha Hb).
  - intros k im Hk Hsp Hd. apply nthN_snoc in Hk as [Hk|[-> ->]].
    + destruct (wf_cover _ _ _ W k im Hk Hsp Hd) as [p [a [Hp Hi]]].
      exists p, a. split; [|exact Hi]. rewrite nth_error_upd_other; [exact Hp|].
      intros <-. congruence.
    + exists (N.to_nat id), new. split; [exact Hnew|reflexivity].
  - discriminate.
Qed.

(* replace_import_in_module, after its delete: the (now deleted) import item at [id] is replaced in place by a
   live local item; its entry stays deleted and is carried by no item any more *)
Lemma wf_space_to_local code imps x (id : N) it fp nl :
  wf_space code imps x -> nth_error (s_items x) (N.to_nat id) = Some it -> it_del it = true ->
  wf_space code imps
    (mkSpace (updN id (fun _ => mkItem id None false fp) (s_items x)) true (s_num x) (s_added x) nl).
Proof.
  intros W Hid Hdel. unfold updN. set (new := mkItem id None false fp).
  assert (Hnew : nth_error (upd (N.to_nat id) (fun _ => new) (s_items x)) (N.to_nat id) = Some new)
    by (rewrite nth_error_upd_same, Hid; reflexivity).
  constructor; cbn [s_items s_num s_added s_recalc].
  - intros p a Hp. destruct (Nat.eq_dec (N.to_nat id) p) as [<-|Hne].
    + rewrite Hnew in Hp. inversion Hp; subst a. cbn. rewrite N2Nat.id. reflexivity.
    + rewrite nth_error_upd_other in Hp by exact Hne. exact (wf_ids _ _ _ W p a Hp).
  - exact (wf_cnt _ _ _ W).
  - pose proof (wf_orig _ _ _ W). unfold origN in *. cbn [s_num s_added]. rewrite upd_length. lia.
  - intros p a k Hp Hk. destruct (Nat.eq_dec (N.to_nat id) p) as [<-|Hne].
    + rewrite Hnew in Hp. inversion Hp; subst a. discriminate.
    + rewrite nth_error_upd_other in Hp by exact Hne. exact (wf_link _ _ _ W p a k Hp Hk).
  - intros p q a b k Hp Hq Ha Hb.
    destruct (Nat.eq_dec (N.to_nat id) p) as [<-|Hnp]; [rewrite Hnew in Hp; inversion Hp; subst a; discriminate|].
    destruct (Nat.eq_dec (N.to_nat id) q) as [<-|Hnq]; [rewrite Hnew in Hq; inversion Hq; subst b; discriminate|].
    rewrite nth_error_upd_other in Hp by exact Hnp. rewrite nth_error_upd_other in Hq by exact Hnq.
    exact (wf_inj _ _ _ W p q a b k Hp Hq Ha Hb).
  - intros k im Hk Hsp Hd.
    destruct (wf_cover _ _ _ W k im Hk Hsp Hd) as [p [a [Hp Hi]]].
    exists p, a. split; [|exact Hi]. rewrite nth_error_upd_other; [exact Hp|].
    intros <-. assert (a = it) by congruence. subst a.
    pose proof (wf_link _ _ _ W _ it k Hid Hi) as L. rewrite Hk in L. inversion L; subst im. cbn in Hd. congruence.
  - discriminate.
Qed.

(* ------------------------------------------------------------------------------------------ *)
(* preservation, whole state *)

Definition with_sp (m : mst) (s : sp) (x : space) (imps : list imp) : mst :=
  let m1 := set_sp m s x in mkM (m_f m1) (m_g m1) (m_m m1) imps.

Lemma wf_with_sp m s x imps :
  wf_space (sp_code s) imps x ->
  (forall s', s' <> s -> wf_space (sp_code s') imps (get_sp m s')) ->
  wf (with_sp m s x imps).
Proof.
  intros Hx Ho s'. destruct s, s'; try exact Hx;
    match goal with |- wf_space (sp_code ?a) _ _ => apply (Ho a); discriminate end.
Qed.

Lemma set_sp_with m s x : set_sp m s x = with_sp m s x (m_imports m).
Proof. destruct s; reflexivity. Qed.
Lemma sp_code_inj s s' : sp_code s = sp_code s' -> s = s'.
Proof. destruct s, s'; cbn; intros H; try reflexivity; discriminate. Qed.

Lemma delete_in_ok m s id m' : delete_in m s id = Ok m' ->
  exists it, nth_error (s_items (get_sp m s)) (N.to_nat id) = Some it /\
    m' = with_sp m s (mkSpace (upd (N.to_nat id) (set_del true) (s_items (get_sp m s))) true
                              (s_num (get_sp m s)) (s_added (get_sp m s)) (s_nlocal (get_sp m s)))
                 (match it_imp it with Some k => updN k del_imp (m_imports m) | None => m_imports m end).
Proof.
  unfold delete_in. set (x := get_sp m s). intros H.
  destruct (N.ltb_spec id (lenN (s_items x))) as [Hlt|Hge].
  - rewrite nthN_updN_same in H. unfold nthN in H.
    destruct (nth_error (s_items x) (N.to_nat id)) as [it|] eqn:E; [|discriminate].
    exists it. split; [reflexivity|]. cbn [option_map] in H.
    change (it_imp (set_del true it)) with (it_imp it) in H.
    destruct (it_imp it) as [k|]; inversion H; subst m'; destruct s; reflexivity.
  - exfalso. unfold nthN in H.
    assert (E : nth_error (s_items x) (N.to_nat id) = None) by (apply nth_error_None; unfold lenN in Hge; lia).
    rewrite E in H. discriminate.
Qed.

Lemma delete_in_wf m s id m' : wf m -> delete_in m s id = Ok m' -> wf m'.
Proof.
  intros W H. destruct (delete_in_ok _ _ _ _ H) as [it [Hit ->]].
  apply wf_with_sp.
  - apply wf_space_delete; [exact (W s)|exact Hit].
  - intros s' Hne. destruct (it_imp it) as [k|] eqn:Ek; [|exact (W s')].
    apply wf_space_imps_del; [exact (W s')|].
    intros im Him E. pose proof (wf_link _ _ _ (W s) _ it k Hit Ek) as L. rewrite Him in L. inversion L; subst im.
    cbn in E. apply Hne. symmetry. apply sp_code_inj. exact E.
Qed.

Lemma push_import_eq m s fp :
  push_import m s fp =
  (with_sp m s (mkSpace (s_items (get_sp m s)) (s_recalc (get_sp m s)) (s_num (get_sp m s) + 1)
                        (s_added (get_sp m s) + 1) (s_nlocal (get_sp m s)))
           (m_imports m ++ [mkImp (sp_code s) false fp]),
   (if (0 <? s_nlocal (get_sp m s))%N then lenN (s_items (get_sp m s)) else s_num (get_sp m s)),
   lenN (m_imports m)).
Proof. unfold push_import. destruct s; reflexivity. Qed.

Lemma get_with_same m s x imps : get_sp (with_sp m s x imps) s = x.
Proof. destruct s; reflexivity. Qed.
Lemma imports_with m s x imps : m_imports (with_sp m s x imps) = imps.
Proof. destruct s; reflexivity. Qed.
Lemma with_with m s x imps x' imps' : with_sp (with_sp m s x imps) s x' imps' = with_sp m s x' imps'.
Proof. destruct s; reflexivity. Qed.
Lemma get_with_other m s s' x imps : s' <> s -> get_sp (with_sp m s x imps) s' = get_sp m s'.
Proof. destruct s, s'; intros H; try reflexivity; contradiction. Qed.

Lemma wf_others_snoc m s fp :
  wf m -> forall s', s' <> s -> wf_space (sp_code s') (m_imports m ++ [mkImp (sp_code s) false fp]) (get_sp m s').
Proof.
  intros W s' Hne. apply wf_space_imps_snoc; [exact (W s')|]. cbn. intros E. apply Hne. symmetry. apply sp_code_inj. exact E.
Qed.

Theorem step_wf m o m' r : wf m -> mstep m o = Ok (m', r) -> wf m'.
Proof.
  intros W H. destruct o as [s fp|s fp|s id|id fp|k fp|fp|s id|k|mem].
  - (* AddLocal *)
    destruct s; cbn [Reindex.step] in H.
    + destruct (N.eqb _ _); inversion H; subst m'. apply (wf_with_sp m SF).
      * apply (wf_space_add_local _ _ (m_f m)); [exact (W SF)|discriminate].
      * intros s' _. exact (W s').
    + inversion H; subst m'. apply (wf_with_sp m SG).
      * apply (wf_space_add_local _ _ (m_g m)); [exact (W SG)|auto].
      * intros s' _. exact (W s').
    + inversion H; subst m'. apply (wf_with_sp m SM).
      * apply (wf_space_add_local _ _ (m_m m)); [exact (W SM)|discriminate].
      * intros s' _. exact (W s').
  - (* AddImport *)
    assert (G : forall nl, wf (with_sp m s
               (mkSpace (s_items (get_sp m s) ++ [mkItem (lenN (s_items (get_sp m s))) (Some (lenN (m_imports m))) false fp]) true
                        (s_num (get_sp m s) + 1) (s_added (get_sp m s) + 1) nl)
               (m_imports m ++ [mkImp (sp_code s) false fp]))).
    { intros nl. apply wf_with_sp; [apply wf_space_add_import; exact (W s)|apply wf_others_snoc; exact W]. }
    destruct s; cbn [Reindex.step] in H; rewrite push_import_eq in H.
    + change (get_sp (with_sp m SF ?x ?i) SF) with x in H. cbv beta iota in H.
      match type of H with (if ?c then _ else _) = _ => destruct c eqn:E end; [|discriminate].
      inversion H; subst m'. apply N.eqb_eq in E. cbn [get_sp with_sp set_sp m_f m_g m_m m_imports s_items s_num s_added s_nlocal s_recalc] in *.
      rewrite <- E. apply (G (s_nlocal (m_f m))).
    + cbv beta iota in H. inversion H; subst m'. apply (G (s_nlocal (m_g m) + 1)%N).
    + change (get_sp (with_sp m SM ?x ?i) SM) with x in H. cbv beta iota in H.
      match type of H with (if ?c then _ else _) = _ => destruct c eqn:E end; [|discriminate].
      inversion H; subst m'. apply N.eqb_eq in E. cbn [get_sp with_sp set_sp m_f m_g m_m m_imports s_items s_num s_added s_nlocal s_recalc] in *.
      rewrite <- E. apply (G (s_nlocal (m_m m))).
  - (* Delete *)
    cbn [Reindex.step] in H. destruct (delete_in m s id) as [m1|] eqn:E; [|discriminate].
    inversion H; subst m'. exact (delete_in_wf _ _ _ _ W E).
  - (* LocalToImport *)
    cbn [Reindex.step] in H. unfold nthN in H.
    destruct (nth_error (s_items (m_f m)) (N.to_nat id)) as [it|] eqn:Eit; [|discriminate].
    destruct (is_import it) eqn:Ei; [inversion H; subst m'; exact W|].
    destruct (delete_in m SF id) as [m1|] eqn:E; [|discriminate].
    pose proof (delete_in_wf _ _ _ _ W E) as W1.
    destruct (delete_in_ok _ _ _ _ E) as [it0 [Hit0 Em1]]. cbn [get_sp] in Hit0.
    assert (it0 = it) by congruence. subst it0.
    assert (Hloc : it_imp it = None) by (unfold is_import, is_local in Ei; destruct (it_imp it); [discriminate|reflexivity]).
    rewrite push_import_eq in H. cbv beta iota in H. injection H as Hm Hr. subst m'.
    change (m_f (with_sp m1 SF ?x ?i)) with x. cbn [s_items s_recalc s_num s_added s_nlocal].
    assert (Hr1 : s_recalc (m_f m1) = true) by (rewrite Em1; reflexivity). rewrite Hr1.
    apply (wf_with_sp m1 SF).
    + apply (wf_space_to_import _ _ (get_sp m1 SF) id (set_del true it)); [exact (W1 SF)| |exact Hloc].
      rewrite Em1, get_with_same. cbn [s_items get_sp]. rewrite nth_error_upd_same, Eit. reflexivity.
    + apply wf_others_snoc. exact W1.
  - (* ImportToLocal *)
    cbn [Reindex.step] in H.
    destruct (nthN (m_imports m) k) as [im|]; [|discriminate].
    destruct (negb (i_sp im =? 0)%N); [discriminate|].
    destruct (find_imp (s_items (m_f m)) k 0) as [p|]; [|inversion H; subst m'; exact W].
    destruct (delete_in m SF p) as [m1|] eqn:E; [|discriminate].
    pose proof (delete_in_wf _ _ _ _ W E) as W1.
    destruct (delete_in_ok _ _ _ _ E) as [it [Hit Em1]]. cbn [get_sp] in Hit.
    injection H as Hm Hr. subst m'.
    assert (Hr1 : s_recalc (m_f m1) = true) by (rewrite Em1; reflexivity). rewrite Hr1.
    apply (wf_with_sp m1 SF).
    + apply (wf_space_to_local _ _ (get_sp m1 SF) p (set_del true it)); [exact (W1 SF)| |reflexivity].
      rewrite Em1, get_with_same. cbn [s_items get_sp]. rewrite nth_error_upd_same, Hit. reflexivity.
    + intros s' _. exact (W1 s').
  - (* ItAddGlobal *)
    cbn [Reindex.step] in H. inversion H; subst m'. apply (wf_with_sp m SG).
    + apply (wf_space_add_local _ _ (m_g m)); [exact (W SG)|auto].
    + intros s' _. exact (W s').
  - cbn [Reindex.step] in H. inversion H; subst m'. exact W.
  - cbn [Reindex.step] in H. inversion H; subst m'. exact W.
  - cbn [Reindex.step] in H. inversion H; subst m'. exact W.
Qed.

(* along a history: [run_pref] (stops at the first panic and returns the last state) and [run] *)
Theorem run_pref_wf : forall h m rets m' rets' b, wf m -> run_pref m h rets = (m', rets', b) -> wf m'.
Proof.
  induction h as [|o h IH]; intros m rets m' rets' b W H; cbn [run_pref] in H.
  - inversion H; subst. exact W.
  - destruct (mstep m o) as [[m1 r]|w] eqn:E.
    + exact (IH m1 _ m' rets' b (step_wf _ _ _ _ W E) H).
    + inversion H; subst. exact W.
Qed.
Theorem run_wf : forall h m rets m' rets', wf m -> run m h rets = Ok (m', rets') -> wf m'.
Proof.
  induction h as [|o h IH]; intros m rets m' rets' W H; cbn [run] in H.
  - inversion H; subst. exact W.
  - destruct (mstep m o) as [[m1 r]|w] eqn:E; [|discriminate].
    exact (IH m1 _ m' rets' (step_wf _ _ _ _ W E) H).
Qed.

(* ------------------------------------------------------------------------------------------ *)
(* every base state built by the checker is well formed *)

Definition cntc (code : N) (l : list (N * N)) : nat := length (filter (fun x => N.eqb (fst x) code) l).

Lemma imp_items_nth code : forall l pos k p it,
  nth_error (imp_items code pos k l) p = Some it ->
  exists j fp, nth_error l j = Some (code, fp) /\
               it = mkItem (pos + N.of_nat p)%N (Some (k + N.of_nat j)%N) false fp /\
               p = cntc code (firstn j l).
Proof.
  induction l as [|[c fp0] l IH]; intros pos k p it H; [destruct p; discriminate|].
  cbn [imp_items] in H. destruct (N.eqb_spec c code) as [->|Hne].
  - destruct p as [|p]; cbn [nth_error] in H.
    + inversion H; subst it. exists 0, fp0. split; [reflexivity|]. split; [|reflexivity].
      cbn [N.of_nat]. rewrite !N.add_0_r. reflexivity.
    + destruct (IH _ _ _ _ H) as [j [fp [Hj [-> Hp]]]]. exists (S j), fp. split; [exact Hj|]. split.
      * f_equal; [lia|f_equal; lia].
      * unfold cntc in *. cbn [firstn filter fst]. rewrite N.eqb_refl. cbn [length]. congruence.
  - destruct (IH _ _ _ _ H) as [j [fp [Hj [-> Hp]]]]. exists (S j), fp. split; [exact Hj|]. split.
    + f_equal. f_equal. lia.
    + unfold cntc in *. cbn [firstn filter fst]. destruct (N.eqb_spec c code); [contradiction|]. exact Hp.
Qed.

Lemma imp_items_cover code : forall l pos k j fp, nth_error l j = Some (code, fp) ->
  exists p it, nth_error (imp_items code pos k l) p = Some it /\ it_imp it = Some (k + N.of_nat j)%N.
Proof.
  induction l as [|[c fp0] l IH]; intros pos k j fp H; [destruct j; discriminate|].
  cbn [imp_items]. destruct j as [|j]; cbn [nth_error] in H.
  - inversion H; subst. rewrite N.eqb_refl. exists 0. eexists. split; [reflexivity|]. cbn. f_equal. lia.
  - destruct (IH (if N.eqb c code then pos + 1 else pos)%N (k + 1)%N j fp H) as [p [it [Hp Hi]]].
    destruct (N.eqb c code).
    + exists (S p), it. split; [exact Hp|]. rewrite Hi. f_equal. lia.
    + exists p, it. split; [exact Hp|]. rewrite Hi. f_equal. lia.
Qed.

Lemma loc_items_nth : forall l pos p it,
  nth_error (loc_items pos l) p = Some it -> exists fp, it = mkItem (pos + N.of_nat p)%N None false fp.
Proof.
  induction l as [|fp0 l IH]; intros pos p it H; [destruct p; discriminate|].
  cbn [loc_items] in H. destruct p as [|p]; cbn [nth_error] in H.
  - inversion H. exists fp0. f_equal. lia.
  - destruct (IH _ _ _ H) as [fp ->]. exists fp. f_equal. lia.
Qed.

Lemma nth_error_app_cases {A} (a b : list A) p x :
  nth_error (a ++ b) p = Some x ->
  (p < length a /\ nth_error a p = Some x) \/ (length a <= p /\ nth_error b (p - length a) = Some x).
Proof.
  intros H. destruct (Nat.lt_ge_cases p (length a)) as [Hlt|Hge].
  - left. split; [exact Hlt|]. rewrite nth_error_app1 in H by exact Hlt. exact H.
  - right. split; [exact Hge|]. rewrite nth_error_app2 in H by exact Hge. exact H.
Qed.

Lemma wf_mk_space code imps locs :
  wf_space code (map (fun x => mkImp (fst x) false (snd x)) imps) (mk_space code imps locs).
Proof.
  unfold mk_space. set (is := imp_items code 0 0 imps).
  assert (Him : forall p it, nth_error is p = Some it ->
            exists j fp, nth_error imps j = Some (code, fp) /\ it = mkItem (N.of_nat p) (Some (N.of_nat j)) false fp /\
                         p = cntc code (firstn j imps)).
  { intros p it H. destruct (imp_items_nth _ _ _ _ _ _ H) as [j [fp [H1 [H2 H3]]]]. exists j, fp.
    rewrite !N.add_0_l in H2. auto. }
  assert (Hlo : forall p it, nth_error (loc_items (lenN is) locs) p = Some it ->
            exists fp, it = mkItem (N.of_nat (length is + p)) None false fp).
  { intros p it H. destruct (loc_items_nth _ _ _ _ H) as [fp ->]. exists fp. f_equal. unfold lenN. lia. }
  constructor; cbn [s_items s_num s_added s_recalc].
  - intros p it H. apply nth_error_app_cases in H as [[Hp H]|[Hp H]].
    + destruct (Him _ _ H) as [j [fp [_ [-> _]]]]. reflexivity.
    + destruct (Hlo _ _ H) as [fp ->]. cbn. f_equal. lia.
  - lia.
  - unfold origN. cbn [s_num s_added]. rewrite app_length. unfold lenN. lia.
  - intros p it k H Hk. apply nth_error_app_cases in H as [[Hp H]|[Hp H]].
    + destruct (Him _ _ H) as [j [fp [Hj [-> _]]]]. cbn in Hk. inversion Hk; subst k. cbn [it_del it_fp].
      unfold nthN. rewrite Nat2N.id. rewrite (map_nth_error _ _ _ Hj). reflexivity.
    + destruct (Hlo _ _ H) as [fp ->]. discriminate.
  - intros p q a b k Hp Hq Ha Hb.
    apply nth_error_app_cases in Hp as [[Hp1 Hp]|[Hp1 Hp]]; [|destruct (Hlo _ _ Hp) as [fp ->]; discriminate].
    apply nth_error_app_cases in Hq as [[Hq1 Hq]|[Hq1 Hq]]; [|destruct (Hlo _ _ Hq) as [fp ->]; discriminate].
    destruct (Him _ _ Hp) as [j [fp [_ [-> Ej]]]]. destruct (Him _ _ Hq) as [j' [fp' [_ [-> Ej']]]].
    cbn in Ha, Hb. assert (j = j') by (rewrite <- Hb in Ha; inversion Ha; lia). subst j'. congruence.
  - intros k im Hk Hsp Hd. unfold nthN in Hk. rewrite nth_error_map in Hk.
    destruct (nth_error imps (N.to_nat k)) as [[c fp]|] eqn:E; [|discriminate].
    cbn in Hk. inversion Hk; subst im. cbn in Hsp. subst c.
    destruct (imp_items_cover code imps 0%N 0%N _ _ E) as [p [it [Hp Hi]]].
    exists p, it. split.
    + rewrite nth_error_app1; [exact Hp|]. apply nth_error_Some. unfold is. rewrite Hp. discriminate.
    + rewrite Hi. f_equal. lia.
  - intros _. split; [reflexivity|]. intros p it H.
    replace (N.to_nat (lenN is)) with (length is) by (unfold lenN; lia).
    apply nth_error_app_cases in H as [[Hp H]|[Hp H]].
    + destruct (Him _ _ H) as [j [fp [_ [-> _]]]]. split; [reflexivity|]. split; [intros _; exact Hp|reflexivity].
    + destruct (Hlo _ _ H) as [fp ->]. split; [reflexivity|]. split; [discriminate|intros; lia].
Qed.

Theorem wf_mk_base (c : rcase) : wf (mk_base c).
Proof. intros s. destruct s; apply wf_mk_space. Qed.

(* every state the checker's [final_model] can be is well formed *)
Theorem wf_final_model (c : rcase) : wf (final_model c).
Proof.
  unfold final_model. destruct (run_pref (mk_base c) (h_ops c) []) as [[m rets] b] eqn:E.
  exact (run_pref_wf _ _ _ _ _ _ (wf_mk_base c) E).
Qed.

(* ------------------------------------------------------------------------------------------ *)
(* 2. the import section of the model's output *)

(* the import entries carried by the live import items of a vector (Reindex.live_imp_ks) *)
Notation live_ks := live_imp_ks.
Definition ispace_m (m : mst) (x : sp) : list item * list (N * N) :=
  match index_space (get_sp m x) with Ok r => r | Panic _ => ([], []) end.

(* ------------------------------------------------------------------------------------------ *)
(* strictly increasing lists of N *)

Lemma inc_tail a l : increasing (a :: l) = true -> increasing l = true.
Proof. destruct l as [|b l]; [reflexivity|]. cbn [increasing]. intros H. apply andb_prop in H as [_ H]. exact H. Qed.
Lemma inc_lt : forall l a, increasing (a :: l) = true -> forall b, In b l -> (a < b)%N.
Proof.
  induction l as [|c l IH]; intros a H b Hb; [contradiction|].
  cbn [increasing] in H. apply andb_prop in H as [H1 H2]. apply N.ltb_lt in H1.
  destruct Hb as [->|Hb]; [exact H1|]. pose proof (IH c H2 b Hb). lia.
Qed.
Lemma inc_cons a l : (forall b, In b l -> (a < b)%N) -> increasing l = true -> increasing (a :: l) = true.
Proof.
  intros H1 H2. destruct l as [|b l]; [reflexivity|]. cbn [increasing]. apply andb_true_intro. split; [|exact H2].
  apply N.ltb_lt. apply H1. left. reflexivity.
Qed.
Lemma inc_nodup : forall l, increasing l = true -> NoDup l.
Proof.
  induction l as [|a l IH]; intros H; constructor.
  - intros Hin. pose proof (inc_lt _ _ H a Hin). lia.
  - apply IH. exact (inc_tail _ _ H).
Qed.

(* the positions (as import indices) of the live entries of one kind, and the fingerprints found there *)
Definition kindlive (code : N) (im : imp) : bool := N.eqb (i_sp im) code && negb (i_del im).
Fixpoint posP (code : N) (n : nat) (l : list imp) : list N :=
  match l with
  | [] => []
  | a :: t => (if kindlive code a then [N.of_nat n] else []) ++ posP code (S n) t
  end.
Definition fpat (imps : list imp) (k : N) : N := match nthN imps k with Some im => i_fp im | None => 0%N end.

Lemma posP_in code : forall l n k,
  In k (posP code n l) <-> exists j im, k = N.of_nat (n + j) /\ nth_error l j = Some im /\ kindlive code im = true.
Proof.
  induction l as [|a t IH]; intros n k; cbn [posP].
  - split; [contradiction|]. intros [j [im [_ [H _]]]]. destruct j; discriminate.
  - rewrite in_app_iff, IH. split.
    + intros [H|[j [im [Hk [Hj Hl]]]]].
      * destruct (kindlive code a) eqn:Ea; [|contradiction]. destruct H as [<-|[]].
        exists 0, a. rewrite Nat.add_0_r. auto.
      * exists (S j), im. split; [rewrite Hk; f_equal; lia|]. auto.
    + intros [[|j] [im [Hk [Hj Hl]]]].
      * left. cbn in Hj. inversion Hj; subst a. rewrite Hl. left. rewrite Hk. f_equal. lia.
      * right. exists j, im. split; [rewrite Hk; f_equal; lia|]. auto.
Qed.
Lemma posP_inc code : forall l n, increasing (posP code n l) = true.
Proof.
  induction l as [|a t IH]; intros n; cbn [posP]; [reflexivity|].
  destruct (kindlive code a); cbn [app]; [|apply IH].
  apply inc_cons; [|apply IH]. intros b Hb. apply posP_in in Hb as [j [im [-> _]]]. lia.
Qed.
Lemma posP_fps code : forall l pre,
  map (fpat (pre ++ l)) (posP code (length pre) l) = map i_fp (filter (kindlive code) l).
Proof.
  induction l as [|a t IH]; intros pre; cbn [posP filter]; [reflexivity|].
  assert (E : pre ++ a :: t = (pre ++ [a]) ++ t) by (rewrite <- app_assoc; reflexivity).
  assert (Et : map (fpat (pre ++ a :: t)) (posP code (S (length pre)) t) = map i_fp (filter (kindlive code) t)).
  { rewrite E. replace (S (length pre)) with (length (pre ++ [a])) by (rewrite app_length; cbn; lia). apply IH. }
  destruct (kindlive code a); cbn [app map]; [|exact Et].
  f_equal; [|exact Et]. unfold fpat, nthN. rewrite Nat2N.id, nth_error_app_len. reflexivity.
Qed.

Lemma posP_length code : forall l n, length (posP code n l) = length (filter (kindlive code) l).
Proof.
  induction l as [|a t IH]; intros n; cbn [posP filter]; [reflexivity|].
  rewrite app_length, IH. destruct (kindlive code a); reflexivity.
Qed.

(* the slot-filling import section, restricted to one kind: as long as the queue of that kind is not exhausted
   (and every queue holds entries of its own kind) the slots of kind [c] receive the queue of kind [c], in order *)
Definition queues_ok (all : list imp) (qs : N -> list N) : Prop :=
  forall c k, In k (qs c) -> exists im, nthN all k = Some im /\ i_sp im = c.
Lemma queues_ok_set all qs c k q : queues_ok all qs -> qs c = k :: q -> queues_ok all (q_set qs c q).
Proof.
  intros H E c' k' Hin. unfold q_set in Hin. destruct (N.eqb_spec c' c) as [->|Hne]; [|exact (H c' k' Hin)].
  apply (H c k'). rewrite E. right. exact Hin.
Qed.
Lemma nthN_app_len {A} (pre : list A) x post : nthN (pre ++ x :: post) (lenN pre) = Some x.
Proof. unfold nthN, lenN. rewrite Nat2N.id. apply nth_error_app_len. Qed.
(* ImportsID level: the emitted imports whose entry is of kind [c] are the first [number of live slots of kind c]
   elements of the queue of kind [c] *)
Lemma import_order_kind_ks (c : N) : forall imps pre qs,
  queues_ok (pre ++ imps) qs ->
  length (filter (kindlive c) imps) <= length (qs c) ->
  filter (fun k => N.eqb (fst (import_at (pre ++ imps) k)) c) (import_order (lenN pre) imps qs)
  = firstn (length (filter (kindlive c) imps)) (qs c).
Proof.
  induction imps as [|s rest IH]; intros pre qs Hq Hlen; [reflexivity|].
  assert (E : pre ++ s :: rest = (pre ++ [s]) ++ rest) by (rewrite <- app_assoc; reflexivity).
  assert (El : (lenN pre + 1)%N = lenN (pre ++ [s])) by (unfold lenN; rewrite app_length; cbn; lia).
  cbn [import_order filter]. unfold kindlive at 1 3. unfold kindlive at 1 in Hlen. cbn [filter] in Hlen.
  destruct (i_del s) eqn:Ed.
  - rewrite andb_false_r in *. rewrite El, E. apply IH; [rewrite <- E; exact Hq|exact Hlen].
  - rewrite andb_true_r in *. destruct (qs (i_sp s)) as [|k q'] eqn:Eq.
    + (* the fallback: the slot keeps its own entry *)
      cbn [filter]. unfold import_at at 1. rewrite nthN_app_len. cbn [fst].
      destruct (N.eqb_spec (i_sp s) c) as [Es|Es].
      * exfalso. rewrite Es in Eq. rewrite Eq in Hlen. cbn in Hlen. lia.
      * rewrite El, E. apply IH; [rewrite <- E; exact Hq|exact Hlen].
    + destruct (Hq (i_sp s) k) as [im [Hk Hs]]; [rewrite Eq; left; reflexivity|].
      cbn [filter]. unfold import_at at 1. rewrite Hk. cbn [fst]. rewrite Hs.
      pose proof (queues_ok_set _ _ _ _ _ Hq Eq) as Hq'.
      destruct (N.eqb_spec (i_sp s) c) as [Es|Es].
      * rewrite Es in Eq. rewrite Eq in *. cbn [length firstn] in *. f_equal.
        rewrite El, E. rewrite (IH (pre ++ [s]) (q_set qs (i_sp s) q')).
        -- unfold q_set. rewrite Es, N.eqb_refl. reflexivity.
        -- rewrite <- E. exact Hq'.
        -- unfold q_set. rewrite Es, N.eqb_refl. unfold kindlive. lia.
      * rewrite El, E. rewrite (IH (pre ++ [s]) (q_set qs (i_sp s) q')).
        -- unfold q_set. destruct (N.eqb_spec c (i_sp s)) as [Ec|_]; [exfalso; apply Es; symmetry; exact Ec|]. reflexivity.
        -- rewrite <- E. exact Hq'.
        -- unfold q_set. destruct (N.eqb_spec c (i_sp s)) as [Ec|_]; [exfalso; apply Es; symmetry; exact Ec|]. exact Hlen.
Qed.
Lemma filter_map_fst {A} (f : A -> N * N) (c : N) : forall L,
  map snd (filter (fun i => N.eqb (fst i) c) (map f L)) = map (fun k => snd (f k)) (filter (fun k => N.eqb (fst (f k)) c) L).
Proof. induction L as [|a L IH]; [reflexivity|]. cbn [map filter]. destruct (N.eqb (fst (f a)) c); cbn [map]; [f_equal|]; exact IH. Qed.
Lemma fpat_import_at all k : fpat all k = snd (import_at all k).
Proof. unfold fpat, import_at. destruct (nthN all k); reflexivity. Qed.
(* fingerprint level *)
Lemma import_order_kind (c : N) imps pre qs :
  queues_ok (pre ++ imps) qs ->
  length (filter (kindlive c) imps) <= length (qs c) ->
  map snd (filter (fun i => N.eqb (fst i) c) (map (import_at (pre ++ imps)) (import_order (lenN pre) imps qs)))
  = map (fpat (pre ++ imps)) (firstn (length (filter (kindlive c) imps)) (qs c)).
Proof.
  intros Hq Hlen. rewrite filter_map_fst, (import_order_kind_ks c imps pre qs Hq Hlen).
  apply map_ext. intros k. symmetry. apply fpat_import_at.
Qed.

Lemma negb_existsb_false {A} (f : A -> bool) l : negb (existsb f l) = true -> forall i, In i l -> f i = false.
Proof.
  intros H i Hi. destruct (f i) eqn:E; [|reflexivity]. exfalso.
  assert (existsb f l = true) by (apply existsb_exists; exists i; auto). rewrite H0 in H. discriminate.
Qed.

(* ------------------------------------------------------------------------------------------ *)
(* 3. one well-formed space: [index_space] in closed form on both branches, and ReidxBind's hypotheses derived *)

Section OneSpace.
Variable code : N.
Variable imps : list imp.
Variable x : space.
Hypothesis W : wf_space code imps x.

Notation orig := (origN x).
Notation items := (s_items x).

(* a space never flagged for recalculation is already in the shape recalculate_ids would give it *)
Lemma pristine_spec : s_recalc x = false -> spec orig items = items.
Proof.
  intros Hr. destruct (wf_prist _ _ _ W Hr) as [Ha Hall].
  assert (Ho : orig = N.to_nat (s_num x)) by (unfold origN; rewrite Ha; lia).
  unfold spec. rewrite Ho.
  rewrite (filter_all keepA), (filter_none keepA), (filter_all keepC), (filter_none keepC).
  - cbn [app]. rewrite app_nil_r. apply firstn_skipn.
  - intros i Hi. apply In_firstn_nth in Hi as [p [Hp Hn]]. destruct (Hall p i Hn) as [_ Hi].
    unfold keepC. rewrite (import_not_local _ (proj2 Hi Hp)). reflexivity.
  - intros i Hi. apply In_skipn_nth in Hi as [p [Hp Hn]]. destruct (Hall p i Hn) as [Hd Hi].
    assert (Hnot : is_import i = false)
      by (destruct (is_import i); [exfalso; pose proof (proj1 Hi eq_refl); lia|reflexivity]).
    unfold keepC. rewrite Hd. unfold is_import in Hnot. destruct (is_local i); [reflexivity|discriminate].
  - intros i Hi. apply In_skipn_nth in Hi as [p [Hp Hn]]. destruct (Hall p i Hn) as [_ Hi].
    unfold keepA. destruct (is_import i); [|reflexivity]. exfalso. pose proof (proj1 Hi eq_refl). lia.
  - intros i Hi. apply In_firstn_nth in Hi as [p [Hp Hn]]. destruct (Hall p i Hn) as [Hd Hi].
    unfold keepA. rewrite Hd. rewrite (proj2 Hi Hp). reflexivity.
Qed.

(* both branches of index_space *)
Theorem index_space_wf l mp : index_space x = Ok (l, mp) -> l = spec orig items /\ mp = mapping l.
Proof.
  intros H. destruct (s_recalc x) eqn:Hr.
  - exact (index_space_closed_form x Hr (wf_orig _ _ _ W) l mp H).
  - unfold index_space in H. rewrite Hr in H. inversion H; subst. rewrite (pristine_spec Hr). split; reflexivity.
Qed.

(* a well-formed space never trips assert_eq!(len, map.len()) *)
Lemma lookup_none_notin : forall (acc : list (N * N)) k, lookup acc k = None -> ~ In k (map fst acc).
Proof.
  induction acc as [|[k' v'] acc IHa]; intros k Hl Hin; [contradiction|].
  cbn in Hl, Hin. destruct (N.eqb_spec k k') as [E|Hne]; [discriminate|].
  destruct Hin as [E|Hin]; [congruence|exact (IHa k Hl Hin)].
Qed.
Lemma mapping_from_length : forall l pos acc, NoDup (map it_id l) ->
  (forall i, In i l -> lookup acc (it_id i) = None) -> NoDup (map fst acc) ->
  length (mapping_from pos l acc) = length l + length acc.
Proof.
  induction l as [|i l IH]; intros pos acc Hnd Hacc Hna; [reflexivity|].
  cbn [mapping_from map] in *. apply NoDup_cons_iff in Hnd as [Hni Hnd].
  pose proof (lookup_none_notin _ _ (Hacc i (or_introl eq_refl))) as Hnotin.
  assert (Hf : filter (fun kv : N * N => negb (N.eqb (fst kv) (it_id i))) acc = acc).
  { apply filter_all. intros [k v] Hkv. cbn. destruct (N.eqb_spec k (it_id i)) as [E|]; [|reflexivity]. exfalso.
    apply Hnotin. rewrite <- E. change k with (fst (k, v)). apply in_map. exact Hkv. }
  rewrite Hf. rewrite IH.
  - cbn [length]. lia.
  - exact Hnd.
  - intros j Hj. cbn [lookup]. destruct (N.eqb_spec (it_id j) (it_id i)) as [E|Hne].
    + exfalso. apply Hni. rewrite <- E. apply in_map. exact Hj.
    + apply Hacc. right. exact Hj.
  - cbn [map fst]. constructor; [exact Hnotin|exact Hna].
Qed.
Theorem index_space_total : exists l mp, index_space x = Ok (l, mp).
Proof.
  unfold index_space. destruct (s_recalc x); [|eauto].
  rewrite reorganise_spec_N by exact (wf_orig _ _ _ W). fold orig.
  assert (E : lenN (spec orig items) = lenN (mapping (spec orig items))).
  { unfold lenN, mapping. f_equal. rewrite mapping_from_length.
    - cbn. lia.
    - apply spec_ids_nodup. exact (wf_ids_nodup _ _ _ W).
    - reflexivity.
    - constructor. }
  rewrite E, N.eqb_refl. eauto.
Qed.

Lemma spec_incl i : In i (spec orig items) -> In i items.
Proof.
  unfold spec. rewrite !in_app_iff. intros [H|[H|[H|H]]]; apply filter_In in H as [H _];
    [eapply In_firstn_In|eapply In_skipn_In|eapply In_skipn_In|eapply In_firstn_In]; exact H.
Qed.

(* the fingerprints of the live import items of a sub-list are the ones found at their entries *)
Lemma live_ks_fps : forall L, (forall it, In it L -> In it items) ->
  map (fpat imps) (live_ks L) = map it_fp (filter (fun i => is_import i && negb (it_del i)) L).
Proof.
  induction L as [|a L IH]; intros Hin; [reflexivity|].
  unfold live_ks in *. cbn [flat_map filter]. rewrite map_app, IH by (intros it Hit; apply Hin; right; exact Hit).
  unfold is_import, is_local.
  destruct (it_imp a) as [k|] eqn:Ek; cbn [negb andb]; [|reflexivity].
  destruct (it_del a) eqn:Ed; cbn [negb map app]; [reflexivity|].
  f_equal. destruct (In_nth_error _ _ (Hin a (or_introl eq_refl))) as [p Hp].
  pose proof (wf_link _ _ _ W p a k Hp Ek) as L0. unfold fpat. rewrite L0. reflexivity.
Qed.

(* the entries carried by the live import items of the index space are exactly the live entries of this kind *)
Lemma live_ks_set k : In k (live_ks (spec orig items)) <-> In k (posP code 0 imps).
Proof.
  unfold live_ks. rewrite in_flat_map, posP_in. split.
  - intros [it [Hit Hk]]. destruct (it_imp it) as [k0|] eqn:Ek; [|contradiction].
    destruct (it_del it) eqn:Ed; [contradiction|]. destruct Hk as [<-|[]].
    destruct (In_nth_error _ _ (spec_incl _ Hit)) as [p Hp].
    pose proof (wf_link _ _ _ W p it k0 Hp Ek) as L0. rewrite Ed in L0.
    exists (N.to_nat k0). eexists. split; [cbn; rewrite N2Nat.id; reflexivity|]. split; [exact L0|].
    unfold kindlive. cbn. rewrite N.eqb_refl. reflexivity.
  - intros [j [im [Hk [Hj Hl]]]]. cbn in Hk. subst k.
    unfold kindlive in Hl. apply andb_prop in Hl as [Hsp Hd]. apply N.eqb_eq in Hsp. apply negb_true_iff in Hd.
    assert (Hn : nthN imps (N.of_nat j) = Some im) by (unfold nthN; rewrite Nat2N.id; exact Hj).
    destruct (wf_cover _ _ _ W _ im Hn Hsp Hd) as [p [it [Hp Hi]]].
    pose proof (wf_link _ _ _ W p it _ Hp Hi) as L0. rewrite Hn in L0. inversion L0 as [E]. 
    assert (Hdel : it_del it = false) by (rewrite E in Hd; exact Hd).
    exists it. split.
    + apply spec_keeps_live; [eapply nth_error_In; exact Hp|exact Hdel].
    + rewrite Hi, Hdel. left. reflexivity.
Qed.

(* distinct live import items carry distinct entries, so the two duplicate-free lists have the same length *)
Lemma live_ks_nodup_of : forall L, NoDup L -> (forall it, In it L -> In it items) -> NoDup (live_ks L).
Proof.
  induction L as [|a L IH]; intros Hnd Hin; [constructor|].
  inversion Hnd as [|? ? Ha HndL]; subst. unfold live_imp_ks. cbn [flat_map]. fold (live_ks L).
  assert (IHL : NoDup (live_ks L)) by (apply IH; [exact HndL|intros it Hit; apply Hin; right; exact Hit]).
  destruct (it_imp a) as [k|] eqn:Ek; [|exact IHL]. destruct (it_del a); [exact IHL|].
  cbn [app]. constructor; [|exact IHL]. intros Hk. unfold live_imp_ks in Hk. apply in_flat_map in Hk as [b [Hb Hkb]].
  destruct (it_imp b) as [kb|] eqn:Ekb; [|contradiction]. destruct (it_del b); [contradiction|].
  destruct Hkb as [<-|[]].
  destruct (In_nth_error _ _ (Hin a (or_introl eq_refl))) as [p Hp].
  destruct (In_nth_error _ _ (Hin b (or_intror Hb))) as [q Hq].
  assert (p = q) by exact (wf_inj _ _ _ W p q a b kb Hp Hq Ek Ekb). subst q.
  assert (a = b) by congruence. subst b. exact (Ha Hb).
Qed.
Lemma live_ks_length : length (live_ks (spec orig items)) = length (filter (kindlive code) imps).
Proof.
  rewrite <- (posP_length code imps 0). apply Permutation_length. apply NoDup_Permutation.
  - apply live_ks_nodup_of; [|exact spec_incl].
    exact (NoDup_map_inv _ _ (spec_ids_nodup orig items (wf_ids_nodup _ _ _ W))).
  - apply inc_nodup. apply posP_inc.
  - exact live_ks_set.
Qed.
Lemma live_ks_kind k : In k (live_ks (spec orig items)) -> exists im, nthN imps k = Some im /\ i_sp im = code.
Proof.
  intros H. apply live_ks_set in H. apply posP_in in H as [j [im [-> [Hj Hl]]]].
  exists im. split; [unfold nthN; cbn; rewrite Nat2N.id; exact Hj|].
  unfold kindlive in Hl. apply andb_prop in Hl as [Hl _]. apply N.eqb_eq. exact Hl.
Qed.

(* the emitted imports of this kind are exactly the entries of the live import items of this space's index space, in
   index-space order *)
Theorem import_order_ks_agrees (qs : N -> list N) :
  queues_ok imps qs -> qs code = live_ks (spec orig items) ->
  filter (fun k => N.eqb (fst (import_at imps k)) code) (import_order 0 imps qs) = live_ks (spec orig items).
Proof.
  intros Hq Eq.
  pose proof (import_order_kind_ks code imps [] qs Hq) as K. cbn [app] in K. change (lenN (@nil imp)) with 0%N in K.
  rewrite K by (rewrite Eq, live_ks_length; lia).
  rewrite Eq, <- live_ks_length. apply firstn_all.
Qed.

(* ReidxBind's hypothesis noD02, derived (unconditionally since the repair of D02): in the slot-filling import
   section every queue that holds this space's live import entries, in index-space order, comes out as this kind's
   part of the section *)
Theorem import_order_agrees (qs : N -> list N) :
  queues_ok imps qs -> qs code = live_ks (spec orig items) ->
  map snd (filter (fun i => N.eqb (fst i) code) (map (import_at imps) (import_order 0 imps qs)))
  = map it_fp (Ipart orig items).
Proof.
  intros Hq Eq.
  pose proof (import_order_kind code imps [] qs Hq) as K. cbn [app] in K. change (lenN (@nil imp)) with 0%N in K.
  rewrite K by (rewrite Eq, live_ks_length; lia).
  rewrite Eq, <- live_ks_length, firstn_all.
  rewrite live_ks_fps by exact spec_incl. rewrite spec_split, filter_app.
  rewrite (filter_all _ (Ipart orig items)), (filter_none _ (Lpart orig items)).
  - rewrite app_nil_r. reflexivity.
  - intros i Hi. destruct (Lpart_locals _ _ i Hi) as [Hl _]. rewrite (local_not_import _ Hl). reflexivity.
  - intros i Hi. destruct (Ipart_imports _ _ i Hi) as [Hl Hd]. rewrite Hl, Hd. reflexivity.
Qed.

(* the binding theorem for a well-formed space: no hypothesis on the import list is left *)
Theorem space_binding (qs : N -> list N) l mp :
  queues_ok imps qs -> qs code = live_ks (spec orig items) -> index_space x = Ok (l, mp) ->
  forall it, In it items -> it_del it = false ->
  exists q, lookup mp (it_id it) = Some q /\
            nth_error (map snd (filter (fun i => N.eqb (fst i) code) (map (import_at imps) (import_order 0 imps qs)))
                       ++ emitted_locals l true) (N.to_nat q) = Some (it_fp it).
Proof.
  intros Hq Eq H it Hin Hd. destruct (index_space_wf _ _ H) as [-> ->].
  exact (live_items_bound orig items (wf_ids_nodup _ _ _ W) _ (import_order_agrees qs Hq Eq) it Hin Hd).
Qed.
End OneSpace.

(* ------------------------------------------------------------------------------------------ *)
(* 3'. the binding theorem for well-formed and for reachable states *)

(* what a decoder of the model's own output sees: the import section (every function / global / memory slot filled
   with the next import of its kind in the order of that kind's index space) ... *)
Definition model_imports (m : mst) : list (N * N) :=
  map (import_at (m_imports m))
      (emitted_imports (m_imports m) (fst (ispace_m m SF)) (fst (ispace_m m SG)) (fst (ispace_m m SM))).
(* ... and Wasm's index rule for one kind: the imports of that kind in import-section order, then the locally
   defined entities the encoder emits for the (reorganised) vector [l] *)
Definition space_of_model (m : mst) (l : list item) (x : sp) : list N :=
  map snd (filter (fun i => N.eqb (fst i) (sp_code x)) (model_imports m)) ++ emitted_locals l true.

Lemma ispace_m_spec m x : wf m ->
  fst (ispace_m m x) = spec (origN (get_sp m x)) (s_items (get_sp m x)).
Proof.
  intros W. destruct (index_space_total _ _ _ (W x)) as [l [mp H]]. unfold ispace_m. rewrite H. cbn [fst].
  exact (proj1 (index_space_wf _ _ _ (W x) _ _ H)).
Qed.
Lemma imp_queues_sp lf lg lm x :
  imp_queues lf lg lm (sp_code x) = live_ks (match x with SF => lf | SG => lg | SM => lm end).
Proof. destruct x; reflexivity. Qed.
(* every queue of the slot-filling holds entries of its own kind *)
Lemma wf_queues_ok m : wf m ->
  queues_ok (m_imports m) (imp_queues (fst (ispace_m m SF)) (fst (ispace_m m SG)) (fst (ispace_m m SM))).
Proof.
  intros W c k Hin. unfold imp_queues in Hin.
  destruct (N.eqb_spec c 0) as [->|H0]; [rewrite (ispace_m_spec m SF W) in Hin; exact (live_ks_kind _ _ _ (W SF) k Hin)|].
  destruct (N.eqb_spec c 1) as [->|H1]; [rewrite (ispace_m_spec m SG W) in Hin; exact (live_ks_kind _ _ _ (W SG) k Hin)|].
  destruct (N.eqb_spec c 2) as [->|H2]; [rewrite (ispace_m_spec m SM W) in Hin; exact (live_ks_kind _ _ _ (W SM) k Hin)|].
  contradiction.
Qed.
(* the part of the model's import section that Wasm's rule reads for one kind: exactly the live import items of that
   kind's index space, in index-space order - whatever the order of the import vector (former class D02) *)
Theorem wf_import_order_agrees m x : wf m ->
  map snd (filter (fun i => N.eqb (fst i) (sp_code x)) (model_imports m))
  = map it_fp (Ipart (origN (get_sp m x)) (s_items (get_sp m x))).
Proof.
  intros W. unfold model_imports, emitted_imports.
  apply (import_order_agrees _ _ _ (W x)); [exact (wf_queues_ok m W)|].
  rewrite imp_queues_sp. rewrite <- (ispace_m_spec m x W). destruct x; reflexivity.
Qed.

Theorem wf_emitted_imports_kind m x : wf m ->
  filter (fun k => N.eqb (fst (import_at (m_imports m) k)) (sp_code x))
         (emitted_imports (m_imports m) (fst (ispace_m m SF)) (fst (ispace_m m SG)) (fst (ispace_m m SM)))
  = live_ks (fst (ispace_m m x)).
Proof.
  intros W. unfold emitted_imports. rewrite (ispace_m_spec m x W).
  apply (import_order_ks_agrees _ _ _ (W x)); [exact (wf_queues_ok m W)|].
  rewrite imp_queues_sp. rewrite <- (ispace_m_spec m x W). destruct x; reflexivity.
Qed.

Theorem wf_binding m x : wf m ->
  forall l mp, index_space (get_sp m x) = Ok (l, mp) ->
  forall it, In it (s_items (get_sp m x)) -> it_del it = false ->
  exists q, lookup mp (it_id it) = Some q /\ nthN (space_of_model m l x) q = Some (it_fp it).
Proof.
  intros W l mp H it Hin Hd.
  unfold space_of_model, nthN. rewrite (wf_import_order_agrees m x W).
  destruct (index_space_wf _ _ _ (W x) _ _ H) as [-> ->].
  exact (live_items_bound _ _ (wf_ids_nodup _ _ _ (W x)) _ eq_refl it Hin Hd).
Qed.

(* MAIN THEOREM: in every state reached by an edit history from a well-formed base (in particular from every
   base the checker builds), every live item's id is mapped to the index at which Wasm's rule finds
   that very item in the model's own output. *)
Theorem reachable_binding : forall base h m rets, wf base -> run_pref base h [] = (m, rets, false) ->
  forall x,
  forall l mp, index_space (get_sp m x) = Ok (l, mp) ->
  forall it, In it (s_items (get_sp m x)) -> it_del it = false ->
  exists q, lookup mp (it_id it) = Some q /\ nthN (space_of_model m l x) q = Some (it_fp it).
Proof.
  intros base h m rets Wb Hrun x. exact (wf_binding m x (run_pref_wf _ _ _ _ _ _ Wb Hrun)).
Qed.

Corollary case_binding (c : rcase) : forall x,
  forall l mp, index_space (get_sp (final_model c) x) = Ok (l, mp) ->
  forall it, In it (s_items (get_sp (final_model c) x)) -> it_del it = false ->
  exists q, lookup mp (it_id it) = Some q /\ nthN (space_of_model (final_model c) l x) q = Some (it_fp it).
Proof. intros x. exact (wf_binding _ x (wf_final_model c)). Qed.

(* index_space never panics in a reachable state (the assert_eq!(len, map.len()) of recalculate_ids holds) *)
Theorem wf_index_space_total m x : wf m -> exists l mp, index_space (get_sp m x) = Ok (l, mp).
Proof. intros W. exact (index_space_total _ _ _ (W x)). Qed.

(* nothing deleted is left in the index space of a well-formed state (unconditionally since the repair of D06 / D26) *)
Theorem wf_no_deleted_left m x : wf m ->
  forall l mp, index_space (get_sp m x) = Ok (l, mp) -> forall it, In it l -> it_del it = false.
Proof.
  intros W l mp H it Hin. destruct (index_space_wf _ _ _ (W x) _ _ H) as [-> _].
  exact (spec_no_deleted _ _ it Hin).
Qed.

(* loud failure: an id all of whose carriers are deleted (or that no item carries) has no entry in the id map, so
   every re-indexed reference to it makes encode panic ("Deleted function!") *)
Theorem wf_deleted_unmapped m x : wf m ->
  forall l mp, index_space (get_sp m x) = Ok (l, mp) ->
  forall id, (forall it, In it (s_items (get_sp m x)) -> it_id it = id -> it_del it = true) ->
  lookup mp id = None.
Proof.
  intros W l mp H id Hid. pose proof (wf_no_deleted_left m x W l mp H) as Hnd.
  destruct (index_space_wf _ _ _ (W x) _ _ H) as [El ->]. apply mapping_absent.
  intros Hin. apply in_map_iff in Hin as [it [Eid Hit]].
  pose proof (Hnd it Hit) as Hlive. rewrite El in Hit. apply spec_incl in Hit.
  rewrite (Hid it Hit Eid) in Hlive. discriminate.
Qed.
Corollary wf_deleted_item_unmapped m x : wf m ->
  forall l mp, index_space (get_sp m x) = Ok (l, mp) ->
  forall it, In it (s_items (get_sp m x)) -> it_del it = true -> lookup mp (it_id it) = None.
Proof.
  intros W l mp H it Hin Hd. apply (wf_deleted_unmapped m x W l mp H).
  intros it' Hin' E.
  destruct (In_nth_error _ _ Hin) as [p Hp]. destruct (In_nth_error _ _ Hin') as [p' Hp'].
  pose proof (wf_ids _ _ _ (W x) p it Hp) as E1. pose proof (wf_ids _ _ _ (W x) p' it' Hp') as E2.
  assert (p = p') by lia. subst p'. congruence.
Qed.

(* ------------------------------------------------------------------------------------------ *)
(* 4. in the vocabulary of CheckReidx.v: [designates] on the result of [encode] *)

Lemma encode_ok m dead sites e : encode m dead sites = Ok e ->
  exists lf mf lg mg lm mm,
    index_space (m_f m) = Ok (lf, mf) /\ index_space (m_g m) = Ok (lg, mg) /\ index_space (m_m m) = Ok (lm, mm) /\
    e_imports e = model_imports m /\
    e_funcs e = emitted_locals lf true /\ e_globals e = emitted_locals lg true /\ e_mems e = emitted_locals lm false.
Proof.
  unfold encode. intros H.
  destruct (index_space (m_f m)) as [[lf mf]|] eqn:Hf; [|discriminate].
  destruct (index_space (m_g m)) as [[lg mg]|] eqn:Hg; [|discriminate].
  destruct (index_space (m_m m)) as [[lm mm]|] eqn:Hm; [|discriminate].
  match type of H with match ?X with _ => _ end = _ => destruct X; [|discriminate] end.
  inversion H; subst e. exists lf, mf, lg, mg, lm, mm. cbn [e_imports e_funcs e_globals e_mems].
  unfold model_imports, ispace_m. cbn [get_sp]. rewrite Hf, Hg, Hm. repeat split; reflexivity.
Qed.

(* memories are emitted without the deleted check; with nothing deleted left this is the same list *)
Lemma emitted_locals_nocheck l : (forall it, In it l -> it_del it = false) -> emitted_locals l false = emitted_locals l true.
Proof.
  intros H. unfold emitted_locals. f_equal. apply filter_ext_in. intros i Hi. rewrite (H i Hi). reflexivity.
Qed.

Theorem wf_encode_designates m dead sites e : wf m -> encode m dead sites = Ok e ->
  forall x,
  forall l mp, index_space (get_sp m x) = Ok (l, mp) ->
  forall it, In it (s_items (get_sp m x)) -> it_del it = false ->
  exists q, lookup mp (it_id it) = Some q /\ designates e x q = Some (it_fp it).
Proof.
  intros W He x l mp H it Hin Hd.
  destruct (wf_binding m x W l mp H it Hin Hd) as [q [Hq Hn]].
  exists q. split; [exact Hq|].
  destruct (encode_ok _ _ _ _ He) as [lf [mf [lg [mg [lm [mm [Hf [Hg [Hm [Ei [Ef [Eg Em]]]]]]]]]]]].
  unfold designates, space_of. rewrite Ei. unfold space_of_model in Hn.
  destruct x; cbn [get_sp] in H.
  - rewrite Ef. rewrite H in Hf. inversion Hf; subst. exact Hn.
  - rewrite Eg. rewrite H in Hg. inversion Hg; subst. exact Hn.
  - rewrite Em. rewrite H in Hm. inversion Hm; subst.
    rewrite emitted_locals_nocheck; [exact Hn|]. exact (wf_no_deleted_left m SM W _ _ H).
Qed.

(* the same for every state reached by a history, and for the final state of every checker case *)
Theorem encode_designates : forall base h m rets dead sites e,
  wf base -> run_pref base h [] = (m, rets, false) -> encode m dead sites = Ok e ->
  forall x,
  forall l mp, index_space (get_sp m x) = Ok (l, mp) ->
  forall it, In it (s_items (get_sp m x)) -> it_del it = false ->
  exists q, lookup mp (it_id it) = Some q /\ designates e x q = Some (it_fp it).
Proof.
  intros base h m rets dead sites e Wb Hrun. exact (wf_encode_designates m dead sites e (run_pref_wf _ _ _ _ _ _ Wb Hrun)).
Qed.

Corollary case_encode_designates (c : rcase) e :
  encode (final_model c) (dead_exports (h_ops c)) (sites c) = Ok e ->
  forall x,
  forall l mp, index_space (get_sp (final_model c) x) = Ok (l, mp) ->
  forall it, In it (s_items (get_sp (final_model c) x)) -> it_del it = false ->
  exists q, lookup mp (it_id it) = Some q /\ designates e x q = Some (it_fp it).
Proof. exact (wf_encode_designates _ _ _ e (wf_final_model c)). Qed.

(* ------------------------------------------------------------------------------------------ *)
(* C09: outside D02 the emitted index space IS the reorganised vector, position by position, and that vector holds
   exactly the live items, each once *)

Theorem wf_space_is_index_space m x : wf m ->
  forall l mp, index_space (get_sp m x) = Ok (l, mp) ->
  space_of_model m l x = map it_fp l /\
  NoDup (map it_id l) /\
  (forall it, In it l <-> In it (s_items (get_sp m x)) /\ it_del it = false) /\
  (forall p it, nth_error l p = Some it -> lookup mp (it_id it) = Some (N.of_nat p)).
Proof.
  intros W l mp H.
  destruct (index_space_wf _ _ _ (W x) _ _ H) as [El Emp].
  pose proof (spec_ids_nodup (origN (get_sp m x)) _ (wf_ids_nodup _ _ _ (W x))) as Hnd. rewrite <- El in Hnd.
  split; [|split; [exact Hnd|split]].
  - unfold space_of_model. rewrite (wf_import_order_agrees m x W). rewrite El at 1.
    rewrite emitted_locals_spec.
    rewrite <- map_app, <- spec_split, <- El. reflexivity.
  - intros it. split.
    + intros Hin. split; [rewrite El in Hin; exact (spec_incl _ _ Hin)|exact (wf_no_deleted_left m x W l mp H it Hin)].
    + intros [Hin Hd]. rewrite El. exact (spec_keeps_live _ _ it Hin Hd).
  - intros p it Hp. rewrite Emp. exact (mapping_pos l p it Hnd Hp).
Qed.

(* without any premise: whatever the order of the import section, the recomputed vector holds exactly the live
   items, each once, and the id map sends every live item to its position and no deleted id anywhere *)
Theorem wf_index_space_exact m x : wf m ->
  forall l mp, index_space (get_sp m x) = Ok (l, mp) ->
  NoDup (map it_id l) /\
  (forall it, In it l <-> In it (s_items (get_sp m x)) /\ it_del it = false) /\
  (forall p it, nth_error l p = Some it -> lookup mp (it_id it) = Some (N.of_nat p)) /\
  emitted_locals l true = map it_fp (filter is_local l).
Proof.
  intros W l mp H.
  destruct (index_space_wf _ _ _ (W x) _ _ H) as [El Emp].
  pose proof (spec_ids_nodup (origN (get_sp m x)) _ (wf_ids_nodup _ _ _ (W x))) as Hnd. rewrite <- El in Hnd.
  split; [exact Hnd|split; [|split]].
  - intros it. split.
    + intros Hin. split; [rewrite El in Hin; exact (spec_incl _ _ Hin)|exact (wf_no_deleted_left m x W l mp H it Hin)].
    + intros [Hin Hd]. rewrite El. exact (spec_keeps_live _ _ it Hin Hd).
  - intros p it Hp. rewrite Emp. exact (mapping_pos l p it Hnd Hp).
  - unfold emitted_locals. f_equal. apply filter_ext_in. intros i Hi.
    rewrite (wf_no_deleted_left m x W l mp H i Hi). cbn. apply andb_true_r.
Qed.

(* C11 / C10: the in-place conversions.  Right after convert_local_fn_to_import the id of the converted function
   designates the new import; right after replace_import_in_module the id of the function that carried the import
   (resolved through the import since the repair of D07: it need not equal the ImportsID) designates the new local
   function. *)
Lemma l2i_item m id fp m' r it : mstep m (LocalToImport id fp) = Ok (m', r) ->
  nthN (s_items (m_f m)) id = Some it -> is_local it = true ->
  nthN (s_items (m_f m')) id = Some (mkItem id (Some (lenN (m_imports m))) false fp) /\
  m_imports m' = m_imports m ++ [mkImp 0 false fp].
Proof.
  intros H Hit Hl. cbn [Reindex.step] in H. rewrite Hit in H.
  rewrite (local_not_import _ Hl) in H.
  destruct (delete_in m SF id) as [m1|] eqn:E; [|discriminate].
  destruct (delete_in_ok _ _ _ _ E) as [it0 [Hit0 Em1]].
  assert (it0 = it) by (unfold nthN in Hit; cbn [get_sp] in Hit0; congruence). subst it0.
  assert (Hloc : it_imp it = None) by (unfold is_local in Hl; destruct (it_imp it); [discriminate|reflexivity]).
  rewrite Hloc in Em1.
  rewrite push_import_eq in H. cbv beta iota in H. injection H as Hm _. subst m' m1.
  cbn [s_items get_sp with_sp set_sp m_f m_imports]. split; [|reflexivity].
  rewrite nthN_updN_same. unfold nthN. rewrite nth_error_upd_same. unfold nthN in Hit. rewrite Hit. reflexivity.
Qed.
Lemma find_imp_spec : forall l k pos p, find_imp l k pos = Some p ->
  (pos <= p)%N /\ exists it, nth_error l (N.to_nat (p - pos)) = Some it /\ it_imp it = Some k.
Proof.
  induction l as [|i l IH]; intros k pos p H; [discriminate|]. cbn [find_imp] in H.
  assert (Hrec : find_imp l k (pos + 1) = Some p ->
                 (pos <= p)%N /\ exists it, nth_error (i :: l) (N.to_nat (p - pos)) = Some it /\ it_imp it = Some k).
  { intros H'. destruct (IH _ _ _ H') as [Hle [it [Hn Hi]]]. split; [lia|]. exists it. split; [|exact Hi].
    replace (N.to_nat (p - pos)) with (S (N.to_nat (p - (pos + 1)))) by lia. exact Hn. }
  destruct (it_imp i) as [k'|] eqn:Ei; [|exact (Hrec H)].
  destruct (N.eqb_spec k' k) as [->|Hne]; [|exact (Hrec H)].
  inversion H; subst p. split; [lia|]. exists i. rewrite N.sub_diag. split; [reflexivity|exact Ei].
Qed.
Lemma find_imp_first : forall l k pos p it, nth_error l p = Some it -> it_imp it = Some k ->
  (forall q b, nth_error l q = Some b -> it_imp b = Some k -> q = p) ->
  find_imp l k pos = Some (pos + N.of_nat p)%N.
Proof.
  induction l as [|i l IH]; intros k pos p it Hn Hi Huniq; [destruct p; discriminate|].
  cbn [find_imp]. destruct p as [|p].
  - cbn in Hn. inversion Hn; subst i. rewrite Hi, N.eqb_refl. f_equal. lia.
  - cbn in Hn.
    assert (Hi0 : match it_imp i with Some k' => N.eqb k' k = false | None => True end).
    { destruct (it_imp i) as [k'|] eqn:Ei; [|exact I]. destruct (N.eqb_spec k' k) as [->|]; [|reflexivity].
      pose proof (Huniq 0 i eq_refl Ei). discriminate. }
    assert (Hrec : find_imp l k (pos + 1) = Some (pos + 1 + N.of_nat p)%N).
    { apply (IH k (pos + 1)%N p it Hn Hi). intros q b Hq Hb. pose proof (Huniq (S q) b Hq Hb). lia. }
    replace (pos + N.of_nat (S p))%N with (pos + 1 + N.of_nat p)%N by lia.
    destruct (it_imp i) as [k'|]; [rewrite Hi0|]; exact Hrec.
Qed.
(* in a well-formed state the function item that carries import entry [k] is unique, so it is the one found *)
Lemma wf_find_imp m p it k : wf m -> nthN (s_items (m_f m)) p = Some it -> it_imp it = Some k ->
  find_imp (s_items (m_f m)) k 0 = Some p.
Proof.
  intros W Hn Hi. unfold nthN in Hn.
  rewrite (find_imp_first _ k 0%N (N.to_nat p) it Hn Hi).
  - f_equal. lia.
  - intros q b Hq Hb. exact (wf_inj _ _ _ (W SF) q (N.to_nat p) b it k Hq Hn Hb Hi).
Qed.

Lemma i2l_item m k fp m' r p it : wf m -> mstep m (ImportToLocal k fp) = Ok (m', r) ->
  nthN (s_items (m_f m)) p = Some it -> it_imp it = Some k ->
  nthN (s_items (m_f m')) p = Some (mkItem p None false fp).
Proof.
  intros W H Hit Hi. cbn [Reindex.step] in H.
  destruct (nthN (m_imports m) k) as [im|]; [|discriminate].
  destruct (negb (i_sp im =? 0)%N); [discriminate|].
  rewrite (wf_find_imp m p it k W Hit Hi) in H.
  destruct (delete_in m SF p) as [m1|] eqn:E; [|discriminate].
  destruct (delete_in_ok _ _ _ _ E) as [it0 [Hit0 Em1]].
  injection H as Hm _. subst m' m1.
  cbn [s_items get_sp with_sp set_sp m_f m_imports].
  rewrite nthN_updN_same. unfold nthN. rewrite nth_error_upd_same. unfold nthN in Hit. cbn [get_sp]. rewrite Hit. reflexivity.
Qed.

Theorem l2i_binding m id fp m' r it : wf m -> mstep m (LocalToImport id fp) = Ok (m', r) ->
  nthN (s_items (m_f m)) id = Some it -> is_local it = true ->
  forall l mp, index_space (m_f m') = Ok (l, mp) ->
  exists q, lookup mp id = Some q /\ nthN (space_of_model m' l SF) q = Some fp.
Proof.
  intros W H Hit Hl l mp Hs.
  destruct (l2i_item _ _ _ _ _ _ H Hit Hl) as [Hnew _].
  exact (wf_binding m' SF (step_wf _ _ _ _ W H) l mp Hs _ (nth_error_In _ _ Hnew) eq_refl).
Qed.
(* [p] is the FunctionID of the function that is import [k] - the id every use of the import carries *)
Theorem i2l_binding m k fp m' r p it : wf m -> mstep m (ImportToLocal k fp) = Ok (m', r) ->
  nthN (s_items (m_f m)) p = Some it -> it_imp it = Some k ->
  forall l mp, index_space (m_f m') = Ok (l, mp) ->
  exists q, lookup mp p = Some q /\ nthN (space_of_model m' l SF) q = Some fp.
Proof.
  intros W H Hit Hi l mp Hs.
  pose proof (i2l_item _ _ _ _ _ _ _ W H Hit Hi) as Hnew.
  exact (wf_binding m' SF (step_wf _ _ _ _ W H) l mp Hs _ (nth_error_In _ _ Hnew) eq_refl).
Qed.
(* with a non-function import in front: import entry 1 is function 0 *)
Example i2l_binding_nonfunction_import_in_front :
  let c := mkRC [(2, 7); (0, 1)]%N [11]%N [] [] 0%N [ImportToLocal 1 51]%N [] [] false None false false in
  map it_fp (s_items (m_f (final_model c))) = [51; 11]%N /\ map it_imp (s_items (m_f (final_model c))) = [None; None] /\
  map i_del (m_imports (final_model c)) = [false; true].
Proof. vm_compute. repeat split; reflexivity. Qed.

(* ------------------------------------------------------------------------------------------ *)
(* everything in the checker's vocabulary: for every case (any base, any history) every live item's id designates - by
   Wasm's rule applied to what [encode] returns - the entity with that item's fingerprint; deleted ids are unmapped
   and nothing deleted is left.  No known class is excluded any more (D02, D06, D26 are repaired). *)
Theorem case_binding_outside_known_classes (c : rcase) e :
  encode (final_model c) (dead_exports (h_ops c)) (sites c) = Ok e ->
  forall x l mp, index_space (get_sp (final_model c) x) = Ok (l, mp) ->
  (forall it, In it (s_items (get_sp (final_model c) x)) -> it_del it = false ->
     exists q, lookup mp (it_id it) = Some q /\ designates e x q = Some (it_fp it)) /\
  (forall it, In it (s_items (get_sp (final_model c) x)) -> it_del it = true -> lookup mp (it_id it) = None) /\
  (forall it, In it l -> it_del it = false).
Proof.
  intros He x l mp H.
  pose proof (wf_final_model c) as W.
  split; [|split].
  - exact (wf_encode_designates _ _ _ e W He x l mp H).
  - exact (wf_deleted_item_unmapped _ x W l mp H).
  - exact (wf_no_deleted_left _ x W l mp H).
Qed.

Local Open Scope N_scope.
(* non-vacuity: a history with a deletion, a conversion in each direction, an added import and added locals lies
   encodes, and the theorem's conclusion is visible on it (id 2 is the deleted one) *)
Example reachable_binding_nonvacuous :
  let c := mkRC [(0, 1); (1, 2); (0, 3)] [11; 12; 99] [5] [7] 0
             [Delete SF 2; LocalToImport 3 41; AddImport SF 21; AddLocal SG 6; AddImport SM 8; ImportToLocal 0 51]
             [] [] false None false false in
  map it_fp (s_items (m_f (final_model c))) = [51; 3; 11; 41; 99; 21] /\
  (match encode (final_model c) [] [] with
   | Ok e => map (fun id => match lookup (snd (ispace_m (final_model c) SF)) id with
                            | Some q => designates e SF q | None => None end) [0; 1; 2; 3; 4; 5]
   | Panic _ => []
   end) = [Some 51; Some 3; None; Some 41; Some 99; Some 21].
Proof. vm_compute. repeat split; reflexivity. Qed.
(* former D02: the same edits with the import added before the conversion.  The import vector holds the added
   import (entry 3) before the converted one (entry 4), the index space holds them the other way round; the import
   section now follows the index space (e_imports lists 41 before 21), so every id still finds its own entity *)
Example reachable_binding_former_D02_witness :
  let c := mkRC [(0, 1); (1, 2); (0, 3)] [11; 12; 99] [5] [7] 0
             [AddImport SF 21; Delete SF 2; LocalToImport 3 41; AddLocal SG 6; AddImport SM 8; ImportToLocal 0 51]
             [] [] false None false false in
  map i_fp (m_imports (final_model c)) = [1; 2; 3; 21; 41; 8] /\
  map it_fp (s_items (m_f (final_model c))) = [51; 3; 11; 41; 99; 21] /\
  (match encode (final_model c) [] [] with
   | Ok e => (e_imports e,
              map (fun id => match lookup (snd (ispace_m (final_model c) SF)) id with
                             | Some q => designates e SF q | None => None end) [0; 1; 2; 3; 4; 5])
   | Panic _ => ([], [])
   end) = ([(1, 2); (0, 3); (0, 41); (0, 21); (2, 8)], [Some 51; Some 3; None; Some 41; Some 99; Some 21]).
Proof. vm_compute. repeat split; reflexivity. Qed.

Print Assumptions step_wf.
Print Assumptions run_pref_wf.
Print Assumptions wf_mk_base.
Print Assumptions wf_final_model.
Print Assumptions index_space_wf.
Print Assumptions wf_index_space_total.
Print Assumptions import_order_agrees.
Print Assumptions wf_import_order_agrees.
Print Assumptions wf_emitted_imports_kind.
Print Assumptions space_binding.
Print Assumptions wf_binding.
Print Assumptions reachable_binding.
Print Assumptions case_binding.
Print Assumptions wf_no_deleted_left.
Print Assumptions wf_deleted_unmapped.
Print Assumptions wf_deleted_item_unmapped.
Print Assumptions wf_encode_designates.
Print Assumptions encode_designates.
Print Assumptions case_encode_designates.
Print Assumptions wf_space_is_index_space.
Print Assumptions wf_index_space_exact.
Print Assumptions l2i_binding.
Print Assumptions i2l_binding.
Print Assumptions case_binding_outside_known_classes.
