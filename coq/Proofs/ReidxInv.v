(* C06 / C07 / C08 (C09-C11 as corollaries): the binding theorem of ReidxBind.v lifted from "any item vector with
   hypotheses" to "every state reachable by an edit history".

   1. [wf]: the invariant the edit API maintains (stored id = position; the original-import count is constant and
      within the vector; every import item is linked to its entry of [m_imports]; distinct import items carry
      distinct entries; every live entry is carried by an item; a space that was never flagged for recalculation is
      still imports-first with nothing deleted).  [wf_mk_base], [step_wf], [run_pref_wf].
   2. [okD02 / okD06 / okD26]: the known classes as boolean predicates on the state, and their link to the
      classifiers of CheckReidx.v.
   3. [reachable_binding]: outside the three classes, in every reachable state, every live item's id is mapped to the
      index at which Wasm's index rule - computed from what the model itself emits - finds that very item.
      The hypothesis [noD02] of ReidxBind.v is *derived* from okD02 + the linkage invariant.
   4. Corollaries in the vocabulary of CheckReidx.v ([designates] on the result of [encode]), loud failure for
      deleted ids, nothing deleted is left. *)
From Coq Require Import List Arith NArith Bool Lia.
Import ListNotations.
From Orca Require Import Reindex Reorg ReidxProofs ReidxBind CheckReidx.
Local Open Scope nat_scope.

(* Reorg.v re-binds the names [step] and [reorganise]; the edit step of the model is [Reindex.step]. *)
Notation mstep := Reindex.step.

(* ------------------------------------------------------------------------------------------ *)
(* list helpers *)

Lemma nth_error_upd_same {A} (f : A -> A) : forall n l, nth_error (upd n f l) n = option_map f (nth_error l n).
Proof. induction n as [|n IH]; intros [|x l]; cbn; auto. Qed.
Lemma nth_error_upd_other {A} (f : A -> A) : forall n l p, n <> p -> nth_error (upd n f l) p = nth_error l p.
Proof.
  induction n as [|n IH]; intros [|x l] p Hne; cbn; auto.
  - destruct p; [congruence|reflexivity].
  - destruct p; [reflexivity|]. cbn. apply IH. congruence.
Qed.
Lemma upd_length {A} (f : A -> A) : forall n l, length (upd n f l) = length l.
Proof. induction n as [|n IH]; intros [|x l]; cbn; auto. Qed.

Lemma nth_error_snoc {A} (l : list A) a p x :
  nth_error (l ++ [a]) p = Some x -> nth_error l p = Some x \/ (p = length l /\ x = a).
Proof.
  revert p. induction l as [|y l IH]; intros p H.
  - destruct p as [|p]; cbn in H; [inversion H; right; auto|destruct p; discriminate].
  - destruct p as [|p]; cbn in H |- *; [left; exact H|].
    destruct (IH p H) as [H1|[H1 H2]]; [left; exact H1|right; split; [congruence|exact H2]].
Qed.
Lemma nth_error_snoc_l {A} (l : list A) a p x : nth_error l p = Some x -> nth_error (l ++ [a]) p = Some x.
Proof.
  intros H. rewrite nth_error_app1; [exact H|]. apply nth_error_Some. congruence.
Qed.
Lemma nth_error_snoc_r {A} (l : list A) a : nth_error (l ++ [a]) (length l) = Some a.
Proof. rewrite nth_error_app2 by lia. rewrite Nat.sub_diag. reflexivity. Qed.
Lemma nth_error_len_none {A} (l : list A) x : nth_error l (length l) = Some x -> False.
Proof. intros H. assert (length l < length l) by (apply nth_error_Some; congruence). lia. Qed.

Lemma nth_error_ext' {A} : forall l l' : list A, (forall n, nth_error l n = nth_error l' n) -> l = l'.
Proof.
  induction l as [|x l IH]; intros [|y l'] H; [reflexivity|specialize (H 0); discriminate|specialize (H 0); discriminate|].
  pose proof (H 0) as H0. cbn in H0. inversion H0; subst. f_equal. apply IH. intros n. exact (H (S n)).
Qed.

Lemma In_firstn_nth {A} : forall n (l : list A) x, In x (firstn n l) -> exists p, p < n /\ nth_error l p = Some x.
Proof.
  induction n as [|n IH]; intros [|y l] x H; cbn in H; try contradiction.
  destruct H as [->|H]; [exists 0; split; [lia|reflexivity]|].
  destruct (IH l x H) as [p [Hp Hn]]. exists (S p). split; [lia|exact Hn].
Qed.
Lemma In_skipn_nth {A} : forall n (l : list A) x, In x (skipn n l) -> exists p, n <= p /\ nth_error l p = Some x.
Proof.
  induction n as [|n IH]; intros l x H.
  - cbn in H. apply In_nth_error in H as [p Hp]. exists p. split; [lia|exact Hp].
  - destruct l as [|y l]; cbn in H; [contradiction|].
    destruct (IH l x H) as [p [Hp Hn]]. exists (S p). split; [lia|exact Hn].
Qed.
Lemma nth_In_firstn {A} : forall n (l : list A) p x, p < n -> nth_error l p = Some x -> In x (firstn n l).
Proof.
  induction n as [|n IH]; intros l p x Hp H; [lia|].
  destruct l as [|y l]; [destruct p; discriminate|].
  destruct p as [|p]; cbn in H |- *; [left; congruence|right; apply (IH l p); [lia|exact H]].
Qed.
Lemma nth_In_skipn {A} : forall n (l : list A) p x, n <= p -> nth_error l p = Some x -> In x (skipn n l).
Proof.
  induction n as [|n IH]; intros l p x Hp H; [cbn; eapply nth_error_In; exact H|].
  destruct l as [|y l]; [destruct p; discriminate|].
  destruct p as [|p]; [lia|]. cbn in H |- *. apply (IH l p); [lia|exact H].
Qed.
Lemma In_firstn_In {A} n (l : list A) x : In x (firstn n l) -> In x l.
Proof. intros H. rewrite <- (firstn_skipn n l). apply in_or_app. left. exact H. Qed.
Lemma In_skipn_In {A} n (l : list A) x : In x (skipn n l) -> In x l.
Proof. intros H. rewrite <- (firstn_skipn n l). apply in_or_app. right. exact H. Qed.

(* ------------------------------------------------------------------------------------------ *)
(* 1. the invariant *)

Definition origN (x : space) : nat := N.to_nat (s_num x - s_added x).

Record wf_space (code : N) (imps : list imp) (x : space) : Prop := mkWf {
  (* the stored id of an item is its position (hence the ids are pairwise distinct) *)
  wf_ids : forall p it, nth_error (s_items x) p = Some it -> it_id it = N.of_nat p;
  (* the number of original imports is well defined and within the vector *)
  wf_cnt : (s_added x <= s_num x)%N;
  wf_orig : origN x <= length (s_items x);
  (* linkage: an import item designates an entry of the import list of its own kind that carries the same
     fingerprint and the same deleted flag *)
  wf_link : forall p it k, nth_error (s_items x) p = Some it -> it_imp it = Some k ->
            nthN imps k = Some (mkImp code (it_del it) (it_fp it));
  (* distinct import items carry distinct entries *)
  wf_inj : forall p q a b k, nth_error (s_items x) p = Some a -> nth_error (s_items x) q = Some b ->
            it_imp a = Some k -> it_imp b = Some k -> p = q;
  (* every live entry of this kind is carried by an item *)
  wf_cover : forall k im, nthN imps k = Some im -> i_sp im = code -> i_del im = false ->
            exists p it, nth_error (s_items x) p = Some it /\ it_imp it = Some k;
  (* pristine: a space never flagged for recalculation has no added import, no deleted item, and its import
     items are exactly the first [s_num] ones *)
  wf_prist : s_recalc x = false ->
            s_added x = 0%N /\
            forall p it, nth_error (s_items x) p = Some it ->
               it_del it = false /\ (is_import it = true <-> p < N.to_nat (s_num x)) }.

Definition wf (m : mst) : Prop := forall sp, wf_space (sp_code sp) (m_imports m) (get_sp m sp).

Lemma wf_ids_map code imps x : wf_space code imps x ->
  map it_id (s_items x) = map N.of_nat (seq 0 (length (s_items x))).
Proof.
  intros W. apply nth_error_ext'. intros p.
  rewrite !nth_error_map.
  destruct (nth_error (s_items x) p) as [it|] eqn:E.
  - assert (Hp : p < length (s_items x)) by (apply nth_error_Some; congruence).
    cbn [option_map]. rewrite (wf_ids _ _ _ W p it E).
    assert (Hs : nth_error (seq 0 (length (s_items x))) p = Some p).
    { rewrite (nth_error_nth' _ 0) by (rewrite seq_length; exact Hp). rewrite seq_nth by exact Hp. reflexivity. }
    rewrite Hs. reflexivity.
  - assert (Hp : length (s_items x) <= p) by (apply nth_error_None; exact E).
    assert (Hs : nth_error (seq 0 (length (s_items x))) p = None) by (apply nth_error_None; rewrite seq_length; exact Hp).
    rewrite Hs. reflexivity.
Qed.

Lemma wf_ids_nodup code imps x : wf_space code imps x -> NoDup (map it_id (s_items x)).
Proof.
  intros W. apply NoDup_nth_error. intros i j Hi E.
  rewrite map_length in Hi. rewrite !nth_error_map in E.
  destruct (nth_error (s_items x) i) as [a|] eqn:Ea; [|apply nth_error_None in Ea; lia].
  destruct (nth_error (s_items x) j) as [b|] eqn:Eb; [|discriminate].
  cbn in E. inversion E as [E'].
  rewrite (wf_ids _ _ _ W i a Ea), (wf_ids _ _ _ W j b Eb) in E'. lia.
Qed.
