(* C21 / C22: facts about the injection API model (acceptance, rejection, the has_special_instr flag). *)
From Coq Require Import List Arith NArith ZArith Bool Lia.
Import ListNotations.
From Orca Require Import Util Flat Lowering CheckLow.

(* an injection the instruction cannot honour is rejected at the call (the API panics): never recorded *)
Theorem add_instr_rejects op m x f : accepts op m = false -> add_instr op m x f = None.
Proof.
  unfold accepts, add_instr. destruct m; try discriminate; intros H; rewrite ?H; try reflexivity.
Qed.
Theorem add_instr_accepts op m x f : accepts op m = true -> exists f' s, add_instr op m x f = Some (f', s).
Proof.
  unfold accepts, add_instr. destruct m; intros H; rewrite ?H; eauto.
Qed.
(* an accepted special-mode injection reports "special" to its caller; plain modes never do *)
Theorem add_instr_special_flag op m x f f' s : add_instr op m x f = Some (f', s) -> s = special_mode m.
Proof.
  unfold add_instr, special_mode, plain_mode.
  destruct m; try (intros H; inversion H; reflexivity);
    destruct (is_block_style op || is_branching op), (is_block_style op); intros H; inversion H; reflexivity.
Qed.
(* ... and the injected operator is recorded in the list of exactly that mode *)
Theorem add_instr_records op x f f' s :
  (add_instr op MSemanticAfter x f = Some (f', s) -> f_sa f' = f_sa f ++ [x]) /\
  (add_instr op MBlockEntry x f = Some (f', s) -> f_be f' = f_be f ++ [x]) /\
  (add_instr op MBlockExit x f = Some (f', s) -> f_bx f' = f_bx f ++ [x]) /\
  (add_instr op MBlockAlt x f = Some (f', s) -> exists a, f_balt f' = Some (a ++ [x])).
Proof.
  unfold add_instr. repeat split.
  - destruct (is_block_style op || is_branching op); intros H; inversion H; reflexivity.
  - destruct (is_block_style op); intros H; inversion H; reflexivity.
  - destruct (is_block_style op); intros H; inversion H; reflexivity.
  - destruct (is_block_style op); intros H; inversion H. destruct (f_balt f); cbn; [eexists; reflexivity|exists []; reflexivity].
Qed.
